(* C07, part C: FUEL ADEQUACY of the model of the type checker.  [check_fuel_needed P] units of
   fuel are enough: with that much the checker never answers CNoFuel -- provided the
   exhaustiveness oracle (Exhaust/Useful.v, run with its own bound [fuel_bound]) does not;
   unconditionally for programs whose `let` / `for` patterns are irrefutable and that have no
   `match`. *)
From Coq Require Import Lia Bool.
From GV Require Import Base.Util Front.Scan Front.ParseExpr Check.UAst Check.Infer Check.InferProofs Check.InferTotal.
Local Open Scope nat_scope.

(* ================================================================ the typed tree: how deep
   constrain_type / constrain_to_i32 can descend *)

Fixpoint td (e : texpr) : nat :=
  match e with
  | TE i _ =>
      match i with
      | TArrayLiteral es => S (list_max (map td es))
      | TArrayRepeatLiteral x _ => S (td x)
      | TTupleLiteral es => S (list_max (map td es))
      | TMatch _ arms => S (list_max (map (fun a => td (snd a)) arms))
      | TUnaryOp _ x => S (td x)
      | TOp _ a b => S (Nat.max (td a) (td b))
      | TBlock b => S (list_max (map tsd b))
      | TIf _ a b => S (Nat.max (td a) (td b))
      | _ => 1
      end
  end
with tsd (s : tstmt) : nat :=
  match s with TSExpr e => td e | _ => 0 end.

Lemma td_set_ty e t : td (set_ty e t) = td e.
Proof. destruct e; reflexivity. Qed.

Lemma td_pos e : 1 <= td e.
Proof. destruct e as [i t]; destruct i; cbn [td]; lia. Qed.

(* ================================================================ post-conditions *)

Definition post {A} (Q : A -> Prop) (r : cres A) : Prop :=
  match r with COk a => Q a | CNoFuel => False | _ => True end.

Lemma post_bind {A B} (Q : A -> Prop) (R : B -> Prop) (r : cres A) (k : A -> cres B) :
  post Q r -> (forall a, Q a -> post R (k a)) -> post R (cbind r k).
Proof. destruct r; cbn [cbind post]; auto. Qed.

Lemma post_nf {A} (r : cres A) : nf r -> post (fun _ => True) r.
Proof. destruct r; cbn [post]; auto. discriminate. Qed.

Lemma post_weaken {A} (Q R : A -> Prop) r : post Q r -> (forall a, Q a -> R a) -> post R r.
Proof. destruct r; cbn [post]; auto. Qed.

Lemma post_nofuel {A} (Q : A -> Prop) r : post Q r -> r <> CNoFuel.
Proof. intros H E. subst r. exact H. Qed.

Lemma post_mapM {A B} (f : A -> cres B) (P : A -> Prop) (Q : B -> Prop) :
  (forall x, P x -> post Q (f x)) -> forall l, Forall P l -> post (Forall Q) (mapM f l).
Proof.
  intros H l Hl. induction Hl as [|x l Hx _ IH]; cbn [mapM]; [constructor|].
  eapply post_bind; [apply H; exact Hx|]. intros a Qa. eapply post_bind; [exact IH|]. intros b Qb. constructor; assumption.
Qed.

Lemma post_zipM {A B} (f : A -> B -> cres A) (P : A -> Prop) :
  (forall x y, P x -> post P (f x y)) -> forall xs ys, Forall P xs -> post (Forall P) (zipM f xs ys).
Proof.
  intros H xs. induction xs as [|x xs IH]; intros ys Hl; destruct ys as [|y ys]; cbn [zipM]; try exact Hl.
  inversion Hl; subst. eapply post_bind; [apply H; assumption|]. intros a Qa.
  eapply post_bind; [apply IH; assumption|]. intros b Qb. constructor; assumption.
Qed.

Lemma post_map_last_expr f n : (forall e, td e <= n -> post (fun e' => td e' <= n) (f e)) ->
  forall b, Forall (fun s => tsd s <= n) b -> post (Forall (fun s => tsd s <= n)) (map_last_expr f b).
Proof.
  intros H b Hb. induction Hb as [|s b Hs Hb IH]; cbn [map_last_expr]; [constructor|].
  destruct b as [|s2 b2].
  - destruct s; try (constructor; [exact Hs|constructor]).
    eapply post_bind; [apply H; exact Hs|]. intros e' He'. constructor; [exact He'|constructor].
  - destruct s; (eapply post_bind; [exact IH|]; intros r Hr; constructor; assumption).
Qed.

Lemma list_max_map_le {A} (g : A -> nat) l n : list_max (map g l) <= n <-> Forall (fun x => g x <= n) l.
Proof. rewrite list_max_le. rewrite Forall_map. reflexivity. Qed.

(* ---------------------------------------------------------------- the fuel-free helpers *)

Lemma post_coc_u e t : post (fun e' => td e' = td e) (check_or_constrain_unsigned e t).
Proof.
  unfold check_or_constrain_unsigned. destruct (_ && _); [exact I|].
  destruct (unsigned_max t); [|apply td_set_ty]. destruct (inner_of e); try apply td_set_ty.
  destruct (_ <? _)%N; [exact I|apply td_set_ty].
Qed.

Lemma post_coc_s e t : post (fun e' => td e' = td e) (check_or_constrain_signed e t).
Proof.
  unfold check_or_constrain_signed. destruct (_ && _); [exact I|]. cbv zeta.
  match goal with |- post _ (if ?c then _ else _) => destruct c end; [exact I|].
  match goal with |- post _ (if ?c then _ else _) => destruct c end; [exact I|]. apply td_set_ty.
Qed.

(* ---------------------------------------------------------------- constrain_type *)

Lemma post_constrain_type : forall f n e t, td e <= n -> n <= f -> post (fun e' => td e' <= n) (constrain_type f e t).
Proof.
  induction f as [|f IH]; intros n e t He Hn; [pose proof (td_pos e); lia|].
  cbn [constrain_type]. cbv zeta.
  assert (Hleaf : post (fun e' => td e' <= n)
            (match t with
             | CUnsigned t0 => check_or_constrain_unsigned e t0
             | CSigned t0 => check_or_constrain_signed e t0
             | _ => COk e end)).
  { destruct t; try exact He; (eapply post_weaken; [first [apply post_coc_u|apply post_coc_s]|]; intros a Ha; cbv beta in *; lia). }
  eapply post_bind; [|intros e1 He1; cbn [post]; rewrite td_set_ty; exact He1].
  destruct e as [i ty]. cbn [inner_of ty_of] in *. pose proof (td_pos (TE i ty)) as Hp.
  destruct n as [|n]; [lia|]. assert (Hn' : n <= f) by lia.
  destruct i; try exact Hleaf; cbn [td] in He.
  - (* identifier *)
    destruct t; try exact Hleaf; cbn [post]; rewrite td_set_ty; exact He.
  - (* array literal *)
    destruct t; try exact Hleaf.
    eapply post_bind; [apply (post_mapM _ (fun x => td x <= n) (fun x => td x <= n)); [intros x Hx; apply IH; assumption|]|].
    + apply list_max_map_le. lia.
    + intros es' Hes. cbn [post td]. apply le_n_S. apply list_max_map_le. exact Hes.
  - destruct t; try exact Hleaf.
    eapply post_bind; [apply (IH n); [lia|exact Hn']|]. intros x' Hx. cbv beta in *; cbn [post td]; lia.
  - (* tuple *)
    destruct t; try exact Hleaf. destruct (_ =? _)%N; [|exact He].
    eapply post_bind; [apply (post_zipM _ (fun x => td x <= n)); [intros x y Hx; apply IH; assumption|]|].
    + apply list_max_map_le. lia.
    + intros es' Hes. cbn [post td]. apply le_n_S. apply list_max_map_le. exact Hes.
  - (* match *)
    eapply post_bind; [apply (post_mapM _ (fun a => td (snd a) <= n) (fun a => td (snd a) <= n))|].
    + intros pc Hpc. eapply post_bind; [apply (IH n); [exact Hpc|exact Hn']|]. intros b Hb. exact Hb.
    + apply list_max_map_le. lia.
    + intros cl Hcl. cbn [post td]. apply le_n_S. apply list_max_map_le. exact Hcl.
  - (* unary *)
    eapply post_bind; [apply (IH n); [lia|exact Hn']|]. intros x' Hx. cbv beta in *; cbn [post td]; lia.
  - (* op *)
    destruct o; try exact He;
      try (eapply post_bind; [apply (IH n); [lia|exact Hn']|]; intros a' Ha;
           eapply post_bind; [apply (IH n); [lia|exact Hn']|]; intros b' Hb; cbv beta in *; cbn [post td]; lia);
      (eapply post_bind; [apply (IH n); [lia|exact Hn']|]; intros a' Ha; cbv beta in *; cbn [post td]; lia).
  - (* block *)
    eapply post_bind; [apply (post_map_last_expr _ n); [intros x Hx; apply IH; assumption|]|].
    + apply list_max_map_le. lia.
    + intros b' Hb'. cbn [post td]. apply le_n_S. apply list_max_map_le. exact Hb'.
  - (* if *)
    eapply post_bind; [apply (IH n); [lia|exact Hn']|]. intros a' Ha.
    eapply post_bind; [apply (IH n); [lia|exact Hn']|]. intros b' Hb. cbv beta in *; cbn [post td]; lia.
  - (* range: an unsuffixed range takes the element type of the array; the node stays a leaf *)
    repeat match goal with
           | |- post _ (match ?x with _ => _ end) => destruct x
           | |- post _ (if ?c then _ else _) => destruct c
           end; try exact Hleaf; try exact I; cbn [post td]; lia.
Qed.

(* fix 64720dd: the deep versions run constrain_type on compound operands: they need fuel for the depth *)
Lemma post_coc_u_deep f n e t : td e <= n -> n <= f -> post (fun e' => td e' <= n) (coc_unsigned_deep f e t).
Proof.
  intros He Hn. unfold coc_unsigned_deep. destruct (_ && _); [exact I|].
  destruct (_ && _); [apply post_constrain_type; assumption|].
  eapply post_weaken; [apply post_coc_u|]. intros e' E. cbv beta in E. lia.
Qed.

Lemma post_coc_s_deep f n e t : td e <= n -> n <= f -> post (fun e' => td e' <= n) (coc_signed_deep f e t).
Proof.
  intros He Hn. unfold coc_signed_deep. destruct (_ && _); [exact I|].
  destruct (_ && _); [apply post_constrain_type; assumption|].
  eapply post_weaken; [apply post_coc_s|]. intros e' E. cbv beta in E. lia.
Qed.

Lemma post_unify f n a b : td a <= n -> td b <= n -> n <= f ->
  post (fun u => td (fst (fst u)) <= n /\ td (snd (fst u)) <= n) (unify f a b).
Proof.
  intros Ha Hb Hn. unfold unify. cbv zeta. destruct (cty_eqb _ _); [cbn [post fst snd]; rewrite !td_set_ty; auto|].
  destruct (ty_of a) as [| [] | [] | | | |]; destruct (ty_of b) as [| [] | [] | | | |]; try exact I;
    (eapply post_bind; [first [apply (post_coc_u_deep f n)|apply (post_coc_s_deep f n)]; assumption|];
     intros e' He'; cbn [post fst snd]; rewrite !td_set_ty; auto).
Qed.

Lemma post_check_type f n e t : td e <= n -> n <= f -> post (fun e' => td e' <= n) (check_type f e t).
Proof.
  intros He Hn. unfold check_type. eapply post_bind; [apply post_constrain_type; eassumption|].
  intros e' He'. destruct (cty_eqb _ _); [exact He'|exact I].
Qed.

Lemma post_constrain_to_i32 : forall f n b, td b <= n -> n <= f -> post (fun b' => td b' <= n) (constrain_to_i32 f b).
Proof.
  induction f as [|f IH]; intros n b Hb Hn; [pose proof (td_pos b); lia|].
  cbn [constrain_to_i32].
  eapply post_bind with (Q := fun b1 => td b1 <= n).
  { destruct (_ || _); [apply (post_coc_s_deep (S f) n); assumption|exact Hb]. }
  intros b1 Hb1. eapply post_bind; [|intros b2 Hb2; cbn [post]; rewrite td_set_ty; exact Hb2].
  clear Hb. rename Hb1 into Hb. destruct b1 as [i ty]. cbn [inner_of ty_of].
  pose proof (td_pos (TE i ty)) as Hp. destruct n as [|n]; [lia|]. assert (Hn' : n <= f) by lia.
  destruct i; try exact Hb; cbn [td] in Hb.
  - eapply post_bind; [apply (post_mapM _ (fun x => td x <= n) (fun x => td x <= n)); [intros x Hx; apply IH; assumption|]|].
    + apply list_max_map_le. lia.
    + intros es' Hes. cbn [post td]. apply le_n_S. apply list_max_map_le. exact Hes.
  - eapply post_bind; [apply (IH n); [lia|exact Hn']|]. intros x' Hx. cbv beta in *; cbn [post td]; lia.
  - eapply post_bind; [apply (post_mapM _ (fun x => td x <= n) (fun x => td x <= n)); [intros x Hx; apply IH; assumption|]|].
    + apply list_max_map_le. lia.
    + intros es' Hes. cbn [post td]. apply le_n_S. apply list_max_map_le. exact Hes.
Qed.

(* ================================================================ the fuel needed *)

Fixpoint xd (e : xexpr) : nat :=
  match e with
  | XTrue | XFalse | XNumUnsigned _ _ | XNumSigned _ _ | XIdentifier _ | XRange _ _ _ => 1
  | XArrayLiteral es => S (list_max (map xd es))
  | XArrayRepeatLiteral e _ => S (xd e)
  | XArrayRepeatLiteralConst _ _ => 1
  | XArrayAccess a i => S (Nat.max (xd a) (xd i))
  | XTupleLiteral es => S (list_max (map xd es))
  | XTupleAccess e _ => S (xd e)
  | XStructAccess e _ => S (xd e)
  | XStructLiteral _ fs => S (list_max (map (fun f => xd (snd f)) fs))
  | XEnumLiteral _ _ None => 1
  | XEnumLiteral _ _ (Some es) => S (list_max (map xd es))
  | XMatch e arms => S (Nat.max (xd e) (list_max (map (fun a => xd (snd a)) arms)))
  | XUnaryOp _ e => S (xd e)
  | XOp _ l r => S (Nat.max (xd l) (xd r))
  | XBlock b => S (S (list_max (map sdx b)))
  | XFnCall _ args => S (S (list_max (map xd args)))
  | XJoin _ => 1
  | XIf c t e => S (Nat.max (xd c) (Nat.max (xd t) (xd e)))
  | XCast _ e => S (xd e)
  end
with sdx (s : xstmt) : nat :=
  match s with
  | XSLet _ _ e => S (xd e)
  | XSLetMut _ _ e => S (xd e)
  | XSExpr e => S (xd e)
  | XSVarAssign _ accs e => S (Nat.max (list_max (map adx accs)) (xd e))
  | XSForEach _ e body => S (Nat.max (xd e) (S (list_max (map sdx body))))
  end
with adx (a : xaccessor) : nat :=
  match a with XAArray i => xd i | _ => 0 end.

(* a block / statement list *)
Definition bdx (b : list xstmt) : nat := S (list_max (map sdx b)).
(* a function: its own level and its body *)
Definition fneed (fd : ufndef) : nat := S (bdx (uf_body fd)).
Definition dmax (fns : list ufndef) : nat := list_max (map fneed fns).

(* how many function definitions can still be entered: those whose name is not being checked *)
Definition cnt (fns : list ufndef) (chk : list (list N)) : nat :=
  length (filter (fun fd => negb (memL (uf_name fd) chk)) fns).

Lemma in_list_max {A} (g : A -> nat) l x : In x l -> g x <= list_max (map g l).
Proof.
  intro H. assert (E : list_max (map g l) <= list_max (map g l)) by lia.
  apply list_max_map_le in E. rewrite Forall_forall in E. apply E, H.
Qed.

Lemma memL_cons x y l : memL x (y :: l) = list_eqb x y || memL x l.
Proof. reflexivity. Qed.

Lemma filter_length_le {A} (p q : A -> bool) l : (forall x, q x = true -> p x = true) ->
  length (filter q l) <= length (filter p l).
Proof.
  intro H. induction l as [|x l IH]; cbn [filter]; [lia|].
  destruct (q x) eqn:Eq; [rewrite (H x Eq); cbn [length]; lia|]. destruct (p x); cbn [length]; lia.
Qed.

Lemma cnt_enter fns chk fd : In fd fns -> memL (uf_name fd) chk = false ->
  cnt fns (uf_name fd :: chk) < cnt fns chk.
Proof.
  unfold cnt. intros Hin Hm. induction fns as [|g fns IH]; [destruct Hin|].
  cbn [filter]. rewrite memL_cons.
  destruct Hin as [->|Hin].
  - rewrite list_eqb_refl, Hm. cbn [orb negb length].
    pose proof (filter_length_le (fun fd0 => negb (memL (uf_name fd0) chk))
                  (fun fd0 => negb (memL (uf_name fd0) (uf_name fd :: chk))) fns) as Hle.
    assert (length (filter (fun fd0 => negb (memL (uf_name fd0) (uf_name fd :: chk))) fns) <=
            length (filter (fun fd0 => negb (memL (uf_name fd0) chk)) fns)).
    { apply Hle. intros x. rewrite memL_cons. destruct (list_eqb _ _); cbn [orb negb]; [discriminate|auto]. }
    lia.
  - specialize (IH Hin). destruct (memL (uf_name g) chk); cbn [orb negb].
    + rewrite orb_true_r. cbn [negb]. exact IH.
    + destruct (list_eqb _ _); cbn [orb negb length]; lia.
Qed.

(* ================================================================ the checker proper *)

Section Fuel.
Variable intern : list N -> N.
Notation check_expr := (check_expr intern).
Notation check_stmt := (check_stmt intern).
Notation check_stmts := (check_stmts intern).
Notation check_block := (check_block intern).
Notation check_fn := (check_fn intern).

(* the exhaustiveness oracle does not run out of ITS fuel (Useful.fuel_bound; UsefulProofs.useful_fuel
   proves this for well-typed patterns over types that unfold within depth 64) *)
Hypothesis Hex : forall D ps ty, nf (check_exhaustiveness intern D ps ty).

Definition chk_is (c0 : list (list N)) {A} (Q : A -> Prop) (r : A * cstate) : Prop :=
  st_checking (snd r) = c0 /\ Q (fst r).

Lemma post_mapM_st {A B} (g : cstate -> A -> cres (B * cstate)) c0 (Q : B -> Prop) l :
  (forall st x, In x l -> st_checking st = c0 -> post (chk_is c0 Q) (g st x)) ->
  forall st, st_checking st = c0 -> post (chk_is c0 (Forall Q)) (mapM_st g st l).
Proof.
  induction l as [|x l IH]; intros H st Hst; cbn [mapM_st]; [split; [exact Hst|constructor]|].
  eapply post_bind; [apply H; [now left|exact Hst]|]. intros r1 [H1 Q1].
  eapply post_bind; [apply IH; [intros; apply H; [now right|assumption]|exact H1]|]. intros r2 [H2 Q2].
  split; [exact H2|constructor; assumption].
Qed.

Ltac destr_and := cbv beta in *; unfold chk_is in *; cbn [fst snd] in *;
  repeat match goal with H : _ /\ _ |- _ => destruct H end.

Hint Resolve np_concrete_of np_expect_array_type np_expect_struct_type np_expect_tuple_type np_expect_num_type
  np_expect_signed_num_type np_expect_bool_or_num_type np_check_pattern : npdb.

Ltac pstep :=
  first [ apply post_coc_u | apply post_coc_s
        | apply post_nf; solve [auto with npdb] ].

Ltac post_go :=
  repeat match goal with
  | |- post _ (COk _) => cbn [post fst snd]
  | |- post _ (CErr _) => exact I
  | |- post _ COutside => exact I
  | |- post _ (cbind _ _) => eapply post_bind; [solve [pstep] | intros ? ?; destr_and]
  | |- post _ (if ?c then _ else _) => destruct c eqn:?
  | |- post _ (match ?x with _ => _ end) => destruct x eqn:?
  end.

Variable D : defs.
Let M := dmax (d_fns D).

Definition GoalE (f : nat) : Prop := forall c0 k st e, st_checking st = c0 -> cnt (d_fns D) c0 <= k -> xd e + k * M <= f ->
  post (chk_is c0 (fun te => td te <= f)) (check_expr f D st e).
Definition GoalSS (f : nat) : Prop := forall c0 k st b, st_checking st = c0 -> cnt (d_fns D) c0 <= k -> bdx b + k * M <= f ->
  post (chk_is c0 (Forall (fun s => tsd s <= f))) (check_stmts f D st b).
Definition GoalB (f : nat) : Prop := forall c0 k st b, st_checking st = c0 -> cnt (d_fns D) c0 <= k -> bdx b + k * M <= f ->
  post (fun r => st_checking (snd r) = c0 /\ Forall (fun s => tsd s <= f) (fst (fst r))) (check_block f D st b).
Definition GoalS (f : nat) : Prop := forall c0 k st s, st_checking st = c0 -> cnt (d_fns D) c0 <= k -> sdx s + k * M <= f ->
  post (chk_is c0 (fun ts => tsd ts <= f)) (check_stmt f D st s).
Definition GoalF (f : nat) : Prop := forall c0 k st fd, st_checking st = c0 -> cnt (d_fns D) c0 <= k -> In fd (d_fns D) ->
  1 + k * M <= f -> post (fun r => st_checking (snd r) = c0) (check_fn f D st fd).

Lemma Forall_le_mono (g : tstmt -> nat) n m l : n <= m -> Forall (fun s => g s <= n) l -> Forall (fun s => g s <= m) l.
Proof. intros H. apply Forall_impl. intros; lia. Qed.

Lemma fuel_stmts f : GoalS f -> GoalSS (S f) /\ GoalB (S f).
Proof.
  intro HS. split; intros c0 k st b Hst Hk Hf; cbn [Infer.check_stmts Infer.check_block]; unfold bdx in Hf.
  - eapply post_weaken; [apply (post_mapM_st _ c0 (fun s => tsd s <= f)); [|exact Hst]|].
    + intros st0 x Hx Hst0. eapply HS; [exact Hst0|exact Hk|]. pose proof (in_list_max sdx b x Hx). lia.
    + intros r [H1 H2]. split; [exact H1|]. eapply Forall_le_mono; [|exact H2]. lia.
  - eapply post_bind; [apply (post_mapM_st _ c0 (fun s => tsd s <= f)); [|exact Hst]|].
    + intros st0 x Hx Hst0. eapply HS; [exact Hst0|exact Hk|]. pose proof (in_list_max sdx b x Hx). lia.
    + intros r [H1 H2]. cbn [post fst snd]. split; [exact H1|]. eapply Forall_le_mono; [|exact H2]. lia.
Qed.
End Fuel.

(* ================================================================ the candidate bound

   [check_fuel_needed P]: every function body needs at most [dmax] levels; a chain of calls
   enters each function definition at most once ([cnt_enter]: the checker rejects recursion
   through st_checking), so (number of functions + 1) * (dmax + 1) levels are enough for the
   function part; contains_type_def enters every named type at most once (its `visited` set)
   and otherwise descends in a field type.

   PROVED above: the fuel of constrain_type / check_type / constrain_to_i32 is adequate as soon as
   it bounds the depth [td] of the typed tree they walk, and they do not increase [td]
   (post_constrain_type, post_check_type, post_constrain_to_i32); the measure of the call
   depth decreases at every function entry (cnt_enter); the step from statements to statement
   lists / blocks (fuel_stmts).
   NOT PROVED (see the report): the mutual induction over check_expr / check_stmt / check_fn that
   puts these together (statements GoalE .. GoalF), contains_type_def, the program level. *)

Fixpoint utd (t : utype) : nat :=
  match t with
  | UTTuple ts => S (list_max (map utd ts))
  | UTArray t _ => S (utd t)
  | UTArrayConst t _ => S (utd t)
  | UTArrayConstExpr t _ => S (utd t)
  | _ => 1
  end.

Definition type_fuel_needed (P : uprogram) : nat :=
  let field_tys := flat_map (fun sd => map snd (us_fields sd)) (up_structs P) ++
                   flat_map (fun ed => flat_map (fun v => match v with UVTuple _ ts => ts | UVUnit _ => [] end)
                                                (ue_variants ed)) (up_enums P) in
  S (S (length (up_structs P) + length (up_enums P)) * S (list_max (map utd field_tys))).

Definition check_fuel_needed (P : uprogram) : nat :=
  S (S (length (up_fns P)) * S (dmax (up_fns P))) + type_fuel_needed P.

Print Assumptions post_constrain_type.
Print Assumptions post_check_type.
Print Assumptions post_constrain_to_i32.
Print Assumptions cnt_enter.
Print Assumptions fuel_stmts.

(* sanity (vm_compute): with the candidate bound the example programs of Check/InferExamples.v
   are checked without CNoFuel, and with one unit the checker does answer CNoFuel *)
From GV Require Check.InferExamples.
Definition out_of_fuel {A} (r : cres A) : bool := match r with CNoFuel => true | _ => false end.
Example candidate_bound_examples :
  map (fun P => (check_fuel_needed P, out_of_fuel (check_program_t InferExamples.ex_intern (check_fuel_needed P) P),
                 out_of_fuel (check_program_t InferExamples.ex_intern 1 P)))
      [InferExamples.P_loop; InferExamples.P_call; InferExamples.P_s3; InferExamples.P_ops] =
  map (fun P => (check_fuel_needed P, false, true))
      [InferExamples.P_loop; InferExamples.P_call; InferExamples.P_s3; InferExamples.P_ops].
Proof. vm_compute. reflexivity. Qed.
