(* C06: the checker's exported program does not depend on the order of its HashMap-backed lists -
   programs WITH calls, no fuel hypotheses: the two fuel hypotheses of InferPerm2.check_perm_export
   are discharged from the fuel monotonicity of constrain_type / constrain_to_i32 (InferFuel2.v). *)
From Coq Require Import List Lia Permutation.
Import ListNotations.
From GV Require Import Base.Util Front.Scan Front.ParseExpr Check.UAst Check.Infer Check.InferFuel2 Check.InferPerm2.

Lemma le_res_trans {A} (a b c : cres A) : le_res a b -> le_res b c -> le_res a c.
Proof. intros [E|E] H; subst; [left; reflexivity|exact H]. Qed.

Lemma constrain_type_le : forall f f' e t, (f <= f')%nat -> le_res (constrain_type f e t) (constrain_type f' e t).
Proof.
  intros f f' e t H. induction H as [|f' Hle IH]; [right; reflexivity|].
  eapply le_res_trans; [exact IH|apply le_constrain_type].
Qed.

Lemma constrain_to_i32_le : forall f f' e, (f <= f')%nat -> le_res (constrain_to_i32 f e) (constrain_to_i32 f' e).
Proof.
  intros f f' e H. induction H as [|f' Hle IH]; [right; reflexivity|].
  eapply le_res_trans; [exact IH|apply le_constrain_to_i32].
Qed.

Lemma constrain_type_det f f2 e t a a' :
  constrain_type f e t = COk a -> constrain_type f2 e t = COk a' -> a = a'.
Proof.
  intros H1 H2. destruct (Nat.le_ge_cases f f2) as [L|L].
  - destruct (constrain_type_le f f2 e t L) as [E|E]; congruence.
  - destruct (constrain_type_le f2 f e t L) as [E|E]; congruence.
Qed.

Lemma constrain_to_i32_det f f2 e a a' :
  constrain_to_i32 f e = COk a -> constrain_to_i32 f2 e = COk a' -> a = a'.
Proof.
  intros H1 H2. destruct (Nat.le_ge_cases f f2) as [L|L].
  - destruct (constrain_to_i32_le f f2 e L) as [E|E]; congruence.
  - destruct (constrain_to_i32_le f2 f e L) as [E|E]; congruence.
Qed.

Theorem check_perm_export_final intern P Q f f' A B :
  (forall a b, intern a = intern b -> a = b) ->
  up_consts Q = up_consts P -> up_main Q = up_main P ->
  Permutation (up_fns P) (up_fns Q) -> Permutation (up_structs P) (up_structs Q) -> Permutation (up_enums P) (up_enums Q) ->
  NoDup (map uf_name (up_fns P)) -> NoDup (map us_name (up_structs P)) -> NoDup (map ue_name (up_enums P)) ->
  check_program intern f P = COk A -> check_program intern f' Q = COk B -> A = B.
Proof.
  intros Hi. apply (check_perm_export intern P Q f f' A B Hi constrain_type_det constrain_to_i32_det).
Qed.
Print Assumptions check_perm_export_final.
