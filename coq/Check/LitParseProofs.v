(* PROPERTIES OF THE MODEL OF `Literal::parse` / `GarbleProgram::parse_arg` (Check/LitParse.v).

   (P1) the API contract "a parsed argument is of the parameter's type":
        - for parse_arg it holds BY CONSTRUCTION (lib.rs applies `is_of_type` to the parsed
          literal): [parse_arg_of_type], [literal_parse_program_of_type];
        - for `Literal::parse` itself (a public function) it is FALSE: two families of texts are
          accepted whose literal `is_of_type` rejects -- a range without type suffix
          ([parse_unsuffixed_range_refuted]: "2..5" at [u8; 3] is Range(2, 5, Unspecified)) and a
          range that leaves its element type ([parse_range_overflow_refuted]: "0u8..257" at
          [u8; 257]);
        - for the scalar types (bool, every unsigned / signed integer type) it HOLDS for every
          text ([parse_scalar_of_type], [parse_scalar_of_type_text]); for the aggregate types
          no general theorem is proved here (only the examples of [LitExamples]); the two range
          families are the only divergences found.
   (P2) number tokens: accepted iff the number is in the range of the type, with the literal
        returned ([P2_unsigned], [P2_signed_of_unsigned_token], [P2_signed], the rejections
        [P2_unsigned_wrong_suffix] ...), over tokens; instances over texts by vm_compute.
   (P3) non-vacuity: every literal form, and rejections. *)
From Coq Require Import ZArith List String Lia.
Import ListNotations.
From GV Require Import Base.Util Front.Scan Front.ParseExpr Check.UAst Check.Infer Check.LitParse.
From GV Require Lang.Types Lang.Literal.
Local Open Scope N_scope.

(* ------------------------------------------------------------------ (P1) parse_arg *)

Theorem parse_arg_of_type intern fuel T i text l :
  parse_arg intern fuel T i text = COk l ->
  exists main mu name ty r,
    assocL (tp_main T) (tp_fns T) = Some main /\ nthN (tf_params main) i = Some (mu, name, ty) /\
    literal_parse intern (defs_of_tprogram T) ty text = COk l /\
    rty_of_cty intern (defs_of_tprogram T) fuel ty = Some r /\ LL.is_of_type l r = true.
Proof.
  unfold parse_arg. destruct (assocL (tp_main T) (tp_fns T)) as [main|]; [|discriminate].
  destruct (nthN (tf_params main) i) as [[[mu name] ty]|] eqn:En; [|discriminate].
  destruct (literal_parse intern (defs_of_tprogram T) ty text) as [l'| | |] eqn:El; try discriminate.
  cbn [cbind]. unfold lit_is_of_type.
  destruct (rty_of_cty intern (defs_of_tprogram T) fuel ty) as [r|] eqn:Er; [|discriminate].
  destruct (LL.is_of_type l' r) eqn:Ei; [|discriminate]. intros [= <-].
  exists main, mu, name, ty, r. auto.
Qed.

Theorem literal_parse_program_of_type intern fuel P i text l :
  literal_parse_program intern fuel P i text = COk l ->
  exists T main mu name ty r,
    check_program_t intern fuel P = COk T /\
    assocL (tp_main T) (tp_fns T) = Some main /\ nthN (tf_params main) i = Some (mu, name, ty) /\
    literal_parse intern (defs_of_tprogram T) ty text = COk l /\
    rty_of_cty intern (defs_of_tprogram T) fuel ty = Some r /\ LL.is_of_type l r = true.
Proof.
  unfold literal_parse_program. destruct (check_program_t intern fuel P) as [T| | |]; try discriminate.
  cbn [cbind]. intro H. destruct (parse_arg_of_type _ _ _ _ _ _ H) as (main & mu & name & ty & r & H1).
  exists T, main, mu, name, ty, r. tauto.
Qed.

(* ------------------------------------------------------------------ (P2) numbers, over tokens *)

Definition one_tok (t : token_enum) (m : meta) : list token := [Token t m].

Lemma u64_as_i64_small n : (Z.of_N n < two63)%Z -> u64_as_i64 n = Z.of_N n.
Proof.
  intro H. unfold u64_as_i64. assert (H0 : (0 <= Z.of_N n)%Z) by lia.
  rewrite Z.mod_small by (unfold two63, two64 in *; lia).
  destruct (Z.ltb_spec (Z.of_N n) two63); [reflexivity|lia].
Qed.

Section Numbers.
  Variable intern : list N -> N.
  Variable D : defs.

  (* an unsigned token, without suffix or with the suffix of the expected type *)
  Theorem P2_unsigned n sfx u m : u <> UnspecifiedU -> sfx = UnspecifiedU \/ sfx = u ->
    literal_parse_tokens intern D (CUnsigned u) (one_tok (TUnsignedNum n sfx) m) =
    if LL.u_in_range n (uty_of u) then COk (LL.LUnsigned n (uty_of u)) else CErr E_UnexpectedType.
  Proof.
    intros Hu [-> | ->]; destruct u; try congruence;
      lazy -[N.ltb N.leb u64_as_i64 i64_as_u64];
      match goal with |- context [?a <? n] => rewrite (N.ltb_antisym n a); destruct (n <=? a) end; reflexivity.
  Qed.

  (* ... with the suffix of another unsigned type: rejected *)
  Theorem P2_unsigned_wrong_suffix n sfx u m : sfx <> UnspecifiedU -> sfx <> u ->
    literal_parse_tokens intern D (CUnsigned u) (one_tok (TUnsignedNum n sfx) m) = CErr E_UnexpectedType.
  Proof. intros H1 H2. destruct sfx, u; try congruence; reflexivity. Qed.

  (* a signed token at an unsigned type: rejected *)
  Theorem P2_unsigned_signed_token z sfx u m :
    literal_parse_tokens intern D (CUnsigned u) (one_tok (TSignedNum z sfx) m) = CErr E_UnexpectedType.
  Proof. destruct sfx, u; reflexivity. Qed.

  (* a non-negative number without suffix at a signed type *)
  Theorem P2_signed_of_unsigned_token n s m : s <> UnspecifiedS ->
    literal_parse_tokens intern D (CSigned s) (one_tok (TUnsignedNum n UnspecifiedU) m) =
    if LL.s_in_range (Z.of_N n) (sty_of s) then COk (LL.LSigned (Z.of_N n) (sty_of s)) else CErr E_UnexpectedType.
  Proof.
    intros Hs. destruct s; try congruence;
      lazy -[Z.ltb Z.leb Z.of_N u64_as_i64 i64_as_u64 andb];
      match goal with |- context [(?a <? Z.of_N n)%Z] =>
        rewrite (Z.ltb_antisym (Z.of_N n) a); destruct (Z.leb_spec (Z.of_N n) a) as [Hle|Hgt] end;
      cbn [negb andb];
      match goal with
      | |- context [(?lo <=? Z.of_N n)%Z] =>
          replace (lo <=? Z.of_N n)%Z with true by (symmetry; apply Z.leb_le; lia)
      | _ => idtac
      end; cbn [andb]; try reflexivity;
      rewrite u64_as_i64_small by (unfold two63; lia); reflexivity.
  Qed.

  (* a non-negative number with an unsigned suffix at a signed type: rejected *)
  Theorem P2_signed_unsigned_suffix n sfx s m : sfx <> UnspecifiedU ->
    literal_parse_tokens intern D (CSigned s) (one_tok (TUnsignedNum n sfx) m) = CErr E_UnexpectedType.
  Proof. intros H. destruct sfx, s; try congruence; reflexivity. Qed.

  (* a signed token (negative numbers, and non-negative ones with a signed suffix), without
     suffix or with the suffix of the expected type *)
  Theorem P2_signed z sfx s m : s <> UnspecifiedS -> sfx = UnspecifiedS \/ sfx = s ->
    literal_parse_tokens intern D (CSigned s) (one_tok (TSignedNum z sfx) m) =
    if LL.s_in_range z (sty_of s) then COk (LL.LSigned z (sty_of s)) else CErr E_UnexpectedType.
  Proof.
    intros Hs [-> | ->]; destruct s; try congruence;
      lazy -[Z.ltb Z.leb u64_as_i64 i64_as_u64 andb];
      match goal with |- context [(z <? ?lo)%Z] =>
        rewrite (Z.ltb_antisym lo z); destruct (lo <=? z)%Z end; cbn [negb andb]; try reflexivity;
      match goal with |- context [(?hi <? z)%Z] =>
        rewrite (Z.ltb_antisym z hi); destruct (z <=? hi)%Z end; reflexivity.
  Qed.

  Theorem P2_signed_wrong_suffix z sfx s m : sfx <> UnspecifiedS -> sfx <> s ->
    literal_parse_tokens intern D (CSigned s) (one_tok (TSignedNum z sfx) m) = CErr E_UnexpectedType.
  Proof. intros H1 H2. destruct sfx, s; try congruence; reflexivity. Qed.

  (* booleans *)
  Theorem P2_bool (b : bool) m :
    literal_parse_tokens intern D CBool (one_tok (Scan.TIdentifier (if b then s_true else s_false)) m) =
    COk (if b then LL.LTrue else LL.LFalse).
  Proof. destruct b; reflexivity. Qed.
End Numbers.

(* ------------------------------------------------------------------ (P1) scalar types *)

Lemma cbind_ok {A B} (r : cres A) (k : A -> cres B) b :
  cbind r k = COk b -> exists a, r = COk a /\ k a = COk b.
Proof. destruct r; cbn [cbind]; try discriminate. eauto. Qed.

Ltac inv_do H :=
  repeat (first
    [ apply cbind_ok in H; let a := fresh "a" in let E := fresh "E" in destruct H as (a & E & H)
    | match type of H with
      | (if ?c then _ else _) = COk _ => destruct c eqn:?; try discriminate H
      | (match ?x with _ => _ end) = COk _ => destruct x eqn:?; try discriminate H
      end ]).

(* the kind of a literal node of the typed tree and the kind of its type, as check.rs builds them *)
Definition kind_ok (te : texpr) : Prop :=
  match te with
  | TE inner ty =>
      match inner with
      | TTrue | TFalse => ty = CBool
      | TNumUnsigned _ sfx => ty = CUnsigned sfx
      | TNumSigned _ sfx => ty = CSigned sfx
      | TArrayLiteral _ | TArrayRepeatLiteral _ _ | TRange _ _ _ => exists t n, ty = CArray t n
      | TTupleLiteral _ => exists ts, ty = CTuple ts
      | TStructLiteral name _ => ty = CStruct name
      | TEnumLiteral name _ _ => ty = CEnum name
      | _ => True
      end
  end.

Lemma check_expr_kind intern f D st e te st' :
  check_expr intern f D st e = COk (te, st') -> kind_ok te.
Proof.
  destruct f as [|f]; [discriminate|]. intro H.
  destruct e; cbn [check_expr] in H; try discriminate H; inv_do H;
    injection H as <- <-; cbn [kind_ok]; try exact I; try reflexivity; eauto.
Qed.

Definition scalar_rty (ty : cty) : option LT.rty :=
  match ty with
  | CBool => Some LT.RBool
  | CUnsigned u => Some (LT.RUnsigned (uty_of u))
  | CSigned s => Some (LT.RSigned (sty_of s))
  | _ => None
  end.

Lemma scalar_rty_spec intern D f ty r : scalar_rty ty = Some r -> rty_of_cty intern D (S f) ty = Some r.
Proof. destruct ty; try discriminate; cbn [scalar_rty rty_of_cty]; auto. Qed.

Lemma cty_eqb_unsigned t u : cty_eqb t (CUnsigned u) = true -> t = CUnsigned u.
Proof.
  destruct t; cbn [cty_eqb]; try discriminate. unfold unsigned_eqb.
  destruct (unsigned_num_type_eq_dec t u); [congruence|discriminate].
Qed.
Lemma cty_eqb_signed t s : cty_eqb t (CSigned s) = true -> t = CSigned s.
Proof.
  destruct t; cbn [cty_eqb]; try discriminate. unfold signed_eqb.
  destruct (signed_num_type_eq_dec t s); [congruence|discriminate].
Qed.

(* check_or_constrain_* on a node: the type it had, the type it gets, the range test on numbers *)
Lemma coc_unsigned inner t u e1 : check_or_constrain_unsigned (TE inner t) u = COk e1 ->
  (t = CUnsigned u \/ t = uU) /\ e1 = TE inner (CUnsigned u) /\
  (forall n sfx mx, inner = TNumUnsigned n sfx -> unsigned_max u = Some mx -> n <= mx).
Proof.
  unfold check_or_constrain_unsigned. cbn [ty_of inner_of set_ty].
  destruct (cty_eqb t (CUnsigned u)) eqn:E1; cbn [negb andb].
  - apply cty_eqb_unsigned in E1. subst t.
    destruct (unsigned_max u) as [mx|] eqn:Em.
    + destruct inner; try (intros [= <-]; repeat split; auto; intros; discriminate).
      destruct (mx <? n) eqn:El; [discriminate|]. intros [= <-]. repeat split; auto.
      intros n0 sfx mx0 [= -> _] [= <-]. apply N.ltb_ge in El. exact El.
    + destruct inner; intros [= <-]; repeat split; auto; intros; discriminate.
  - unfold is_uU. destruct (cty_eqb t uU) eqn:E2; cbn [negb]; [|discriminate].
    apply cty_eqb_unsigned in E2. subst t.
    destruct (unsigned_max u) as [mx|] eqn:Em.
    + destruct inner; try (intros [= <-]; repeat split; auto; intros; discriminate).
      destruct (mx <? n) eqn:El; [discriminate|]. intros [= <-]. repeat split; auto.
      intros n0 sfx mx0 [= -> _] [= <-]. apply N.ltb_ge in El. exact El.
    + destruct inner; intros [= <-]; repeat split; auto; intros; discriminate.
Qed.

Lemma coc_signed inner t s e1 : check_or_constrain_signed (TE inner t) s = COk e1 ->
  (t = CSigned s \/ t = sU \/ t = uU) /\ e1 = TE inner (CSigned s) /\
  (forall n sfx mx, inner = TNumUnsigned n sfx -> signed_max s = Some mx -> (Z.of_N n <= mx)%Z) /\
  (forall z sfx, inner = TNumSigned z sfx ->
     (forall mn, signed_min s = Some mn -> (mn <= z)%Z) /\ (forall mx, signed_max s = Some mx -> (z <= mx)%Z)).
Proof.
  unfold check_or_constrain_signed. cbn [ty_of inner_of set_ty].
  assert (Ht : negb (cty_eqb t (CSigned s)) && negb (is_sU t) && negb (is_uU t) = false ->
               t = CSigned s \/ t = sU \/ t = uU).
  { unfold is_sU, is_uU. destruct (cty_eqb t (CSigned s)) eqn:E1; [apply cty_eqb_signed in E1; auto|].
    destruct (cty_eqb t sU) eqn:E2; [apply cty_eqb_signed in E2; auto|].
    destruct (cty_eqb t uU) eqn:E3; [apply cty_eqb_unsigned in E3; auto|]. discriminate. }
  destruct (negb (cty_eqb t (CSigned s)) && negb (is_sU t) && negb (is_uU t)); [discriminate|].
  specialize (Ht eq_refl).
  destruct inner;
    try (match goal with |- (if ?c then _ else _) = _ -> _ => destruct c; [discriminate|] end;
         match goal with |- (if ?c then _ else _) = _ -> _ => destruct c; [discriminate|] end;
         intros [= <-]; repeat split; auto; intros; discriminate).
  - (* unsigned number *)
    destruct (signed_min s); cbn zeta.
    all: destruct (signed_max s) as [mx|] eqn:Em;
      [destruct (mx <? Z.of_N n)%Z eqn:El; [discriminate|]|];
      intros [= <-]; repeat split; auto; try (intros; discriminate).
    all: intros n0 sfx mx0 [= -> _] [= <-]; apply Z.ltb_ge in El; exact El.
  - (* signed number *)
    destruct (signed_min s) as [mn|] eqn:En.
    + destruct (z <? mn)%Z eqn:El; [discriminate|]. apply Z.ltb_ge in El.
      destruct (signed_max s) as [mx|] eqn:Em.
      * destruct (mx <? z)%Z eqn:Eh; [discriminate|]. apply Z.ltb_ge in Eh.
        intros [= <-]. repeat split; auto; try (intros; discriminate).
        -- intros mn0 [= <-]. injection H as -> _. exact El.
        -- intros mx0 [= <-]. injection H as -> _. exact Eh.
      * intros [= <-]. repeat split; auto; try (intros; discriminate).
        intros mn0 [= <-]. injection H as -> _. exact El.
    + destruct (signed_max s) as [mx|] eqn:Em.
      * destruct (mx <? z)%Z eqn:Eh; [discriminate|]. apply Z.ltb_ge in Eh.
        intros [= <-]. repeat split; auto; try (intros; discriminate).
        intros mx0 [= <-]. injection H as -> _. exact Eh.
      * intros [= <-]. repeat split; auto; intros; discriminate.
Qed.

Definition lit_kind (i : texpr_inner) : bool :=
  match i with
  | TTrue | TFalse | TNumUnsigned _ _ | TNumSigned _ _ | TArrayLiteral _ | TArrayRepeatLiteral _ _
  | TTupleLiteral _ | TStructLiteral _ _ | TEnumLiteral _ _ _ | TRange _ _ _ => true
  | _ => false
  end.

Lemma into_literal_kind intern inner t l : into_literal intern (TE inner t) = COk l -> lit_kind inner = true.
Proof. destruct inner; cbn [into_literal lit_kind]; try discriminate; reflexivity. Qed.

Definition leaf_of (e : texpr) (expected : cty) : cres texpr :=
  match expected with
  | CUnsigned t => check_or_constrain_unsigned e t
  | CSigned t => check_or_constrain_signed e t
  | _ => COk e
  end.

(* constrain_type against a scalar type: a literal node goes to check_or_constrain_*, any other
   node stays a non-literal node *)
Lemma constrain_scalar f inner t ty e1 : scalar_rty ty <> None ->
  constrain_type (S f) (TE inner t) ty = COk e1 ->
  if lit_kind inner
  then exists e0, leaf_of (TE inner t) ty = COk e0 /\ e1 = set_ty e0 (overwrite_ty (ty_of e0) ty)
  else lit_kind (inner_of e1) = false.
Proof.
  intros Hs H. destruct ty; try (exfalso; apply Hs; reflexivity).
  all: destruct inner; try (match goal with |- context [lit_kind (TRange _ _ ?u)] => destruct u end);
       cbn [constrain_type inner_of ty_of lit_kind] in H |- *;
       try (apply cbind_ok in H; destruct H as (e0 & E0 & H); injection H as <-; exists e0; split; [exact E0|reflexivity]).
  all: inv_do H; try (injection H as <-; reflexivity).
  all: repeat match goal with
       | E : cbind _ _ = COk _ |- _ => apply cbind_ok in E; destruct E as (? & ? & E)
       | E : (match ?x with _ => _ end) = COk _ |- _ => destruct x eqn:?; try discriminate E
       | E : COk _ = COk _ |- _ => injection E as <-
       | E : check_or_constrain_unsigned _ _ = COk _ |- _ => apply coc_unsigned in E; destruct E as (_ & -> & _)
       | E : check_or_constrain_signed _ _ = COk _ |- _ => apply coc_signed in E; destruct E as (_ & -> & _)
       end; try reflexivity.
Qed.

Lemma unsigned_max_umax u : unsigned_max u = LT.umax (uty_of u).
Proof. destruct u; reflexivity. Qed.
Lemma signed_min_smin s : signed_min s = LT.smin (sty_of s).
Proof. destruct s; reflexivity. Qed.
Lemma signed_max_smax s : signed_max s = LT.smax (sty_of s).
Proof. destruct s; reflexivity. Qed.

(* (P1) for the scalar types: whatever the text, a literal `Literal::parse` returns at bool / an
   unsigned / a signed integer type is of that type *)
Theorem parse_scalar_of_type intern D ty ts l r :
  scalar_rty ty = Some r -> ty <> CUnsigned UnspecifiedU -> ty <> CSigned UnspecifiedS ->
  literal_parse_tokens intern D ty ts = COk l -> LL.is_of_type l r = true.
Proof.
  intros Hr Hu Hs H. unfold literal_parse_tokens in H.
  destruct (parse_literal_text (fuel_for_tokens ts) ts) as [u s| | |]; try discriminate H.
  apply cbind_ok in H. destruct H as ([te st'] & Ece & H). cbn [fst] in H.
  apply cbind_ok in H. destruct H as (e' & Ect & H).
  pose proof (check_expr_kind _ _ _ _ _ _ _ Ece) as K.
  unfold check_type in Ect. apply cbind_ok in Ect. destruct Ect as (e1 & Ec & Ect).
  destruct (cty_eqb (ty_of e1) ty) eqn:Eq; [|discriminate Ect]. injection Ect as <-.
  destruct te as [inner t]. unfold lit_fuel in Ec.
  pose proof (constrain_scalar _ inner t ty e1 ltac:(rewrite Hr; discriminate) Ec) as HC.
  destruct (lit_kind inner) eqn:Ek.
  - destruct HC as (e0 & E0 & ->). destruct ty; try discriminate Hr; cbn [leaf_of] in E0.
    + (* bool *) injection E0 as <-. injection Hr as <-. cbn [ty_of set_ty overwrite_ty] in Eq, H.
      destruct inner; try discriminate Ek; cbn [kind_ok] in K;
        try (destruct K as (? & ? & ->)); try (destruct K as (? & ->)); subst; try discriminate Eq;
        cbn [into_literal] in H; try discriminate H; injection H as <-; reflexivity.
    + (* unsigned *) injection Hr as <-.
      apply coc_unsigned in E0. destruct E0 as (Ht & -> & Hn). cbn [ty_of set_ty] in H.
      destruct inner; try discriminate Ek; cbn [kind_ok] in K;
        try (destruct K as (? & ? & ->)); try (destruct K as (? & ->)); subst;
        try (destruct Ht as [Ht|Ht]; discriminate Ht);
        cbn [into_literal] in H; try discriminate H; injection H as <-.
      cbn [LL.is_of_type]. assert (LT.uty_eqb (uty_of t0) (uty_of t0) = true) as -> by (destruct t0; reflexivity).
      cbn [andb]. unfold LL.u_in_range. rewrite <- unsigned_max_umax.
      destruct (unsigned_max t0) as [mx|] eqn:Em; [apply N.leb_le; exact (Hn _ _ _ eq_refl eq_refl)|].
      destruct t0; try discriminate Em. congruence.
    + (* signed *) injection Hr as <-.
      apply coc_signed in E0. destruct E0 as (Ht & -> & Hn & Hz). cbn [ty_of set_ty] in H.
      assert (Heqb : LT.sty_eqb (sty_of t0) (sty_of t0) = true) by (destruct t0; reflexivity).
      destruct inner; try discriminate Ek; cbn [kind_ok] in K;
        try (destruct K as (? & ? & ->)); try (destruct K as (? & ->)); subst;
        try (destruct Ht as [Ht|[Ht|Ht]]; discriminate Ht);
        cbn [into_literal] in H; try discriminate H; injection H as <-;
        cbn [LL.is_of_type]; rewrite Heqb; cbn [andb]; unfold LL.s_in_range;
        rewrite <- signed_min_smin, <- signed_max_smax.
      * (* an unsigned number at a signed type *)
        destruct (signed_max t0) as [mx|] eqn:Em; [|destruct t0; try discriminate Em; congruence].
        specialize (Hn _ _ _ eq_refl eq_refl).
        assert (Hmx : (mx < two63)%Z) by (destruct t0; try discriminate Em; injection Em as <-; unfold two63; lia).
        rewrite u64_as_i64_small by lia.
        destruct (signed_min t0) as [mn|] eqn:En; [|destruct t0; try discriminate En; congruence].
        assert (Hmn : (mn <= 0)%Z) by (destruct t0; try discriminate En; injection En as <-; lia).
        apply andb_true_intro. split; apply Z.leb_le; lia.
      * (* a signed number *)
        destruct (Hz _ _ eq_refl) as [Hlo Hhi].
        destruct (signed_min t0) as [mn|] eqn:En; [|destruct t0; try discriminate En; congruence].
        destruct (signed_max t0) as [mx|] eqn:Em; [|destruct t0; try discriminate Em; congruence].
        apply andb_true_intro. split; apply Z.leb_le; auto.
  - (* not a literal node: into_literal panics *)
    exfalso. destruct e1 as [i1 t1]. cbn [inner_of set_ty] in HC, H.
    apply into_literal_kind in H. congruence.
Qed.
Print Assumptions parse_scalar_of_type.

Corollary parse_scalar_of_type_text intern D ty text l r :
  scalar_rty ty = Some r -> ty <> CUnsigned UnspecifiedU -> ty <> CSigned UnspecifiedS ->
  literal_parse intern D ty text = COk l ->
  rty_of_cty intern D 1 ty = Some r /\ LL.is_of_type l r = true.
Proof.
  intros Hr Hu Hs H. split; [now apply scalar_rty_spec|]. unfold literal_parse in H.
  destruct (scan_text text) as [[ts|es]| |]; try discriminate H.
  exact (parse_scalar_of_type intern D ty ts l r Hr Hu Hs H).
Qed.
Print Assumptions parse_scalar_of_type_text.

(* ------------------------------------------------------------------ (P3) non-vacuity *)

Module LitExamples.
  (* an injective interning function: the byte string read as a base-256 number with a leading 1 *)
  Definition ex_intern (s : list N) : N := fold_left (fun a c => a * 256 + c) s 1.
  Definition nm (s : string) : list N := codes s.
  Definition u8 := UTUnsigned U8.
  Definition i8 := UTSigned I8.

  (* struct S { a: u8, b: bool }   enum E { A, B(u8, i16) }
     pub fn main(p0: u8, p1: i8, p2: bool, p3: (u8, bool), p4: [u8; 3], p5: S, p6: E,
                 p7: [[u8; 2]; 2], p8: (), p9: [i8; 3], p10: [u8; 257], p11: u64, p12: i64,
                 p13: [(S, E); 2], p14: usize) -> u8 { p0 } *)
  Definition params : list utype :=
    [u8; i8; UTBool; UTTuple [u8; UTBool]; UTArray u8 3; UTNamed (nm "S"); UTNamed (nm "E");
     UTArray (UTArray u8 2) 2; UTTuple []; UTArray i8 3; UTArray u8 257; UTUnsigned U64; UTSigned I64;
     UTArray (UTTuple [UTNamed (nm "S"); UTNamed (nm "E")]) 2; UTUnsigned Usize].
  Definition pname (k : nat) : list N := nm "p" ++ [48 + N.of_nat k].
  Definition P : uprogram :=
    mkUProgram []
      [mkUStruct (nm "S") [(nm "a", u8); (nm "b", UTBool)]]
      [mkUEnum (nm "E") [UVUnit (nm "A"); UVTuple (nm "B") [u8; UTSigned I16]]]
      [mkUFn true (nm "main") u8
         (map (fun kt => mkUParam false (pname (fst kt)) (snd kt)) (combine (seq 0 15) params))
         [XSExpr (XIdentifier (pname 0))]]
      (nm "main").

  (* prg.parse_arg(i, text) *)
  Definition arg (i : N) (s : string) : cres LL.lit := literal_parse_program ex_intern 50 P i (codes s).
  (* Literal::parse(&program, &type of parameter i, text) *)
  Definition lit (i : N) (s : string) : cres LL.lit := literal_parse_param ex_intern 50 P i (codes s).

  Definition S_ : N := Eval vm_compute in ex_intern (nm "S").
  Definition E_ : N := Eval vm_compute in ex_intern (nm "E").
  Definition a_ : N := Eval vm_compute in ex_intern (nm "a").
  Definition b_ : N := Eval vm_compute in ex_intern (nm "b").
  Definition A_ : N := Eval vm_compute in ex_intern (nm "A").
  Definition B_ : N := Eval vm_compute in ex_intern (nm "B").
  Definition ls (l : list LL.lit) : LL.lits := fold_right LL.LsCons LL.LsNil l.
  Definition U (n : N) := LL.LUnsigned n LT.U8.

  (* ---- accepted, every literal form *)
  Example ex_bool : arg 2 "true" = COk LL.LTrue /\ arg 2 "false" = COk LL.LFalse.
  Proof. split; vm_compute; reflexivity. Qed.
  Example ex_u8 : arg 0 "5" = COk (U 5) /\ arg 0 "255u8" = COk (U 255) /\ arg 0 "(7)" = COk (U 7).
  Proof. repeat split; vm_compute; reflexivity. Qed.
  Example ex_i8 : arg 1 "-128" = COk (LL.LSigned (-128) LT.I8) /\ arg 1 "127" = COk (LL.LSigned 127 LT.I8) /\
                  arg 1 "-5i8" = COk (LL.LSigned (-5) LT.I8) /\ arg 1 "5i8" = COk (LL.LSigned 5 LT.I8).
  Proof. repeat split; vm_compute; reflexivity. Qed.
  Example ex_64 : arg 11 "18446744073709551615" = COk (LL.LUnsigned 18446744073709551615 LT.U64) /\
                  arg 12 "-9223372036854775808" = COk (LL.LSigned (-9223372036854775808) LT.I64) /\
                  arg 12 "9223372036854775807" = COk (LL.LSigned 9223372036854775807 LT.I64) /\
                  arg 14 "4294967295" = COk (LL.LUnsigned 4294967295 LT.Usize).
  Proof. repeat split; vm_compute; reflexivity. Qed.
  Example ex_tuple : arg 3 "(1, true)" = COk (LL.LTuple (ls [U 1; LL.LTrue])) /\ arg 8 "()" = COk (LL.LTuple LL.LsNil).
  Proof. split; vm_compute; reflexivity. Qed.
  Example ex_array : arg 4 "[1, 2, 3]" = COk (LL.LArray (ls [U 1; U 2; U 3])) /\
                     arg 4 "[1, 2, 3,]" = COk (LL.LArray (ls [U 1; U 2; U 3])).
  Proof. split; vm_compute; reflexivity. Qed.
  Example ex_repeat : arg 4 "[7; 3]" = COk (LL.LRepeat (U 7) 3) /\ arg 4 "[7u8; 3usize]" = COk (LL.LRepeat (U 7) 3).
  Proof. split; vm_compute; reflexivity. Qed.
  Example ex_range : arg 4 "2u8..5u8" = COk (LL.LRange 2 5 LT.U8) /\ arg 4 "2u8..5" = COk (LL.LRange 2 5 LT.U8) /\
                     arg 4 "2..5u8" = COk (LL.LRange 2 5 LT.U8).
  Proof. repeat split; vm_compute; reflexivity. Qed.
  (* the fields of a struct literal are sorted by the parser *)
  Example ex_struct :
    arg 5 "S { b: true, a: 1 }" = COk (LL.LStruct S_ (LL.LFCons a_ (U 1) (LL.LFCons b_ LL.LTrue LL.LFNil))) /\
    arg 5 "S { a: 1, b: true, }" = COk (LL.LStruct S_ (LL.LFCons a_ (U 1) (LL.LFCons b_ LL.LTrue LL.LFNil))).
  Proof. split; vm_compute; reflexivity. Qed.
  Example ex_enum : arg 6 "E::A" = COk (LL.LEnumUnit E_ A_) /\
                    arg 6 "E::B(1, -2)" = COk (LL.LEnumTuple E_ B_ (ls [U 1; LL.LSigned (-2) LT.I16])).
  Proof. split; vm_compute; reflexivity. Qed.
  Example ex_nested :
    arg 7 "[[1, 2], [3; 2]]" = COk (LL.LArray (ls [LL.LArray (ls [U 1; U 2]); LL.LRepeat (U 3) 2])) /\
    arg 13 "[(S { a: 1, b: false }, E::A), (S { b: true, a: 2 }, E::B(3, 4))]" =
      COk (LL.LArray (ls
        [LL.LTuple (ls [LL.LStruct S_ (LL.LFCons a_ (U 1) (LL.LFCons b_ LL.LFalse LL.LFNil)); LL.LEnumUnit E_ A_]);
         LL.LTuple (ls [LL.LStruct S_ (LL.LFCons a_ (U 2) (LL.LFCons b_ LL.LTrue LL.LFNil));
                        LL.LEnumTuple E_ B_ (ls [U 3; LL.LSigned 4 LT.I16])])])).
  Proof. split; vm_compute; reflexivity. Qed.
  Example ex_comments : arg 0 "/* c */ 5 // x" = COk (U 5).
  Proof. vm_compute. reflexivity. Qed.

  (* ---- rejected *)
  Definition rejected (r : cres LL.lit) : bool := match r with CErr _ => true | _ => false end.
  Example rej_wrong_type :
    map rejected [arg 0 "true"; arg 2 "1"; arg 0 "-1"; arg 1 "5u8"; arg 0 "5i8"; arg 0 "5u16"; arg 4 "[1, 2]";
                  arg 4 "[1; 2]"; arg 3 "(1, 2)"; arg 3 "(1, true, 2)"; arg 5 "E::A"; arg 6 "E::C"; arg 6 "E::A()";
                  arg 6 "E::B(1)"; arg 6 "E::B"; arg 4 "2u16..5u16"; arg 4 "2..6"; arg 4 "[1u8, 2u16, 3]"]
    = repeat true 18.
  Proof. vm_compute. reflexivity. Qed.
  Example rej_out_of_range :
    map rejected [arg 0 "256"; arg 1 "128"; arg 1 "-129"; arg 11 "18446744073709551616"; arg 12 "9223372036854775808";
                  arg 12 "-9223372036854775809"; arg 14 "4294967296"; arg 0 "256u8"; arg 4 "[1, 2, 256]"]
    = repeat true 9.
  Proof. vm_compute. reflexivity. Qed.
  Example rej_struct :
    map rejected [arg 5 "S { a: 1 }"; arg 5 "S { a: 1, a: 2, b: true }"; arg 5 "S { a: 1, b: true, c: 2 }";
                  arg 5 "S { a, b: true }"; arg 5 "T { a: 1, b: true }"; arg 5 "S { a: true, b: true }"]
    = repeat true 6.
  Proof. vm_compute. reflexivity. Qed.
  Example rej_not_a_literal :
    map rejected [arg 0 "5 6"; arg 0 "x"; arg 0 "1 + 2"; arg 0 ""; arg 0 "5,"; arg 2 "!true"; arg 1 "- 5";
                  arg 4 "[]"; arg 4 "[1; N]"; arg 0 "{ 5 }"; arg 0 "5 as u8"; arg 4 "5..2"; arg 4 "3..3";
                  arg 0 "5 // x
6"; arg 0 "$"]
    = repeat true 15.
  Proof. vm_compute. reflexivity. Qed.
  Example rej_arg_index : arg 15 "5" = CErr E_InvalidArgIndex.
  Proof. vm_compute. reflexivity. Qed.

  (* ---- FINDINGS: `Literal::parse` accepts, `is_of_type` rejects (parse_arg refuses both texts,
     because lib.rs re-tests the parsed literal) *)

  (* 1. a range without a type suffix: REPAIRED in the code (fix 7bf4e4f, mirrored in Infer.v constrain_type):
     the range takes the element type of the array type it is parsed at, so parse_arg accepts it
     with the typed literal; at a signed element type it is refused.  Before the repair the node kept
     `Unspecified` (into_literal returned Range(2, 5, Unspecified), which is_of_type rejects and
     as_bits would have encoded as three 32-bit elements) and `[i8; 3]` was accepted as well. *)
  Example unsuffixed_range_after_fix :
    lit 4 "2..5" = COk (LL.LRange 2 5 LT.U8) /\ arg 4 "2..5" = COk (LL.LRange 2 5 LT.U8) /\
    lit 9 "2..5" = CErr E_UnexpectedType /\ arg 9 "2..5" = CErr E_UnexpectedType /\
    lit 4 "254..257" = CErr E_UnexpectedType.
  Proof. repeat split; vm_compute; reflexivity. Qed.

  (* 2. a range that leaves its element type: 0u8..257 has the type [u8; 257], its last element
     256 is not a u8 (as_bits keeps the low 8 bits) *)
  Example finding_range_overflow :
    lit 10 "0u8..257" = COk (LL.LRange 0 257 LT.U8) /\ arg 10 "0u8..257" = CErr E_InvalidLiteralType.
  Proof. split; vm_compute; reflexivity. Qed.
End LitExamples.

(* the remaining finding as a refutation of the contract for `Literal::parse` alone (the unsuffixed-range one was repaired: fix 7bf4e4f) *)
Theorem parse_range_overflow_refuted :
  exists intern D ty text l r,
    literal_parse intern D ty text = COk l /\ rty_of_cty intern D 5 ty = Some r /\ LL.is_of_type l r = false.
Proof.
  exists LitExamples.ex_intern, (mkDefs [] [] [] [] [] []), (CArray (CUnsigned U8) 257), (codes "0u8..257"),
         (LL.LRange 0 257 LT.U8), (LT.RArray (LT.RUnsigned LT.U8) 257).
  split; [vm_compute; reflexivity|]. split; vm_compute; reflexivity.
Qed.

Print Assumptions parse_arg_of_type.
Print Assumptions literal_parse_program_of_type.
Print Assumptions P2_unsigned.
Print Assumptions P2_signed_of_unsigned_token.
Print Assumptions P2_signed.
Print Assumptions parse_range_overflow_refuted.
