(* C07 for the type checker: the model of check.rs (Check/Infer.v) NEVER PANICS on a tree without
   an empty array literal and without a `match` without arms (part A), the model of the parser
   (Front/ParseExpr.v) never builds such a tree (Front/ParseWf.v, part B), hence the front end
   never panics (corollary, at the end of Front/ParseWf.v); fuel adequacy of the checker (part C). *)
From Coq Require Import Lia Bool.
From GV Require Import Base.Util Front.Scan Front.ParseExpr Check.UAst Check.Infer Check.InferProofs.
From GV Require Exhaust.Pat Exhaust.Useful.
Local Open Scope N_scope.

(* ================================================================ well-formed trees *)

Definition is_nil {A} (l : list A) : bool := match l with [] => true | _ => false end.

(* no `XArrayLiteral []`, no `XMatch _ []`, anywhere *)
Fixpoint wfb_x (e : xexpr) : bool :=
  match e with
  | XTrue | XFalse | XNumUnsigned _ _ | XNumSigned _ _ | XIdentifier _ | XRange _ _ _ => true
  | XArrayLiteral es => negb (is_nil es) && forallb wfb_x es
  | XArrayRepeatLiteral e _ => wfb_x e
  | XArrayRepeatLiteralConst e _ => wfb_x e
  | XArrayAccess a i => wfb_x a && wfb_x i
  | XTupleLiteral es => forallb wfb_x es
  | XTupleAccess e _ => wfb_x e
  | XStructAccess e _ => wfb_x e
  | XStructLiteral _ fs => forallb (fun f => wfb_x (snd f)) fs
  | XEnumLiteral _ _ None => true
  | XEnumLiteral _ _ (Some es) => forallb wfb_x es
  | XMatch e arms => wfb_x e && negb (is_nil arms) && forallb (fun a => wfb_x (snd a)) arms
  | XUnaryOp _ e => wfb_x e
  | XOp _ l r => wfb_x l && wfb_x r
  | XBlock b => forallb wfb_s b
  | XFnCall _ args => forallb wfb_x args
  | XJoin args => forallb wfb_x args
  | XIf c t e => wfb_x c && wfb_x t && wfb_x e
  | XCast _ e => wfb_x e
  end
with wfb_s (s : xstmt) : bool :=
  match s with
  | XSLet _ _ e => wfb_x e
  | XSLetMut _ _ e => wfb_x e
  | XSVarAssign _ accs e => forallb wfb_a accs && wfb_x e
  | XSForEach _ e body => wfb_x e && forallb wfb_s body
  | XSExpr e => wfb_x e
  end
with wfb_a (a : xaccessor) : bool :=
  match a with
  | XAArray i => wfb_x i
  | XATuple _ | XAStruct _ => true
  end.

Definition wf_x (e : xexpr) : Prop := wfb_x e = true.
Definition wf_s (s : xstmt) : Prop := wfb_s s = true.
Definition wf_a (a : xaccessor) : Prop := wfb_a a = true.
Definition wf_block (b : list xstmt) : Prop := forallb wfb_s b = true.
Definition wf_fn (fd : ufndef) : Prop := wf_block (uf_body fd).
Definition wfb_program (P : uprogram) : bool := forallb (fun fd => forallb wfb_s (uf_body fd)) (up_fns P).
Definition wf_program (P : uprogram) : Prop := wfb_program P = true.

(* ================================================================ part A: no panic *)

(* [av true r]: r is not the panic; [av false r]: r is not CNoFuel (part C).  The helper
   functions of the checker that use no fuel avoid both, with one proof. *)
Definition isb (w : bool) {A} (r : cres A) : bool :=
  match r with CErr c => (c =? E_Panic) && w | CNoFuel => negb w | _ => false end.
Definition av (w : bool) {A} (r : cres A) : Prop := isb w r = false.
Notation np := (av true).
Notation nf := (av false).

Lemma np_neq {A} (r : cres A) : np r -> r <> CErr E_Panic.
Proof. intros H E. subst r. discriminate H. Qed.
Lemma nf_neq {A} (r : cres A) : nf r -> r <> CNoFuel.
Proof. intros H E. subst r. discriminate H. Qed.

Lemma np_bind w {A B} (r : cres A) (k : A -> cres B) :
  av w r -> (forall a, r = COk a -> av w (k a)) -> av w (cbind r k).
Proof. intros Hr Hk. destruct r; cbn [cbind]; auto. Qed.

Lemma np_mapM w {A B} (f : A -> cres B) l : (forall x, av w (f x)) -> av w (mapM f l).
Proof.
  intro H. induction l as [|x l IH]; cbn [mapM]; [reflexivity|].
  apply np_bind; [apply H|]. intros a _. apply np_bind; [exact IH|]. intros; reflexivity.
Qed.

Lemma np_zipM w {A B} (f : A -> B -> cres A) : (forall x y, av w (f x y)) -> forall xs ys, av w (zipM f xs ys).
Proof.
  intro H. induction xs as [|x xs IH]; intros [|y ys]; cbn [zipM]; try reflexivity.
  apply np_bind; [apply H|]. intros a _. apply np_bind; [apply IH|]. intros; reflexivity.
Qed.

Lemma np_map_last_expr w f : (forall e, av w (f e)) -> forall b, av w (map_last_expr f b).
Proof.
  intro H. induction b as [|s b IH]; cbn [map_last_expr]; [reflexivity|].
  destruct b as [|s2 b2].
  - destruct s; try reflexivity. apply np_bind; [apply H|]. intros; reflexivity.
  - destruct s; (apply np_bind; [exact IH|]; intros; reflexivity).
Qed.

Lemma np_mapM_st w {S A B} (g : S -> A -> cres (B * S)) l :
  (forall st x, In x l -> av w (g st x)) -> forall st, av w (mapM_st g st l).
Proof.
  induction l as [|x l IH]; intros H st; cbn [mapM_st]; [reflexivity|].
  apply np_bind; [apply H; now left|]. intros a _. apply np_bind; [apply IH; intros; apply H; now right|].
  intros; reflexivity.
Qed.

Lemma mapM_st_length {S A B} (g : S -> A -> cres (B * S)) l : forall st r,
  mapM_st g st l = COk r -> length (fst r) = length l.
Proof.
  induction l as [|x l IH]; intros st r H; cbn [mapM_st] in H.
  - injection H as <-. reflexivity.
  - destruct (g st x) as [r1| | |]; cbn [cbind] in H; try discriminate H.
    destruct (mapM_st g (snd r1) l) as [r2| | |] eqn:E; cbn [cbind] in H; try discriminate H.
    injection H as <-. cbn [fst length]. f_equal. eapply IH. exact E.
Qed.

Create HintDb npdb.

(* the generic step: binds, matches, ifs; what is left are calls (closed by hints / hypotheses)
   and the panic sites *)
Ltac np_go :=
  repeat match goal with
  | |- av _ (COk _) => reflexivity
  | |- av _ (CErr _) => reflexivity
  | |- av _ COutside => reflexivity
  | |- av _ CNoFuel => reflexivity
  | |- av _ (cbind _ _) => apply np_bind; [|intros ? ?]
  | |- av _ (mapM _ _) => apply np_mapM; intros ?; cbv beta
  | |- av _ (zipM _ _ _) => apply np_zipM; intros ? ?; cbv beta
  | |- av _ (map_last_expr _ _) => apply np_map_last_expr; intros ?; cbv beta
  | |- av _ (if ?c then _ else _) => destruct c eqn:?
  | |- av _ (match ?x with _ => _ end) => destruct x eqn:?
  | |- av _ (let _ := _ in _) => cbv zeta
  | |- av _ (mapM_st _ _ _) => apply np_mapM_st; intros ? ? ?; cbv beta
  | |- av _ _ => solve [eauto with npdb]
  end.

Lemma utype_ind' (Q : utype -> Prop) :
  Q UTBool -> (forall t, Q (UTUnsigned t)) -> (forall t, Q (UTSigned t)) -> (forall s, Q (UTNamed s)) ->
  (forall ts, Forall Q ts -> Q (UTTuple ts)) -> (forall t n, Q t -> Q (UTArray t n)) ->
  (forall t c, Q t -> Q (UTArrayConst t c)) -> (forall t c, Q t -> Q (UTArrayConstExpr t c)) -> forall t, Q t.
Proof.
  intros H0 H1 H2 H3 H4 H5 H6 H7. fix IH 1. destruct t.
  - exact H0.
  - apply H1.
  - apply H2.
  - apply H3.
  - apply H4. induction ts as [|x xs IHxs]; constructor; [apply IH|exact IHxs].
  - apply H5. apply IH.
  - apply H6. apply IH.
  - apply H7. apply IH.
Qed.

Lemma np_as_concrete_type w sn en t : av w (as_concrete_type sn en t).
Proof.
  induction t using utype_ind'; cbn [as_concrete_type]; np_go.
  match goal with H : Forall _ ts |- _ => induction H as [|x xs Hx _ IHxs] end; np_go.
Qed.
#[local] Hint Resolve np_as_concrete_type : npdb.

Lemma np_concrete_of w D t : av w (concrete_of D t).
Proof. apply np_as_concrete_type. Qed.
#[local] Hint Resolve np_concrete_of : npdb.

Lemma np_expect_array_type w t : av w (expect_array_type t). Proof. destruct t; reflexivity. Qed.
Lemma np_expect_struct_type w t : av w (expect_struct_type t). Proof. destruct t; reflexivity. Qed.
Lemma np_expect_tuple_type w t : av w (expect_tuple_type t). Proof. destruct t; reflexivity. Qed.
Lemma np_expect_num_type w t : av w (expect_num_type t). Proof. destruct t; reflexivity. Qed.
Lemma np_expect_signed_num_type w t : av w (expect_signed_num_type t). Proof. destruct t; reflexivity. Qed.
Lemma np_expect_bool_or_num_type w t : av w (expect_bool_or_num_type t). Proof. destruct t; reflexivity. Qed.
Lemma np_expect_pattern_num_in_range w n t : av w (expect_pattern_num_in_range n t).
Proof. unfold expect_pattern_num_in_range. np_go. Qed.
#[local] Hint Resolve np_expect_array_type np_expect_struct_type np_expect_tuple_type np_expect_num_type
  np_expect_signed_num_type np_expect_bool_or_num_type np_expect_pattern_num_in_range : npdb.

Lemma np_coc_unsigned w e t : av w (check_or_constrain_unsigned e t).
Proof. unfold check_or_constrain_unsigned. np_go. Qed.
Lemma np_coc_signed w e t : av w (check_or_constrain_signed e t).
Proof. unfold check_or_constrain_signed. np_go. Qed.
#[local] Hint Resolve np_coc_unsigned np_coc_signed : npdb.

Lemma np_constrain_type f : forall e t, np (constrain_type f e t).
Proof.
  induction f as [|f IH]; intros e t; cbn [constrain_type]; [reflexivity|]. np_go.
Qed.
#[local] Hint Resolve np_constrain_type : npdb.

Lemma np_check_type f e t : np (check_type f e t).
Proof. unfold check_type. np_go. Qed.
#[local] Hint Resolve np_check_type : npdb.

(* fix 64720dd: the deep versions may run constrain_type, which never panics (but needs fuel: np only) *)
Lemma np_coc_unsigned_deep f e t : np (coc_unsigned_deep f e t).
Proof. unfold coc_unsigned_deep. np_go. Qed.
Lemma np_coc_signed_deep f e t : np (coc_signed_deep f e t).
Proof. unfold coc_signed_deep. np_go. Qed.
#[local] Hint Resolve np_coc_unsigned_deep np_coc_signed_deep : npdb.

Lemma np_unify f a b : np (unify f a b).
Proof. unfold unify. np_go. Qed.
#[local] Hint Resolve np_unify : npdb.

Lemma np_constrain_to_i32 f : forall b, np (constrain_to_i32 f b).
Proof.
  induction f as [|f IH]; intros b; cbn [constrain_to_i32]; [reflexivity|]. np_go.
Qed.
#[local] Hint Resolve np_constrain_to_i32 : npdb.

(* ---------------------------------------------------------------- patterns *)

Lemma np_fields_loop w D fs : Forall (fun p => forall g ty, av w (check_pattern D g p ty)) fs ->
  forall ts g,
    av w ((fix go (fs : list upattern) (ts : list cty) (g : cenv) : cres (list tpattern * cenv) :=
       match fs, ts with
       | fp :: fr, t :: tr =>
           do r1 <- check_pattern D g fp t; do r2 <- go fr tr (snd r1); COk (fst r1 :: fst r2, snd r2)
       | _, _ => COk ([], g)
       end) fs ts g).
Proof.
  induction 1 as [|q fs Hq Hfs IHfs]; intros ts g; [reflexivity|].
  destruct ts as [|t ts]; [reflexivity|]. np_go.
Qed.

Lemma np_struct_loop w D sd fs : Forall (fun f => forall g ty, av w (check_pattern D g (snd f) ty)) fs ->
  forall seen g,
    av w ((fix go (seen : list (list N)) (fs : list (list N * upattern)) (g : cenv)
       : cres (list (list N * tpattern) * cenv) :=
       match fs with
       | [] => COk ([], g)
       | (field_name, field_value) :: fr =>
           if memL field_name seen then CErr E_PatternDoesNotMatchType else
           match assocL field_name sd with
           | Some field_type =>
               do r1 <- check_pattern D g field_value field_type;
               do r2 <- go (field_name :: seen) fr (snd r1);
               COk ((field_name, fst r1) :: fst r2, snd r2)
           | None => CErr E_UnknownStructField
           end
       end) seen fs g).
Proof.
  induction 1 as [|[fname fp] fs Hq Hfs IHfs]; intros seen g; [reflexivity|]. cbn [snd] in Hq. np_go.
Qed.

Lemma np_check_pattern w D : forall p g ty, av w (check_pattern D g p ty).
Proof.
  induction p using upattern_ind'; intros g ty; cbn [check_pattern]; np_go;
    try (apply np_fields_loop; assumption); try (apply np_struct_loop; assumption).
Qed.
#[local] Hint Resolve np_check_pattern : npdb.

Section NoPanic.
Variable intern : list N -> N.
Notation check_expr := (check_expr intern).
Notation check_stmt := (check_stmt intern).
Notation check_stmts := (check_stmts intern).
Notation check_block := (check_block intern).
Notation check_fn := (check_fn intern).

Lemma np_check_exhaustiveness D ps ty : np (check_exhaustiveness intern D ps ty).
Proof. unfold check_exhaustiveness. np_go. Qed.
Hint Resolve np_check_exhaustiveness : npdb.

Lemma np_accs_loop ce fu D : forall accs,
  (forall st a, In a accs -> match a with XAArray i => np (ce st i) | _ => True end) ->
  forall st t, np (accs_loop ce fu D st t accs).
Proof.
  induction accs as [|a accs IH]; intros H st t; cbn [accs_loop]; [reflexivity|].
  assert (IH' : forall st t, np (accs_loop ce fu D st t accs)) by (apply IH; intros; apply H; now right).
  pose proof (fun st => H st a (or_introl eq_refl)) as Ha. clear H IH.
  destruct a; np_go.
Qed.

Lemma np_struct_lit_loop ce f sd : forall fields,
  (forall st fl, In fl fields -> np (ce st (snd fl))) ->
  forall seen st, np (struct_lit_loop ce f sd seen st fields).
Proof.
  induction fields as [|[fname fv] fields IH]; intros H seen st; cbn [struct_lit_loop]; [reflexivity|].
  assert (IH' : forall seen st, np (struct_lit_loop ce f sd seen st fields)) by (apply IH; intros; apply H; now right).
  pose proof (fun st => H st (fname, fv) (or_introl eq_refl)) as Ha. cbn [snd] in Ha. clear H IH.
  np_go.
Qed.
Lemma forallb_In {A} (p : A -> bool) l x : forallb p l = true -> In x l -> p x = true.
Proof. intro H. rewrite forallb_forall in H. apply H. Qed.

Lemma wf_In es x : forallb wfb_x es = true -> In x es -> wfb_x x = true.
Proof. apply forallb_In. Qed.
Lemma wf_In_snd {A} (es : list (A * xexpr)) x : forallb (fun a => wfb_x (snd a)) es = true -> In x es -> wfb_x (snd x) = true.
Proof. apply (forallb_In (fun a => wfb_x (snd a))). Qed.
Lemma wf_In_s b x : forallb wfb_s b = true -> In x b -> wfb_s x = true.
Proof. apply forallb_In. Qed.
Hint Resolve wf_In wf_In_snd wf_In_s : npdb.

Ltac wfsplit H :=
  unfold wf_x, wf_s, wf_a, wf_block, wf_fn in H; cbn [wfb_x wfb_s wfb_a] in H;
  repeat (rewrite andb_true_iff in H; let H2 := fresh "W" in destruct H as [H H2]).

Lemma find_In {A} (p : A -> bool) l x : find p l = Some x -> In x l.
Proof. induction l as [|y l IH]; cbn [find]; [discriminate|]. destruct (p y); [intros [= <-]; now left|right; auto]. Qed.

Lemma np_params_loop w D : forall ps seen g,
  av w ((fix go (seen : list (list N)) (ps : list uparam) (g : cenv)
                  : cres (list (bool * list N * cty) * cenv) :=
                  match ps with
                  | [] => COk ([], g)
                  | p :: r =>
                      if memL (upa_name p) seen then CErr E_DuplicateFnParam else
                      do ty <- concrete_of D (upa_ty p);
                      do r2 <- go (upa_name p :: seen) r (env_let g (upa_name p) ty (upa_mut p));
                      COk ((upa_mut p, upa_name p, ty) :: fst r2, snd r2)
                  end) seen ps g).
Proof. induction ps as [|p ps IH]; intros seen g; np_go. Qed.

(* THE CHECKER NEVER PANICS ON WELL-FORMED TREES (all function bodies well-formed: a call
   checks the callee) *)
Theorem np_check D : Forall wf_fn (d_fns D) -> forall f,
  (forall st e, wf_x e -> np (check_expr f D st e)) /\
  (forall st b, wf_block b -> np (check_stmts f D st b)) /\
  (forall st b, wf_block b -> np (check_block f D st b)) /\
  (forall st s, wf_s s -> np (check_stmt f D st s)) /\
  (forall st fd, wf_fn fd -> np (check_fn f D st fd)).
Proof.
  intros HD. induction f as [|f IH].
  { repeat split; intros; reflexivity. }
  destruct IH as (IHe & IHss & IHb & IHs & IHf).
  split; [|split; [|split; [|split]]].
  - intros st e W. destruct e; cbn [Infer.check_expr]; wfsplit W; unfold wf_x, wf_s, wf_block, wf_fn in *.
    all: try solve [np_go].
    all: np_go.
    all: try (exfalso;
              match goal with H : mapM_st _ _ _ = COk ?a, E : fst ?a = [] |- _ =>
                apply mapM_st_length in H; rewrite E in H end;
              match goal with W : negb (is_nil ?l) = true, H : length _ = length ?l |- _ =>
                destruct l; [discriminate W|discriminate H] end).
    all: try (apply np_struct_lit_loop; intros; apply IHe; eauto with npdb).
    all: try (apply IHf; rewrite Forall_forall in HD; apply HD; eapply find_In; eassumption).
  - intros st b W. cbn [Infer.check_stmts]. unfold wf_x, wf_s, wf_block, wf_fn in *. np_go.
  - intros st b W. cbn [Infer.check_block]. unfold wf_x, wf_s, wf_block, wf_fn in *. np_go.
  - intros st s W. destruct s; cbn [Infer.check_stmt]; wfsplit W; unfold wf_x, wf_s, wf_block, wf_fn in *.
    all: np_go.
    all: try (apply np_accs_loop; intros ? a0 Hin; destruct a0; try exact Logic.I; apply IHe;
              match goal with W : forallb wfb_a _ = true |- _ => apply (forallb_In _ _ _ W Hin) end).
  - intros st fd W. cbn [Infer.check_fn]. unfold wf_x, wf_s, wf_block, wf_fn in *. np_go.
    apply np_params_loop.
Qed.
Lemma np_contains_type_def structs enums target f : forall visited ty,
  np (contains_type_def f structs enums target visited ty).
Proof.
  induction f as [|f IH]; intros visited ty; cbn [contains_type_def]; [reflexivity|].
  assert (Hany : forall tys visited,
    np ((fix go (tys : list cty) (visited : list (list N)) : cres (bool * list (list N)) :=
          match tys with
          | [] => COk (false, visited)
          | t :: r =>
              do r1 <- contains_type_def f structs enums target visited t;
              if fst r1 then COk r1 else go r (snd r1)
          end) tys visited)).
  { induction tys as [|t tys IHt]; intros v; np_go. }
  np_go; apply Hany.
Qed.
Hint Resolve np_contains_type_def : npdb.

Lemma np_check_struct_def w sn en sd : av w (check_struct_def sn en sd).
Proof.
  unfold check_struct_def. np_go. generalize (@nil (list N)).
  induction (us_fields sd) as [|[n t] fs IH]; intros seen; np_go.
Qed.

Lemma np_check_enum_def w sn en ed : av w (check_enum_def sn en ed).
Proof.
  unfold check_enum_def. np_go. generalize (@nil (list N)).
  induction (ue_variants ed) as [|v vs IH]; intros seen; np_go.
Qed.
Hint Resolve np_check_struct_def np_check_enum_def : npdb.

Lemma np_const_lit w v ty done : av w (const_lit v ty done).
Proof. unfold const_lit. np_go. Qed.
Hint Resolve np_const_lit : npdb.

Lemma np_check_consts w : forall cs done, av w (check_consts cs done).
Proof. induction cs as [|c cs IH]; intros done; cbn [check_consts]; np_go. Qed.
Hint Resolve np_check_consts : npdb.

Lemma np_pub_loop D fuel : Forall wf_fn (d_fns D) -> forall fns, Forall wf_fn fns -> forall st,
  np ((fix go (fns : list ufndef) (st : cstate) : cres cstate :=
              match fns with
              | [] => COk st
              | fd :: r =>
                  if uf_pub fd then
                    match uf_params fd with
                    | [] => CErr E_PubFnWithoutParams
                    | _ =>
                        do r1 <- check_fn fuel D st fd;
                        go r (mkSt (st_env (snd r1))
                                   ((uf_name fd, fst r1) ::
                                    filter (fun nd => negb (list_eqb (fst nd) (uf_name fd))) (st_typed (snd r1)))
                                   (st_checking (snd r1)))
                    end
                  else go r st
              end) fns st).
Proof.
  intros HDD fns HD. induction HD as [|fd fns Hfd _ IHf]; intros st; np_go.
  apply (np_check D HDD fuel). exact Hfd.
Qed.

(* (A) NO PANIC: on a program whose function bodies contain no empty array literal and no
   match without arms, the checker never reaches one of its two `.first().unwrap()` on an
   empty vector -- and the model has no other panic site. *)
Theorem no_panic_t P : wf_program P -> forall fuel, check_program_t intern fuel P <> CErr E_Panic.
Proof.
  intros W fuel. apply np_neq. unfold check_program_t. cbv zeta.
  np_go.
  assert (HD : Forall wf_fn (up_fns P))
    by (apply Forall_forall; intros fd Hfd; apply (forallb_In _ _ _ W Hfd)).
  apply np_pub_loop; assumption.
Qed.

Theorem no_panic P : wf_program P -> forall fuel, check_program intern fuel P <> CErr E_Panic.
Proof.
  intros W fuel. unfold check_program. pose proof (no_panic_t P W fuel) as H.
  destruct (check_program_t intern fuel P) as [T|c| |]; cbn [cbind]; try discriminate.
  intro E. apply H. injection E as ->. reflexivity.
Qed.
End NoPanic.

Print Assumptions no_panic_t.
Print Assumptions no_panic.
