(* C06 with calls, acceptance at PROGRAM level for call graphs of depth <= 1: if the checker accepts
   P with fuel f, it accepts every reordering Q of P's maps with fuel 2 * f. *)
From Coq Require Import Lia Bool Permutation.
From GV Require Import Base.Util Front.Scan Front.ParseExpr Check.UAst Check.Infer Check.InferProofs Check.InferSub
  Check.InferTotal Check.InferFuel2 Check.PermSort Check.PermExh Check.InferPerm Check.InferPerm2 Check.InferPermFinal Check.InferPerm3.
Local Open Scope N_scope.

(* ================================================================ canonical entries with a fuel bound
   (Section Unary of InferPerm2.v, with the bound [nb] on the fuel of every witness) *)

Section UnaryB.
Variable intern : list N -> N.
Variable D : defs.
Variable nb : nat.                      (* the fuel bound *)
Notation check_expr := (check_expr intern).
Notation check_stmt := (check_stmt intern).
Notation check_stmts := (check_stmts intern).
Notation check_block := (check_block intern).
Notation check_fn := (check_fn intern).

(* the entry is the result of a successful check of the function of that name, in a state whose
   entries are such results *)
Inductive canonb : list N -> tfndef -> Prop :=
| canonb_intro f st fd id r :
    (f <= nb)%nat ->
    find (fun d => list_eqb (uf_name d) id) (d_fns D) = Some fd ->
    Forall (fun nd => canonb (fst nd) (snd nd)) (st_typed st) ->
    check_fn f D st fd = COk r -> canonb id (fst r).

Definition Cgoodb (T : list (list N * tfndef)) : Prop := Forall (fun nd => canonb (fst nd) (snd nd)) T.

(* (typed, checking) before and after a run *)
Definition tcb := (list (list N * tfndef) * list (list N))%type.
Definition ExtPb (a b : tcb) : Prop :=
  snd b = snd a /\
  (Cgoodb (fst a) -> Cgoodb (fst b)) /\
  (forall n, defd n (fst a) -> defd n (fst b)) /\
  (NoDup (map fst (fst a)) -> NoDup (map fst (fst b))) /\
  (forall n, defd n (fst b) -> defd n (fst a) \/ memL n (snd a) = false).
Definition tcb_of (st : cstate) : tcb := (st_typed st, st_checking st).
Definition Extb (st st' : cstate) : Prop := ExtPb (tcb_of st) (tcb_of st').

Lemma ExtPbb_refl a : ExtPb a a.
Proof. unfold ExtPb. repeat split; auto. Qed.
Lemma ExtPbb_trans a b c : ExtPb a b -> ExtPb b c -> ExtPb a c.
Proof.
  intros (A1 & A2 & A3 & A4 & A5) (B1 & B2 & B3 & B4 & B5). unfold ExtPb. repeat split; auto; [congruence|].
  intros n Hn. destruct (B5 n Hn) as [H|H]; [auto|]. right. rewrite <- A1. exact H.
Qed.

Lemma mapM_st_Extb {A B} (g : cstate -> A -> cres (B * cstate)) :
  (forall st x r, g st x = COk r -> Extb st (snd r)) ->
  forall l st r, mapM_st g st l = COk r -> Extb st (snd r).
Proof.
  intros Hg. induction l as [|x l IH]; intros st r H; cbn [mapM_st] in H; inv_all; [apply ExtPbb_refl|].
  cbn [snd]. eapply ExtPbb_trans; [eapply Hg; eauto|eapply IH; eauto].
Qed.

Lemma accs_loop_Extb ce fu :
  (forall st x r, ce st x = COk r -> Extb st (snd r)) ->
  forall accs st t r, accs_loop ce fu D st t accs = COk r -> Extb st (snd r).
Proof.
  intros Hce. induction accs as [|a accs IH]; intros st t r H; cbn [accs_loop] in H; [inv_all; apply ExtPbb_refl|].
  apply cbind_ok in H. destruct H as [[[ta t'] st'] [H1 H2]]. cbv beta iota in H2.
  apply cbind_ok in H2. destruct H2 as [[[tas tf] st''] [H2 H3]]. cbv beta iota in H3. inv_all. cbn [snd].
  apply IH in H2. cbn [snd] in H2. eapply ExtPbb_trans; [|exact H2]. clear H2 IH.
  destruct a.
  - inv_all'. match goal with H : ce _ _ = _ |- _ => apply Hce in H; exact H end.
  - inv_all'. destruct (nthN _ _); inv_all. apply ExtPbb_refl.
  - inv_all'. destruct (assocL _ (d_structs D)); [|discriminate]. destruct (assocL _ _); inv_all. apply ExtPbb_refl.
Qed.

Lemma struct_lit_loop_Extb ce f sd :
  (forall st x r, ce st x = COk r -> Extb st (snd r)) ->
  forall fields seen st r, struct_lit_loop ce f sd seen st fields = COk r -> Extb st (snd r).
Proof.
  intros Hce. induction fields as [|[fname fv] fields IH]; intros seen st r H; cbn [struct_lit_loop] in H; inv_all; [apply ExtPbb_refl|].
  destruct (assocL fname sd); [|discriminate]. inv_all. cbn [snd].
  eapply ExtPbb_trans; [eapply Hce; eauto|eapply IH; eauto].
Qed.

Ltac refold H :=
  fold (Infer.check_expr intern) (Infer.check_stmts intern) (Infer.check_block intern)
       (Infer.check_fn intern) (Infer.check_stmt intern) in H.

(* what check_fn adds: besides Extb, the new keys are not the function itself nor anything being checked *)
Definition ExtFb (st : cstate) (fd : ufndef) (st' : cstate) : Prop :=
  Extb st st' /\ memL (uf_name fd) (st_checking st) = false /\
  (forall n, defd n (st_typed st') -> defd n (st_typed st) \/ memL n (uf_name fd :: st_checking st) = false).

Ltac use_R IHe IHss IHb IHs IHf := repeat match goal with
  | H : Infer.check_expr _ _ _ _ _ = COk _ |- _ => apply IHe in H
  | H : Infer.check_stmts _ _ _ _ _ = COk _ |- _ => apply IHss in H
  | H : Infer.check_block _ _ _ _ _ = COk _ |- _ => apply IHb in H
  | H : mapM_st (Infer.check_expr _ _ _) _ _ = COk _ |- _ => apply (mapM_st_Extb _ IHe) in H
  | H : mapM_st (Infer.check_stmt _ _ _) _ _ = COk _ |- _ => apply (mapM_st_Extb _ IHs) in H
  | H : accs_loop _ _ _ _ _ _ = COk _ |- _ => apply (accs_loop_Extb _ _ IHe) in H
  | H : struct_lit_loop _ _ _ _ _ _ = COk _ |- _ => apply (struct_lit_loop_Extb _ _ _ IHe) in H
  end.

Ltac finR := unfold Extb, tcb_of in *; cbn [snd fst st_typed st_checking with_env] in *;
  eauto 8 using ExtPbb_refl, ExtPbb_trans.
Theorem check_extb f : (f <= nb)%nat ->
  (forall st e r, check_expr f D st e = COk r -> Extb st (snd r)) /\
  (forall st b r, check_stmts f D st b = COk r -> Extb st (snd r)) /\
  (forall st b r, check_block f D st b = COk r -> Extb st (snd r)) /\
  (forall st s r, check_stmt f D st s = COk r -> Extb st (snd r)) /\
  (forall st fd r, check_fn f D st fd = COk r -> ExtFb st fd (snd r)).
Proof.
  induction f as [|f IH]; intro Hle.
  { repeat split; intros; discriminate. }
  destruct (IH ltac:(lia)) as (IHe & IHss & IHb & IHs & IHf).
  split; [|split; [|split; [|split]]].
  - intros st e r H. destruct e; cbn [Infer.check_expr] in H; refold H.
    + inv_all; apply ExtPbb_refl.
    + inv_all; apply ExtPbb_refl.
    + inv_all; apply ExtPbb_refl.
    + inv_all; apply ExtPbb_refl.
    + destruct (env_get (st_env st) s) as [[? ?]|]; [inv_all; apply ExtPbb_refl|].
      destruct (assocL s (d_consts D)); inv_all; apply ExtPbb_refl.
    + inv_all. destruct (fst a) eqn:E; [discriminate|]. inv_all. use_R IHe IHss IHb IHs IHf. finR.
    + inv_all. use_R IHe IHss IHb IHs IHf. finR.
    + discriminate.
    + inv_all. use_R IHe IHss IHb IHs IHf. finR.
    + inv_all. use_R IHe IHss IHb IHs IHf. finR.
    + inv_all. destruct (nthN _ _); inv_all. use_R IHe IHss IHb IHs IHf. finR.
    + inv_all. destruct (assocL _ (d_structs D)); [|discriminate]. destruct (assocL _ _); inv_all. use_R IHe IHss IHb IHs IHf. finR.
    + destruct (assocL name (d_structs D)); [|discriminate]. inv_all. use_R IHe IHss IHb IHs IHf. finR.
    + destruct (assocL e (d_enums D)) as [ed|]; [|discriminate]. destruct (assocL v ed) as [[?|]|]; try discriminate;
        destruct args; try discriminate; inv_all; use_R IHe IHss IHb IHs IHf; finR.
    + (* match *)
      inv_all. destruct (ty_of (fst a)) eqn:Ety; try discriminate; inv_all;
      (destruct (fst a0) as [|[? ?] ?] eqn:E0; [discriminate|]; inv_all; cbn [snd];
       match goal with H1 : mapM_st _ _ _ = COk ?a0 |- Extb _ (snd ?a0) =>
         apply mapM_st_Extb in H1;
         [use_R IHe IHss IHb IHs IHf; finR
         |intros st0 pc r0 H0; inv_all; use_R IHe IHss IHb IHs IHf; finR] end).
    + destruct o; inv_all; use_R IHe IHss IHb IHs IHf; finR.
    + inv_all. destruct o; inv_all;
        try (match goal with x : texpr * texpr * cty |- _ => destruct x as [[? ?] ?] end; inv_all);
        try (destruct (ty_of (fst a)); try discriminate; destruct (ty_of (fst a0)); try discriminate; inv_all);
        use_R IHe IHss IHb IHs IHf; finR.
    + apply cbind_ok in H. destruct H as [[[body ty] st'] [H1 H]]. cbv beta iota in H. inv_all.
      use_R IHe IHss IHb IHs IHf. finR.
    + (* call *)
      apply cbind_ok in H. destruct H as [st1 [H1 H]]. cbv beta in H.
      assert (Hst1 : Extb st st1).
      { destruct (assocL f0 (st_typed st)) eqn:Eas; cbn [negb] in H1; [inv_all; apply ExtPbb_refl|].
        destruct (find _ (d_fns D)) as [fd|] eqn:Ef; [|inv_all; apply ExtPbb_refl].
        apply cbind_ok in H1. destruct H1 as [[tfd st2] [H1 H2]]. cbv beta in H2. inv_all.
        pose proof H1 as Hrun. apply IHf in H1. destruct H1 as ((A1 & A2 & A3 & A4 & A5) & Hm & HK).
        cbn [snd fst] in *. unfold Extb, tcb_of, ExtPb in *. cbn [snd fst st_typed st_checking] in *.
        assert (Hname : uf_name fd = f0) by (apply find_some in Ef; destruct Ef as [_ Ef]; apply list_eqb_eq in Ef; exact Ef).
        split; [exact A1|]. split; [|split; [|split]].
        * intro HC. constructor; [|apply A2; exact HC]. cbn [fst snd]. change tfd with (fst (tfd, st2)). eapply canonb_intro; [|eassumption..]; lia.
        * intros n Hn. unfold defd in *. cbn [assocL]. destruct (list_eqb n f0); [discriminate|auto].
        * intro HN. cbn [map fst]. constructor; [|apply A4; exact HN]. intro Hin. apply defd_keys in Hin.
          destruct (HK f0 Hin) as [Hd|Hd]; [apply Hd; exact Eas|].
          rewrite Hname in Hd. cbn [memL existsb] in Hd. rewrite list_eqb_refl in Hd. discriminate.
        * intros n Hn. unfold defd in Hn. cbn [assocL] in Hn. destruct (list_eqb n f0) eqn:En; [|auto].
          apply list_eqb_eq in En. subst n. right. rewrite <- Hname. exact Hm. }
      clear H1.
      destruct (assocL f0 (st_typed st1)); [|discriminate].
      destruct (env_get (st_env st1) f0); [discriminate|]. inv_all. use_R IHe IHss IHb IHs IHf. finR.
    + discriminate.
    + inv_all. destruct a3 as [[? ?] ?]. inv_all. use_R IHe IHss IHb IHs IHf. finR.
    + inv_all. use_R IHe IHss IHb IHs IHf. finR.
    + inv_all. apply ExtPbb_refl.
  - intros st b r H. cbn [Infer.check_stmts] in H. refold H. use_R IHe IHss IHb IHs IHf. exact H.
  - intros st b r H. cbn [Infer.check_block] in H. refold H. inv_all. use_R IHe IHss IHb IHs IHf. finR.
  - intros st s r H. destruct s; cbn [Infer.check_stmt] in H; refold H.
    + inv_all. use_R IHe IHss IHb IHs IHf. finR.
    + inv_all. use_R IHe IHss IHb IHs IHf. finR.
    + destruct (env_get (st_env st) x) as [[t [|]]|]; try discriminate.
      apply cbind_ok in H. destruct H as [[[tas t'] st1] [H1 H]]. cbv beta iota in H. inv_all.
      use_R IHe IHss IHb IHs IHf. finR.
    + inv_all. use_R IHe IHss IHb IHs IHf. finR.
    + inv_all. use_R IHe IHss IHb IHs IHf. finR.
  - intros st fd r H. cbn [Infer.check_fn] in H. refold H.
    destruct (memL (uf_name fd) (st_checking st)) eqn:Em; [discriminate|]. inv_all.
    destruct a0 as [[body ?] st1]. inv_all.
    match goal with Hb : Infer.check_block _ _ _ _ _ = COk _ |- _ => apply IHb in Hb; destruct Hb as (A1 & A2 & A3 & A4 & A5) end.
    unfold ExtFb, Extb, tcb_of, ExtPb in *. cbn [snd fst st_typed st_checking] in *.
    repeat split; auto.
    intros n Hn. destruct (A5 n Hn) as [Hd|Hd]; [auto|]. right.
    cbn [memL existsb] in Hd. apply orb_false_iff in Hd. apply Hd.
Qed.
End UnaryB.
Lemma canonb_canon intern D nb : forall id t, canonb intern D nb id t -> canon intern D id t.
Proof.
  fix IH 3. intros id t H. destruct H as [f st fd id r Hle Hf HC Hr].
  eapply canon_intro; [exact Hf| |exact Hr].
  induction HC as [|nd T Hnd HT IHT]; constructor; [exact (IH _ _ Hnd)|exact IHT].
Qed.

Lemma Cgoodb_Cgood intern D nb T : Cgoodb intern D nb T -> Cgood intern D T.
Proof. apply Forall_impl. intros nd. apply canonb_canon. Qed.

(* ================================================================ the class: call graphs of depth <= 1 *)

Definition nocallb (fd : ufndef) : bool := forallb ncb_s (uf_body fd).
Definition helperb (fns : list ufndef) (id : list N) : bool :=
  match find (fun d => list_eqb (uf_name d) id) fns with Some fd => nocallb fd | None => false end.
(* every function either calls nothing or calls only functions that call nothing *)
Definition call_depth_le_1 (P : uprogram) : bool :=
  forallb (fun fd => nocallb fd || forallb (okc_s (helperb (up_fns P))) (uf_body fd)) (up_fns P).

Section Recheck.
Variable intern : list N -> N.
Variable D : defs.
Variable f : nat.
Notation Hp := (helperb (d_fns D)).
Hypothesis ND : NoDup (map uf_name (d_fns D)).
Hypothesis Hclass : forall fd, In fd (d_fns D) -> nocallb fd = true \/ forallb (okc_s Hp) (uf_body fd) = true.
(* every function has an accepted check within f units of fuel (true at the end of an accepting run with fuel f) *)
Hypothesis Hwit : forall fd, In fd (d_fns D) -> exists t0, canonb intern D f (uf_name fd) t0.

Lemma Hhelp1 : forall id fd, Hp id = true ->
  find (fun d => list_eqb (uf_name d) id) (d_fns D) = Some fd -> nocall_fn fd.
Proof. intros id fd H Hf. unfold helperb in H. rewrite Hf in H. exact H. Qed.

Lemma HK1 : forall id d, Hp id = true -> canon intern D id d ->
  exists w st0 fd r0, (w <= f)%nat /\ Cgood intern D (st_typed st0) /\
    find (fun d => list_eqb (uf_name d) id) (d_fns D) = Some fd /\ check_fn intern w D st0 fd = COk r0.
Proof.
  intros id d _ Hd. inversion Hd as [f3 st3 fd3 id3 r3 Hf3 _ _]. subst.
  pose proof Hf3 as Hf. apply find_some in Hf. destruct Hf as [Hin En]. apply list_eqb_eq in En.
  destruct (Hwit fd3 Hin) as [t0 Ht0]. rewrite En in Ht0.
  inversion Ht0 as [w st0 fd0 id0 r0 Hw Hf0 HC0 Hr0]. subst.
  exists w, st0, fd0, r0. split; [exact Hw|]. split; [eapply Cgoodb_Cgood; exact HC0|]. split; assumption.
Qed.

(* a function of the class, accepted once with fuel f in a good state, is accepted by the pub-fn loop of
   any other good state with fuel f + f, with the same typed function; what the first check added to
   the typed map, the second has afterwards *)
Theorem recheck g st r st' : In g (d_fns D) ->
  Cgood intern D (st_typed st) -> check_fn intern f D st g = COk r ->
  Cgood intern D (st_typed st') -> st_checking st' = [] ->
  exists r', check_fn intern (f + f) D st' g = COk r' /\ fst r' = fst r /\
    (forall n, defd n (st_typed (snd r)) -> defd n (st_typed st) \/ defd n (st_typed (snd r'))).
Proof.
  intros Hin HC Hr HC' Hck.
  assert (Hm : memL (uf_name g) (st_checking st') = false) by (rewrite Hck; reflexivity).
  destruct (Hclass g Hin) as [Hn|Hbody].
  - destruct (nocall_recheck intern D g f st r f st' Hn HC Hr HC' Hm) as (r' & E & Ef & _).
    exists r'. split; [exact E|]. split; [exact Ef|]. intros n Hd. left.
    rewrite <- (nocall_frame intern D g f st r Hn Hr). exact Hd.
  - destruct (nocallb g) eqn:Eg.
    + destruct (nocall_recheck intern D g f st r f st' Eg HC Hr HC' Hm) as (r' & E & Ef & _).
      exists r'. split; [exact E|]. split; [exact Ef|]. intros n Hd. left.
      rewrite <- (nocall_frame intern D g f st r Eg Hr). exact Hd.
    + assert (Hg : Hp (uf_name g) = false).
      { unfold helperb. rewrite (find_by_name _ ND g Hin). exact Eg. }
      assert (Hcallee : forall id fd F st2, Hp id = true ->
        find (fun d => list_eqb (uf_name d) id) (d_fns D) = Some fd -> (exists d, canon intern D id d) ->
        (f <= F)%nat -> Cgood intern D (st_typed st2) -> no_helper_checked Hp (st_checking st2) ->
        exists r2, check_fn intern F D st2 fd = COk r2 /\ st_typed (snd r2) = st_typed st2).
      { intros id fd F st2 Hid Hf [d Hd] HF HC2 Hn2.
        destruct (HK1 id d Hid Hd) as (w & st0 & fd0 & r0 & Hw & HC0 & Hf0 & Hr0). rewrite Hf in Hf0. injection Hf0 as <-.
        assert (Hname : uf_name fd = id) by (apply find_some in Hf; destruct Hf as [_ Hf]; apply list_eqb_eq in Hf; exact Hf).
        destruct (nocall_recheck intern D fd w st0 r0 (F - w) st2 (Hhelp1 id fd Hid Hf) HC0 Hr0 HC2) as (r2 & E2 & _ & Hfr).
        { rewrite Hname. apply Hn2. exact Hid. }
        replace (w + (F - w))%nat with F in E2 by lia. exists r2. split; assumption. }
      assert (Hframe : forall id fd f0 st0 r0, Hp id = true ->
        find (fun d => list_eqb (uf_name d) id) (d_fns D) = Some fd ->
        check_fn intern f0 D st0 fd = COk r0 -> st_typed (snd r0) = st_typed st0).
      { intros id fd f0 st0 r0 Hid Hf Hr0. eapply nocall_frame; [eapply Hhelp1; eassumption|exact Hr0]. }
      pose proof (check_imp intern D f Hp (no_helper_checked Hp) (st_typed st) Hcallee Hframe f) as (_ & _ & _ & _ & HF).
      specialize (HF st st' g).
      assert (HR : Rt intern D (st_typed st) (st_typed st) (st_typed st')) by (split; [exact HC|split; [exact HC'|intros n Hn; now left]]).
      assert (HP : no_helper_checked Hp (uf_name g :: st_checking st')).
      { intros id Hid. rewrite Hck. cbn [memL existsb]. rewrite orb_false_r.
        destruct (list_eqb id (uf_name g)) eqn:E; [|reflexivity]. apply list_eqb_eq in E. subst id. congruence. }
      specialize (HF HR HP Hm Hbody). rewrite Hr in HF. cbn [rimp] in HF.
      destruct (check_fn intern (f + f) D st' g) as [r'| | |]; try contradiction.
      exists r'. split; [reflexivity|]. destruct HF as [E1 (_ & _ & HKeys)]. split; [symmetry; exact E1|exact HKeys].
Qed.
End Recheck.

(* ================================================================ the two pub-fn loops *)

Section Loops.
Variable intern : list N -> N.
Variable D : defs.
Variable f : nat.
Notation Hp := (helperb (d_fns D)).
Notation Cgood := (Cgood intern D).
Notation Cgoodb := (Cgoodb intern D f).

(* the accepting loop (fuel f): what it leaves behind *)
Lemma pub_go_P : forall fns st st',
  (forall fd, In fd fns -> find (fun d => list_eqb (uf_name d) (uf_name fd)) (d_fns D) = Some fd) ->
  Cgoodb (st_typed st) -> st_checking st = [] ->
  pub_go intern f D fns st = COk st' ->
  Cgoodb (st_typed st') /\ st_checking st' = [] /\
  (forall fd, In fd fns -> uf_pub fd = true ->
     uf_params fd <> [] /\ exists st1 r1, Cgood (st_typed st1) /\ check_fn intern f D st1 fd = COk r1) /\
  (forall h, defd h (st_typed st') -> defd h (st_typed st) \/
     exists g st1 r1, In g fns /\ uf_pub g = true /\ Cgood (st_typed st1) /\ check_fn intern f D st1 g = COk r1 /\
       (h = uf_name g \/ defd h (st_typed (snd r1))) /\ ~ defd h (st_typed st1)).
Proof.
  induction fns as [|fd fns IH]; intros st st' Hfind HC Hck H; cbn [pub_go] in H.
  - injection H as <-. split; [exact HC|]. split; [exact Hck|]. split; [intros ? []|]. intros h Hh. left. exact Hh.
  - assert (Hfind' : forall fd0, In fd0 fns -> find (fun d => list_eqb (uf_name d) (uf_name fd0)) (d_fns D) = Some fd0)
      by (intros; apply Hfind; now right).
    destruct (uf_pub fd) eqn:Epub.
    + destruct (uf_params fd) eqn:Epar; [discriminate H|].
      destruct (check_fn intern f D st fd) as [r1| | |] eqn:E1; cbn [cbind] in H; try discriminate H.
      destruct (proj2 (proj2 (proj2 (proj2 (check_extb intern D f f (le_n f))))) _ _ _ E1) as [(X1 & X2 & X3 & X4 & X5) _].
      cbn [tcb_of fst snd] in *.
      set (T1 := (uf_name fd, fst r1) :: filter (fun nd => negb (list_eqb (fst nd) (uf_name fd))) (st_typed (snd r1))) in *.
      assert (HC1 : Cgoodb T1).
      { unfold T1. constructor; [cbn [fst snd]; eapply canonb_intro; [apply le_n|apply Hfind; now left|exact HC|exact E1]|].
        apply Forall_filter. apply X2. exact HC. }
      specialize (IH (mkSt (st_env (snd r1)) T1 (st_checking (snd r1))) st' Hfind' HC1 ltac:(cbn [st_checking]; congruence) H).
      cbn [st_typed] in IH. destruct IH as (A1 & A2 & A3 & A4). split; [exact A1|]. split; [exact A2|]. split.
      * intros fd0 [<-|Hin] Hp0; [|apply A3; assumption]. split; [rewrite Epar; discriminate|].
        exists st, r1. split; [eapply Cgoodb_Cgood; exact HC|exact E1].
      * intros h Hh. destruct (assocL h (st_typed st)) eqn:Eh; [left; unfold defd; rewrite Eh; discriminate|].
        right. destruct (A4 h Hh) as [Hd|(g & st1 & r2 & Hin & Hpg & HCg & Hrg & Hor & Hnd)].
        -- exists fd, st, r1. split; [now left|]. split; [exact Epub|]. split; [eapply Cgoodb_Cgood; exact HC|]. split; [exact E1|].
           split; [|unfold defd; rewrite Eh; intro Hx; apply Hx; reflexivity].
           unfold T1 in Hd. apply defd_cons_filter in Hd. exact Hd.
        -- exists g, st1, r2. split; [now right|]. repeat split; assumption.
    + destruct (IH st st' Hfind' HC Hck H) as (A1 & A2 & A3 & A4). split; [exact A1|]. split; [exact A2|]. split.
      * intros fd0 [<-|Hin] Hp0; [congruence|apply A3; assumption].
      * intros h Hh. destruct (A4 h Hh) as [Hd|(g & st1 & r2 & Hin & Hpg & HCg & Hrg & Hor & Hnd)]; [left; exact Hd|].
        right. exists g, st1, r2. split; [now right|]. repeat split; assumption.
Qed.

Hypothesis ND : NoDup (map uf_name (d_fns D)).
Hypothesis Hclass : forall fd, In fd (d_fns D) -> nocallb fd = true \/ forallb (okc_s Hp) (uf_body fd) = true.
Hypothesis Hwit : forall fd, In fd (d_fns D) -> exists t0, canonb intern D f (uf_name fd) t0.

(* the loop in another order, with fuel f + f *)
Lemma pub_go_Q : forall fns st',
  (forall fd, In fd fns -> In fd (d_fns D)) ->
  (forall fd, In fd fns -> uf_pub fd = true ->
     uf_params fd <> [] /\ exists st1 r1, Cgood (st_typed st1) /\ check_fn intern f D st1 fd = COk r1) ->
  Cgood (st_typed st') -> st_checking st' = [] ->
  exists st'', pub_go intern (f + f) D fns st' = COk st'' /\ Cgood (st_typed st'') /\ st_checking st'' = [] /\
    (forall n, defd n (st_typed st') -> defd n (st_typed st'')) /\
    (forall fd, In fd fns -> uf_pub fd = true -> defd (uf_name fd) (st_typed st'')) /\
    (forall g st1 r1, In g fns -> uf_pub g = true -> Cgood (st_typed st1) -> check_fn intern f D st1 g = COk r1 ->
       forall n, defd n (st_typed (snd r1)) -> defd n (st_typed st1) \/ defd n (st_typed st'')).
Proof.
  induction fns as [|fd fns IH]; intros st' Hin Hw HC Hck; cbn [pub_go].
  - exists st'. split; [reflexivity|]. split; [exact HC|]. split; [exact Hck|]. split; [auto|]. split; [intros ? []|intros ? ? ? []].
  - assert (Hin' : forall fd0, In fd0 fns -> In fd0 (d_fns D)) by (intros; apply Hin; now right).
    assert (Hw' : forall fd0, In fd0 fns -> uf_pub fd0 = true ->
              uf_params fd0 <> [] /\ exists st1 r1, Cgood (st_typed st1) /\ check_fn intern f D st1 fd0 = COk r1)
      by (intros; apply Hw; [now right|assumption]).
    destruct (uf_pub fd) eqn:Epub.
    + destruct (Hw fd (or_introl eq_refl) Epub) as (Hpar & st1 & r1 & HC1 & Hr1).
      destruct (uf_params fd) eqn:Epar; [congruence|].
      destruct (recheck intern D f ND Hclass Hwit fd st1 r1 st' (Hin fd (or_introl eq_refl)) HC1 Hr1 HC Hck) as (r' & Er' & _ & _).
      rewrite Er'. cbn [cbind].
      destruct (ins_right intern D (f + f) st' fd (uf_name fd) r' (find_by_name _ ND fd (Hin fd (or_introl eq_refl))) HC Er') as [HC2 _].
      destruct (check_fn_frame _ _ _ _ _ _ Er') as [_ Hck'].
      destruct (proj2 (proj2 (proj2 (proj2 (check_ext intern D (f + f))))) _ _ _ Er') as [(_ & _ & X3 & _) _].
      cbn [tc_of fst snd] in X3.
      set (T1 := (uf_name fd, fst r') :: filter (fun nd => negb (list_eqb (fst nd) (uf_name fd))) (st_typed (snd r'))) in *.
      assert (HCT : Cgood T1).
      { unfold T1. inversion HC2 as [|? ? Hhd Htl]; subst. constructor; [exact Hhd|]. apply Forall_filter. exact Htl. }
      destruct (IH (mkSt (st_env (snd r')) T1 (st_checking (snd r'))) Hin' Hw' HCT ltac:(cbn [st_checking]; congruence))
        as (st'' & Ego & B1 & B2 & B3 & B4 & B5).
      cbn [st_typed] in *. exists st''. split; [exact Ego|]. split; [exact B1|]. split; [exact B2|].
      assert (Hup : forall n, defd n (st_typed (snd r')) -> defd n (st_typed st'')).
      { intros n Hn. apply B3. unfold T1. apply defd_cons_filter. now right. }
      split; [intros n Hn; apply Hup, X3, Hn|]. split.
      * intros fd0 [<-|Hi] Hp0; [|apply B4; assumption]. apply B3. unfold T1. apply defd_cons_filter. now left.
      * intros g st2 r2 [<-|Hi] Hpg HCg Hrg n Hn; [|eapply B5; eassumption].
        destruct (recheck intern D f ND Hclass Hwit fd st2 r2 st' (Hin fd (or_introl eq_refl)) HCg Hrg HC Hck) as (r'' & Er'' & _ & Hk).
        rewrite Er' in Er''. injection Er'' as <-. destruct (Hk n Hn) as [H0|H0]; [left; exact H0|right; apply Hup; exact H0].
    + destruct (IH st' Hin' Hw' HC Hck) as (st'' & Ego & B1 & B2 & B3 & B4 & B5).
      exists st''. split; [exact Ego|]. split; [exact B1|]. split; [exact B2|]. split; [exact B3|]. split.
      * intros fd0 [<-|Hi] Hp0; [congruence|apply B4; assumption].
      * intros g st2 r2 [<-|Hi] Hpg; [congruence|eapply B5; eassumption].
Qed.
End Loops.

(* ================================================================ the program *)

Lemma rec_check_le f K structs enums x : rec_check f structs enums x = COk tt -> rec_check (f + K) structs enums x = COk tt.
Proof.
  unfold rec_check. cbv zeta. intro H.
  destruct (le_iter (fun n => contains_type_def n structs enums x []
              match assocL x structs with Some _ => CStruct x | None => CEnum x end)
              (fun n => le_contains_type_def structs enums x n _ _) f K) as [E|E].
  - rewrite E in H. discriminate H.
  - rewrite E. exact H.
Qed.

Lemma mapM_unit_all {A} (g : A -> cres unit) l r : mapM g l = COk r -> forall x, In x l -> g x = COk tt.
Proof.
  revert r. induction l as [|y l IH]; intros r H x Hin; [destruct Hin|]. cbn [mapM] in H.
  destruct (g y) as [[]| | |] eqn:Ey; cbn [cbind] in H; try discriminate H.
  destruct (mapM g l) as [rl| | |] eqn:El; cbn [cbind] in H; try discriminate H.
  destruct Hin as [<-|Hin]; [exact Ey|eapply IH; [reflexivity|exact Hin]].
Qed.

Lemma mapM_unit_ok {A} (g : A -> cres unit) l : (forall x, In x l -> g x = COk tt) -> exists r, mapM g l = COk r.
Proof.
  induction l as [|y l IH]; intro H; cbn [mapM]; [eexists; reflexivity|].
  rewrite (H y (or_introl eq_refl)). cbn [cbind]. destruct IH as [r Er]; [intros; apply H; now right|]. rewrite Er. cbn [cbind]. eexists; reflexivity.
Qed.

Theorem check_perm_accept_depth1 intern P Q f TP :
  (forall a b, intern a = intern b -> a = b) ->
  up_consts Q = up_consts P -> up_main Q = up_main P ->
  Permutation (up_fns P) (up_fns Q) -> Permutation (up_structs P) (up_structs Q) -> Permutation (up_enums P) (up_enums Q) ->
  NoDup (map uf_name (up_fns P)) -> NoDup (map us_name (up_structs P)) -> NoDup (map ue_name (up_enums P)) ->
  call_depth_le_1 P = true ->
  check_program_t intern f P = COk TP -> is_ok (check_program_t intern (2 * f) Q) = true.
Proof.
  intros intern_inj Hconsts Hmain Hfns Hstructs Henums ND_fns ND_structs ND_enums Hdepth EP.
  replace (2 * f)%nat with (f + f)%nat by lia.
  rewrite check_program_t_unfold in EP. rewrite check_program_t_unfold. rewrite Hconsts, Hmain.
  assert (Msn : forall n, memL n (map us_name (up_structs Q)) = memL n (map us_name (up_structs P)))
    by (intro n; symmetry; apply memL_perm, Permutation_map, Hstructs).
  assert (Men : forall n, memL n (map ue_name (up_enums Q)) = memL n (map ue_name (up_enums P)))
    by (intro n; symmetry; apply memL_perm, Permutation_map, Henums).
  destruct (check_consts (up_consts P) []) as [consts| | |]; cbn [cbind] in EP |- *; try discriminate EP.
  (* structs, enums *)
  destruct (mapM (check_struct_def (map us_name (up_structs P)) (map ue_name (up_enums P))) (up_structs P)) as [structs| | |] eqn:Es;
    cbn [cbind] in EP; try discriminate EP.
  rewrite (mapM_ext (check_struct_def (map us_name (up_structs Q)) (map ue_name (up_enums Q)))
                    (check_struct_def (map us_name (up_structs P)) (map ue_name (up_enums P))))
    by (intros; apply check_struct_def_eq; assumption).
  pose proof (mapM_perm (check_struct_def (map us_name (up_structs P)) (map ue_name (up_enums P))) _ _ Hstructs) as Ps.
  rewrite Es in Ps. destruct (mapM _ (up_structs Q)) as [structs'| | |]; try contradiction. cbn [cbind].
  assert (Ns : map fst structs = map us_name (up_structs P)) by (eapply mapM_names; [|exact Es]; intros x r; apply struct_def_name).
  destruct (mapM (check_enum_def (map us_name (up_structs P)) (map ue_name (up_enums P))) (up_enums P)) as [enums| | |] eqn:Ee;
    cbn [cbind] in EP; try discriminate EP.
  rewrite (mapM_ext (check_enum_def (map us_name (up_structs Q)) (map ue_name (up_enums Q)))
                    (check_enum_def (map us_name (up_structs P)) (map ue_name (up_enums P))))
    by (intros; apply check_enum_def_eq; assumption).
  pose proof (mapM_perm (check_enum_def (map us_name (up_structs P)) (map ue_name (up_enums P))) _ _ Henums) as Pe.
  rewrite Ee in Pe. destruct (mapM _ (up_enums Q)) as [enums'| | |]; try contradiction. cbn [cbind].
  assert (Ne : map fst enums = map ue_name (up_enums P)) by (eapply mapM_names; [|exact Ee]; intros x r; apply enum_def_name).
  assert (NDs : NoDup (map fst structs)) by (rewrite Ns; exact ND_structs).
  assert (NDe : NoDup (map fst enums)) by (rewrite Ne; exact ND_enums).
  assert (As : forall n, assocL n structs' = assocL n structs) by (intro n; symmetry; apply assocL_perm; assumption).
  assert (Ae : forall n, assocL n enums' = assocL n enums) by (intro n; symmetry; apply assocL_perm; assumption).
  (* recursive type definitions *)
  destruct (mapM (rec_check f structs enums) (map fst structs ++ map fst enums)) as [ru| | |] eqn:Er; cbn [cbind] in EP; try discriminate EP.
  rewrite (mapM_ext (rec_check (f + f) structs' enums') (rec_check (f + f) structs enums)).
  2:{ intros x _. unfold rec_check. rewrite As. cbv zeta. rewrite (contains_type_def_eq structs enums structs' enums' x As Ae). reflexivity. }
  destruct (mapM_unit_ok (rec_check (f + f) structs enums) (map fst structs' ++ map fst enums')) as [ru' Eru'].
  { intros x Hx. apply rec_check_le. eapply mapM_unit_all; [exact Er|].
    eapply Permutation_in; [|exact Hx]. apply Permutation_sym. apply Permutation_app; apply Permutation_map; assumption. }
  rewrite Eru'. cbn [cbind].
  (* the function loops *)
  set (D := defs_of P consts structs enums) in *. set (D' := defs_of Q consts structs' enums').
  assert (Hfind : forall id, find (fun d => list_eqb (uf_name d) id) (d_fns D') = find (fun d => list_eqb (uf_name d) id) (d_fns D))
    by (intro id; symmetry; apply find_fn_perm; assumption).
  assert (Hexh : forall ps ty, check_exhaustiveness intern D' ps ty = check_exhaustiveness intern D ps ty)
    by (intros; symmetry; apply check_exhaustiveness_perm; assumption).
  assert (HDeq : forall st fd, check_fn intern (f + f) D' st fd = check_fn intern (f + f) D st fd).
  { intros st fd.
    pose proof (check_rel intern D D' eq_refl As Ae Hfind Msn Men Hexh false eq
                  (fun _ t t' E n => f_equal (assocL n) E) (fun _ t t' e E => f_equal (cons e) E) (f + f)) as (_ & _ & _ & _ & HF).
    specialize (HF st st fd ltac:(repeat split) ltac:(discriminate)).
    destruct (check_fn intern (f + f) D st fd) as [[t1 [g1 ty1 c1]]| | |], (check_fn intern (f + f) D' st fd) as [[t2 [g2 ty2 c2]]| | |];
      cbn [InferPerm.rres] in HF; try contradiction; try reflexivity; try congruence.
    destruct HF as [E1 (E2 & E3 & E4)]. cbn [fst snd st_env st_checking st_typed] in *. congruence. }
  rewrite (pub_go_D_eq intern (f + f) D D' HDeq).
  change (d_fns D) with (up_fns P) in *.
  assert (FP : forall fd, In fd (up_fns P) -> find (fun d => list_eqb (uf_name d) (uf_name fd)) (d_fns D) = Some fd)
    by (intros fd Hin; apply (find_by_name _ ND_fns fd Hin)).
  destruct (pub_go intern f D (up_fns P) (mkSt env_new [] [])) as [stP| | |] eqn:Eg; cbn [cbind] in EP; try discriminate EP.
  destruct (existsb _ (up_fns P)) eqn:UP; [discriminate EP|]. clear EP.
  destruct (pub_go_P intern D f (up_fns P) (mkSt env_new [] []) stP FP (Forall_nil _) eq_refl Eg) as (CbP & _ & WP & TrP).
  destruct (pub_go_good intern D constrain_type_det constrain_to_i32_det f (up_fns P) (mkSt env_new [] []) stP FP (Forall_nil _) (NoDup_nil _) eq_refl Eg)
    as (_ & _ & _ & PubP).
  assert (AllP : forall fd, In fd (up_fns P) -> defd (uf_name fd) (st_typed stP)).
  { intros fd Hin. destruct (uf_pub fd) eqn:Ep; [apply PubP; assumption|].
    rewrite <- not_true_iff_false in UP. unfold defd. intro Hn. apply UP. apply existsb_exists. exists fd. split; [exact Hin|].
    rewrite Ep, Hn. reflexivity. }
  assert (Hwit : forall fd, In fd (d_fns D) -> exists t0, canonb intern D f (uf_name fd) t0).
  { intros fd Hin. specialize (AllP fd Hin). unfold defd in AllP. destruct (assocL (uf_name fd) (st_typed stP)) as [t0|] eqn:E0; [|congruence].
    exists t0. apply assocL_In in E0. unfold Cgoodb in CbP. rewrite Forall_forall in CbP. exact (CbP _ E0). }
  assert (Hclass : forall fd, In fd (d_fns D) -> nocallb fd = true \/ forallb (okc_s (helperb (d_fns D))) (uf_body fd) = true).
  { intros fd Hin. unfold call_depth_le_1 in Hdepth. pose proof (forallb_In _ _ _ Hdepth Hin) as H. apply orb_true_iff in H. exact H. }
  assert (InQ : forall fd, In fd (up_fns Q) -> In fd (d_fns D))
    by (intros fd Hin; eapply Permutation_in; [apply Permutation_sym; exact Hfns|exact Hin]).
  destruct (pub_go_Q intern D f ND_fns Hclass Hwit (up_fns Q) (mkSt env_new [] []) InQ
              (fun fd Hin Hp => WP fd (InQ fd Hin) Hp) (Forall_nil _) eq_refl) as (stQ & EgQ & _ & _ & _ & PubQ & KeysQ).
  rewrite EgQ. cbn [cbind].
  (* no unused function in the other order either *)
  assert (UQ : existsb (fun fd => negb (uf_pub fd) && negb match assocL (uf_name fd) (st_typed stQ) with Some _ => true | None => false end)
                 (up_fns Q) = false).
  { apply not_true_iff_false. intro Hex. apply existsb_exists in Hex. destruct Hex as (fd & Hin & Hb).
    apply andb_true_iff in Hb. destruct Hb as [Hnp Hnd]. apply negb_true_iff in Hnp.
    destruct (assocL (uf_name fd) (st_typed stQ)) eqn:EQ; [discriminate Hnd|].
    assert (HdQ : defd (uf_name fd) (st_typed stQ)).
    { destruct (TrP (uf_name fd) (AllP fd (InQ fd Hin))) as [H0|(g & st1 & r1 & Hg & Hpg & HCg & Hrg & Hor & Hnd1)].
      - exfalso. apply H0. reflexivity.
      - assert (HgQ : In g (up_fns Q)) by (eapply Permutation_in; [exact Hfns|exact Hg]).
        destruct Hor as [E|Hd]; [rewrite E; apply PubQ; assumption|].
        destruct (KeysQ g st1 r1 HgQ Hpg HCg Hrg _ Hd) as [H1|H1]; [contradiction|exact H1]. }
    apply HdQ. exact EQ. }
  rewrite UQ. reflexivity.
Qed.

Print Assumptions check_perm_accept_depth1.

(* together with check_perm_export_final: the other order is accepted AND exports the same program *)
Corollary check_perm_depth1 intern P Q f A :
  (forall a b, intern a = intern b -> a = b) ->
  up_consts Q = up_consts P -> up_main Q = up_main P ->
  Permutation (up_fns P) (up_fns Q) -> Permutation (up_structs P) (up_structs Q) -> Permutation (up_enums P) (up_enums Q) ->
  NoDup (map uf_name (up_fns P)) -> NoDup (map us_name (up_structs P)) -> NoDup (map ue_name (up_enums P)) ->
  call_depth_le_1 P = true ->
  check_program intern f P = COk A -> check_program intern (2 * f) Q = COk A.
Proof.
  intros Hi H1 H2 H3 H4 H5 H6 H7 H8 Hd EP.
  assert (exists TP, check_program_t intern f P = COk TP) as [TP ETP].
  { unfold check_program in EP. destruct (check_program_t intern f P) as [TP| | |]; try discriminate EP. eauto. }
  pose proof (check_perm_accept_depth1 intern P Q f TP Hi H1 H2 H3 H4 H5 H6 H7 H8 Hd ETP) as HQ.
  unfold check_program in *. destruct (check_program_t intern (2 * f) Q) as [TQ| | |] eqn:EQ; try discriminate HQ. cbn [cbind].
  f_equal. symmetry.
  apply (check_perm_export_final intern P Q f (2 * f) A (export_program intern TQ) Hi H1 H2 H3 H4 H5 H6 H7 H8 EP).
  unfold check_program. rewrite EQ. reflexivity.
Qed.
Print Assumptions check_perm_depth1.

(* the class is decidable: the program with calls of InferPerm.PermExamples is in it, a chain of calls is not *)
From Coq Require Import String.
Module Depth1Examples.
Local Open Scope string_scope.
Definition depth1 (txt : string) : option bool :=
  match PermExamples.parse_text txt with Some P => Some (call_depth_le_1 P) | None => None end.
Example depth1_yes : depth1 "
  fn inc(a: u8) -> u8 { a + 1 }
  pub fn other(y: u8) -> u8 { inc(y) }
  pub fn main(x: u8) -> u8 { inc(x) + inc(other(1)) }" = Some false /\
  depth1 "
  fn inc(a: u8) -> u8 { a + 1 }
  fn dec(a: u8) -> u8 { a - 1 }
  pub fn other(y: u8) -> u8 { inc(y) }
  pub fn main(x: u8) -> u8 { inc(x) + dec(x) }" = Some true.
Proof. vm_compute. split; reflexivity. Qed.
Example depth2_no : depth1 PermExamples.t_calls = Some false.
Proof. vm_compute. reflexivity. Qed.
End Depth1Examples.
