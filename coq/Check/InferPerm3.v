(* C06 with calls, the ACCEPTANCE half: if the checker accepts a function / expression in one state,
   it accepts it (with enough fuel, with the same result) in any other good state -- provided the
   functions it calls can be re-checked.  Proved here: global determinism of [canon]; the generic
   transfer theorem [check_imp]; its instances for functions WITHOUT calls and for functions whose
   callees have no calls (call graphs of depth <= 1). *)
From Coq Require Import Lia Bool Permutation.
From GV Require Import Base.Util Front.Scan Front.ParseExpr Check.UAst Check.Infer Check.InferProofs Check.InferSub
  Check.InferTotal Check.InferFuel2 Check.InferPerm Check.InferPerm2 Check.InferPermFinal.
Local Open Scope N_scope.

(* ================================================================ canon is deterministic *)

Section CanonDet.
Variable intern : list N -> N.
Variable D : defs.
Notation canon := (canon intern D).
Notation Cgood := (Cgood intern D).
Notation Good := (Good intern D).

Lemma canon_det : forall id d, canon id d -> forall d', canon id d' -> d = d'.
Proof.
  fix IH 3. intros id d H. destruct H as [f st fd id r Hf HC Hr]. intros d' H'.
  assert (HG : Good (st_typed st)).
  { clear Hr. unfold InferPerm2.Good. induction HC as [|nd T Hnd HT IHT]; constructor; [|exact IHT].
    split; [exact Hnd|]. intros u Hu. exact (IH _ _ Hnd u Hu). }
  inversion H' as [f3 st3 fd3 id3 r3 Hf3 Hc3 Hr3]. subst. rewrite Hf in Hf3. injection Hf3 as <-.
  pose proof (proj2 (proj2 (proj2 (proj2 (check_det intern D constrain_type_det constrain_to_i32_det f)))) f3 st st3 fd (conj HG Hc3)) as H.
  rewrite Hr, Hr3 in H. exact (proj1 H).
Qed.

Lemma Cgood_Good T : Cgood T -> Good T.
Proof.
  unfold InferPerm2.Cgood, InferPerm2.Good. apply Forall_impl. intros nd H. split; [exact H|].
  intros u Hu. eapply canon_det; eassumption.
Qed.
End CanonDet.

(* ================================================================ every call target satisfies [Hc] *)

Section Okc.
Variable Hc : list N -> bool.
Fixpoint okc_x (e : xexpr) : bool :=
  match e with
  | XTrue | XFalse | XNumUnsigned _ _ | XNumSigned _ _ | XIdentifier _ | XRange _ _ _ => true
  | XArrayLiteral es => forallb okc_x es
  | XArrayRepeatLiteral e _ => okc_x e
  | XArrayRepeatLiteralConst e _ => okc_x e
  | XArrayAccess a i => okc_x a && okc_x i
  | XTupleLiteral es => forallb okc_x es
  | XTupleAccess e _ => okc_x e
  | XStructAccess e _ => okc_x e
  | XStructLiteral _ fs => forallb (fun f => okc_x (snd f)) fs
  | XEnumLiteral _ _ None => true
  | XEnumLiteral _ _ (Some es) => forallb okc_x es
  | XMatch e arms => okc_x e && forallb (fun a => okc_x (snd a)) arms
  | XUnaryOp _ e => okc_x e
  | XOp _ l r => okc_x l && okc_x r
  | XBlock b => forallb okc_s b
  | XFnCall f args => Hc f && forallb okc_x args
  | XJoin args => forallb okc_x args
  | XIf c t e => okc_x c && okc_x t && okc_x e
  | XCast _ e => okc_x e
  end
with okc_s (s : xstmt) : bool :=
  match s with
  | XSLet _ _ e => okc_x e
  | XSLetMut _ _ e => okc_x e
  | XSVarAssign _ accs e => forallb okc_a accs && okc_x e
  | XSForEach _ e body => okc_x e && forallb okc_s body
  | XSExpr e => okc_x e
  end
with okc_a (a : xaccessor) : bool :=
  match a with
  | XAArray i => okc_x i
  | XATuple _ | XAStruct _ => true
  end.
End Okc.

(* ================================================================ accepted here => accepted there *)

Lemma le_iter {A} (g : nat -> cres A) : (forall n, le_res (g n) (g (S n))) -> forall f K, le_res (g f) (g (f + K)%nat).
Proof.
  intros H f K. induction K as [|K IH]; [rewrite Nat.add_0_r; apply le_refl|].
  rewrite Nat.add_succ_r. eapply le_trans; [exact IH|apply H].
Qed.

Section Imp.
Variable intern : list N -> N.
Variable D : defs.
Notation check_expr := (check_expr intern).
Notation check_stmt := (check_stmt intern).
Notation check_stmts := (check_stmts intern).
Notation check_block := (check_block intern).
Notation check_fn := (check_fn intern).
Notation canon := (canon intern D).
Notation Cgood := (Cgood intern D).

Variable K : nat.                                  (* the extra fuel of the second run *)
Variable Hc : list N -> bool.                      (* the functions that may be called *)
Variable Pc : list (list N) -> Prop.               (* what is known about the second run's st_checking *)
Variable L0 : list (list N * tfndef).              (* the typed map the first run started from *)

(* a callee can be re-checked wherever the second run needs it, and does not touch the typed map *)
Hypothesis Hcallee : forall id fd F st', Hc id = true ->
  find (fun d => list_eqb (uf_name d) id) (d_fns D) = Some fd -> (exists d, canon id d) ->
  (K <= F)%nat -> Cgood (st_typed st') -> Pc (st_checking st') ->
  exists r', check_fn F D st' fd = COk r' /\ st_typed (snd r') = st_typed st'.

Hypothesis Hcallee_frame : forall id fd f st r, Hc id = true ->
  find (fun d => list_eqb (uf_name d) id) (d_fns D) = Some fd ->
  check_fn f D st fd = COk r -> st_typed (snd r) = st_typed st.

Definition Rt (T T' : list (list N * tfndef)) : Prop :=
  Cgood T /\ Cgood T' /\ (forall n, defd n T -> defd n L0 \/ defd n T').
Definition st_rel (s s' : cstate) : Prop :=
  st_env s = st_env s' /\ Rt (st_typed s) (st_typed s') /\ Pc (st_checking s').

(* the first run accepted => the second run accepted, with related results *)
Definition rimp {A} (RA : A -> A -> Prop) (r r' : cres A) : Prop :=
  match r with
  | COk a => match r' with COk a' => RA a a' | _ => False end
  | _ => True
  end.
Definition RP {B} (r r' : B * cstate) : Prop := fst r = fst r' /\ st_rel (snd r) (snd r').

Lemma rimp_bind {A B} (RA : A -> A -> Prop) (RB : B -> B -> Prop) r r' (k k' : A -> cres B) :
  rimp RA r r' -> (forall a a', RA a a' -> rimp RB (k a) (k' a')) -> rimp RB (cbind r k) (cbind r' k').
Proof. destruct r; cbn [rimp cbind]; auto. destruct r'; cbn [cbind]; try contradiction. auto. Qed.

Lemma rimp_eq {A} (r : cres A) : rimp eq r r.
Proof. destruct r; cbn [rimp]; auto. Qed.

Lemma rimp_pure {A B} (RB : B -> B -> Prop) (r : cres A) (k k' : A -> cres B) :
  (forall a, rimp RB (k a) (k' a)) -> rimp RB (cbind r k) (cbind r k').
Proof. intro H. eapply rimp_bind; [apply rimp_eq|]. intros a a' <-. apply H. Qed.

Lemma rimp_le {A} (r r' : cres A) : le_res r r' -> rimp eq r r'.
Proof. intros [-> | ->]; [exact I|apply rimp_eq]. Qed.

Lemma rimp_check_type f e t : rimp eq (check_type f e t) (check_type (f + K) e t).
Proof. apply rimp_le. apply (le_iter (fun n => check_type n e t)). intro n. apply le_check_type. Qed.
Lemma rimp_coc_u f e t : rimp eq (coc_unsigned_deep f e t) (coc_unsigned_deep (f + K) e t).
Proof. apply rimp_le. apply (le_iter (fun n => coc_unsigned_deep n e t)). intro n. apply le_coc_unsigned_deep. Qed.
Lemma rimp_coc_s f e t : rimp eq (coc_signed_deep f e t) (coc_signed_deep (f + K) e t).
Proof. apply rimp_le. apply (le_iter (fun n => coc_signed_deep n e t)). intro n. apply le_coc_signed_deep. Qed.
Lemma rimp_unify f a b : rimp eq (unify f a b) (unify (f + K) a b).
Proof. apply rimp_le. apply (le_iter (fun n => unify n a b)). intro n. apply le_unify. Qed.
Lemma rimp_i32 f e : rimp eq (constrain_to_i32 f e) (constrain_to_i32 (f + K) e).
Proof. apply rimp_le. apply (le_iter (fun n => constrain_to_i32 n e)). intro n. apply le_constrain_to_i32. Qed.

Lemma rimp_mapM {A B} (g g' : A -> cres B) l : (forall x, rimp eq (g x) (g' x)) -> rimp eq (mapM g l) (mapM g' l).
Proof.
  intro H. induction l as [|x l IH]; cbn [mapM]; [reflexivity|].
  eapply rimp_bind; [apply H|]. intros a a' <-. eapply rimp_bind; [exact IH|]. intros b b' <-. reflexivity.
Qed.
Lemma rimp_zipM {A B} (g g' : A -> B -> cres A) : (forall x y, rimp eq (g x y) (g' x y)) ->
  forall xs ys, rimp eq (zipM g xs ys) (zipM g' xs ys).
Proof.
  intro H. induction xs as [|x xs IH]; intros [|y ys]; cbn [zipM]; try reflexivity.
  eapply rimp_bind; [apply H|]. intros a a' <-. eapply rimp_bind; [apply IH|]. intros b b' <-. reflexivity.
Qed.
Lemma rimp_map_last_expr g g' : (forall e, rimp eq (g e) (g' e)) -> forall b, rimp eq (map_last_expr g b) (map_last_expr g' b).
Proof.
  intro H. induction b as [|s b IH]; cbn [map_last_expr]; [reflexivity|].
  destruct b as [|s2 b2].
  - destruct s; try reflexivity. eapply rimp_bind; [apply H|]. intros a a' <-. reflexivity.
  - destruct s; (eapply rimp_bind; [exact IH|]; intros a a' <-; reflexivity).
Qed.

Lemma rimp_clause f ret_ty (pc : tpattern * texpr) :
  rimp eq (if negb (cty_eqb ret_ty (ty_of (snd pc))) then
            match ret_ty with
            | CUnsigned expected => do x <- coc_unsigned_deep f (snd pc) expected; COk (fst pc, x)
            | CSigned expected => do x <- coc_signed_deep f (snd pc) expected; COk (fst pc, x)
            | _ => CErr E_UnexpectedType
            end
          else COk pc)
         (if negb (cty_eqb ret_ty (ty_of (snd pc))) then
            match ret_ty with
            | CUnsigned expected => do x <- coc_unsigned_deep (f + K) (snd pc) expected; COk (fst pc, x)
            | CSigned expected => do x <- coc_signed_deep (f + K) (snd pc) expected; COk (fst pc, x)
            | _ => CErr E_UnexpectedType
            end
          else COk pc).
Proof.
  destruct (negb _); [|apply rimp_eq]. destruct ret_ty; try exact I;
    (eapply rimp_bind; [first [apply rimp_coc_u|apply rimp_coc_s]|]; intros x x' <-; apply rimp_eq).
Qed.

Lemma rimp_mapM_st {A B} (g g' : cstate -> A -> cres (B * cstate)) l :
  (forall st st' x, In x l -> st_rel st st' -> rimp RP (g st x) (g' st' x)) ->
  forall st st', st_rel st st' -> rimp RP (mapM_st g st l) (mapM_st g' st' l).
Proof.
  induction l as [|x l IH]; intros H st st' Hq; cbn [mapM_st]; [split; [reflexivity|exact Hq]|].
  eapply rimp_bind; [apply H; [now left|exact Hq]|]. intros [b1 s1] [b1' s1'] [E1 S1]. cbn [fst snd] in *. subst b1'.
  eapply rimp_bind; [apply IH; [intros; apply H; [now right|assumption]|exact S1]|].
  intros [b2 s2] [b2' s2'] [E2 S2]. cbn [fst snd] in *. subst b2'. split; [reflexivity|exact S2].
Qed.

Lemma st_rel_mk g t t' c c' : Rt t t' -> Pc c' -> st_rel (mkSt g t c) (mkSt g t' c').
Proof. intros H1 H2. split; [reflexivity|split; assumption]. Qed.

Ltac rr_intro :=
  let a := fresh "a" in let a' := fresh "a'" in let HR := fresh "HR" in
  intros a a' HR;
  first
   [ destruct a as [?b [?g ?t ?c]], a' as [?b [?g ?t ?c]]; destruct HR as [?E (?E & ?E & ?E)];
     cbn [fst snd st_env st_checking st_typed] in *; subst
   | subst a' ].

Ltac seq_solve := cbn [with_env st_env st_checking st_typed fst snd]; first [apply st_rel_mk; assumption | assumption].

Ltac oksolve Hs :=
  cbn [okc_x okc_s okc_a] in Hs; repeat rewrite andb_true_iff in Hs;
  first [ tauto
        | match goal with Hin : In ?x ?l |- _ =>
            first [ exact (forallb_In _ _ _ Hs Hin)
                  | exact (forallb_In _ _ _ (proj1 Hs) Hin) | exact (forallb_In _ _ _ (proj2 Hs) Hin) ] end ].

Ltac rr_core IHt :=
  repeat (cbn [st_env st_typed st_checking with_env];
    match goal with
    | |- rimp _ (COk _) (COk _) => cbn [rimp]
    | |- rimp _ (CErr _) _ => exact I
    | |- rimp _ COutside _ => exact I
    | |- rimp _ CNoFuel _ => exact I
    | |- rimp _ (cbind (check_type _ ?e ?t) _) (cbind (check_type _ ?e ?t) _) =>
        eapply rimp_bind; [apply rimp_check_type|intros ? ? <-]
    | |- rimp _ (cbind (unify _ ?a ?b) _) (cbind (unify _ ?a ?b) _) =>
        eapply rimp_bind; [apply rimp_unify|intros ? ? <-]
    | |- rimp _ (cbind (coc_unsigned_deep _ ?e ?t) _) (cbind (coc_unsigned_deep _ ?e ?t) _) =>
        eapply rimp_bind; [apply rimp_coc_u|intros ? ? <-]
    | |- rimp _ (cbind (coc_signed_deep _ ?e ?t) _) (cbind (coc_signed_deep _ ?e ?t) _) =>
        eapply rimp_bind; [apply rimp_coc_s|intros ? ? <-]
    | |- rimp _ (cbind (constrain_to_i32 _ ?e) _) (cbind (constrain_to_i32 _ ?e) _) =>
        eapply rimp_bind; [apply rimp_i32|intros ? ? <-]
    | |- rimp _ (cbind (mapM _ ?l) _) (cbind (mapM _ ?l) _) =>
        eapply rimp_bind; [apply rimp_mapM; intros ?; first [apply rimp_check_type|apply rimp_eq|apply rimp_clause]|intros ? ? <-]
    | |- rimp _ (cbind (zipM _ ?l ?m) _) (cbind (zipM _ ?l ?m) _) =>
        eapply rimp_bind; [apply rimp_zipM; intros ? ?; first [apply rimp_check_type|apply rimp_eq]|intros ? ? <-]
    | |- rimp _ (cbind ?r _) (cbind ?r _) => apply rimp_pure; intros ?
    | |- rimp _ (cbind _ _) (cbind _ _) => eapply rimp_bind; [solve [IHt] | rr_intro]
    | |- rimp _ (if ?c then _ else _) (if ?c then _ else _) => destruct c eqn:?
    | |- rimp _ (match ?x with _ => _ end) (match ?x with _ => _ end) => destruct x eqn:?
    end).

Ltac rp_fin := first [ split; [reflexivity|seq_solve] | exact I | reflexivity ].

Lemma rimp_accs_loop ce ce' fu fu2 : (forall e t, rimp eq (coc_unsigned_deep fu e t) (coc_unsigned_deep fu2 e t)) ->
  forall accs,
  (forall st st' a, In a accs -> st_rel st st' -> match a with XAArray i => rimp RP (ce st i) (ce' st' i) | _ => True end) ->
  forall st st' t, st_rel st st' -> rimp RP (accs_loop ce fu D st t accs) (accs_loop ce' fu2 D st' t accs).
Proof.
  intro Hcu. induction accs as [|a accs IH]; intros H st st' t Hq; cbn [accs_loop]; [split; [reflexivity|exact Hq]|].
  assert (IH' : forall st st' t, st_rel st st' -> rimp RP (accs_loop ce fu D st t accs) (accs_loop ce' fu2 D st' t accs))
    by (intros; apply IH; [intros; apply H; [now right|assumption]|assumption]).
  pose proof (fun st st' => H st st' a (or_introl eq_refl)) as Ha. clear H IH.
  eapply rimp_bind with (RA := fun r r' => fst r = fst r' /\ st_rel (snd r) (snd r')).
  - destruct a.
    + destruct (expect_array_type t); cbn [cbind rimp]; auto.
      eapply rimp_bind; [apply Ha; exact Hq|]. intros [i1 s1] [i1' s1'] [E1 S1]. cbn [fst snd] in *. subst i1'.
      eapply rimp_bind; [apply Hcu|]. intros ix ix' <-. cbn [rimp]. auto.
    + destruct (expect_tuple_type t); cbn [cbind rimp]; auto. destruct (nthN _ _); cbn [rimp]; auto.
    + destruct (expect_struct_type t); cbn [cbind rimp]; auto.
      destruct (assocL _ (d_structs D)); cbn [rimp]; auto. destruct (assocL _ _); cbn [rimp]; auto.
  - intros [[ta t1] s1] [[ta' t1'] s1'] [E1 S1]. cbn [fst snd] in *. injection E1 as <- <-.
    eapply rimp_bind; [apply IH'; exact S1|]. intros [[tas tf] s2] [[tas' tf'] s2'] [E2 S2]. cbn [fst snd] in *.
    injection E2 as <- <-. split; [reflexivity|exact S2].
Qed.

Lemma rimp_struct_lit_loop ce ce' f sd : forall fields,
  (forall st st' fl, In fl fields -> st_rel st st' -> rimp RP (ce st (snd fl)) (ce' st' (snd fl))) ->
  forall seen st st', st_rel st st' ->
  rimp RP (struct_lit_loop ce f sd seen st fields) (struct_lit_loop ce' (f + K) sd seen st' fields).
Proof.
  induction fields as [|[fname fv] fields IH]; intros H seen st st' Hq; cbn [struct_lit_loop]; [split; [reflexivity|exact Hq]|].
  destruct (memL fname seen); [exact I|]. destruct (assocL fname sd); [|exact I].
  eapply rimp_bind; [apply (H st st' (fname, fv)); [now left|exact Hq]|]. intros [e1 s1] [e1' s1'] [E1 S1]. cbn [fst snd] in *. subst e1'.
  eapply rimp_bind; [apply rimp_check_type|]. intros tf tf' <-.
  eapply rimp_bind; [apply IH; [intros; apply H; [now right|assumption]|exact S1]|].
  intros [r2 s2] [r2' s2'] [E2 S2]. cbn [fst snd] in *. subst r2'. split; [reflexivity|exact S2].
Qed.
Definition RF (r r' : tfndef * cstate) : Prop := fst r = fst r' /\ Rt (st_typed (snd r)) (st_typed (snd r')).

Definition GE f := forall st st' e, st_rel st st' -> okc_x Hc e = true ->
  rimp RP (check_expr f D st e) (check_expr (f + K) D st' e).
Definition GSS f := forall st st' b, st_rel st st' -> forallb (okc_s Hc) b = true ->
  rimp RP (check_stmts f D st b) (check_stmts (f + K) D st' b).
Definition GB f := forall st st' b, st_rel st st' -> forallb (okc_s Hc) b = true ->
  rimp RP (check_block f D st b) (check_block (f + K) D st' b).
Definition GS f := forall st st' s, st_rel st st' -> okc_s Hc s = true ->
  rimp RP (check_stmt f D st s) (check_stmt (f + K) D st' s).
Definition GF f := forall st st' fd, Rt (st_typed st) (st_typed st') -> Pc (uf_name fd :: st_checking st') ->
  memL (uf_name fd) (st_checking st') = false -> forallb (okc_s Hc) (uf_body fd) = true ->
  rimp RF (check_fn f D st fd) (check_fn (f + K) D st' fd).

Ltac ih_tac IHe IHss IHb IHs Hs :=
  first [ apply IHe; [seq_solve|oksolve Hs]
        | apply IHss; [seq_solve|oksolve Hs]
        | apply IHb; [seq_solve|oksolve Hs]
        | apply IHs; [seq_solve|oksolve Hs]
        | apply rimp_mapM_st; [intros ? ? ? ? ?; first [apply IHe|apply IHs]; [assumption|oksolve Hs]|seq_solve] ].

Lemma imp_expr f : GE f -> GB f -> GE (S f).
Proof.
  intros IHe IHb st st' e Hq Hs. change (S f + K)%nat with (S (f + K)).
  destruct st as [g t c], st' as [g' t' c']. destruct Hq as (Eg & Ht & Hp). cbn [st_env st_checking st_typed] in *. subst g'.
  destruct e; cbn [Infer.check_expr]; cbn [st_env st_checking st_typed with_env].
  all: try solve [rr_core ltac:(ih_tac IHe IHe IHb IHe Hs); rp_fin].
  - (* struct literal *)
    destruct (assocL name (d_structs D)); [|exact I].
    eapply rimp_bind; [apply rimp_struct_lit_loop; [intros st0 st0' fl Hin Hq0; apply IHe; [exact Hq0|oksolve Hs]|seq_solve]|rr_intro].
    rr_core ltac:(ih_tac IHe IHe IHb IHe Hs); rp_fin.
  - (* match *)
    eapply rimp_bind; [apply IHe; [seq_solve|oksolve Hs]|rr_intro].
    match goal with |- rimp _ (match ty_of ?x with _ => _ end) _ => destruct (ty_of x) end; try exact I;
    (eapply rimp_bind;
      [apply rimp_mapM_st; [|seq_solve];
       intros st0 st0' pc Hin Hq0; destruct st0 as [gq tq cq], st0' as [gq' tq' cq']; destruct Hq0 as (Eg0 & Ht0 & Hp0);
       cbn [st_env st_checking st_typed] in Eg0, Ht0, Hp0; subst gq';
       rr_core ltac:(ih_tac IHe IHe IHb IHe Hs); rp_fin
      |rr_intro]; rr_core ltac:(ih_tac IHe IHe IHb IHe Hs); rp_fin).
  - (* call *)
    destruct Ht as (HC & HC' & HK).
    fold (Infer.check_expr intern) (Infer.check_stmts intern) (Infer.check_block intern)
         (Infer.check_fn intern) (Infer.check_stmt intern).
    cbn [okc_x] in Hs. apply andb_true_iff in Hs. destruct Hs as [Hcf Hargs].
    eapply rimp_bind with (RA := fun s1 s1' => st_rel s1 s1' /\ (defd f0 (st_typed s1) -> defd f0 (st_typed s1'))).
    + (* the left run *)
      assert (HL : forall s1, (if negb match assocL f0 t with Some _ => true | None => false end
                   then match find (fun d => list_eqb (uf_name d) f0) (d_fns D) with
                        | Some fn_def => do r <- check_fn f D (mkSt g t c) fn_def;
                            COk (mkSt (st_env (snd r)) ((f0, fst r) :: st_typed (snd r)) (st_checking (snd r)))
                        | None => COk (mkSt g t c) end
                   else COk (mkSt g t c)) = COk s1 ->
                st_env s1 = g /\ Cgood (st_typed s1) /\ (forall n, defd n (st_typed s1) -> n = f0 \/ defd n t) /\
                (defd f0 (st_typed s1) -> exists d, canon f0 d)).
      { intros s1 H1. destruct (assocL f0 t) as [d|] eqn:EL; cbn [negb] in H1.
        - injection H1 as <-. cbn [st_env st_typed]. split; [reflexivity|]. split; [exact HC|]. split; [intros n Hn; right; exact Hn|].
          intros _. exists d. exact (Cgood_get intern D t f0 d HC EL).
        - destruct (find _ (d_fns D)) as [fd|] eqn:Ef.
          + destruct (check_fn f D (mkSt g t c) fd) as [r1| | |] eqn:E1; cbn [cbind] in H1; try discriminate H1. injection H1 as <-.
            destruct (ins_right intern D f (mkSt g t c) fd f0 r1 Ef HC E1) as [HC1 He1].
            pose proof (Hcallee_frame f0 fd f _ r1 Hcf Ef E1) as Hfr. cbn [st_env st_typed] in *.
            split; [exact He1|]. split; [exact HC1|]. split.
            * intros n Hn. unfold defd in *. cbn [assocL] in Hn. destruct (list_eqb n f0) eqn:En; [left; apply list_eqb_eq; exact En|].
              right. rewrite <- Hfr. exact Hn.
            * intros _. exists (fst r1). inversion HC1; assumption.
          + injection H1 as <-. cbn [st_env st_typed]. split; [reflexivity|]. split; [exact HC|]. split; [intros n Hn; right; exact Hn|].
            intros Hd. exfalso. apply Hd. exact EL. }
      match goal with |- rimp _ ?L _ => destruct L as [s1| | |] eqn:EL1; try exact I end.
      destruct (HL s1 eq_refl) as (E1 & C1 & K1 & X1). clear HL.
      (* the right run *)
      destruct (assocL f0 t') as [d'|] eqn:ER; cbn [negb].
      * cbn [rimp]. split; [|intros _; unfold defd; cbn [st_typed]; rewrite ER; discriminate].
        split; [cbn [st_env]; exact E1|]. split; [|exact Hp]. cbn [st_typed]. split; [exact C1|]. split; [exact HC'|].
        intros n Hn. destruct (K1 n Hn) as [->|Hd]; [right; unfold defd; rewrite ER; discriminate|apply HK; exact Hd].
      * destruct (find _ (d_fns D)) as [fd|] eqn:Ef.
        -- assert (Hex : exists d, canon f0 d).
           { apply X1. destruct (assocL f0 t) eqn:EL; cbn [negb] in EL1.
             - injection EL1 as <-. unfold defd. cbn [st_typed]. rewrite EL. discriminate.
             - destruct (check_fn f D (mkSt g t c) fd); cbn [cbind] in EL1; try discriminate EL1. injection EL1 as <-.
               unfold defd. cbn [st_typed assocL]. rewrite list_eqb_refl. discriminate. }
           destruct (Hcallee f0 fd (f + K)%nat (mkSt g t' c') Hcf Ef Hex ltac:(lia) HC' Hp) as (r' & Er' & Hfr').
           rewrite Er'. cbn [cbind rimp].
           destruct (ins_right intern D (f + K)%nat (mkSt g t' c') fd f0 r' Ef HC' Er') as [HC2 He2].
           destruct (check_fn_frame _ _ _ _ _ _ Er') as [_ Hck]. cbn [st_env st_typed st_checking] in *.
           split; [|intros _; unfold defd; cbn [assocL]; rewrite list_eqb_refl; discriminate].
           split; [cbn [st_env]; congruence|]. split; [|cbn [st_checking]; rewrite Hck; exact Hp]. cbn [st_typed].
           split; [exact C1|]. split; [exact HC2|].
           intros n Hn. destruct (K1 n Hn) as [->|Hd]; [right; unfold defd; cbn [assocL]; rewrite list_eqb_refl; discriminate|].
           destruct (HK n Hd) as [H0|H0]; [left; exact H0|right]. unfold defd in *. cbn [assocL]. destruct (list_eqb n f0); [discriminate|].
           rewrite Hfr'. exact H0.
        -- (* unknown function: the left run cannot go on *)
           cbn [rimp]. split; [|intro Hd; destruct (X1 Hd) as [d Hcn]; inversion Hcn as [? ? ? ? ? Hf3 _ _]; subst; congruence].
           split; [cbn [st_env]; exact E1|]. split; [|exact Hp]. cbn [st_typed]. split; [exact C1|]. split; [exact HC'|].
           intros n Hn. destruct (K1 n Hn) as [->|Hd]; [|apply HK; exact Hd].
           exfalso. destruct (X1 Hn) as [d Hcn]. inversion Hcn as [? ? ? ? ? Hf3 _ _]; subst. congruence.
    + intros [g1 t1 c1] [g1' t1' c1'] [(Eg1 & (HG1 & HC1 & HK1) & Hp1) Hdef]. cbn [st_env st_checking st_typed] in *. subst g1'.
      destruct (assocL f0 t1) as [d|] eqn:EL1; [|exact I].
      destruct (assocL f0 t1') as [d'|] eqn:ER1; [|exfalso; apply Hdef; [unfold defd; rewrite EL1; discriminate|exact ER1]].
      assert (Ed : d = d') by (eapply canon_det; [exact (Cgood_get intern D t1 f0 d HG1 EL1)|exact (Cgood_get intern D t1' f0 d' HC1 ER1)]). subst d'.
      destruct (env_get g1 f0); [exact I|].
      assert (Ht1 : Rt t1 t1') by (repeat split; assumption).
      assert (Hs : forallb (okc_x Hc) args = true) by exact Hargs.
      rr_core ltac:(ih_tac IHe IHe IHb IHe Hs); rp_fin.
Qed.
Lemma imp_stmts f : GS f -> GSS (S f) /\ GB (S f).
Proof.
  intro IHs. split; intros st st' b Hq Hs; change (S f + K)%nat with (S (f + K)); cbn [Infer.check_stmts Infer.check_block].
  - apply rimp_mapM_st; [|exact Hq]. intros st0 st0' x Hin Hq0. apply IHs; [exact Hq0|exact (forallb_In _ _ _ Hs Hin)].
  - eapply rimp_bind; [apply rimp_mapM_st; [|exact Hq]; intros st0 st0' x Hin Hq0; apply IHs; [exact Hq0|exact (forallb_In _ _ _ Hs Hin)]|].
    intros [b1 s1] [b1' s1'] [E1 S1]. cbn [fst snd] in *. subst b1'. split; [reflexivity|exact S1].
Qed.

Lemma rimp_annot f (ty : option utype) b :
  rimp eq (match ty with Some ty0 => do ty' <- concrete_of D ty0; check_type f b ty' | None => COk b end)
          (match ty with Some ty0 => do ty' <- concrete_of D ty0; check_type (f + K) b ty' | None => COk b end).
Proof. destruct ty; [|reflexivity]. apply rimp_pure. intro ty'. apply rimp_check_type. Qed.

Lemma imp_stmt f : GE f -> GSS f -> GS (S f).
Proof.
  intros IHe IHss st st' s Hq Hs. change (S f + K)%nat with (S (f + K)).
  destruct st as [g t c], st' as [g' t' c']. destruct Hq as (Eg & Ht & Hp). cbn [st_env st_checking st_typed] in *. subst g'.
  destruct s; cbn [Infer.check_stmt]; cbn [st_env st_checking st_typed with_env].
  all: try solve [rr_core ltac:(ih_tac IHe IHss IHss IHe Hs); rp_fin].
  - eapply rimp_bind; [apply IHe; [seq_solve|oksolve Hs]|rr_intro].
    eapply rimp_bind; [apply rimp_annot|intros ? ? <-]. rr_core ltac:(ih_tac IHe IHss IHss IHe Hs); rp_fin.
  - eapply rimp_bind; [apply IHe; [seq_solve|oksolve Hs]|rr_intro].
    eapply rimp_bind; [apply rimp_annot|intros ? ? <-]. rr_core ltac:(ih_tac IHe IHss IHss IHe Hs); rp_fin.
  - destruct (env_get g x) as [[ety [|]]|]; try exact I.
    cbn [okc_s] in Hs. apply andb_true_iff in Hs. destruct Hs as [Hacc Hval].
    eapply rimp_bind.
    + apply rimp_accs_loop; [intros; apply rimp_coc_u| |apply st_rel_mk; assumption].
      intros st0 st0' a Hin Hq0. destruct a; try exact I. apply IHe; [exact Hq0|exact (forallb_In _ _ _ Hacc Hin)].
    + intros [[tas ty1] [g1 t1 c1]] [[tas' ty1'] [g1' t1' c1']] [E1 (Eg1 & Ht1 & Hp1)].
      cbn [fst snd st_env st_checking st_typed] in *. injection E1 as <- <-. subst g1'.
      assert (Hs : okc_x Hc e = true) by exact Hval.
      rr_core ltac:(ih_tac IHe IHss IHss IHe Hs); rp_fin.
Qed.

Lemma imp_fn f : GB f -> GF (S f).
Proof.
  intros IHb st st' fd Ht Hp Hm Hs. change (S f + K)%nat with (S (f + K)).
  destruct st as [g t c], st' as [g' t' c']. cbn [st_env st_checking st_typed] in *.
  cbn [Infer.check_fn]. cbn [st_env st_checking st_typed]. rewrite Hm.
  destruct (memL (uf_name fd) c); [exact I|]. cbv zeta.
  apply rimp_pure. intros rp.
  eapply rimp_bind; [apply IHb; [apply st_rel_mk; assumption|exact Hs]|].
  intros [[body bty] [g1 t1 c1]] [[body' bty'] [g1' t1' c1']] [E1 (Eg1 & Ht1 & Hp1)].
  cbn [fst snd st_env st_checking st_typed] in *. injection E1 as <- <-. subst g1'.
  apply rimp_pure. intros ret_ty.
  eapply rimp_bind with (RA := eq).
  - destruct (last (map Some body) None) as [[]|]; try apply rimp_eq.
    apply rimp_map_last_expr. intro e0. apply rimp_check_type.
  - intros b1 b1' <-. cbn [rimp]. split; [reflexivity|exact Ht1].
Qed.

(* ACCEPTED IN ONE STATE => ACCEPTED (with K more fuel, same result) IN THE OTHER *)
Theorem check_imp f : GE f /\ GSS f /\ GB f /\ GS f /\ GF f.
Proof.
  induction f as [|f (IHe & IHss & IHb & IHs & IHf)].
  { repeat split; intros ? ? ? ? ?; try intro; try intro; exact I. }
  pose proof (imp_stmts f IHs) as [H1 H2].
  split; [apply imp_expr; assumption|]. split; [exact H1|]. split; [exact H2|].
  split; [apply imp_stmt; assumption|apply imp_fn; assumption].
Qed.
End Imp.

(* ================================================================ instance 1: functions without calls *)

Ltac lst := match goal with |- forallb _ ?l = forallb _ ?l =>
  let y0 := fresh "y" in let ys := fresh "ys" in let IHys := fresh "IHys" in
  induction l as [|y0 ys IHys]; cbn [forallb snd]; [reflexivity|]; rewrite IHys; f_equal end.

Lemma okc_ncb_x : forall e, okc_x (fun _ => false) e = ncb_x e
with okc_ncb_s : forall s, okc_s (fun _ => false) s = ncb_s s
with okc_ncb_a : forall a, okc_a (fun _ => false) a = ncb_a a.
Proof.
  - intros e. destruct e; cbn [okc_x ncb_x]; try reflexivity; try (destruct args);
      repeat first [reflexivity | apply okc_ncb_x | apply okc_ncb_s | lst | f_equal].
  - intros s. destruct s; cbn [okc_s ncb_s];
      repeat first [reflexivity | apply okc_ncb_x | apply okc_ncb_s | apply okc_ncb_a | lst | f_equal].
  - intros a. destruct a; cbn [okc_a ncb_a]; [apply okc_ncb_x|reflexivity|reflexivity].
Qed.

Lemma okc_nocall fd : nocall_fn fd -> forallb (okc_s (fun _ => false)) (uf_body fd) = true.
Proof.
  unfold nocall_fn. intro H. rewrite <- H. clear H. induction (uf_body fd) as [|s b IH]; cbn [forallb]; [reflexivity|].
  rewrite okc_ncb_s, IH. reflexivity.
Qed.

Section NoCallRecheck.
Variable intern : list N -> N.
Variable D : defs.

(* a function without calls leaves the typed map as it is ... *)
Lemma nocall_frame fd f st r : nocall_fn fd -> check_fn intern f D st fd = COk r -> st_typed (snd r) = st_typed st.
Proof.
  intros Hnc Hr.
  pose proof (check_rel intern D D eq_refl (fun _ => eq_refl) (fun _ => eq_refl) (fun _ => eq_refl) (fun _ => eq_refl)
                (fun _ => eq_refl) (fun _ _ => eq_refl) true (fun a b => a = st_typed st /\ b = st_typed st)
                ltac:(discriminate) ltac:(discriminate) f) as (_ & _ & _ & _ & HF).
  specialize (HF st st fd ltac:(repeat split) (fun _ => Hnc)). rewrite Hr in HF. cbn [rres] in HF.
  destruct HF as [_ (_ & _ & H & _)]. exact H.
Qed.

(* ... and, accepted once (in a good state), it is accepted in every good state in which it is not
   being checked, with any larger fuel, with the same typed function *)
Theorem nocall_recheck fd f st r K st' : nocall_fn fd ->
  Cgood intern D (st_typed st) -> check_fn intern f D st fd = COk r ->
  Cgood intern D (st_typed st') -> memL (uf_name fd) (st_checking st') = false ->
  exists r', check_fn intern (f + K) D st' fd = COk r' /\ fst r' = fst r /\ st_typed (snd r') = st_typed st'.
Proof.
  intros Hnc HC Hr HC' Hm.
  pose proof (check_imp intern D K (fun _ => false) (fun _ => True) (st_typed st)
                ltac:(intros; discriminate) ltac:(intros; discriminate) f) as (_ & _ & _ & _ & HF).
  specialize (HF st st' fd).
  assert (HR : Rt intern D (st_typed st) (st_typed st) (st_typed st')) by (split; [exact HC|split; [exact HC'|intros n Hn; now left]]).
  specialize (HF HR Logic.I Hm (okc_nocall fd Hnc)). rewrite Hr in HF. cbn [rimp] in HF.
  destruct (check_fn intern (f + K) D st' fd) as [r'| | |] eqn:Er'; try contradiction.
  exists r'. split; [reflexivity|]. split; [symmetry; exact (proj1 HF)|]. eapply nocall_frame; eassumption.
Qed.
End NoCallRecheck.

Print Assumptions canon_det.
Print Assumptions check_imp.
Print Assumptions nocall_recheck.

(* ================================================================ instance 2: call graphs of depth <= 1 *)

Section Depth1.
Variable intern : list N -> N.
Variable D : defs.
Variable Hp : list N -> bool.            (* the helpers: the functions that are called *)
Variable K : nat.
(* helpers have no calls, and each accepted helper has a witness check within K units of fuel
   (in a run of check_program_t with fuel f every check has fuel <= f: K := f) *)
Hypothesis Hhelp : forall id fd, Hp id = true ->
  find (fun d => list_eqb (uf_name d) id) (d_fns D) = Some fd -> nocall_fn fd.
Hypothesis HK : forall id d, Hp id = true -> canon intern D id d ->
  exists w st0 fd r0, (w <= K)%nat /\ Cgood intern D (st_typed st0) /\
    find (fun d => list_eqb (uf_name d) id) (d_fns D) = Some fd /\ check_fn intern w D st0 fd = COk r0.

Definition no_helper_checked (c : list (list N)) : Prop := forall id, Hp id = true -> memL id c = false.

(* a function all of whose callees are helpers: accepted once => accepted in every good state
   (with K more fuel), with the same typed function, whatever is memoised there *)
Theorem depth1_recheck g f st r st' :
  forallb (okc_s Hp) (uf_body g) = true -> Hp (uf_name g) = false ->
  Cgood intern D (st_typed st) -> check_fn intern f D st g = COk r ->
  Cgood intern D (st_typed st') -> memL (uf_name g) (st_checking st') = false -> no_helper_checked (st_checking st') ->
  exists r', check_fn intern (f + K) D st' g = COk r' /\ fst r' = fst r.
Proof.
  intros Hbody Hg HC Hr HC' Hm Hnh.
  assert (Hcallee : forall id fd F st2, Hp id = true ->
    find (fun d => list_eqb (uf_name d) id) (d_fns D) = Some fd -> (exists d, canon intern D id d) ->
    (K <= F)%nat -> Cgood intern D (st_typed st2) -> no_helper_checked (st_checking st2) ->
    exists r2, check_fn intern F D st2 fd = COk r2 /\ st_typed (snd r2) = st_typed st2).
  { intros id fd F st2 Hid Hf [d Hd] HF HC2 Hn2.
    destruct (HK id d Hid Hd) as (w & st0 & fd0 & r0 & Hw & HC0 & Hf0 & Hr0). rewrite Hf in Hf0. injection Hf0 as <-.
    assert (Hname : uf_name fd = id) by (apply find_some in Hf; destruct Hf as [_ Hf]; apply list_eqb_eq in Hf; exact Hf).
    destruct (nocall_recheck intern D fd w st0 r0 (F - w) st2 (Hhelp id fd Hid Hf) HC0 Hr0 HC2) as (r2 & E2 & _ & Hfr).
    { rewrite Hname. apply Hn2. exact Hid. }
    replace (w + (F - w))%nat with F in E2 by lia. exists r2. split; assumption. }
  assert (Hframe : forall id fd f0 st0 r0, Hp id = true ->
    find (fun d => list_eqb (uf_name d) id) (d_fns D) = Some fd ->
    check_fn intern f0 D st0 fd = COk r0 -> st_typed (snd r0) = st_typed st0).
  { intros id fd f0 st0 r0 Hid Hf Hr0. eapply nocall_frame; [eapply Hhelp; eassumption|exact Hr0]. }
  pose proof (check_imp intern D K Hp no_helper_checked (st_typed st) Hcallee Hframe f) as (_ & _ & _ & _ & HF).
  specialize (HF st st' g).
  assert (HR : Rt intern D (st_typed st) (st_typed st) (st_typed st')) by (split; [exact HC|split; [exact HC'|intros n Hn; now left]]).
  assert (HP : no_helper_checked (uf_name g :: st_checking st')).
  { intros id Hid. change (memL id (uf_name g :: st_checking st')) with (list_eqb id (uf_name g) || memL id (st_checking st')). pose proof (Hnh id Hid) as Hn. rewrite Hn, orb_false_r.
    destruct (list_eqb id (uf_name g)) eqn:E; [|reflexivity]. apply list_eqb_eq in E. subst id. congruence. }
  specialize (HF HR HP Hm Hbody). rewrite Hr in HF. cbn [rimp] in HF.
  destruct (check_fn intern (f + K) D st' g) as [r'| | |]; try contradiction.
  exists r'. split; [reflexivity|symmetry; exact (proj1 HF)].
Qed.
End Depth1.

Print Assumptions depth1_recheck.
