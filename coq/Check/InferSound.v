(* (A) Soundness of the checker model w.r.t. Lang/Wt.v on programs without unsuffixed numbers.
   Part 1 (this section): on a typed tree without `Unspecified` types the whole literal-inference
   machinery (constrain_type, check_type, unify, check_or_constrain_*, constrain_to_i32) is the
   IDENTITY and only compares types. *)
From GV Require Import Base.Util Front.Scan Front.ParseExpr Check.UAst Check.Infer Check.InferProofs.
From GV Require Lang.Ast Lang.Wt.
Local Open Scope N_scope.

(* no `Unspecified` number type anywhere in the type *)
Fixpoint conc_ty (t : cty) : bool :=
  match t with
  | CUnsigned UnspecifiedU => false
  | CSigned UnspecifiedS => false
  | CArray e _ => conc_ty e
  | CTuple ts => forallb conc_ty ts
  | _ => true
  end.

(* every type recorded in the typed tree is concrete *)
Fixpoint conc_e (e : texpr) : bool :=
  match e with
  | TE i t =>
      conc_ty t &&
      match i with
      | TArrayLiteral es | TTupleLiteral es | TFnCall _ es => forallb conc_e es
      | TArrayRepeatLiteral x _ | TTupleAccess x _ | TStructAccess x _ | TUnaryOp _ x | TCast _ x => conc_e x
      | TArrayAccess a i => conc_e a && conc_e i
      | TStructLiteral _ fs => forallb (fun f => conc_e (snd f)) fs
      | TEnumLiteral _ _ (Some es) => forallb conc_e es
      | TMatch s arms => conc_e s && forallb (fun a => conc_e (snd a)) arms
      | TOp _ a b => conc_e a && conc_e b
      | TBlock b => forallb conc_s b
      | TIf c a b => conc_e c && conc_e a && conc_e b
      | _ => true
      end
  end
with conc_s (s : tstmt) : bool :=
  match s with
  | TSLet _ e | TSLetMut _ e | TSExpr e | TSVarAssign _ _ e => conc_e e
  | TSForEach _ e body => conc_e e && forallb conc_s body
  end.

Lemma conc_e_ty e : conc_e e = true -> conc_ty (ty_of e) = true.
Proof. destruct e. cbn [conc_e ty_of]. intro H. apply andb_true_iff in H. tauto. Qed.

Lemma conc_not_uU t : conc_ty t = true -> is_uU t = false.
Proof. destruct t as [|[]|[]| | | |]; cbn; try reflexivity; discriminate. Qed.
Lemma conc_not_sU t : conc_ty t = true -> is_sU t = false.
Proof. destruct t as [|[]|[]| | | |]; cbn; try reflexivity; discriminate. Qed.

(* overwrite_ty_if_necessary does nothing on a concrete type *)
Lemma overwrite_ty_conc : forall ex a, conc_ty a = true -> overwrite_ty a ex = a.
Proof.
  induction ex using cty_ind'; intros a Ha; cbn [overwrite_ty]; auto.
  - rewrite (conc_not_uU _ Ha). reflexivity.
  - rewrite (conc_not_uU _ Ha), (conc_not_sU _ Ha). reflexivity.
  - destruct a; auto. cbn [conc_ty] in Ha. rewrite IHex; auto.
  - destruct a; auto. cbn [conc_ty] in Ha. f_equal.
    revert ts0 Ha. induction H as [|x xs Hx Hxs IH]; intros acts Ha; [destruct acts; reflexivity|].
    destruct acts as [|a acts]; [reflexivity|]. cbn [forallb] in Ha. apply andb_true_iff in Ha. destruct Ha as [Ha1 Ha2].
    rewrite Hx by assumption. f_equal. apply IH. assumption.
Qed.

Lemma overwrite_elem_conc t el : conc_ty t = true -> overwrite_elem t el = t.
Proof. destruct t; auto. cbn [conc_ty overwrite_elem]. intro H. rewrite overwrite_ty_conc; auto. Qed.

Lemma overwrite_zip_conc : forall exs acts, forallb conc_ty acts = true -> overwrite_zip acts exs = acts.
Proof.
  induction exs as [|ex exs IH]; intros acts H; [destruct acts; reflexivity|].
  destruct acts as [|a acts]; [reflexivity|]. cbn [forallb] in H. apply andb_true_iff in H. destruct H.
  cbn [overwrite_zip]. rewrite overwrite_ty_conc, IH; auto.
Qed.

Lemma overwrite_fields_conc t els : conc_ty t = true -> overwrite_fields t els = t.
Proof. destruct t; auto. cbn [conc_ty overwrite_fields]. intro H. rewrite overwrite_zip_conc; auto. Qed.

Lemma set_ty_same e : set_ty e (ty_of e) = e.
Proof. destruct e; reflexivity. Qed.

(* check_or_constrain_* on a concrete type: a pure comparison *)
Lemma coc_unsigned_conc e u e' :
  check_or_constrain_unsigned e u = COk e' -> conc_ty (ty_of e) = true -> e' = e /\ ty_of e = CUnsigned u.
Proof.
  unfold check_or_constrain_unsigned. intros H Hc. rewrite (conc_not_uU _ Hc) in H.
  destruct (cty_eqb (ty_of e) (CUnsigned u)) eqn:E; [|discriminate]. apply cty_eqb_eq in E.
  cbn [negb andb] in H.
  assert (e' = set_ty e (CUnsigned u)).
  { destruct (unsigned_max u); [destruct (inner_of e); try (inv_all; reflexivity)|inv_all; reflexivity]. }
  subst e'. rewrite <- E. rewrite set_ty_same. auto.
Qed.

Lemma coc_signed_conc e s e' :
  check_or_constrain_signed e s = COk e' -> conc_ty (ty_of e) = true -> e' = e /\ ty_of e = CSigned s.
Proof.
  unfold check_or_constrain_signed. intros H Hc. rewrite (conc_not_uU _ Hc), (conc_not_sU _ Hc) in H.
  destruct (cty_eqb (ty_of e) (CSigned s)) eqn:E; [|discriminate]. apply cty_eqb_eq in E.
  cbn [negb andb] in H. inv_all. rewrite <- E. rewrite set_ty_same. auto.
Qed.

Lemma mapM_id {A} (g : A -> cres A) : forall l l',
  mapM g l = COk l' -> (forall x x', In x l -> g x = COk x' -> x' = x) -> l' = l.
Proof.
  induction l as [|x l IH]; intros l' H Hg; cbn [mapM] in H; inv_all; [reflexivity|].
  f_equal; [eapply Hg; [left; reflexivity|eassumption]|apply IH; [assumption|intros; eapply Hg; [right|]; eauto]].
Qed.

Lemma zipM_id {A B} (g : A -> B -> cres A) : forall xs ys xs',
  zipM g xs ys = COk xs' -> (forall x y x', In x xs -> g x y = COk x' -> x' = x) -> xs' = xs.
Proof.
  induction xs as [|x xs IH]; intros ys xs' H Hg; cbn [zipM] in H; [inv_all; reflexivity|].
  destruct ys as [|y ys]; inv_all; [reflexivity|].
  f_equal; [eapply Hg; [left; reflexivity|eassumption]|eapply IH; [eassumption|intros; eapply Hg; [right|]; eauto]].
Qed.

Lemma map_last_expr_id (g : texpr -> cres texpr) : forall b b',
  map_last_expr g b = COk b' -> (forall x x', In (TSExpr x) b -> g x = COk x' -> x' = x) -> b' = b.
Proof.
  induction b as [|s b IH]; intros b' H Hg; [cbn in H; inv_all; reflexivity|].
  cbn [map_last_expr] in H. destruct b as [|s2 b].
  - destruct s; inv_all; try reflexivity. f_equal. f_equal. eapply Hg; [left; reflexivity|eassumption].
  - destruct s; inv_all; f_equal; (apply IH; [assumption|]; intros; eapply Hg; [right|]; eauto).
Qed.

(* constrain_type on a concrete tree is the identity *)
Lemma constrain_type_conc : forall f e t e',
  constrain_type f e t = COk e' -> conc_e e = true -> e' = e.
Proof.
  induction f as [|f IH]; intros e t e' H Hc; [discriminate|].
  cbn [constrain_type] in H. apply cbind_ok in H. destruct H as [e1 [H1 H2]]. inv_all.
  assert (He1 : e1 = e).
  { pose proof (conc_e_ty _ Hc) as Hty.
    assert (Hleaf : forall r, match t with
                              | CUnsigned t0 => check_or_constrain_unsigned e t0
                              | CSigned t0 => check_or_constrain_signed e t0
                              | _ => COk e end = COk r -> r = e).
    { intros r Hr. destruct t; inv_all; try reflexivity.
      - apply coc_unsigned_conc in Hr; tauto.
      - apply coc_signed_conc in Hr; tauto. }
    destruct e as [i ty]. cbn [inner_of ty_of] in *. cbn [conc_e] in Hc.
    apply andb_true_iff in Hc. destruct Hc as [_ Hc].
    destruct i; try (apply Hleaf; exact H1).
    - destruct t; try (apply Hleaf; exact H1); inv_all; cbn [set_ty].
      + rewrite overwrite_elem_conc by assumption. reflexivity.
      + rewrite overwrite_fields_conc by assumption. reflexivity.
    - destruct t; try (apply Hleaf; exact H1). inv_all. rewrite overwrite_elem_conc by assumption.
      f_equal. f_equal. eapply mapM_id; [eassumption|]. intros x x' Hin Hx.
      eapply IH; [exact Hx|]. rewrite forallb_forall in Hc. auto.
    - destruct t; try (apply Hleaf; exact H1). inv_all. rewrite overwrite_elem_conc by assumption.
      f_equal. f_equal. eapply IH; eauto.
    - destruct t; try (apply Hleaf; exact H1). inv_all; [|reflexivity]. rewrite overwrite_fields_conc by assumption.
      f_equal. f_equal. eapply zipM_id; [eassumption|]. intros x y x' Hin Hx.
      eapply IH; [exact Hx|]. rewrite forallb_forall in Hc. auto.
    - inv_all. f_equal. f_equal. apply andb_true_iff in Hc. destruct Hc as [_ Hc].
      eapply mapM_id; [eassumption|]. intros [p x] x' Hin Hx. inv_all. cbn [fst snd] in *. f_equal.
      eapply IH; [eassumption|]. rewrite forallb_forall in Hc. apply (Hc _ Hin).
    - inv_all. f_equal. f_equal. eapply IH; eauto.
    - apply andb_true_iff in Hc. destruct Hc as [Hc1 Hc2].
      destruct o; inv_all; try reflexivity; f_equal; f_equal; eapply IH; eauto.
    - inv_all. f_equal. f_equal. eapply map_last_expr_id; [eassumption|]. intros x x' Hin Hx.
      eapply IH; [exact Hx|]. rewrite forallb_forall in Hc. apply (Hc _ Hin).
    - apply andb_true_iff in Hc. destruct Hc as [Hc Hc3]. apply andb_true_iff in Hc. destruct Hc as [Hc1 Hc2].
      inv_all. f_equal. f_equal; eapply IH; eauto. }
  subst e1. rewrite overwrite_ty_conc by (apply conc_e_ty; assumption). apply set_ty_same.
Qed.

(* check_type on a concrete tree: the identity, and the type IS the expected type *)
Lemma check_type_conc f e t e' :
  check_type f e t = COk e' -> conc_e e = true -> e' = e /\ ty_of e = t.
Proof.
  intros H Hc. pose proof (check_type_ty _ _ _ _ H) as Ht. unfold check_type in H. inv_all.
  apply constrain_type_conc in Hb; [|assumption]. subst. auto.
Qed.

(* unify on concrete trees: the identity, and the two types are EQUAL *)
Lemma unify_conc a b a' b' t :
  unify a b = COk (a', b', t) -> conc_ty (ty_of a) = true -> conc_ty (ty_of b) = true ->
  a' = a /\ b' = b /\ ty_of a = t /\ ty_of b = t.
Proof.
  unfold unify. intros H Ha Hb.
  destruct (cty_eqb (ty_of a) (ty_of b)) eqn:E.
  - apply cty_eqb_eq in E. inv_all. rewrite set_ty_same. rewrite E at 1. rewrite set_ty_same. auto.
  - exfalso. destruct (ty_of a) as [|[]|[]| | | |]; destruct (ty_of b) as [|[]|[]| | | |]; try discriminate.
Qed.

(* LetMut's defaulting on a concrete tree: the identity *)
Lemma i32_if_unspec_conc t : conc_ty t = true -> i32_if_unspec t = t.
Proof. intro H. unfold i32_if_unspec. rewrite (conc_not_uU _ H), (conc_not_sU _ H). reflexivity. Qed.

Lemma constrain_to_i32_conc : forall f b b', constrain_to_i32 f b = COk b' -> conc_e b = true -> b' = b.
Proof.
  induction f as [|f IH]; intros b b' H Hc; [discriminate|].
  cbn [constrain_to_i32] in H. pose proof (conc_e_ty _ Hc) as Hty.
  rewrite (conc_not_uU _ Hty), (conc_not_sU _ Hty) in H. cbn [orb cbind] in H.
  apply cbind_ok in H. destruct H as [b2 [H1 H2]]. inv_all.
  assert (Hb2 : b2 = b).
  { destruct b as [i ty]. cbn [inner_of ty_of] in *. cbn [conc_e] in Hc.
    apply andb_true_iff in Hc. destruct Hc as [_ Hc].
    destruct i; inv_all; try reflexivity; f_equal; f_equal.
    - eapply mapM_id; [eassumption|]. intros x x' Hin Hx. eapply IH; [exact Hx|]. rewrite forallb_forall in Hc. auto.
    - eapply IH; eauto.
    - eapply mapM_id; [eassumption|]. intros x x' Hin Hx. eapply IH; [exact Hx|]. rewrite forallb_forall in Hc. auto. }
  subst b2.
  destruct b as [i ty]. cbn [ty_of set_ty] in *. cbv zeta. f_equal.
  destruct ty; try reflexivity; cbn [conc_ty] in Hty.
  - rewrite i32_if_unspec_conc by assumption. reflexivity.
  - f_equal. clear - Hty. induction ts as [|x xs IHxs]; [reflexivity|]. cbn [forallb] in Hty.
    apply andb_true_iff in Hty. destruct Hty. cbn [map]. rewrite i32_if_unspec_conc, IHxs; auto.
Qed.

Print Assumptions constrain_type_conc.
Print Assumptions check_type_conc.
Print Assumptions unify_conc.
Print Assumptions constrain_to_i32_conc.

(* ================================================================== Part 2: soundness w.r.t. Lang/Wt.v *)

(* THE FRAGMENT PROVED SO FAR (a strict subset of S1; see the report for what is missing):
   expressions: true / false, suffixed number literals that lie in the range of their suffix type
   (what the scanner guarantees), identifiers, `[e; n]`, unary `!` / `-`, blocks;
   statements: `let x = e`, `let mut x = e` (no annotation), expression statements.
   NOT yet covered (the lemmas of Part 1 and the environment / block machinery below are what
   their cases need): binary operators, if, casts, ranges, array / tuple literals and accesses,
   assignments, for, calls, structs / enums / match, consts. *)
Definition lit_u_ok (n : N) (t : unsigned_num_type) : bool :=
  match unsigned_max t with Some m => n <=? m | None => false end.
Definition lit_s_ok (z : Z) (t : signed_num_type) : bool :=
  match signed_min t, signed_max t with
  | Some a, Some b => (a <=? z)%Z && (z <=? b)%Z
  | _, _ => false
  end.
Definition scalar_uty (t : utype) : bool :=
  match t with
  | UTBool => true
  | UTUnsigned u => negb (unsigned_eqb u UnspecifiedU)
  | UTSigned s => negb (signed_eqb s UnspecifiedS)
  | _ => false
  end.

Fixpoint frag_e (e : xexpr) : bool :=
  match e with
  | XTrue | XFalse | XIdentifier _ => true
  | XNumUnsigned n t => lit_u_ok n t
  | XNumSigned z t => lit_s_ok z t
  | XArrayRepeatLiteral e _ | XUnaryOp _ e => frag_e e
  | XBlock b => forallb frag_s b
  | _ => false
  end
with frag_s (s : xstmt) : bool :=
  match s with
  | XSLet (PIdentifier _) None e => frag_e e
  | XSLetMut _ None e => frag_e e
  | XSExpr e => frag_e e
  | _ => false
  end.

Section Sound.
Variable intern : list N -> N.
Hypothesis intern_inj : forall a b, intern a = intern b -> a = b.
Variable en : list (list N * list (list N * option (list cty))).
Variable P' : Ast.program.
Variable D : defs.
Hypothesis D_consts : d_consts D = [].
Notation xe := (export_expr intern en).
Notation xs := (export_stmt intern en).
Notation xa := (export_accessor intern en).
Notation xt := (export_ty intern).

Lemma e_ty_xe e : Ast.e_ty (xe e) = xt (ty_of e).
Proof. destruct e; reflexivity. Qed.

Lemma xt_refl t : Wt.ty_eqb (xt t) (xt t) = true.
Proof.
  induction t using cty_ind'; cbn [export_ty Wt.ty_eqb].
  - reflexivity.
  - rewrite N.eqb_refl. reflexivity.
  - rewrite N.eqb_refl. reflexivity.
  - rewrite IHt, N.eqb_refl. reflexivity.
  - induction H as [|x l Hx Hl IH]; cbn [map]; [reflexivity|]. rewrite Hx. exact IH.
  - apply N.eqb_refl.
  - apply N.eqb_refl.
Qed.

(* environments *)
Definition env_ok (g : cenv) : Prop := forall x t m, env_get g x = Some (t, m) -> conc_ty t = true.
Definition env_rel (g : cenv) (G : Wt.tenv) : Prop :=
  forall x t m, env_get g x = Some (t, m) ->
  exists m', Wt.tlookup G (intern x) = Some (xt t, m') /\ (m = true -> m' = true).

Lemma env_get_let g x t m y :
  env_get (env_let g x t m) y = if list_eqb y x then Some (t, m) else env_get g y.
Proof. destruct g as [|s r]; cbn [env_let env_get assocL]; destruct (list_eqb y x); reflexivity. Qed.

Lemma tlookup_tbind G x t m y :
  Wt.tlookup (Wt.tbind G x t m) y = if y =? x then Some (t, m) else Wt.tlookup G y.
Proof. destruct G as [|s r]; cbn [Wt.tbind Wt.tlookup Ast.assocN]; destruct (y =? x); reflexivity. Qed.

Lemma env_rel_let g G x t m : env_rel g G -> env_rel (env_let g x t m) (Wt.tbind G (intern x) (xt t) m).
Proof.
  intros H y t' m' Hy. rewrite env_get_let in Hy. rewrite tlookup_tbind.
  destruct (list_eqb y x) eqn:E.
  - apply list_eqb_eq in E. subst y. rewrite N.eqb_refl. inversion Hy; subst. eauto.
  - destruct (N.eqb_spec (intern y) (intern x)) as [Heq|Hne]; [|apply H; assumption].
    apply intern_inj in Heq. subst y. rewrite list_eqb_refl in E. discriminate.
Qed.

Lemma env_ok_let g x t m : env_ok g -> conc_ty t = true -> env_ok (env_let g x t m).
Proof.
  intros H Ht y t' m' Hy. rewrite env_get_let in Hy. destruct (list_eqb y x); [inversion Hy; subst; assumption|eauto].
Qed.

Lemma env_rel_push g G : env_rel g G -> env_rel (env_push g) ([] :: G).
Proof. intros H x t m Hx. cbn in Hx. apply H in Hx. cbn [Wt.tlookup Ast.assocN]. exact Hx. Qed.

Lemma env_ok_push g : env_ok g -> env_ok (env_push g).
Proof. intros H x t m Hx. cbn in Hx. eauto. Qed.

(* literals *)
Lemma lit_u_fits n t : lit_u_ok n t = true -> Wt.lit_fits (Ast.TInt false (ubits t)) (Z.of_N n) = true.
Proof.
  unfold lit_u_ok, Wt.lit_fits. destruct t; cbn [unsigned_max ubits]; intro H; try discriminate;
    apply N.leb_le in H; apply andb_true_iff; (split; [apply Z.leb_le; lia|apply Z.ltb_lt]).
  - change (2 ^ Z.of_N 32)%Z with 4294967296%Z. unfold u32_max in H. lia.
  - change (2 ^ Z.of_N 8)%Z with 256%Z. lia.
  - change (2 ^ Z.of_N 16)%Z with 65536%Z. lia.
  - change (2 ^ Z.of_N 32)%Z with 4294967296%Z. unfold u32_max in H. lia.
  - change (2 ^ Z.of_N 64)%Z with 18446744073709551616%Z. lia.
Qed.

Lemma lit_s_fits z t : lit_s_ok z t = true -> Wt.lit_fits (Ast.TInt true (sbits t)) z = true.
Proof.
  unfold lit_s_ok, Wt.lit_fits. destruct t; cbn [signed_min signed_max sbits]; intro H; try discriminate;
    apply andb_true_iff in H; destruct H as [H1 H2]; apply Z.leb_le in H1; apply Z.leb_le in H2;
    apply andb_true_iff.
  - change (2 ^ (Z.of_N 8 - 1))%Z with 128%Z. split; [apply Z.leb_le|apply Z.ltb_lt]; lia.
  - change (2 ^ (Z.of_N 16 - 1))%Z with 32768%Z. split; [apply Z.leb_le|apply Z.ltb_lt]; lia.
  - change (2 ^ (Z.of_N 32 - 1))%Z with 2147483648%Z. split; [apply Z.leb_le|apply Z.ltb_lt]; lia.
  - change (2 ^ (Z.of_N 64 - 1))%Z with 9223372036854775808%Z. split; [apply Z.leb_le|apply Z.ltb_lt]; lia.
Qed.

Lemma lit_u_conc n t : lit_u_ok n t = true -> conc_ty (CUnsigned t) = true.
Proof. destruct t; cbn; auto. Qed.
Lemma lit_s_conc z t : lit_s_ok z t = true -> conc_ty (CSigned t) = true.
Proof. destruct t; cbn; auto. Qed.

(* type classes *)
Lemma expect_num_x t u : expect_num_type t = COk u -> Wt.is_int (xt t) = true.
Proof. destruct t; try discriminate; reflexivity. Qed.
Lemma expect_signed_x t u : expect_signed_num_type t = COk u -> Wt.is_signed_int (xt t) = true.
Proof. destruct t; try discriminate; reflexivity. Qed.
Lemma expect_bool_or_num_x t u : expect_bool_or_num_type t = COk u -> Wt.is_bool (xt t) || Wt.is_int (xt t) = true.
Proof. destruct t; try discriminate; reflexivity. Qed.

Lemma nthN_map {A B} (g : A -> B) l i : nthN (map g l) i = option_map g (nthN l i).
Proof. rewrite !nthN_spec. apply nth_error_map. Qed.

Lemma conc_nth ts i t : forallb conc_ty ts = true -> nthN ts i = Some t -> conc_ty t = true.
Proof.
  rewrite nthN_spec. intros H Hn. apply nth_error_In in Hn. rewrite forallb_forall in H. auto.
Qed.

Ltac destr_tuples := repeat match goal with x : (_ * _)%type |- _ => destruct x end.
Ltac inv_all' := repeat (progress (inv_all; destr_tuples; cbn [fst snd] in * )).
Ltac refold H :=
  fold (Infer.check_expr intern) (Infer.check_stmts intern) (Infer.check_block intern)
       (Infer.check_fn intern) (Infer.check_stmt intern) in H.

(* the statement loop of Wt.wt_block *)
Definition wgo (f : nat) :=
  fix go (ss : list Ast.stmt) (g : Wt.tenv) (last : Ast.ty) : option Ast.ty :=
    match ss with
    | [] => Some last
    | s :: r => match Wt.wt_stmt f P' g s with Some (g', t) => go r g' t | None => None end
    end.
Lemma wt_block_S f G b : Wt.wt_block (S f) P' G b = wgo f b G Wt.unit_ty.
Proof. reflexivity. Qed.

Definition sty (s : tstmt) : Ast.ty := match s with TSExpr e => xt (ty_of e) | _ => Wt.unit_ty end.

Definition E (f : nat) : Prop := forall e st e' st' G,
  frag_e e = true -> check_expr intern f D st e = COk (e', st') ->
  env_ok (st_env st) -> env_rel (st_env st) G ->
  conc_e e' = true /\ Wt.wt_expr f P' G (xe e') = true.

Definition St (f : nat) : Prop := forall s st s' st' G,
  frag_s s = true -> check_stmt intern f D st s = COk (s', st') ->
  env_ok (st_env st) -> env_rel (st_env st) G ->
  conc_s s' = true /\ exists G', Wt.wt_stmt f P' G (xs s') = Some (G', sty s') /\
                                 env_ok (st_env st') /\ env_rel (st_env st') G'.

Definition Bl (f : nat) : Prop := forall b st b' ty st' G,
  forallb frag_s b = true -> check_block intern f D st b = COk (b', ty, st') ->
  env_ok (st_env st) -> env_rel (st_env st) G ->
  forallb conc_s b' = true /\ Wt.wt_block f P' G (map xs b') = Some (xt ty).

Definition Ss (f : nat) : Prop := forall b st b' st' G,
  forallb frag_s b = true -> check_stmts intern f D st b = COk (b', st') ->
  env_ok (st_env st) -> env_rel (st_env st) G ->
  forallb conc_s b' = true /\ exists t, Wt.wt_block f P' G (map xs b') = Some t.

Lemma fold_sty_last : forall b l,
  fold_left (fun _ s => sty s) b l = match last (map Some b) None with Some s => sty s | None => l end.
Proof.
  assert (Hne : forall (r : list tstmt) t, last (map Some (t :: r)) None <> None).
  { induction r as [|u r IHr]; intro t; [discriminate|]. specialize (IHr u). cbn [map last] in *. exact IHr. }
  induction b as [|s r IH]; intro l; [reflexivity|]. cbn [fold_left]. rewrite IH.
  destruct r as [|t r]; [reflexivity|].
  change (last (map Some (s :: t :: r)) None) with (last (map Some (t :: r)) None).
  destruct (last (map Some (t :: r)) None) eqn:El; [reflexivity|]. exfalso. exact (Hne _ _ El).
Qed.

Lemma last_expr_ty_x b : xt (last_expr_ty b) = fold_left (fun _ s => sty s) b Wt.unit_ty.
Proof.
  rewrite fold_sty_last. unfold last_expr_ty. destruct (last (map Some b) None) as [[]|]; reflexivity.
Qed.

Lemma stmts_sound f : St f -> forall b st b' st' G l,
  forallb frag_s b = true -> mapM_st (check_stmt intern f D) st b = COk (b', st') ->
  env_ok (st_env st) -> env_rel (st_env st) G ->
  forallb conc_s b' = true /\ wgo f (map xs b') G l = Some (fold_left (fun _ s => sty s) b' l).
Proof.
  intros HS. induction b as [|s b IH]; intros st b' st' G l Hf H Hok Hrel; cbn [mapM_st] in H; inv_all'.
  - split; reflexivity.
  - cbn [forallb] in Hf. apply andb_true_iff in Hf. destruct Hf as [Hf1 Hf2].
    destruct (HS _ _ _ _ _ Hf1 Hb Hok Hrel) as [Hc [G' [Hw [Hok' Hrel']]]].
    destruct (IH _ _ _ _ (sty t) Hf2 Hb0 Hok' Hrel') as [Hc2 Hw2].
    split; [cbn [forallb]; rewrite Hc, Hc2; reflexivity|].
    cbn [map wgo fold_left]. fold (wgo f). rewrite Hw. exact Hw2.
Qed.

Lemma exprs_sound f : E f -> forall es st es' st' G,
  forallb frag_e es = true -> mapM_st (check_expr intern f D) st es = COk (es', st') ->
  env_ok (st_env st) -> env_rel (st_env st) G ->
  forallb conc_e es' = true /\ forallb (fun e => Wt.wt_expr f P' G (xe e)) es' = true /\
  length es' = length es.
Proof.
  intros HE. induction es as [|e es IH]; intros st es' st' G Hf H Hok Hrel; cbn [mapM_st] in H; inv_all'.
  - repeat split; reflexivity.
  - cbn [forallb] in Hf. apply andb_true_iff in Hf. destruct Hf as [Hf1 Hf2].
    destruct (HE _ _ _ _ _ Hf1 Hb Hok Hrel) as [Hc Hw].
    pose proof (proj1 (check_env intern f D) _ _ _ Hb) as Henv. cbn [snd] in Henv.
    rewrite <- Henv in Hok, Hrel.
    destruct (IH _ _ _ _ Hf2 Hb0 Hok Hrel) as [Hc2 [Hw2 Hl]].
    cbn [forallb length]. rewrite Hc, Hc2, Hw, Hw2, Hl. repeat split; reflexivity.
Qed.

Lemma mapM_check_type_conc f t : forall l l',
  mapM (fun x => check_type f x t) l = COk l' -> forallb conc_e l = true ->
  l' = l /\ forall x, In x l -> ty_of x = t.
Proof.
  induction l as [|x l IH]; intros l' H Hc; cbn [mapM] in H; inv_all; [split; [reflexivity|intros ? []]|].
  cbn [forallb] in Hc. apply andb_true_iff in Hc. destruct Hc as [Hc1 Hc2].
  destruct (check_type_conc _ _ _ _ Hb Hc1) as [-> Ht]. destruct (IH _ Hb0 Hc2) as [-> Hall].
  split; [reflexivity|]. intros y [<-|Hy]; auto.
Qed.

Ltac sub_e HE G H :=
  let Hc := fresh "Hc" in let Hw := fresh "Hw" in let Henv := fresh "Henv" in
  pose proof (proj1 (check_env intern _ D) _ _ _ H) as Henv; cbn [snd] in Henv;
  match type of H with Infer.check_expr _ _ _ ?st ?e = _ =>
    let Hf := fresh in assert (Hf : frag_e e = true) by assumption;
    destruct (HE _ _ _ _ G Hf H ltac:(first [assumption|congruence]) ltac:(first [assumption|congruence])) as [Hc Hw] end.

Ltac fin_wt :=
  cbn [conc_e conc_s export_expr export_stmt Wt.wt_expr export_ty ty_of conc_ty export_op];
  rewrite ?e_ty_xe, ?xt_refl, ?N.eqb_refl;
  repeat match goal with
  | H : conc_e _ = true |- _ => rewrite H
  | H : conc_ty _ = true |- _ => rewrite H
  | H : Wt.wt_expr _ _ _ _ = true |- _ => rewrite H
  | H : expect_num_type _ = COk _ |- _ => rewrite (expect_num_x _ _ H)
  | H : expect_signed_num_type _ = COk _ |- _ => rewrite (expect_signed_x _ _ H)
  | H : expect_bool_or_num_type _ = COk _ |- _ => rewrite (expect_bool_or_num_x _ _ H)
  end.

Lemma scalar_conc ty t : scalar_uty ty = true -> concrete_of D ty = COk t -> conc_ty t = true.
Proof.
  unfold concrete_of. destruct ty; try discriminate; cbn [scalar_uty as_concrete_type]; intros Hs H; inv_all.
  - reflexivity.
  - destruct t0; try discriminate; reflexivity.
  - destruct t0; try discriminate; reflexivity.
Qed.

Lemma last_expr_ty_conc b : forallb conc_s b = true -> conc_ty (last_expr_ty b) = true.
Proof.
  unfold last_expr_ty. intro H.
  assert (Hl : forall s, last (map Some b) None = Some s -> conc_s s = true).
  { intros s Hs. rewrite forallb_forall in H. apply H. clear H.
    induction b as [|u r IH]; [discriminate|]. destruct r as [|v r]; [inversion Hs; left; reflexivity|].
    right. apply IH. exact Hs. }
  destruct (last (map Some b) None) as [[]|] eqn:El; try reflexivity.
  apply conc_e_ty. apply (Hl _ eq_refl).
Qed.

Lemma wt_expr_block f G b t : Wt.wt_expr (S f) P' G (Ast.Ex (Ast.EBlock b) (m0) t) =
  match Wt.wt_block f P' ([] :: G) b with Some tb => Wt.ty_eqb tb t | None => false end.
Proof. reflexivity. Qed.
Lemma wt_stmt_let f G p e : Wt.wt_stmt (S f) P' G (Ast.St (Ast.SLet p e) m0) =
  if Wt.wt_expr f P' G e && Wt.ty_eqb (Ast.p_ty p) (Ast.e_ty e)
  then match Wt.wt_pat P' p with Some bs => Some (Wt.tbind_all G bs false, Wt.unit_ty) | None => None end
  else None.
Proof. reflexivity. Qed.
Lemma wt_stmt_letmut f G x e : Wt.wt_stmt (S f) P' G (Ast.St (Ast.SLetMut x e) m0) =
  if Wt.wt_expr f P' G e then Some (Wt.tbind G x (Ast.e_ty e) true, Wt.unit_ty) else None.
Proof. reflexivity. Qed.
Lemma wt_stmt_expr f G e : Wt.wt_stmt (S f) P' G (Ast.St (Ast.SExpr e) m0) =
  if Wt.wt_expr f P' G e then Some (G, Ast.e_ty e) else None.
Proof. reflexivity. Qed.

Lemma xe_block b t : xe (TE (TBlock b) t) = Ast.Ex (Ast.EBlock (map xs b)) m0 (xt t).
Proof. reflexivity. Qed.
Lemma xs_let p e : xs (TSLet p e) = Ast.St (Ast.SLet (export_pattern intern en p) (xe e)) m0.
Proof. reflexivity. Qed.
Lemma xs_letmut x e : xs (TSLetMut x e) = Ast.St (Ast.SLetMut (intern x) (xe e)) m0.
Proof. reflexivity. Qed.
Lemma xs_expr e : xs (TSExpr e) = Ast.St (Ast.SExpr (xe e)) m0.
Proof. reflexivity. Qed.

Theorem sound_all : forall f, E f /\ St f /\ Bl f /\ Ss f.
Proof.
  induction f as [|f [HE [HS [HB HSs]]]].
  { repeat split; intros; discriminate. }
  assert (HB' : Bl (S f)).
  { intros b st b' ty st' G Hf H Hok Hrel. cbn [check_block] in H. refold H. inv_all'.
    destruct (stmts_sound f HS _ _ _ _ _ Wt.unit_ty Hf Hb Hok Hrel) as [Hc Hw].
    split; [exact Hc|]. rewrite wt_block_S, Hw, last_expr_ty_x. reflexivity. }
  assert (HSs' : Ss (S f)).
  { intros b st b' st' G Hf H Hok Hrel. cbn [check_stmts] in H. refold H.
    destruct (stmts_sound f HS _ _ _ _ _ Wt.unit_ty Hf H Hok Hrel) as [Hc Hw].
    split; [exact Hc|]. eexists. rewrite wt_block_S. exact Hw. }
  split; [|split; [|split; assumption]].
  - (* expressions *)
    intros e st e' st' G Hf H Hok Hrel. destruct e; try discriminate Hf; cbn [frag_e] in Hf;
      cbn [Infer.check_expr] in H; refold H.
    + (* true *) inv_all. split; reflexivity.
    + inv_all. split; reflexivity.
    + (* unsigned literal *) inv_all. cbn [conc_e export_expr Wt.wt_expr export_ty].
      rewrite (lit_u_conc _ _ Hf), (lit_u_fits _ _ Hf). split; reflexivity.
    + inv_all. cbn [conc_e export_expr Wt.wt_expr export_ty].
      rewrite (lit_s_conc _ _ Hf), (lit_s_fits _ _ Hf). split; reflexivity.
    + (* identifier *)
      destruct (env_get (st_env st) s) as [[ty m]|] eqn:Eg.
      * inv_all. cbn [conc_e export_expr Wt.wt_expr]. rewrite (Hok _ _ _ Eg).
        destruct (Hrel _ _ _ Eg) as [m' [Hl _]]. rewrite Hl, xt_refl. split; reflexivity.
      * rewrite D_consts in H. discriminate.
    + (* array repeat *) inv_all'. sub_e HE G Hb. cbn [conc_e export_expr Wt.wt_expr export_ty ty_of conc_ty].
      rewrite Hc, (conc_e_ty _ Hc), Hw, N.eqb_refl, e_ty_xe, xt_refl. split; reflexivity.
    + (* unary *)
      destruct o; inv_all';
        match goal with Hx : Infer.check_expr _ _ _ _ _ = COk _ |- _ => sub_e HE G Hx end;
        pose proof (conc_e_ty _ Hc) as Hct; fin_wt; rewrite ?xt_refl; split; try reflexivity.
      all: match goal with H : expect_bool_or_num_type _ = COk _ |- _ =>
             pose proof (expect_bool_or_num_x _ _ H) as Hb1; cbn [ty_of] in Hb1; rewrite Hb1; reflexivity end.
    + (* block *)
      apply cbind_ok in H. destruct H as [[[body ty] st1] [Hblk H]]. cbv beta iota in H. inv_all.
      destruct (HB _ _ _ _ _ ([] :: G) Hf Hblk) as [Hcb Hwb].
      { apply env_ok_push. exact Hok. }
      { apply env_rel_push. exact Hrel. }
      assert (Ety : ty = last_expr_ty body).
      { destruct f as [|f0]; [discriminate|]. cbn [check_block] in Hblk. refold Hblk. inv_all. reflexivity. }
      rewrite xe_block, wt_expr_block, Hwb, xt_refl. cbn [conc_e]. rewrite Hcb.
      rewrite Ety, (last_expr_ty_conc _ Hcb). split; reflexivity.
  - (* statements *)
    intros s st s' st' G Hf H Hok Hrel. destruct s; try discriminate Hf; cbn [frag_s] in Hf;
      cbn [Infer.check_stmt] in H; refold H.
    + (* let *)
      destruct p; try discriminate Hf. destruct ty; try discriminate Hf.
      apply cbind_ok in H. destruct H as [[e1 st1] [He H]]. cbv beta in H. cbn [fst snd cbind] in H.
      cbn [check_pattern cbind fst snd] in H. inv_all.
      sub_e HE G He. pose proof (conc_e_ty _ Hc) as Hct.
      split; [exact Hc|]. exists (Wt.tbind G (intern s) (xt (ty_of e1)) false).
      cbn [st_env with_env]. rewrite Henv.
      split; [|split; [apply env_ok_let; assumption|apply env_rel_let; assumption]].
      rewrite xs_let, wt_stmt_let, Hw, e_ty_xe. cbn [export_pattern Ast.p_ty Wt.wt_pat sty]. rewrite xt_refl. reflexivity.
    + (* let mut *)
      destruct ty; try discriminate Hf.
      apply cbind_ok in H. destruct H as [[e1 st1] [He H]]. cbv beta in H. cbn [fst snd cbind] in H.
      apply cbind_ok in H. destruct H as [e2 [Hi H]]. inv_all.
      sub_e HE G He. apply constrain_to_i32_conc in Hi; [|exact Hc]. subst e2.
      pose proof (conc_e_ty _ Hc) as Hct.
      split; [exact Hc|]. exists (Wt.tbind G (intern x) (xt (ty_of e1)) true).
      cbn [st_env with_env]. rewrite Henv.
      split; [|split; [apply env_ok_let; assumption|apply env_rel_let; assumption]].
      rewrite xs_letmut, wt_stmt_letmut, Hw, e_ty_xe. reflexivity.
    + (* expression statement *)
      apply cbind_ok in H. destruct H as [[e1 st1] [He H]]. inv_all.
      sub_e HE G He. split; [exact Hc|]. exists G. cbn [st_env]. rewrite Henv.
      split; [|split; assumption].
      rewrite xs_expr, wt_stmt_expr, Hw, e_ty_xe. reflexivity.
Qed.

(* block level: a function body of the fragment, accepted by type_check_block in an environment
   that corresponds to the re-checker's, passes Wt.wt_block with the block type the checker
   computed (same fuel) *)
Corollary check_block_sound f : Bl f.
Proof. apply sound_all. Qed.
Corollary check_expr_sound f : E f.
Proof. apply sound_all. Qed.

End Sound.

Print Assumptions sound_all.
Print Assumptions check_block_sound.
