(* (A) Soundness of the checker model w.r.t. Lang/Wt.v on programs without unsuffixed numbers.
   Part 1 (this section): on a typed tree without `Unspecified` types the whole literal-inference
   machinery (constrain_type, check_type, unify, check_or_constrain_*, constrain_to_i32) is the
   IDENTITY and only compares types. *)
From GV Require Import Base.Util Front.Scan Front.ParseExpr Check.UAst Check.Infer Check.InferProofs.
From GV Require Lang.Ast Lang.Wt.
Local Open Scope N_scope.

(* no `Unspecified` number type anywhere in the type *)
Fixpoint conc_ty (t : cty) : bool :=
  match t with
  | CUnsigned UnspecifiedU => false
  | CSigned UnspecifiedS => false
  | CArray e _ => conc_ty e
  | CTuple ts => forallb conc_ty ts
  | _ => true
  end.

(* every type recorded in the typed tree is concrete *)
Fixpoint conc_e (e : texpr) : bool :=
  match e with
  | TE i t =>
      conc_ty t &&
      match i with
      | TArrayLiteral es | TTupleLiteral es | TFnCall _ es => forallb conc_e es
      | TArrayRepeatLiteral x _ | TTupleAccess x _ | TStructAccess x _ | TUnaryOp _ x | TCast _ x => conc_e x
      | TArrayAccess a i => conc_e a && conc_e i
      | TStructLiteral _ fs => forallb (fun f => conc_e (snd f)) fs
      | TEnumLiteral _ _ (Some es) => forallb conc_e es
      | TMatch s arms => conc_e s && forallb (fun a => conc_e (snd a)) arms
      | TOp _ a b => conc_e a && conc_e b
      | TBlock b => forallb conc_s b
      | TIf c a b => conc_e c && conc_e a && conc_e b
      | TRange _ _ u => negb (unsigned_eqb u UnspecifiedU)   (* the range's own number type *)
      | _ => true
      end
  end
with conc_s (s : tstmt) : bool :=
  match s with
  | TSLet _ e | TSLetMut _ e | TSExpr e | TSVarAssign _ _ e => conc_e e
  | TSForEach _ e body => conc_e e && forallb conc_s body
  end.

Lemma conc_e_ty e : conc_e e = true -> conc_ty (ty_of e) = true.
Proof. destruct e. cbn [conc_e ty_of]. intro H. apply andb_true_iff in H. tauto. Qed.

Lemma conc_not_uU t : conc_ty t = true -> is_uU t = false.
Proof. destruct t as [|[]|[]| | | |]; cbn; try reflexivity; discriminate. Qed.
Lemma conc_not_sU t : conc_ty t = true -> is_sU t = false.
Proof. destruct t as [|[]|[]| | | |]; cbn; try reflexivity; discriminate. Qed.

(* overwrite_ty_if_necessary does nothing on a concrete type *)
Lemma overwrite_ty_conc : forall ex a, conc_ty a = true -> overwrite_ty a ex = a.
Proof.
  induction ex using cty_ind'; intros a Ha; cbn [overwrite_ty]; auto.
  - rewrite (conc_not_uU _ Ha). reflexivity.
  - rewrite (conc_not_uU _ Ha), (conc_not_sU _ Ha). reflexivity.
  - destruct a; auto. cbn [conc_ty] in Ha. rewrite IHex; auto.
  - destruct a; auto. cbn [conc_ty] in Ha. f_equal.
    revert ts0 Ha. induction H as [|x xs Hx Hxs IH]; intros acts Ha; [destruct acts; reflexivity|].
    destruct acts as [|a acts]; [reflexivity|]. cbn [forallb] in Ha. apply andb_true_iff in Ha. destruct Ha as [Ha1 Ha2].
    rewrite Hx by assumption. f_equal. apply IH. assumption.
Qed.

Lemma overwrite_elem_conc t el : conc_ty t = true -> overwrite_elem t el = t.
Proof. destruct t; auto. cbn [conc_ty overwrite_elem]. intro H. rewrite overwrite_ty_conc; auto. Qed.

Lemma overwrite_zip_conc : forall exs acts, forallb conc_ty acts = true -> overwrite_zip acts exs = acts.
Proof.
  induction exs as [|ex exs IH]; intros acts H; [destruct acts; reflexivity|].
  destruct acts as [|a acts]; [reflexivity|]. cbn [forallb] in H. apply andb_true_iff in H. destruct H.
  cbn [overwrite_zip]. rewrite overwrite_ty_conc, IH; auto.
Qed.

Lemma overwrite_fields_conc t els : conc_ty t = true -> overwrite_fields t els = t.
Proof. destruct t; auto. cbn [conc_ty overwrite_fields]. intro H. rewrite overwrite_zip_conc; auto. Qed.

Lemma set_ty_same e : set_ty e (ty_of e) = e.
Proof. destruct e; reflexivity. Qed.

(* check_or_constrain_* on a concrete type: a pure comparison *)
Lemma coc_unsigned_conc e u e' :
  check_or_constrain_unsigned e u = COk e' -> conc_ty (ty_of e) = true -> e' = e /\ ty_of e = CUnsigned u.
Proof.
  unfold check_or_constrain_unsigned. intros H Hc. rewrite (conc_not_uU _ Hc) in H.
  destruct (cty_eqb (ty_of e) (CUnsigned u)) eqn:E; [|discriminate]. apply cty_eqb_eq in E.
  cbn [negb andb] in H.
  assert (e' = set_ty e (CUnsigned u)).
  { destruct (unsigned_max u); [destruct (inner_of e); try (inv_all; reflexivity)|inv_all; reflexivity]. }
  subst e'. rewrite <- E. rewrite set_ty_same. auto.
Qed.

Lemma coc_signed_conc e s e' :
  check_or_constrain_signed e s = COk e' -> conc_ty (ty_of e) = true -> e' = e /\ ty_of e = CSigned s.
Proof.
  unfold check_or_constrain_signed. intros H Hc. rewrite (conc_not_uU _ Hc), (conc_not_sU _ Hc) in H.
  destruct (cty_eqb (ty_of e) (CSigned s)) eqn:E; [|discriminate]. apply cty_eqb_eq in E.
  cbn [negb andb] in H. inv_all. rewrite <- E. rewrite set_ty_same. auto.
Qed.

(* the versions the callers outside constrain_type use (fix 64720dd): on a concrete type the deep branch
   cannot fire (it requires a type different from the expected one, which is then Unspecified) *)
Lemma coc_unsigned_deep_conc f e u e' :
  coc_unsigned_deep f e u = COk e' -> conc_ty (ty_of e) = true -> e' = e /\ ty_of e = CUnsigned u.
Proof.
  unfold coc_unsigned_deep. intros H Hc. rewrite (conc_not_uU _ Hc) in H.
  destruct (cty_eqb (ty_of e) (CUnsigned u)) eqn:E; [|discriminate]. cbn [negb andb] in H.
  apply coc_unsigned_conc; assumption.
Qed.

Lemma coc_signed_deep_conc f e s e' :
  coc_signed_deep f e s = COk e' -> conc_ty (ty_of e) = true -> e' = e /\ ty_of e = CSigned s.
Proof.
  unfold coc_signed_deep. intros H Hc. rewrite (conc_not_uU _ Hc), (conc_not_sU _ Hc) in H.
  destruct (cty_eqb (ty_of e) (CSigned s)) eqn:E; [|discriminate]. cbn [negb andb] in H.
  apply coc_signed_conc; assumption.
Qed.

Lemma mapM_id {A} (g : A -> cres A) : forall l l',
  mapM g l = COk l' -> (forall x x', In x l -> g x = COk x' -> x' = x) -> l' = l.
Proof.
  induction l as [|x l IH]; intros l' H Hg; cbn [mapM] in H; inv_all; [reflexivity|].
  f_equal; [eapply Hg; [left; reflexivity|eassumption]|apply IH; [assumption|intros; eapply Hg; [right|]; eauto]].
Qed.

Lemma zipM_id {A B} (g : A -> B -> cres A) : forall xs ys xs',
  zipM g xs ys = COk xs' -> (forall x y x', In x xs -> g x y = COk x' -> x' = x) -> xs' = xs.
Proof.
  induction xs as [|x xs IH]; intros ys xs' H Hg; cbn [zipM] in H; [inv_all; reflexivity|].
  destruct ys as [|y ys]; inv_all; [reflexivity|].
  f_equal; [eapply Hg; [left; reflexivity|eassumption]|eapply IH; [eassumption|intros; eapply Hg; [right|]; eauto]].
Qed.

Lemma map_last_expr_id (g : texpr -> cres texpr) : forall b b',
  map_last_expr g b = COk b' -> (forall x x', In (TSExpr x) b -> g x = COk x' -> x' = x) -> b' = b.
Proof.
  induction b as [|s b IH]; intros b' H Hg; [cbn in H; inv_all; reflexivity|].
  cbn [map_last_expr] in H. destruct b as [|s2 b].
  - destruct s; inv_all; try reflexivity. f_equal. f_equal. eapply Hg; [left; reflexivity|eassumption].
  - destruct s; inv_all; f_equal; (apply IH; [assumption|]; intros; eapply Hg; [right|]; eauto).
Qed.

(* constrain_type on a concrete tree is the identity *)
Lemma constrain_type_conc : forall f e t e',
  constrain_type f e t = COk e' -> conc_e e = true -> e' = e.
Proof.
  induction f as [|f IH]; intros e t e' H Hc; [discriminate|].
  cbn [constrain_type] in H. apply cbind_ok in H. destruct H as [e1 [H1 H2]]. inv_all.
  assert (He1 : e1 = e).
  { pose proof (conc_e_ty _ Hc) as Hty.
    assert (Hleaf : forall r, match t with
                              | CUnsigned t0 => check_or_constrain_unsigned e t0
                              | CSigned t0 => check_or_constrain_signed e t0
                              | _ => COk e end = COk r -> r = e).
    { intros r Hr. destruct t; inv_all; try reflexivity.
      - apply coc_unsigned_conc in Hr; tauto.
      - apply coc_signed_conc in Hr; tauto. }
    destruct e as [i ty]. cbn [inner_of ty_of] in *. cbn [conc_e] in Hc.
    apply andb_true_iff in Hc. destruct Hc as [_ Hc].
    destruct i; try (apply Hleaf; exact H1).
    - destruct t; try (apply Hleaf; exact H1); inv_all; cbn [set_ty].
      + rewrite overwrite_elem_conc by assumption. reflexivity.
      + rewrite overwrite_fields_conc by assumption. reflexivity.
    - destruct t; try (apply Hleaf; exact H1). inv_all. rewrite overwrite_elem_conc by assumption.
      f_equal. f_equal. eapply mapM_id; [eassumption|]. intros x x' Hin Hx.
      eapply IH; [exact Hx|]. rewrite forallb_forall in Hc. auto.
    - destruct t; try (apply Hleaf; exact H1). inv_all. rewrite overwrite_elem_conc by assumption.
      f_equal. f_equal. eapply IH; eauto.
    - destruct t; try (apply Hleaf; exact H1). inv_all; [|reflexivity]. rewrite overwrite_fields_conc by assumption.
      f_equal. f_equal. eapply zipM_id; [eassumption|]. intros x y x' Hin Hx.
      eapply IH; [exact Hx|]. rewrite forallb_forall in Hc. auto.
    - inv_all. f_equal. f_equal. apply andb_true_iff in Hc. destruct Hc as [_ Hc].
      eapply mapM_id; [eassumption|]. intros [p x] x' Hin Hx. inv_all. cbn [fst snd] in *. f_equal.
      eapply IH; [eassumption|]. rewrite forallb_forall in Hc. apply (Hc _ Hin).
    - inv_all. f_equal. f_equal. eapply IH; eauto.
    - apply andb_true_iff in Hc. destruct Hc as [Hc1 Hc2].
      destruct o; inv_all; try reflexivity; f_equal; f_equal; eapply IH; eauto.
    - inv_all. f_equal. f_equal. eapply map_last_expr_id; [eassumption|]. intros x x' Hin Hx.
      eapply IH; [exact Hx|]. rewrite forallb_forall in Hc. apply (Hc _ Hin).
    - apply andb_true_iff in Hc. destruct Hc as [Hc Hc3]. apply andb_true_iff in Hc. destruct Hc as [Hc1 Hc2].
      inv_all. f_equal. f_equal; eapply IH; eauto.
    - (* range: its number type is not Unspecified, the arm of fix 7bf4e4f cannot fire *)
      destruct t0; try discriminate Hc; apply Hleaf; exact H1. }
  subst e1. rewrite overwrite_ty_conc by (apply conc_e_ty; assumption). apply set_ty_same.
Qed.

(* check_type on a concrete tree: the identity, and the type IS the expected type *)
Lemma check_type_conc f e t e' :
  check_type f e t = COk e' -> conc_e e = true -> e' = e /\ ty_of e = t.
Proof.
  intros H Hc. pose proof (check_type_ty _ _ _ _ H) as Ht. unfold check_type in H. inv_all.
  apply constrain_type_conc in Hb; [|assumption]. subst. auto.
Qed.

(* unify on concrete trees: the identity, and the two types are EQUAL *)
Lemma unify_conc f a b a' b' t :
  unify f a b = COk (a', b', t) -> conc_ty (ty_of a) = true -> conc_ty (ty_of b) = true ->
  a' = a /\ b' = b /\ ty_of a = t /\ ty_of b = t.
Proof.
  unfold unify. intros H Ha Hb.
  destruct (cty_eqb (ty_of a) (ty_of b)) eqn:E.
  - apply cty_eqb_eq in E. inv_all. rewrite set_ty_same. rewrite E at 1. rewrite set_ty_same. auto.
  - exfalso. destruct (ty_of a) as [|[]|[]| | | |]; destruct (ty_of b) as [|[]|[]| | | |]; try discriminate.
Qed.

(* LetMut's defaulting on a concrete tree: the identity *)
Lemma i32_if_unspec_conc t : conc_ty t = true -> i32_if_unspec t = t.
Proof. intro H. unfold i32_if_unspec. rewrite (conc_not_uU _ H), (conc_not_sU _ H). reflexivity. Qed.

Lemma constrain_to_i32_conc : forall f b b', constrain_to_i32 f b = COk b' -> conc_e b = true -> b' = b.
Proof.
  induction f as [|f IH]; intros b b' H Hc; [discriminate|].
  cbn [constrain_to_i32] in H. pose proof (conc_e_ty _ Hc) as Hty.
  rewrite (conc_not_uU _ Hty), (conc_not_sU _ Hty) in H. cbn [orb cbind] in H.
  apply cbind_ok in H. destruct H as [b2 [H1 H2]]. inv_all.
  assert (Hb2 : b2 = b).
  { destruct b as [i ty]. cbn [inner_of ty_of] in *. cbn [conc_e] in Hc.
    apply andb_true_iff in Hc. destruct Hc as [_ Hc].
    destruct i; inv_all; try reflexivity; f_equal; f_equal.
    - eapply mapM_id; [eassumption|]. intros x x' Hin Hx. eapply IH; [exact Hx|]. rewrite forallb_forall in Hc. auto.
    - eapply IH; eauto.
    - eapply mapM_id; [eassumption|]. intros x x' Hin Hx. eapply IH; [exact Hx|]. rewrite forallb_forall in Hc. auto. }
  subst b2.
  destruct b as [i ty]. cbn [ty_of set_ty] in *. cbv zeta. f_equal.
  destruct ty; try reflexivity; cbn [conc_ty] in Hty.
  - rewrite i32_if_unspec_conc by assumption. reflexivity.
  - f_equal. clear - Hty. induction ts as [|x xs IHxs]; [reflexivity|]. cbn [forallb] in Hty.
    apply andb_true_iff in Hty. destruct Hty. cbn [map]. rewrite i32_if_unspec_conc, IHxs; auto.
Qed.

Print Assumptions constrain_type_conc.
Print Assumptions check_type_conc.
Print Assumptions unify_conc.
Print Assumptions constrain_to_i32_conc.

(* ================================================================== Part 2: soundness w.r.t. Lang/Wt.v *)

(* THE FRAGMENT: every number literal and range carries a suffix, literals lie in the range of
   their suffix type (what the scanner guarantees); casts go to a scalar type; patterns of
   `let` / `for` are identifiers and tuples of such. *)
Definition lit_u_ok (n : N) (t : unsigned_num_type) : bool :=
  match unsigned_max t with Some m => n <=? m | None => false end.
Definition lit_s_ok (z : Z) (t : signed_num_type) : bool :=
  match signed_min t, signed_max t with
  | Some a, Some b => (a <=? z)%Z && (z <=? b)%Z
  | _, _ => false
  end.
Definition scalar_uty (t : utype) : bool :=
  match t with
  | UTBool => true
  | UTUnsigned u => negb (unsigned_eqb u UnspecifiedU)
  | UTSigned s => negb (signed_eqb s UnspecifiedS)
  | _ => false
  end.

Fixpoint frag_p (p : upattern) : bool :=
  match p with
  | PIdentifier _ | PTrue | PFalse | PNumUnsigned _ _ | PNumSigned _ _ | PEnumUnit _ _
  | PUnsignedInclusiveRange _ _ _ | PSignedInclusiveRange _ _ _ => true
  | PTuple ps | PEnumTuple _ _ ps => forallb frag_p ps
  | PStruct _ fs | PStructIgnoreRemaining _ fs => forallb (fun f => frag_p (snd f)) fs
  end.

Fixpoint frag_e (e : xexpr) : bool :=
  match e with
  | XTrue | XFalse | XIdentifier _ => true
  | XNumUnsigned n t => lit_u_ok n t
  | XNumSigned z t => lit_s_ok z t
  | XArrayLiteral es | XTupleLiteral es => forallb frag_e es
  | XArrayRepeatLiteral e _ | XTupleAccess e _ | XUnaryOp _ e | XStructAccess e _ => frag_e e
  | XEnumLiteral _ _ None => true
  | XEnumLiteral _ _ (Some es) => forallb frag_e es
  | XArrayAccess a i => frag_e a && frag_e i
  | XOp _ l r => frag_e l && frag_e r
  | XBlock b => forallb frag_s b
  | XIf c a b => frag_e c && frag_e a && frag_e b
  | XCast ty e => scalar_uty ty && frag_e e
  | XRange _ _ t => negb (unsigned_eqb t UnspecifiedU)
  | XFnCall _ args => forallb frag_e args
  | XStructLiteral _ fields => forallb (fun nf => frag_e (snd nf)) fields
  | XMatch e arms => frag_e e && forallb (fun pa => frag_p (fst pa) && frag_e (snd pa)) arms
  | _ => false
  end
with frag_s (s : xstmt) : bool :=
  match s with
  | XSLet p _ e => frag_p p && frag_e e
  | XSLetMut _ _ e => frag_e e
  | XSVarAssign _ accs e => forallb frag_a accs && frag_e e
  | XSForEach p e body => frag_p p && frag_e e && forallb frag_s body
  | XSExpr e => frag_e e
  end
with frag_a (a : xaccessor) : bool :=
  match a with XAArray i => frag_e i | XATuple _ => true | XAStruct _ => true end.

(* types written in the program: no Unspecified number type, no named / const-sized type *)
Fixpoint conc_uty (t : utype) : bool :=
  match t with
  | UTBool => true
  | UTUnsigned u => negb (unsigned_eqb u UnspecifiedU)
  | UTSigned s => negb (signed_eqb s UnspecifiedS)
  | UTTuple ts => forallb conc_uty ts
  | UTArray e _ => conc_uty e
  | UTNamed _ => true
  | _ => false
  end.

Lemma utype_ind' (P : utype -> Prop) :
  P UTBool -> (forall t, P (UTUnsigned t)) -> (forall t, P (UTSigned t)) -> (forall s, P (UTNamed s)) ->
  (forall ts, Forall P ts -> P (UTTuple ts)) -> (forall t n, P t -> P (UTArray t n)) ->
  (forall t c, P t -> P (UTArrayConst t c)) -> (forall t c, P t -> P (UTArrayConstExpr t c)) -> forall t, P t.
Proof.
  intros H0 H1 H2 H3 H4 H5 H6 H7. fix IH 1. destruct t.
  - exact H0.
  - apply H1.
  - apply H2.
  - apply H3.
  - apply H4. induction ts as [|x xs IHxs]; constructor; [apply IH | exact IHxs].
  - apply H5. apply IH.
  - apply H6. apply IH.
  - apply H7. apply IH.
Qed.

Lemma as_concrete_conc sn en : forall t t', as_concrete_type sn en t = COk t' -> conc_uty t = true -> conc_ty t' = true.
Proof.
  induction t using utype_ind'; intros t' HH Hc; try discriminate Hc; cbn [as_concrete_type] in HH.
  - inv_all. reflexivity.
  - inv_all. destruct t; try discriminate Hc; reflexivity.
  - inv_all. destruct t; try discriminate Hc; reflexivity.
  - destruct (memL s sn); [inv_all; reflexivity|]. destruct (memL s en); inv_all. reflexivity.
  - apply cbind_ok in HH. destruct HH as [ts' [Hts HH]]. inversion HH; subst; clear HH. cbn [conc_uty conc_ty] in *.
    revert ts' Hts Hc. induction H as [|x xs Hx Hxs IH]; intros ts' Hts Hc.
    + inv_all. reflexivity.
    + apply cbind_ok in Hts. destruct Hts as [x' [Hx' Hts]]. apply cbind_ok in Hts. destruct Hts as [r' [Hr' Hts]].
      inversion Hts; subst; clear Hts. cbn [forallb] in *. apply andb_true_iff in Hc. destruct Hc as [Hc1 Hc2].
      rewrite (Hx _ Hx' Hc1), (IH _ Hr' Hc2). reflexivity.
  - apply cbind_ok in HH. destruct HH as [e' [He HH]]. inversion HH; subst; clear HH. cbn [conc_uty conc_ty] in *. eauto.
Qed.

Definition frag_fn (fd : ufndef) : bool :=
  forallb (fun p => conc_uty (upa_ty p)) (uf_params fd) && conc_uty (uf_ty fd) && forallb frag_s (uf_body fd).


Ltac destr_tuples := repeat match goal with x : (_ * _)%type |- _ => destruct x end.
Ltac inv_all' := repeat (progress (inv_all; destr_tuples; cbn [fst snd] in * )).


Section TypedRel.
Variable intern : list N -> N.
Variable D : defs.
Notation check_expr := (check_expr intern).
Notation check_stmt := (check_stmt intern).
Notation check_stmts := (check_stmts intern).
Notation check_block := (check_block intern).
Notation check_fn := (check_fn intern).

(* a property of the entries of `typed` that holds for whatever a successful function check
   inserts is an invariant of the whole checker *)
Variable K : Type.
Variable I : K -> list (list N * tfndef) -> Prop.
Variable Bd : nat.
Hypothesis I_ins : forall f st ufd r id k, (f < Bd)%nat -> I k (st_typed st) ->
  find (fun d => list_eqb (uf_name d) id) (d_fns D) = Some ufd ->
  check_fn f D st ufd = COk r -> I k (st_typed (snd r)) -> I k ((id, fst r) :: st_typed (snd r)).

Definition Rb (st st' : cstate) : Prop := forall k, I k (st_typed st) -> I k (st_typed st').

Lemma R_reflr st : Rb st st. Proof. unfold Rb; auto. Qed.
Lemma R_transr a b c : Rb a b -> Rb b c -> Rb a c. Proof. unfold Rb; auto. Qed.

Lemma mapM_st_Rr {A B} (g : cstate -> A -> cres (B * cstate)) :
  (forall st x r, g st x = COk r -> Rb st (snd r)) ->
  forall l st r, mapM_st g st l = COk r -> Rb st (snd r).
Proof.
  intros Hg. induction l as [|x l IH]; intros st r H; cbn [mapM_st] in H; inv_all; [apply R_reflr|].
  cbn [snd]. eapply R_transr; [eapply Hg; eauto|eapply IH; eauto].
Qed.

Lemma accs_loop_Rr ce fu :
  (forall st x r, ce st x = COk r -> Rb st (snd r)) ->
  forall accs st t r, accs_loop ce fu D st t accs = COk r -> Rb st (snd r).
Proof.
  intros Hce. induction accs as [|a accs IH]; intros st t r H; cbn [accs_loop] in H; [inv_all; apply R_reflr|].
  apply cbind_ok in H. destruct H as [[[ta t'] st'] [H1 H2]]. cbv beta iota in H2.
  apply cbind_ok in H2. destruct H2 as [[[tas tf] st''] [H2 H3]]. cbv beta iota in H3. inv_all. cbn [snd].
  apply IH in H2. cbn [snd] in H2. eapply R_transr; [|exact H2]. clear H2 IH.
  destruct a.
  - inv_all'. match goal with H : ce _ _ = _ |- _ => apply Hce in H; exact H end.
  - inv_all'. destruct (nthN _ _); inv_all. apply R_reflr.
  - inv_all'. destruct (assocL _ (d_structs D)); [|discriminate]. destruct (assocL _ _); inv_all. apply R_reflr.
Qed.

Lemma struct_lit_loop_Rr ce f sd :
  (forall st x r, ce st x = COk r -> Rb st (snd r)) ->
  forall fields seen st r, struct_lit_loop ce f sd seen st fields = COk r -> Rb st (snd r).
Proof.
  intros Hce. induction fields as [|[fname fv] fields IH]; intros seen st r H; cbn [struct_lit_loop] in H; inv_all; [apply R_reflr|].
  destruct (assocL fname sd); [|discriminate]. inv_all. cbn [snd].
  eapply R_transr; [eapply Hce; eauto|eapply IH; eauto].
Qed.

Ltac refold H :=
  fold (Infer.check_expr intern) (Infer.check_stmts intern) (Infer.check_block intern)
       (Infer.check_fn intern) (Infer.check_stmt intern) in H.

Ltac use_Rr IHe IHss IHb IHs IHf := repeat match goal with
  | H : Infer.check_expr _ _ _ _ _ = COk _ |- _ => apply IHe in H
  | H : Infer.check_stmts _ _ _ _ _ = COk _ |- _ => apply IHss in H
  | H : Infer.check_block _ _ _ _ _ = COk _ |- _ => apply IHb in H
  | H : Infer.check_fn _ _ _ _ _ = COk _ |- _ => apply IHf in H
  | H : mapM_st (Infer.check_expr _ _ _) _ _ = COk _ |- _ => apply (mapM_st_Rr _ IHe) in H
  | H : mapM_st (Infer.check_stmt _ _ _) _ _ = COk _ |- _ => apply (mapM_st_Rr _ IHs) in H
  | H : accs_loop _ _ _ _ _ _ = COk _ |- _ => apply (accs_loop_Rr _ _ IHe) in H
  | H : struct_lit_loop _ _ _ _ _ _ = COk _ |- _ => apply (struct_lit_loop_Rr _ _ _ IHe) in H
  end.

Ltac finRr := unfold Rb in *; cbn [snd fst st_typed with_env] in *; eauto 12.

Theorem check_typed_rel f : (f <= Bd)%nat ->
  (forall st e r, check_expr f D st e = COk r -> Rb st (snd r)) /\
  (forall st b r, check_stmts f D st b = COk r -> Rb st (snd r)) /\
  (forall st b r, check_block f D st b = COk r -> Rb st (snd r)) /\
  (forall st s r, check_stmt f D st s = COk r -> Rb st (snd r)) /\
  (forall st fd r, check_fn f D st fd = COk r -> Rb st (snd r)).
Proof.
  induction f as [|f IH]; intro HfB.
  { repeat split; intros; discriminate. }
  destruct (IH ltac:(lia)) as (IHe & IHss & IHb & IHs & IHf).
  split; [|split; [|split; [|split]]].
  - intros st e r H. destruct e; cbn [Infer.check_expr] in H; refold H.
    + inv_all; apply R_reflr.
    + inv_all; apply R_reflr.
    + inv_all; apply R_reflr.
    + inv_all; apply R_reflr.
    + destruct (env_get (st_env st) s) as [[? ?]|]; [inv_all; apply R_reflr|].
      destruct (assocL s (d_consts D)); inv_all; apply R_reflr.
    + inv_all. destruct (fst a) eqn:E; [discriminate|]. inv_all. use_Rr IHe IHss IHb IHs IHf. finRr.
    + inv_all. use_Rr IHe IHss IHb IHs IHf. finRr.
    + discriminate.
    + inv_all. use_Rr IHe IHss IHb IHs IHf. finRr.
    + inv_all. use_Rr IHe IHss IHb IHs IHf. finRr.
    + inv_all. destruct (nthN _ _); inv_all. use_Rr IHe IHss IHb IHs IHf. finRr.
    + inv_all. destruct (assocL _ (d_structs D)); [|discriminate]. destruct (assocL _ _); inv_all. use_Rr IHe IHss IHb IHs IHf. finRr.
    + destruct (assocL name (d_structs D)); [|discriminate]. inv_all. use_Rr IHe IHss IHb IHs IHf. finRr.
    + destruct (assocL e (d_enums D)) as [ed|]; [|discriminate]. destruct (assocL v ed) as [[?|]|]; try discriminate;
        destruct args; try discriminate; inv_all; use_Rr IHe IHss IHb IHs IHf; finRr.
    + (* match *)
      inv_all. destruct (ty_of (fst a)) eqn:Ety; try discriminate; inv_all;
      (destruct (fst a0) as [|[? ?] ?] eqn:E0; [discriminate|]; inv_all; cbn [snd];
       match goal with H1 : mapM_st _ _ _ = COk ?a0 |- Rb _ (snd ?a0) =>
         apply mapM_st_Rr in H1;
         [use_Rr IHe IHss IHb IHs IHf; finRr
         |intros st0 pc r0 H0; inv_all; use_Rr IHe IHss IHb IHs IHf; finRr] end).
    + destruct o; inv_all; use_Rr IHe IHss IHb IHs IHf; finRr.
    + inv_all. destruct o; inv_all;
        try (match goal with x : texpr * texpr * cty |- _ => destruct x as [[? ?] ?] end; inv_all);
        try (destruct (ty_of (fst a)); try discriminate; destruct (ty_of (fst a0)); try discriminate; inv_all);
        use_Rr IHe IHss IHb IHs IHf; finRr.
    + apply cbind_ok in H. destruct H as [[[body ty] st'] [H1 H]]. cbv beta iota in H. inv_all.
      use_Rr IHe IHss IHb IHs IHf. finRr.
    + (* call *)
      apply cbind_ok in H. destruct H as [st1 [H1 H]]. cbv beta in H.
      assert (Hst1 : Rb st st1).
      { destruct (negb _) in H1; [|inv_all; apply R_reflr].
        destruct (find _ (d_fns D)) eqn:Ef; [|inv_all; apply R_reflr].
        apply cbind_ok in H1. destruct H1 as [[fd1 st2] [H1 H2]]. cbv beta in H2. inv_all.
        pose proof H1 as H1c. apply IHf in H1. unfold Rb in *. cbn [snd fst st_typed] in *.
        intros k H0. eapply (I_ins f _ _ _ _ k ltac:(lia) H0 Ef H1c). cbn [snd]. auto. }
      clear H1.
      destruct (assocL f0 (st_typed st1)); [|discriminate].
      destruct (env_get (st_env st1) f0); [discriminate|]. inv_all. use_Rr IHe IHss IHb IHs IHf. finRr.
    + discriminate.
    + inv_all. destruct a3 as [[? ?] ?]. inv_all. use_Rr IHe IHss IHb IHs IHf. finRr.
    + inv_all. use_Rr IHe IHss IHb IHs IHf. finRr.
    + inv_all. apply R_reflr.
  - intros st b r H. cbn [Infer.check_stmts] in H. refold H. use_Rr IHe IHss IHb IHs IHf. exact H.
  - intros st b r H. cbn [Infer.check_block] in H. refold H. inv_all. use_Rr IHe IHss IHb IHs IHf. finRr.
  - intros st s r H. destruct s; cbn [Infer.check_stmt] in H; refold H.
    + inv_all. use_Rr IHe IHss IHb IHs IHf. finRr.
    + inv_all. use_Rr IHe IHss IHb IHs IHf. finRr.
    + destruct (env_get (st_env st) x) as [[t [|]]|]; try discriminate.
      apply cbind_ok in H. destruct H as [[[tas t'] st1] [H1 H]]. cbv beta iota in H. inv_all.
      use_Rr IHe IHss IHb IHs IHf. finRr.
    + inv_all. use_Rr IHe IHss IHb IHs IHf. finRr.
    + inv_all. use_Rr IHe IHss IHb IHs IHf. finRr.
  - intros st fd r H. cbn [Infer.check_fn] in H. refold H. inv_all.
    destruct a0 as [[body ?] st1]. inv_all. use_Rr IHe IHss IHb IHs IHf. finRr.
Qed.

End TypedRel.

(* ------------------------------------------------------------------ the signature of a typed function *)

(* the parameter list UntypedFnDef::type_check builds: a function of the definition alone *)
Fixpoint sig_params (D : defs) (ps : list uparam) : cres (list (bool * list N * cty)) :=
  match ps with
  | [] => COk []
  | p :: r => do ty <- concrete_of D (upa_ty p); do r' <- sig_params D r; COk ((upa_mut p, upa_name p, ty) :: r')
  end.

Lemma params_loop_sig D : forall ps seen g tps g',
  (fix go (seen : list (list N)) (ps : list uparam) (g : cenv)
     : cres (list (bool * list N * cty) * cenv) :=
     match ps with
     | [] => COk ([], g)
     | p :: r =>
         if memL (upa_name p) seen then CErr E_DuplicateFnParam else
         do ty <- concrete_of D (upa_ty p);
         do r2 <- go (upa_name p :: seen) r (env_let g (upa_name p) ty (upa_mut p));
         COk ((upa_mut p, upa_name p, ty) :: fst r2, snd r2)
     end) seen ps g = COk (tps, g') -> sig_params D ps = COk tps.
Proof.
  induction ps as [|p ps IH]; intros seen g tps g' H.
  - inversion H; reflexivity.
  - destruct (memL (upa_name p) seen); [discriminate|].
    apply cbind_ok in H. destruct H as [ty [Hty H]]. apply cbind_ok in H. destruct H as [[tps2 g2] [Hgo H]].
    cbn [fst snd] in H. inversion H; subst; clear H. cbn [sig_params]. rewrite Hty. cbn [cbind].
    rewrite (IH _ _ _ _ Hgo). reflexivity.
Qed.

Lemma check_fn_sig intern f D st fd tfd st' :
  check_fn intern f D st fd = COk (tfd, st') ->
  sig_params D (uf_params fd) = COk (tf_params tfd) /\ concrete_of D (uf_ty fd) = COk (tf_ty tfd) /\
  tf_name tfd = uf_name fd.
Proof.
  destruct f as [|f]; [discriminate|]. cbn [check_fn]. intro H.
  destruct (memL (uf_name fd) (st_checking st)); [discriminate|].
  apply cbind_ok in H. destruct H as [[tps g1] [Hps H]]. cbn [fst snd] in H.
  apply cbind_ok in H. destruct H as [[[body ty] st1] [Hblk H]]. cbv beta iota zeta in H.
  apply cbind_ok in H. destruct H as [ret_ty [Hret H]]. apply cbind_ok in H. destruct H as [body' [Hlast H]].
  inversion H; subst; clear H. cbn [tf_params tf_ty tf_name].
  split; [eapply params_loop_sig; exact Hps|]. split; [exact Hret|reflexivity].
Qed.

(* what every entry of `typed` satisfies: it has the static signature of the function of its name *)
Definition Qs (D : defs) (nd : list N * tfndef) : Prop :=
  exists ufd, find (fun d => list_eqb (uf_name d) (fst nd)) (d_fns D) = Some ufd /\
    sig_params D (uf_params ufd) = COk (tf_params (snd nd)) /\
    concrete_of D (uf_ty ufd) = COk (tf_ty (snd nd)) /\ tf_name (snd nd) = fst nd.

Lemma Qs_ins intern D f st ufd r id :
  find (fun d => list_eqb (uf_name d) id) (d_fns D) = Some ufd ->
  check_fn intern f D st ufd = COk r -> Qs D (id, fst r).
Proof.
  intros Hf Hc. destruct r as [tfd st']. destruct (check_fn_sig _ _ _ _ _ _ _ Hc) as [Hp [Hr Hn]].
  exists ufd. cbn [fst snd]. repeat split; try assumption.
  rewrite Hn. apply find_some in Hf. destruct Hf as [_ Hf]. apply list_eqb_eq in Hf. exact Hf.
Qed.

Theorem Qs_pres intern D f :
  (forall st e r, check_expr intern f D st e = COk r -> Forall (Qs D) (st_typed st) -> Forall (Qs D) (st_typed (snd r))) /\
  (forall st b r, check_stmts intern f D st b = COk r -> Forall (Qs D) (st_typed st) -> Forall (Qs D) (st_typed (snd r))) /\
  (forall st b r, check_block intern f D st b = COk r -> Forall (Qs D) (st_typed st) -> Forall (Qs D) (st_typed (snd r))) /\
  (forall st s r, check_stmt intern f D st s = COk r -> Forall (Qs D) (st_typed st) -> Forall (Qs D) (st_typed (snd r))) /\
  (forall st fd r, check_fn intern f D st fd = COk r -> Forall (Qs D) (st_typed st) -> Forall (Qs D) (st_typed (snd r))).
Proof.
  pose proof (check_typed_rel intern D unit (fun _ l => Forall (Qs D) l) f) as H.
  assert (Hins : forall f0 st ufd r id (k : unit), (f0 < f)%nat -> Forall (Qs D) (st_typed st) ->
            find (fun d => list_eqb (uf_name d) id) (d_fns D) = Some ufd ->
            check_fn intern f0 D st ufd = COk r -> Forall (Qs D) (st_typed (snd r)) ->
            Forall (Qs D) ((id, fst r) :: st_typed (snd r))).
  { intros f0 st ufd r id _ _ _ Hf Hc HQ. constructor; [eapply Qs_ins; eauto|exact HQ]. }
  destruct (H Hins f (le_n f)) as (H1 & H2 & H3 & H4 & H5). unfold Rb in *.
  repeat split; intros; [eapply (H1 _ _ _ H0 tt)|eapply (H2 _ _ _ H0 tt)|eapply (H3 _ _ _ H0 tt)
                        |eapply (H4 _ _ _ H0 tt)|eapply (H5 _ _ _ H0 tt)]; assumption.
Qed.
Section Sound.
Variable intern : list N -> N.
Hypothesis intern_inj : forall a b, intern a = intern b -> a = b.
Variable en : list (list N * list (list N * option (list cty))).
Variable P' : Ast.program.
Variable D : defs.
Variable gc : Wt.tenv.      (* the consts environment of the re-checker (Wt.consts_tenv P') *)
Notation xe := (export_expr intern en).
Notation xs := (export_stmt intern en).
Notation xa := (export_accessor intern en).
Notation xt := (export_ty intern).

Definition xparams (tps : list (bool * list N * cty)) : list (N * Ast.ty) :=
  map (fun p => (intern (snd (fst p)), xt (snd p))) tps.

(* every function of the program is in the fragment, and the re-checked program P' lists every
   function with its static signature *)
Hypothesis en_eq : id (en = d_enums D).
Definition xfields (def : list (list N * cty)) : list (N * Ast.ty) := map (fun ft => (intern (fst ft), xt (snd ft))) def.
Definition xvariants (vs : list (list N * option (list cty))) : list (list Ast.ty) :=
  map (fun v => match snd v with Some ts => map xt ts | None => [] end) vs.
(* P' lists the struct / enum definitions of D (interned); their component types are concrete *)
Hypothesis P_structs : forall name def, assocL name (d_structs D) = Some def ->
  Ast.assocN (intern name) (Ast.p_structs P') = Some (xfields def).
Hypothesis P_enums : forall name vs, assocL name (d_enums D) = Some vs ->
  Ast.assocN (intern name) (Ast.p_enums P') = Some (xvariants vs).
Hypothesis D_conc_s : forall name def f t, assocL name (d_structs D) = Some def -> assocL f def = Some t -> conc_ty t = true.
Hypothesis D_nodup_s : forall name def, assocL name (d_structs D) = Some def -> NoDup (map fst def).
Hypothesis D_conc_c : forall x t, assocL x (d_consts D) = Some t -> conc_ty t = true.
Hypothesis gc_consts : forall x t, assocL x (d_consts D) = Some t -> exists m', Wt.tlookup gc (intern x) = Some (xt t, m').
Hypothesis D_conc_e : forall name vs v ts, assocL name (d_enums D) = Some vs -> assocL v vs = Some (Some ts) -> forallb conc_ty ts = true.
Hypothesis D_frag : forall ufd, In ufd (d_fns D) -> frag_fn ufd = true.
Hypothesis P_sig : forall id ufd tps rty,
  find (fun d => list_eqb (uf_name d) id) (d_fns D) = Some ufd ->
  sig_params D (uf_params ufd) = COk tps -> concrete_of D (uf_ty ufd) = COk rty ->
  exists d, Ast.find_fn P' (intern id) = Some d /\ Ast.fn_params d = xparams tps /\ Ast.fn_ret d = xt rty.

Lemma e_ty_xe e : Ast.e_ty (xe e) = xt (ty_of e).
Proof. destruct e; reflexivity. Qed.

Lemma xt_refl t : Wt.ty_eqb (xt t) (xt t) = true.
Proof.
  induction t using cty_ind'; cbn [export_ty Wt.ty_eqb].
  - reflexivity.
  - rewrite N.eqb_refl. reflexivity.
  - rewrite N.eqb_refl. reflexivity.
  - rewrite IHt, N.eqb_refl. reflexivity.
  - induction H as [|x l Hx Hl IH]; cbn [map]; [reflexivity|]. rewrite Hx. exact IH.
  - apply N.eqb_refl.
  - apply N.eqb_refl.
Qed.

(* environments *)
Definition env_ok (g : cenv) : Prop := forall x t m, env_get g x = Some (t, m) -> conc_ty t = true.
Definition env_rel (g : cenv) (G : Wt.tenv) : Prop :=
  (forall x t m, env_get g x = Some (t, m) ->
     exists m', Wt.tlookup G (intern x) = Some (xt t, m') /\ (m = true -> m' = true)) /\
  (* a name that no scope binds is looked up among the consts *)
  (forall x t, env_get g x = None -> assocL x (d_consts D) = Some t ->
     exists m', Wt.tlookup G (intern x) = Some (xt t, m')).

Lemma env_get_let g x t m y :
  env_get (env_let g x t m) y = if list_eqb y x then Some (t, m) else env_get g y.
Proof. destruct g as [|s r]; cbn [env_let env_get assocL]; destruct (list_eqb y x); reflexivity. Qed.

Lemma tlookup_tbind G x t m y :
  Wt.tlookup (Wt.tbind G x t m) y = if y =? x then Some (t, m) else Wt.tlookup G y.
Proof. destruct G as [|s r]; cbn [Wt.tbind Wt.tlookup Ast.assocN]; destruct (y =? x); reflexivity. Qed.

Lemma env_rel_let_mut g G x t m m' : (m = true -> m' = true) ->
  env_rel g G -> env_rel (env_let g x t m) (Wt.tbind G (intern x) (xt t) m').
Proof.
  intros Hm [H1 H2]. split.
  - intros y t' m0 Hy. rewrite env_get_let in Hy. rewrite tlookup_tbind.
    destruct (list_eqb y x) eqn:E.
    + apply list_eqb_eq in E. subst y. rewrite N.eqb_refl. inversion Hy; subst. eauto.
    + destruct (N.eqb_spec (intern y) (intern x)) as [Heq|Hne]; [|apply H1; assumption].
      apply intern_inj in Heq. subst y. rewrite list_eqb_refl in E. discriminate.
  - intros y t' Hy Hc. rewrite env_get_let in Hy. rewrite tlookup_tbind.
    destruct (list_eqb y x) eqn:E; [discriminate|].
    destruct (N.eqb_spec (intern y) (intern x)) as [Heq|Hne]; [|apply H2; assumption].
    apply intern_inj in Heq. subst y. rewrite list_eqb_refl in E. discriminate.
Qed.

Lemma env_rel_let g G x t m : env_rel g G -> env_rel (env_let g x t m) (Wt.tbind G (intern x) (xt t) m).
Proof. apply env_rel_let_mut. auto. Qed.

Lemma env_ok_let g x t m : env_ok g -> conc_ty t = true -> env_ok (env_let g x t m).
Proof.
  intros H Ht y t' m' Hy. rewrite env_get_let in Hy. destruct (list_eqb y x); [inversion Hy; subst; assumption|eauto].
Qed.

Lemma env_rel_push g G : env_rel g G -> env_rel (env_push g) ([] :: G).
Proof.
  intros [H1 H2]. split.
  - intros x t m Hx. cbn in Hx. apply H1 in Hx. cbn [Wt.tlookup Ast.assocN]. exact Hx.
  - intros x t Hx Hc. cbn in Hx. cbn [Wt.tlookup Ast.assocN]. eauto.
Qed.

Lemma env_ok_push g : env_ok g -> env_ok (env_push g).
Proof. intros H x t m Hx. cbn in Hx. eauto. Qed.

(* literals *)
Lemma lit_u_fits n t : lit_u_ok n t = true -> Wt.lit_fits (Ast.TInt false (ubits t)) (Z.of_N n) = true.
Proof.
  unfold lit_u_ok, Wt.lit_fits. destruct t; cbn [unsigned_max ubits]; intro H; try discriminate;
    apply N.leb_le in H; apply andb_true_iff; (split; [apply Z.leb_le; lia|apply Z.ltb_lt]).
  - change (2 ^ Z.of_N 32)%Z with 4294967296%Z. unfold u32_max in H. lia.
  - change (2 ^ Z.of_N 8)%Z with 256%Z. lia.
  - change (2 ^ Z.of_N 16)%Z with 65536%Z. lia.
  - change (2 ^ Z.of_N 32)%Z with 4294967296%Z. unfold u32_max in H. lia.
  - change (2 ^ Z.of_N 64)%Z with 18446744073709551616%Z. lia.
Qed.

Lemma lit_s_fits z t : lit_s_ok z t = true -> Wt.lit_fits (Ast.TInt true (sbits t)) z = true.
Proof.
  unfold lit_s_ok, Wt.lit_fits. destruct t; cbn [signed_min signed_max sbits]; intro H; try discriminate;
    apply andb_true_iff in H; destruct H as [H1 H2]; apply Z.leb_le in H1; apply Z.leb_le in H2;
    apply andb_true_iff.
  - change (2 ^ (Z.of_N 8 - 1))%Z with 128%Z. split; [apply Z.leb_le|apply Z.ltb_lt]; lia.
  - change (2 ^ (Z.of_N 16 - 1))%Z with 32768%Z. split; [apply Z.leb_le|apply Z.ltb_lt]; lia.
  - change (2 ^ (Z.of_N 32 - 1))%Z with 2147483648%Z. split; [apply Z.leb_le|apply Z.ltb_lt]; lia.
  - change (2 ^ (Z.of_N 64 - 1))%Z with 9223372036854775808%Z. split; [apply Z.leb_le|apply Z.ltb_lt]; lia.
Qed.

Lemma lit_u_conc n t : lit_u_ok n t = true -> conc_ty (CUnsigned t) = true.
Proof. destruct t; cbn; auto. Qed.
Lemma lit_s_conc z t : lit_s_ok z t = true -> conc_ty (CSigned t) = true.
Proof. destruct t; cbn; auto. Qed.

(* type classes *)
Lemma expect_num_x t u : expect_num_type t = COk u -> Wt.is_int (xt t) = true.
Proof. destruct t; try discriminate; reflexivity. Qed.
Lemma expect_signed_x t u : expect_signed_num_type t = COk u -> Wt.is_signed_int (xt t) = true.
Proof. destruct t; try discriminate; reflexivity. Qed.
Lemma expect_bool_or_num_x t u : expect_bool_or_num_type t = COk u -> Wt.is_bool (xt t) || Wt.is_int (xt t) = true.
Proof. destruct t; try discriminate; reflexivity. Qed.

Lemma nthN_map {A B} (g : A -> B) l i : nthN (map g l) i = option_map g (nthN l i).
Proof. rewrite !nthN_spec. apply nth_error_map. Qed.

Lemma conc_nth ts i t : forallb conc_ty ts = true -> nthN ts i = Some t -> conc_ty t = true.
Proof.
  rewrite nthN_spec. intros H Hn. apply nth_error_In in Hn. rewrite forallb_forall in H. auto.
Qed.


Notation xp := (export_pattern intern en).

Ltac refold H :=
  fold (Infer.check_expr intern) (Infer.check_stmts intern) (Infer.check_block intern)
       (Infer.check_fn intern) (Infer.check_stmt intern) in H.

(* ------------------------------------------------------------------ unfolding lemmas *)

Lemma xe_block b t : xe (TE (TBlock b) t) = Ast.Ex (Ast.EBlock (map xs b)) m0 (xt t).
Proof. reflexivity. Qed.
Lemma xs_let p e : xs (TSLet p e) = Ast.St (Ast.SLet (xp p) (xe e)) m0.
Proof. reflexivity. Qed.
Lemma xs_letmut x e : xs (TSLetMut x e) = Ast.St (Ast.SLetMut (intern x) (xe e)) m0.
Proof. reflexivity. Qed.
Lemma xs_expr e : xs (TSExpr e) = Ast.St (Ast.SExpr (xe e)) m0.
Proof. reflexivity. Qed.
Lemma xs_assign x accs e : xs (TSVarAssign x accs e) = Ast.St (Ast.SAssign (intern x) (map xa accs) (xe e)) m0.
Proof. reflexivity. Qed.
Lemma xs_for p e body : xs (TSForEach p e body) = Ast.St (Ast.SFor (xp p) (xe e) (map xs body)) m0.
Proof. reflexivity. Qed.
Lemma xa_arr t i : xa (TAArray t i) = Ast.AIdx (xt t) (xe i).
Proof. reflexivity. Qed.
Lemma xa_tup t i : xa (TATuple t i) = Ast.ATup (xt t) i.
Proof. reflexivity. Qed.
Lemma xa_fld t fld : xa (TAStruct t fld) = Ast.AFld (xt t) (intern fld).
Proof. reflexivity. Qed.
Lemma xp_id s t : xp (TP (TPIdentifier s) t) = Ast.Pat (Ast.PId (intern s)) m0 (xt t).
Proof. reflexivity. Qed.
Lemma xp_tup ps t : xp (TP (TPTuple ps) t) = Ast.Pat (Ast.PTup (map xp ps)) m0 (xt t).
Proof. reflexivity. Qed.

Lemma wt_expr_block f G b t : Wt.wt_expr (S f) P' G (Ast.Ex (Ast.EBlock b) (m0) t) =
  match Wt.wt_block f P' ([] :: G) b with Some tb => Wt.ty_eqb tb t | None => false end.
Proof. reflexivity. Qed.
Lemma wt_stmt_let f G p e : Wt.wt_stmt (S f) P' G (Ast.St (Ast.SLet p e) m0) =
  if Wt.wt_expr f P' G e && Wt.ty_eqb (Ast.p_ty p) (Ast.e_ty e)
  then match Wt.wt_pat P' p with Some bs => Some (Wt.tbind_all G bs false, Wt.unit_ty) | None => None end
  else None.
Proof. reflexivity. Qed.
Lemma wt_stmt_letmut f G x e : Wt.wt_stmt (S f) P' G (Ast.St (Ast.SLetMut x e) m0) =
  if Wt.wt_expr f P' G e then Some (Wt.tbind G x (Ast.e_ty e) true, Wt.unit_ty) else None.
Proof. reflexivity. Qed.
Lemma wt_stmt_expr f G e : Wt.wt_stmt (S f) P' G (Ast.St (Ast.SExpr e) m0) =
  if Wt.wt_expr f P' G e then Some (G, Ast.e_ty e) else None.
Proof. reflexivity. Qed.
Lemma wt_stmt_for f G p arr body : Wt.wt_stmt (S f) P' G (Ast.St (Ast.SFor p arr body) m0) =
  match Ast.e_ty arr with
  | Ast.TArr el _ =>
      if Wt.wt_expr f P' G arr && Wt.ty_eqb (Ast.p_ty p) el then
        match Wt.wt_pat P' p with
        | Some bs =>
            match Wt.wt_block f P' (Wt.tbind_all ([] :: G) bs false) body with
            | Some _ => Some (G, Wt.unit_ty)
            | None => None
            end
        | None => None
        end
      else None
  | _ => None
  end.
Proof. reflexivity. Qed.

(* the accessor loop of Wt.wt_stmt (SAssign) *)
Definition ago (f : nat) (G : Wt.tenv) :=
  fix go (accs : list Ast.accessor) (cur : Ast.ty) : option Ast.ty :=
    match accs with
    | [] => Some cur
    | Ast.AIdx aty i :: r =>
        match cur with
        | Ast.TArr el _ =>
            if Wt.ty_eqb aty cur && Wt.is_unsigned (Ast.e_ty i) && Wt.wt_expr f P' G i then go r el else None
        | _ => None
        end
    | Ast.ATup tty i :: r =>
        match cur with
        | Ast.TTup ts =>
            if Wt.ty_eqb tty cur then
              match nthN ts i with Some ti => go r ti | None => None end
            else None
        | _ => None
        end
    | Ast.AFld sty fld :: r =>
        match cur with
        | Ast.TStruct name =>
            if Wt.ty_eqb sty cur then
              match Ast.assocN name (Ast.p_structs P') with
              | Some def => match Ast.assocN fld def with Some ft => go r ft | None => None end
              | None => None
              end
            else None
        | _ => None
        end
    end.
Lemma wt_stmt_assign f G x accs e : Wt.wt_stmt (S f) P' G (Ast.St (Ast.SAssign x accs e) m0) =
  match Wt.tlookup G x with
  | Some (tx, true) =>
      match ago f G accs tx with
      | Some tf => if Wt.ty_eqb tf (Ast.e_ty e) && Wt.wt_expr f P' G e then Some (G, Wt.unit_ty) else None
      | None => None
      end
  | _ => None
  end.
Proof. reflexivity. Qed.

(* the field loop of Wt.wt_pat (PTup) *)
Definition wlist :=
  fix go (ps : list Ast.pattern) (ts : list Ast.ty) : option (list (N * Ast.ty)) :=
    match ps, ts with
    | [], [] => Some []
    | p :: pr, t :: tr =>
        if negb (Wt.ty_eqb (Ast.p_ty p) t) then None else
        match Wt.wt_pat P' p, go pr tr with
        | Some a, Some b => Some (a ++ b)
        | _, _ => None
        end
    | _, _ => None
    end.
Lemma wt_pat_tup ps m ts : Wt.wt_pat P' (Ast.Pat (Ast.PTup ps) m (Ast.TTup ts)) = wlist ps ts.
Proof. reflexivity. Qed.

Lemma tbind_all_app G a b m : Wt.tbind_all G (a ++ b) m = Wt.tbind_all (Wt.tbind_all G a m) b m.
Proof. unfold Wt.tbind_all. apply fold_left_app. Qed.


Lemma index_of_shift {A} (k : list N) (l : list (list N * A)) : forall i, index_of k l i = i + index_of k l 0.
Proof.
  induction l as [|[k' v] l IH]; intro i; cbn [index_of]; [lia|].
  destruct (list_eqb k k'); [lia|]. rewrite (IH (i + 1)), (IH (0 + 1)). lia.
Qed.

Lemma index_of_nth {A B} (g : list N * A -> B) (k : list N) : forall (l : list (list N * A)) p,
  assocL k l = Some p -> exists k', nthN (map g l) (index_of k l 0) = Some (g (k', p)).
Proof.
  induction l as [|[k' v] l IH]; intros p H; [discriminate|]. cbn [assocL index_of] in *.
  destruct (list_eqb k k').
  - inversion H; subst. exists k'. reflexivity.
  - destruct (IH _ H) as [k2 Hk2]. exists k2. rewrite index_of_shift. rewrite nthN_spec in *.
    cbn [map]. replace (N.to_nat (0 + 1 + index_of k l 0)) with (S (N.to_nat (index_of k l 0))) by lia. exact Hk2.
Qed.

Lemma variant_nth e v ed p : assocL e (d_enums D) = Some ed -> assocL v ed = Some p ->
  nthN (xvariants ed) (variant_index en e v) = Some (match p with Some ts => map xt ts | None => [] end).
Proof.
  intros He Hv. assert (Hen : assocL e en = Some ed) by (pose proof en_eq as Hq; unfold id in Hq; rewrite Hq; exact He).
  unfold variant_index. rewrite Hen.
  destruct (index_of_nth (fun v0 : list N * option (list cty) => match snd v0 with Some ts => map xt ts | None => [] end) _ _ _ Hv) as [k' Hn].
  unfold xvariants. rewrite Hn. reflexivity.
Qed.

Lemma pat_range_fits z ty u1 u2 : expect_num_type ty = COk u1 -> expect_pattern_num_in_range z ty = COk u2 ->
  Wt.lit_fits (xt ty) z = true.
Proof.
  intros H1 H2. destruct ty as [|u|s| | | |]; try discriminate H1; cbn [expect_pattern_num_in_range] in H2.
  - match type of H2 with (if ?c then _ else _) = _ => destruct c eqn:Ec; [discriminate|] end.
    apply orb_false_iff in Ec. destruct Ec as [E1 E2]. apply Z.ltb_ge in E1. apply Z.ltb_ge in E2.
    unfold Wt.lit_fits. cbn [export_ty]. apply andb_true_iff. split; [apply Z.leb_le; lia|apply Z.ltb_lt].
    destruct u; cbn [unsigned_max ubits] in *; unfold u32_max in *.
    + change (2 ^ Z.of_N 32)%Z with 4294967296%Z. lia.
    + change (2 ^ Z.of_N 8)%Z with 256%Z. lia.
    + change (2 ^ Z.of_N 16)%Z with 65536%Z. lia.
    + change (2 ^ Z.of_N 32)%Z with 4294967296%Z. lia.
    + change (2 ^ Z.of_N 64)%Z with 18446744073709551616%Z. lia.
    + change (2 ^ Z.of_N 32)%Z with 4294967296%Z. lia.
  - match type of H2 with (if ?c then _ else _) = _ => destruct c eqn:Ec; [discriminate|] end.
    apply orb_false_iff in Ec. destruct Ec as [E1 E2]. apply Z.ltb_ge in E1. apply Z.ltb_ge in E2.
    unfold Wt.lit_fits. cbn [export_ty]. apply andb_true_iff.
    destruct s; cbn [signed_min signed_max sbits] in *.
    + change (2 ^ (Z.of_N 8 - 1))%Z with 128%Z. split; [apply Z.leb_le|apply Z.ltb_lt]; lia.
    + change (2 ^ (Z.of_N 16 - 1))%Z with 32768%Z. split; [apply Z.leb_le|apply Z.ltb_lt]; lia.
    + change (2 ^ (Z.of_N 32 - 1))%Z with 2147483648%Z. split; [apply Z.leb_le|apply Z.ltb_lt]; lia.
    + change (2 ^ (Z.of_N 64 - 1))%Z with 9223372036854775808%Z. split; [apply Z.leb_le|apply Z.ltb_lt]; lia.
    + change (2 ^ (Z.of_N 32 - 1))%Z with 2147483648%Z. split; [apply Z.leb_le|apply Z.ltb_lt]; lia.
Qed.

(* ------------------------------------------------------------------ patterns *)

Definition pat_ok (p : upattern) : Prop := forall g ty p' g',
  frag_p p = true -> check_pattern D g p ty = COk (p', g') ->
  Ast.p_ty (xp p') = xt ty /\
  exists bs, Wt.wt_pat P' (xp p') = Some bs /\
    (forall G, env_rel g G -> env_rel g' (Wt.tbind_all G bs false)) /\
    (conc_ty ty = true -> env_ok g -> env_ok g').

Lemma fields_loop_ok fs : Forall pat_ok fs -> forallb frag_p fs = true ->
  forall ts g ps' g', length fs = length ts ->
    (fix go (fs : list upattern) (ts : list cty) (g : cenv) : cres (list tpattern * cenv) :=
       match fs, ts with
       | fp :: fr, t :: tr =>
           do r1 <- check_pattern D g fp t; do r2 <- go fr tr (snd r1); COk (fst r1 :: fst r2, snd r2)
       | _, _ => COk ([], g)
       end) fs ts g = COk (ps', g') ->
  exists bs, wlist (map xp ps') (map xt ts) = Some bs /\
    (forall G, env_rel g G -> env_rel g' (Wt.tbind_all G bs false)) /\
    (forallb conc_ty ts = true -> env_ok g -> env_ok g').
Proof.
  induction 1 as [|q fs Hq Hfs IH]; intros Hf ts g ps' g' Hlen H.
  - destruct ts; [|discriminate]. inv_all. exists []. cbn. auto.
  - destruct ts as [|t ts]; [discriminate|]. cbn [forallb] in Hf. apply andb_true_iff in Hf. destruct Hf as [Hf1 Hf2].
    apply cbind_ok in H. destruct H as [[p1 g1] [H1 H]]. apply cbind_ok in H. destruct H as [[ps2 g2] [H2 H]].
    cbn [fst snd] in *. inv_all.
    destruct (Hq _ _ _ _ Hf1 H1) as [Hty [bs1 [Hw1 [Hr1 Ho1]]]].
    destruct (IH Hf2 ts g1 ps2 g' ltac:(cbn in Hlen; lia) H2) as [bs2 [Hw2 [Hr2 Ho2]]].
    exists (bs1 ++ bs2). cbn [map wlist]. fold wlist. rewrite Hty, xt_refl, Hw1, Hw2. cbn [negb].
    split; [reflexivity|]. split.
    + intros G HG. rewrite tbind_all_app. auto.
    + cbn [forallb]. intros Hc Hok. apply andb_true_iff in Hc. destruct Hc. auto.
Qed.

Lemma xp_struct n fs t : xp (TP (TPStruct n fs) t) =
  Ast.Pat (Ast.PStruct (intern n) false (map (fun f => (intern (fst f), xp (snd f))) fs)) m0 (xt t).
Proof. reflexivity. Qed.

(* the field loop of Wt.wt_pat (PStruct) *)
Definition wsfields (def : list (N * Ast.ty)) :=
  fix go (fs : list (N * Ast.pattern)) : option (list (N * Ast.ty)) :=
    match fs with
    | [] => Some []
    | (f, fp) :: r =>
        match Ast.assocN f def with
        | Some ft =>
            if negb (Wt.ty_eqb (Ast.p_ty fp) ft) then None else
            match Wt.wt_pat P' fp, go r with
            | Some a, Some b => Some (a ++ b)
            | _, _ => None
            end
        | None => None
        end
    end.
Lemma wt_pat_struct name rest fields m n2 def :
  Ast.assocN name (Ast.p_structs P') = Some def ->
  Wt.wt_pat P' (Ast.Pat (Ast.PStruct name rest fields) m (Ast.TStruct n2)) =
  if negb (name =? n2) then None else wsfields def fields.
Proof. intro H. cbn [Wt.wt_pat]. rewrite H. reflexivity. Qed.

Lemma intern_eqb a b : (intern a =? intern b) = list_eqb a b.
Proof.
  destruct (list_eqb a b) eqn:E.
  - apply list_eqb_eq in E. subst. apply N.eqb_refl.
  - apply N.eqb_neq. intro H. apply intern_inj in H. subst. rewrite list_eqb_refl in E. discriminate.
Qed.

Lemma assocN_map_intern {A B} (g : A -> B) k (l : list (list N * A)) :
  Ast.assocN (intern k) (map (fun x => (intern (fst x), g (snd x))) l) = option_map g (assocL k l).
Proof.
  induction l as [|[k0 v] l IH]; [reflexivity|]. cbn [map fst snd Ast.assocN assocL]. rewrite intern_eqb.
  destruct (list_eqb k k0); [reflexivity|exact IH].
Qed.

Lemma struct_loop_ok sd fs : Forall (fun f : list N * upattern => pat_ok (snd f)) fs ->
  forallb (fun f : list N * upattern => frag_p (snd f)) fs = true ->
  (forall f t, assocL f sd = Some t -> conc_ty t = true) ->
  forall seen g r g',
    (fix go (seen : list (list N)) (fs : list (list N * upattern)) (g : cenv)
       : cres (list (list N * tpattern) * cenv) :=
       match fs with
       | [] => COk ([], g)
       | (field_name, field_value) :: fr =>
           if memL field_name seen then CErr E_PatternDoesNotMatchType else
           match assocL field_name sd with
           | Some field_type =>
               do r1 <- check_pattern D g field_value field_type;
               do r2 <- go (field_name :: seen) fr (snd r1);
               COk ((field_name, fst r1) :: fst r2, snd r2)
           | None => CErr E_UnknownStructField
           end
       end) seen fs g = COk (r, g') ->
  exists bs, wsfields (xfields sd) (map (fun f : list N * tpattern => (intern (fst f), xp (snd f))) r) = Some bs /\
    (forall G, env_rel g G -> env_rel g' (Wt.tbind_all G bs false)) /\ (env_ok g -> env_ok g').
Proof.
  induction 1 as [|[fname fp] fs Hq Hfs IH]; intros Hf Hcs seen g r g' H.
  - inversion H; subst. exists []. cbn. auto.
  - cbn [forallb snd] in Hf. apply andb_true_iff in Hf. destruct Hf as [Hf1 Hf2].
    destruct (memL fname seen); [discriminate|]. destruct (assocL fname sd) as [ft|] eqn:Ea; [|discriminate].
    apply cbind_ok in H. destruct H as [[p1 g1] [H1 H]]. apply cbind_ok in H. destruct H as [[r2 g2] [H2 H]].
    cbn [fst snd] in *. inversion H; subst; clear H.
    destruct (Hq _ _ _ _ Hf1 H1) as [Hty [bs1 [Hw1 [Hr1 Ho1]]]].
    destruct (IH Hf2 Hcs _ _ _ _ H2) as [bs2 [Hw2 [Hr2 Ho2]]].
    exists (bs1 ++ bs2). cbn [map wsfields fst snd]. fold (wsfields (xfields sd)).
    unfold xfields at 1. rewrite assocN_map_intern, Ea. cbn [option_map]. rewrite Hty, xt_refl, Hw1, Hw2. cbn [negb].
    split; [reflexivity|]. split.
    + intros G HG. rewrite tbind_all_app. auto.
    + intro Hok. apply Ho2. apply Ho1; [eapply Hcs; exact Ea|exact Hok].
Qed.

Lemma pat_sound : forall p, pat_ok p.
Proof.
  induction p using upattern_ind'; intros g ty p' g' Hf HH; try discriminate Hf; cbn [check_pattern] in HH.
  - (* identifier *) inv_all. rewrite xp_id. cbn [Ast.p_ty Wt.wt_pat]. split; [reflexivity|].
    exists [(intern s, xt ty)]. split; [reflexivity|]. split.
    + intros G HG. cbn. apply env_rel_let. exact HG.
    + intros Hc Hok. apply env_ok_let; assumption.
  - (* true *) destruct ty; try discriminate HH. inversion HH; subst. split; [reflexivity|]. exists []. cbn. auto.
  - (* false *) destruct ty; try discriminate HH. inversion HH; subst. split; [reflexivity|]. exists []. cbn. auto.
  - (* unsigned number *)
    apply cbind_ok in HH. destruct HH as [u1 [H1 HH]]. apply cbind_ok in HH. destruct HH as [u2 [H2 HH]]. inversion HH; subst.
    split; [reflexivity|]. exists []. cbn [export_pattern Wt.wt_pat]. rewrite (pat_range_fits _ _ _ _ H1 H2). cbn. auto.
  - (* signed number *)
    apply cbind_ok in HH. destruct HH as [u1 [H1 HH]]. apply cbind_ok in HH. destruct HH as [u2 [H2 HH]]. inversion HH; subst.
    assert (H1' : expect_num_type ty = COk tt) by (destruct ty; try discriminate H1; reflexivity).
    split; [reflexivity|]. exists []. cbn [export_pattern Wt.wt_pat]. rewrite (pat_range_fits _ _ _ _ H1' H2). cbn. auto.
  - (* tuple *)
    cbn [frag_p] in Hf. apply cbind_ok in HH. destruct HH as [fts [Ht HH]].
    destruct ty; try discriminate Ht. cbn [expect_tuple_type] in Ht. inv_all.
    match goal with Hl : negb (lenN _ =? lenN _) = false |- _ =>
      apply negb_false_iff in Hl; apply N.eqb_eq in Hl; unfold lenN in Hl; apply Nat2N.inj in Hl end.
    match goal with Hl : _ = COk a |- _ =>
      destruct a as [ps2 g2]; destruct (fields_loop_ok ps H Hf fts g ps2 g2 ltac:(lia) Hl) as [bs [Hw [Hr Ho]]] end.
    cbn [fst snd]. rewrite xp_tup. cbn [Ast.p_ty export_ty]. split; [reflexivity|].
    exists bs. rewrite wt_pat_tup. split; [exact Hw|]. split; [exact Hr|]. exact Ho.
  - (* struct *)
    cbn [frag_p] in Hf. apply cbind_ok in HH. destruct HH as [sname [Hsn HH]].
    destruct ty as [| | | | |sn0|]; try discriminate Hsn. cbn in Hsn. assert (sn0 = sname) by congruence. subst sn0. clear Hsn.
    destruct (negb (list_eqb sname n)) eqn:Ene; [discriminate|]. apply negb_false_iff in Ene. apply list_eqb_eq in Ene. subst sname.
    destruct (assocL n (d_structs D)) as [sd|] eqn:Esd; [|discriminate].
    apply cbind_ok in HH. destruct HH as [[r g2] [Hl HH]]. cbn [fst snd] in HH.
    match type of HH with (if ?c then _ else _) = _ => destruct c; [discriminate|] end. inversion HH; subst; clear HH.
    destruct (struct_loop_ok sd fs H Hf (fun f0 t0 Hft => D_conc_s _ _ _ _ Esd Hft) _ _ _ _ Hl) as [bs [Hw [Hr Ho]]].
    rewrite xp_struct. cbn [Ast.p_ty export_ty]. split; [reflexivity|]. exists bs.
    rewrite (wt_pat_struct _ _ _ _ _ _ (P_structs _ _ Esd)), N.eqb_refl. cbn [negb].
    split; [exact Hw|]. split; [exact Hr|]. intros _. exact Ho.
  - (* struct, `..` *)
    cbn [frag_p] in Hf. apply cbind_ok in HH. destruct HH as [sname [Hsn HH]].
    destruct ty as [| | | | |sn0|]; try discriminate Hsn. cbn in Hsn. assert (sn0 = sname) by congruence. subst sn0. clear Hsn.
    destruct (negb (list_eqb sname n)) eqn:Ene; [discriminate|]. apply negb_false_iff in Ene. apply list_eqb_eq in Ene. subst sname.
    destruct (assocL n (d_structs D)) as [sd|] eqn:Esd; [|discriminate].
    apply cbind_ok in HH. destruct HH as [[r g2] [Hl HH]]. cbn [fst snd] in HH.
    match type of HH with (if ?c then _ else _) = _ => destruct c; [discriminate|] end. inversion HH; subst; clear HH.
    destruct (struct_loop_ok sd fs H Hf (fun f0 t0 Hft => D_conc_s _ _ _ _ Esd Hft) _ _ _ _ Hl) as [bs [Hw [Hr Ho]]].
    rewrite xp_struct. cbn [Ast.p_ty export_ty]. split; [reflexivity|]. exists bs.
    rewrite (wt_pat_struct _ _ _ _ _ _ (P_structs _ _ Esd)), N.eqb_refl. cbn [negb].
    split; [exact Hw|]. split; [exact Hr|]. intros _. exact Ho.
  - (* enum unit *)
    destruct ty as [| | | | | |en0]; try discriminate HH.
    destruct (negb (list_eqb en0 e)) eqn:Ene; [discriminate|]. apply negb_false_iff in Ene. apply list_eqb_eq in Ene. subst en0.
    destruct (assocL e (d_enums D)) as [ed|] eqn:Eed; [|discriminate].
    destruct (assocL v ed) as [[pts|]|] eqn:Ev; try discriminate HH. inversion HH; subst.
    split; [reflexivity|]. exists []. cbn [export_pattern Wt.wt_pat export_ty].
    rewrite (P_enums _ _ Eed), N.eqb_refl. cbn [negb]. rewrite (variant_nth _ _ _ _ Eed Ev). cbn. auto.
  - (* enum tuple *)
    cbn [frag_p] in Hf. destruct ty as [| | | | | |en0]; try discriminate HH.
    destruct (negb (list_eqb en0 e)) eqn:Ene; [discriminate|]. apply negb_false_iff in Ene. apply list_eqb_eq in Ene. subst en0.
    destruct (assocL e (d_enums D)) as [ed|] eqn:Eed; [|discriminate].
    destruct (assocL v ed) as [[pts|]|] eqn:Ev; try discriminate HH.
    destruct (negb (lenN pts =? lenN ps)) eqn:El; [discriminate|].
    apply negb_false_iff in El. apply N.eqb_eq in El. unfold lenN in El. apply Nat2N.inj in El.
    apply cbind_ok in HH. destruct HH as [[ps2 g2] [Hl HH]]. cbn [fst snd] in HH. inversion HH; subst.
    destruct (fields_loop_ok ps H Hf pts g ps2 g' ltac:(lia) Hl) as [bs [Hw [Hr Ho]]].
    split; [reflexivity|]. exists bs. cbn [export_pattern Wt.wt_pat export_ty].
    rewrite (P_enums _ _ Eed), N.eqb_refl. cbn [negb]. rewrite (variant_nth _ _ _ _ Eed Ev).
    split; [exact Hw|]. split; [exact Hr|]. intros _ Hok. apply Ho; [|exact Hok]. eapply D_conc_e; eauto.
  - (* unsigned range *)
    apply cbind_ok in HH. destruct HH as [u1 [H1 HH]]. apply cbind_ok in HH. destruct HH as [u2 [H2 HH]].
    apply cbind_ok in HH. destruct HH as [u3 [H3 HH]]. inversion HH; subst.
    split; [reflexivity|]. exists []. cbn [export_pattern Wt.wt_pat].
    rewrite (pat_range_fits _ _ _ _ H1 H2), (pat_range_fits _ _ _ _ H1 H3). cbn. auto.
  - (* signed range *)
    apply cbind_ok in HH. destruct HH as [u1 [H1 HH]]. apply cbind_ok in HH. destruct HH as [u2 [H2 HH]].
    apply cbind_ok in HH. destruct HH as [u3 [H3 HH]]. inversion HH; subst.
    assert (H1' : expect_num_type ty = COk tt) by (destruct ty; try discriminate H1; reflexivity).
    split; [reflexivity|]. exists []. cbn [export_pattern Wt.wt_pat].
    rewrite (pat_range_fits _ _ _ _ H1' H2), (pat_range_fits _ _ _ _ H1' H3). cbn. auto.
Qed.



(* ------------------------------------------------------------------ the statement loop of Wt.wt_block *)

Definition wgo (f : nat) :=
  fix go (ss : list Ast.stmt) (g : Wt.tenv) (last : Ast.ty) : option Ast.ty :=
    match ss with
    | [] => Some last
    | s :: r => match Wt.wt_stmt f P' g s with Some (g', t) => go r g' t | None => None end
    end.
Lemma wt_block_S f G b : Wt.wt_block (S f) P' G b = wgo f b G Wt.unit_ty.
Proof. reflexivity. Qed.

Definition sty (s : tstmt) : Ast.ty := match s with TSExpr e => xt (ty_of e) | _ => Wt.unit_ty end.

(* what the checker state must satisfy *)
Definition good (st : cstate) : Prop := env_ok (st_env st) /\ Forall (Qs D) (st_typed st).

Lemma good_with_env st g : good st -> env_ok g -> good (with_env st g).
Proof. intros [_ H] Hg. split; [exact Hg|exact H]. Qed.

Definition E (f : nat) : Prop := forall e st e' st' G F,
  frag_e e = true -> check_expr intern f D st e = COk (e', st') ->
  good st -> env_rel (st_env st) G -> (f <= F)%nat ->
  conc_e e' = true /\ Wt.wt_expr F P' G (xe e') = true.

Definition St (f : nat) : Prop := forall s st s' st' G F,
  frag_s s = true -> check_stmt intern f D st s = COk (s', st') ->
  good st -> env_rel (st_env st) G -> (f <= F)%nat ->
  conc_s s' = true /\ exists G', Wt.wt_stmt F P' G (xs s') = Some (G', sty s') /\
                                 good st' /\ env_rel (st_env st') G'.

Definition Bl (f : nat) : Prop := forall b st b' ty st' G F,
  forallb frag_s b = true -> check_block intern f D st b = COk (b', ty, st') ->
  good st -> env_rel (st_env st) G -> (f <= F)%nat ->
  forallb conc_s b' = true /\ Wt.wt_block F P' G (map xs b') = Some (xt ty).

Definition Ss (f : nat) : Prop := forall b st b' st' G F,
  forallb frag_s b = true -> check_stmts intern f D st b = COk (b', st') ->
  good st -> env_rel (st_env st) G -> (f <= F)%nat ->
  forallb conc_s b' = true /\ exists t, Wt.wt_block F P' G (map xs b') = Some t.

Lemma good_e f st e r : check_expr intern f D st e = COk r -> good st -> good (snd r).
Proof.
  intros H [Hg1 Hg2]. split; [rewrite (proj1 (check_env intern f D) _ _ _ H); exact Hg1|].
  exact (proj1 (Qs_pres intern D f) _ _ _ H Hg2).
Qed.

Lemma fold_sty_last : forall b l,
  fold_left (fun _ s => sty s) b l = match last (map Some b) None with Some s => sty s | None => l end.
Proof.
  assert (Hne : forall (r : list tstmt) t, last (map Some (t :: r)) None <> None).
  { induction r as [|u r IHr]; intro t; [discriminate|]. specialize (IHr u). cbn [map last] in *. exact IHr. }
  induction b as [|s r IH]; intro l; [reflexivity|]. cbn [fold_left]. rewrite IH.
  destruct r as [|t r]; [reflexivity|].
  change (last (map Some (s :: t :: r)) None) with (last (map Some (t :: r)) None).
  destruct (last (map Some (t :: r)) None) eqn:El; [reflexivity|]. exfalso. exact (Hne _ _ El).
Qed.

Lemma last_expr_ty_x b : xt (last_expr_ty b) = fold_left (fun _ s => sty s) b Wt.unit_ty.
Proof.
  rewrite fold_sty_last. unfold last_expr_ty. destruct (last (map Some b) None) as [[]|]; reflexivity.
Qed.

Lemma last_expr_ty_conc b : forallb conc_s b = true -> conc_ty (last_expr_ty b) = true.
Proof.
  unfold last_expr_ty. intro H.
  assert (Hl : forall s, last (map Some b) None = Some s -> conc_s s = true).
  { intros s Hs. rewrite forallb_forall in H. apply H. clear H.
    induction b as [|u r IH]; [discriminate|]. destruct r as [|v r]; [inversion Hs; left; reflexivity|].
    right. apply IH. exact Hs. }
  destruct (last (map Some b) None) as [[]|] eqn:El; try reflexivity.
  apply conc_e_ty. apply (Hl _ eq_refl).
Qed.

Lemma stmts_sound f F : St f -> (f <= F)%nat -> forall b st b' st' G l,
  forallb frag_s b = true -> mapM_st (check_stmt intern f D) st b = COk (b', st') ->
  good st -> env_rel (st_env st) G ->
  forallb conc_s b' = true /\ wgo F (map xs b') G l = Some (fold_left (fun _ s => sty s) b' l).
Proof.
  intros HS HF. induction b as [|s b IH]; intros st b' st' G l Hf H Hok Hrel; cbn [mapM_st] in H; inv_all'.
  - split; reflexivity.
  - cbn [forallb] in Hf. apply andb_true_iff in Hf. destruct Hf as [Hf1 Hf2].
    destruct (HS _ _ _ _ _ F Hf1 Hb Hok Hrel HF) as [Hc [G' [Hw [Hok' Hrel']]]].
    destruct (IH _ _ _ _ (sty t) Hf2 Hb0 Hok' Hrel') as [Hc2 Hw2].
    split; [cbn [forallb]; rewrite Hc, Hc2; reflexivity|].
    cbn [map wgo fold_left]. fold (wgo F). rewrite Hw. exact Hw2.
Qed.

Lemma exprs_sound f F : E f -> (f <= F)%nat -> forall es st es' st' G,
  forallb frag_e es = true -> mapM_st (check_expr intern f D) st es = COk (es', st') ->
  good st -> env_rel (st_env st) G ->
  forallb conc_e es' = true /\ forallb (fun e => Wt.wt_expr F P' G (xe e)) es' = true /\
  length es' = length es /\ st_env st' = st_env st.
Proof.
  intros HE HF. induction es as [|e es IH]; intros st es' st' G Hf H Hok Hrel; cbn [mapM_st] in H; inv_all'.
  - repeat split; reflexivity.
  - cbn [forallb] in Hf. apply andb_true_iff in Hf. destruct Hf as [Hf1 Hf2].
    destruct (HE _ _ _ _ _ F Hf1 Hb Hok Hrel HF) as [Hc Hw].
    pose proof (proj1 (check_env intern f D) _ _ _ Hb) as Henv. cbn [snd] in Henv.
    pose proof (good_e _ _ _ _ Hb Hok) as Hok2. cbn [snd] in Hok2.
    rewrite <- Henv in Hrel.
    destruct (IH _ _ _ _ Hf2 Hb0 Hok2 Hrel) as [Hc2 [Hw2 [Hl He]]].
    cbn [forallb length]. rewrite Hc, Hc2, Hw, Hw2, Hl. repeat split; try reflexivity. congruence.
Qed.

Lemma mapM_check_type_conc f t : forall l l',
  mapM (fun x => check_type f x t) l = COk l' -> forallb conc_e l = true ->
  l' = l /\ forall x, In x l -> ty_of x = t.
Proof.
  induction l as [|x l IH]; intros l' H Hc; cbn [mapM] in H; inv_all; [split; [reflexivity|intros ? []]|].
  cbn [forallb] in Hc. apply andb_true_iff in Hc. destruct Hc as [Hc1 Hc2].
  destruct (check_type_conc _ _ _ _ Hb Hc1) as [-> Ht]. destruct (IH _ Hb0 Hc2) as [-> Hall].
  split; [reflexivity|]. intros y [<-|Hy]; auto.
Qed.

Lemma scalar_conc ty t : scalar_uty ty = true -> concrete_of D ty = COk t -> conc_ty t = true.
Proof.
  unfold concrete_of. destruct ty; try discriminate; cbn [scalar_uty as_concrete_type]; intros Hs H; inv_all.
  - reflexivity.
  - destruct t0; try discriminate; reflexivity.
  - destruct t0; try discriminate; reflexivity.
Qed.

Lemma pick_conc t l : conc_ty t = true -> pick_elem_ty t l = t.
Proof. intro H. unfold pick_elem_ty. rewrite (conc_not_uU _ H), (conc_not_sU _ H). reflexivity. Qed.

Lemma conc_tys l : forallb conc_e l = true -> forallb conc_ty (map ty_of l) = true.
Proof.
  induction l as [|x l IH]; [reflexivity|]. cbn [forallb map]. intro H. apply andb_true_iff in H. destruct H.
  rewrite (conc_e_ty _ H), IH; auto.
Qed.

Lemma forallb2_tuple f G l : forallb (fun e => Wt.wt_expr f P' G (xe e)) l = true ->
  Wt.forallb2 (fun e t => Wt.ty_eqb (Ast.e_ty e) t && Wt.wt_expr f P' G e) (map xe l) (map xt (map ty_of l)) = true.
Proof.
  induction l as [|x l IH]; [reflexivity|]. cbn [forallb map Wt.forallb2]. intro H. apply andb_true_iff in H. destruct H as [H1 H2].
  rewrite e_ty_xe, xt_refl, H1, IH; auto.
Qed.

Lemma forallb_arr f G l t : forallb (fun e => Wt.wt_expr f P' G (xe e)) l = true -> (forall x, In x l -> ty_of x = t) ->
  forallb (fun e => Wt.ty_eqb (Ast.e_ty e) (xt t) && Wt.wt_expr f P' G e) (map xe l) = true.
Proof.
  induction l as [|x l IH]; [reflexivity|]. cbn [forallb map]. intros H Ht. apply andb_true_iff in H. destruct H as [H1 H2].
  rewrite e_ty_xe, (Ht x (or_introl eq_refl)), xt_refl, H1, IH; auto. intros; apply Ht; right; assumption.
Qed.

Lemma lenN_map {A B} (g : A -> B) l : lenN (map g l) = lenN l.
Proof. unfold lenN. rewrite map_length. reflexivity. Qed.

(* the accessor loop of an assignment *)
Lemma accs_ok f F : E f -> (f <= F)%nat -> forall accs st t tas t' st' G,
  forallb frag_a accs = true ->
  accs_loop (check_expr intern f D) f D st t accs = COk (tas, t', st') ->
  good st -> env_rel (st_env st) G -> conc_ty t = true ->
  ago F G (map xa tas) (xt t) = Some (xt t') /\ conc_ty t' = true /\ st_env st' = st_env st /\ good st'.
Proof.
  intros HE HF. induction accs as [|a accs IH]; intros st t tas t' st' G Hf H Hok Hrel Hct; cbn [accs_loop] in H.
  - inv_all. repeat split; auto; apply Hok.
  - cbn [forallb] in Hf. apply andb_true_iff in Hf. destruct Hf as [Hf1 Hf2].
    apply cbind_ok in H. destruct H as [[[ta t1] st1] [H1 H]]. cbv beta iota in H.
    apply cbind_ok in H. destruct H as [[[tas2 tf] st2] [H2 H]]. cbv beta iota in H. inv_all.
    destruct a; cbn [frag_a] in Hf1.
    + (* [i] *)
      apply cbind_ok in H1. destruct H1 as [el [Hel H1]]. destruct t as [| | |el0 n| | |]; try discriminate Hel. cbn in Hel. assert (el0 = el) by congruence. subst el0. clear Hel.
      apply cbind_ok in H1. destruct H1 as [[i1 sti] [Hi H1]]. cbn [fst snd] in H1.
      apply cbind_ok in H1. destruct H1 as [i2 [Hcoc H1]]. inversion H1; subst ta t1 st1; clear H1.
      destruct (HE _ _ _ _ _ F Hf1 Hi Hok Hrel HF) as [Hci Hwi].
      destruct (coc_unsigned_deep_conc _ _ _ _ Hcoc (conc_e_ty _ Hci)) as [-> Ety].
      pose proof (proj1 (check_env intern f D) _ _ _ Hi) as Henv. cbn [snd] in Henv.
      pose proof (good_e _ _ _ _ Hi Hok) as Hok2. cbn [snd] in Hok2. rewrite <- Henv in Hrel.
      cbn [conc_ty] in Hct.
      destruct (IH _ _ _ _ _ _ Hf2 H2 Hok2 Hrel Hct) as [Hago [Hc' [He Hgd]]].
      cbn [map ago]. fold (ago F G). rewrite xa_arr. cbn [export_ty]. fold (xt (CArray el n)).
      rewrite e_ty_xe, Ety, Hwi. cbn [export_ty Wt.is_unsigned]. 
      change (Ast.TArr (xt el) n) with (xt (CArray el n)). rewrite xt_refl. cbn [andb].
      split; [exact Hago|]. split; [exact Hc'|]. split; [congruence|exact Hgd].
    + (* .i *)
      apply cbind_ok in H1. destruct H1 as [vts [Hvt H1]]. destruct t as [| | | |vts0| |]; try discriminate Hvt. cbn in Hvt. assert (vts0 = vts) by congruence. subst vts0. clear Hvt.
      destruct (nthN vts index) as [ti|] eqn:En; [|discriminate]. inversion H1; subst ta t1 st1; clear H1.
      cbn [conc_ty] in Hct. pose proof (conc_nth _ _ _ Hct En) as Hcti.
      destruct (IH _ _ _ _ _ _ Hf2 H2 Hok Hrel Hcti) as [Hago [Hc' [He Hgd]]].
      cbn [map ago]. fold (ago F G). rewrite xa_tup. cbn [export_ty].
      change (Ast.TTup (map xt vts)) with (xt (CTuple vts)). rewrite xt_refl. cbn [export_ty].
      rewrite nthN_map, En. cbn [option_map]. auto.
    + (* .field *)
      apply cbind_ok in H1. destruct H1 as [sname [Hsn H1]]. destruct t as [| | | | |sn0|]; try discriminate Hsn. cbn in Hsn.
      assert (sn0 = sname) by congruence. subst sn0. clear Hsn.
      destruct (assocL sname (d_structs D)) as [sd|] eqn:Esd; [|discriminate].
      destruct (assocL field sd) as [ft|] eqn:Eft; [|discriminate]. inversion H1; subst ta t1 st1; clear H1.
      pose proof (D_conc_s _ _ _ _ Esd Eft) as Hcft.
      destruct (IH _ _ _ _ _ _ Hf2 H2 Hok Hrel Hcft) as [Hago [Hc' [He Hgd]]].
      cbn [map ago]. fold (ago F G). rewrite xa_fld. cbn [export_ty].
      change (Ast.TStruct (intern sname)) with (xt (CStruct sname)). rewrite xt_refl. cbn [export_ty].
      rewrite (P_structs _ _ Esd). unfold xfields. rewrite assocN_map_intern, Eft. cbn [option_map]. auto.
Qed.

Lemma assocL_In {A} (k : list N) (l : list (list N * A)) v : assocL k l = Some v -> In (k, v) l.
Proof.
  induction l as [|[k' v'] l IH]; [discriminate|]. cbn [assocL]. destruct (list_eqb k k') eqn:E.
  - intro H. inversion H; subst. apply list_eqb_eq in E. subst. left. reflexivity.
  - intro H. right. auto.
Qed.

Lemma call_args f F G : forall l (ps : list (bool * list N * cty)) l',
  zipM (fun a (p : bool * list N * cty) => check_type f a (snd p)) l ps = COk l' ->
  forallb conc_e l = true -> forallb (fun e => Wt.wt_expr F P' G (xe e)) l = true -> length l = length ps ->
  l' = l /\ Wt.forallb2 (fun e pt => Wt.ty_eqb (Ast.e_ty e) (snd pt) && Wt.wt_expr F P' G e) (map xe l) (xparams ps) = true.
Proof.
  induction l as [|x l IH]; intros ps l' H Hc Hw Hlen.
  - destruct ps; [|discriminate]. cbn in H. inversion H. split; reflexivity.
  - destruct ps as [|p ps]; [discriminate|]. cbn [zipM] in H.
    apply cbind_ok in H. destruct H as [x' [Hx H]]. apply cbind_ok in H. destruct H as [r' [Hr H]]. inversion H; subst; clear H.
    cbn [forallb] in Hc, Hw. apply andb_true_iff in Hc. destruct Hc as [Hc1 Hc2]. apply andb_true_iff in Hw. destruct Hw as [Hw1 Hw2].
    destruct (check_type_conc _ _ _ _ Hx Hc1) as [-> Ht].
    destruct (IH _ _ Hr Hc2 Hw2 ltac:(cbn in Hlen; lia)) as [-> Hf2].
    split; [reflexivity|]. cbn [map xparams Wt.forallb2 snd]. fold (xparams ps). rewrite e_ty_xe, Ht, xt_refl, Hw1, Hf2. reflexivity.
Qed.

Lemma enum_args f F G : forall l (ts : list cty) l',
  zipM (fun a t => check_type f a t) l ts = COk l' ->
  forallb conc_e l = true -> forallb (fun e => Wt.wt_expr F P' G (xe e)) l = true -> length l = length ts ->
  l' = l /\ Wt.forallb2 (fun e t => Wt.ty_eqb (Ast.e_ty e) t && Wt.wt_expr F P' G e) (map xe l) (map xt ts) = true.
Proof.
  induction l as [|x l IH]; intros ts l' H Hc Hw Hlen.
  - destruct ts; [|discriminate]. cbn in H. inversion H. split; reflexivity.
  - destruct ts as [|t ts]; [discriminate|]. cbn [zipM] in H.
    apply cbind_ok in H. destruct H as [x' [Hx H]]. apply cbind_ok in H. destruct H as [r' [Hr H]]. inversion H; subst; clear H.
    cbn [forallb] in Hc, Hw. apply andb_true_iff in Hc. destruct Hc as [Hc1 Hc2]. apply andb_true_iff in Hw. destruct Hw as [Hw1 Hw2].
    destruct (check_type_conc _ _ _ _ Hx Hc1) as [-> Ht].
    destruct (IH _ _ Hr Hc2 Hw2 ltac:(cbn in Hlen; lia)) as [-> Hf2].
    split; [reflexivity|]. cbn [map Wt.forallb2]. rewrite e_ty_xe, Ht, xt_refl, Hw1, Hf2. reflexivity.
Qed.



(* the clauses of a match *)
Lemma arms_sound f F ty : E f -> (f <= F)%nat -> conc_ty ty = true -> forall clauses st rc st' G,
  forallb (fun pa : upattern * xexpr => frag_p (fst pa) && frag_e (snd pa)) clauses = true ->
  mapM_st (fun st (pc : upattern * xexpr) =>
             do rp <- check_pattern D (env_push (st_env st)) (fst pc) ty;
             do re <- check_expr intern f D (with_env st (snd rp)) (snd pc);
             COk ((fst rp, fst re), with_env (snd re) (env_pop (st_env (snd re))))) st clauses = COk (rc, st') ->
  good st -> env_rel (st_env st) G ->
  forallb (fun a : tpattern * texpr => conc_e (snd a)) rc = true /\
  forallb (fun a : tpattern * texpr =>
             Wt.ty_eqb (Ast.p_ty (xp (fst a))) (xt ty) &&
             match Wt.wt_pat P' (xp (fst a)) with
             | Some bs => Wt.wt_expr F P' (Wt.tbind_all ([] :: G) bs false) (xe (snd a))
             | None => false
             end) rc = true /\
  good st' /\ st_env st' = st_env st.
Proof.
  intros HE HF Hcty. induction clauses as [|[p e] clauses IH]; intros st rc st' G Hf H Hok Hrel; cbn [mapM_st] in H.
  - inversion H; subst. repeat split; try reflexivity; apply Hok.
  - cbn [forallb fst snd] in Hf. apply andb_true_iff in Hf. destruct Hf as [Hf1 Hf2]. apply andb_true_iff in Hf1. destruct Hf1 as [Hfp Hfe].
    apply cbind_ok in H. destruct H as [[[p1 e1] st1] [H1 H]]. apply cbind_ok in H. destruct H as [[rc2 st2] [H2 H]].
    cbn [fst snd] in H. inversion H; subst; clear H.
    apply cbind_ok in H1. destruct H1 as [[pp g1] [Hp H1]]. apply cbind_ok in H1. destruct H1 as [[ee st3] [He H1]].
    cbn [fst snd] in *. inversion H1; subst; clear H1.
    destruct (pat_sound p _ _ _ _ Hfp Hp) as [Hpty [bs [Hwp [Hrp Hop]]]].
    assert (Hg3 : good (with_env st g1)).
    { apply good_with_env; [exact Hok|]. apply Hop; [exact Hcty|]. apply env_ok_push. exact (proj1 Hok). }
    destruct (HE _ _ _ _ (Wt.tbind_all ([] :: G) bs false) F Hfe He Hg3) as [Hce Hwe].
    { cbn [st_env with_env]. apply Hrp. apply env_rel_push. exact Hrel. }
    { exact HF. }
    pose proof (proj1 (check_env intern f D) _ _ _ He) as Henv. cbn [snd st_env with_env] in Henv.
    pose proof (check_pattern_tl _ _ _ _ _ Hp) as Htl. cbn [snd env_push tl] in Htl.
    pose proof (good_e _ _ _ _ He Hg3) as Hg4. cbn [snd] in Hg4.
    assert (Henv1 : st_env (with_env st3 (env_pop (st_env st3))) = st_env st).
    { cbn [st_env with_env]. change env_pop with (@tl cscope). congruence. }
    assert (Hg1 : good (with_env st3 (env_pop (st_env st3)))).
    { split; [rewrite Henv1; exact (proj1 Hok)|exact (proj2 Hg4)]. }
    destruct (IH _ _ _ G Hf2 H2 Hg1 ltac:(rewrite Henv1; exact Hrel)) as [Hc2 [Hw2 [Hg2 He2]]].
    cbn [forallb fst snd]. rewrite Hce, Hc2, Hpty, xt_refl, Hwp, Hwe, Hw2.
    repeat split; try reflexivity; [apply Hg2|apply Hg2|congruence].
Qed.

Lemma match_retype fu ret_ty : forall rc rc',
  mapM (fun pc : tpattern * texpr =>
          if negb (cty_eqb ret_ty (ty_of (snd pc))) then
            match ret_ty with
            | CUnsigned expected => do x <- coc_unsigned_deep fu (snd pc) expected; COk (fst pc, x)
            | CSigned expected => do x <- coc_signed_deep fu (snd pc) expected; COk (fst pc, x)
            | _ => CErr E_UnexpectedType
            end
          else COk pc) rc = COk rc' ->
  forallb (fun a : tpattern * texpr => conc_e (snd a)) rc = true ->
  rc' = rc /\ forall a, In a rc -> ty_of (snd a) = ret_ty.
Proof.
  induction rc as [|[p e] rc IH]; intros rc' H Hc; cbn [mapM] in H.
  - inversion H. split; [reflexivity|intros a []].
  - apply cbind_ok in H. destruct H as [x [Hx H]]. apply cbind_ok in H. destruct H as [r [Hr H]]. inversion H; subst; clear H.
    cbn [forallb snd] in Hc. apply andb_true_iff in Hc. destruct Hc as [Hc1 Hc2].
    destruct (IH _ Hr Hc2) as [-> Hall]. cbn [snd fst] in Hx.
    assert (Hxe : x = (p, e) /\ ty_of e = ret_ty).
    { destruct (cty_eqb ret_ty (ty_of e)) eqn:Eq.
      - cbn [negb] in Hx. inversion Hx. apply cty_eqb_eq in Eq. auto.
      - cbn [negb] in Hx. destruct ret_ty; try discriminate Hx.
        + apply cbind_ok in Hx. destruct Hx as [y [Hy Hx]]. inversion Hx; subst.
          destruct (coc_unsigned_deep_conc _ _ _ _ Hy (conc_e_ty _ Hc1)) as [-> Ht]. auto.
        + apply cbind_ok in Hx. destruct Hx as [y [Hy Hx]]. inversion Hx; subst.
          destruct (coc_signed_deep_conc _ _ _ _ Hy (conc_e_ty _ Hc1)) as [-> Ht]. auto. }
    destruct Hxe as [-> Hte]. split; [reflexivity|]. intros a [<-|Ha]; [exact Hte|auto].
Qed.

Lemma arms_wt F G sty rty : forall rc,
  forallb (fun a : tpattern * texpr =>
             Wt.ty_eqb (Ast.p_ty (xp (fst a))) sty &&
             match Wt.wt_pat P' (xp (fst a)) with
             | Some bs => Wt.wt_expr F P' (Wt.tbind_all ([] :: G) bs false) (xe (snd a))
             | None => false
             end) rc = true ->
  (forall a, In a rc -> ty_of (snd a) = rty) ->
  forallb (fun arm : Ast.pattern * Ast.expr =>
             Wt.ty_eqb (Ast.p_ty (fst arm)) sty && Wt.ty_eqb (Ast.e_ty (snd arm)) (xt rty) &&
             match Wt.wt_pat P' (fst arm) with
             | Some bs => Wt.wt_expr F P' (Wt.tbind_all ([] :: G) bs false) (snd arm)
             | None => false
             end) (map (fun a => (xp (fst a), xe (snd a))) rc) = true.
Proof.
  induction rc as [|a rc IH]; intros H Ht; [reflexivity|]. cbn [forallb map fst snd] in *.
  apply andb_true_iff in H. destruct H as [H1 H2]. apply andb_true_iff in H1. destruct H1 as [H1a H1b].
  rewrite H1a, H1b, e_ty_xe, (Ht a (or_introl eq_refl)), xt_refl. cbn [andb].
  apply IH; [exact H2|]. intros b Hb. apply Ht. right. exact Hb.
Qed.

(* ------------------------------------------------------------------ struct literals *)

Lemma memL_false_notin x l : memL x l = false -> ~ In x l.
Proof.
  unfold memL. intros H Hin. rewrite <- not_true_iff_false in H. apply H.
  apply existsb_exists. exists x. split; [exact Hin|apply list_eqb_refl].
Qed.

Lemma slit_sound f F sd : E f -> (f <= F)%nat -> forall fields seen st tfields st' G,
  forallb (fun nf : list N * xexpr => frag_e (snd nf)) fields = true ->
  struct_lit_loop (check_expr intern f D) f sd seen st fields = COk (tfields, st') ->
  good st -> env_rel (st_env st) G ->
  map fst tfields = map fst fields /\ NoDup (map fst fields) /\
  (forall x, In x seen -> ~ In x (map fst fields)) /\
  Forall (fun nf : list N * texpr => exists t, assocL (fst nf) sd = Some t /\ ty_of (snd nf) = t /\
            conc_e (snd nf) = true /\ Wt.wt_expr F P' G (xe (snd nf)) = true) tfields /\
  good st' /\ st_env st' = st_env st.
Proof.
  intros HE HF. induction fields as [|[fname fv] fields IH]; intros seen st tfields st' G Hf H Hok Hrel; cbn [struct_lit_loop] in H.
  - inversion H; subst. repeat split; try constructor; auto; apply Hok.
  - cbn [forallb snd] in Hf. apply andb_true_iff in Hf. destruct Hf as [Hf1 Hf2].
    destruct (memL fname seen) eqn:Em; [discriminate|].
    destruct (assocL fname sd) as [ety|] eqn:Ea; [|discriminate].
    apply cbind_ok in H. destruct H as [[e1 st1] [He H]]. cbn [fst snd] in H.
    apply cbind_ok in H. destruct H as [tf [Hct H]]. apply cbind_ok in H. destruct H as [[tfs st2] [Hl H]].
    cbn [fst snd] in H. inversion H; subst; clear H.
    destruct (HE _ _ _ _ G F Hf1 He Hok Hrel HF) as [Hc Hw].
    destruct (check_type_conc _ _ _ _ Hct Hc) as [-> Ety].
    pose proof (proj1 (check_env intern f D) _ _ _ He) as Henv. cbn [snd] in Henv.
    pose proof (good_e _ _ _ _ He Hok) as Hg1. cbn [snd] in Hg1.
    destruct (IH (fname :: seen) _ _ _ G Hf2 Hl Hg1 ltac:(rewrite Henv; exact Hrel)) as [Hn [Hnd [Hseen [Hall [Hg2 He2]]]]].
    cbn [map fst]. split; [rewrite Hn; reflexivity|]. split.
    { constructor; [apply Hseen; left; reflexivity|exact Hnd]. }
    split.
    { intros x Hx [Heq|Hin]; [subst x; exact (memL_false_notin _ _ Em Hx)|exact (Hseen x (or_intror Hx) Hin)]. }
    split; [constructor; [exists ety; cbn [fst snd]; auto|exact Hall]|]. split; [exact Hg2|congruence].
Qed.

Lemma filter_none {A} (g : list N * A -> N * Ast.expr) k (l : list (list N * A)) :
  (forall x, fst (g x) = intern (fst x)) -> ~ In k (map fst l) ->
  filter (fun fe : N * Ast.expr => fst fe =? intern k) (map g l) = [].
Proof.
  intros Hg. induction l as [|x l IH]; intro Hn; [reflexivity|]. cbn [map filter]. rewrite Hg, intern_eqb.
  destruct (list_eqb (fst x) k) eqn:E.
  - apply list_eqb_eq in E. exfalso. apply Hn. left. exact E.
  - apply IH. intro H. apply Hn. right. exact H.
Qed.

Lemma filter_unique {A} (g : list N * A -> N * Ast.expr) k v (l : list (list N * A)) :
  (forall x, fst (g x) = intern (fst x)) -> NoDup (map fst l) -> In (k, v) l ->
  filter (fun fe : N * Ast.expr => fst fe =? intern k) (map g l) = [g (k, v)].
Proof.
  intros Hg. induction l as [|x l IH]; intros Hnd Hin; [destruct Hin|]. cbn [map fst] in Hnd. inversion Hnd as [|? ? Hn Hnd']; subst.
  cbn [map filter]. rewrite Hg, intern_eqb. destruct Hin as [->|Hin].
  - cbn [fst]. rewrite list_eqb_refl. f_equal. apply filter_none; assumption.
  - destruct (list_eqb (fst x) k) eqn:E; [|apply IH; assumption].
    apply list_eqb_eq in E. exfalso. apply Hn. rewrite E. change k with (fst (k, v)). apply in_map. exact Hin.
Qed.

Lemma In_assocL_nodup {A} (l : list (list N * A)) k v : NoDup (map fst l) -> In (k, v) l -> assocL k l = Some v.
Proof.
  induction l as [|[k0 v0] l IH]; intros Hnd Hin; [destruct Hin|]. cbn [map fst] in Hnd. inversion Hnd as [|? ? Hn Hnd']; subst.
  cbn [assocL]. destruct Hin as [Heq|Hin].
  - inversion Heq; subst. rewrite list_eqb_refl. reflexivity.
  - destruct (list_eqb k k0) eqn:E; [|apply IH; assumption].
    apply list_eqb_eq in E. subst. exfalso. apply Hn. change k0 with (fst (k0, v)). apply in_map. exact Hin.
Qed.

Lemma slit_wt F G sd (fields : list (list N * xexpr)) (tfields : list (list N * texpr)) :
  NoDup (map fst sd) -> map fst tfields = map fst fields -> NoDup (map fst fields) ->
  missing_field sd fields = false ->
  Forall (fun nf : list N * texpr => exists t, assocL (fst nf) sd = Some t /\ ty_of (snd nf) = t /\
            conc_e (snd nf) = true /\ Wt.wt_expr F P' G (xe (snd nf)) = true) tfields ->
  (lenN (map (fun f : list N * texpr => (intern (fst f), xe (snd f))) tfields) =? lenN (xfields sd)) &&
  forallb (fun d : N * Ast.ty =>
             match filter (fun fe : N * Ast.expr => fst fe =? fst d)
                          (map (fun f : list N * texpr => (intern (fst f), xe (snd f))) tfields) with
             | [(_, fe)] => Wt.ty_eqb (Ast.e_ty fe) (snd d) && Wt.wt_expr F P' G fe
             | _ => false
             end) (xfields sd) = true.
Proof.
  intros Hnds Hn Hndf Hmiss Hall.
  assert (Hndt : NoDup (map fst tfields)) by (rewrite Hn; exact Hndf).
  assert (Hin1 : incl (map fst tfields) (map fst sd)).
  { intros k Hk. apply in_map_iff in Hk. destruct Hk as [[k0 e0] [<- Hk]]. rewrite Forall_forall in Hall.
    destruct (Hall _ Hk) as [t [Ha _]]. cbn [fst] in *. apply assocL_In in Ha. change k0 with (fst (k0, t)). apply in_map. exact Ha. }
  assert (Hin2 : incl (map fst sd) (map fst tfields)).
  { intros k Hk. rewrite Hn. apply in_map_iff in Hk. destruct Hk as [d [<- Hd]].
    unfold missing_field in Hmiss. rewrite <- not_true_iff_false in Hmiss.
    destruct (existsb (fun f0 : list N * xexpr => list_eqb (fst f0) (fst d)) fields) eqn:Ex.
    - apply existsb_exists in Ex. destruct Ex as [f0 [Hf0 Heq]]. apply list_eqb_eq in Heq. rewrite <- Heq. apply in_map. exact Hf0.
    - exfalso. apply Hmiss. apply existsb_exists. exists d. split; [exact Hd|]. rewrite Ex. reflexivity. }
  apply andb_true_iff. split.
  - apply N.eqb_eq. unfold lenN, xfields. rewrite !map_length. f_equal.
    pose proof (NoDup_incl_length Hndt Hin1) as L1. pose proof (NoDup_incl_length Hnds Hin2) as L2.
    rewrite !map_length in L1, L2. lia.
  - apply forallb_forall. intros d Hd. unfold xfields in Hd. apply in_map_iff in Hd. destruct Hd as [[k t] [<- Hkt]].
    cbn [fst snd].
    assert (Hk : In k (map fst tfields)) by (apply Hin2; change k with (fst (k, t)); apply in_map; exact Hkt).
    apply in_map_iff in Hk. destruct Hk as [[k0 e0] [Hk0 He0]]. cbn [fst] in Hk0. subst k0.
    rewrite (filter_unique (fun f : list N * texpr => (intern (fst f), xe (snd f))) k e0 tfields (fun x => eq_refl) Hndt He0).
    cbn [fst snd]. rewrite Forall_forall in Hall. destruct (Hall _ He0) as [t' [Ha [Hty [_ Hw]]]]. cbn [fst snd] in *.
    rewrite (In_assocL_nodup _ _ _ Hnds Hkt) in Ha. injection Ha as Ha.
    rewrite e_ty_xe, Hty, <- Ha, xt_refl, Hw. reflexivity.
Qed.

Ltac env_tac := first [assumption | (repeat match goal with He : st_env _ = st_env _ |- _ => rewrite He end); assumption].

(* one sub-expression: the IH, the environment equality and [good] of the state after it *)
Ltac sub_e HE G F HF H :=
  let Hc := fresh "Hc" in let Hw := fresh "Hw" in let Henv := fresh "Henv" in let Hg := fresh "Hg" in
  pose proof (proj1 (check_env intern _ D) _ _ _ H) as Henv; cbn [snd] in Henv;
  match type of H with Infer.check_expr _ _ _ ?st ?e = _ =>
    let Hf := fresh in assert (Hf : frag_e e = true) by assumption;
    let Hg0 := fresh "Hg0" in
    assert (Hg0 : good st) by assumption;
    pose proof (good_e _ _ _ _ H Hg0) as Hg; cbn [snd] in Hg; clear Hg0;
    destruct (HE _ _ _ _ G F Hf H ltac:(assumption) ltac:(env_tac) HF) as [Hc Hw] end.

Ltac bind_e H x st Hx := apply cbind_ok in H; destruct H as [[x st] [Hx H]]; cbv beta zeta in H; cbn [fst snd] in H.

Theorem sound_all : forall f, E f /\ St f /\ Bl f /\ Ss f.
Proof.
  induction f as [|f [HE [HS [HB HSs]]]].
  { repeat split; intros; discriminate. }
  assert (HB' : Bl (S f)).
  { intros b st b' ty st' G F Hf H Hok Hrel HF. destruct F as [|F]; [lia|]. apply le_S_n in HF.
    cbn [check_block] in H. refold H. inv_all'.
    destruct (stmts_sound f F HS HF _ _ _ _ _ Wt.unit_ty Hf Hb Hok Hrel) as [Hc Hw].
    split; [exact Hc|]. rewrite wt_block_S, Hw, last_expr_ty_x. reflexivity. }
  assert (HSs' : Ss (S f)).
  { intros b st b' st' G F Hf H Hok Hrel HF. destruct F as [|F]; [lia|]. apply le_S_n in HF.
    cbn [check_stmts] in H. refold H.
    destruct (stmts_sound f F HS HF _ _ _ _ _ Wt.unit_ty Hf H Hok Hrel) as [Hc Hw].
    split; [exact Hc|]. eexists. rewrite wt_block_S. exact Hw. }
  split; [|split; [|split; assumption]].
  - (* ---------------------------------------------------------------- expressions *)
    intros e st e' st' G F Hf H Hok Hrel HF. destruct F as [|F]; [lia|]. apply le_S_n in HF. destruct e; try discriminate Hf; cbn [frag_e] in Hf;
      cbn [Infer.check_expr] in H; refold H.
    + (* true *) inv_all. split; reflexivity.
    + inv_all. split; reflexivity.
    + (* unsigned literal *) inv_all. cbn [conc_e export_expr Wt.wt_expr export_ty].
      rewrite (lit_u_conc _ _ Hf), (lit_u_fits _ _ Hf). split; reflexivity.
    + inv_all. cbn [conc_e export_expr Wt.wt_expr export_ty].
      rewrite (lit_s_conc _ _ Hf), (lit_s_fits _ _ Hf). split; reflexivity.
    + (* identifier *)
      destruct (env_get (st_env st) s) as [[ty m]|] eqn:Eg.
      * inv_all. cbn [conc_e export_expr Wt.wt_expr]. rewrite (proj1 Hok _ _ _ Eg).
        destruct (proj1 Hrel _ _ _ Eg) as [m' [Hl _]]. rewrite Hl, xt_refl. split; reflexivity.
      * destruct (assocL s (d_consts D)) as [ty|] eqn:Ecn; [|discriminate]. inv_all.
        cbn [conc_e export_expr Wt.wt_expr]. rewrite (D_conc_c _ _ Ecn).
        destruct (proj2 Hrel _ _ Eg Ecn) as [m' Hl]. rewrite Hl, xt_refl. split; reflexivity.
    + (* array literal *)
      apply cbind_ok in H. destruct H as [[es1 st1] [Hes H]]. cbn [fst snd] in H.
      destruct (exprs_sound f F HE HF _ _ _ _ G Hf Hes Hok Hrel) as [Hces [Hwes [Hlen Henv]]].
      destruct es1 as [|first es1]; [discriminate|].
      assert (Hcf : conc_ty (ty_of first) = true).
      { cbn [forallb] in Hces. apply andb_true_iff in Hces. apply conc_e_ty. tauto. }
      rewrite (pick_conc _ _ Hcf) in H.
      apply cbind_ok in H. destruct H as [fields' [Hm H]]. inversion H; subst; clear H.
      destruct (mapM_check_type_conc _ _ _ _ Hm Hces) as [-> Hall].
      cbn [conc_e conc_ty export_expr Wt.wt_expr export_ty]. rewrite Hcf, Hces.
      rewrite lenN_map. unfold lenN. rewrite Hlen, N.eqb_refl.
      rewrite (forallb_arr _ _ _ _ Hwes Hall). split; reflexivity.
    + (* array repeat *) inv_all'. sub_e HE G F HF Hb. cbn [conc_e export_expr Wt.wt_expr export_ty ty_of conc_ty].
      rewrite Hc, (conc_e_ty _ Hc), Hw, N.eqb_refl, e_ty_xe, xt_refl. split; reflexivity.
    + (* array access *)
      apply andb_true_iff in Hf. destruct Hf as [Hf1 Hf2].
      bind_e H a1 st1 Ha. bind_e H i1 st2 Hi.
      apply cbind_ok in H. destruct H as [el [Hel H]]. apply cbind_ok in H. destruct H as [i2 [Hcoc H]].
      inversion H; subst; clear H.
      sub_e HE G F HF Ha. sub_e HE G F HF Hi.
      destruct (coc_unsigned_deep_conc _ _ _ _ Hcoc (conc_e_ty _ Hc0)) as [-> Ety].
      pose proof (conc_e_ty _ Hc) as Hca.
      destruct (ty_of a1) as [| | |el0 n0| | |] eqn:Eta; try discriminate Hel. cbn in Hel. inversion Hel; subst; clear Hel.
      cbn [conc_ty] in Hca.
      cbn [conc_e export_expr Wt.wt_expr]. rewrite !e_ty_xe, Eta, Ety, Hca, Hc, Hc0, Hw, Hw0.
      cbn [export_ty Wt.is_unsigned]. rewrite xt_refl. split; reflexivity.
    + (* tuple literal *)
      apply cbind_ok in H. destruct H as [[es1 st1] [Hes H]]. cbn [fst snd] in H. inversion H; subst; clear H.
      destruct (exprs_sound f F HE HF _ _ _ _ G Hf Hes Hok Hrel) as [Hces [Hwes [Hlen Henv]]].
      cbn [conc_e conc_ty export_expr Wt.wt_expr export_ty]. rewrite (conc_tys _ Hces), Hces.
      rewrite (forallb2_tuple _ _ _ Hwes). split; reflexivity.
    + (* tuple access *)
      bind_e H t1 st1 Ht. apply cbind_ok in H. destruct H as [vts [Hvt H]].
      sub_e HE G F HF Ht. pose proof (conc_e_ty _ Hc) as Hct.
      destruct (ty_of t1) as [| | | |vts0| |] eqn:Ett; try discriminate Hvt. cbn in Hvt. inversion Hvt; subst; clear Hvt.
      destruct (nthN vts i) as [ti|] eqn:En; [|discriminate]. inversion H; subst; clear H.
      cbn [conc_ty] in Hct.
      cbn [conc_e export_expr Wt.wt_expr]. rewrite e_ty_xe, Ett. cbn [export_ty]. rewrite nthN_map, En. cbn [option_map].
      rewrite xt_refl, Hw, Hc, (conc_nth _ _ _ Hct En). split; reflexivity.
    + (* field access *)
      bind_e H s1 st1 Hs. apply cbind_ok in H. destruct H as [sname [Hsn H]].
      sub_e HE G F HF Hs.
      destruct (ty_of s1) as [| | | | |sn0|] eqn:Ets; try discriminate Hsn. cbn in Hsn.
      assert (sn0 = sname) by congruence. subst sn0. clear Hsn.
      destruct (assocL sname (d_structs D)) as [sd|] eqn:Esd; [|discriminate].
      match type of H with context [assocL ?fld sd] => destruct (assocL fld sd) as [ft|] eqn:Eft; [|discriminate] end.
      inversion H; subst; clear H.
      cbn [conc_e export_expr Wt.wt_expr]. rewrite e_ty_xe, Ets. cbn [export_ty]. rewrite (P_structs _ _ Esd).
      unfold xfields. rewrite assocN_map_intern, Eft. cbn [option_map].
      rewrite xt_refl, Hw, Hc, (D_conc_s _ _ _ _ Esd Eft). split; reflexivity.
    + (* struct literal *)
      destruct (assocL name (d_structs D)) as [sd|] eqn:Esd; [|discriminate].
      apply cbind_ok in H. destruct H as [[tfields st1] [Hl H]]. cbn [fst snd] in H.
      destruct (missing_field sd fields) eqn:Em; [discriminate|]. inversion H; subst; clear H.
      destruct (slit_sound f F sd HE HF _ _ _ _ _ G Hf Hl Hok Hrel) as [Hn [Hnd [_ [Hall [_ _]]]]].
      assert (Hcf : forallb (fun f1 : list N * texpr => conc_e (snd f1)) tfields = true).
      { apply forallb_forall. intros x Hx. rewrite Forall_forall in Hall. destruct (Hall _ Hx) as [? [_ [_ [Hcx _]]]]. exact Hcx. }
      cbn [conc_e conc_ty export_expr Wt.wt_expr export_ty]. rewrite Hcf, (P_structs _ _ Esd), N.eqb_refl.
      pose proof (slit_wt F G sd fields tfields (D_nodup_s _ _ Esd) Hn Hnd Em Hall) as Hwt.
      cbn [andb]. rewrite Hwt. split; reflexivity.
    + (* enum literal *)
      match type of H with context [assocL ?en0 (d_enums D)] =>
        destruct (assocL en0 (d_enums D)) as [ed|] eqn:Eed; [|discriminate] end.
      match type of H with context [assocL ?v0 ed] =>
        destruct (assocL v0 ed) as [[pts|]|] eqn:Ev; [| |discriminate] end.
      * (* tuple variant *)
        destruct args as [es|]; [|discriminate].
        destruct (negb (lenN es =? lenN pts)) eqn:El; [discriminate|].
        apply cbind_ok in H. destruct H as [[es1 st1] [Hes H]]. cbn [fst snd] in H.
        apply cbind_ok in H. destruct H as [args' [Hz H]]. inversion H; subst; clear H.
        destruct (exprs_sound f F HE HF _ _ _ _ G Hf Hes Hok Hrel) as [Hces [Hwes [Hlen Henv]]].
        apply negb_false_iff in El. apply N.eqb_eq in El. unfold lenN in El. apply Nat2N.inj in El.
        destruct (enum_args _ F G _ _ _ Hz Hces Hwes ltac:(lia)) as [-> Hargs].
        cbn [conc_e conc_ty export_expr Wt.wt_expr export_ty]. rewrite (P_enums _ _ Eed), N.eqb_refl, Hces.
        rewrite (variant_nth _ _ _ _ Eed Ev), Hargs. split; reflexivity.
      * (* unit variant *)
        destruct args as [es|]; [discriminate|]. inversion H; subst; clear H.
        cbn [conc_e conc_ty export_expr Wt.wt_expr export_ty]. rewrite (P_enums _ _ Eed), N.eqb_refl.
        rewrite (variant_nth _ _ _ _ Eed Ev). cbn [map Wt.forallb2]. split; reflexivity.
    + (* match *)
      apply andb_true_iff in Hf. destruct Hf as [Hfs Hfa].
      bind_e H s1 st1 Hs. sub_e HE G F HF Hs. pose proof (conc_e_ty _ Hc) as Hcs.
      assert (Hrel1 : env_rel (st_env st1) G) by env_tac.
      destruct (ty_of s1) eqn:Ets; try discriminate H.
      all: (apply cbind_ok in H; destruct H as [[rc st2] [Hrc H]]; cbn [fst snd] in H;
            match type of Hrc with mapM_st _ _ _ = _ =>
              destruct (arms_sound f F _ HE HF Hcs _ _ _ _ G Hfa Hrc Hg Hrel1) as [Hca [Hwa [Hg2 Henv2]]] end;
            destruct rc as [|[p0 first] rc']; [discriminate|];
            assert (Hcf : conc_ty (ty_of first) = true)
              by (cbn [forallb snd] in Hca; apply andb_true_iff in Hca; apply conc_e_ty; tauto);
            rewrite (pick_conc _ _ Hcf) in H;
            apply cbind_ok in H; destruct H as [clauses' [Hm H]]; apply cbind_ok in H; destruct H as [u0 [_ H]];
            inversion H; subst; clear H;
            destruct (match_retype _ _ _ _ Hm Hca) as [-> Hall];
            cbn [conc_e export_expr Wt.wt_expr]; rewrite Hc, Hw, Hcf, Hca, e_ty_xe, Ets;
            rewrite (arms_wt F G _ _ _ Hwa Hall); split; reflexivity).
    + (* unary *)
      destruct o; inv_all';
        match goal with Hx : Infer.check_expr _ _ _ _ _ = COk _ |- _ => sub_e HE G F HF Hx end;
        pose proof (conc_e_ty _ Hc) as Hct;
        cbn [conc_e export_expr Wt.wt_expr export_ty ty_of]; rewrite ?e_ty_xe, ?xt_refl, Hc, Hct, Hw; split; try reflexivity.
      * match goal with H : expect_bool_or_num_type _ = COk _ |- _ =>
             pose proof (expect_bool_or_num_x _ _ H) as Hb1; cbn [ty_of] in Hb1; rewrite Hb1; reflexivity end.
      * match goal with H : expect_signed_num_type _ = COk _ |- _ =>
             pose proof (expect_signed_x _ _ H) as Hb1; cbn [ty_of] in Hb1; rewrite Hb1; reflexivity end.
    + (* binary *)
      apply andb_true_iff in Hf. destruct Hf as [Hf1 Hf2].
      bind_e H x1 st1 Hx. bind_e H y1 st2 Hy.
      sub_e HE G F HF Hx. sub_e HE G F HF Hy.
      pose proof (conc_e_ty _ Hc) as Htx. pose proof (conc_e_ty _ Hc0) as Hty.
      destruct o.
      1-12: (apply cbind_ok in H; destruct H as [[[x2 y2] ty] [Hu H]]; cbv beta iota in H;
             destruct (unify_conc _ _ _ _ _ _ Hu Htx Hty) as [-> [-> [Et1 Et2]]]; subst ty).
      1-10: (apply cbind_ok in H; destruct H as [u0 [Hex H]]).
      13-14: (apply cbind_ok in H; destruct H as [u0 [Hex H]]; apply cbind_ok in H; destruct H as [y2 [Hcoc H]];
              destruct (coc_unsigned_deep_conc _ _ _ _ Hcoc Hty) as [-> Ey]).
      15-16: (destruct (ty_of x1) eqn:Ex1; try discriminate H; destruct (ty_of y1) eqn:Ey1; try discriminate H).
      all: inversion H; subst; clear H.
      all: cbn [conc_e export_expr export_op Wt.wt_expr export_ty ty_of conc_ty];
           rewrite ?e_ty_xe, ?Et2, ?Ey, ?Ex1, ?Ey1, ?Hc, ?Hc0, ?Hw, ?Hw0, ?Htx, ?xt_refl.
      1-5: rewrite (expect_num_x _ _ Hex).
      6-8: rewrite (orb_comm (Wt.is_int _)), (expect_bool_or_num_x _ _ Hex).
      9-10: rewrite (expect_num_x _ _ Hex).
      13-14: rewrite (expect_num_x _ _ Hex).
      all: split; reflexivity.
    + (* block *)
      apply cbind_ok in H. destruct H as [[[body ty] st1] [Hblk H]]. cbv beta iota in H. inv_all.
      destruct (HB _ _ _ _ _ ([] :: G) F Hf Hblk) as [Hcb Hwb].
      { apply good_with_env; [exact Hok|]. apply env_ok_push. exact (proj1 Hok). }
      { apply env_rel_push. exact Hrel. }
      { exact HF. }
      assert (Ety : ty = last_expr_ty body).
      { destruct f as [|f0]; [discriminate|]. cbn [check_block] in Hblk. refold Hblk. inv_all. reflexivity. }
      rewrite xe_block, wt_expr_block, Hwb, xt_refl. cbn [conc_e]. rewrite Hcb.
      rewrite Ety, (last_expr_ty_conc _ Hcb). split; reflexivity.
    + (* call *)
      apply cbind_ok in H. destruct H as [st1 [Hst1 H]]. cbv beta in H.
      assert (Hg1 : good st1 /\ st_env st1 = st_env st).
      { destruct (negb _) in Hst1; [|inversion Hst1; subst; split; [exact Hok|reflexivity]].
        destruct (find _ (d_fns D)) eqn:Ef; [|inversion Hst1; subst; split; [exact Hok|reflexivity]].
        apply cbind_ok in Hst1. destruct Hst1 as [[fd1 st2] [Hcf Hst1]]. cbn [fst snd] in Hst1. inversion Hst1; subst; clear Hst1.
        pose proof (proj2 (proj2 (proj2 (proj2 (check_env intern f D)))) _ _ _ Hcf) as He2. cbn [snd] in He2.
        pose proof (proj2 (proj2 (proj2 (proj2 (Qs_pres intern D f)))) _ _ _ Hcf (proj2 Hok)) as HQ2. cbn [snd] in HQ2.
        split; [split|]; cbn [st_env st_typed].
        - rewrite He2. exact (proj1 Hok).
        - constructor; [exact (Qs_ins _ _ _ _ _ _ _ Ef Hcf)|exact HQ2].
        - exact He2. }
      destruct Hg1 as [Hg1 Henv1]. clear Hst1.
      destruct (assocL f0 (st_typed st1)) as [fn_def|] eqn:Ea; [|discriminate].
      destruct (env_get (st_env st1) f0); [discriminate|].
      apply cbind_ok in H. destruct H as [[es1 st2] [Hes H]]. cbn [fst snd] in H.
      destruct (negb (lenN (tf_params fn_def) =? lenN es1)) eqn:El; [discriminate|].
      apply cbind_ok in H. destruct H as [args' [Hz H]]. inversion H; subst; clear H.
      assert (Hrel1 : env_rel (st_env st1) G) by (rewrite Henv1; exact Hrel).
      destruct (exprs_sound f F HE HF _ _ _ _ G Hf Hes Hg1 Hrel1) as [Hces [Hwes [Hlen Henv2]]].
      assert (HQ : Qs D (f0, fn_def)).
      { pose proof (proj2 Hg1) as HQall. rewrite Forall_forall in HQall. apply HQall. apply assocL_In. exact Ea. }
      destruct HQ as [ufd [Hfind [Hsp [Hsr _]]]]. cbn [fst snd] in *.
      destruct (P_sig _ _ _ _ Hfind Hsp Hsr) as [d [Hd [Hdp Hdr]]].
      assert (Hcr : conc_ty (tf_ty fn_def) = true).
      { pose proof (find_some _ _ Hfind) as [Hin _]. pose proof (D_frag _ Hin) as Hfr. unfold frag_fn in Hfr.
        apply andb_true_iff in Hfr. destruct Hfr as [Hfr _]. apply andb_true_iff in Hfr. destruct Hfr as [_ Hfr].
        eapply as_concrete_conc; [exact Hsr|exact Hfr]. }
      apply negb_false_iff in El. apply N.eqb_eq in El. unfold lenN in El. apply Nat2N.inj in El.
      destruct (call_args _ F G _ _ _ Hz Hces Hwes ltac:(lia)) as [-> Hargs].
      cbn [conc_e export_expr Wt.wt_expr export_ty]. rewrite Hcr, Hces, Hd, Hdr, xt_refl, Hdp, Hargs. split; reflexivity.
    + (* if *)
      apply andb_true_iff in Hf. destruct Hf as [Hf Hf3]. apply andb_true_iff in Hf. destruct Hf as [Hf1 Hf2].
      bind_e H c1 st1 Hc1. bind_e H a1 st2 Ha. bind_e H b1 st3 Hb.
      apply cbind_ok in H. destruct H as [c2 [Hct H]].
      apply cbind_ok in H. destruct H as [[[a2 b2] ty] [Hu H]]. cbv beta iota in H. inversion H; subst; clear H.
      sub_e HE G F HF Hc1. sub_e HE G F HF Ha. sub_e HE G F HF Hb.
      destruct (check_type_conc _ _ _ _ Hct Hc) as [-> Etc].
      destruct (unify_conc _ _ _ _ _ _ Hu (conc_e_ty _ Hc0) (conc_e_ty _ Hc2)) as [-> [-> [Et1 Et2]]]. subst ty.
      cbn [conc_e export_expr Wt.wt_expr export_ty ty_of].
      rewrite !e_ty_xe, Etc, Et2, xt_refl, Hc, Hc0, Hc2, Hw, Hw0, Hw1, (conc_e_ty _ Hc0). split; reflexivity.
    + (* cast *)
      apply andb_true_iff in Hf. destruct Hf as [Hf1 Hf2].
      apply cbind_ok in H. destruct H as [ty' [Hty H]]. bind_e H x1 st1 Hx.
      apply cbind_ok in H. destruct H as [u1 [Hex1 H]]. apply cbind_ok in H. destruct H as [u2 [Hex2 H]].
      inversion H; subst; clear H. sub_e HE G F HF Hx.
      cbn [conc_e export_expr Wt.wt_expr export_ty ty_of].
      rewrite e_ty_xe, xt_refl, Hc, Hw, (scalar_conc _ _ Hf1 Hty).
      rewrite (orb_comm (Wt.is_int (xt ty'))), (expect_bool_or_num_x _ _ Hex2).
      rewrite (orb_comm (Wt.is_int (xt (ty_of x1)))), (expect_bool_or_num_x _ _ Hex1). split; reflexivity.
    + (* range *)
      destruct ((hi <=? lo) || (u32_max <? hi - lo)) eqn:Er; [discriminate|]. inversion H; subst; clear H.
      apply orb_false_iff in Er. destruct Er as [Er _]. apply N.leb_gt in Er.
      cbn [conc_e conc_ty export_expr Wt.wt_expr].
      change (Ast.TArr (Ast.TInt false (ubits t)) (hi - lo)) with (xt (CArray (CUnsigned t) (hi - lo))).
      rewrite xt_refl. destruct t; try discriminate Hf; cbn [conc_ty];
        (split; [reflexivity|]; apply andb_true_iff; split; [apply N.leb_le; lia|reflexivity]).
  - (* ---------------------------------------------------------------- statements *)
    intros s st s' st' G F Hf H Hok Hrel HF. destruct F as [|F]; [lia|]. apply le_S_n in HF. destruct s; cbn [frag_s] in Hf;
      cbn [Infer.check_stmt] in H; refold H.
    + (* let *)
      apply andb_true_iff in Hf. destruct Hf as [Hfp Hfe].
      bind_e H e1 st1 He. sub_e HE G F HF He. pose proof (conc_e_ty _ Hc) as Hct.
      apply cbind_ok in H. destruct H as [e2 [Hann H]].
      assert (e2 = e1).
      { destruct ty; [|inversion Hann; reflexivity]. apply cbind_ok in Hann. destruct Hann as [ty' [_ Hann]].
        apply check_type_conc in Hann; tauto. }
      subst e2. clear Hann.
      apply cbind_ok in H. destruct H as [[p1 g1] [Hp H]]. apply cbind_ok in H. destruct H as [u0 [_ H]].
      cbn [fst snd] in H. inversion H; subst; clear H.
      destruct (pat_sound p _ _ _ _ Hfp Hp) as [Hpty [bs [Hwp [Hrp Hop]]]].
      split; [exact Hc|]. exists (Wt.tbind_all G bs false). cbn [st_env with_env].
      split; [|split; [apply good_with_env; [exact Hg|]; apply Hop; [assumption|exact (proj1 Hg)]|apply Hrp; env_tac]].
      rewrite xs_let, wt_stmt_let, Hw, e_ty_xe, Hpty, xt_refl, Hwp. reflexivity.
    + (* let mut *)
      bind_e H e1 st1 He. sub_e HE G F HF He. pose proof (conc_e_ty _ Hc) as Hct.
      apply cbind_ok in H. destruct H as [e2 [Hann H]].
      assert (e2 = e1).
      { destruct ty; [|inversion Hann; reflexivity]. apply cbind_ok in Hann. destruct Hann as [ty' [_ Hann]].
        apply check_type_conc in Hann; tauto. }
      subst e2. clear Hann.
      apply cbind_ok in H. destruct H as [e3 [Hi H]]. inversion H; subst; clear H.
      apply constrain_to_i32_conc in Hi; [|exact Hc]. subst e3.
      split; [exact Hc|]. exists (Wt.tbind G (intern x) (xt (ty_of e1)) true).
      split; [|split; [apply good_with_env; [exact Hg|]; apply env_ok_let; [exact (proj1 Hg)|assumption]|cbn [st_env with_env]; rewrite Henv; apply env_rel_let; assumption]].
      rewrite xs_letmut, wt_stmt_letmut, Hw, e_ty_xe. reflexivity.
    + (* assignment *)
      apply andb_true_iff in Hf. destruct Hf as [Hfa Hfe].
      destruct (env_get (st_env st) x) as [[tx [|]]|] eqn:Eg; try discriminate H.
      apply cbind_ok in H. destruct H as [[[tas t'] st1] [Hacc H]]. cbv beta iota in H.
      bind_e H v1 st2 Hv. apply cbind_ok in H. destruct H as [v2 [Hct H]]. inversion H; subst; clear H.
      destruct (accs_ok f F HE HF _ _ _ _ _ _ G Hfa Hacc Hok Hrel (proj1 Hok _ _ _ Eg)) as [Hago [Hct' [Henv1 Hg1]]].
      assert (Hr1 : env_rel (st_env st1) G) by (rewrite Henv1; exact Hrel).
      sub_e HE G F HF Hv. destruct (check_type_conc _ _ _ _ Hct Hc) as [-> Etv].
      split; [exact Hc|]. exists G. split; [|split; [exact Hg|env_tac]].
      destruct (proj1 Hrel _ _ _ Eg) as [m' [Hl Hm]]. rewrite (Hm eq_refl) in Hl.
      rewrite xs_assign, wt_stmt_assign, Hl, Hago, e_ty_xe, Etv, xt_refl, Hw. reflexivity.
    + (* for *)
      apply andb_true_iff in Hf. destruct Hf as [Hf Hfb]. apply andb_true_iff in Hf. destruct Hf as [Hfp Hfe].
      match type of H with (if ?c then _ else _) = _ => destruct c; [discriminate|] end.
      bind_e H a1 st1 Ha. sub_e HE G F HF Ha. pose proof (conc_e_ty _ Hc) as Hca.
      apply cbind_ok in H. destruct H as [el [Hel H]].
      destruct (ty_of a1) as [| | |el0 n0| | |] eqn:Eta; try discriminate Hel. cbn in Hel. inversion Hel; subst; clear Hel.
      cbn [conc_ty] in Hca.
      apply cbind_ok in H. destruct H as [[p1 g1] [Hp H]]. apply cbind_ok in H. destruct H as [u0 [_ H]].
      cbn [fst snd] in H. apply cbind_ok in H. destruct H as [[body1 st2] [Hbody H]]. cbn [fst snd] in H.
      inversion H; subst; clear H.
      destruct (pat_sound p _ _ _ _ Hfp Hp) as [Hpty [bs [Hwp [Hrp Hop]]]].
      destruct (HSs _ _ _ _ (Wt.tbind_all ([] :: G) bs false) F Hfb Hbody) as [Hcb [tb Hwb]]; [| |exact HF|].
      { apply good_with_env; [exact Hg|]. apply Hop; [exact Hca|]. apply env_ok_push. exact (proj1 Hg). }
      { cbn [st_env with_env]. apply Hrp. apply env_rel_push. env_tac. }
      pose proof (proj1 (proj2 (check_env intern f D)) _ _ _ Hbody) as Htl. cbn [snd st_env with_env] in Htl.
      pose proof (check_pattern_tl _ _ _ _ _ Hp) as Htl2. cbn [snd env_push tl] in Htl2.
      split; [cbn [conc_s]; rewrite Hc, Hcb; reflexivity|]. exists G.
      assert (Henvf : env_pop (st_env st2) = st_env st).
      { change env_pop with (@tl cscope). congruence. }
      pose proof (proj1 (proj2 (Qs_pres intern D f)) _ _ _ Hbody) as HQb. cbn [snd st_typed with_env] in HQb.
      split; [|split; [split; [cbn [st_env with_env]; rewrite Henvf; exact (proj1 Hok)|cbn [st_typed with_env]; apply HQb; exact (proj2 Hg)]|cbn [st_env with_env]; rewrite Henvf; exact Hrel]].
      rewrite xs_for, wt_stmt_for, e_ty_xe, Eta. cbn [export_ty]. rewrite Hw, Hpty, xt_refl, Hwp, Hwb. reflexivity.
    + (* expression statement *)
      bind_e H e1 st1 He. inversion H; subst; clear H.
      sub_e HE G F HF He. split; [exact Hc|]. exists G.
      split; [|split; [exact Hg|env_tac]].
      rewrite xs_expr, wt_stmt_expr, Hw, e_ty_xe. reflexivity.
Qed.

Corollary check_block_sound f : Bl f.
Proof. apply sound_all. Qed.
Corollary check_expr_sound f : E f.
Proof. apply sound_all. Qed.


(* ------------------------------------------------------------------ functions *)

Lemma params_ok : forall ps seen g tps g' G,
  forallb (fun p => conc_uty (upa_ty p)) ps = true ->
  (fix go (seen : list (list N)) (ps : list uparam) (g : cenv)
     : cres (list (bool * list N * cty) * cenv) :=
     match ps with
     | [] => COk ([], g)
     | p :: r =>
         if memL (upa_name p) seen then CErr E_DuplicateFnParam else
         do ty <- concrete_of D (upa_ty p);
         do r2 <- go (upa_name p :: seen) r (env_let g (upa_name p) ty (upa_mut p));
         COk ((upa_mut p, upa_name p, ty) :: fst r2, snd r2)
     end) seen ps g = COk (tps, g') ->
  env_ok g -> env_rel g G ->
  env_ok g' /\ env_rel g' (Wt.tbind_all G (xparams tps) true).
Proof.
  induction ps as [|p ps IH]; intros seen g tps g' G Hc H Hok Hrel.
  - inversion H; subst. cbn. auto.
  - cbn [forallb] in Hc. apply andb_true_iff in Hc. destruct Hc as [Hc1 Hc2].
    destruct (memL (upa_name p) seen); [discriminate|].
    apply cbind_ok in H. destruct H as [ty [Hty H]]. apply cbind_ok in H. destruct H as [[tps2 g2] [Hgo H]].
    cbn [fst snd] in H. inversion H; subst; clear H.
    pose proof (as_concrete_conc _ _ _ _ Hty Hc1) as Hcty.
    destruct (IH _ _ _ _ (Wt.tbind G (intern (upa_name p)) (xt ty) true) Hc2 Hgo) as [Hok' Hrel'].
    { apply env_ok_let; assumption. }
    { apply env_rel_let_mut; [reflexivity|assumption]. }
    split; [exact Hok'|]. exact Hrel'.
Qed.

Lemma map_last_check f t : forall b b',
  map_last_expr (fun x => check_type f x t) b = COk b' -> forallb conc_s b = true ->
  b' = b /\ forall e0, last (map Some b) None = Some (TSExpr e0) -> ty_of e0 = t.
Proof.
  induction b as [|s b IH]; intros b' H Hc; [cbn in H; inversion H; split; [reflexivity|discriminate]|].
  cbn [forallb] in Hc. apply andb_true_iff in Hc. destruct Hc as [Hc1 Hc2].
  cbn [map_last_expr] in H. destruct b as [|s2 b].
  - destruct s; try (inversion H; subst; split; [reflexivity|intros e0 He0; discriminate He0]).
    apply cbind_ok in H. destruct H as [e' [Hct H]]. inversion H; subst; clear H.
    destruct (check_type_conc _ _ _ _ Hct Hc1) as [-> Ht]. split; [reflexivity|].
    intros e0 He0. cbn in He0. injection He0 as <-. exact Ht.
  - assert (Hr : exists r', map_last_expr (fun x => check_type f x t) (s2 :: b) = COk r' /\ b' = s :: r').
    { destruct s; apply cbind_ok in H; destruct H as [r' [Hr H]]; inversion H; subst; eauto. }
    destruct Hr as [r' [Hr ->]]. destruct (IH _ Hr Hc2) as [-> Hl]. split; [reflexivity|].
    intros e0 He0. apply Hl. exact He0.
Qed.

(* UntypedFnDef::type_check: the body of the typed function passes the re-checker in the
   environment Wt.wt_fn builds from the parameters (over the consts environment gc), with the declared return type *)
Lemma fn_sound f fd st tfd st' F :
  frag_fn fd = true -> check_fn intern f D st fd = COk (tfd, st') -> (f <= S F)%nat ->
  Forall (Qs D) (st_typed st) ->
  exists t,
    Wt.wt_block F P' ([] :: Wt.tbind_all ([] :: gc) (Ast.fn_params (export_fn intern en tfd)) true)
                (Ast.fn_body (export_fn intern en tfd)) = Some t /\
    Wt.ty_eqb t (Ast.fn_ret (export_fn intern en tfd)) = true.
Proof.
  intros Hfr H HF HQ. destruct f as [|f]; [discriminate|]. apply le_S_n in HF.
  unfold frag_fn in Hfr. apply andb_true_iff in Hfr. destruct Hfr as [Hfp Hfb]. apply andb_true_iff in Hfp. destruct Hfp as [Hfp _].
  cbn [Infer.check_fn] in H. refold H.
  destruct (memL (uf_name fd) (st_checking st)); [discriminate|].
  apply cbind_ok in H. destruct H as [[tps g1] [Hps H]]. cbn [fst snd] in H.
  apply cbind_ok in H. destruct H as [[[body ty] st1] [Hblk H]]. cbv beta iota zeta in H.
  apply cbind_ok in H. destruct H as [ret_ty [Hret H]]. apply cbind_ok in H. destruct H as [body' [Hlast H]].
  inversion H; subst; clear H.
  destruct (params_ok _ _ _ _ _ ([] :: gc) Hfp Hps) as [Hok1 Hrel1].
  { intros x t m Hx. discriminate Hx. }
  { split; [intros x t m Hx; discriminate Hx|]. intros x t _ Hc. cbn [Wt.tlookup Ast.assocN]. apply gc_consts. exact Hc. }
  destruct (proj1 (proj2 (proj2 (sound_all f))) _ _ _ _ _ ([] :: Wt.tbind_all ([] :: gc) (xparams tps) true) F Hfb Hblk) as [Hcb Hwb].
  { split; [exact Hok1|exact HQ]. }
  { cbn [st_env]. destruct Hrel1 as [Hr1 Hr2]. split.
    - intros x t m Hx. apply Hr1 in Hx. cbn [Wt.tlookup Ast.assocN]. exact Hx.
    - intros x t Hx Hc. cbn [Wt.tlookup Ast.assocN]. eauto. }
  { exact HF. }
  assert (Ety : ty = last_expr_ty body).
  { destruct f as [|f0]; [discriminate|]. cbn [check_block] in Hblk. refold Hblk. inv_all. reflexivity. }
  assert (Hb' : body' = body /\ ty = ret_ty).
  { unfold last_expr_ty in Ety. destruct (last (map Some body) None) as [[]|] eqn:El.
    all: try (destruct (cty_eqb ret_ty unit_cty) eqn:Eu; [|discriminate Hlast]; cbn [negb] in Hlast;
              inversion Hlast; subst; apply cty_eqb_eq in Eu; auto).
    destruct (map_last_check _ _ _ _ Hlast Hcb) as [-> Hl]. split; [reflexivity|]. rewrite Ety. apply Hl. exact El. }
  destruct Hb' as [-> ->].
  exists (xt ret_ty). cbn [export_fn Ast.fn_params Ast.fn_body Ast.fn_ret tf_params tf_body tf_ty].
  fold (xparams tps). split; [exact Hwb|apply xt_refl].
Qed.

End Sound.

(* ================================================================== whole programs *)

Fixpoint nodupL (l : list (list N)) : bool :=
  match l with
  | [] => true
  | x :: r => negb (memL x r) && nodupL r
  end.

Lemma nodupL_NoDup l : nodupL l = true -> NoDup l.
Proof.
  induction l as [|x r IH]; [constructor|]. cbn [nodupL]. intro H. apply andb_true_iff in H. destruct H as [H1 H2].
  constructor; [|auto]. intro Hin. apply negb_true_iff in H1. unfold memL in H1.
  rewrite <- not_true_iff_false in H1. apply H1. apply existsb_exists. exists x. split; [exact Hin|apply list_eqb_refl].
Qed.

(* THE BOOLEAN FRAGMENT TEST (over the untyped program): no consts; struct / enum / function
   names pairwise distinct (HashMaps); the field / payload / parameter / return types are concrete
   (no Unspecified, no const-sized arrays; named types allowed); every function body is made of
   the constructs of [frag_s]: all numbers suffixed and in the range of their suffix. *)
Definition variant_tys (v : uvariant) : list utype := match v with UVUnit _ => [] | UVTuple _ tys => tys end.

(* a const is a literal of exactly its declared type, in the range of that type *)
Definition const_frag (c : uconstdef) : bool :=
  match uc_ty c, uc_value c with
  | UTBool, (CETrue | CEFalse) => true
  | UTUnsigned t, CENumUnsigned n t' => unsigned_eqb t t' && lit_u_ok n t
  | UTSigned t, CENumSigned z t' => signed_eqb t t' && lit_s_ok z t
  | _, _ => false
  end.
Definition const_t (c : uconstdef) : list N * texpr :=
  (uc_name c,
   match uc_value c with
   | CEFalse => TE TFalse CBool
   | CENumUnsigned n t => TE (TNumUnsigned n t) (CUnsigned t)
   | CENumSigned z t => TE (TNumSigned z t) (CSigned t)
   | _ => TE TTrue CBool
   end).

Definition in_sound_fragment (P : uprogram) : bool :=
  nodupL (map uc_name (up_consts P)) && forallb const_frag (up_consts P) &&
  nodupL (map us_name (up_structs P)) && nodupL (map ue_name (up_enums P)) &&
  forallb (fun sd => forallb (fun ft => conc_uty (snd ft)) (us_fields sd)) (up_structs P) &&
  forallb (fun ed => forallb (fun v => forallb conc_uty (variant_tys v)) (ue_variants ed)) (up_enums P) &&
  nodupL (map uf_name (up_fns P)) && forallb frag_fn (up_fns P).

Lemma check_consts_spec : forall cs done res,
  forallb const_frag cs = true -> check_consts cs done = COk res -> res = rev done ++ map const_t cs.
Proof.
  induction cs as [|c cs IH]; intros done res Hf H; cbn [check_consts] in H.
  - inversion H. cbn. rewrite app_nil_r. reflexivity.
  - cbn [forallb] in Hf. apply andb_true_iff in Hf. destruct Hf as [Hc Hf].
    assert (Hv : exists v, const_t c = (uc_name c, v) /\ check_consts cs ((uc_name c, v) :: done) = COk res).
    { unfold const_frag in Hc. unfold const_t.
      destruct (uc_ty c) eqn:Et; try discriminate Hc; destruct (uc_value c) eqn:Ev; try discriminate Hc;
        cbn [const_lit cty_eqb cbind] in H.
      - eauto.
      - eauto.
      - apply andb_true_iff in Hc. destruct Hc as [Hc _]. unfold unsigned_eqb in *.
        destruct (unsigned_num_type_eq_dec t t0); [|discriminate]. subst. 
        destruct (unsigned_num_type_eq_dec t0 t0); [|congruence]. cbn [cbind] in H. eauto.
      - apply andb_true_iff in Hc. destruct Hc as [Hc _]. unfold signed_eqb in *.
        destruct (signed_num_type_eq_dec t t0); [|discriminate]. subst.
        destruct (signed_num_type_eq_dec t0 t0); [|congruence]. cbn [cbind] in H. eauto. }
    destruct Hv as [v [Hct Hr]]. rewrite (IH _ _ Hf Hr). cbn [rev map]. rewrite Hct, <- app_assoc. reflexivity.
Qed.

Section Program.
Variable intern : list N -> N.
Hypothesis intern_inj : forall a b, intern a = intern b -> a = b.

Lemma Forall_filter' {A} (Q : A -> Prop) p l : Forall Q l -> Forall Q (filter p l).
Proof. rewrite !Forall_forall. intros H x Hx. apply filter_In in Hx. apply H, Hx. Qed.

Lemma In_insert_field {A} (x f : list N * A) l : In x (insert_field f l) <-> x = f \/ In x l.
Proof.
  induction l as [|g r IH]; cbn [insert_field].
  - split; [intros [<-|[]]; auto|intros [->|[]]; left; reflexivity].
  - destruct (name_ltb (fst f) (fst g)).
    + split; [intros [<-|H]; auto|intros [->|H]; [left; reflexivity|right; exact H]].
    + split.
      * intros [<-|H]; [right; left; reflexivity|]. apply IH in H. destruct H; [auto|right; right; assumption].
      * intros [->|[<-|H]]; [right; apply IH; auto|left; reflexivity|right; apply IH; auto].
Qed.

Lemma In_sort_fields {A} (x : list N * A) l : In x (sort_fields l) <-> In x l.
Proof.
  unfold sort_fields.
  assert (H : forall l acc, In x (fold_left (fun acc f => insert_field f acc) l acc) <-> In x acc \/ In x l).
  { induction l0 as [|f r IH]; intros acc; cbn [fold_left]; [cbn; tauto|].
    rewrite IH, In_insert_field. cbn [In]. split; intros H; [|]; intuition (subst; auto). }
  rewrite H. cbn [In]. tauto.
Qed.

Lemma find_by_name' (l : list ufndef) : NoDup (map uf_name l) ->
  forall fd, In fd l -> find (fun d => list_eqb (uf_name d) (uf_name fd)) l = Some fd.
Proof.
  induction l as [|d l IH]; intros Hnd fd Hin; [destruct Hin|].
  inversion Hnd as [|? ? Hnotin Hnd']; subst. cbn [find].
  destruct Hin as [->|Hin]; [rewrite list_eqb_refl; reflexivity|].
  destruct (list_eqb (uf_name d) (uf_name fd)) eqn:E; [|apply IH; assumption].
  apply list_eqb_eq in E. exfalso. apply Hnotin. rewrite E. apply in_map. assumption.
Qed.

Lemma find_exists {A} (p : A -> bool) l x : In x l -> p x = true -> exists y, find p l = Some y.
Proof.
  induction l as [|a l IH]; [intros []|]. intros [->|Hin] Hp; cbn [find].
  - rewrite Hp. eauto.
  - destruct (p a); eauto.
Qed.

Definition has_key (k : list N) (l : list (list N * tfndef)) : Prop := exists v, In (k, v) l.

Lemma has_key_step k name v l :
  has_key k l -> has_key k ((name, v) :: filter (fun nd => negb (list_eqb (fst nd) name)) l).
Proof.
  intros [w Hw]. destruct (list_eqb k name) eqn:E.
  - apply list_eqb_eq in E. subst. exists v. left. reflexivity.
  - exists w. right. apply filter_In. split; [exact Hw|]. cbn [fst]. rewrite E. reflexivity.
Qed.

(* the pub-fn loop of UntypedProgram::type_check *)
Lemma pub_loop_gen D fuel (J : list (list N * tfndef) -> Prop) (all : list ufndef) :
  (forall st fd r, In fd all -> check_fn intern fuel D st fd = COk r -> J (st_typed st) ->
     J ((uf_name fd, fst r) :: filter (fun nd => negb (list_eqb (fst nd) (uf_name fd))) (st_typed (snd r)))) ->
  forall fns st st', (forall fd, In fd fns -> In fd all) ->
  (fix go (fns : list ufndef) (st : cstate) : cres cstate :=
     match fns with
     | [] => COk st
     | fd :: r =>
         if uf_pub fd then
           match uf_params fd with
           | [] => CErr E_PubFnWithoutParams
           | _ =>
               do r1 <- check_fn intern fuel D st fd;
               go r (mkSt (st_env (snd r1))
                          ((uf_name fd, fst r1) ::
                           filter (fun nd => negb (list_eqb (fst nd) (uf_name fd))) (st_typed (snd r1)))
                          (st_checking (snd r1)))
           end
         else go r st
     end) fns st = COk st' ->
  J (st_typed st) -> J (st_typed st').
Proof.
  intros Hstep. induction fns as [|fd fns IH]; intros st st' Hsub H HJ.
  - inversion H; subst. exact HJ.
  - destruct (uf_pub fd).
    + destruct (uf_params fd); [discriminate|].
      apply cbind_ok in H. destruct H as [[tfd st1] [H1 H2]]. cbn [fst snd] in H2.
      apply IH in H2; [exact H2|intros; apply Hsub; right; assumption|].
      cbn [st_typed]. apply (Hstep _ _ _ (Hsub _ (or_introl eq_refl)) H1 HJ).
    + apply IH in H; [exact H|intros; apply Hsub; right; assumption|exact HJ].
Qed.

(* every pub function has an entry after the loop (keys persist: the typed map only grows) *)
Lemma pub_loop_keys D fuel : forall fns st st',
  (fix go (fns : list ufndef) (st : cstate) : cres cstate :=
     match fns with
     | [] => COk st
     | fd :: r =>
         if uf_pub fd then
           match uf_params fd with
           | [] => CErr E_PubFnWithoutParams
           | _ =>
               do r1 <- check_fn intern fuel D st fd;
               go r (mkSt (st_env (snd r1))
                          ((uf_name fd, fst r1) ::
                           filter (fun nd => negb (list_eqb (fst nd) (uf_name fd))) (st_typed (snd r1)))
                          (st_checking (snd r1)))
           end
         else go r st
     end) fns st = COk st' ->
  (forall k, has_key k (st_typed st) -> has_key k (st_typed st')) /\
  (forall fd, In fd fns -> uf_pub fd = true -> has_key (uf_name fd) (st_typed st')).
Proof.
  assert (Hkeys : forall st fd r k, check_fn intern fuel D st fd = COk r ->
            has_key k (st_typed st) -> has_key k (st_typed (snd r))).
  { intros st fd r k Hc Hk.
    pose proof (check_typed_rel intern D (list N) has_key fuel) as Hrel.
    assert (Hins : forall f st ufd r id k, (f < fuel)%nat -> has_key k (st_typed st) ->
              find (fun d => list_eqb (uf_name d) id) (d_fns D) = Some ufd ->
              check_fn intern f D st ufd = COk r -> has_key k (st_typed (snd r)) ->
              has_key k ((id, fst r) :: st_typed (snd r))).
    { intros _ _ _ r0 id k0 _ _ _ _ [v Hv]. exists v. right. exact Hv. }
    exact (proj2 (proj2 (proj2 (proj2 (Hrel Hins fuel (le_n fuel))))) _ _ _ Hc k Hk). }
  induction fns as [|fd fns IH]; intros st st' H.
  - inversion H; subst. split; [auto|intros fd []].
  - destruct (uf_pub fd) eqn:Epub.
    + destruct (uf_params fd); [discriminate|].
      apply cbind_ok in H. destruct H as [[tfd st1] [H1 H2]]. cbn [fst snd] in H2.
      destruct (IH _ _ H2) as [Hp Hin]. cbn [st_typed] in Hp. split.
      * intros k Hk. apply Hp. apply has_key_step. exact (Hkeys _ _ _ k H1 Hk).
      * intros fd' [<-|Hin'] Hpub; [|apply Hin; assumption].
        apply Hp. exists tfd. left. reflexivity.
    + destruct (IH _ _ H) as [Hp Hin]. split; [exact Hp|].
      intros fd' [<-|Hin'] Hpub; [congruence|apply Hin; assumption].
Qed.


Lemma nodup_key_unique {A} (l : list (list N * A)) k v v' :
  NoDup (map fst l) -> In (k, v) l -> In (k, v') l -> v = v'.
Proof.
  induction l as [|[k0 v0] l IH]; intros Hnd H1 H2; [destruct H1|]. cbn [map fst] in Hnd. inversion Hnd as [|? ? Hn Hnd']; subst.
  destruct H1 as [H1|H1]; destruct H2 as [H2|H2].
  - congruence.
  - inversion H1; subst. exfalso. apply Hn. change k with (fst (k, v')). apply in_map. exact H2.
  - inversion H2; subst. exfalso. apply Hn. change k with (fst (k, v)). apply in_map. exact H1.
  - eauto.
Qed.

Lemma In_assocL {A} (l : list (list N * A)) k v : In (k, v) l -> exists v', assocL k l = Some v'.
Proof.
  induction l as [|[k0 v0] l IH]; [intros []|]. intros [H|H]; cbn [assocL].
  - inversion H; subst. rewrite list_eqb_refl. eauto.
  - destruct (list_eqb k k0); eauto.
Qed.

Lemma assocL_sort {A} (l : list (list N * A)) k v :
  NoDup (map fst l) -> assocL k l = Some v -> assocL k (sort_fields l) = Some v.
Proof.
  intros Hnd H. apply assocL_In in H.
  destruct (In_assocL (sort_fields l) k v (proj2 (In_sort_fields _ _) H)) as [v' Hv'].
  rewrite Hv'. f_equal. apply assocL_In in Hv'. apply (proj1 (In_sort_fields _ _)) in Hv'.
  eapply nodup_key_unique; eauto.
Qed.

Lemma mapM_names {A B} (g : A -> cres (list N * B)) (nm : A -> list N) :
  (forall a r, g a = COk r -> fst r = nm a) ->
  forall l l', mapM g l = COk l' -> map fst l' = map nm l.
Proof.
  intros Hg. induction l as [|a l IH]; intros l' H; cbn [mapM] in H.
  - inversion H. reflexivity.
  - apply cbind_ok in H. destruct H as [x [Hx H]]. apply cbind_ok in H. destruct H as [r [Hr H]]. inversion H; subst.
    cbn [map]. rewrite (Hg _ _ Hx), (IH _ Hr). reflexivity.
Qed.

Lemma mapM_In {A B} (g : A -> cres B) : forall l l' y, mapM g l = COk l' -> In y l' -> exists x, In x l /\ g x = COk y.
Proof.
  induction l as [|a l IH]; intros l' y H Hy; cbn [mapM] in H.
  - inversion H; subst. destruct Hy.
  - apply cbind_ok in H. destruct H as [x [Hx H]]. apply cbind_ok in H. destruct H as [r [Hr H]]. inversion H; subst.
    destruct Hy as [<-|Hy]; [exists a; split; [left; reflexivity|exact Hx]|].
    destruct (IH _ _ Hr Hy) as [x0 [Hin Hg]]. exists x0. split; [right; exact Hin|exact Hg].
Qed.

Lemma struct_def_conc sn en sd r :
  check_struct_def sn en sd = COk r -> forallb (fun ft => conc_uty (snd ft)) (us_fields sd) = true ->
  fst r = us_name sd /\ forall f t, In (f, t) (snd r) -> conc_ty t = true.
Proof.
  unfold check_struct_def. intros H Hc. apply cbind_ok in H. destruct H as [fields [Hf H]]. inversion H; subst; clear H.
  split; [reflexivity|]. cbn [snd].
  revert fields Hf Hc. generalize (@nil (list N)). induction (us_fields sd) as [|[n ty] fs IH]; intros seen fields Hf Hc.
  - inversion Hf; subst. intros f t [].
  - destruct (memL n seen); [discriminate|]. apply cbind_ok in Hf. destruct Hf as [ty' [Hty Hf]].
    apply cbind_ok in Hf. destruct Hf as [r' [Hr Hf]]. inversion Hf; subst; clear Hf.
    cbn [forallb snd] in Hc. apply andb_true_iff in Hc. destruct Hc as [Hc1 Hc2].
    intros f t [Heq|Hin]; [inversion Heq; subst; eapply as_concrete_conc; eauto|eapply IH; eauto].
Qed.

Lemma mapM_conc sn en : forall tys tys', mapM (as_concrete_type sn en) tys = COk tys' ->
  forallb conc_uty tys = true -> forallb conc_ty tys' = true.
Proof.
  induction tys as [|t tys IH]; intros tys' H Hc; cbn [mapM] in H.
  - inversion H. reflexivity.
  - apply cbind_ok in H. destruct H as [x [Hx H]]. apply cbind_ok in H. destruct H as [r [Hr H]]. inversion H; subst.
    cbn [forallb] in *. apply andb_true_iff in Hc. destruct Hc as [Hc1 Hc2].
    rewrite (as_concrete_conc _ _ _ _ Hx Hc1), (IH _ Hr Hc2). reflexivity.
Qed.

Lemma struct_def_nodup sn en sd r : check_struct_def sn en sd = COk r -> NoDup (map fst (snd r)).
Proof.
  unfold check_struct_def. intro H. apply cbind_ok in H. destruct H as [fields [Hf H]]. inversion H; subst; clear H. cbn [snd].
  assert (Hgen : forall fs seen fields,
    (fix go (seen : list (list N)) (fs : list (list N * utype)) : cres (list (list N * cty)) :=
       match fs with
       | [] => COk []
       | (name, ty) :: r =>
           if memL name seen then CErr E_DuplicateStructField else
           do ty' <- as_concrete_type sn en ty; do r' <- go (name :: seen) r; COk ((name, ty') :: r')
       end) seen fs = COk fields ->
    NoDup (map fst fields) /\ forall x, In x seen -> ~ In x (map fst fields)).
  { induction fs as [|[n ty] fs IH]; intros seen fields0 H0.
    - inversion H0; subst. split; [constructor|auto].
    - destruct (memL n seen) eqn:Em; [discriminate|]. apply cbind_ok in H0. destruct H0 as [ty' [_ H0]].
      apply cbind_ok in H0. destruct H0 as [r' [Hr H0]]. inversion H0; subst; clear H0.
      destruct (IH _ _ Hr) as [Hnd Hs]. cbn [map fst]. split.
      + constructor; [apply Hs; left; reflexivity|exact Hnd].
      + intros x Hx [Heq|Hin]; [subst x; exact (memL_false_notin _ _ Em Hx)|exact (Hs x (or_intror Hx) Hin)]. }
  exact (proj1 (Hgen _ _ _ Hf)).
Qed.

Lemma enum_def_conc sn en ed r :
  check_enum_def sn en ed = COk r -> forallb (fun v => forallb conc_uty (variant_tys v)) (ue_variants ed) = true ->
  fst r = ue_name ed /\ forall v ts, In (v, Some ts) (snd r) -> forallb conc_ty ts = true.
Proof.
  unfold check_enum_def. intros H Hc. apply cbind_ok in H. destruct H as [variants [Hv H]]. inversion H; subst; clear H.
  split; [reflexivity|]. cbn [snd].
  revert variants Hv Hc. generalize (@nil (list N)). induction (ue_variants ed) as [|v vs IH]; intros seen variants Hv Hc.
  - inversion Hv; subst. intros v ts [].
  - destruct (memL (variant_name v) seen); [discriminate|]. apply cbind_ok in Hv. destruct Hv as [v' [Hv' Hv]].
    apply cbind_ok in Hv. destruct Hv as [r' [Hr Hv]]. inversion Hv; subst; clear Hv.
    cbn [forallb] in Hc. apply andb_true_iff in Hc. destruct Hc as [Hc1 Hc2].
    intros v0 ts [Heq|Hin]; [|eapply IH; eauto].
    rewrite Heq in Hv'. destruct v as [n|n tys]; [discriminate Hv'|].
    apply cbind_ok in Hv'. destruct Hv' as [tys' [Htys Hv']]. inversion Hv'; subst.
    cbn [variant_tys] in Hc1. eapply mapM_conc; eauto.
Qed.

Lemma NoDup_map_inj' {A B} (g : A -> B) l : (forall a b, g a = g b -> a = b) -> NoDup l -> NoDup (map g l).
Proof.
  intros Hg. induction 1 as [|x l Hn Hnd IH]; cbn [map]; constructor; [|exact IH].
  intro Hin. apply in_map_iff in Hin. destruct Hin as [y [Hy Hin]]. apply Hg in Hy. subst. contradiction.
Qed.

Lemma tlookup_tbind_all_notin (l : list (N * Ast.ty)) m k : forall G,
  ~ In k (map fst l) -> Wt.tlookup (Wt.tbind_all G l m) k = Wt.tlookup G k.
Proof.
  unfold Wt.tbind_all. induction l as [|[k0 t0] l IH]; intros G Hn; [reflexivity|]. cbn [fold_left fst snd].
  rewrite IH; [|intro H; apply Hn; right; exact H]. rewrite tlookup_tbind.
  destruct (N.eqb_spec k k0) as [->|Hne]; [exfalso; apply Hn; left; reflexivity|reflexivity].
Qed.

Lemma tlookup_tbind_all_in (l : list (N * Ast.ty)) m k t : forall G,
  NoDup (map fst l) -> In (k, t) l -> Wt.tlookup (Wt.tbind_all G l m) k = Some (t, m).
Proof.
  induction l as [|[k0 t0] l IH]; intros G Hnd Hin; [destruct Hin|]. cbn [map fst] in Hnd. inversion Hnd as [|? ? Hn Hnd']; subst.
  change (Wt.tbind_all G ((k0, t0) :: l) m) with (Wt.tbind_all (Wt.tbind G k0 t0 m) l m).
  destruct Hin as [Heq|Hin].
  - inversion Heq; subst. rewrite tlookup_tbind_all_notin by exact Hn. rewrite tlookup_tbind, N.eqb_refl. reflexivity.
  - apply IH; assumption.
Qed.

(* the exported function passes Wt.wt_fn *)
Definition Qwt (ens : list (list N * list (list N * option (list cty)))) (P' : Ast.program) (nd : list N * tfndef) : Prop :=
  exists t,
    Wt.wt_block Wt.wt_fuel P' ([] :: Wt.tbind_all ([] :: Wt.consts_tenv P') (Ast.fn_params (export_fn intern ens (snd nd))) true)
                (Ast.fn_body (export_fn intern ens (snd nd))) = Some t /\
    Wt.ty_eqb t (Ast.fn_ret (export_fn intern ens (snd nd))) = true.

Theorem check_sound_fragment fuel P P' :
  in_sound_fragment P = true -> (fuel <= S Wt.wt_fuel)%nat ->
  check_program intern fuel P = COk P' -> Wt.wt_program P' = true.
Proof.
  intros Hfrag Hfuel H. unfold in_sound_fragment in Hfrag.
  repeat (apply andb_true_iff in Hfrag; let Hx := fresh "Hx" in destruct Hfrag as [Hfrag Hx]).
  rename Hx into Hfragf, Hx0 into Hnd, Hx1 into Hce, Hx2 into Hcs, Hx3 into Hnde, Hx4 into Hnds, Hx5 into Hcc, Hfrag into Hndc.
  apply nodupL_NoDup in Hnd. apply nodupL_NoDup in Hnds. apply nodupL_NoDup in Hnde. apply nodupL_NoDup in Hndc.
  unfold check_program in H. apply cbind_ok in H. destruct H as [T [HT H]]. inversion H; subst; clear H.
  unfold check_program_t in HT.
  apply cbind_ok in HT. destruct HT as [consts [Hconsts HT]].
  apply (check_consts_spec _ _ _ Hcc) in Hconsts. cbn [rev app] in Hconsts. subst consts.
  apply cbind_ok in HT. destruct HT as [structs [Hstructs HT]].
  apply cbind_ok in HT. destruct HT as [enums [Henums HT]].
  apply cbind_ok in HT. destruct HT as [u0 [_ HT]].
  cbv zeta in HT.
  match type of HT with context [check_fn intern fuel ?D0] => set (D := D0) in * end.
  apply cbind_ok in HT. destruct HT as [stf [Hloop HT]].
  match type of HT with (if ?c then _ else _) = _ => destruct c eqn:Eun; [discriminate|] end.
  inversion HT; subst; clear HT.
  set (P' := export_program intern (mkTProgram (map const_t (up_consts P)) structs enums (st_typed stf) (up_main P))).
  (* the definitions *)
  assert (Hsn : map fst structs = map us_name (up_structs P)).
  { eapply mapM_names; [|exact Hstructs]. intros a r Hr. unfold check_struct_def in Hr.
    apply cbind_ok in Hr. destruct Hr as [? [_ Hr]]. inversion Hr. reflexivity. }
  assert (Hen : map fst enums = map ue_name (up_enums P)).
  { eapply mapM_names; [|exact Henums]. intros a r Hr. unfold check_enum_def in Hr.
    apply cbind_ok in Hr. destruct Hr as [? [_ Hr]]. inversion Hr. reflexivity. }
  assert (P_structs : forall name def, assocL name (d_structs D) = Some def ->
            Ast.assocN (intern name) (Ast.p_structs P') = Some (xfields intern def)).
  { intros name def Ha. cbn [P' export_program Ast.p_structs tp_structs].
    change (map (fun sd : list N * list (list N * cty) => (intern (fst sd), map (fun ft : list N * cty => (intern (fst ft), export_ty intern (snd ft))) (snd sd))) (sort_fields structs))
      with (map (fun sd : list N * list (list N * cty) => (intern (fst sd), xfields intern (snd sd))) (sort_fields structs)).
    rewrite (assocN_map_intern intern intern_inj). rewrite (assocL_sort structs name def); [reflexivity| |exact Ha].
    rewrite Hsn. exact Hnds. }
  assert (P_enums : forall name vs, assocL name (d_enums D) = Some vs ->
            Ast.assocN (intern name) (Ast.p_enums P') = Some (xvariants intern vs)).
  { intros name vs Ha. cbn [P' export_program Ast.p_enums tp_enums].
    change (map (fun ed : list N * list (list N * option (list cty)) => (intern (fst ed), map (fun v : list N * option (list cty) => match snd v with Some ts => map (export_ty intern) ts | None => [] end) (snd ed))) (sort_fields enums))
      with (map (fun ed : list N * list (list N * option (list cty)) => (intern (fst ed), xvariants intern (snd ed))) (sort_fields enums)).
    rewrite (assocN_map_intern intern intern_inj). rewrite (assocL_sort enums name vs); [reflexivity| |exact Ha].
    rewrite Hen. exact Hnde. }
  assert (D_conc_s : forall name def f t, assocL name (d_structs D) = Some def -> assocL f def = Some t -> conc_ty t = true).
  { intros name def f t Ha Hf. apply assocL_In in Ha. apply assocL_In in Hf. cbn [D d_structs] in Ha.
    destruct (mapM_In _ _ _ _ Hstructs Ha) as [sd [Hsd Hcd]]. rewrite forallb_forall in Hcs.
    destruct (struct_def_conc _ _ _ _ Hcd (Hcs _ Hsd)) as [_ Hall]. eapply Hall. exact Hf. }
  assert (D_nodup_s : forall name def, assocL name (d_structs D) = Some def -> NoDup (map fst def)).
  { intros name def Ha. apply assocL_In in Ha. cbn [D d_structs] in Ha.
    destruct (mapM_In _ _ _ _ Hstructs Ha) as [sd [Hsd Hcd]]. exact (struct_def_nodup _ _ _ _ Hcd). }
  assert (D_conc_e : forall name vs v ts, assocL name (d_enums D) = Some vs -> assocL v vs = Some (Some ts) -> forallb conc_ty ts = true).
  { intros name vs v ts Ha Hv. apply assocL_In in Ha. apply assocL_In in Hv. cbn [D d_enums] in Ha.
    destruct (mapM_In _ _ _ _ Henums Ha) as [ed [Hed Hcd]]. rewrite forallb_forall in Hce.
    destruct (enum_def_conc _ _ _ _ Hcd (Hce _ Hed)) as [_ Hall]. eapply Hall. exact Hv. }
  assert (Hdc : forall x t, assocL x (d_consts D) = Some t -> exists c, In c (up_consts P) /\ uc_name c = x /\ ty_of (snd (const_t c)) = t).
  { intros x t Ha. apply assocL_In in Ha. cbn [D d_consts] in Ha. rewrite map_map in Ha. apply in_map_iff in Ha.
    destruct Ha as [c [Hc Hin]]. inversion Hc; subst. exists c. auto. }
  assert (D_conc_c : forall x t, assocL x (d_consts D) = Some t -> conc_ty t = true).
  { intros x t Ha. destruct (Hdc _ _ Ha) as [c [Hin [_ <-]]]. rewrite forallb_forall in Hcc. pose proof (Hcc _ Hin) as Hc.
    unfold const_frag in Hc. unfold const_t. cbn [snd].
    destruct (uc_ty c) as [|tu|ts| | | | |]; try discriminate Hc;
      destruct (uc_value c) as [| |n tv|z tv| | | | | |]; try discriminate Hc; cbn [ty_of conc_ty]; try reflexivity;
      apply andb_true_iff in Hc; destruct Hc as [He Hl].
    - unfold unsigned_eqb in He. destruct (unsigned_num_type_eq_dec tu tv); [subst|discriminate]. destruct tv; try discriminate Hl; reflexivity.
    - unfold signed_eqb in He. destruct (signed_num_type_eq_dec ts tv); [subst|discriminate]. destruct tv; try discriminate Hl; reflexivity. }
  assert (gc_consts : forall x t, assocL x (d_consts D) = Some t ->
            exists m', Wt.tlookup (Wt.consts_tenv P') (intern x) = Some (export_ty intern t, m')).
  { intros x t Ha. destruct (Hdc _ _ Ha) as [c [Hin [<- <-]]]. exists false.
    unfold Wt.consts_tenv. cbn [P' export_program Ast.p_consts tp_consts tp_enums].
    apply tlookup_tbind_all_in.
    - rewrite !map_map. cbn [fst]. rewrite <- (map_map uc_name intern).
      apply NoDup_map_inj'; [exact intern_inj|exact Hndc].
    - rewrite !map_map. apply in_map_iff. exists c. split; [|exact Hin]. cbn [fst snd].
      f_equal. destruct (snd (const_t c)); reflexivity. }
  assert (D_frag : forall ufd, In ufd (d_fns D) -> frag_fn ufd = true).
  { intros ufd Hin. rewrite forallb_forall in Hfragf. apply Hfragf. exact Hin. }
  assert (Hfind : forall fd, In fd (up_fns P) -> find (fun d => list_eqb (uf_name d) (uf_name fd)) (d_fns D) = Some fd).
  { intros fd Hin. apply (find_by_name' _ Hnd _ Hin). }
  (* F1: the entries have the static signatures *)
  assert (HQs : Forall (Qs D) (st_typed stf)).
  { eapply (pub_loop_gen D fuel (Forall (Qs D)) (up_fns P)); [|intros fd Hin; exact Hin|exact Hloop|constructor].
    intros st fd r Hin Hc HJ. constructor.
    - apply (Qs_ins intern D fuel st fd r (uf_name fd) (Hfind _ Hin) Hc).
    - apply Forall_filter'. exact (proj2 (proj2 (proj2 (proj2 (Qs_pres intern D fuel)))) _ _ _ Hc HJ). }
  (* F2: every function has an entry *)
  assert (Hkey : forall fd, In fd (up_fns P) -> has_key (uf_name fd) (st_typed stf)).
  { intros fd Hin. destruct (uf_pub fd) eqn:Epub.
    - exact (proj2 (pub_loop_keys D fuel _ _ _ Hloop) fd Hin Epub).
    - rewrite <- not_true_iff_false in Eun. rewrite existsb_exists in Eun.
      destruct (assocL (uf_name fd) (st_typed stf)) as [tfd|] eqn:Ea.
      + exists tfd. apply assocL_In. exact Ea.
      + exfalso. apply Eun. exists fd. split; [exact Hin|]. rewrite Epub, Ea. reflexivity. }
  (* the exported program lists every function with its static signature *)
  assert (P_sig : forall id ufd tps rty,
            find (fun d => list_eqb (uf_name d) id) (d_fns D) = Some ufd ->
            sig_params D (uf_params ufd) = COk tps -> concrete_of D (uf_ty ufd) = COk rty ->
            exists d, Ast.find_fn P' (intern id) = Some d /\ Ast.fn_params d = xparams intern tps /\
                      Ast.fn_ret d = export_ty intern rty).
  { intros id ufd tps rty Hf Hsp Hsr.
    pose proof (find_some _ _ Hf) as [Hin Hname]. apply list_eqb_eq in Hname. subst id.
    destruct (Hkey _ Hin) as [tfd Htfd].
    rewrite Forall_forall in HQs.
    destruct (HQs _ Htfd) as [ufd0 [Hf0 [_ [_ Hn0]]]]. cbn [fst snd] in *.
    unfold Ast.find_fn. cbn [P' export_program Ast.p_fns tp_fns tp_enums].
    destruct (find_exists (fun d => Ast.fn_name d =? intern (uf_name ufd))
                (map (fun nd => export_fn intern enums (snd nd)) (sort_fields (st_typed stf)))
                (export_fn intern enums tfd)) as [d Hd].
    { apply in_map_iff. exists (uf_name ufd, tfd). split; [reflexivity|]. apply (proj2 (In_sort_fields _ _)). exact Htfd. }
    { cbn [export_fn Ast.fn_name]. rewrite Hn0. apply N.eqb_refl. }
    exists d. split; [exact Hd|].
    pose proof (find_some _ _ Hd) as [Hind Hpd]. apply in_map_iff in Hind. destruct Hind as [nd' [<- Hnd']].
    apply (proj1 (In_sort_fields _ _)) in Hnd'. cbn [export_fn Ast.fn_name] in Hpd. apply N.eqb_eq in Hpd. apply intern_inj in Hpd.
    destruct (HQs _ Hnd') as [ufd1 [Hf1 [Hsp1 [Hsr1 Hn1]]]]. rewrite <- Hn1, Hpd in Hf1. rewrite Hf in Hf1. inversion Hf1; subst ufd1.
    rewrite Hsp in Hsp1. rewrite Hsr in Hsr1. inversion Hsp1. inversion Hsr1.
    cbn [export_fn Ast.fn_params Ast.fn_ret]. split; reflexivity. }
  (* F3: every entry passes wt_fn *)
  assert (Hfn : forall f fd st tfd st', (f <= S Wt.wt_fuel)%nat -> In fd (d_fns D) ->
            check_fn intern f D st fd = COk (tfd, st') -> Forall (Qs D) (st_typed st) -> Qwt enums P' (uf_name fd, tfd)).
  { intros f fd st tfd st' Hf Hin Hc HQ. unfold Qwt. cbn [snd].
    eapply (fn_sound intern intern_inj enums P' D (Wt.consts_tenv P') (eq_refl : id (enums = d_enums D)) P_structs P_enums D_conc_s D_nodup_s D_conc_c gc_consts D_conc_e D_frag P_sig f fd st tfd st' Wt.wt_fuel);
      [apply D_frag; exact Hin|exact Hc|exact Hf|exact HQ]. }
  assert (HQins : forall f st ufd r id (k : unit), (f < S (S Wt.wt_fuel))%nat ->
            Forall (fun nd => Qs D nd /\ Qwt enums P' nd) (st_typed st) ->
            find (fun d => list_eqb (uf_name d) id) (d_fns D) = Some ufd ->
            check_fn intern f D st ufd = COk r -> Forall (fun nd => Qs D nd /\ Qwt enums P' nd) (st_typed (snd r)) ->
            Forall (fun nd => Qs D nd /\ Qwt enums P' nd) ((id, fst r) :: st_typed (snd r))).
  { intros f st ufd [tfd st'] id _ Hf HQ Hfd Hc HQ'. constructor; [|exact HQ']. split.
    - exact (Qs_ins intern D f st ufd _ id Hfd Hc).
    - cbn [fst snd]. pose proof (find_some _ _ Hfd) as [Hin _].
      apply (Hfn f ufd st tfd st' ltac:(lia) Hin Hc).
      eapply Forall_impl; [|exact HQ]. intros a [Ha _]. exact Ha. }
  assert (HQ : Forall (fun nd => Qs D nd /\ Qwt enums P' nd) (st_typed stf)).
  { eapply (pub_loop_gen D fuel (Forall (fun nd => Qs D nd /\ Qwt enums P' nd)) (up_fns P));
      [|intros fd Hin; exact Hin|exact Hloop|constructor].
    intros st fd [tfd st1] Hin Hc HJ. cbn [fst snd]. constructor.
    - split; [exact (Qs_ins intern D fuel st fd _ (uf_name fd) (Hfind _ Hin) Hc)|].
      apply (Hfn fuel fd st tfd st1 Hfuel Hin Hc).
      eapply Forall_impl; [|exact HJ]. intros a [Ha _]. exact Ha.
    - apply Forall_filter'.
      exact (proj2 (proj2 (proj2 (proj2 (check_typed_rel intern D unit (fun _ l => Forall (fun nd => Qs D nd /\ Qwt enums P' nd) l)
               (S (S Wt.wt_fuel)) HQins fuel ltac:(lia))))) _ _ _ Hc tt HJ). }
  (* the exported program *)
  fold P'. unfold Wt.wt_program. apply andb_true_iff. split.
  - (* the consts are literals of their types *)
    cbn [P' export_program Ast.p_consts tp_consts tp_enums]. apply forallb_forall. intros c' Hc'.
    apply in_map_iff in Hc'. destruct Hc' as [nc [<- Hnc]]. apply in_map_iff in Hnc. destruct Hnc as [c [<- Hin]].
    rewrite forallb_forall in Hcc. pose proof (Hcc _ Hin) as Hc. unfold const_frag in Hc. unfold const_t. cbn [snd fst].
    assert (HS : Wt.wt_fuel = S (pred Wt.wt_fuel)) by reflexivity. rewrite HS.
    destruct (uc_ty c) as [|tu|ts| | | | |]; try discriminate Hc;
      destruct (uc_value c) as [| |n tv|z tv| | | | | |]; try discriminate Hc;
      cbn [export_expr export_ty Wt.is_lit Wt.wt_expr Wt.is_bool andb]; try reflexivity;
      apply andb_true_iff in Hc; destruct Hc as [He Hl].
    + unfold unsigned_eqb in He. destruct (unsigned_num_type_eq_dec tu tv); [subst|discriminate]. apply (lit_u_fits _ _ Hl).
    + unfold signed_eqb in He. destruct (signed_num_type_eq_dec ts tv); [subst|discriminate]. apply (lit_s_fits _ _ Hl).
  - cbn [P' export_program Ast.p_fns tp_fns tp_enums].
    apply forallb_forall. intros d Hd. apply in_map_iff in Hd. destruct Hd as [nd [<- Hnd']].
    apply (proj1 (In_sort_fields _ _)) in Hnd'. rewrite Forall_forall in HQ. destruct (HQ _ Hnd') as [_ [t [Hw Ht]]].
    unfold Wt.wt_fn. fold P'. rewrite Hw. exact Ht.
Qed.

End Program.

Print Assumptions sound_all.
Print Assumptions fn_sound.
Print Assumptions check_sound_fragment.
