(* (A) Soundness of the checker model w.r.t. Lang/Wt.v on programs without unsuffixed numbers.
   Part 1 (this section): on a typed tree without `Unspecified` types the whole literal-inference
   machinery (constrain_type, check_type, unify, check_or_constrain_*, constrain_to_i32) is the
   IDENTITY and only compares types. *)
From GV Require Import Base.Util Front.Scan Front.ParseExpr Check.UAst Check.Infer Check.InferProofs.
From GV Require Lang.Ast Lang.Wt.
Local Open Scope N_scope.

(* no `Unspecified` number type anywhere in the type *)
Fixpoint conc_ty (t : cty) : bool :=
  match t with
  | CUnsigned UnspecifiedU => false
  | CSigned UnspecifiedS => false
  | CArray e _ => conc_ty e
  | CTuple ts => forallb conc_ty ts
  | _ => true
  end.

(* every type recorded in the typed tree is concrete *)
Fixpoint conc_e (e : texpr) : bool :=
  match e with
  | TE i t =>
      conc_ty t &&
      match i with
      | TArrayLiteral es | TTupleLiteral es | TFnCall _ es => forallb conc_e es
      | TArrayRepeatLiteral x _ | TTupleAccess x _ | TStructAccess x _ | TUnaryOp _ x | TCast _ x => conc_e x
      | TArrayAccess a i => conc_e a && conc_e i
      | TStructLiteral _ fs => forallb (fun f => conc_e (snd f)) fs
      | TEnumLiteral _ _ (Some es) => forallb conc_e es
      | TMatch s arms => conc_e s && forallb (fun a => conc_e (snd a)) arms
      | TOp _ a b => conc_e a && conc_e b
      | TBlock b => forallb conc_s b
      | TIf c a b => conc_e c && conc_e a && conc_e b
      | _ => true
      end
  end
with conc_s (s : tstmt) : bool :=
  match s with
  | TSLet _ e | TSLetMut _ e | TSExpr e | TSVarAssign _ _ e => conc_e e
  | TSForEach _ e body => conc_e e && forallb conc_s body
  end.

Lemma conc_e_ty e : conc_e e = true -> conc_ty (ty_of e) = true.
Proof. destruct e. cbn [conc_e ty_of]. intro H. apply andb_true_iff in H. tauto. Qed.

Lemma conc_not_uU t : conc_ty t = true -> is_uU t = false.
Proof. destruct t as [|[]|[]| | | |]; cbn; try reflexivity; discriminate. Qed.
Lemma conc_not_sU t : conc_ty t = true -> is_sU t = false.
Proof. destruct t as [|[]|[]| | | |]; cbn; try reflexivity; discriminate. Qed.

(* overwrite_ty_if_necessary does nothing on a concrete type *)
Lemma overwrite_ty_conc : forall ex a, conc_ty a = true -> overwrite_ty a ex = a.
Proof.
  induction ex using cty_ind'; intros a Ha; cbn [overwrite_ty]; auto.
  - rewrite (conc_not_uU _ Ha). reflexivity.
  - rewrite (conc_not_uU _ Ha), (conc_not_sU _ Ha). reflexivity.
  - destruct a; auto. cbn [conc_ty] in Ha. rewrite IHex; auto.
  - destruct a; auto. cbn [conc_ty] in Ha. f_equal.
    revert ts0 Ha. induction H as [|x xs Hx Hxs IH]; intros acts Ha; [destruct acts; reflexivity|].
    destruct acts as [|a acts]; [reflexivity|]. cbn [forallb] in Ha. apply andb_true_iff in Ha. destruct Ha as [Ha1 Ha2].
    rewrite Hx by assumption. f_equal. apply IH. assumption.
Qed.

Lemma overwrite_elem_conc t el : conc_ty t = true -> overwrite_elem t el = t.
Proof. destruct t; auto. cbn [conc_ty overwrite_elem]. intro H. rewrite overwrite_ty_conc; auto. Qed.

Lemma overwrite_zip_conc : forall exs acts, forallb conc_ty acts = true -> overwrite_zip acts exs = acts.
Proof.
  induction exs as [|ex exs IH]; intros acts H; [destruct acts; reflexivity|].
  destruct acts as [|a acts]; [reflexivity|]. cbn [forallb] in H. apply andb_true_iff in H. destruct H.
  cbn [overwrite_zip]. rewrite overwrite_ty_conc, IH; auto.
Qed.

Lemma overwrite_fields_conc t els : conc_ty t = true -> overwrite_fields t els = t.
Proof. destruct t; auto. cbn [conc_ty overwrite_fields]. intro H. rewrite overwrite_zip_conc; auto. Qed.

Lemma set_ty_same e : set_ty e (ty_of e) = e.
Proof. destruct e; reflexivity. Qed.

(* check_or_constrain_* on a concrete type: a pure comparison *)
Lemma coc_unsigned_conc e u e' :
  check_or_constrain_unsigned e u = COk e' -> conc_ty (ty_of e) = true -> e' = e /\ ty_of e = CUnsigned u.
Proof.
  unfold check_or_constrain_unsigned. intros H Hc. rewrite (conc_not_uU _ Hc) in H.
  destruct (cty_eqb (ty_of e) (CUnsigned u)) eqn:E; [|discriminate]. apply cty_eqb_eq in E.
  cbn [negb andb] in H.
  assert (e' = set_ty e (CUnsigned u)).
  { destruct (unsigned_max u); [destruct (inner_of e); try (inv_all; reflexivity)|inv_all; reflexivity]. }
  subst e'. rewrite <- E. rewrite set_ty_same. auto.
Qed.

Lemma coc_signed_conc e s e' :
  check_or_constrain_signed e s = COk e' -> conc_ty (ty_of e) = true -> e' = e /\ ty_of e = CSigned s.
Proof.
  unfold check_or_constrain_signed. intros H Hc. rewrite (conc_not_uU _ Hc), (conc_not_sU _ Hc) in H.
  destruct (cty_eqb (ty_of e) (CSigned s)) eqn:E; [|discriminate]. apply cty_eqb_eq in E.
  cbn [negb andb] in H. inv_all. rewrite <- E. rewrite set_ty_same. auto.
Qed.

Lemma mapM_id {A} (g : A -> cres A) : forall l l',
  mapM g l = COk l' -> (forall x x', In x l -> g x = COk x' -> x' = x) -> l' = l.
Proof.
  induction l as [|x l IH]; intros l' H Hg; cbn [mapM] in H; inv_all; [reflexivity|].
  f_equal; [eapply Hg; [left; reflexivity|eassumption]|apply IH; [assumption|intros; eapply Hg; [right|]; eauto]].
Qed.

Lemma zipM_id {A B} (g : A -> B -> cres A) : forall xs ys xs',
  zipM g xs ys = COk xs' -> (forall x y x', In x xs -> g x y = COk x' -> x' = x) -> xs' = xs.
Proof.
  induction xs as [|x xs IH]; intros ys xs' H Hg; cbn [zipM] in H; [inv_all; reflexivity|].
  destruct ys as [|y ys]; inv_all; [reflexivity|].
  f_equal; [eapply Hg; [left; reflexivity|eassumption]|eapply IH; [eassumption|intros; eapply Hg; [right|]; eauto]].
Qed.

Lemma map_last_expr_id (g : texpr -> cres texpr) : forall b b',
  map_last_expr g b = COk b' -> (forall x x', In (TSExpr x) b -> g x = COk x' -> x' = x) -> b' = b.
Proof.
  induction b as [|s b IH]; intros b' H Hg; [cbn in H; inv_all; reflexivity|].
  cbn [map_last_expr] in H. destruct b as [|s2 b].
  - destruct s; inv_all; try reflexivity. f_equal. f_equal. eapply Hg; [left; reflexivity|eassumption].
  - destruct s; inv_all; f_equal; (apply IH; [assumption|]; intros; eapply Hg; [right|]; eauto).
Qed.

(* constrain_type on a concrete tree is the identity *)
Lemma constrain_type_conc : forall f e t e',
  constrain_type f e t = COk e' -> conc_e e = true -> e' = e.
Proof.
  induction f as [|f IH]; intros e t e' H Hc; [discriminate|].
  cbn [constrain_type] in H. apply cbind_ok in H. destruct H as [e1 [H1 H2]]. inv_all.
  assert (He1 : e1 = e).
  { pose proof (conc_e_ty _ Hc) as Hty.
    assert (Hleaf : forall r, match t with
                              | CUnsigned t0 => check_or_constrain_unsigned e t0
                              | CSigned t0 => check_or_constrain_signed e t0
                              | _ => COk e end = COk r -> r = e).
    { intros r Hr. destruct t; inv_all; try reflexivity.
      - apply coc_unsigned_conc in Hr; tauto.
      - apply coc_signed_conc in Hr; tauto. }
    destruct e as [i ty]. cbn [inner_of ty_of] in *. cbn [conc_e] in Hc.
    apply andb_true_iff in Hc. destruct Hc as [_ Hc].
    destruct i; try (apply Hleaf; exact H1).
    - destruct t; try (apply Hleaf; exact H1); inv_all; cbn [set_ty].
      + rewrite overwrite_elem_conc by assumption. reflexivity.
      + rewrite overwrite_fields_conc by assumption. reflexivity.
    - destruct t; try (apply Hleaf; exact H1). inv_all. rewrite overwrite_elem_conc by assumption.
      f_equal. f_equal. eapply mapM_id; [eassumption|]. intros x x' Hin Hx.
      eapply IH; [exact Hx|]. rewrite forallb_forall in Hc. auto.
    - destruct t; try (apply Hleaf; exact H1). inv_all. rewrite overwrite_elem_conc by assumption.
      f_equal. f_equal. eapply IH; eauto.
    - destruct t; try (apply Hleaf; exact H1). inv_all; [|reflexivity]. rewrite overwrite_fields_conc by assumption.
      f_equal. f_equal. eapply zipM_id; [eassumption|]. intros x y x' Hin Hx.
      eapply IH; [exact Hx|]. rewrite forallb_forall in Hc. auto.
    - inv_all. f_equal. f_equal. apply andb_true_iff in Hc. destruct Hc as [_ Hc].
      eapply mapM_id; [eassumption|]. intros [p x] x' Hin Hx. inv_all. cbn [fst snd] in *. f_equal.
      eapply IH; [eassumption|]. rewrite forallb_forall in Hc. apply (Hc _ Hin).
    - inv_all. f_equal. f_equal. eapply IH; eauto.
    - apply andb_true_iff in Hc. destruct Hc as [Hc1 Hc2].
      destruct o; inv_all; try reflexivity; f_equal; f_equal; eapply IH; eauto.
    - inv_all. f_equal. f_equal. eapply map_last_expr_id; [eassumption|]. intros x x' Hin Hx.
      eapply IH; [exact Hx|]. rewrite forallb_forall in Hc. apply (Hc _ Hin).
    - apply andb_true_iff in Hc. destruct Hc as [Hc Hc3]. apply andb_true_iff in Hc. destruct Hc as [Hc1 Hc2].
      inv_all. f_equal. f_equal; eapply IH; eauto. }
  subst e1. rewrite overwrite_ty_conc by (apply conc_e_ty; assumption). apply set_ty_same.
Qed.

(* check_type on a concrete tree: the identity, and the type IS the expected type *)
Lemma check_type_conc f e t e' :
  check_type f e t = COk e' -> conc_e e = true -> e' = e /\ ty_of e = t.
Proof.
  intros H Hc. pose proof (check_type_ty _ _ _ _ H) as Ht. unfold check_type in H. inv_all.
  apply constrain_type_conc in Hb; [|assumption]. subst. auto.
Qed.

(* unify on concrete trees: the identity, and the two types are EQUAL *)
Lemma unify_conc a b a' b' t :
  unify a b = COk (a', b', t) -> conc_ty (ty_of a) = true -> conc_ty (ty_of b) = true ->
  a' = a /\ b' = b /\ ty_of a = t /\ ty_of b = t.
Proof.
  unfold unify. intros H Ha Hb.
  destruct (cty_eqb (ty_of a) (ty_of b)) eqn:E.
  - apply cty_eqb_eq in E. inv_all. rewrite set_ty_same. rewrite E at 1. rewrite set_ty_same. auto.
  - exfalso. destruct (ty_of a) as [|[]|[]| | | |]; destruct (ty_of b) as [|[]|[]| | | |]; try discriminate.
Qed.

(* LetMut's defaulting on a concrete tree: the identity *)
Lemma i32_if_unspec_conc t : conc_ty t = true -> i32_if_unspec t = t.
Proof. intro H. unfold i32_if_unspec. rewrite (conc_not_uU _ H), (conc_not_sU _ H). reflexivity. Qed.

Lemma constrain_to_i32_conc : forall f b b', constrain_to_i32 f b = COk b' -> conc_e b = true -> b' = b.
Proof.
  induction f as [|f IH]; intros b b' H Hc; [discriminate|].
  cbn [constrain_to_i32] in H. pose proof (conc_e_ty _ Hc) as Hty.
  rewrite (conc_not_uU _ Hty), (conc_not_sU _ Hty) in H. cbn [orb cbind] in H.
  apply cbind_ok in H. destruct H as [b2 [H1 H2]]. inv_all.
  assert (Hb2 : b2 = b).
  { destruct b as [i ty]. cbn [inner_of ty_of] in *. cbn [conc_e] in Hc.
    apply andb_true_iff in Hc. destruct Hc as [_ Hc].
    destruct i; inv_all; try reflexivity; f_equal; f_equal.
    - eapply mapM_id; [eassumption|]. intros x x' Hin Hx. eapply IH; [exact Hx|]. rewrite forallb_forall in Hc. auto.
    - eapply IH; eauto.
    - eapply mapM_id; [eassumption|]. intros x x' Hin Hx. eapply IH; [exact Hx|]. rewrite forallb_forall in Hc. auto. }
  subst b2.
  destruct b as [i ty]. cbn [ty_of set_ty] in *. cbv zeta. f_equal.
  destruct ty; try reflexivity; cbn [conc_ty] in Hty.
  - rewrite i32_if_unspec_conc by assumption. reflexivity.
  - f_equal. clear - Hty. induction ts as [|x xs IHxs]; [reflexivity|]. cbn [forallb] in Hty.
    apply andb_true_iff in Hty. destruct Hty. cbn [map]. rewrite i32_if_unspec_conc, IHxs; auto.
Qed.

Print Assumptions constrain_type_conc.
Print Assumptions check_type_conc.
Print Assumptions unify_conc.
Print Assumptions constrain_to_i32_conc.

(* ================================================================== Part 2: soundness w.r.t. Lang/Wt.v *)

(* THE FRAGMENT: every number literal and range carries a suffix, literals lie in the range of
   their suffix type (what the scanner guarantees); casts go to a scalar type; patterns of
   `let` / `for` are identifiers and tuples of such. *)
Definition lit_u_ok (n : N) (t : unsigned_num_type) : bool :=
  match unsigned_max t with Some m => n <=? m | None => false end.
Definition lit_s_ok (z : Z) (t : signed_num_type) : bool :=
  match signed_min t, signed_max t with
  | Some a, Some b => (a <=? z)%Z && (z <=? b)%Z
  | _, _ => false
  end.
Definition scalar_uty (t : utype) : bool :=
  match t with
  | UTBool => true
  | UTUnsigned u => negb (unsigned_eqb u UnspecifiedU)
  | UTSigned s => negb (signed_eqb s UnspecifiedS)
  | _ => false
  end.

Fixpoint frag_p (p : upattern) : bool :=
  match p with
  | PIdentifier _ => true
  | PTuple ps => forallb frag_p ps
  | _ => false
  end.

Fixpoint frag_e (e : xexpr) : bool :=
  match e with
  | XTrue | XFalse | XIdentifier _ => true
  | XNumUnsigned n t => lit_u_ok n t
  | XNumSigned z t => lit_s_ok z t
  | XArrayLiteral es | XTupleLiteral es => forallb frag_e es
  | XArrayRepeatLiteral e _ | XTupleAccess e _ | XUnaryOp _ e => frag_e e
  | XArrayAccess a i => frag_e a && frag_e i
  | XOp _ l r => frag_e l && frag_e r
  | XBlock b => forallb frag_s b
  | XIf c a b => frag_e c && frag_e a && frag_e b
  | XCast ty e => scalar_uty ty && frag_e e
  | XRange _ _ t => negb (unsigned_eqb t UnspecifiedU)
  | _ => false
  end
with frag_s (s : xstmt) : bool :=
  match s with
  | XSLet p _ e => frag_p p && frag_e e
  | XSLetMut _ _ e => frag_e e
  | XSVarAssign _ accs e => forallb frag_a accs && frag_e e
  | XSForEach p e body => frag_p p && frag_e e && forallb frag_s body
  | XSExpr e => frag_e e
  end
with frag_a (a : xaccessor) : bool :=
  match a with XAArray i => frag_e i | XATuple _ => true | XAStruct _ => false end.

(* types written in the program: no Unspecified number type, no named / const-sized type *)
Fixpoint conc_uty (t : utype) : bool :=
  match t with
  | UTBool => true
  | UTUnsigned u => negb (unsigned_eqb u UnspecifiedU)
  | UTSigned s => negb (signed_eqb s UnspecifiedS)
  | UTTuple ts => forallb conc_uty ts
  | UTArray e _ => conc_uty e
  | _ => false
  end.

Lemma utype_ind' (P : utype -> Prop) :
  P UTBool -> (forall t, P (UTUnsigned t)) -> (forall t, P (UTSigned t)) -> (forall s, P (UTNamed s)) ->
  (forall ts, Forall P ts -> P (UTTuple ts)) -> (forall t n, P t -> P (UTArray t n)) ->
  (forall t c, P t -> P (UTArrayConst t c)) -> (forall t c, P t -> P (UTArrayConstExpr t c)) -> forall t, P t.
Proof.
  intros H0 H1 H2 H3 H4 H5 H6 H7. fix IH 1. destruct t.
  - exact H0.
  - apply H1.
  - apply H2.
  - apply H3.
  - apply H4. induction ts as [|x xs IHxs]; constructor; [apply IH | exact IHxs].
  - apply H5. apply IH.
  - apply H6. apply IH.
  - apply H7. apply IH.
Qed.

Lemma as_concrete_conc sn en : forall t t', as_concrete_type sn en t = COk t' -> conc_uty t = true -> conc_ty t' = true.
Proof.
  induction t using utype_ind'; intros t' HH Hc; try discriminate Hc; cbn [as_concrete_type] in HH.
  - inv_all. reflexivity.
  - inv_all. destruct t; try discriminate Hc; reflexivity.
  - inv_all. destruct t; try discriminate Hc; reflexivity.
  - apply cbind_ok in HH. destruct HH as [ts' [Hts HH]]. inversion HH; subst; clear HH. cbn [conc_uty conc_ty] in *.
    revert ts' Hts Hc. induction H as [|x xs Hx Hxs IH]; intros ts' Hts Hc.
    + inv_all. reflexivity.
    + apply cbind_ok in Hts. destruct Hts as [x' [Hx' Hts]]. apply cbind_ok in Hts. destruct Hts as [r' [Hr' Hts]].
      inversion Hts; subst; clear Hts. cbn [forallb] in *. apply andb_true_iff in Hc. destruct Hc as [Hc1 Hc2].
      rewrite (Hx _ Hx' Hc1), (IH _ Hr' Hc2). reflexivity.
  - apply cbind_ok in HH. destruct HH as [e' [He HH]]. inversion HH; subst; clear HH. cbn [conc_uty conc_ty] in *. eauto.
Qed.

Definition frag_fn (fd : ufndef) : bool :=
  forallb (fun p => conc_uty (upa_ty p)) (uf_params fd) && forallb frag_s (uf_body fd).

Section Sound.
Variable intern : list N -> N.
Hypothesis intern_inj : forall a b, intern a = intern b -> a = b.
Variable en : list (list N * list (list N * option (list cty))).
Variable P' : Ast.program.
Variable D : defs.
Hypothesis D_consts : d_consts D = [].
Notation xe := (export_expr intern en).
Notation xs := (export_stmt intern en).
Notation xa := (export_accessor intern en).
Notation xt := (export_ty intern).

Lemma e_ty_xe e : Ast.e_ty (xe e) = xt (ty_of e).
Proof. destruct e; reflexivity. Qed.

Lemma xt_refl t : Wt.ty_eqb (xt t) (xt t) = true.
Proof.
  induction t using cty_ind'; cbn [export_ty Wt.ty_eqb].
  - reflexivity.
  - rewrite N.eqb_refl. reflexivity.
  - rewrite N.eqb_refl. reflexivity.
  - rewrite IHt, N.eqb_refl. reflexivity.
  - induction H as [|x l Hx Hl IH]; cbn [map]; [reflexivity|]. rewrite Hx. exact IH.
  - apply N.eqb_refl.
  - apply N.eqb_refl.
Qed.

(* environments *)
Definition env_ok (g : cenv) : Prop := forall x t m, env_get g x = Some (t, m) -> conc_ty t = true.
Definition env_rel (g : cenv) (G : Wt.tenv) : Prop :=
  forall x t m, env_get g x = Some (t, m) ->
  exists m', Wt.tlookup G (intern x) = Some (xt t, m') /\ (m = true -> m' = true).

Lemma env_get_let g x t m y :
  env_get (env_let g x t m) y = if list_eqb y x then Some (t, m) else env_get g y.
Proof. destruct g as [|s r]; cbn [env_let env_get assocL]; destruct (list_eqb y x); reflexivity. Qed.

Lemma tlookup_tbind G x t m y :
  Wt.tlookup (Wt.tbind G x t m) y = if y =? x then Some (t, m) else Wt.tlookup G y.
Proof. destruct G as [|s r]; cbn [Wt.tbind Wt.tlookup Ast.assocN]; destruct (y =? x); reflexivity. Qed.

Lemma env_rel_let g G x t m : env_rel g G -> env_rel (env_let g x t m) (Wt.tbind G (intern x) (xt t) m).
Proof.
  intros H y t' m' Hy. rewrite env_get_let in Hy. rewrite tlookup_tbind.
  destruct (list_eqb y x) eqn:E.
  - apply list_eqb_eq in E. subst y. rewrite N.eqb_refl. inversion Hy; subst. eauto.
  - destruct (N.eqb_spec (intern y) (intern x)) as [Heq|Hne]; [|apply H; assumption].
    apply intern_inj in Heq. subst y. rewrite list_eqb_refl in E. discriminate.
Qed.

Lemma env_ok_let g x t m : env_ok g -> conc_ty t = true -> env_ok (env_let g x t m).
Proof.
  intros H Ht y t' m' Hy. rewrite env_get_let in Hy. destruct (list_eqb y x); [inversion Hy; subst; assumption|eauto].
Qed.

Lemma env_rel_push g G : env_rel g G -> env_rel (env_push g) ([] :: G).
Proof. intros H x t m Hx. cbn in Hx. apply H in Hx. cbn [Wt.tlookup Ast.assocN]. exact Hx. Qed.

Lemma env_ok_push g : env_ok g -> env_ok (env_push g).
Proof. intros H x t m Hx. cbn in Hx. eauto. Qed.

(* literals *)
Lemma lit_u_fits n t : lit_u_ok n t = true -> Wt.lit_fits (Ast.TInt false (ubits t)) (Z.of_N n) = true.
Proof.
  unfold lit_u_ok, Wt.lit_fits. destruct t; cbn [unsigned_max ubits]; intro H; try discriminate;
    apply N.leb_le in H; apply andb_true_iff; (split; [apply Z.leb_le; lia|apply Z.ltb_lt]).
  - change (2 ^ Z.of_N 32)%Z with 4294967296%Z. unfold u32_max in H. lia.
  - change (2 ^ Z.of_N 8)%Z with 256%Z. lia.
  - change (2 ^ Z.of_N 16)%Z with 65536%Z. lia.
  - change (2 ^ Z.of_N 32)%Z with 4294967296%Z. unfold u32_max in H. lia.
  - change (2 ^ Z.of_N 64)%Z with 18446744073709551616%Z. lia.
Qed.

Lemma lit_s_fits z t : lit_s_ok z t = true -> Wt.lit_fits (Ast.TInt true (sbits t)) z = true.
Proof.
  unfold lit_s_ok, Wt.lit_fits. destruct t; cbn [signed_min signed_max sbits]; intro H; try discriminate;
    apply andb_true_iff in H; destruct H as [H1 H2]; apply Z.leb_le in H1; apply Z.leb_le in H2;
    apply andb_true_iff.
  - change (2 ^ (Z.of_N 8 - 1))%Z with 128%Z. split; [apply Z.leb_le|apply Z.ltb_lt]; lia.
  - change (2 ^ (Z.of_N 16 - 1))%Z with 32768%Z. split; [apply Z.leb_le|apply Z.ltb_lt]; lia.
  - change (2 ^ (Z.of_N 32 - 1))%Z with 2147483648%Z. split; [apply Z.leb_le|apply Z.ltb_lt]; lia.
  - change (2 ^ (Z.of_N 64 - 1))%Z with 9223372036854775808%Z. split; [apply Z.leb_le|apply Z.ltb_lt]; lia.
Qed.

Lemma lit_u_conc n t : lit_u_ok n t = true -> conc_ty (CUnsigned t) = true.
Proof. destruct t; cbn; auto. Qed.
Lemma lit_s_conc z t : lit_s_ok z t = true -> conc_ty (CSigned t) = true.
Proof. destruct t; cbn; auto. Qed.

(* type classes *)
Lemma expect_num_x t u : expect_num_type t = COk u -> Wt.is_int (xt t) = true.
Proof. destruct t; try discriminate; reflexivity. Qed.
Lemma expect_signed_x t u : expect_signed_num_type t = COk u -> Wt.is_signed_int (xt t) = true.
Proof. destruct t; try discriminate; reflexivity. Qed.
Lemma expect_bool_or_num_x t u : expect_bool_or_num_type t = COk u -> Wt.is_bool (xt t) || Wt.is_int (xt t) = true.
Proof. destruct t; try discriminate; reflexivity. Qed.

Lemma nthN_map {A B} (g : A -> B) l i : nthN (map g l) i = option_map g (nthN l i).
Proof. rewrite !nthN_spec. apply nth_error_map. Qed.

Lemma conc_nth ts i t : forallb conc_ty ts = true -> nthN ts i = Some t -> conc_ty t = true.
Proof.
  rewrite nthN_spec. intros H Hn. apply nth_error_In in Hn. rewrite forallb_forall in H. auto.
Qed.


Notation xp := (export_pattern intern en).

Ltac destr_tuples := repeat match goal with x : (_ * _)%type |- _ => destruct x end.
Ltac inv_all' := repeat (progress (inv_all; destr_tuples; cbn [fst snd] in * )).
Ltac refold H :=
  fold (Infer.check_expr intern) (Infer.check_stmts intern) (Infer.check_block intern)
       (Infer.check_fn intern) (Infer.check_stmt intern) in H.

(* ------------------------------------------------------------------ unfolding lemmas *)

Lemma xe_block b t : xe (TE (TBlock b) t) = Ast.Ex (Ast.EBlock (map xs b)) m0 (xt t).
Proof. reflexivity. Qed.
Lemma xs_let p e : xs (TSLet p e) = Ast.St (Ast.SLet (xp p) (xe e)) m0.
Proof. reflexivity. Qed.
Lemma xs_letmut x e : xs (TSLetMut x e) = Ast.St (Ast.SLetMut (intern x) (xe e)) m0.
Proof. reflexivity. Qed.
Lemma xs_expr e : xs (TSExpr e) = Ast.St (Ast.SExpr (xe e)) m0.
Proof. reflexivity. Qed.
Lemma xs_assign x accs e : xs (TSVarAssign x accs e) = Ast.St (Ast.SAssign (intern x) (map xa accs) (xe e)) m0.
Proof. reflexivity. Qed.
Lemma xs_for p e body : xs (TSForEach p e body) = Ast.St (Ast.SFor (xp p) (xe e) (map xs body)) m0.
Proof. reflexivity. Qed.
Lemma xa_arr t i : xa (TAArray t i) = Ast.AIdx (xt t) (xe i).
Proof. reflexivity. Qed.
Lemma xa_tup t i : xa (TATuple t i) = Ast.ATup (xt t) i.
Proof. reflexivity. Qed.
Lemma xp_id s t : xp (TP (TPIdentifier s) t) = Ast.Pat (Ast.PId (intern s)) m0 (xt t).
Proof. reflexivity. Qed.
Lemma xp_tup ps t : xp (TP (TPTuple ps) t) = Ast.Pat (Ast.PTup (map xp ps)) m0 (xt t).
Proof. reflexivity. Qed.

Lemma wt_expr_block f G b t : Wt.wt_expr (S f) P' G (Ast.Ex (Ast.EBlock b) (m0) t) =
  match Wt.wt_block f P' ([] :: G) b with Some tb => Wt.ty_eqb tb t | None => false end.
Proof. reflexivity. Qed.
Lemma wt_stmt_let f G p e : Wt.wt_stmt (S f) P' G (Ast.St (Ast.SLet p e) m0) =
  if Wt.wt_expr f P' G e && Wt.ty_eqb (Ast.p_ty p) (Ast.e_ty e)
  then match Wt.wt_pat P' p with Some bs => Some (Wt.tbind_all G bs false, Wt.unit_ty) | None => None end
  else None.
Proof. reflexivity. Qed.
Lemma wt_stmt_letmut f G x e : Wt.wt_stmt (S f) P' G (Ast.St (Ast.SLetMut x e) m0) =
  if Wt.wt_expr f P' G e then Some (Wt.tbind G x (Ast.e_ty e) true, Wt.unit_ty) else None.
Proof. reflexivity. Qed.
Lemma wt_stmt_expr f G e : Wt.wt_stmt (S f) P' G (Ast.St (Ast.SExpr e) m0) =
  if Wt.wt_expr f P' G e then Some (G, Ast.e_ty e) else None.
Proof. reflexivity. Qed.
Lemma wt_stmt_for f G p arr body : Wt.wt_stmt (S f) P' G (Ast.St (Ast.SFor p arr body) m0) =
  match Ast.e_ty arr with
  | Ast.TArr el _ =>
      if Wt.wt_expr f P' G arr && Wt.ty_eqb (Ast.p_ty p) el then
        match Wt.wt_pat P' p with
        | Some bs =>
            match Wt.wt_block f P' (Wt.tbind_all ([] :: G) bs false) body with
            | Some _ => Some (G, Wt.unit_ty)
            | None => None
            end
        | None => None
        end
      else None
  | _ => None
  end.
Proof. reflexivity. Qed.

(* the accessor loop of Wt.wt_stmt (SAssign) *)
Definition ago (f : nat) (G : Wt.tenv) :=
  fix go (accs : list Ast.accessor) (cur : Ast.ty) : option Ast.ty :=
    match accs with
    | [] => Some cur
    | Ast.AIdx aty i :: r =>
        match cur with
        | Ast.TArr el _ =>
            if Wt.ty_eqb aty cur && Wt.is_unsigned (Ast.e_ty i) && Wt.wt_expr f P' G i then go r el else None
        | _ => None
        end
    | Ast.ATup tty i :: r =>
        match cur with
        | Ast.TTup ts =>
            if Wt.ty_eqb tty cur then
              match nthN ts i with Some ti => go r ti | None => None end
            else None
        | _ => None
        end
    | Ast.AFld sty fld :: r =>
        match cur with
        | Ast.TStruct name =>
            if Wt.ty_eqb sty cur then
              match Ast.assocN name (Ast.p_structs P') with
              | Some def => match Ast.assocN fld def with Some ft => go r ft | None => None end
              | None => None
              end
            else None
        | _ => None
        end
    end.
Lemma wt_stmt_assign f G x accs e : Wt.wt_stmt (S f) P' G (Ast.St (Ast.SAssign x accs e) m0) =
  match Wt.tlookup G x with
  | Some (tx, true) =>
      match ago f G accs tx with
      | Some tf => if Wt.ty_eqb tf (Ast.e_ty e) && Wt.wt_expr f P' G e then Some (G, Wt.unit_ty) else None
      | None => None
      end
  | _ => None
  end.
Proof. reflexivity. Qed.

(* the field loop of Wt.wt_pat (PTup) *)
Definition wlist :=
  fix go (ps : list Ast.pattern) (ts : list Ast.ty) : option (list (N * Ast.ty)) :=
    match ps, ts with
    | [], [] => Some []
    | p :: pr, t :: tr =>
        if negb (Wt.ty_eqb (Ast.p_ty p) t) then None else
        match Wt.wt_pat P' p, go pr tr with
        | Some a, Some b => Some (a ++ b)
        | _, _ => None
        end
    | _, _ => None
    end.
Lemma wt_pat_tup ps m ts : Wt.wt_pat P' (Ast.Pat (Ast.PTup ps) m (Ast.TTup ts)) = wlist ps ts.
Proof. reflexivity. Qed.

Lemma tbind_all_app G a b m : Wt.tbind_all G (a ++ b) m = Wt.tbind_all (Wt.tbind_all G a m) b m.
Proof. unfold Wt.tbind_all. apply fold_left_app. Qed.

(* ------------------------------------------------------------------ patterns *)

Definition pat_ok (p : upattern) : Prop := forall g ty p' g',
  frag_p p = true -> check_pattern D g p ty = COk (p', g') ->
  Ast.p_ty (xp p') = xt ty /\
  exists bs, Wt.wt_pat P' (xp p') = Some bs /\
    (forall G, env_rel g G -> env_rel g' (Wt.tbind_all G bs false)) /\
    (conc_ty ty = true -> env_ok g -> env_ok g').

Lemma fields_loop_ok fs : Forall pat_ok fs -> forallb frag_p fs = true ->
  forall ts g ps' g', length fs = length ts ->
    (fix go (fs : list upattern) (ts : list cty) (g : cenv) : cres (list tpattern * cenv) :=
       match fs, ts with
       | fp :: fr, t :: tr =>
           do r1 <- check_pattern D g fp t; do r2 <- go fr tr (snd r1); COk (fst r1 :: fst r2, snd r2)
       | _, _ => COk ([], g)
       end) fs ts g = COk (ps', g') ->
  exists bs, wlist (map xp ps') (map xt ts) = Some bs /\
    (forall G, env_rel g G -> env_rel g' (Wt.tbind_all G bs false)) /\
    (forallb conc_ty ts = true -> env_ok g -> env_ok g').
Proof.
  induction 1 as [|q fs Hq Hfs IH]; intros Hf ts g ps' g' Hlen H.
  - destruct ts; [|discriminate]. inv_all. exists []. cbn. auto.
  - destruct ts as [|t ts]; [discriminate|]. cbn [forallb] in Hf. apply andb_true_iff in Hf. destruct Hf as [Hf1 Hf2].
    apply cbind_ok in H. destruct H as [[p1 g1] [H1 H]]. apply cbind_ok in H. destruct H as [[ps2 g2] [H2 H]].
    cbn [fst snd] in *. inv_all.
    destruct (Hq _ _ _ _ Hf1 H1) as [Hty [bs1 [Hw1 [Hr1 Ho1]]]].
    destruct (IH Hf2 ts g1 ps2 g' ltac:(cbn in Hlen; lia) H2) as [bs2 [Hw2 [Hr2 Ho2]]].
    exists (bs1 ++ bs2). cbn [map wlist]. fold wlist. rewrite Hty, xt_refl, Hw1, Hw2. cbn [negb].
    split; [reflexivity|]. split.
    + intros G HG. rewrite tbind_all_app. auto.
    + cbn [forallb]. intros Hc Hok. apply andb_true_iff in Hc. destruct Hc. auto.
Qed.

Lemma pat_sound : forall p, pat_ok p.
Proof.
  induction p using upattern_ind'; intros g ty p' g' Hf HH; try discriminate Hf; cbn [check_pattern] in HH.
  - (* identifier *) inv_all. rewrite xp_id. cbn [Ast.p_ty Wt.wt_pat]. split; [reflexivity|].
    exists [(intern s, xt ty)]. split; [reflexivity|]. split.
    + intros G HG. cbn. apply env_rel_let. exact HG.
    + intros Hc Hok. apply env_ok_let; assumption.
  - (* tuple *)
    cbn [frag_p] in Hf. apply cbind_ok in HH. destruct HH as [fts [Ht HH]].
    destruct ty; try discriminate Ht. cbn [expect_tuple_type] in Ht. inv_all.
    match goal with Hl : negb (lenN _ =? lenN _) = false |- _ =>
      apply negb_false_iff in Hl; apply N.eqb_eq in Hl; unfold lenN in Hl; apply Nat2N.inj in Hl end.
    match goal with Hl : _ = COk a |- _ =>
      destruct a as [ps2 g2]; destruct (fields_loop_ok ps H Hf fts g ps2 g2 ltac:(lia) Hl) as [bs [Hw [Hr Ho]]] end.
    cbn [fst snd]. rewrite xp_tup. cbn [Ast.p_ty export_ty]. split; [reflexivity|].
    exists bs. rewrite wt_pat_tup. split; [exact Hw|]. split; [exact Hr|]. exact Ho.
Qed.

(* ------------------------------------------------------------------ the statement loop of Wt.wt_block *)

Definition wgo (f : nat) :=
  fix go (ss : list Ast.stmt) (g : Wt.tenv) (last : Ast.ty) : option Ast.ty :=
    match ss with
    | [] => Some last
    | s :: r => match Wt.wt_stmt f P' g s with Some (g', t) => go r g' t | None => None end
    end.
Lemma wt_block_S f G b : Wt.wt_block (S f) P' G b = wgo f b G Wt.unit_ty.
Proof. reflexivity. Qed.

Definition sty (s : tstmt) : Ast.ty := match s with TSExpr e => xt (ty_of e) | _ => Wt.unit_ty end.

(* what the checker state must satisfy *)
Definition good (st : cstate) : Prop := env_ok (st_env st).

Definition E (f : nat) : Prop := forall e st e' st' G F,
  frag_e e = true -> check_expr intern f D st e = COk (e', st') ->
  good st -> env_rel (st_env st) G -> (f <= F)%nat ->
  conc_e e' = true /\ Wt.wt_expr F P' G (xe e') = true.

Definition St (f : nat) : Prop := forall s st s' st' G F,
  frag_s s = true -> check_stmt intern f D st s = COk (s', st') ->
  good st -> env_rel (st_env st) G -> (f <= F)%nat ->
  conc_s s' = true /\ exists G', Wt.wt_stmt F P' G (xs s') = Some (G', sty s') /\
                                 good st' /\ env_rel (st_env st') G'.

Definition Bl (f : nat) : Prop := forall b st b' ty st' G F,
  forallb frag_s b = true -> check_block intern f D st b = COk (b', ty, st') ->
  good st -> env_rel (st_env st) G -> (f <= F)%nat ->
  forallb conc_s b' = true /\ Wt.wt_block F P' G (map xs b') = Some (xt ty).

Definition Ss (f : nat) : Prop := forall b st b' st' G F,
  forallb frag_s b = true -> check_stmts intern f D st b = COk (b', st') ->
  good st -> env_rel (st_env st) G -> (f <= F)%nat ->
  forallb conc_s b' = true /\ exists t, Wt.wt_block F P' G (map xs b') = Some t.

Lemma good_e f st e r : check_expr intern f D st e = COk r -> good st -> good (snd r).
Proof. intros H Hg. unfold good. rewrite (proj1 (check_env intern f D) _ _ _ H). exact Hg. Qed.

Lemma fold_sty_last : forall b l,
  fold_left (fun _ s => sty s) b l = match last (map Some b) None with Some s => sty s | None => l end.
Proof.
  assert (Hne : forall (r : list tstmt) t, last (map Some (t :: r)) None <> None).
  { induction r as [|u r IHr]; intro t; [discriminate|]. specialize (IHr u). cbn [map last] in *. exact IHr. }
  induction b as [|s r IH]; intro l; [reflexivity|]. cbn [fold_left]. rewrite IH.
  destruct r as [|t r]; [reflexivity|].
  change (last (map Some (s :: t :: r)) None) with (last (map Some (t :: r)) None).
  destruct (last (map Some (t :: r)) None) eqn:El; [reflexivity|]. exfalso. exact (Hne _ _ El).
Qed.

Lemma last_expr_ty_x b : xt (last_expr_ty b) = fold_left (fun _ s => sty s) b Wt.unit_ty.
Proof.
  rewrite fold_sty_last. unfold last_expr_ty. destruct (last (map Some b) None) as [[]|]; reflexivity.
Qed.

Lemma last_expr_ty_conc b : forallb conc_s b = true -> conc_ty (last_expr_ty b) = true.
Proof.
  unfold last_expr_ty. intro H.
  assert (Hl : forall s, last (map Some b) None = Some s -> conc_s s = true).
  { intros s Hs. rewrite forallb_forall in H. apply H. clear H.
    induction b as [|u r IH]; [discriminate|]. destruct r as [|v r]; [inversion Hs; left; reflexivity|].
    right. apply IH. exact Hs. }
  destruct (last (map Some b) None) as [[]|] eqn:El; try reflexivity.
  apply conc_e_ty. apply (Hl _ eq_refl).
Qed.

Lemma stmts_sound f F : St f -> (f <= F)%nat -> forall b st b' st' G l,
  forallb frag_s b = true -> mapM_st (check_stmt intern f D) st b = COk (b', st') ->
  good st -> env_rel (st_env st) G ->
  forallb conc_s b' = true /\ wgo F (map xs b') G l = Some (fold_left (fun _ s => sty s) b' l).
Proof.
  intros HS HF. induction b as [|s b IH]; intros st b' st' G l Hf H Hok Hrel; cbn [mapM_st] in H; inv_all'.
  - split; reflexivity.
  - cbn [forallb] in Hf. apply andb_true_iff in Hf. destruct Hf as [Hf1 Hf2].
    destruct (HS _ _ _ _ _ F Hf1 Hb Hok Hrel HF) as [Hc [G' [Hw [Hok' Hrel']]]].
    destruct (IH _ _ _ _ (sty t) Hf2 Hb0 Hok' Hrel') as [Hc2 Hw2].
    split; [cbn [forallb]; rewrite Hc, Hc2; reflexivity|].
    cbn [map wgo fold_left]. fold (wgo F). rewrite Hw. exact Hw2.
Qed.

Lemma exprs_sound f F : E f -> (f <= F)%nat -> forall es st es' st' G,
  forallb frag_e es = true -> mapM_st (check_expr intern f D) st es = COk (es', st') ->
  good st -> env_rel (st_env st) G ->
  forallb conc_e es' = true /\ forallb (fun e => Wt.wt_expr F P' G (xe e)) es' = true /\
  length es' = length es /\ st_env st' = st_env st.
Proof.
  intros HE HF. induction es as [|e es IH]; intros st es' st' G Hf H Hok Hrel; cbn [mapM_st] in H; inv_all'.
  - repeat split; reflexivity.
  - cbn [forallb] in Hf. apply andb_true_iff in Hf. destruct Hf as [Hf1 Hf2].
    destruct (HE _ _ _ _ _ F Hf1 Hb Hok Hrel HF) as [Hc Hw].
    pose proof (proj1 (check_env intern f D) _ _ _ Hb) as Henv. cbn [snd] in Henv.
    pose proof (good_e _ _ _ _ Hb Hok) as Hok2. cbn [snd] in Hok2.
    rewrite <- Henv in Hrel.
    destruct (IH _ _ _ _ Hf2 Hb0 Hok2 Hrel) as [Hc2 [Hw2 [Hl He]]].
    cbn [forallb length]. rewrite Hc, Hc2, Hw, Hw2, Hl. repeat split; try reflexivity. congruence.
Qed.

Lemma mapM_check_type_conc f t : forall l l',
  mapM (fun x => check_type f x t) l = COk l' -> forallb conc_e l = true ->
  l' = l /\ forall x, In x l -> ty_of x = t.
Proof.
  induction l as [|x l IH]; intros l' H Hc; cbn [mapM] in H; inv_all; [split; [reflexivity|intros ? []]|].
  cbn [forallb] in Hc. apply andb_true_iff in Hc. destruct Hc as [Hc1 Hc2].
  destruct (check_type_conc _ _ _ _ Hb Hc1) as [-> Ht]. destruct (IH _ Hb0 Hc2) as [-> Hall].
  split; [reflexivity|]. intros y [<-|Hy]; auto.
Qed.

Lemma scalar_conc ty t : scalar_uty ty = true -> concrete_of D ty = COk t -> conc_ty t = true.
Proof.
  unfold concrete_of. destruct ty; try discriminate; cbn [scalar_uty as_concrete_type]; intros Hs H; inv_all.
  - reflexivity.
  - destruct t0; try discriminate; reflexivity.
  - destruct t0; try discriminate; reflexivity.
Qed.

Lemma pick_conc t l : conc_ty t = true -> pick_elem_ty t l = t.
Proof. intro H. unfold pick_elem_ty. rewrite (conc_not_uU _ H), (conc_not_sU _ H). reflexivity. Qed.

Lemma conc_tys l : forallb conc_e l = true -> forallb conc_ty (map ty_of l) = true.
Proof.
  induction l as [|x l IH]; [reflexivity|]. cbn [forallb map]. intro H. apply andb_true_iff in H. destruct H.
  rewrite (conc_e_ty _ H), IH; auto.
Qed.

Lemma forallb2_tuple f G l : forallb (fun e => Wt.wt_expr f P' G (xe e)) l = true ->
  Wt.forallb2 (fun e t => Wt.ty_eqb (Ast.e_ty e) t && Wt.wt_expr f P' G e) (map xe l) (map xt (map ty_of l)) = true.
Proof.
  induction l as [|x l IH]; [reflexivity|]. cbn [forallb map Wt.forallb2]. intro H. apply andb_true_iff in H. destruct H as [H1 H2].
  rewrite e_ty_xe, xt_refl, H1, IH; auto.
Qed.

Lemma forallb_arr f G l t : forallb (fun e => Wt.wt_expr f P' G (xe e)) l = true -> (forall x, In x l -> ty_of x = t) ->
  forallb (fun e => Wt.ty_eqb (Ast.e_ty e) (xt t) && Wt.wt_expr f P' G e) (map xe l) = true.
Proof.
  induction l as [|x l IH]; [reflexivity|]. cbn [forallb map]. intros H Ht. apply andb_true_iff in H. destruct H as [H1 H2].
  rewrite e_ty_xe, (Ht x (or_introl eq_refl)), xt_refl, H1, IH; auto. intros; apply Ht; right; assumption.
Qed.

Lemma lenN_map {A B} (g : A -> B) l : lenN (map g l) = lenN l.
Proof. unfold lenN. rewrite map_length. reflexivity. Qed.

(* the accessor loop of an assignment *)
Lemma accs_ok f F : E f -> (f <= F)%nat -> forall accs st t tas t' st' G,
  forallb frag_a accs = true ->
  accs_loop (check_expr intern f D) D st t accs = COk (tas, t', st') ->
  good st -> env_rel (st_env st) G -> conc_ty t = true ->
  ago F G (map xa tas) (xt t) = Some (xt t') /\ conc_ty t' = true /\ st_env st' = st_env st.
Proof.
  intros HE HF. induction accs as [|a accs IH]; intros st t tas t' st' G Hf H Hok Hrel Hct; cbn [accs_loop] in H.
  - inv_all. repeat split; auto.
  - cbn [forallb] in Hf. apply andb_true_iff in Hf. destruct Hf as [Hf1 Hf2].
    apply cbind_ok in H. destruct H as [[[ta t1] st1] [H1 H]]. cbv beta iota in H.
    apply cbind_ok in H. destruct H as [[[tas2 tf] st2] [H2 H]]. cbv beta iota in H. inv_all.
    destruct a; try discriminate Hf1; cbn [frag_a] in Hf1.
    + (* [i] *)
      apply cbind_ok in H1. destruct H1 as [el [Hel H1]]. destruct t as [| | |el0 n| | |]; try discriminate Hel. cbn in Hel. assert (el0 = el) by congruence. subst el0. clear Hel.
      apply cbind_ok in H1. destruct H1 as [[i1 sti] [Hi H1]]. cbn [fst snd] in H1.
      apply cbind_ok in H1. destruct H1 as [i2 [Hcoc H1]]. inversion H1; subst ta t1 st1; clear H1.
      destruct (HE _ _ _ _ _ F Hf1 Hi Hok Hrel HF) as [Hci Hwi].
      destruct (coc_unsigned_conc _ _ _ Hcoc (conc_e_ty _ Hci)) as [-> Ety].
      pose proof (proj1 (check_env intern f D) _ _ _ Hi) as Henv. cbn [snd] in Henv.
      pose proof (good_e _ _ _ _ Hi Hok) as Hok2. cbn [snd] in Hok2. rewrite <- Henv in Hrel.
      cbn [conc_ty] in Hct.
      destruct (IH _ _ _ _ _ _ Hf2 H2 Hok2 Hrel Hct) as [Hago [Hc' He]].
      cbn [map ago]. fold (ago F G). rewrite xa_arr. cbn [export_ty]. fold (xt (CArray el n)).
      rewrite e_ty_xe, Ety, Hwi. cbn [export_ty Wt.is_unsigned]. 
      change (Ast.TArr (xt el) n) with (xt (CArray el n)). rewrite xt_refl. cbn [andb].
      split; [exact Hago|]. split; [exact Hc'|congruence].
    + (* .i *)
      apply cbind_ok in H1. destruct H1 as [vts [Hvt H1]]. destruct t as [| | | |vts0| |]; try discriminate Hvt. cbn in Hvt. assert (vts0 = vts) by congruence. subst vts0. clear Hvt.
      destruct (nthN vts index) as [ti|] eqn:En; [|discriminate]. inversion H1; subst ta t1 st1; clear H1.
      cbn [conc_ty] in Hct. pose proof (conc_nth _ _ _ Hct En) as Hcti.
      destruct (IH _ _ _ _ _ _ Hf2 H2 Hok Hrel Hcti) as [Hago [Hc' He]].
      cbn [map ago]. fold (ago F G). rewrite xa_tup. cbn [export_ty].
      change (Ast.TTup (map xt vts)) with (xt (CTuple vts)). rewrite xt_refl. cbn [export_ty].
      rewrite nthN_map, En. cbn [option_map]. auto.
Qed.

Ltac env_tac := first [assumption | (repeat match goal with He : st_env _ = st_env _ |- _ => rewrite He end); assumption].

(* one sub-expression: the IH, the environment equality and [good] of the state after it *)
Ltac sub_e HE G F HF H :=
  let Hc := fresh "Hc" in let Hw := fresh "Hw" in let Henv := fresh "Henv" in let Hg := fresh "Hg" in
  pose proof (proj1 (check_env intern _ D) _ _ _ H) as Henv; cbn [snd] in Henv;
  match type of H with Infer.check_expr _ _ _ ?st ?e = _ =>
    let Hf := fresh in assert (Hf : frag_e e = true) by assumption;
    let Hg0 := fresh "Hg0" in
    assert (Hg0 : good st) by assumption;
    pose proof (good_e _ _ _ _ H Hg0) as Hg; cbn [snd] in Hg; clear Hg0;
    destruct (HE _ _ _ _ G F Hf H ltac:(assumption) ltac:(env_tac) HF) as [Hc Hw] end.

Ltac bind_e H x st Hx := apply cbind_ok in H; destruct H as [[x st] [Hx H]]; cbv beta zeta in H; cbn [fst snd] in H.

Theorem sound_all : forall f, E f /\ St f /\ Bl f /\ Ss f.
Proof.
  induction f as [|f [HE [HS [HB HSs]]]].
  { repeat split; intros; discriminate. }
  assert (HB' : Bl (S f)).
  { intros b st b' ty st' G F Hf H Hok Hrel HF. destruct F as [|F]; [lia|]. apply le_S_n in HF.
    cbn [check_block] in H. refold H. inv_all'.
    destruct (stmts_sound f F HS HF _ _ _ _ _ Wt.unit_ty Hf Hb Hok Hrel) as [Hc Hw].
    split; [exact Hc|]. rewrite wt_block_S, Hw, last_expr_ty_x. reflexivity. }
  assert (HSs' : Ss (S f)).
  { intros b st b' st' G F Hf H Hok Hrel HF. destruct F as [|F]; [lia|]. apply le_S_n in HF.
    cbn [check_stmts] in H. refold H.
    destruct (stmts_sound f F HS HF _ _ _ _ _ Wt.unit_ty Hf H Hok Hrel) as [Hc Hw].
    split; [exact Hc|]. eexists. rewrite wt_block_S. exact Hw. }
  split; [|split; [|split; assumption]].
  - (* ---------------------------------------------------------------- expressions *)
    intros e st e' st' G F Hf H Hok Hrel HF. destruct F as [|F]; [lia|]. apply le_S_n in HF. destruct e; try discriminate Hf; cbn [frag_e] in Hf;
      cbn [Infer.check_expr] in H; refold H.
    + (* true *) inv_all. split; reflexivity.
    + inv_all. split; reflexivity.
    + (* unsigned literal *) inv_all. cbn [conc_e export_expr Wt.wt_expr export_ty].
      rewrite (lit_u_conc _ _ Hf), (lit_u_fits _ _ Hf). split; reflexivity.
    + inv_all. cbn [conc_e export_expr Wt.wt_expr export_ty].
      rewrite (lit_s_conc _ _ Hf), (lit_s_fits _ _ Hf). split; reflexivity.
    + (* identifier *)
      destruct (env_get (st_env st) s) as [[ty m]|] eqn:Eg.
      * inv_all. cbn [conc_e export_expr Wt.wt_expr]. rewrite (Hok _ _ _ Eg).
        destruct (Hrel _ _ _ Eg) as [m' [Hl _]]. rewrite Hl, xt_refl. split; reflexivity.
      * rewrite D_consts in H. discriminate.
    + (* array literal *)
      apply cbind_ok in H. destruct H as [[es1 st1] [Hes H]]. cbn [fst snd] in H.
      destruct (exprs_sound f F HE HF _ _ _ _ G Hf Hes Hok Hrel) as [Hces [Hwes [Hlen Henv]]].
      destruct es1 as [|first es1]; [discriminate|].
      assert (Hcf : conc_ty (ty_of first) = true).
      { cbn [forallb] in Hces. apply andb_true_iff in Hces. apply conc_e_ty. tauto. }
      rewrite (pick_conc _ _ Hcf) in H.
      apply cbind_ok in H. destruct H as [fields' [Hm H]]. inversion H; subst; clear H.
      destruct (mapM_check_type_conc _ _ _ _ Hm Hces) as [-> Hall].
      cbn [conc_e conc_ty export_expr Wt.wt_expr export_ty]. rewrite Hcf, Hces.
      rewrite lenN_map. unfold lenN. rewrite Hlen, N.eqb_refl.
      rewrite (forallb_arr _ _ _ _ Hwes Hall). split; reflexivity.
    + (* array repeat *) inv_all'. sub_e HE G F HF Hb. cbn [conc_e export_expr Wt.wt_expr export_ty ty_of conc_ty].
      rewrite Hc, (conc_e_ty _ Hc), Hw, N.eqb_refl, e_ty_xe, xt_refl. split; reflexivity.
    + (* array access *)
      apply andb_true_iff in Hf. destruct Hf as [Hf1 Hf2].
      bind_e H a1 st1 Ha. bind_e H i1 st2 Hi.
      apply cbind_ok in H. destruct H as [el [Hel H]]. apply cbind_ok in H. destruct H as [i2 [Hcoc H]].
      inversion H; subst; clear H.
      sub_e HE G F HF Ha. sub_e HE G F HF Hi.
      destruct (coc_unsigned_conc _ _ _ Hcoc (conc_e_ty _ Hc0)) as [-> Ety].
      pose proof (conc_e_ty _ Hc) as Hca.
      destruct (ty_of a1) as [| | |el0 n0| | |] eqn:Eta; try discriminate Hel. cbn in Hel. inversion Hel; subst; clear Hel.
      cbn [conc_ty] in Hca.
      cbn [conc_e export_expr Wt.wt_expr]. rewrite !e_ty_xe, Eta, Ety, Hca, Hc, Hc0, Hw, Hw0.
      cbn [export_ty Wt.is_unsigned]. rewrite xt_refl. split; reflexivity.
    + (* tuple literal *)
      apply cbind_ok in H. destruct H as [[es1 st1] [Hes H]]. cbn [fst snd] in H. inversion H; subst; clear H.
      destruct (exprs_sound f F HE HF _ _ _ _ G Hf Hes Hok Hrel) as [Hces [Hwes [Hlen Henv]]].
      cbn [conc_e conc_ty export_expr Wt.wt_expr export_ty]. rewrite (conc_tys _ Hces), Hces.
      rewrite (forallb2_tuple _ _ _ Hwes). split; reflexivity.
    + (* tuple access *)
      bind_e H t1 st1 Ht. apply cbind_ok in H. destruct H as [vts [Hvt H]].
      sub_e HE G F HF Ht. pose proof (conc_e_ty _ Hc) as Hct.
      destruct (ty_of t1) as [| | | |vts0| |] eqn:Ett; try discriminate Hvt. cbn in Hvt. inversion Hvt; subst; clear Hvt.
      destruct (nthN vts i) as [ti|] eqn:En; [|discriminate]. inversion H; subst; clear H.
      cbn [conc_ty] in Hct.
      cbn [conc_e export_expr Wt.wt_expr]. rewrite e_ty_xe, Ett. cbn [export_ty]. rewrite nthN_map, En. cbn [option_map].
      rewrite xt_refl, Hw, Hc, (conc_nth _ _ _ Hct En). split; reflexivity.
    + (* unary *)
      destruct o; inv_all';
        match goal with Hx : Infer.check_expr _ _ _ _ _ = COk _ |- _ => sub_e HE G F HF Hx end;
        pose proof (conc_e_ty _ Hc) as Hct;
        cbn [conc_e export_expr Wt.wt_expr export_ty ty_of]; rewrite ?e_ty_xe, ?xt_refl, Hc, Hct, Hw; split; try reflexivity.
      * match goal with H : expect_bool_or_num_type _ = COk _ |- _ =>
             pose proof (expect_bool_or_num_x _ _ H) as Hb1; cbn [ty_of] in Hb1; rewrite Hb1; reflexivity end.
      * match goal with H : expect_signed_num_type _ = COk _ |- _ =>
             pose proof (expect_signed_x _ _ H) as Hb1; cbn [ty_of] in Hb1; rewrite Hb1; reflexivity end.
    + (* binary *)
      apply andb_true_iff in Hf. destruct Hf as [Hf1 Hf2].
      bind_e H x1 st1 Hx. bind_e H y1 st2 Hy.
      sub_e HE G F HF Hx. sub_e HE G F HF Hy.
      pose proof (conc_e_ty _ Hc) as Htx. pose proof (conc_e_ty _ Hc0) as Hty.
      destruct o.
      1-12: (apply cbind_ok in H; destruct H as [[[x2 y2] ty] [Hu H]]; cbv beta iota in H;
             destruct (unify_conc _ _ _ _ _ Hu Htx Hty) as [-> [-> [Et1 Et2]]]; subst ty).
      1-10: (apply cbind_ok in H; destruct H as [u0 [Hex H]]).
      13-14: (apply cbind_ok in H; destruct H as [u0 [Hex H]]; apply cbind_ok in H; destruct H as [y2 [Hcoc H]];
              destruct (coc_unsigned_conc _ _ _ Hcoc Hty) as [-> Ey]).
      15-16: (destruct (ty_of x1) eqn:Ex1; try discriminate H; destruct (ty_of y1) eqn:Ey1; try discriminate H).
      all: inversion H; subst; clear H.
      all: cbn [conc_e export_expr export_op Wt.wt_expr export_ty ty_of conc_ty];
           rewrite ?e_ty_xe, ?Et2, ?Ey, ?Ex1, ?Ey1, ?Hc, ?Hc0, ?Hw, ?Hw0, ?Htx, ?xt_refl.
      1-5: rewrite (expect_num_x _ _ Hex).
      6-8: rewrite (orb_comm (Wt.is_int _)), (expect_bool_or_num_x _ _ Hex).
      9-10: rewrite (expect_num_x _ _ Hex).
      13-14: rewrite (expect_num_x _ _ Hex).
      all: split; reflexivity.
    + (* block *)
      apply cbind_ok in H. destruct H as [[[body ty] st1] [Hblk H]]. cbv beta iota in H. inv_all.
      destruct (HB _ _ _ _ _ ([] :: G) F Hf Hblk) as [Hcb Hwb].
      { apply env_ok_push. exact Hok. }
      { apply env_rel_push. exact Hrel. }
      { exact HF. }
      assert (Ety : ty = last_expr_ty body).
      { destruct f as [|f0]; [discriminate|]. cbn [check_block] in Hblk. refold Hblk. inv_all. reflexivity. }
      rewrite xe_block, wt_expr_block, Hwb, xt_refl. cbn [conc_e]. rewrite Hcb.
      rewrite Ety, (last_expr_ty_conc _ Hcb). split; reflexivity.
    + (* if *)
      apply andb_true_iff in Hf. destruct Hf as [Hf Hf3]. apply andb_true_iff in Hf. destruct Hf as [Hf1 Hf2].
      bind_e H c1 st1 Hc1. bind_e H a1 st2 Ha. bind_e H b1 st3 Hb.
      apply cbind_ok in H. destruct H as [c2 [Hct H]].
      apply cbind_ok in H. destruct H as [[[a2 b2] ty] [Hu H]]. cbv beta iota in H. inversion H; subst; clear H.
      sub_e HE G F HF Hc1. sub_e HE G F HF Ha. sub_e HE G F HF Hb.
      destruct (check_type_conc _ _ _ _ Hct Hc) as [-> Etc].
      destruct (unify_conc _ _ _ _ _ Hu (conc_e_ty _ Hc0) (conc_e_ty _ Hc2)) as [-> [-> [Et1 Et2]]]. subst ty.
      cbn [conc_e export_expr Wt.wt_expr export_ty ty_of].
      rewrite !e_ty_xe, Etc, Et2, xt_refl, Hc, Hc0, Hc2, Hw, Hw0, Hw1, (conc_e_ty _ Hc0). split; reflexivity.
    + (* cast *)
      apply andb_true_iff in Hf. destruct Hf as [Hf1 Hf2].
      apply cbind_ok in H. destruct H as [ty' [Hty H]]. bind_e H x1 st1 Hx.
      apply cbind_ok in H. destruct H as [u1 [Hex1 H]]. apply cbind_ok in H. destruct H as [u2 [Hex2 H]].
      inversion H; subst; clear H. sub_e HE G F HF Hx.
      cbn [conc_e export_expr Wt.wt_expr export_ty ty_of].
      rewrite e_ty_xe, xt_refl, Hc, Hw, (scalar_conc _ _ Hf1 Hty).
      rewrite (orb_comm (Wt.is_int (xt ty'))), (expect_bool_or_num_x _ _ Hex2).
      rewrite (orb_comm (Wt.is_int (xt (ty_of x1)))), (expect_bool_or_num_x _ _ Hex1). split; reflexivity.
    + (* range *)
      destruct ((hi <=? lo) || (u32_max <? hi - lo)) eqn:Er; [discriminate|]. inversion H; subst; clear H.
      apply orb_false_iff in Er. destruct Er as [Er _]. apply N.leb_gt in Er.
      cbn [conc_e conc_ty export_expr Wt.wt_expr].
      change (Ast.TArr (Ast.TInt false (ubits t)) (hi - lo)) with (xt (CArray (CUnsigned t) (hi - lo))).
      rewrite xt_refl. destruct t; try discriminate Hf; cbn [conc_ty];
        (split; [reflexivity|]; apply andb_true_iff; split; [apply N.leb_le; lia|reflexivity]).
  - (* ---------------------------------------------------------------- statements *)
    intros s st s' st' G F Hf H Hok Hrel HF. destruct F as [|F]; [lia|]. apply le_S_n in HF. destruct s; cbn [frag_s] in Hf;
      cbn [Infer.check_stmt] in H; refold H.
    + (* let *)
      apply andb_true_iff in Hf. destruct Hf as [Hfp Hfe].
      bind_e H e1 st1 He. sub_e HE G F HF He. pose proof (conc_e_ty _ Hc) as Hct.
      apply cbind_ok in H. destruct H as [e2 [Hann H]].
      assert (e2 = e1).
      { destruct ty; [|inversion Hann; reflexivity]. apply cbind_ok in Hann. destruct Hann as [ty' [_ Hann]].
        apply check_type_conc in Hann; tauto. }
      subst e2. clear Hann.
      apply cbind_ok in H. destruct H as [[p1 g1] [Hp H]]. apply cbind_ok in H. destruct H as [u0 [_ H]].
      cbn [fst snd] in H. inversion H; subst; clear H.
      destruct (pat_sound p _ _ _ _ Hfp Hp) as [Hpty [bs [Hwp [Hrp Hop]]]].
      split; [exact Hc|]. exists (Wt.tbind_all G bs false). cbn [st_env with_env].
      split; [|split; [apply Hop; assumption|apply Hrp; env_tac]].
      rewrite xs_let, wt_stmt_let, Hw, e_ty_xe, Hpty, xt_refl, Hwp. reflexivity.
    + (* let mut *)
      bind_e H e1 st1 He. sub_e HE G F HF He. pose proof (conc_e_ty _ Hc) as Hct.
      apply cbind_ok in H. destruct H as [e2 [Hann H]].
      assert (e2 = e1).
      { destruct ty; [|inversion Hann; reflexivity]. apply cbind_ok in Hann. destruct Hann as [ty' [_ Hann]].
        apply check_type_conc in Hann; tauto. }
      subst e2. clear Hann.
      apply cbind_ok in H. destruct H as [e3 [Hi H]]. inversion H; subst; clear H.
      apply constrain_to_i32_conc in Hi; [|exact Hc]. subst e3.
      split; [exact Hc|]. exists (Wt.tbind G (intern x) (xt (ty_of e1)) true).
      cbn [st_env with_env]. rewrite Henv.
      split; [|split; [apply env_ok_let; assumption|apply env_rel_let; assumption]].
      rewrite xs_letmut, wt_stmt_letmut, Hw, e_ty_xe. reflexivity.
    + (* assignment *)
      apply andb_true_iff in Hf. destruct Hf as [Hfa Hfe].
      destruct (env_get (st_env st) x) as [[tx [|]]|] eqn:Eg; try discriminate H.
      apply cbind_ok in H. destruct H as [[[tas t'] st1] [Hacc H]]. cbv beta iota in H.
      bind_e H v1 st2 Hv. apply cbind_ok in H. destruct H as [v2 [Hct H]]. inversion H; subst; clear H.
      destruct (accs_ok f F HE HF _ _ _ _ _ _ G Hfa Hacc Hok Hrel (Hok _ _ _ Eg)) as [Hago [Hct' Henv1]].
      assert (Hg1 : good st1) by (unfold good; rewrite Henv1; exact Hok).
      assert (Hr1 : env_rel (st_env st1) G) by (rewrite Henv1; exact Hrel).
      sub_e HE G F HF Hv. destruct (check_type_conc _ _ _ _ Hct Hc) as [-> Etv].
      split; [exact Hc|]. exists G. split; [|split; [exact Hg|env_tac]].
      destruct (Hrel _ _ _ Eg) as [m' [Hl Hm]]. rewrite (Hm eq_refl) in Hl.
      rewrite xs_assign, wt_stmt_assign, Hl, Hago, e_ty_xe, Etv, xt_refl, Hw. reflexivity.
    + (* for *)
      apply andb_true_iff in Hf. destruct Hf as [Hf Hfb]. apply andb_true_iff in Hf. destruct Hf as [Hfp Hfe].
      match type of H with (if ?c then _ else _) = _ => destruct c; [discriminate|] end.
      bind_e H a1 st1 Ha. sub_e HE G F HF Ha. pose proof (conc_e_ty _ Hc) as Hca.
      apply cbind_ok in H. destruct H as [el [Hel H]].
      destruct (ty_of a1) as [| | |el0 n0| | |] eqn:Eta; try discriminate Hel. cbn in Hel. inversion Hel; subst; clear Hel.
      cbn [conc_ty] in Hca.
      apply cbind_ok in H. destruct H as [[p1 g1] [Hp H]]. apply cbind_ok in H. destruct H as [u0 [_ H]].
      cbn [fst snd] in H. apply cbind_ok in H. destruct H as [[body1 st2] [Hbody H]]. cbn [fst snd] in H.
      inversion H; subst; clear H.
      destruct (pat_sound p _ _ _ _ Hfp Hp) as [Hpty [bs [Hwp [Hrp Hop]]]].
      destruct (HSs _ _ _ _ (Wt.tbind_all ([] :: G) bs false) F Hfb Hbody) as [Hcb [tb Hwb]]; [| |exact HF|].
      { unfold good. cbn [st_env with_env]. apply Hop; [exact Hca|]. apply env_ok_push. exact Hg. }
      { cbn [st_env with_env]. apply Hrp. apply env_rel_push. env_tac. }
      pose proof (proj1 (proj2 (check_env intern f D)) _ _ _ Hbody) as Htl. cbn [snd st_env with_env] in Htl.
      pose proof (check_pattern_tl _ _ _ _ _ Hp) as Htl2. cbn [snd env_push tl] in Htl2.
      split; [cbn [conc_s]; rewrite Hc, Hcb; reflexivity|]. exists G.
      assert (Henvf : env_pop (st_env st2) = st_env st).
      { change env_pop with (@tl cscope). congruence. }
      cbn [st_env with_env]. unfold good. cbn [st_env]. rewrite Henvf.
      split; [|split; assumption].
      rewrite xs_for, wt_stmt_for, e_ty_xe, Eta. cbn [export_ty]. rewrite Hw, Hpty, xt_refl, Hwp, Hwb. reflexivity.
    + (* expression statement *)
      bind_e H e1 st1 He. inversion H; subst; clear H.
      sub_e HE G F HF He. split; [exact Hc|]. exists G.
      split; [|split; [exact Hg|env_tac]].
      rewrite xs_expr, wt_stmt_expr, Hw, e_ty_xe. reflexivity.
Qed.

Corollary check_block_sound f : Bl f.
Proof. apply sound_all. Qed.
Corollary check_expr_sound f : E f.
Proof. apply sound_all. Qed.


(* ------------------------------------------------------------------ functions *)

Lemma env_rel_let_mut g G x t m m' : (m = true -> m' = true) ->
  env_rel g G -> env_rel (env_let g x t m) (Wt.tbind G (intern x) (xt t) m').
Proof.
  intros Hm H y t' m0 Hy. rewrite env_get_let in Hy. rewrite tlookup_tbind.
  destruct (list_eqb y x) eqn:E.
  - apply list_eqb_eq in E. subst y. rewrite N.eqb_refl. inversion Hy; subst. eauto.
  - destruct (N.eqb_spec (intern y) (intern x)) as [Heq|Hne]; [|apply H; assumption].
    apply intern_inj in Heq. subst y. rewrite list_eqb_refl in E. discriminate.
Qed.

Definition xparams (tps : list (bool * list N * cty)) : list (N * Ast.ty) :=
  map (fun p => (intern (snd (fst p)), xt (snd p))) tps.

Lemma params_ok : forall ps seen g tps g' G,
  forallb (fun p => conc_uty (upa_ty p)) ps = true ->
  (fix go (seen : list (list N)) (ps : list uparam) (g : cenv)
     : cres (list (bool * list N * cty) * cenv) :=
     match ps with
     | [] => COk ([], g)
     | p :: r =>
         if memL (upa_name p) seen then CErr E_DuplicateFnParam else
         do ty <- concrete_of D (upa_ty p);
         do r2 <- go (upa_name p :: seen) r (env_let g (upa_name p) ty (upa_mut p));
         COk ((upa_mut p, upa_name p, ty) :: fst r2, snd r2)
     end) seen ps g = COk (tps, g') ->
  env_ok g -> env_rel g G ->
  env_ok g' /\ env_rel g' (Wt.tbind_all G (xparams tps) true).
Proof.
  induction ps as [|p ps IH]; intros seen g tps g' G Hc H Hok Hrel.
  - inversion H; subst. cbn. auto.
  - cbn [forallb] in Hc. apply andb_true_iff in Hc. destruct Hc as [Hc1 Hc2].
    destruct (memL (upa_name p) seen); [discriminate|].
    apply cbind_ok in H. destruct H as [ty [Hty H]]. apply cbind_ok in H. destruct H as [[tps2 g2] [Hgo H]].
    cbn [fst snd] in H. inversion H; subst; clear H.
    pose proof (as_concrete_conc _ _ _ _ Hty Hc1) as Hcty.
    destruct (IH _ _ _ _ (Wt.tbind G (intern (upa_name p)) (xt ty) true) Hc2 Hgo) as [Hok' Hrel'].
    { apply env_ok_let; assumption. }
    { apply env_rel_let_mut; [reflexivity|assumption]. }
    split; [exact Hok'|]. exact Hrel'.
Qed.

Lemma map_last_check f t : forall b b',
  map_last_expr (fun x => check_type f x t) b = COk b' -> forallb conc_s b = true ->
  b' = b /\ forall e0, last (map Some b) None = Some (TSExpr e0) -> ty_of e0 = t.
Proof.
  induction b as [|s b IH]; intros b' H Hc; [cbn in H; inversion H; split; [reflexivity|discriminate]|].
  cbn [forallb] in Hc. apply andb_true_iff in Hc. destruct Hc as [Hc1 Hc2].
  cbn [map_last_expr] in H. destruct b as [|s2 b].
  - destruct s; try (inversion H; subst; split; [reflexivity|intros e0 He0; discriminate He0]).
    apply cbind_ok in H. destruct H as [e' [Hct H]]. inversion H; subst; clear H.
    destruct (check_type_conc _ _ _ _ Hct Hc1) as [-> Ht]. split; [reflexivity|].
    intros e0 He0. cbn in He0. injection He0 as <-. exact Ht.
  - assert (Hr : exists r', map_last_expr (fun x => check_type f x t) (s2 :: b) = COk r' /\ b' = s :: r').
    { destruct s; apply cbind_ok in H; destruct H as [r' [Hr H]]; inversion H; subst; eauto. }
    destruct Hr as [r' [Hr ->]]. destruct (IH _ Hr Hc2) as [-> Hl]. split; [reflexivity|].
    intros e0 He0. apply Hl. exact He0.
Qed.

(* UntypedFnDef::type_check: the body of the typed function passes the re-checker in the
   environment Wt.wt_fn builds from the parameters (no consts), with the declared return type *)
Lemma fn_sound f fd st tfd st' F :
  frag_fn fd = true -> check_fn intern f D st fd = COk (tfd, st') -> (f <= S F)%nat ->
  exists t,
    Wt.wt_block F P' ([] :: Wt.tbind_all ([] :: [[]]) (Ast.fn_params (export_fn intern en tfd)) true)
                (Ast.fn_body (export_fn intern en tfd)) = Some t /\
    Wt.ty_eqb t (Ast.fn_ret (export_fn intern en tfd)) = true.
Proof.
  intros Hfr H HF. destruct f as [|f]; [discriminate|]. apply le_S_n in HF.
  unfold frag_fn in Hfr. apply andb_true_iff in Hfr. destruct Hfr as [Hfp Hfb].
  cbn [Infer.check_fn] in H. refold H.
  destruct (memL (uf_name fd) (st_checking st)); [discriminate|].
  apply cbind_ok in H. destruct H as [[tps g1] [Hps H]]. cbn [fst snd] in H.
  apply cbind_ok in H. destruct H as [[[body ty] st1] [Hblk H]]. cbv beta iota zeta in H.
  apply cbind_ok in H. destruct H as [ret_ty [Hret H]]. apply cbind_ok in H. destruct H as [body' [Hlast H]].
  inversion H; subst; clear H.
  destruct (params_ok _ _ _ _ _ ([] :: [[]]) Hfp Hps) as [Hok1 Hrel1].
  { intros x t m Hx. discriminate Hx. }
  { intros x t m Hx. discriminate Hx. }
  destruct (proj1 (proj2 (proj2 (sound_all f))) _ _ _ _ _ ([] :: Wt.tbind_all ([] :: [[]]) (xparams tps) true) F Hfb Hblk) as [Hcb Hwb].
  { exact Hok1. }
  { cbn [st_env]. intros x t m Hx. apply Hrel1 in Hx. cbn [Wt.tlookup Ast.assocN]. exact Hx. }
  { exact HF. }
  assert (Ety : ty = last_expr_ty body).
  { destruct f as [|f0]; [discriminate|]. cbn [check_block] in Hblk. refold Hblk. inv_all. reflexivity. }
  assert (Hb' : body' = body /\ ty = ret_ty).
  { unfold last_expr_ty in Ety. destruct (last (map Some body) None) as [[]|] eqn:El.
    all: try (destruct (cty_eqb ret_ty unit_cty) eqn:Eu; [|discriminate Hlast]; cbn [negb] in Hlast;
              inversion Hlast; subst; apply cty_eqb_eq in Eu; auto).
    destruct (map_last_check _ _ _ _ Hlast Hcb) as [-> Hl]. split; [reflexivity|]. rewrite Ety. apply Hl. exact El. }
  destruct Hb' as [-> ->].
  exists (xt ret_ty). cbn [export_fn Ast.fn_params Ast.fn_body Ast.fn_ret tf_params tf_body tf_ty].
  fold (xparams tps). split; [exact Hwb|apply xt_refl].
Qed.

End Sound.

Print Assumptions sound_all.
Print Assumptions fn_sound.

Ltac destr_tuples := repeat match goal with x : (_ * _)%type |- _ => destruct x end.
Ltac inv_all' := repeat (progress (inv_all; destr_tuples; cbn [fst snd] in * )).

Section TypedInvB.
Variable intern : list N -> N.
Variable D : defs.
Notation check_expr := (check_expr intern).
Notation check_stmt := (check_stmt intern).
Notation check_stmts := (check_stmts intern).
Notation check_block := (check_block intern).
Notation check_fn := (check_fn intern).

(* a property of the entries of `typed` that holds for whatever a successful function check
   inserts is an invariant of the whole checker *)
Variable Q : list N * tfndef -> Prop.
Variable Bd : nat.
Hypothesis Q_ins : forall f st ufd r id, (f < Bd)%nat -> Forall Q (st_typed st) ->
  find (fun d => list_eqb (uf_name d) id) (d_fns D) = Some ufd ->
  check_fn f D st ufd = COk r -> Q (id, fst r).

Definition Rb (st st' : cstate) : Prop := Forall Q (st_typed st) -> Forall Q (st_typed st').

Lemma R_reflb st : Rb st st. Proof. unfold Rb; auto. Qed.
Lemma R_transb a b c : Rb a b -> Rb b c -> Rb a c. Proof. unfold Rb; auto. Qed.

Lemma mapM_st_Rb {A B} (g : cstate -> A -> cres (B * cstate)) :
  (forall st x r, g st x = COk r -> Rb st (snd r)) ->
  forall l st r, mapM_st g st l = COk r -> Rb st (snd r).
Proof.
  intros Hg. induction l as [|x l IH]; intros st r H; cbn [mapM_st] in H; inv_all; [apply R_reflb|].
  cbn [snd]. eapply R_transb; [eapply Hg; eauto|eapply IH; eauto].
Qed.

Lemma accs_loop_Rb ce :
  (forall st x r, ce st x = COk r -> Rb st (snd r)) ->
  forall accs st t r, accs_loop ce D st t accs = COk r -> Rb st (snd r).
Proof.
  intros Hce. induction accs as [|a accs IH]; intros st t r H; cbn [accs_loop] in H; [inv_all; apply R_reflb|].
  apply cbind_ok in H. destruct H as [[[ta t'] st'] [H1 H2]]. cbv beta iota in H2.
  apply cbind_ok in H2. destruct H2 as [[[tas tf] st''] [H2 H3]]. cbv beta iota in H3. inv_all. cbn [snd].
  apply IH in H2. cbn [snd] in H2. eapply R_transb; [|exact H2]. clear H2 IH.
  destruct a.
  - inv_all'. match goal with H : ce _ _ = _ |- _ => apply Hce in H; exact H end.
  - inv_all'. destruct (nthN _ _); inv_all. apply R_reflb.
  - inv_all'. destruct (assocL _ (d_structs D)); [|discriminate]. destruct (assocL _ _); inv_all. apply R_reflb.
Qed.

Lemma struct_lit_loop_Rb ce f sd :
  (forall st x r, ce st x = COk r -> Rb st (snd r)) ->
  forall fields seen st r, struct_lit_loop ce f sd seen st fields = COk r -> Rb st (snd r).
Proof.
  intros Hce. induction fields as [|[fname fv] fields IH]; intros seen st r H; cbn [struct_lit_loop] in H; inv_all; [apply R_reflb|].
  destruct (assocL fname sd); [|discriminate]. inv_all. cbn [snd].
  eapply R_transb; [eapply Hce; eauto|eapply IH; eauto].
Qed.

Ltac refold H :=
  fold (Infer.check_expr intern) (Infer.check_stmts intern) (Infer.check_block intern)
       (Infer.check_fn intern) (Infer.check_stmt intern) in H.

Ltac use_R IHe IHss IHb IHs IHf := repeat match goal with
  | H : Infer.check_expr _ _ _ _ _ = COk _ |- _ => apply IHe in H
  | H : Infer.check_stmts _ _ _ _ _ = COk _ |- _ => apply IHss in H
  | H : Infer.check_block _ _ _ _ _ = COk _ |- _ => apply IHb in H
  | H : Infer.check_fn _ _ _ _ _ = COk _ |- _ => apply IHf in H
  | H : mapM_st (Infer.check_expr _ _ _) _ _ = COk _ |- _ => apply (mapM_st_Rb _ IHe) in H
  | H : mapM_st (Infer.check_stmt _ _ _) _ _ = COk _ |- _ => apply (mapM_st_Rb _ IHs) in H
  | H : accs_loop _ _ _ _ _ = COk _ |- _ => apply (accs_loop_Rb _ IHe) in H
  | H : struct_lit_loop _ _ _ _ _ _ = COk _ |- _ => apply (struct_lit_loop_Rb _ _ _ IHe) in H
  end.

Ltac finR := unfold Rb in *; cbn [snd fst st_typed with_env] in *; eauto 12.

Theorem check_typed_inv_b f : (f <= Bd)%nat ->
  (forall st e r, check_expr f D st e = COk r -> Rb st (snd r)) /\
  (forall st b r, check_stmts f D st b = COk r -> Rb st (snd r)) /\
  (forall st b r, check_block f D st b = COk r -> Rb st (snd r)) /\
  (forall st s r, check_stmt f D st s = COk r -> Rb st (snd r)) /\
  (forall st fd r, check_fn f D st fd = COk r -> Rb st (snd r)).
Proof.
  induction f as [|f IH]; intro HfB.
  { repeat split; intros; discriminate. }
  destruct (IH ltac:(lia)) as (IHe & IHss & IHb & IHs & IHf).
  split; [|split; [|split; [|split]]].
  - intros st e r H. destruct e; cbn [Infer.check_expr] in H; refold H.
    + inv_all; apply R_reflb.
    + inv_all; apply R_reflb.
    + inv_all; apply R_reflb.
    + inv_all; apply R_reflb.
    + destruct (env_get (st_env st) s) as [[? ?]|]; [inv_all; apply R_reflb|].
      destruct (assocL s (d_consts D)); inv_all; apply R_reflb.
    + inv_all. destruct (fst a) eqn:E; [discriminate|]. inv_all. use_R IHe IHss IHb IHs IHf. finR.
    + inv_all. use_R IHe IHss IHb IHs IHf. finR.
    + discriminate.
    + inv_all. use_R IHe IHss IHb IHs IHf. finR.
    + inv_all. use_R IHe IHss IHb IHs IHf. finR.
    + inv_all. destruct (nthN _ _); inv_all. use_R IHe IHss IHb IHs IHf. finR.
    + inv_all. destruct (assocL _ (d_structs D)); [|discriminate]. destruct (assocL _ _); inv_all. use_R IHe IHss IHb IHs IHf. finR.
    + destruct (assocL name (d_structs D)); [|discriminate]. inv_all. use_R IHe IHss IHb IHs IHf. finR.
    + destruct (assocL e (d_enums D)) as [ed|]; [|discriminate]. destruct (assocL v ed) as [[?|]|]; try discriminate;
        destruct args; try discriminate; inv_all; use_R IHe IHss IHb IHs IHf; finR.
    + (* match *)
      inv_all. destruct (ty_of (fst a)) eqn:Ety; try discriminate; inv_all;
      (destruct (fst a0) as [|[? ?] ?] eqn:E0; [discriminate|]; inv_all; cbn [snd];
       match goal with H1 : mapM_st _ _ _ = COk ?a0 |- Rb _ (snd ?a0) =>
         apply mapM_st_Rb in H1;
         [use_R IHe IHss IHb IHs IHf; finR
         |intros st0 pc r0 H0; inv_all; use_R IHe IHss IHb IHs IHf; finR] end).
    + destruct o; inv_all; use_R IHe IHss IHb IHs IHf; finR.
    + inv_all. destruct o; inv_all;
        try (match goal with x : texpr * texpr * cty |- _ => destruct x as [[? ?] ?] end; inv_all);
        try (destruct (ty_of (fst a)); try discriminate; destruct (ty_of (fst a0)); try discriminate; inv_all);
        use_R IHe IHss IHb IHs IHf; finR.
    + apply cbind_ok in H. destruct H as [[[body ty] st'] [H1 H]]. cbv beta iota in H. inv_all.
      use_R IHe IHss IHb IHs IHf. finR.
    + (* call *)
      apply cbind_ok in H. destruct H as [st1 [H1 H]]. cbv beta in H.
      assert (Hst1 : Rb st st1).
      { destruct (negb _) in H1; [|inv_all; apply R_reflb].
        destruct (find _ (d_fns D)) eqn:Ef; [|inv_all; apply R_reflb].
        apply cbind_ok in H1. destruct H1 as [[fd1 st2] [H1 H2]]. cbv beta in H2. inv_all.
        pose proof (fun HQ0 => Q_ins f _ _ _ _ ltac:(lia) HQ0 Ef H1) as Hq. apply IHf in H1. unfold Rb in *. cbn [snd fst st_typed] in *.
        intro H0. constructor; auto. }
      clear H1.
      destruct (assocL f0 (st_typed st1)); [|discriminate].
      destruct (env_get (st_env st1) f0); [discriminate|]. inv_all. use_R IHe IHss IHb IHs IHf. finR.
    + discriminate.
    + inv_all. destruct a3 as [[? ?] ?]. inv_all. use_R IHe IHss IHb IHs IHf. finR.
    + inv_all. use_R IHe IHss IHb IHs IHf. finR.
    + inv_all. apply R_reflb.
  - intros st b r H. cbn [Infer.check_stmts] in H. refold H. use_R IHe IHss IHb IHs IHf. exact H.
  - intros st b r H. cbn [Infer.check_block] in H. refold H. inv_all. use_R IHe IHss IHb IHs IHf. finR.
  - intros st s r H. destruct s; cbn [Infer.check_stmt] in H; refold H.
    + inv_all. use_R IHe IHss IHb IHs IHf. finR.
    + inv_all. use_R IHe IHss IHb IHs IHf. finR.
    + destruct (env_get (st_env st) x) as [[t [|]]|]; try discriminate.
      apply cbind_ok in H. destruct H as [[[tas t'] st1] [H1 H]]. cbv beta iota in H. inv_all.
      use_R IHe IHss IHb IHs IHf. finR.
    + inv_all. use_R IHe IHss IHb IHs IHf. finR.
    + inv_all. use_R IHe IHss IHb IHs IHf. finR.
  - intros st fd r H. cbn [Infer.check_fn] in H. refold H. inv_all.
    destruct a0 as [[body ?] st1]. inv_all. use_R IHe IHss IHb IHs IHf. finR.
Qed.

End TypedInvB.

(* ================================================================== whole programs *)

(* THE BOOLEAN FRAGMENT TEST (over the untyped program): no consts / structs / enums; every
   function has parameters of concrete types and a body made of the constructs of [frag_s]
   (no calls yet): all numbers suffixed and in the range of their suffix. *)
Definition in_sound_fragment (P : uprogram) : bool :=
  match up_consts P, up_structs P, up_enums P with
  | [], [], [] => forallb frag_fn (up_fns P)
  | _, _, _ => false
  end.

Section Program.
Variable intern : list N -> N.
Hypothesis intern_inj : forall a b, intern a = intern b -> a = b.

Lemma Forall_filter' {A} (Q : A -> Prop) p l : Forall Q l -> Forall Q (filter p l).
Proof. rewrite !Forall_forall. intros H x Hx. apply filter_In in Hx. apply H, Hx. Qed.

Lemma In_insert_field {A} (x f : list N * A) l : In x (insert_field f l) -> x = f \/ In x l.
Proof.
  induction l as [|g r IH]; cbn [insert_field]; [intros [<-|[]]; auto|].
  destruct (name_ltb (fst f) (fst g)); [intros [<-|H]; auto|].
  intros [<-|H]; [right; left; reflexivity|]. destruct (IH H); [auto|right; right; assumption].
Qed.

Lemma In_sort_fields {A} (x : list N * A) l : In x (sort_fields l) -> In x l.
Proof.
  unfold sort_fields.
  assert (H : forall l acc, In x (fold_left (fun acc f => insert_field f acc) l acc) -> In x acc \/ In x l).
  { induction l0 as [|f r IH]; intros acc Hx; [auto|]. cbn [fold_left] in Hx.
    destruct (IH _ Hx) as [Hi|Hi]; [destruct (In_insert_field _ _ _ Hi) as [->|]; [right; left; reflexivity|auto]|right; right; assumption]. }
  intro Hx. destruct (H _ _ Hx) as [[]|]; assumption.
Qed.

(* the entries of `typed`: the exported function passes Wt.wt_fn (no consts) for every program *)
Definition Qwt (nd : list N * tfndef) : Prop :=
  forall P' : Ast.program,
  exists t,
    Wt.wt_block Wt.wt_fuel P' ([] :: Wt.tbind_all ([] :: [[]]) (Ast.fn_params (export_fn intern [] (snd nd))) true)
                (Ast.fn_body (export_fn intern [] (snd nd))) = Some t /\
    Wt.ty_eqb t (Ast.fn_ret (export_fn intern [] (snd nd))) = true.

Theorem check_sound_fragment fuel P P' :
  in_sound_fragment P = true -> (fuel <= S Wt.wt_fuel)%nat ->
  check_program intern fuel P = COk P' -> Wt.wt_program P' = true.
Proof.
  intros Hfrag Hfuel H. unfold in_sound_fragment in Hfrag.
  destruct (up_consts P) eqn:Ec; [|discriminate]. destruct (up_structs P) eqn:Es; [|destruct (up_enums P); discriminate].
  destruct (up_enums P) eqn:Ee; [|discriminate].
  unfold check_program in H. apply cbind_ok in H. destruct H as [T [HT H]]. inversion H; subst; clear H.
  unfold check_program_t in HT. rewrite Ec, Es, Ee in HT. cbn [check_consts rev mapM cbind map app] in HT.
  cbv zeta in HT.
  match type of HT with context [check_fn intern fuel ?D0] => set (D := D0) in * end.
  apply cbind_ok in HT. destruct HT as [stf [Hloop HT]].
  match type of HT with (if ?c then _ else _) = _ => destruct c; [discriminate|] end.
  inversion HT; subst; clear HT.
  assert (HQins : forall f st ufd r id, (f < S (S Wt.wt_fuel))%nat -> Forall Qwt (st_typed st) ->
            find (fun d => list_eqb (uf_name d) id) (d_fns D) = Some ufd ->
            check_fn intern f D st ufd = COk r -> Qwt (id, fst r)).
  { intros f st ufd [tfd st'] id Hf _ Hfind Hc P'. cbn [fst snd].
    apply find_some in Hfind. destruct Hfind as [Hin _]. cbn [D d_fns] in Hin.
    rewrite forallb_forall in Hfrag.
    eapply (fn_sound intern intern_inj [] P' D eq_refl f ufd st tfd st' Wt.wt_fuel); [apply Hfrag; exact Hin|exact Hc|lia]. }
  assert (HQ : Forall Qwt (st_typed stf)).
  { clear - Hloop HQins Hfuel Hfrag intern_inj.
    assert (Hgen : forall fns st st', (forall fd, In fd fns -> In fd (up_fns P)) ->
       (fix go (fns : list ufndef) (st : cstate) : cres cstate :=
          match fns with
          | [] => COk st
          | fd :: r =>
              if uf_pub fd then
                match uf_params fd with
                | [] => CErr E_PubFnWithoutParams
                | _ =>
                    do r1 <- check_fn intern fuel D st fd;
                    go r (mkSt (st_env (snd r1))
                               ((uf_name fd, fst r1) ::
                                filter (fun nd => negb (list_eqb (fst nd) (uf_name fd))) (st_typed (snd r1)))
                               (st_checking (snd r1)))
                end
              else go r st
          end) fns st = COk st' -> Forall Qwt (st_typed st) -> Forall Qwt (st_typed st')).
    { induction fns as [|fd fns IH]; intros st st' Hsub H HQ.
      - inversion H; subst. exact HQ.
      - destruct (uf_pub fd).
        + destruct (uf_params fd); [discriminate|].
          apply cbind_ok in H. destruct H as [[tfd st1] [H1 H2]]. cbn [fst snd] in H2.
          apply IH in H2; [exact H2|intros; apply Hsub; right; assumption|].
          cbn [st_typed]. constructor.
          * intro P'. cbn [snd]. rewrite forallb_forall in Hfrag.
            eapply (fn_sound intern intern_inj [] P' D eq_refl fuel fd st tfd st1 Wt.wt_fuel);
              [apply Hfrag; apply Hsub; left; reflexivity|exact H1|exact Hfuel].
          * apply Forall_filter'.
            exact (proj2 (proj2 (proj2 (proj2 (check_typed_inv_b intern D Qwt (S (S Wt.wt_fuel)) HQins fuel ltac:(lia))))) _ _ _ H1 HQ).
        + apply IH in H; [exact H|intros; apply Hsub; right; assumption|exact HQ]. }
    eapply Hgen; [|exact Hloop|constructor]. auto. }
  (* the exported program *)
  unfold Wt.wt_program, export_program. cbn [Ast.p_consts Ast.p_fns tp_consts tp_fns tp_enums map forallb andb].
  apply forallb_forall. intros d Hd. apply in_map_iff in Hd. destruct Hd as [nd [<- Hnd]].
  apply In_sort_fields in Hnd. rewrite Forall_forall in HQ. specialize (HQ _ Hnd).
  unfold Wt.wt_fn.
  match goal with |- context [Wt.wt_block Wt.wt_fuel ?PP _ _] => destruct (HQ PP) as [t [Hw Ht]] end.
  change (Wt.consts_tenv _) with ([[]] : Wt.tenv). rewrite Hw. exact Ht.
Qed.

End Program.

Print Assumptions check_sound_fragment.
