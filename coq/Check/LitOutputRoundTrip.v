(* THE LAST LINK OF C09: EVERY OUTPUT THE API CAN DECODE PRINTS AND PARSES BACK.

   Lang/LiteralDecode.v: the decoder only produces canonical values ([from_bits_has_type]).
   (2) [output_roundtrip] / [output_roundtrip_text]: from_bits r bits = Ok (Some v), the type r of T
       well formed ([wf], [dwf]), the names of the definitions interned injectively ([D_names_ok]),
       v printable ([printable_value]): printing v and parsing it back as a T yields v.
       [from_bits_plain]: a decoded value has no repeat / range spelling.
   (3) [type_always_printable t] (a boolean on the TYPE): no zero-length array, and the element type
       of every array is a number type or a type without a signed number outside struct / enum
       values ([sign_free]) => EVERY canonical (in particular: decoded) value of t is
       [printable_value] ([tap_printable]); so for such types the round trip holds for all decoded
       values with no condition on the value ([output_roundtrip_all], [output_roundtrip_all_text]).
       The condition is sharp in the sense of the two refuted families of Check/LitRoundTrip.v:
       [not_tap_examples]. *)
From Coq Require Import ZArith List String Lia.
Import ListNotations.
From GV Require Import Base.Util Front.Scan Front.ScanPrint Front.ParseExpr Check.UAst Check.Infer Check.InferProofs
  Check.LitParse Check.LitParseProofs Check.LitRoundTrip Check.LitRoundTripText.
From GV Require Lang.Types Lang.Literal Lang.LiteralProofs Lang.LiteralDecode.
Local Open Scope N_scope.

Module LD := GV.Lang.LiteralDecode.

(* ------------------------------------------------------------------ (2) decoded values *)

Theorem from_bits_plain t bits v : LD.dwf t = true -> LL.from_bits t bits = Ok (Some v) -> plain v = true.
Proof. intros Hw H. apply (has_type_plain v t). now apply (LD.from_bits_has_type t bits). Qed.

Section Output.
  Variable intern : list N -> N.
  Variable unintern : N -> list N.
  Variable D : defs.
  Hypothesis HD : D_names_ok intern unintern D.

  Theorem output_roundtrip E T r fuel bits v :
    LT.wf E r = true -> LD.dwf r = true -> rty_of_cty intern D fuel T = Some r ->
    LL.from_bits r bits = Ok (Some v) -> printable_value unintern v = true ->
    literal_parse_tokens intern D T (lit_tokens unintern v) = COk v.
  Proof.
    intros W Hw Hr Hb Hp.
    exact (proj2 (canonical_value_roundtrip intern unintern D HD E v T r fuel W
                    (LD.from_bits_has_type r bits v Hw Hb) Hr Hp)).
  Qed.

  Theorem output_roundtrip_text E T r fuel bits v :
    LT.wf E r = true -> LD.dwf r = true -> rty_of_cty intern D fuel T = Some r ->
    LL.from_bits r bits = Ok (Some v) -> printable_value unintern v = true -> aux_ok unintern false v ->
    literal_parse intern D T (print_tokens (map kind (lit_tokens unintern v))) = COk v.
  Proof.
    intros W Hw Hr Hb Hp Ha.
    apply (value_roundtrip_text intern unintern D HD v T r fuel); try assumption.
    exact (proj1 (LD.from_bits_is_of_type E r bits v W Hw Hb)).
  Qed.
End Output.

(* ------------------------------------------------------------------ (3) types all of whose values are printable *)

Section AlwaysPrintable.
  Variable unintern : N -> list N.
  Notation ptv := (pt unintern).
  Notation ptsv := (pts unintern).
  Notation pv := (printable_value unintern).
  Notation pvs := (printable_values unintern).
  Notation pvf := (printable_fields unintern).

  Definition is_numty (t : LT.rty) : bool :=
    match t with LT.RUnsigned _ | LT.RSigned _ => true | _ => false end.

  (* the printed form of a value of the type has the same sign shape whatever the value: no signed
     number outside struct / enum values (whose names hide their contents from check.rs' element type) *)
  Fixpoint sign_free (t : LT.rty) : bool :=
    match t with
    | LT.RSigned _ => false
    | LT.RArray et n => negb (n =? 0) && sign_free et
    | LT.RTuple ts => sign_frees ts
    | _ => true
    end
  with sign_frees (ts : LT.rtys) : bool :=
    match ts with LT.RsNil => true | LT.RsCons t r => sign_free t && sign_frees r end.

  (* ... and that shape: the type check.rs gives the printed value before constraining *)
  Fixpoint tpt (t : LT.rty) : cty :=
    match t with
    | LT.RBool => CBool
    | LT.RUnsigned _ => uU
    | LT.RSigned _ => sU
    | LT.RArray et n => CArray (tpt et) n
    | LT.RTuple ts => CTuple (tpts ts)
    | LT.RStruct n _ => CStruct (unintern n)
    | LT.REnum n _ => CEnum (unintern n)
    end
  with tpts (ts : LT.rtys) : list cty :=
    match ts with LT.RsNil => [] | LT.RsCons t r => tpt t :: tpts r end.

  Fixpoint type_always_printable (t : LT.rty) : bool :=
    match t with
    | LT.RBool | LT.RUnsigned _ | LT.RSigned _ => true
    | LT.RArray et n => negb (n =? 0) && type_always_printable et && (is_numty et || sign_free et)
    | LT.RTuple ts => taps ts
    | LT.RStruct _ fs => tapf fs
    | LT.REnum _ vs => tapv vs
    end
  with taps (ts : LT.rtys) : bool :=
    match ts with LT.RsNil => true | LT.RsCons t r => type_always_printable t && taps r end
  with tapf (fs : LT.rfields) : bool :=
    match fs with LT.RFNil => true | LT.RFCons _ t r => type_always_printable t && tapf r end
  with tapv (vs : LT.rvariants) : bool :=
    match vs with
    | LT.RVNil => true
    | LT.RVUnit _ r => tapv r
    | LT.RVTuple _ ts r => taps ts && tapv r
    end.
  Notation tap := type_always_printable.

  Lemma find_variant_taps : forall vs v i j ts, tapv vs = true -> LT.find_variant vs v i = Some (j, LT.VITuple ts) ->
    taps ts = true.
  Proof.
    induction vs as [|n r IH|n ts0 r IH]; intros v i j ts Ht H; cbn [tapv LT.find_variant] in *; [discriminate| |].
    - destruct (n =? v); [discriminate H|]. eapply IH; eassumption.
    - apply andb_prop in Ht as [H1 H2]. destruct (n =? v); [injection H as _ <-; exact H1|]. eapply IH; eassumption.
  Qed.

  Definition Tv (v : LL.lit) : Prop := forall t, LL.has_type v t = true ->
    (tap t = true -> pv v = true) /\ (sign_free t = true -> ptv v = tpt t) /\ (is_numty t = true -> is_num v = true).
  Definition Tall (es : LL.lits) : Prop := forall t, LL.all_has_type es t = true ->
    (tap t = true -> pvs es = true) /\ (sign_free t = true -> forall x, In x (ptsv es) -> x = tpt t) /\
    (is_numty t = true -> all_num es = true).
  Definition Tzip (es : LL.lits) : Prop := forall ts, LL.zip_has_type es ts = true ->
    (taps ts = true -> pvs es = true) /\ (sign_frees ts = true -> ptsv es = tpts ts).
  Definition Tfld (fs : LL.lfields) : Prop := forall dfs, LL.fields_has_type fs dfs = true -> tapf dfs = true -> pvf fs = true.

  Lemma tap_mut : (forall v, Tv v) /\ (forall es, Tall es /\ Tzip es) /\ (forall fs, Tfld fs).
  Proof.
    apply LiteralProofs.lit_mutind.
    - intros t H. destruct t; try discriminate H. repeat split; discriminate.
    - intros t H. destruct t; try discriminate H. repeat split; discriminate.
    - intros n u t H. destruct t; try discriminate H. split; [reflexivity|]. split; reflexivity.
    - intros z s t H. destruct t; try discriminate H. split; [reflexivity|]. split; [discriminate|reflexivity].
    - intros e _ n t H. destruct t; discriminate H.
    - (* array *) intros es [IHa _] t H. destruct t as [| | |et n| | |]; try discriminate H. cbn [LL.has_type] in H.
      apply andb_prop in H as [Hl Hall]. apply N.eqb_eq in Hl. destruct (IHa et Hall) as (Hp & Hs & Hn).
      split; [|split; [|discriminate]].
      + intro Ht. cbn [type_always_printable] in Ht. apply andb_prop in Ht as [Ht Hshape]. apply andb_prop in Ht as [Hn0 Ht].
        rewrite pv_array. destruct es as [|e r]; [cbn in Hl; subst n; discriminate Hn0|]. cbn [andb].
        rewrite (Hp Ht), andb_true_r. apply orb_prop in Hshape as [Hnum|Hsf].
        * rewrite (Hn Hnum). reflexivity.
        * apply orb_true_iff. right. rewrite pts_cons. cbn [uniform]. apply forallb_forall. intros x Hx.
          rewrite (Hs Hsf (ptv e)) by (rewrite pts_cons; now left).
          rewrite (Hs Hsf x) by (rewrite pts_cons; now right). apply cty_eqb_refl.
      + intro Hsf. cbn [sign_free] in Hsf. apply andb_prop in Hsf as [Hn0 Hsf].
        destruct es as [|e r]; [cbn in Hl; subst n; discriminate Hn0|].
        rewrite pt_array, pts_cons. rewrite (Hs Hsf (ptv e)) by (rewrite pts_cons; now left).
        rewrite pick_uniform.
        * cbn [tpt]. now rewrite Hl.
        * apply forallb_forall. intros x Hx. rewrite (Hs Hsf x) by (rewrite pts_cons; now right). apply cty_eqb_refl.
    - (* tuple *) intros es [_ IHz] t H. destruct t as [| | | |ts| |]; try discriminate H.
      destruct (IHz ts H) as [Hp Hs]. split; [exact Hp|]. split; [|discriminate].
      intro Hsf. rewrite pt_tuple. cbn [tpt]. now rewrite (Hs Hsf).
    - (* struct *) intros n fs IH t H. destruct t as [| | | | |n' dfs|]; try discriminate H. cbn [LL.has_type] in H.
      apply andb_prop in H as [Hn H]. apply N.eqb_eq in Hn. subst n'.
      split; [intro Ht; exact (IH dfs H Ht)|]. split; [reflexivity|discriminate].
    - (* enum, unit *) intros n v t H. destruct t as [| | | | | |n' vs]; try discriminate H. cbn [LL.has_type] in H.
      apply andb_prop in H as [Hn _]. apply N.eqb_eq in Hn. subst n'.
      split; [reflexivity|]. split; [reflexivity|discriminate].
    - (* enum, tuple *) intros n v es [_ IHz] t H. destruct t as [| | | | | |n' vs]; try discriminate H. cbn [LL.has_type] in H.
      apply andb_prop in H as [Hn H]. apply N.eqb_eq in Hn. subst n'.
      split; [|split; [reflexivity|discriminate]].
      intro Ht. destruct (LT.find_variant vs v 0) as [[j [|ts]]|] eqn:Ef; try discriminate H.
      exact (proj1 (IHz ts H) (find_variant_taps vs v 0 j ts Ht Ef)).
    - intros mn mx u t H. destruct t; discriminate H.
    - (* no elements *) split.
      + intros t _. split; [reflexivity|]. split; [intros _ x []|reflexivity].
      + intros [|t tr] H; [|discriminate H]. split; reflexivity.
    - (* one more element *) intros e IHe r [IHa IHz]. split.
      + intros t H. cbn [LL.all_has_type] in H. apply andb_prop in H as [H1 H2].
        destruct (IHe t H1) as (Hp1 & Hs1 & Hn1). destruct (IHa t H2) as (Hp2 & Hs2 & Hn2).
        split; [|split].
        * intro Ht. now rewrite pvs_cons, (Hp1 Ht), (Hp2 Ht).
        * intros Hsf x Hx. rewrite pts_cons in Hx. destruct Hx as [<-|Hx]; [exact (Hs1 Hsf)|exact (Hs2 Hsf x Hx)].
        * intro Hnum. cbn [all_num]. now rewrite (Hn1 Hnum), (Hn2 Hnum).
      + intros [|t tr] H; [discriminate H|]. cbn [LL.zip_has_type] in H. apply andb_prop in H as [H1 H2].
        destruct (IHe t H1) as (Hp1 & Hs1 & _). destruct (IHz tr H2) as (Hp2 & Hs2).
        split.
        * intro Ht. cbn [taps] in Ht. apply andb_prop in Ht as [Ht1 Ht2]. now rewrite pvs_cons, (Hp1 Ht1), (Hp2 Ht2).
        * intro Hsf. cbn [sign_frees] in Hsf. apply andb_prop in Hsf as [Hsf1 Hsf2].
          rewrite pts_cons. cbn [tpts]. now rewrite (Hs1 Hsf1), (Hs2 Hsf2).
    - intros [|dn t dr] H _; [reflexivity|discriminate H].
    - intros f v IHv r IHr [|dn t dr] H Ht; [discriminate H|]. cbn [LL.fields_has_type] in H.
      apply andb_prop in H as [H H3]. apply andb_prop in H as [_ H2].
      cbn [tapf] in Ht. apply andb_prop in Ht as [Ht1 Ht2].
      rewrite pvf_cons, (proj1 (IHv t H2) Ht1), (IHr dr H3 Ht2). reflexivity.
  Qed.

  (* (3) every canonical value of an always-printable type is printable *)
  Theorem tap_printable v t : type_always_printable t = true -> LL.has_type v t = true -> printable_value unintern v = true.
  Proof. intros Ht H. exact (proj1 (proj1 tap_mut v t H) Ht). Qed.
End AlwaysPrintable.

Section OutputAll.
  Variable intern : list N -> N.
  Variable unintern : N -> list N.
  Variable D : defs.
  Hypothesis HD : D_names_ok intern unintern D.

  (* for an always-printable type: EVERY decoded value comes back, no condition on the value *)
  Theorem output_roundtrip_all E T r fuel bits v :
    LT.wf E r = true -> LD.dwf r = true -> type_always_printable r = true -> rty_of_cty intern D fuel T = Some r ->
    LL.from_bits r bits = Ok (Some v) ->
    literal_parse_tokens intern D T (lit_tokens unintern v) = COk v.
  Proof.
    intros W Hw Ht Hr Hb. apply (output_roundtrip intern unintern D HD E T r fuel bits v W Hw Hr Hb).
    apply (tap_printable unintern v r Ht). now apply (LD.from_bits_has_type r bits).
  Qed.

  Theorem output_roundtrip_all_text E T r fuel bits v :
    LT.wf E r = true -> LD.dwf r = true -> type_always_printable r = true -> rty_of_cty intern D fuel T = Some r ->
    LL.from_bits r bits = Ok (Some v) -> aux_ok unintern false v ->
    literal_parse intern D T (print_tokens (map kind (lit_tokens unintern v))) = COk v.
  Proof.
    intros W Hw Ht Hr Hb Ha. apply (output_roundtrip_text intern unintern D HD E T r fuel bits v W Hw Hr Hb); [|exact Ha].
    apply (tap_printable unintern v r Ht). now apply (LD.from_bits_has_type r bits).
  Qed.
End OutputAll.

(* ------------------------------------------------------------------ examples *)

Module OutputExamples.
  Import LitExamples RoundTripExamples.
  Definition bits8 (z : Z) : list bool := LL.sbits_of 8 z.
  Definition i8r := LT.RSigned LT.I8.
  Definition u8r := LT.RUnsigned LT.U8.

  (* always-printable types, and types that are not *)
  Example tap_examples :
    map type_always_printable
      [ LT.RArray i8r 3; LT.RArray (LT.RTuple (LT.RsCons u8r (LT.RsCons LT.RBool LT.RsNil))) 2;
        LT.RArray (LT.RArray u8r 2) 2; LT.RTuple (LT.RsCons i8r (LT.RsCons (LT.RArray i8r 2) LT.RsNil));
        (* an array of structs with a signed field: the struct name hides the sign *)
        LT.RArray (LT.RStruct 7 (LT.RFCons 8 i8r LT.RFNil)) 2 ]
    = repeat true 5 /\
    map type_always_printable
      [ LT.RArray u8r 0; LT.RArray (LT.RTuple (LT.RsCons i8r LT.RsNil)) 2; LT.RArray (LT.RArray i8r 1) 2;
        LT.RStruct 7 (LT.RFCons 8 (LT.RArray (LT.RArray i8r 1) 2) LT.RFNil) ]
    = repeat false 4.
  Proof. split; vm_compute; reflexivity. Qed.

  (* the condition is sharp: for the two kinds of types it excludes there ARE decoded values that do
     not come back (the refuted families of Check/LitRoundTrip.v, now from the bits) *)
  Example not_tap_examples :
    let t1 := LT.RArray (LT.RTuple (LT.RsCons i8r LT.RsNil)) 2 in
    let v1 := LL.LArray (ls [LL.LTuple (ls [I8_ 1]); LL.LTuple (ls [I8_ (-1)])]) in
    LL.from_bits t1 (bits8 1 ++ bits8 (-1)) = Ok (Some v1) /\ printable_value ex_unintern v1 = false /\
    reparse v1 (CArray (CTuple [i8t]) 2) = CErr E_UnexpectedType /\
    LL.from_bits (LT.RArray u8r 0) [] = Ok (Some (LL.LArray LL.LsNil)) /\
    printable_value ex_unintern (LL.LArray LL.LsNil) = false /\
    reparse (LL.LArray LL.LsNil) (CArray u8t 0) = CErr E_ParseLiteral.
  Proof. repeat split; vm_compute; reflexivity. Qed.

  (* an array of structs with a signed field does come back: struct T { a: i8 }, [T {a: 1}, T {a: -1}] *)
  Definition T_ : N := Eval vm_compute in ex_intern (nm "T").
  Definition DT : defs := mkDefs [] [(nm "T", [(nm "a", i8t)])] [] [] [nm "T"] [].
  Example struct_hides_sign :
    let v := LL.LArray (ls [LL.LStruct T_ (LL.LFCons a_ (I8_ 1) LL.LFNil); LL.LStruct T_ (LL.LFCons a_ (I8_ (-1)) LL.LFNil)]) in
    let r := LT.RArray (LT.RStruct T_ (LT.RFCons a_ i8r LT.RFNil)) 2 in
    rty_of_cty ex_intern DT 5 (CArray (CStruct (nm "T")) 2) = Some r /\
    LL.from_bits r (bits8 1 ++ bits8 (-1)) = Ok (Some v) /\ type_always_printable r = true /\
    literal_parse ex_intern DT (CArray (CStruct (nm "T")) 2) (lit_text ex_unintern v) = COk v /\
    lit_text ex_unintern v = codes "[T {a: 1}, T {a: -1}]".
  Proof. repeat split; vm_compute; reflexivity. Qed.
End OutputExamples.

Print Assumptions from_bits_plain.
Print Assumptions output_roundtrip.
Print Assumptions output_roundtrip_text.
Print Assumptions tap_printable.
Print Assumptions output_roundtrip_all.
Print Assumptions output_roundtrip_all_text.
