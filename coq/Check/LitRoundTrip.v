(* PRINT AND PARSE BACK (the first clause of C09): the model of `impl Display for Literal`
   (src/literal.rs) composed with the model of `Literal::parse` (Check/LitParse.v).

   [lit_tokens unintern l]   the tokens of the printed literal (numbers WITHOUT suffix, a negative
                             number is ONE signed token, `(x,)` for a one-element tuple,
                             `[elem; size]`, `Name {f: v, g: w}`, `E::V`, `E::V(a, b)`, ranges WITH
                             the suffix on both bounds: `{min}{num_ty}..{max}{num_ty}`)
   [lit_text unintern l]     the printed TEXT (bytes), for the examples through the scanner
   A. [parse_back]         for EVERY literal form (structs and enums included; side conditions
                             [pok]: no empty array literal, struct / enum names are not `true` /
                             `false`): parse_literal_text (default fuel) of the printed tokens is
                             the expected untyped literal [ulit l] (struct fields sorted by name).
   B. [roundtrip]            rt_ok intern unintern D l T = true ->
                             literal_parse_tokens intern D T (lit_tokens unintern l) = COk l
                             for the class [rt_ok] = EVERY literal form: bool, all integer types,
                             tuples, arrays (non-empty; elements all numbers, or all of the same
                             sign shape [pt]), repeat arrays, ranges (non-empty, at most u32::MAX
                             elements), struct values (fields exactly those of the definition, in
                             its order, which is name order: [names_ok]) and enum values, nested;
                             names: [name_ok] (unintern gives the byte string of the definition,
                             intern gives the number back), not `true` / `false`.
   C. [RoundTripExamples]    through the TEXT (scan_text of the printed string) with the LitExamples
                             program, every literal form; and the literals that are of their type
                             and do NOT come back ([mixed_sign_elements_refuted], [empty_array_refuted],
                             [empty_range_refuted], [full_range_refuted], [long_range_refuted]). *)
From Coq Require Import ZArith List String Lia.
Import ListNotations.
From GV Require Import Base.Util Front.Scan Front.ParseExpr Front.ParseTotal Check.UAst Check.Infer Check.InferProofs Check.LitParse
  Check.LitParseProofs.
From GV Require Lang.Types Lang.Literal Lang.LiteralProofs.
Local Open Scope N_scope.

(* ------------------------------------------------------------------ Display *)

Definition m0 : meta := Meta (0, 0) (0, 0).
Definition tk (t : token_enum) : token := Token t m0.

Definition unum_of (u : LT.uty) : unsigned_num_type :=
  match u with
  | LT.Usize => Usize | LT.U8 => U8 | LT.U16 => U16 | LT.U32 => U32 | LT.U64 => U64 | LT.UUnspec => UnspecifiedU
  end.

Section Display.
  Variable unintern : N -> list N.

  (* `{n}` of an i64: the scanner reads `-digits` as one SignedNum token *)
  Definition signed_token (z : Z) : token_enum :=
    if (z <? 0)%Z then TSignedNum z UnspecifiedS else TUnsignedNum (Z.to_N z) UnspecifiedU.

  Fixpoint lit_tokens (l : LL.lit) : list token :=
    match l with
    | LL.LTrue => [tk (Scan.TIdentifier s_true)]
    | LL.LFalse => [tk (Scan.TIdentifier s_false)]
    | LL.LUnsigned n _ => [tk (TUnsignedNum n UnspecifiedU)]
    | LL.LSigned z _ => [tk (signed_token z)]
    | LL.LRepeat e n =>
        tk TLeftBracket :: lit_tokens e ++ [tk TSemicolon; tk (TUnsignedNum n UnspecifiedU); tk TRightBracket]
    | LL.LArray es =>
        tk TLeftBracket ::
        match es with
        | LL.LsNil => []
        | LL.LsCons e r => lit_tokens e ++ more_tokens r
        end ++ [tk TRightBracket]
    | LL.LTuple es =>
        tk TLeftParen ::
        match es with
        | LL.LsNil => []
        | LL.LsCons e LL.LsNil => lit_tokens e ++ [tk TComma]          (* `(x,)` *)
        | LL.LsCons e r => lit_tokens e ++ more_tokens r
        end ++ [tk TRightParen]
    | LL.LStruct name fs =>
        tk (Scan.TIdentifier (unintern name)) :: tk TLeftBrace ::
        match fs with
        | LL.LFNil => []
        | LL.LFCons f v r =>
            tk (Scan.TIdentifier (unintern f)) :: tk TColon :: lit_tokens v ++ more_fields r
        end ++ [tk TRightBrace]
    | LL.LEnumUnit name v =>
        [tk (Scan.TIdentifier (unintern name)); tk TDoubleColon; tk (Scan.TIdentifier (unintern v))]
    | LL.LEnumTuple name v es =>
        tk (Scan.TIdentifier (unintern name)) :: tk TDoubleColon :: tk (Scan.TIdentifier (unintern v)) :: tk TLeftParen ::
        match es with
        | LL.LsNil => []
        | LL.LsCons e r => lit_tokens e ++ more_tokens r
        end ++ [tk TRightParen]
    | LL.LRange mn mx u =>
        [tk (TUnsignedNum mn (unum_of u)); tk TDoubleDot; tk (TUnsignedNum mx (unum_of u))]
    end
  (* `, e` for every further element *)
  with more_tokens (es : LL.lits) : list token :=
    match es with
    | LL.LsNil => []
    | LL.LsCons e r => tk TComma :: lit_tokens e ++ more_tokens r
    end
  with more_fields (fs : LL.lfields) : list token :=
    match fs with
    | LL.LFNil => []
    | LL.LFCons f v r => tk TComma :: tk (Scan.TIdentifier (unintern f)) :: tk TColon :: lit_tokens v ++ more_fields r
    end.

  (* ---- the printed text *)
  Fixpoint dec_aux (fuel : nat) (n : N) (acc : list N) : list N :=
    match fuel with
    | O => acc
    | S f => let acc' := (48 + n mod 10) :: acc in if n / 10 =? 0 then acc' else dec_aux f (n / 10) acc'
    end.
  Definition dec (n : N) : list N := dec_aux 25 n [].
  Definition dec_z (z : Z) : list N := if (z <? 0)%Z then 45 :: dec (Z.to_N (- z)) else dec (Z.to_N z).
  Definition suffix_text (u : LT.uty) : list N :=
    match u with
    | LT.Usize => s_usize | LT.U8 => s_u8 | LT.U16 => s_u16 | LT.U32 => s_u32 | LT.U64 => s_u64
    | LT.UUnspec => codes "unspecified unsigned int"
    end.
  Definition sp : N := 32.
  Definition comma_sp : list N := [44; sp].

  Fixpoint lit_text (l : LL.lit) : list N :=
    match l with
    | LL.LTrue => s_true
    | LL.LFalse => s_false
    | LL.LUnsigned n _ => dec n
    | LL.LSigned z _ => dec_z z
    | LL.LRepeat e n => [91] ++ lit_text e ++ [59; sp] ++ dec n ++ [93]
    | LL.LArray es =>
        [91] ++ match es with LL.LsNil => [] | LL.LsCons e r => lit_text e ++ more_text r end ++ [93]
    | LL.LTuple es =>
        [40] ++ match es with
                | LL.LsNil => []
                | LL.LsCons e LL.LsNil => lit_text e ++ [44]
                | LL.LsCons e r => lit_text e ++ more_text r
                end ++ [41]
    | LL.LStruct name fs =>
        unintern name ++ [sp; 123] ++
        match fs with
        | LL.LFNil => []
        | LL.LFCons f v r => unintern f ++ [58; sp] ++ lit_text v ++ more_fields_text r
        end ++ [125]
    | LL.LEnumUnit name v => unintern name ++ [58; 58] ++ unintern v
    | LL.LEnumTuple name v es =>
        unintern name ++ [58; 58] ++ unintern v ++ [40] ++
        match es with LL.LsNil => [] | LL.LsCons e r => lit_text e ++ more_text r end ++ [41]
    | LL.LRange mn mx u => dec mn ++ suffix_text u ++ [46; 46] ++ dec mx ++ suffix_text u
    end
  with more_text (es : LL.lits) : list N :=
    match es with
    | LL.LsNil => []
    | LL.LsCons e r => comma_sp ++ lit_text e ++ more_text r
    end
  with more_fields_text (fs : LL.lfields) : list N :=
    match fs with
    | LL.LFNil => []
    | LL.LFCons f v r => comma_sp ++ unintern f ++ [58; sp] ++ lit_text v ++ more_fields_text r
    end.
End Display.

(* ------------------------------------------------------------------ A. the parser reads the printed tokens *)

Section ParseBack.
  Variable unintern : N -> list N.
  Notation ltoks := (lit_tokens unintern).
  Notation mtoks := (more_tokens unintern).
  Notation ftoks := (more_fields unintern).

  (* what parse_literal makes of the printed literal *)
  Fixpoint ulit (l : LL.lit) : uexpr :=
    match l with
    | LL.LTrue => UTrue
    | LL.LFalse => UFalse
    | LL.LUnsigned n _ => UNumUnsigned n UnspecifiedU
    | LL.LSigned z _ => if (z <? 0)%Z then UNumSigned z UnspecifiedS else UNumUnsigned (Z.to_N z) UnspecifiedU
    | LL.LRepeat e n => UArrayRepeat (ulit e) n
    | LL.LArray es => UArrayLiteral (ulits es)
    | LL.LTuple es => UTupleLiteral (ulits es)
    | LL.LStruct name fs => UStructLiteral (unintern name) (sort_fields (ufields fs))
    | LL.LEnumUnit name v => UEnumLiteral (unintern name) (unintern v) None
    | LL.LEnumTuple name v es => UEnumLiteral (unintern name) (unintern v) (Some (ulits es))
    | LL.LRange mn mx u => URange mn mx (unum_of u)
    end
  with ulits (es : LL.lits) : list uexpr :=
    match es with LL.LsNil => [] | LL.LsCons e r => ulit e :: ulits r end
  with ufields (fs : LL.lfields) : list (list N * uexpr) :=
    match fs with LL.LFNil => [] | LL.LFCons f v r => (unintern f, ulit v) :: ufields r end.

  Definition not_bool_name (id : list N) : bool := negb (list_eqb id s_true) && negb (list_eqb id s_false).

  (* printable so that the parser accepts: no empty array, struct / enum names are not `true` / `false` *)
  Fixpoint pok (l : LL.lit) : bool :=
    match l with
    | LL.LRepeat e _ => pok e
    | LL.LArray es => match es with LL.LsNil => false | _ => poks es end
    | LL.LTuple es => poks es
    | LL.LStruct name fs => not_bool_name (unintern name) && pokf fs
    | LL.LEnumUnit name _ => not_bool_name (unintern name)
    | LL.LEnumTuple name _ es => not_bool_name (unintern name) && poks es
    | _ => true
    end
  with poks (es : LL.lits) : bool :=
    match es with LL.LsNil => true | LL.LsCons e r => pok e && poks r end
  with pokf (fs : LL.lfields) : bool :=
    match fs with LL.LFNil => true | LL.LFCons _ v r => pok v && pokf r end.

  Fixpoint lsize (l : LL.lit) : nat :=
    match l with
    | LL.LRepeat e _ => 2 + lsize e
    | LL.LArray es | LL.LTuple es | LL.LEnumTuple _ _ es => 2 + lsizes es
    | LL.LStruct _ fs => 2 + lsizef fs
    | _ => 1
    end
  with lsizes (es : LL.lits) : nat :=
    match es with LL.LsNil => 0 | LL.LsCons e r => 1 + lsize e + lsizes r end
  with lsizef (fs : LL.lfields) : nat :=
    match fs with LL.LFNil => 0 | LL.LFCons _ v r => 1 + lsize v + lsizef r end.

  Definition lstart (t : token_enum) : bool :=
    match t with
    | Scan.TIdentifier _ | TUnsignedNum _ _ | TSignedNum _ _ | TLeftParen | TLeftBracket => true
    | _ => false
    end.

  Lemma lit_head l : exists t r, ltoks l = tk t :: r /\ lstart t = true.
  Proof.
    destruct l; cbn [lit_tokens]; try (eexists _, _; split; reflexivity).
    unfold signed_token. destruct (z <? 0)%Z; eexists _, _; split; reflexivity.
  Qed.

  Lemma teqb_refl t : teqb t t = true.
  Proof. unfold teqb. destruct (token_enum_eq_dec t t); congruence. Qed.
  Lemma teqb_ne t t' : t <> t' -> teqb t t' = false.
  Proof. unfold teqb. destruct (token_enum_eq_dec t t'); congruence. Qed.

  Lemma peek_tk t t' r b : peek t (PState (tk t' :: r) b) = teqb t' t.
  Proof. reflexivity. Qed.
  Lemma next_tk t r b : next_matches t (PState (tk t :: r) b) = Some (PState r b).
  Proof. unfold next_matches. cbn [toks tk sla]. now rewrite teqb_refl. Qed.
  Lemma next_tk_ne t t' r b : t' <> t -> next_matches t (PState (tk t' :: r) b) = None.
  Proof. intro H. unfold next_matches. cbn [toks tk]. now rewrite (teqb_ne _ _ H). Qed.
  Lemma expect_tk {A} t r b (k : pstate -> pres A) : expect t (PState (tk t :: r) b) k = k (PState r b).
  Proof. unfold expect. now rewrite next_tk. Qed.

  Lemma lstart_ne t c : lstart t = true -> lstart c = false -> t <> c.
  Proof. intros H1 H2 ->. congruence. Qed.

  (* the first token of a literal is not a closing token / comma / semicolon *)
  Lemma peek_lit c l rest b : lstart c = false -> peek c (PState (ltoks l ++ rest) b) = false.
  Proof.
    intro Hc. destruct (lit_head l) as (t & r & -> & Ht). cbn [app]. rewrite peek_tk.
    apply teqb_ne. now apply lstart_ne.
  Qed.

  Definition closing (c : token_enum) : Prop := c = TRightParen \/ c = TRightBracket.
  (* what may follow a literal: not `..` (a number would become a range), not `(` (E::V would get arguments) *)
  Definition no_dd (rest : list token) : Prop :=
    peek TDoubleDot (PState rest true) = false /\ peek TLeftParen (PState rest true) = false.

  Lemma closing_facts c : closing c -> lstart c = false /\ c <> TComma /\ c <> TDoubleDot /\ c <> TLeftParen.
  Proof. intros [-> | ->]; repeat split; discriminate. Qed.

  Lemma no_dd_tk c rest : c <> TDoubleDot -> c <> TLeftParen -> no_dd (tk c :: rest).
  Proof. intros H1 H2. unfold no_dd. rewrite !peek_tk. split; now apply teqb_ne. Qed.
  Lemma no_dd_nil : no_dd [].
  Proof. split; reflexivity. Qed.
  Lemma no_dd_mtoks es c rest : c <> TDoubleDot -> c <> TLeftParen -> no_dd (mtoks es ++ tk c :: rest).
  Proof. intros H1 H2. destruct es; [apply no_dd_tk; assumption|apply no_dd_tk; discriminate]. Qed.
  Lemma no_dd_ftoks fs rest : no_dd (ftoks fs ++ tk TRightBrace :: rest).
  Proof. destruct fs; apply no_dd_tk; discriminate. Qed.

  (* a number token that is not followed by `..` *)
  Lemma gen_unsigned pe n v ty rest : no_dd rest ->
    parse_literal_gen true pe n (TUnsignedNum v ty) (PState rest true) = POk (UNumUnsigned v ty) (PState rest true).
  Proof.
    intros [H _]. cbn [parse_literal_gen]. unfold peek in H. unfold next_matches.
    destruct rest as [|[t' m'] r]; cbn [toks] in *; [reflexivity|]. now rewrite H.
  Qed.

  Lemma prec_S n t r b :
    parse_literal_recursively (S n) (PState (tk t :: r) b) =
    parse_literal_gen true (parse_literal_recursively n) n t (PState r b).
  Proof. reflexivity. Qed.

  Lemma not_bool_name_spec id : not_bool_name id = true -> list_eqb id s_true = false /\ list_eqb id s_false = false.
  Proof.
    unfold not_bool_name. intro H. apply andb_prop in H as [H1 H2].
    split; [destruct (list_eqb id s_true); [discriminate H1|reflexivity]|destruct (list_eqb id s_false); [discriminate H2|reflexivity]].
  Qed.

  (* equations (cbn does not refold the mutual fixpoints) *)
  Lemma ltoks_repeat e n : ltoks (LL.LRepeat e n) =
    tk TLeftBracket :: ltoks e ++ [tk TSemicolon; tk (TUnsignedNum n UnspecifiedU); tk TRightBracket].
  Proof. reflexivity. Qed.
  Lemma ltoks_array e r : ltoks (LL.LArray (LL.LsCons e r)) = tk TLeftBracket :: (ltoks e ++ mtoks r) ++ [tk TRightBracket].
  Proof. reflexivity. Qed.
  Lemma ltoks_tuple1 e : ltoks (LL.LTuple (LL.LsCons e LL.LsNil)) = tk TLeftParen :: (ltoks e ++ [tk TComma]) ++ [tk TRightParen].
  Proof. reflexivity. Qed.
  Lemma ltoks_tuple2 e e2 r : ltoks (LL.LTuple (LL.LsCons e (LL.LsCons e2 r))) =
    tk TLeftParen :: (ltoks e ++ mtoks (LL.LsCons e2 r)) ++ [tk TRightParen].
  Proof. reflexivity. Qed.
  Lemma mtoks_cons e r : mtoks (LL.LsCons e r) = tk TComma :: ltoks e ++ mtoks r.
  Proof. reflexivity. Qed.
  Lemma ftoks_cons f v r : ftoks (LL.LFCons f v r) = tk TComma :: tk (Scan.TIdentifier (unintern f)) :: tk TColon :: ltoks v ++ ftoks r.
  Proof. reflexivity. Qed.
  Lemma ltoks_struct name f v r : ltoks (LL.LStruct name (LL.LFCons f v r)) =
    tk (Scan.TIdentifier (unintern name)) :: tk TLeftBrace ::
    (tk (Scan.TIdentifier (unintern f)) :: tk TColon :: ltoks v ++ ftoks r) ++ [tk TRightBrace].
  Proof. reflexivity. Qed.
  Lemma ltoks_enum name v e r : ltoks (LL.LEnumTuple name v (LL.LsCons e r)) =
    tk (Scan.TIdentifier (unintern name)) :: tk TDoubleColon :: tk (Scan.TIdentifier (unintern v)) :: tk TLeftParen ::
    (ltoks e ++ mtoks r) ++ [tk TRightParen].
  Proof. reflexivity. Qed.
  Lemma lsizes_cons e r : lsizes (LL.LsCons e r) = S (lsize e + lsizes r).
  Proof. reflexivity. Qed.
  Lemma lsizef_cons f v r : lsizef (LL.LFCons f v r) = S (lsize v + lsizef r).
  Proof. reflexivity. Qed.
  Lemma lsize_repeat e n : lsize (LL.LRepeat e n) = S (S (lsize e)). Proof. reflexivity. Qed.
  Lemma lsize_array es : lsize (LL.LArray es) = S (S (lsizes es)). Proof. reflexivity. Qed.
  Lemma lsize_tuple es : lsize (LL.LTuple es) = S (S (lsizes es)). Proof. reflexivity. Qed.
  Lemma lsize_enum n v es : lsize (LL.LEnumTuple n v es) = S (S (lsizes es)). Proof. reflexivity. Qed.
  Lemma lsize_struct n fs : lsize (LL.LStruct n fs) = S (S (lsizef fs)). Proof. reflexivity. Qed.
  Lemma poks_cons e r : poks (LL.LsCons e r) = pok e && poks r. Proof. reflexivity. Qed.
  Lemma pokf_cons f v r : pokf (LL.LFCons f v r) = pok v && pokf r. Proof. reflexivity. Qed.

  Definition Pst (l : LL.lit) : Prop := forall n rest, (lsize l <= n)%nat -> no_dd rest ->
    parse_literal_recursively n (PState (ltoks l ++ rest) true) = POk (ulit l) (PState rest true).
  Definition Lst (es : LL.lits) : Prop := forall n k c acc rest, (lsizes es <= n)%nat -> (lsizes es < k)%nat -> closing c ->
    comma_loop (parse_literal_recursively n) c k acc (PState (mtoks es ++ tk c :: rest) true) =
    POk (rev acc ++ ulits es) (PState (tk c :: rest) true).
  Definition Fst (fs : LL.lfields) : Prop := forall n k acc rest, (lsizef fs <= n)%nat -> (lsizef fs < k)%nat ->
    sep_loop (struct_field true (parse_literal_recursively n)) TRightBrace k acc
             (PState (ftoks fs ++ tk TRightBrace :: rest) true) =
    POk (rev acc ++ ufields fs) (PState (tk TRightBrace :: rest) true).

  Lemma struct_field_back n f v rest : Pst v -> (lsize v <= n)%nat -> no_dd rest ->
    struct_field true (parse_literal_recursively n)
      (PState (tk (Scan.TIdentifier (unintern f)) :: tk TColon :: ltoks v ++ rest) true) =
    POk (unintern f, ulit v) (PState rest true).
  Proof.
    intros Hv Hn Hdd. unfold struct_field. cbn [expect_identifier toks tk sla].
    rewrite !peek_tk. change (teqb TColon TComma) with false. change (teqb TColon TRightBrace) with false. cbn [orb].
    rewrite expect_tk. rewrite (Hv n rest Hn Hdd). reflexivity.
  Qed.

  Lemma parse_back_mut :
    (forall l, pok l = true -> Pst l) /\
    (forall es, poks es = true -> Lst es /\ match es with LL.LsNil => True | LL.LsCons e r => Pst e /\ Lst r end) /\
    (forall fs, pokf fs = true -> Fst fs /\ match fs with LL.LFNil => True | LL.LFCons _ v r => Pst v /\ Fst r end).
  Proof.
    apply LiteralProofs.lit_mutind.
    - (* true *) intros _ [|n] rest Hn _; [cbn in Hn; lia|]. reflexivity.
    - intros _ [|n] rest Hn _; [cbn in Hn; lia|]. reflexivity.
    - (* unsigned *) intros n0 u _ [|n] rest Hn Hdd; [cbn in Hn; lia|].
      change (ltoks (LL.LUnsigned n0 u) ++ rest) with (tk (TUnsignedNum n0 UnspecifiedU) :: rest).
      rewrite prec_S. now apply gen_unsigned.
    - (* signed *) intros z s _ [|n] rest Hn Hdd; [cbn in Hn; lia|].
      change (ltoks (LL.LSigned z s) ++ rest) with (tk (signed_token z) :: rest).
      change (ulit (LL.LSigned z s)) with (if (z <? 0)%Z then UNumSigned z UnspecifiedS else UNumUnsigned (Z.to_N z) UnspecifiedU).
      unfold signed_token. destruct (z <? 0)%Z; rewrite prec_S; [reflexivity|]. now apply gen_unsigned.
    - (* repeat *) intros e IH n0 Hp [|n] rest Hn Hdd; [cbn in Hn; lia|]. change (pok e = true) in Hp.
      rewrite lsize_repeat in Hn. rewrite ltoks_repeat. cbn [app]. rewrite <- app_assoc. cbn [app].
      rewrite prec_S. cbn [parse_literal_gen].
      rewrite (IH Hp n); [|lia|apply no_dd_tk; discriminate]. cbn [bindp].
      rewrite peek_tk. change (teqb TSemicolon TSemicolon) with true. cbv iota. rewrite expect_tk.
      cbn [toks tk sla]. rewrite expect_tk. reflexivity.
    - (* array *) intros es IH Hp [|n] rest Hn Hdd; [cbn in Hn; lia|]. rewrite lsize_array in Hn.
      destruct es as [|e r]; [discriminate Hp|]. change (poks (LL.LsCons e r) = true) in Hp.
      destruct (IH Hp) as (_ & He & Hr). rewrite lsizes_cons in Hn.
      rewrite ltoks_array. cbn [app]. rewrite <- !app_assoc. cbn [app]. rewrite prec_S. cbn [parse_literal_gen].
      rewrite (He n); [|lia|apply no_dd_mtoks; discriminate]. cbn [bindp].
      assert (Hps : peek TSemicolon (PState (mtoks r ++ tk TRightBracket :: rest) true) = false)
        by (destruct r; reflexivity).
      rewrite Hps. rewrite (Hr n n TRightBracket [ulit e] rest); [|lia|lia|right; reflexivity].
      cbn [bindp rev app]. rewrite expect_tk. reflexivity.
    - (* tuple *) intros es IH Hp [|n] rest Hn Hdd; [cbn in Hn; lia|]. rewrite lsize_tuple in Hn.
      change (poks es = true) in Hp.
      destruct es as [|e r].
      + change (ltoks (LL.LTuple LL.LsNil) ++ rest) with (tk TLeftParen :: tk TRightParen :: rest).
        rewrite prec_S. cbn [parse_literal_gen].
        rewrite peek_tk. change (teqb TRightParen TRightParen) with true. cbn [negb]. rewrite expect_tk. reflexivity.
      + destruct (IH Hp) as (_ & He & Hr). rewrite lsizes_cons in Hn.
        assert (Hpk : forall rest', peek TRightParen (PState (ltoks e ++ rest') true) = false)
          by (intro; now apply peek_lit).
        destruct r as [|e2 r2].
        * (* `(x,)` *)
          rewrite ltoks_tuple1. cbn [app]. rewrite <- !app_assoc. cbn [app]. rewrite prec_S. cbn [parse_literal_gen].
          rewrite Hpk. cbn [negb]. rewrite (He n); [|lia|apply no_dd_tk; discriminate]. cbn [bindp].
          rewrite peek_tk. change (teqb TComma TComma) with true. cbv iota.
          destruct n as [|n']; [lia|]. cbn [comma_loop]. rewrite next_tk.
          rewrite peek_tk. change (teqb TRightParen TRightParen) with true. cbv iota. cbn [bindp rev app].
          rewrite expect_tk. reflexivity.
        * rewrite ltoks_tuple2. cbn [app]. rewrite <- !app_assoc. cbn [app]. rewrite prec_S. cbn [parse_literal_gen].
          rewrite Hpk. cbn [negb]. rewrite (He n); [|lia|apply no_dd_mtoks; discriminate]. cbn [bindp].
          assert (Hpc : peek TComma (PState (mtoks (LL.LsCons e2 r2) ++ tk TRightParen :: rest) true) = true) by reflexivity.
          rewrite Hpc. rewrite (Hr n n TRightParen [ulit e] rest); [|lia|lia|left; reflexivity].
          cbn [bindp rev app]. rewrite expect_tk. reflexivity.
    - (* struct *) intros name fs IH Hp [|n] rest Hn Hdd; [cbn in Hn; lia|]. rewrite lsize_struct in Hn.
      change (not_bool_name (unintern name) && pokf fs = true) in Hp. apply andb_prop in Hp as [Hnm Hp].
      destruct (not_bool_name_spec _ Hnm) as [Ht Hf]. destruct (IH Hp) as (_ & Hfs).
      destruct fs as [|f v r].
      + change (ltoks (LL.LStruct name LL.LFNil) ++ rest) with
          (tk (Scan.TIdentifier (unintern name)) :: tk TLeftBrace :: tk TRightBrace :: rest).
        rewrite prec_S. cbn [parse_literal_gen]. rewrite Ht, Hf.
        rewrite next_tk_ne by discriminate. rewrite next_tk. cbn [sla].
        rewrite peek_tk. change (teqb TRightBrace TRightBrace) with true. cbn [negb bindp]. rewrite expect_tk. reflexivity.
      + destruct Hfs as [Hv Hr]. rewrite lsizef_cons in Hn.
        rewrite ltoks_struct. cbn [app]. rewrite <- !app_assoc. cbn [app].
        rewrite prec_S. cbn [parse_literal_gen]. rewrite Ht, Hf.
        rewrite next_tk_ne by discriminate. rewrite next_tk. cbn [sla].
        rewrite peek_tk. change (teqb (Scan.TIdentifier (unintern f)) TRightBrace) with false. cbn [negb].
        rewrite (struct_field_back n f v _ Hv); [|lia|apply no_dd_ftoks]. cbn [bindp].
        rewrite (Hr n n [(unintern f, ulit v)] rest); [|lia|lia]. cbn [bindp rev app]. rewrite expect_tk. reflexivity.
    - (* enum, unit *) intros name v Hp [|n] rest Hn [Hd1 Hd2]; [cbn in Hn; lia|].
      change (not_bool_name (unintern name) = true) in Hp. destruct (not_bool_name_spec _ Hp) as [Ht Hf].
      change (ltoks (LL.LEnumUnit name v) ++ rest) with
        (tk (Scan.TIdentifier (unintern name)) :: tk TDoubleColon :: tk (Scan.TIdentifier (unintern v)) :: rest).
      rewrite prec_S. cbn [parse_literal_gen]. rewrite Ht, Hf. rewrite next_tk.
      cbn [expect_identifier toks tk sla].
      assert (Hnm : next_matches TLeftParen (PState rest true) = None).
      { unfold peek in Hd2. unfold next_matches. destruct rest as [|[t' m'] r']; cbn [toks] in *; [reflexivity|]. now rewrite Hd2. }
      rewrite Hnm. reflexivity.
    - (* enum, tuple *) intros name v es IH Hp [|n] rest Hn Hdd; [cbn in Hn; lia|]. rewrite lsize_enum in Hn.
      change (not_bool_name (unintern name) && poks es = true) in Hp. apply andb_prop in Hp as [Hnm Hp].
      destruct (not_bool_name_spec _ Hnm) as [Ht Hf]. destruct (IH Hp) as (_ & Hes).
      destruct es as [|e r].
      + change (ltoks (LL.LEnumTuple name v LL.LsNil) ++ rest) with
          (tk (Scan.TIdentifier (unintern name)) :: tk TDoubleColon :: tk (Scan.TIdentifier (unintern v)) ::
           tk TLeftParen :: tk TRightParen :: rest).
        rewrite prec_S. cbn [parse_literal_gen]. rewrite Ht, Hf. rewrite next_tk.
        cbn [expect_identifier toks tk sla]. rewrite next_tk.
        rewrite peek_tk. change (teqb TRightParen TRightParen) with true. cbn [negb bindp]. rewrite expect_tk. reflexivity.
      + destruct Hes as [He Hr]. rewrite lsizes_cons in Hn.
        rewrite ltoks_enum. cbn [app]. rewrite <- !app_assoc. cbn [app].
        rewrite prec_S. cbn [parse_literal_gen]. rewrite Ht, Hf. rewrite next_tk.
        cbn [expect_identifier toks tk sla]. rewrite next_tk.
        rewrite (peek_lit TRightParen e _ true eq_refl). cbn [negb].
        rewrite (He n); [|lia|apply no_dd_mtoks; discriminate]. cbn [bindp].
        rewrite (Hr n n TRightParen [ulit e] rest); [|lia|lia|left; reflexivity].
        cbn [bindp rev app]. rewrite expect_tk. reflexivity.
    - (* range *) intros mn mx u _ [|n] rest Hn Hdd; [cbn in Hn; lia|].
      change (ltoks (LL.LRange mn mx u) ++ rest) with
        (tk (TUnsignedNum mn (unum_of u)) :: tk TDoubleDot :: tk (TUnsignedNum mx (unum_of u)) :: rest).
      rewrite prec_S. cbn [parse_literal_gen]. rewrite next_tk. cbn [toks tk sla].
      assert (Hrt : range_type (unum_of u) (unum_of u) = Some (unum_of u)) by (destruct u; reflexivity).
      rewrite Hrt. reflexivity.
    - (* no more elements *) intros _. split; [|exact I]. intros n k c acc rest _ Hk Hc.
      destruct (closing_facts c Hc) as (_ & Hcc & _).
      destruct k as [|k']; [lia|]. cbn [comma_loop]. change (mtoks LL.LsNil ++ tk c :: rest) with (tk c :: rest).
      rewrite next_tk_ne by exact Hcc. now rewrite app_nil_r.
    - (* one more element *) intros e IHe r IHr Hp. rewrite poks_cons in Hp. apply andb_prop in Hp as [Hpe Hpr].
      specialize (IHe Hpe). destruct (IHr Hpr) as [Hr _]. split; [|split; assumption].
      intros n k c acc rest Hn Hk Hc. rewrite lsizes_cons in Hn, Hk.
      destruct (closing_facts c Hc) as (Hcs & Hcc & Hcd & Hcp).
      destruct k as [|k']; [lia|]. cbn [comma_loop]. rewrite mtoks_cons. cbn [app]. rewrite <- app_assoc.
      rewrite next_tk. rewrite (peek_lit c e _ true Hcs).
      rewrite (IHe n); [|lia|now apply no_dd_mtoks]. cbn [bindp].
      rewrite (Hr n k' c (ulit e :: acc) rest); [|lia|lia|exact Hc].
      cbn [rev]. rewrite <- app_assoc. reflexivity.
    - (* no more fields *) intros _. split; [|exact I]. intros n k acc rest _ Hk.
      destruct k as [|k']; [lia|]. cbn [sep_loop]. change (ftoks LL.LFNil ++ tk TRightBrace :: rest) with (tk TRightBrace :: rest).
      rewrite next_tk_ne by discriminate. now rewrite app_nil_r.
    - (* one more field *) intros f v IHv r IHr Hp. rewrite pokf_cons in Hp. apply andb_prop in Hp as [Hpv Hpr].
      specialize (IHv Hpv). destruct (IHr Hpr) as [Hr _]. split; [|split; assumption].
      intros n k acc rest Hn Hk. rewrite lsizef_cons in Hn, Hk.
      destruct k as [|k']; [lia|]. cbn [sep_loop]. rewrite ftoks_cons. cbn [app]. rewrite <- app_assoc.
      rewrite next_tk. rewrite peek_tk. change (teqb (Scan.TIdentifier (unintern f)) TRightBrace) with false. cbv iota.
      rewrite (struct_field_back n f v _ IHv); [|lia|apply no_dd_ftoks]. cbn [bindp].
      rewrite (Hr n k' ((unintern f, ulit v) :: acc) rest); [|lia|lia].
      cbn [rev]. rewrite <- app_assoc. reflexivity.
  Qed.

  (* the whole printed literal, with the parser's default fuel *)
  Theorem parse_back l : pok l = true ->
    parse_literal_text (fuel_for_tokens (ltoks l)) (ltoks l) = POk (ulit l) (PState [] true).
  Proof.
    intro Hp.
    set (F := (lsize l + fuel_for_tokens (ltoks l))%nat).
    assert (HF : parse_literal_text F (ltoks l) = POk (ulit l) (PState [] true)).
    { pose proof (proj1 parse_back_mut l Hp (S F) [] ltac:(lia) no_dd_nil) as H. rewrite app_nil_r in H.
      unfold parse_literal_text. destruct (lit_head l) as (t & r & E & _). rewrite E in H |- *.
      rewrite prec_S in H. cbn [advance toks tk sla]. rewrite H. reflexivity. }
    pose proof (parse_literal_text_total (fuel_for_tokens (ltoks l)) (ltoks l) ltac:(unfold fuel_for_tokens; lia)) as Ht.
    rewrite <- (parse_literal_text_fuel_independent _ F (ltoks l) _ eq_refl Ht ltac:(lia)). exact HF.
  Qed.
End ParseBack.

(* ------------------------------------------------------------------ B. the checker types the parsed literal back *)

Lemma overwrite_ty_idem : forall t, overwrite_ty t t = t.
Proof.
  fix IH 1. intros [| | |e n|ts| |]; cbn [overwrite_ty]; try reflexivity.
  - destruct (is_uU (CUnsigned t)); reflexivity.
  - destruct (is_uU (CSigned t) || is_sU (CSigned t)); reflexivity.
  - now rewrite IH.
  - f_equal. induction ts as [|x r IHr]; [reflexivity|]. now rewrite IH, IHr.
Qed.

Definition into_lits (intern : list N -> N) : list texpr -> cres LL.lits :=
  fix go (es : list texpr) : cres LL.lits :=
    match es with
    | [] => COk LL.LsNil
    | x :: r => do l <- into_literal intern x; do ls <- go r; COk (LL.LsCons l ls)
    end.

Definition into_fields (intern : list N -> N) : list (list N * texpr) -> cres LL.lfields :=
  fix go (fs : list (list N * texpr)) : cres LL.lfields :=
    match fs with
    | [] => COk LL.LFNil
    | (fname, x) :: r => do l <- into_literal intern x; do ls <- go r; COk (LL.LFCons (intern fname) l ls)
    end.

Section CheckBack.
  Variable intern : list N -> N.
  Variable unintern : N -> list N.
  Variable D : defs.
  Notation ul := (ulit unintern).
  Notation uls := (ulits unintern).

  Definition is_num (l : LL.lit) : bool :=
    match l with LL.LUnsigned _ _ | LL.LSigned _ _ => true | _ => false end.

  (* the inner node check.rs builds for a printed number *)
  Definition numinner (l : LL.lit) : texpr_inner :=
    match l with
    | LL.LUnsigned n _ => TNumUnsigned n UnspecifiedU
    | LL.LSigned z _ => if (z <? 0)%Z then TNumSigned z UnspecifiedS else TNumUnsigned (Z.to_N z) UnspecifiedU
    | _ => TTrue
    end.

  (* the type check.rs gives the parsed literal BEFORE it is constrained to the expected type *)
  Fixpoint pt (l : LL.lit) : cty :=
    match l with
    | LL.LTrue | LL.LFalse => CBool
    | LL.LUnsigned _ _ => uU
    | LL.LSigned z _ => if (z <? 0)%Z then sU else uU
    | LL.LRepeat e n => CArray (pt e) n
    | LL.LArray es =>
        CArray (match es with LL.LsNil => CBool | LL.LsCons e _ => pick_elem_ty (pt e) (pts es) end) (LL.lits_len es)
    | LL.LTuple es => CTuple (pts es)
    | LL.LStruct n _ => CStruct (unintern n)
    | LL.LEnumUnit n _ | LL.LEnumTuple n _ _ => CEnum (unintern n)
    | LL.LRange mn mx u => CArray (CUnsigned (unum_of u)) (mx - mn)
    end
  with pts (es : LL.lits) : list cty :=
    match es with LL.LsNil => [] | LL.LsCons e r => pt e :: pts r end.

  Fixpoint ldepth (l : LL.lit) : nat :=
    match l with
    | LL.LRepeat e _ => S (ldepth e)
    | LL.LArray es | LL.LTuple es | LL.LEnumTuple _ _ es => S (ldepths es)
    | LL.LStruct _ fs => S (ldepthf fs)
    | _ => 1
    end
  with ldepths (es : LL.lits) : nat :=
    match es with LL.LsNil => 0 | LL.LsCons e r => Nat.max (ldepth e) (ldepths r) end
  with ldepthf (fs : LL.lfields) : nat :=
    match fs with LL.LFNil => 0 | LL.LFCons _ v r => Nat.max (ldepth v) (ldepthf r) end.

  Fixpoint all_num (es : LL.lits) : bool :=
    match es with LL.LsNil => true | LL.LsCons e r => is_num e && all_num r end.
  Definition uniform (ps : list cty) : bool :=
    match ps with [] => true | p :: r => forallb (cty_eqb p) r end.

  (* the interned name n stands for the byte string [name], and is what [intern] gives back *)
  Definition name_ok (n : N) (name : list N) : bool := list_eqb (unintern n) name && (intern name =? n).
  (* the field names of a struct definition: in name order (as parse.rs sorts them), pairwise distinct *)
  Fixpoint names_ok (l : list (list N)) : bool :=
    match l with
    | [] => true
    | x :: r => forallb (fun y => negb (name_ltb y x) && negb (list_eqb y x)) r && names_ok r
    end.

  Definition u_fits (n : N) (u : unsigned_num_type) : bool :=
    match unsigned_max u with Some mx => n <=? mx | None => false end.
  Definition s_fits (z : Z) (s : signed_num_type) : bool :=
    match signed_min s, signed_max s with Some mn, Some mx => ((mn <=? z) && (z <=? mx))%Z | _, _ => false end.

  (* THE CLASS OF LITERALS COVERED: values of the type T (as is_of_type has it), where
     - an array literal is not empty and its elements are either all numbers or all have the
       same shape of signs (the same type before constraining: [pt]);
     - a range is not empty and has at most u32::MAX elements;
     - struct / enum values: the names are interned consistently ([name_ok]: unintern gives the byte
       string of the definition and intern gives the number back), are not `true` / `false`; the
       fields of the struct definition are in name order and distinct ([names_ok], as parse.rs
       sorts them) and the value has exactly these fields in this order. *)
  Fixpoint rt_ok (l : LL.lit) (T : cty) {struct l} : bool :=
    match l, T with
    | LL.LTrue, CBool | LL.LFalse, CBool => true
    | LL.LUnsigned n u, CUnsigned u' => LT.uty_eqb (uty_of u') u && u_fits n u'
    | LL.LSigned z s, CSigned s' => LT.sty_eqb (sty_of s') s && s_fits z s'
    | LL.LRepeat e n, CArray ET n' => (n =? n') && rt_ok e ET
    | LL.LArray es, CArray ET n =>
        match es with LL.LsNil => false | _ => true end &&
        (LL.lits_len es =? n) && rt_all es ET && (all_num es || uniform (pts es))
    | LL.LTuple es, CTuple Ts => rt_zip es Ts
    | LL.LRange mn mx u, CArray (CUnsigned u') n =>
        LT.uty_eqb (uty_of u') u && negb (unsigned_eqb u' UnspecifiedU) &&
        (mn <? mx) && (mx - mn =? n) && (mx - mn <=? u32_max)
    | LL.LStruct n fs, CStruct name =>
        name_ok n name && not_bool_name name &&
        match assocL name (d_structs D) with
        | Some def => names_ok (map fst def) && rt_fields fs def
        | None => false
        end
    | LL.LEnumUnit n v, CEnum name =>
        name_ok n name && not_bool_name name &&
        match assocL name (d_enums D) with
        | Some vs => match assocL (unintern v) vs with Some None => intern (unintern v) =? v | _ => false end
        | None => false
        end
    | LL.LEnumTuple n v es, CEnum name =>
        name_ok n name && not_bool_name name &&
        match assocL name (d_enums D) with
        | Some vs =>
            match assocL (unintern v) vs with
            | Some (Some tys) => (intern (unintern v) =? v) && rt_zip es tys
            | _ => false
            end
        | None => false
        end
    | _, _ => false
    end
  with rt_fields (fs : LL.lfields) (def : list (list N * cty)) {struct fs} : bool :=
    match fs, def with
    | LL.LFNil, [] => true
    | LL.LFCons f v r, (fname, ft) :: dr => name_ok f fname && rt_ok v ft && rt_fields r dr
    | _, _ => false
    end
  with rt_all (es : LL.lits) (T : cty) {struct es} : bool :=
    match es with LL.LsNil => true | LL.LsCons e r => rt_ok e T && rt_all r T end
  with rt_zip (es : LL.lits) (Ts : list cty) {struct es} : bool :=
    match es, Ts with
    | LL.LsNil, [] => true
    | LL.LsCons e r, T :: Tr => rt_ok e T && rt_zip r Tr
    | _, _ => false
    end.

  (* a typed tree [te] of current type [p] that stands for the literal [l] of type [T] *)
  Definition Good (te : texpr) (l : LL.lit) (T p : cty) : Prop :=
    ty_of te = p /\ overwrite_ty p T = T /\
    (forall f, (ldepth l <= f)%nat -> constrain_type f te p = COk te) /\
    (forall f, (ldepth l <= f)%nat -> exists te', constrain_type f te T = COk te' /\ ty_of te' = T /\
                                                  into_literal intern te' = COk l) /\
    (is_num l = true -> inner_of te = numinner l).

  Inductive GoodAll (T : cty) (p : LL.lit -> cty) : list texpr -> LL.lits -> Prop :=
  | GA_nil : GoodAll T p [] LL.LsNil
  | GA_cons te e tes r : Good te e T (p e) -> GoodAll T p tes r -> GoodAll T p (te :: tes) (LL.LsCons e r).
  Inductive GoodZip : list texpr -> LL.lits -> list cty -> Prop :=
  | GZ_nil : GoodZip [] LL.LsNil []
  | GZ_cons te e T tes r Tr : Good te e T (pt e) -> GoodZip tes r Tr -> GoodZip (te :: tes) (LL.LsCons e r) (T :: Tr).

  Lemma Good_intro te l T p :
    ty_of te = p -> overwrite_ty p T = T ->
    (forall f, (ldepth l <= f)%nat -> constrain_type f te p = COk te) ->
    (forall f, (ldepth l <= f)%nat -> exists te', constrain_type f te T = COk te' /\ ty_of te' = T /\
                                                  into_literal intern te' = COk l) ->
    (is_num l = true -> inner_of te = numinner l) -> Good te l T p.
  Proof. unfold Good. auto. Qed.

  Lemma ldepth_pos l : (1 <= ldepth l)%nat.
  Proof. destruct l; cbn [ldepth]; lia. Qed.

  (* ---- numbers *)
  Lemma num_good l T p : is_num l = true -> rt_ok l T = true ->
    p = pt l \/ (p = sU /\ exists s, T = CSigned s) ->
    Good (TE (numinner l) p) l T p.
  Proof.
    intros Hn Hok Hp. destruct l; try discriminate Hn; destruct T; try discriminate Hok; cbn [rt_ok] in Hok;
      apply andb_prop in Hok as [Hty Hfit].
    - (* unsigned *)
      assert (p = uU) as -> by (destruct Hp as [->|[_ [s [=]]]]; reflexivity).
      assert (Ht : uty_of t = u) by (destruct t, u; try discriminate Hty; reflexivity). subst u.
      unfold u_fits in Hfit. destruct (unsigned_max t) as [mx|] eqn:Em; [|discriminate Hfit].
      apply N.leb_le in Hfit.
      assert (Hlt : (mx <? n) = false) by (apply N.ltb_ge; exact Hfit).
      assert (Hnu : t <> UnspecifiedU) by (intros ->; discriminate Em).
      apply Good_intro; cbn [ty_of numinner inner_of]; try reflexivity.
      + intros [|f] Hf; [pose proof (ldepth_pos (LL.LUnsigned n (uty_of t))); lia|]. reflexivity.
      + intros [|f] Hf; [pose proof (ldepth_pos (LL.LUnsigned n (uty_of t))); lia|].
        exists (TE (TNumUnsigned n UnspecifiedU) (CUnsigned t)).
        cbn [constrain_type inner_of ty_of]. unfold check_or_constrain_unsigned. cbn [ty_of inner_of set_ty].
        change (is_uU (CUnsigned UnspecifiedU)) with true. rewrite andb_false_r. rewrite Em, Hlt.
        cbn [cbind set_ty ty_of]. rewrite overwrite_ty_idem. split; [reflexivity|]. split; reflexivity.
    - (* signed *)
      assert (Ht : sty_of t = s) by (destruct t, s; try discriminate Hty; reflexivity). subst s.
      unfold s_fits in Hfit. destruct (signed_min t) as [mn|] eqn:En; [|discriminate Hfit].
      destruct (signed_max t) as [mx|] eqn:Em; [|discriminate Hfit].
      apply andb_prop in Hfit as [Hlo Hhi]. apply Z.leb_le in Hlo. apply Z.leb_le in Hhi.
      assert (Hnu : t <> UnspecifiedS) by (intros ->; discriminate Em).
      assert (Hmx : (mx < two63)%Z) by (destruct t; try congruence; injection Em as <-; unfold two63; lia).
      assert (Hp' : p = uU \/ p = sU).
      { destruct Hp as [->|[-> _]]; [|auto]. cbn [pt]. destruct (z <? 0)%Z; auto. }
      assert (Hneg : (z <? 0)%Z = true -> p = sU).
      { intro Hz. destruct Hp as [->|[-> _]]; [|reflexivity]. cbn [pt]. now rewrite Hz. }
      apply Good_intro; cbn [ty_of inner_of]; try reflexivity.
      + destruct Hp' as [-> | ->]; destruct t; try congruence; reflexivity.
      + intros [|f] Hf; [pose proof (ldepth_pos (LL.LSigned z (sty_of t))); lia|].
        cbn [numinner]. destruct (z <? 0)%Z eqn:Ez.
        * rewrite (Hneg eq_refl). reflexivity.
        * destruct Hp' as [-> | ->]; reflexivity.
      + intros [|f] Hf; [pose proof (ldepth_pos (LL.LSigned z (sty_of t))); lia|].
        cbn [numinner]. destruct (z <? 0)%Z eqn:Ez.
        * rewrite (Hneg eq_refl). exists (TE (TNumSigned z UnspecifiedS) (CSigned t)).
          cbn [constrain_type inner_of ty_of]. unfold check_or_constrain_signed. cbn [ty_of inner_of set_ty].
          change (is_sU (CSigned UnspecifiedS)) with true. cbn [negb]. rewrite andb_false_r. cbn [andb].
          rewrite En, Em. assert ((z <? mn)%Z = false) as -> by (apply Z.ltb_ge; lia).
          assert ((mx <? z)%Z = false) as -> by (apply Z.ltb_ge; lia).
          cbn [cbind set_ty ty_of]. rewrite overwrite_ty_idem. split; [reflexivity|]. split; reflexivity.
        * apply Z.ltb_ge in Ez.
          exists (TE (TNumUnsigned (Z.to_N z) UnspecifiedU) (CSigned t)).
          cbn [constrain_type inner_of ty_of]. unfold check_or_constrain_signed. cbn [ty_of inner_of set_ty].
          assert (Hc : negb (cty_eqb p (CSigned t)) && negb (is_sU p) && negb (is_uU p) = false).
          { destruct Hp' as [-> | ->]; [change (is_uU uU) with true; now rewrite andb_false_r|].
            change (is_sU sU) with true. cbn [negb]. now rewrite andb_false_r. }
          rewrite Hc. rewrite En, Em. rewrite Z2N.id by lia.
          assert ((mx <? z)%Z = false) as -> by (apply Z.ltb_ge; lia).
          cbn [cbind set_ty ty_of]. rewrite overwrite_ty_idem. split; [reflexivity|]. split; [reflexivity|].
          cbn [into_literal]. rewrite u64_as_i64_small by (rewrite Z2N.id by lia; lia). now rewrite Z2N.id by lia.
  Qed.

  (* ---- lists of element trees *)
  Lemma find_none' {A} (g : A -> bool) l : (forall x, In x l -> g x = false) -> find g l = None.
  Proof.
    induction l as [|x r IH]; intro H; [reflexivity|]. cbn [find]. rewrite (H x (or_introl eq_refl)).
    apply IH. intros y Hy. apply H. now right.
  Qed.

  Lemma find_none_iff {A} (g : A -> bool) l x : find g l = None -> In x l -> g x = false.
  Proof. intros H Hx. exact (find_none g l H x Hx). Qed.

  Lemma pick_uniform p ps : forallb (cty_eqb p) ps = true -> pick_elem_ty p (p :: ps) = p.
  Proof.
    intro H. assert (Hall : forall x, In x (p :: ps) -> x = p).
    { intros x [<-|Hx]; [reflexivity|]. rewrite forallb_forall in H. symmetry. apply cty_eqb_eq. now apply H. }
    unfold pick_elem_ty.
    assert (F1 : find (fun t => negb (cty_eqb t p)) (p :: ps) = None).
    { apply find_none'. intros x Hx. rewrite (Hall x Hx), cty_eqb_refl. reflexivity. }
    rewrite F1. assert (E1 : (if is_uU p then p else p) = p) by (destruct (is_uU p); reflexivity). rewrite E1.
    destruct (is_sU p); [|reflexivity].
    rewrite find_none'; [reflexivity|]. intros x Hx. rewrite (Hall x Hx), cty_eqb_refl. reflexivity.
  Qed.

  Lemma pick_num p ps : (forall x, In x (p :: ps) -> x = uU \/ x = sU) ->
    (pick_elem_ty p (p :: ps) = uU /\ forall x, In x (p :: ps) -> x = uU) \/
    (pick_elem_ty p (p :: ps) = sU /\ In sU (p :: ps)).
  Proof.
    intro H.
    assert (F2 : find (fun t => negb (cty_eqb t sU) && negb (is_uU t)) (p :: ps) = None).
    { apply find_none'. intros x Hx. destruct (H x Hx) as [-> | ->]; reflexivity. }
    unfold pick_elem_ty. destruct (H p (or_introl eq_refl)) as [-> | ->].
    - change (is_uU uU) with true. cbv iota.
      destruct (find (fun t => negb (cty_eqb t uU)) (uU :: ps)) as [t|] eqn:Ef.
      + apply find_some in Ef as [Hin Ht]. destruct (H t Hin) as [-> | ->]; [discriminate Ht|].
        change (is_sU sU) with true. cbv iota. rewrite F2. right. split; [reflexivity|exact Hin].
      + change (is_sU uU) with false. cbv iota. left. split; [reflexivity|].
        intros x Hx. destruct (H x Hx) as [-> | ->]; [reflexivity|].
        exfalso. pose proof (find_none_iff _ _ sU Ef Hx) as Hc. discriminate Hc.
    - change (is_uU sU) with false. change (is_sU sU) with true. cbv iota. rewrite F2.
      right. split; [reflexivity|now left].
  Qed.

  Lemma lenN_cons {A} (x : A) l : lenN (x :: l) = 1 + lenN l.
  Proof. unfold lenN. cbn [length]. lia. Qed.

  Lemma ga_tys T tes es : GoodAll T pt tes es -> map ty_of tes = pts es.
  Proof. induction 1 as [|te e tes r (H1 & _) _ IH]; cbn [map pts]; [reflexivity|]. now rewrite H1, IH. Qed.
  Lemma gz_tys tes es Ts : GoodZip tes es Ts -> map ty_of tes = pts es.
  Proof. induction 1 as [|te e T tes r Tr (H1 & _) _ IH]; cbn [map pts]; [reflexivity|]. now rewrite H1, IH. Qed.

  Lemma ga_len T p tes es : GoodAll T p tes es -> lenN tes = LL.lits_len es.
  Proof. induction 1 as [|te e tes r _ _ IH]; [reflexivity|]. rewrite lenN_cons, IH. reflexivity. Qed.

  Lemma ga_self T q tes es : GoodAll T (fun _ => q) tes es -> forall f, (ldepths es <= f)%nat ->
    mapM (fun el => constrain_type f el q) tes = COk tes.
  Proof.
    induction 1 as [|te e tes r (_ & _ & H3 & _) _ IH]; intros f Hf; [reflexivity|].
    cbn [ldepths] in Hf. cbn [mapM]. rewrite (H3 f) by lia. cbn [cbind]. rewrite (IH f) by lia. reflexivity.
  Qed.

  Lemma ga_fin T q tes es : GoodAll T (fun _ => q) tes es -> forall f, (ldepths es <= f)%nat ->
    exists tes', mapM (fun el => constrain_type f el T) tes = COk tes' /\ into_lits intern tes' = COk es.
  Proof.
    induction 1 as [|te e tes r (_ & _ & _ & H4 & _) _ IH]; intros f Hf; [exists []; split; reflexivity|].
    cbn [ldepths] in Hf. destruct (H4 f ltac:(lia)) as (te' & E1 & _ & E2).
    destruct (IH f ltac:(lia)) as (tes' & E3 & E4). exists (te' :: tes'). cbn [mapM into_lits].
    rewrite E1. cbn [cbind]. rewrite E3. cbn [cbind]. split; [reflexivity|].
    rewrite E2. cbn [cbind]. fold (into_lits intern). rewrite E4. reflexivity.
  Qed.

  Lemma gz_self tes es Ts : GoodZip tes es Ts -> forall f, (ldepths es <= f)%nat ->
    zipM (fun el t => constrain_type f el t) tes (pts es) = COk tes.
  Proof.
    induction 1 as [|te e T tes r Tr (_ & _ & H3 & _) _ IH]; intros f Hf; [reflexivity|].
    cbn [ldepths] in Hf. cbn [zipM pts]. rewrite (H3 f) by lia. cbn [cbind]. rewrite (IH f) by lia. reflexivity.
  Qed.

  Lemma gz_fin tes es Ts : GoodZip tes es Ts -> forall f, (ldepths es <= f)%nat ->
    exists tes', zipM (fun el t => constrain_type f el t) tes Ts = COk tes' /\ into_lits intern tes' = COk es.
  Proof.
    induction 1 as [|te e T tes r Tr (_ & _ & _ & H4 & _) _ IH]; intros f Hf; [exists []; split; reflexivity|].
    cbn [ldepths] in Hf. destruct (H4 f ltac:(lia)) as (te' & E1 & _ & E2).
    destruct (IH f ltac:(lia)) as (tes' & E3 & E4). exists (te' :: tes'). cbn [zipM into_lits].
    rewrite E1. cbn [cbind]. rewrite E3. cbn [cbind]. split; [reflexivity|].
    rewrite E2. cbn [cbind]. fold (into_lits intern). rewrite E4. reflexivity.
  Qed.

  Lemma gz_len tes es Ts : GoodZip tes es Ts -> lenN tes = lenN Ts.
  Proof. induction 1 as [|te e T tes r Tr _ _ IH]; [reflexivity|]. now rewrite !lenN_cons, IH. Qed.

  Lemma gz_ow tes es Ts : GoodZip tes es Ts -> overwrite_zip (pts es) Ts = Ts.
  Proof.
    induction 1 as [|te e T tes r Tr (_ & H2 & _) _ IH]; [reflexivity|]. cbn [pts overwrite_zip]. now rewrite H2, IH.
  Qed.

  Lemma overwrite_zip_idem ts : overwrite_zip ts ts = ts.
  Proof. induction ts as [|t r IH]; [reflexivity|]. cbn [overwrite_zip]. now rewrite overwrite_ty_idem, IH. Qed.

  (* the elements of an array literal, constrained to the element type check.rs picks *)
  Lemma ga_retype_same T q tes es : GoodAll T pt tes es -> (forall x, In x (pts es) -> x = q) ->
    forall f, (ldepths es <= f)%nat ->
    mapM (fun fld => check_type f fld q) tes = COk tes /\ GoodAll T (fun _ => q) tes es.
  Proof.
    induction 1 as [|te e tes r HG _ IH]; intros Hq f Hf; [split; [reflexivity|constructor]|].
    cbn [ldepths] in Hf. cbn [pts] in Hq. pose proof (Hq (pt e) (or_introl eq_refl)) as Ee.
    destruct (IH (fun x Hx => Hq x (or_intror Hx)) f ltac:(lia)) as [E1 G1].
    rewrite Ee in HG. destruct HG as (H1 & H2 & H3 & H4 & H5). split.
    - cbn [mapM]. unfold check_type at 1. rewrite (H3 f) by lia. cbn [cbind]. rewrite H1, cty_eqb_refl.
      cbn [cbind]. rewrite E1. reflexivity.
    - constructor; [|exact G1]. unfold Good. auto.
  Qed.

  Lemma num_retype l q f : is_num l = true -> q = pt l \/ q = sU -> q = uU \/ q = sU ->
    check_type (S f) (TE (numinner l) (pt l)) q = COk (TE (numinner l) q).
  Proof.
    intros Hn H1 H2. destruct l; try discriminate Hn; cbn [numinner pt] in *.
    - destruct H2 as [-> | ->]; reflexivity.
    - destruct (z <? 0)%Z.
      + destruct H1 as [-> | ->]; reflexivity.
      + destruct H2 as [-> | ->]; reflexivity.
  Qed.

  Lemma ga_retype_num T q tes es : GoodAll T pt tes es -> all_num es = true -> rt_all es T = true ->
    (forall x, In x (pts es) -> q = x \/ q = sU) -> q = uU \/ q = sU -> (q = sU -> exists s, T = CSigned s) ->
    forall f, exists tes'', mapM (fun fld => check_type (S f) fld q) tes = COk tes'' /\ GoodAll T (fun _ => q) tes'' es.
  Proof.
    induction 1 as [|te e tes r HG _ IH]; intros Hnum Hok Hq Hq2 Hs f; [exists []; split; [reflexivity|constructor]|].
    cbn [all_num] in Hnum. apply andb_prop in Hnum as [Hn Hnr].
    cbn [rt_all] in Hok. apply andb_prop in Hok as [Hoke Hokr]. cbn [pts] in Hq.
    destruct (IH Hnr Hokr (fun x Hx => Hq x (or_intror Hx)) Hq2 Hs f) as (tes'' & E1 & G1).
    destruct HG as (H1 & _ & _ & _ & H5). specialize (H5 Hn).
    destruct te as [inner t]. cbn [ty_of inner_of] in H1, H5. subst inner t.
    exists (TE (numinner e) q :: tes''). split.
    - cbn [mapM]. rewrite (num_retype e q f Hn (Hq _ (or_introl eq_refl)) Hq2). cbn [cbind]. rewrite E1. reflexivity.
    - constructor; [|exact G1]. apply num_good; [exact Hn|exact Hoke|].
      destruct (Hq _ (or_introl eq_refl)) as [E|E]; [left; exact E|right; split; [exact E|exact (Hs E)]].
  Qed.

  Lemma into_array tes t : into_literal intern (TE (TArrayLiteral tes) t) = (do ls <- into_lits intern tes; COk (LL.LArray ls)).
  Proof. reflexivity. Qed.
  Lemma into_tuple tes t : into_literal intern (TE (TTupleLiteral tes) t) = (do ls <- into_lits intern tes; COk (LL.LTuple ls)).
  Proof. reflexivity. Qed.

  (* ---- struct definitions in name order *)
  Lemma insert_last {A} (f : list N * A) : forall acc,
    (forall g, In g acc -> name_ltb (fst f) (fst g) = false) -> insert_field f acc = acc ++ [f].
  Proof.
    induction acc as [|g r IH]; intro H; [reflexivity|]. cbn [insert_field app].
    rewrite (H g (or_introl eq_refl)). rewrite IH; [reflexivity|]. intros g' Hg'. apply H. now right.
  Qed.

  Lemma names_ok_cons x r : names_ok (x :: r) = forallb (fun y => negb (name_ltb y x) && negb (list_eqb y x)) r && names_ok r.
  Proof. reflexivity. Qed.

  Lemma sort_fields_acc {A} : forall (l acc : list (list N * A)), names_ok (map fst l) = true ->
    (forall g f, In g acc -> In f l -> name_ltb (fst f) (fst g) = false) ->
    fold_left (fun a f => insert_field f a) l acc = acc ++ l.
  Proof.
    induction l as [|x r IH]; intros acc Hs Hacc; [now rewrite app_nil_r|].
    cbn [fold_left map] in *. rewrite names_ok_cons in Hs. apply andb_prop in Hs as [Hx Hr].
    rewrite insert_last by (intros g Hg; apply (Hacc g x Hg); now left).
    rewrite IH; [now rewrite <- app_assoc|exact Hr|].
    intros g f Hg Hf. apply in_app_or in Hg as [Hg|[<-|[]]].
    - apply (Hacc g f Hg). now right.
    - rewrite forallb_forall in Hx. specialize (Hx (fst f) (in_map fst _ _ Hf)).
      apply andb_prop in Hx as [Hx _]. now destruct (name_ltb (fst f) (fst x)).
  Qed.

  Lemma sort_fields_sorted {A} (l : list (list N * A)) : names_ok (map fst l) = true -> sort_fields l = l.
  Proof. intro H. unfold sort_fields. rewrite sort_fields_acc; [reflexivity|exact H|intros g f []]. Qed.

  Lemma assocL_distinct {A} : forall (def : list (list N * A)) k v, names_ok (map fst def) = true ->
    In (k, v) def -> assocL k def = Some v.
  Proof.
    induction def as [|[k0 v0] r IH]; intros k v Hs Hin; [destruct Hin|].
    cbn [map fst] in Hs. rewrite names_ok_cons in Hs. apply andb_prop in Hs as [Hx Hr]. cbn [assocL].
    destruct Hin as [[= -> ->]|Hin]; [now rewrite list_eqb_refl|].
    rewrite forallb_forall in Hx. specialize (Hx k (in_map fst _ _ Hin)). cbn [fst] in Hx.
    apply andb_prop in Hx as [_ Hx]. destruct (list_eqb k k0); [discriminate Hx|]. now apply IH.
  Qed.

  Lemma missing_field_same {A B} (def : list (list N * A)) (fields : list (list N * B)) :
    map fst fields = map fst def -> missing_field def fields = false.
  Proof.
    intro H. unfold missing_field. apply Bool.not_true_is_false. intro Hc. apply existsb_exists in Hc as (d & Hd & Hn).
    assert (Hin : In (fst d) (map fst fields)) by (rewrite H; now apply in_map).
    apply in_map_iff in Hin as (f & Ef & Hf).
    assert (He : existsb (fun f0 => list_eqb (fst f0) (fst d)) fields = true).
    { apply existsb_exists. exists f. split; [exact Hf|]. rewrite Ef. apply list_eqb_refl. }
    rewrite He in Hn. discriminate Hn.
  Qed.

  Lemma ufields_cons f v r : ufields unintern (LL.LFCons f v r) = (unintern f, ul v) :: ufields unintern r.
  Proof. reflexivity. Qed.
  Lemma rt_fields_cons f v r fname ft dr :
    rt_fields (LL.LFCons f v r) ((fname, ft) :: dr) = name_ok f fname && rt_ok v ft && rt_fields r dr.
  Proof. reflexivity. Qed.

  Lemma name_ok_spec n name : name_ok n name = true -> unintern n = name /\ intern name = n.
  Proof.
    unfold name_ok. intro H. apply andb_prop in H as [H1 H2]. split; [now apply list_eqb_eq|now apply N.eqb_eq].
  Qed.

  Lemma rt_fields_names : forall fs def, rt_fields fs def = true -> map fst (ufields unintern fs) = map fst def.
  Proof.
    fix IH 1. intros [|f v r] [|[fname ft] dr] H; try discriminate H; [reflexivity|].
    rewrite rt_fields_cons in H. apply andb_prop in H as [H Hr]. apply andb_prop in H as [Hn _].
    destruct (name_ok_spec _ _ Hn) as [<- _]. rewrite ufields_cons. cbn [map fst]. now rewrite (IH r dr Hr).
  Qed.

  Lemma gz_check tes es Ts : GoodZip tes es Ts -> forall f, (ldepths es <= f)%nat ->
    exists tes', zipM (fun v t => check_type f v t) tes Ts = COk tes' /\ into_lits intern tes' = COk es.
  Proof.
    induction 1 as [|te e T tes r Tr (_ & _ & _ & H4 & _) _ IH]; intros f Hf; [exists []; split; reflexivity|].
    cbn [ldepths] in Hf. destruct (H4 f ltac:(lia)) as (te' & E1 & E2 & E3).
    destruct (IH f ltac:(lia)) as (tes' & E4 & E5). exists (te' :: tes'). cbn [zipM into_lits].
    unfold check_type at 1. rewrite E1. cbn [cbind]. rewrite E2, cty_eqb_refl. cbn [cbind]. rewrite E4. cbn [cbind].
    split; [reflexivity|]. rewrite E3. cbn [cbind]. fold (into_lits intern). rewrite E5. reflexivity.
  Qed.

  Lemma gz_len2 tes es Ts : GoodZip tes es Ts -> lenN tes = LL.lits_len es.
  Proof. induction 1 as [|te e T tes r Tr _ _ IH]; [reflexivity|]. rewrite lenN_cons, IH. reflexivity. Qed.

  Lemma into_enum name v tes t :
    into_literal intern (TE (TEnumLiteral name v (Some tes)) t) =
    (do ls <- into_lits intern tes; COk (LL.LEnumTuple (intern name) (intern v) ls)).
  Proof. reflexivity. Qed.
  Lemma into_struct name tfs t :
    into_literal intern (TE (TStructLiteral name tfs) t) =
    (do fs <- into_fields intern tfs; COk (LL.LStruct (intern name) fs)).
  Proof. reflexivity. Qed.

  (* ---- the induction *)
  Definition CEst (l : LL.lit) : Prop := forall T, rt_ok l T = true -> forall f st, (ldepth l <= f)%nat ->
    exists te, check_expr intern f D st (xexpr_of_uexpr (ul l)) = COk (te, st) /\ Good te l T (pt l).
  Definition CAst (es : LL.lits) : Prop := forall ET, rt_all es ET = true -> forall f st, (ldepths es <= f)%nat ->
    exists tes, mapM_st (check_expr intern f D) st (map xexpr_of_uexpr (uls es)) = COk (tes, st) /\ GoodAll ET pt tes es.
  Definition CZst (es : LL.lits) : Prop := forall Ts, rt_zip es Ts = true -> forall f st, (ldepths es <= f)%nat ->
    exists tes, mapM_st (check_expr intern f D) st (map xexpr_of_uexpr (uls es)) = COk (tes, st) /\ GoodZip tes es Ts.

  Definition xfields (fs : LL.lfields) : list (list N * xexpr) :=
    map (fun f : list N * uexpr => (fst f, xexpr_of_uexpr (snd f))) (ufields unintern fs).
  (* the field loop of a struct literal whose fields are those of (the rest [dr] of) the definition, in order *)
  Definition CFst (fs : LL.lfields) : Prop := forall def_all dr seen f st,
    rt_fields fs dr = true -> names_ok (map fst dr) = true ->
    (forall fname ft, In (fname, ft) dr -> assocL fname def_all = Some ft) ->
    (forall fname, In fname (map fst dr) -> memL fname seen = false) -> (ldepthf fs <= f)%nat ->
    exists tfs, struct_lit_loop (check_expr intern f D) f def_all seen st (xfields fs) = COk (tfs, st) /\
                into_fields intern tfs = COk fs.

  Lemma ul_array es : xexpr_of_uexpr (ul (LL.LArray es)) = XArrayLiteral (map xexpr_of_uexpr (uls es)).
  Proof. reflexivity. Qed.
  Lemma ul_tuple es : xexpr_of_uexpr (ul (LL.LTuple es)) = XTupleLiteral (map xexpr_of_uexpr (uls es)).
  Proof. reflexivity. Qed.
  Lemma ul_repeat e n : xexpr_of_uexpr (ul (LL.LRepeat e n)) = XArrayRepeatLiteral (xexpr_of_uexpr (ul e)) n.
  Proof. reflexivity. Qed.
  Lemma uls_cons e r : map xexpr_of_uexpr (uls (LL.LsCons e r)) = xexpr_of_uexpr (ul e) :: map xexpr_of_uexpr (uls r).
  Proof. reflexivity. Qed.
  Lemma pt_array e r : pt (LL.LArray (LL.LsCons e r)) =
    CArray (pick_elem_ty (pt e) (pts (LL.LsCons e r))) (LL.lits_len (LL.LsCons e r)).
  Proof. reflexivity. Qed.
  Lemma pt_tuple es : pt (LL.LTuple es) = CTuple (pts es). Proof. reflexivity. Qed.
  Lemma pt_repeat e n : pt (LL.LRepeat e n) = CArray (pt e) n. Proof. reflexivity. Qed.
  Lemma pts_cons e r : pts (LL.LsCons e r) = pt e :: pts r. Proof. reflexivity. Qed.
  Lemma ldepth_array es : ldepth (LL.LArray es) = S (ldepths es). Proof. reflexivity. Qed.
  Lemma ldepth_tuple es : ldepth (LL.LTuple es) = S (ldepths es). Proof. reflexivity. Qed.
  Lemma ldepth_repeat e n : ldepth (LL.LRepeat e n) = S (ldepth e). Proof. reflexivity. Qed.
  Lemma ldepths_cons e r : ldepths (LL.LsCons e r) = Nat.max (ldepth e) (ldepths r). Proof. reflexivity. Qed.

  Lemma all_num_pts : forall es, all_num es = true -> forall x, In x (pts es) -> x = uU \/ x = sU.
  Proof.
    fix IH 1. intros [|e r].
    - intros _ x [].
    - cbn [all_num]. rewrite pts_cons. intros H x [<-|Hx].
      + apply andb_prop in H as [H _]. destruct e; try discriminate H; cbn [pt]; auto. destruct (z <? 0)%Z; auto.
      + apply andb_prop in H as [_ H]. now apply (IH r).
  Qed.

  Lemma rt_all_cons e r T : rt_all (LL.LsCons e r) T = rt_ok e T && rt_all r T.
  Proof. reflexivity. Qed.

  Lemma neg_signed : forall es T, all_num es = true -> rt_all es T = true -> In sU (pts es) -> exists s, T = CSigned s.
  Proof.
    fix IH 1. intros [|e r] T.
    - intros _ _ [].
    - cbn [all_num]. rewrite rt_all_cons, pts_cons. intros Hn Hok [E|Hin].
      + apply andb_prop in Hn as [Hn _]. apply andb_prop in Hok as [Hok _].
        destruct e; try discriminate Hn; cbn [pt] in E; try discriminate E.
        destruct T; try discriminate Hok. eauto.
      + apply andb_prop in Hn as [_ Hn]. apply andb_prop in Hok as [_ Hok]. now apply (IH r T).
  Qed.

  Lemma uls_len : forall es, lenN (map xexpr_of_uexpr (uls es)) = LL.lits_len es.
  Proof.
    fix IH 1. intros [|e r]; [reflexivity|]. rewrite uls_cons, lenN_cons, (IH r). reflexivity.
  Qed.

  Lemma overwrite_ty_tuple acts exs : overwrite_ty (CTuple acts) (CTuple exs) = CTuple (overwrite_zip acts exs).
  Proof.
    cbn [overwrite_ty]. f_equal. revert acts. induction exs as [|x r IH]; intros [|a ar]; try reflexivity.
    cbn [overwrite_zip]. now rewrite IH.
  Qed.
  Lemma lenN_map' {A B} (g : A -> B) l : lenN (map g l) = lenN l.
  Proof. unfold lenN. now rewrite map_length. Qed.
  Lemma unum_uty u : unum_of (uty_of u) = u.
  Proof. destruct u; reflexivity. Qed.
  Lemma rt_zip_cons e r T Tr : rt_zip (LL.LsCons e r) (T :: Tr) = rt_ok e T && rt_zip r Tr.
  Proof. reflexivity. Qed.
  Lemma mapM_st_cons {S A B} (g : S -> A -> cres (B * S)) st x r :
    mapM_st g st (x :: r) = (do r1 <- g st x; do r2 <- mapM_st g (snd r1) r; COk (fst r1 :: fst r2, snd r2)).
  Proof. reflexivity. Qed.

  Lemma check_back_mut :
    (forall l, CEst l) /\ (forall es, CAst es /\ CZst es) /\ (forall fs, CFst fs).
  Proof.
    apply LiteralProofs.lit_mutind.
    - (* true *) intros T Hok [|f] st Hf; [cbn in Hf; lia|]. destruct T; try discriminate Hok.
      exists (TE TTrue CBool). split; [reflexivity|]. apply Good_intro; try reflexivity.
      + intros [|f'] Hf'; [cbn in Hf'; lia|reflexivity].
      + intros [|f'] Hf'; [cbn in Hf'; lia|]. exists (TE TTrue CBool). split; [reflexivity|split; reflexivity].
    - intros T Hok [|f] st Hf; [cbn in Hf; lia|]. destruct T; try discriminate Hok.
      exists (TE TFalse CBool). split; [reflexivity|]. apply Good_intro; try reflexivity.
      + intros [|f'] Hf'; [cbn in Hf'; lia|reflexivity].
      + intros [|f'] Hf'; [cbn in Hf'; lia|]. exists (TE TFalse CBool). split; [reflexivity|split; reflexivity].
      + discriminate.
    - (* unsigned *) intros n u T Hok [|f] st Hf; [cbn in Hf; lia|].
      exists (TE (numinner (LL.LUnsigned n u)) (pt (LL.LUnsigned n u))). split; [reflexivity|].
      apply num_good; [reflexivity|exact Hok|left; reflexivity].
    - (* signed *) intros z s T Hok [|f] st Hf; [cbn in Hf; lia|].
      exists (TE (numinner (LL.LSigned z s)) (pt (LL.LSigned z s))). split.
      + cbn [ulit numinner pt]. destruct (z <? 0)%Z; reflexivity.
      + apply num_good; [reflexivity|exact Hok|left; reflexivity].
    - (* repeat *) intros e IH n0 T Hok [|f] st Hf; [cbn in Hf; lia|]. rewrite ldepth_repeat in Hf.
      destruct T as [| | |ET n'| | |]; try discriminate Hok. cbn [rt_ok] in Hok. apply andb_prop in Hok as [Hn Hok].
      apply N.eqb_eq in Hn. subst n'.
      destruct (IH ET Hok f st ltac:(lia)) as (te & Ece & (H1 & H2 & H3 & H4 & _)).
      exists (TE (TArrayRepeatLiteral te n0) (CArray (ty_of te) n0)). split.
      + rewrite ul_repeat. cbn [check_expr]. rewrite Ece. reflexivity.
      + rewrite pt_repeat. rewrite H1. apply Good_intro.
        * reflexivity.
        * cbn [overwrite_ty]. now rewrite H2.
        * intros f' Hf'. rewrite ldepth_repeat in Hf'. destruct f' as [|f']; [lia|]. cbn [constrain_type inner_of ty_of].
          rewrite (H3 f') by lia. cbn [cbind overwrite_elem set_ty ty_of overwrite_ty]. now rewrite !overwrite_ty_idem.
        * intros f' Hf'. rewrite ldepth_repeat in Hf'. destruct f' as [|f']; [lia|]. destruct (H4 f' ltac:(lia)) as (te' & E1 & E2 & E3).
          exists (TE (TArrayRepeatLiteral te' n0) (CArray ET n0)). cbn [constrain_type inner_of ty_of].
          rewrite E1. cbn [cbind overwrite_elem set_ty ty_of overwrite_ty]. rewrite H2, overwrite_ty_idem.
          split; [reflexivity|]. split; [reflexivity|]. cbn [into_literal]. rewrite E3. reflexivity.
        * discriminate.
    - (* array *) intros es [IHa _] T Hok [|f] st Hf; [cbn in Hf; lia|]. rewrite ldepth_array in Hf.
      destruct T as [| | |ET n| | |]; try discriminate Hok. cbn [rt_ok] in Hok.
      destruct es as [|e r]; [discriminate Hok|]. cbn [andb] in Hok.
      apply andb_prop in Hok as [Hok Hshape]. apply andb_prop in Hok as [Hlen Hall]. apply N.eqb_eq in Hlen. subst n.
      destruct (IHa ET Hall f st ltac:(lia)) as (tes & Em & GA).
      pose proof (ga_tys _ _ _ GA) as Htys. pose proof (ga_len _ _ _ _ GA) as Hl.
      set (picked := pick_elem_ty (pt e) (pt e :: pts r)).
      assert (Hre : exists tes'', mapM (fun fld => check_type f fld picked) tes = COk tes'' /\
                                  GoodAll ET (fun _ => picked) tes'' (LL.LsCons e r)).
      { apply orb_prop in Hshape as [Hnum|Huni].
        - pose proof (all_num_pts _ Hnum) as Hps. rewrite pts_cons in Hps.
          destruct f as [|f0]; [pose proof (ldepth_pos e); rewrite ldepths_cons in Hf; lia|].
          destruct (pick_num (pt e) (pts r) Hps) as [[Ep Hallu]|[Ep Hin]]; fold picked in Ep.
          + apply (ga_retype_num ET picked tes _ GA Hnum Hall).
            * intros x Hx. left. rewrite pts_cons in Hx. rewrite Ep. symmetry. now apply Hallu.
            * now left.
            * rewrite Ep. discriminate.
          + apply (ga_retype_num ET picked tes _ GA Hnum Hall).
            * intros x Hx. now right.
            * now right.
            * intros _. apply (neg_signed _ _ Hnum Hall). now rewrite pts_cons.
        - rewrite pts_cons in Huni. cbn [uniform] in Huni.
          assert (Ep : picked = pt e) by (unfold picked; now apply pick_uniform).
          exists tes. apply (ga_retype_same ET picked tes _ GA); [|lia].
          intros x Hx. rewrite pts_cons in Hx. rewrite Ep. destruct Hx as [<-|Hx]; [reflexivity|].
          rewrite forallb_forall in Huni. symmetry. apply cty_eqb_eq. now apply Huni. }
      destruct Hre as (tes'' & Ect & GA').
      pose proof (ga_len _ _ _ _ GA') as Hl''.
      assert (Hlen'' : lenN (map xexpr_of_uexpr (uls (LL.LsCons e r))) = LL.lits_len (LL.LsCons e r)).
      { apply uls_len. }
      inversion GA as [|te0 e0 tes0 r0 G0 GAr]; subst.
      inversion GA' as [|te1 e1 tes1 r1 G1 GAr']; subst.
      exists (TE (TArrayLiteral (te1 :: tes1)) (CArray picked (lenN (map xexpr_of_uexpr (uls (LL.LsCons e r)))))). split.
      + rewrite ul_array. cbn [check_expr]. rewrite Em. cbn [cbind fst snd]. rewrite Htys, pts_cons, (proj1 G0).
        fold picked. rewrite Ect. reflexivity.
      + rewrite pt_array, pts_cons. fold picked. rewrite Hlen''. destruct G1 as (_ & G14 & _).
        apply Good_intro.
        * reflexivity.
        * cbn [overwrite_ty]. now rewrite G14.
        * intros f' Hf'. rewrite ldepth_array in Hf'. destruct f' as [|f']; [lia|].
          cbn [constrain_type inner_of ty_of]. rewrite (ga_self _ _ _ _ GA' f') by lia.
          cbn [cbind overwrite_elem set_ty ty_of overwrite_ty]. now rewrite !overwrite_ty_idem.
        * intros f' Hf'. rewrite ldepth_array in Hf'. destruct f' as [|f']; [lia|].
          destruct (ga_fin _ _ _ _ GA' f' ltac:(lia)) as (tes' & E3 & E4).
          exists (TE (TArrayLiteral tes') (CArray ET (LL.lits_len (LL.LsCons e r)))). cbn [constrain_type inner_of ty_of]. rewrite E3.
          cbn [cbind overwrite_elem set_ty ty_of overwrite_ty]. rewrite G14, overwrite_ty_idem.
          split; [reflexivity|]. split; [reflexivity|]. rewrite into_array, E4. reflexivity.
        * discriminate.
    - (* tuple *) intros es [_ IHz] T Hok [|f] st Hf; [cbn in Hf; lia|]. rewrite ldepth_tuple in Hf.
      destruct T as [| | | |Ts| |]; try discriminate Hok. change (rt_zip es Ts = true) in Hok.
      destruct (IHz Ts Hok f st ltac:(lia)) as (tes & Em & GZ).
      pose proof (gz_tys _ _ _ GZ) as Htys.
      exists (TE (TTupleLiteral tes) (CTuple (map ty_of tes))). split.
      + rewrite ul_tuple. cbn [check_expr]. rewrite Em. reflexivity.
      + rewrite pt_tuple, Htys. apply Good_intro.
        * reflexivity.
        * rewrite overwrite_ty_tuple. now rewrite (gz_ow _ _ _ GZ).
        * intros f' Hf'. rewrite ldepth_tuple in Hf'. destruct f' as [|f']; [lia|].
          cbn [constrain_type inner_of ty_of].
          assert (Hl : lenN tes =? lenN (pts es) = true) by (rewrite <- Htys, lenN_map'; apply N.eqb_refl).
          rewrite Hl. rewrite (gz_self _ _ _ GZ f') by lia. cbn [cbind overwrite_fields set_ty ty_of].
          rewrite overwrite_zip_idem, overwrite_ty_tuple, overwrite_zip_idem. reflexivity.
        * intros f' Hf'. rewrite ldepth_tuple in Hf'. destruct f' as [|f']; [lia|].
          destruct (gz_fin _ _ _ GZ f' ltac:(lia)) as (tes' & E3 & E4).
          exists (TE (TTupleLiteral tes') (CTuple Ts)). cbn [constrain_type inner_of ty_of].
          rewrite (gz_len _ _ _ GZ), N.eqb_refl. rewrite E3. cbn [cbind overwrite_fields set_ty ty_of].
          rewrite (gz_ow _ _ _ GZ), overwrite_ty_tuple, overwrite_zip_idem.
          split; [reflexivity|]. split; [reflexivity|]. rewrite into_tuple, E4. reflexivity.
        * discriminate.
    - (* struct *) intros n fs IHf T Hok [|f] st Hf; [cbn in Hf; lia|].
      change (ldepth (LL.LStruct n fs)) with (S (ldepthf fs)) in Hf.
      destruct T as [| | | | |name|]; try discriminate Hok. cbn [rt_ok] in Hok.
      apply andb_prop in Hok as [Hok Hdef]. apply andb_prop in Hok as [Hnm _].
      destruct (name_ok_spec _ _ Hnm) as [Hu Hi].
      destruct (assocL name (d_structs D)) as [def|] eqn:Ed; [|discriminate Hdef].
      apply andb_prop in Hdef as [Hsorted Hfs].
      pose proof (rt_fields_names _ _ Hfs) as Hnames.
      assert (Hsort : sort_fields (ufields unintern fs) = ufields unintern fs)
        by (apply sort_fields_sorted; now rewrite Hnames).
      destruct (IHf def def [] f st Hfs Hsorted (fun k v Hin => assocL_distinct def k v Hsorted Hin)
                    (fun _ _ => eq_refl) ltac:(lia)) as (tfs & El & Ei).
      exists (TE (TStructLiteral name tfs) (CStruct name)). split.
      + change (xexpr_of_uexpr (ul (LL.LStruct n fs))) with
          (XStructLiteral (unintern n) (map (fun f0 : list N * uexpr => (fst f0, xexpr_of_uexpr (snd f0)))
                                            (sort_fields (ufields unintern fs)))).
        rewrite Hsort, Hu. fold (xfields fs). cbn [check_expr]. rewrite Ed, El. cbn [cbind fst snd].
        rewrite missing_field_same; [reflexivity|]. unfold xfields. rewrite map_map. cbn [fst]. exact Hnames.
      + change (pt (LL.LStruct n fs)) with (CStruct (unintern n)). rewrite Hu. apply Good_intro; try reflexivity.
        * intros [|f'] Hf'; [cbn in Hf'; lia|]. reflexivity.
        * intros [|f'] Hf'; [cbn in Hf'; lia|]. exists (TE (TStructLiteral name tfs) (CStruct name)).
          split; [reflexivity|]. split; [reflexivity|]. rewrite into_struct, Ei. cbn [cbind]. now rewrite Hi.
        * discriminate.
    - (* enum, unit *) intros n v T Hok [|f] st Hf; [cbn in Hf; lia|].
      destruct T as [| | | | | |name]; try discriminate Hok. cbn [rt_ok] in Hok.
      apply andb_prop in Hok as [Hok Hvs]. apply andb_prop in Hok as [Hnm _].
      destruct (name_ok_spec _ _ Hnm) as [Hu Hi].
      destruct (assocL name (d_enums D)) as [vs|] eqn:Ed; [|discriminate Hvs].
      destruct (assocL (unintern v) vs) as [[tys|]|] eqn:Ev; try discriminate Hvs. apply N.eqb_eq in Hvs.
      exists (TE (TEnumLiteral name (unintern v) None) (CEnum name)). split.
      + change (xexpr_of_uexpr (ul (LL.LEnumUnit n v))) with (XEnumLiteral (unintern n) (unintern v) None).
        rewrite Hu. cbn [check_expr]. rewrite Ed, Ev. reflexivity.
      + change (pt (LL.LEnumUnit n v)) with (CEnum (unintern n)). rewrite Hu. apply Good_intro; try reflexivity.
        * intros [|f'] Hf'; [cbn in Hf'; lia|]. reflexivity.
        * intros [|f'] Hf'; [cbn in Hf'; lia|]. exists (TE (TEnumLiteral name (unintern v) None) (CEnum name)).
          split; [reflexivity|]. split; [reflexivity|]. cbn [into_literal]. now rewrite Hi, Hvs.
        * discriminate.
    - (* enum, tuple *) intros n v es [_ IHz] T Hok [|f] st Hf; [cbn in Hf; lia|].
      change (ldepth (LL.LEnumTuple n v es)) with (S (ldepths es)) in Hf.
      destruct T as [| | | | | |name]; try discriminate Hok. cbn [rt_ok] in Hok.
      apply andb_prop in Hok as [Hok Hvs]. apply andb_prop in Hok as [Hnm _].
      destruct (name_ok_spec _ _ Hnm) as [Hu Hi].
      destruct (assocL name (d_enums D)) as [vs|] eqn:Ed; [|discriminate Hvs].
      destruct (assocL (unintern v) vs) as [[tys|]|] eqn:Ev; try discriminate Hvs.
      apply andb_prop in Hvs as [Hv Hzip]. apply N.eqb_eq in Hv.
      destruct (IHz tys Hzip f st ltac:(lia)) as (tes & Em & GZ).
      destruct (gz_check _ _ _ GZ f ltac:(lia)) as (exprs & Ez & Ei).
      exists (TE (TEnumLiteral name (unintern v) (Some exprs)) (CEnum name)). split.
      + change (xexpr_of_uexpr (ul (LL.LEnumTuple n v es))) with
          (XEnumLiteral (unintern n) (unintern v) (Some (map xexpr_of_uexpr (uls es)))).
        rewrite Hu. cbn [check_expr]. rewrite Ed, Ev.
        rewrite uls_len, <- (gz_len2 _ _ _ GZ), (gz_len _ _ _ GZ), N.eqb_refl. cbn [negb].
        rewrite Em. cbn [cbind fst snd]. rewrite Ez. reflexivity.
      + change (pt (LL.LEnumTuple n v es)) with (CEnum (unintern n)). rewrite Hu. apply Good_intro; try reflexivity.
        * intros [|f'] Hf'; [cbn in Hf'; lia|]. reflexivity.
        * intros [|f'] Hf'; [cbn in Hf'; lia|]. exists (TE (TEnumLiteral name (unintern v) (Some exprs)) (CEnum name)).
          split; [reflexivity|]. split; [reflexivity|]. rewrite into_enum, Ei. cbn [cbind]. now rewrite Hi, Hv.
        * discriminate.
    - (* range *) intros mn mx u T Hok [|f] st Hf; [cbn in Hf; lia|].
      destruct T as [| | |ET n| | |]; try discriminate Hok. destruct ET as [|u'| | | | |]; try discriminate Hok.
      cbn [rt_ok] in Hok. apply andb_prop in Hok as [Hok Hmax]. apply andb_prop in Hok as [Hok Hn].
      apply andb_prop in Hok as [Hok Hlt]. apply andb_prop in Hok as [Hu Hnu].
      assert (Eu : uty_of u' = u) by (destruct u', u; try discriminate Hu; reflexivity). subst u.
      apply N.eqb_eq in Hn. subst n. apply N.ltb_lt in Hlt. apply N.leb_le in Hmax.
      exists (TE (TRange mn mx u') (CArray (CUnsigned u') (mx - mn))). split.
      + change (xexpr_of_uexpr (ul (LL.LRange mn mx (uty_of u')))) with (XRange mn mx (unum_of (uty_of u'))).
        rewrite unum_uty. cbn [check_expr].
        assert ((mx <=? mn) = false) as -> by (apply N.leb_gt; exact Hlt).
        assert ((u32_max <? mx - mn) = false) as -> by (apply N.ltb_ge; exact Hmax). reflexivity.
      + change (pt (LL.LRange mn mx (uty_of u'))) with (CArray (CUnsigned (unum_of (uty_of u'))) (mx - mn)).
        rewrite unum_uty. apply Good_intro.
        * reflexivity.
        * apply overwrite_ty_idem.
        * (* the number type of a printed range is never Unspecified: the arm of constrain_type for
             unsuffixed ranges does not fire *)
          intros [|f'] Hf'; [cbn in Hf'; lia|].
          destruct u'; try discriminate Hnu; cbn [constrain_type inner_of ty_of cbind set_ty];
            now rewrite overwrite_ty_idem.
        * intros [|f'] Hf'; [cbn in Hf'; lia|]. exists (TE (TRange mn mx u') (CArray (CUnsigned u') (mx - mn))).
          destruct u'; try discriminate Hnu; cbn [constrain_type inner_of ty_of cbind set_ty];
            rewrite overwrite_ty_idem; (split; [reflexivity|]); split; reflexivity.
        * discriminate.
    - (* no elements *) split.
      + intros ET _ f st _. exists []. split; [reflexivity|constructor].
      + intros [|T Tr] Hok f st _; [|discriminate Hok]. exists []. split; [reflexivity|constructor].
    - (* one more element *) intros e IHe r [IHa IHz]. split.
      + intros ET Hok f st Hf. rewrite rt_all_cons in Hok. apply andb_prop in Hok as [Hoke Hokr].
        rewrite ldepths_cons in Hf.
        destruct (IHe ET Hoke f st ltac:(lia)) as (te & E1 & G1). destruct (IHa ET Hokr f st ltac:(lia)) as (tes & E2 & G2).
        exists (te :: tes). split; [|constructor; assumption].
        rewrite uls_cons, mapM_st_cons, E1. cbn [cbind fst snd]. rewrite E2. reflexivity.
      + intros [|T Tr] Hok f st Hf; [discriminate Hok|]. rewrite rt_zip_cons in Hok. apply andb_prop in Hok as [Hoke Hokr].
        rewrite ldepths_cons in Hf.
        destruct (IHe T Hoke f st ltac:(lia)) as (te & E1 & G1). destruct (IHz Tr Hokr f st ltac:(lia)) as (tes & E2 & G2).
        exists (te :: tes). split; [|constructor; assumption].
        rewrite uls_cons, mapM_st_cons, E1. cbn [cbind fst snd]. rewrite E2. reflexivity.
    - (* no more fields *) intros def_all [|d dr] seen f st Hok _ _ _ _; [|discriminate Hok].
      exists []. split; reflexivity.
    - (* one more field *) intros fn v IHv r IHr def_all [|[fname ft] dr] seen f st Hok Hs Hassoc Hseen Hf; [discriminate Hok|].
      rewrite rt_fields_cons in Hok. apply andb_prop in Hok as [Hok Hokr]. apply andb_prop in Hok as [Hnm Hokv].
      destruct (name_ok_spec _ _ Hnm) as [Hu Hi].
      change (ldepthf (LL.LFCons fn v r)) with (Nat.max (ldepth v) (ldepthf r)) in Hf.
      cbn [map fst] in Hs. rewrite names_ok_cons in Hs. apply andb_prop in Hs as [Hx Hsr].
      destruct (IHv ft Hokv f st ltac:(lia)) as (te & Ece & (_ & _ & _ & H4 & _)).
      destruct (H4 f ltac:(lia)) as (te' & E1 & E2 & E3).
      destruct (IHr def_all dr (fname :: seen) f st Hokr Hsr) as (tfs & El & Ei).
      { intros k t Hin. apply Hassoc. now right. }
      { intros k Hk. pose proof (Hseen k ltac:(cbn [map fst]; now right)) as Hk'. unfold memL in Hk' |- *.
        cbn [existsb]. rewrite Hk', orb_false_r.
        rewrite forallb_forall in Hx. specialize (Hx k Hk). apply andb_prop in Hx as [_ Hx].
        destruct (list_eqb k fname); [discriminate Hx|reflexivity]. }
      { lia. }
      exists ((fname, te') :: tfs). split.
      + unfold xfields. rewrite ufields_cons. cbn [map fst snd struct_lit_loop]. rewrite Hu.
        rewrite (Hseen fname) by (cbn [map fst]; now left).
        rewrite (Hassoc fname ft) by now left. rewrite Ece. cbn [cbind fst snd].
        unfold check_type. rewrite E1. cbn [cbind]. rewrite E2, cty_eqb_refl. cbn [cbind].
        fold (xfields r). rewrite El. reflexivity.
      + cbn [into_fields]. rewrite E3. cbn [cbind]. fold (into_fields intern). rewrite Ei. cbn [cbind]. now rewrite Hi.
  Qed.

  Lemma rt_ok_pok_mut :
    (forall l T, rt_ok l T = true -> pok unintern l = true) /\
    (forall es, (forall T, rt_all es T = true -> poks unintern es = true) /\
                (forall Ts, rt_zip es Ts = true -> poks unintern es = true)) /\
    (forall fs, forall def, rt_fields fs def = true -> pokf unintern fs = true).
  Proof.
    apply LiteralProofs.lit_mutind; try (intros; reflexivity).
    - intros e IH n T Hok. destruct T; try discriminate Hok. cbn [rt_ok] in Hok. apply andb_prop in Hok as [_ Hok].
      exact (IH _ Hok).
    - intros es [IHa _] T Hok. destruct T; try discriminate Hok. cbn [rt_ok] in Hok.
      destruct es as [|e r]; [discriminate Hok|]. cbn [andb] in Hok.
      apply andb_prop in Hok as [Hok _]. apply andb_prop in Hok as [_ Hok]. exact (IHa _ Hok).
    - intros es [_ IHz] T Hok. destruct T; try discriminate Hok. exact (IHz _ Hok).
    - (* struct *) intros n fs IHf T Hok. destruct T as [| | | | |name|]; try discriminate Hok. cbn [rt_ok] in Hok.
      apply andb_prop in Hok as [Hok Hdef]. apply andb_prop in Hok as [Hnm Hnb].
      destruct (name_ok_spec _ _ Hnm) as [Hu _].
      destruct (assocL name (d_structs D)) as [def|]; [|discriminate Hdef]. apply andb_prop in Hdef as [_ Hfs].
      change (not_bool_name (unintern n) && pokf unintern fs = true). rewrite Hu, Hnb, (IHf def Hfs). reflexivity.
    - (* enum, unit *) intros n v T Hok. destruct T as [| | | | | |name]; try discriminate Hok. cbn [rt_ok] in Hok.
      apply andb_prop in Hok as [Hok _]. apply andb_prop in Hok as [Hnm Hnb].
      destruct (name_ok_spec _ _ Hnm) as [Hu _].
      change (not_bool_name (unintern n) = true). now rewrite Hu.
    - (* enum, tuple *) intros n v es [_ IHz] T Hok. destruct T as [| | | | | |name]; try discriminate Hok. cbn [rt_ok] in Hok.
      apply andb_prop in Hok as [Hok Hvs]. apply andb_prop in Hok as [Hnm Hnb].
      destruct (name_ok_spec _ _ Hnm) as [Hu _].
      destruct (assocL name (d_enums D)) as [vs|]; [|discriminate Hvs].
      destruct (assocL (unintern v) vs) as [[tys|]|]; try discriminate Hvs. apply andb_prop in Hvs as [_ Hzip].
      change (not_bool_name (unintern n) && poks unintern es = true). rewrite Hu, Hnb, (IHz tys Hzip). reflexivity.
    - split; intros; reflexivity.
    - intros e IHe r [IHa IHz]. split.
      + intros T Hok. rewrite rt_all_cons in Hok. apply andb_prop in Hok as [H1 H2].
        rewrite poks_cons, (IHe _ H1), (IHa _ H2). reflexivity.
      + intros [|T Tr] Hok; [discriminate Hok|]. rewrite rt_zip_cons in Hok. apply andb_prop in Hok as [H1 H2].
        rewrite poks_cons, (IHe _ H1), (IHz _ H2). reflexivity.
    - intros f v IHv r IHr [|[fname ft] dr] H; [discriminate H|]. rewrite rt_fields_cons in H.
      apply andb_prop in H as [H Hr]. apply andb_prop in H as [_ Hv].
      rewrite pokf_cons, (IHv _ Hv), (IHr _ Hr). reflexivity.
  Qed.

  Notation ltk := (lit_tokens unintern).
  Notation mtk := (more_tokens unintern).

  Lemma ldepth_tokens_mut :
    (forall l, (ldepth l <= length (ltk l))%nat) /\
    (forall es, (ldepths es <= length (mtk es))%nat /\
                match es with LL.LsNil => True | LL.LsCons e r => (ldepths es <= length (ltk e ++ mtk r))%nat end) /\
    (forall fs, (ldepthf fs <= length (more_fields unintern fs))%nat /\
                match fs with LL.LFNil => True | LL.LFCons _ v r => (ldepthf fs <= length (ltk v ++ more_fields unintern r))%nat end).
  Proof.
    apply LiteralProofs.lit_mutind.
    - cbn. lia.
    - cbn. lia.
    - intros. cbn. lia.
    - intros. cbn. lia.
    - intros e IH n. rewrite ldepth_repeat, ltoks_repeat. cbn [length]. rewrite app_length. lia.
    - intros es [_ IH]. rewrite ldepth_array. destruct es as [|e r]; [cbn; lia|].
      rewrite ltoks_array. cbn [length]. rewrite app_length. cbn [length]. lia.
    - intros es [_ IH]. rewrite ldepth_tuple. destruct es as [|e r]; [cbn; lia|].
      destruct r as [|e2 r2].
      + rewrite ltoks_tuple1. cbn [length]. rewrite !app_length in *. cbn [length more_tokens] in *. lia.
      + rewrite ltoks_tuple2. cbn [length]. rewrite app_length. cbn [length]. lia.
    - intros name fs [_ IH]. change (ldepth (LL.LStruct name fs)) with (S (ldepthf fs)).
      destruct fs as [|f v r]; [cbn; lia|]. rewrite ltoks_struct. cbn [length]. rewrite app_length. cbn [length app]. lia.
    - intros. cbn. lia.
    - intros name v es [_ IH]. change (ldepth (LL.LEnumTuple name v es)) with (S (ldepths es)).
      destruct es as [|e r]; [cbn; lia|]. rewrite ltoks_enum. cbn [length]. rewrite app_length. cbn [length]. lia.
    - intros. cbn. lia.
    - split; [cbn; lia|exact I].
    - intros e IHe r [IHr _]. rewrite ldepths_cons, mtoks_cons. cbn [length]. rewrite !app_length. split; lia.
    - split; [cbn; lia|exact I].
    - intros f v IHv r [IHr _]. change (ldepthf (LL.LFCons f v r)) with (Nat.max (ldepth v) (ldepthf r)).
      rewrite ftoks_cons. cbn [length]. rewrite !app_length. split; lia.
  Qed.

  (* THE ROUND TRIP, over tokens: printing a value of the type T and parsing the tokens back as a T
     yields the value *)
  Theorem roundtrip l T : rt_ok l T = true ->
    literal_parse_tokens intern D T (lit_tokens unintern l) = COk l.
  Proof.
    intro Hok. unfold literal_parse_tokens.
    rewrite (parse_back unintern l (proj1 rt_ok_pok_mut l T Hok)).
    assert (Hf : (ldepth l <= lit_fuel (ltk l))%nat).
    { pose proof (proj1 ldepth_tokens_mut l). unfold lit_fuel. lia. }
    destruct (proj1 check_back_mut l T Hok (lit_fuel (ltk l)) st_new Hf) as (te & Ece & (_ & _ & _ & H4 & _)).
    rewrite Ece. cbn [cbind fst]. destruct (H4 _ Hf) as (te' & E1 & E2 & E3).
    unfold check_type. rewrite E1. cbn [cbind]. rewrite E2, cty_eqb_refl. cbn [cbind].
    destruct te' as [i t]. cbn [ty_of] in E2. subst t. exact E3.
  Qed.
End CheckBack.

Print Assumptions parse_back.
Print Assumptions roundtrip.

(* ------------------------------------------------------------------ through the TEXT: examples and findings *)

Module RoundTripExamples.
  Import LitExamples.
  Fixpoint unint_aux (fuel : nat) (n : N) (acc : list N) : list N :=
    match fuel with
    | O => acc
    | S f => if n <=? 1 then acc else unint_aux f (n / 256) (n mod 256 :: acc)
    end.
  (* the inverse of [ex_intern] *)
  Definition ex_unintern (n : N) : list N := unint_aux 40 n [].

  Definition toks_of (ts : list token) : list token_enum := map (fun t => match t with Token e _ => e end) ts.
  (* the scanner reads the printed text as the printed tokens *)
  Definition scans_as_printed (l : LL.lit) : bool :=
    match scan_text (lit_text ex_unintern l) with
    | Ok (STokens ts) =>
        if list_eq_dec token_enum_eq_dec (toks_of ts) (toks_of (lit_tokens ex_unintern l)) then true else false
    | _ => false
    end.
  (* prg.parse_arg(i, format!("{l}")) *)
  Definition back (i : N) (l : LL.lit) : cres LL.lit :=
    literal_parse_program ex_intern 50 P i (lit_text ex_unintern l).
  Definition run (cases : list (N * LL.lit)) : list (bool * cres LL.lit) :=
    map (fun il => (scans_as_printed (snd il), back (fst il) (snd il))) cases.
  Definition expect_back (cases : list (N * LL.lit)) : list (bool * cres LL.lit) :=
    map (fun il => (true, COk (snd il))) cases.
  Definition I8_ (z : Z) := LL.LSigned z LT.I8.
  Definition Sv (a : N) (b : bool) :=
    LL.LStruct S_ (LL.LFCons a_ (U a) (LL.LFCons b_ (if b then LL.LTrue else LL.LFalse) LL.LFNil)).

  Example rt_forms :
    let cases :=
      [ (2, LL.LTrue); (2, LL.LFalse); (0, U 0); (0, U 255); (1, I8_ (-128)); (1, I8_ 127); (1, I8_ 0);
        (11, LL.LUnsigned 18446744073709551615 LT.U64); (12, LL.LSigned (-9223372036854775808) LT.I64);
        (14, LL.LUnsigned 4294967295 LT.Usize);
        (3, LL.LTuple (ls [U 1; LL.LTrue])); (8, LL.LTuple LL.LsNil);
        (4, LL.LArray (ls [U 1; U 2; U 3])); (4, LL.LRepeat (U 7) 3); (4, LL.LRange 2 5 LT.U8);
        (9, LL.LArray (ls [I8_ 1; I8_ (-2); I8_ 3])); (9, LL.LRepeat (I8_ (-1)) 3);
        (5, Sv 1 true); (6, LL.LEnumUnit E_ A_); (6, LL.LEnumTuple E_ B_ (ls [U 1; LL.LSigned (-2) LT.I16]));
        (7, LL.LArray (ls [LL.LArray (ls [U 1; U 2]); LL.LRepeat (U 3) 2]));
        (7, LL.LArray (ls [LL.LRange 0 2 LT.U8; LL.LArray (ls [U 1; U 2])]));
        (13, LL.LArray (ls [LL.LTuple (ls [Sv 1 false; LL.LEnumUnit E_ A_]);
                            LL.LTuple (ls [Sv 2 true; LL.LEnumTuple E_ B_ (ls [U 3; LL.LSigned 4 LT.I16])])])) ] in
    run cases = expect_back cases.
  Proof. vm_compute. reflexivity. Qed.

  (* ---- literals that are of their type and do NOT come back *)
  Definition D0 : defs := mkDefs [] [] [] [] [] [].
  Definition typed (l : LL.lit) (ty : cty) : option bool := lit_is_of_type ex_intern D0 10 l ty.
  Definition reparse (l : LL.lit) (ty : cty) : cres LL.lit := literal_parse ex_intern D0 ty (lit_text ex_unintern l).
  Definition i8t := CSigned I8.
  Definition u8t := CUnsigned U8.

  (* 1. an array whose ELEMENTS are aggregates with a number that is negative in one element and
     not in another, at the same position: "[(1,), (-1,)]", "[[1], [-1]]", "[(1, -2), (-1, 2)]".
     check.rs types the elements one by one ((unsigned-unspecified,) and (signed-unspecified,)),
     takes the type of the FIRST element as the element type and then fails to constrain the
     other element to it (UnexpectedType).  (A flat array "[1, -1]" is accepted: for number
     elements check.rs looks for a more specific element type first.) *)
  Example mixed_sign_elements_refuted :
    let l1 := LL.LArray (ls [LL.LTuple (ls [I8_ 1]); LL.LTuple (ls [I8_ (-1)])]) in
    let l2 := LL.LArray (ls [LL.LArray (ls [I8_ 1]); LL.LArray (ls [I8_ (-1)])]) in
    let l3 := LL.LArray (ls [LL.LTuple (ls [I8_ 1; I8_ (-2)]); LL.LTuple (ls [I8_ (-1); I8_ 2])]) in
    (typed l1 (CArray (CTuple [i8t]) 2), reparse l1 (CArray (CTuple [i8t]) 2)) = (Some true, CErr E_UnexpectedType) /\
    (typed l2 (CArray (CArray i8t 1) 2), reparse l2 (CArray (CArray i8t 1) 2)) = (Some true, CErr E_UnexpectedType) /\
    (typed l3 (CArray (CTuple [i8t; i8t]) 2), reparse l3 (CArray (CTuple [i8t; i8t]) 2)) = (Some true, CErr E_UnexpectedType) /\
    lit_text ex_unintern l1 = codes "[(1,), (-1,)]" /\ lit_text ex_unintern l2 = codes "[[1], [-1]]" /\
    lit_text ex_unintern l3 = codes "[(1, -2), (-1, 2)]".
  Proof. repeat split; vm_compute; reflexivity. Qed.

  (* 2. the empty array (the value of every [T; 0], e.g. what from_unwrapped_bits returns for it)
     prints "[]", which is not a literal for the parser *)
  Example empty_array_refuted :
    (typed (LL.LArray LL.LsNil) (CArray u8t 0), reparse (LL.LArray LL.LsNil) (CArray u8t 0)) = (Some true, CErr E_ParseLiteral) /\
    lit_text ex_unintern (LL.LArray LL.LsNil) = codes "[]".
  Proof. split; vm_compute; reflexivity. Qed.

  (* 3. the empty range: of type [u8; 0] for is_of_type, InvalidRange for check.rs *)
  Example empty_range_refuted :
    (typed (LL.LRange 3 3 LT.U8) (CArray u8t 0), reparse (LL.LRange 3 3 LT.U8) (CArray u8t 0)) = (Some true, CErr E_InvalidRange) /\
    lit_text ex_unintern (LL.LRange 3 3 LT.U8) = codes "3u8..3u8".
  Proof. split; vm_compute; reflexivity. Qed.

  (* 4. a range that ends at max + 1 (0u8..256u8 = all of u8): of type [u8; 256], but the printed
     upper bound "256u8" is a scan error; the TOKENS would come back *)
  Example full_range_refuted :
    (typed (LL.LRange 0 256 LT.U8) (CArray u8t 256), reparse (LL.LRange 0 256 LT.U8) (CArray u8t 256)) = (Some true, CErr E_Scan) /\
    lit_text ex_unintern (LL.LRange 0 256 LT.U8) = codes "0u8..256u8" /\
    literal_parse_tokens ex_intern D0 (CArray u8t 256) (lit_tokens ex_unintern (LL.LRange 0 256 LT.U8)) = COk (LL.LRange 0 256 LT.U8).
  Proof. repeat split; vm_compute; reflexivity. Qed.

  (* 5. a range with more than u32::MAX elements: InvalidRange *)
  Example long_range_refuted :
    let l := LL.LRange 0 4294967296 LT.U64 in
    (typed l (CArray (CUnsigned U64) 4294967296), reparse l (CArray (CUnsigned U64) 4294967296)) = (Some true, CErr E_InvalidRange).
  Proof. vm_compute. reflexivity. Qed.

  Definition DSE : defs :=
    mkDefs [] [(nm "S", [(nm "a", u8t); (nm "b", CBool)])]
           [(nm "E", [(nm "A", None); (nm "B", Some [u8t; CSigned I16])])] [] [nm "S"] [nm "E"].

  (* ---- the class [rt_ok] of the theorem [roundtrip]: non-vacuity, and the refuted literals are outside *)
  Example rt_ok_covers :
    map (fun lt => rt_ok ex_intern ex_unintern D0 (fst lt) (snd lt))
      [ (LL.LTrue, CBool); (U 255, u8t); (I8_ (-128), i8t); (LL.LTuple LL.LsNil, CTuple []);
        (LL.LTuple (ls [U 1]), CTuple [u8t]); (LL.LTuple (ls [U 1; LL.LTrue; I8_ (-1)]), CTuple [u8t; CBool; i8t]);
        (LL.LArray (ls [I8_ 1; I8_ (-2); I8_ 3]), CArray i8t 3); (LL.LRepeat (I8_ (-1)) 3, CArray i8t 3);
        (LL.LRange 2 5 LT.U8, CArray u8t 3); (LL.LRange 0 256 LT.U8, CArray u8t 256);
        (LL.LArray (ls [LL.LArray (ls [U 1; U 2]); LL.LArray (ls [U 3; U 4])]), CArray (CArray u8t 2) 2);
        (LL.LArray (ls [LL.LTuple (ls [I8_ 1; I8_ (-2)]); LL.LTuple (ls [I8_ 3; I8_ (-4)])]), CArray (CTuple [i8t; i8t]) 2);
        (LL.LArray (ls [LL.LRepeat (U 0) 2; LL.LRepeat (U 1) 2]), CArray (CArray u8t 2) 2) ]
    = repeat true 13.
  Proof. vm_compute. reflexivity. Qed.

  (* struct S { a: u8, b: bool }  enum E { A, B(u8, i16) } *)
  Example rt_ok_covers_named :
    map (fun lt => rt_ok ex_intern ex_unintern DSE (fst lt) (snd lt))
      [ (Sv 1 true, CStruct (nm "S")); (LL.LEnumUnit E_ A_, CEnum (nm "E"));
        (LL.LEnumTuple E_ B_ (ls [U 3; LL.LSigned (-4) LT.I16]), CEnum (nm "E"));
        (LL.LArray (ls [LL.LTuple (ls [Sv 1 false; LL.LEnumUnit E_ A_]);
                        LL.LTuple (ls [Sv 2 true; LL.LEnumTuple E_ B_ (ls [U 3; LL.LSigned 4 LT.I16])])]),
         CArray (CTuple [CStruct (nm "S"); CEnum (nm "E")]) 2) ]
    = repeat true 4.
  Proof. vm_compute. reflexivity. Qed.

  Example rt_ok_excludes :
    map (fun lt => rt_ok ex_intern ex_unintern DSE (fst lt) (snd lt))
      [ (LL.LArray (ls [LL.LTuple (ls [I8_ 1]); LL.LTuple (ls [I8_ (-1)])]), CArray (CTuple [i8t]) 2);
        (LL.LArray LL.LsNil, CArray u8t 0); (LL.LRange 3 3 LT.U8, CArray u8t 0);
        (LL.LRange 0 4294967296 LT.U64, CArray (CUnsigned U64) 4294967296);
        (* a struct value whose fields are not in the order of the definition is not a value of the type *)
        (LL.LStruct S_ (LL.LFCons b_ LL.LTrue (LL.LFCons a_ (U 1) LL.LFNil)), CStruct (nm "S"));
        (LL.LEnumUnit E_ B_, CEnum (nm "E")) ]
    = repeat false 6.
  Proof. vm_compute. reflexivity. Qed.

  (* an instance of the theorem *)
  Example roundtrip_instance :
    let l := LL.LArray (ls [LL.LTuple (ls [I8_ 1; I8_ (-2)]); LL.LTuple (ls [I8_ 3; I8_ (-4)])]) in
    literal_parse_tokens ex_intern D0 (CArray (CTuple [i8t; i8t]) 2) (lit_tokens ex_unintern l) = COk l.
  Proof. intro l. apply roundtrip. vm_compute. reflexivity. Qed.
  Example roundtrip_instance_named :
    let l := LL.LTuple (ls [Sv 2 true; LL.LEnumTuple E_ B_ (ls [U 3; LL.LSigned (-4) LT.I16])]) in
    literal_parse_tokens ex_intern DSE (CTuple [CStruct (nm "S"); CEnum (nm "E")]) (lit_tokens ex_unintern l) = COk l.
  Proof. intro l. apply roundtrip. vm_compute. reflexivity. Qed.
End RoundTripExamples.
