(* C05, first sentence, FROM THE UNTYPED PROGRAM: a program of the proved fragment that the checker
   accepts compiles (model of the compiler, Compile/Lower.v) to a circuit that validates, has the input
   gates of main's parameters, 161 + size(return type) output gates, and evaluates on every input of
   these sizes -- to the output the bit-level semantics [tsem_program] prescribes.
   Composition of Check/InferSafe.check_safe_fragment (checker output => TSemSafe.safe_program_ok) with
   Compile/TSemTotal.lower_program_total. *)
From Coq Require Import Lia ZArith List.
From GV Require Import Base.Util Front.Scan Front.ParseExpr Check.UAst Check.Infer Check.InferProofs Check.InferSound Check.InferSafe.
From GV Require Import Lang.Ast Lang.Wt Lang.ValTy Circuit.Ssa Builder.Builder Panic.PanicRec Panic.PanicSem
  Compile.Lower Compile.TSem Compile.LowerSound Compile.TSemSafe Compile.TSemTotal Compile.EndToEnd.
From GV Require Lang.Sem.
Import ListNotations.
Local Open Scope N_scope.

Section Compile.
Variable intern : list N -> N.
Hypothesis intern_inj : forall a b, intern a = intern b -> a = b.

Theorem accepted_programs_compile_to_valid_circuits fuel P P' fuel' dedup :
  (* the premises of check_safe_fragment *)
  in_sound_fragment P = true -> structs_sorted P = true -> sp_program P = true -> main_declared P = true ->
  (fuel <= S Wt.wt_fuel)%nat -> check_program intern fuel P = COk P' -> tys_program P' = true ->
  (* the compiler side: parameter types within the wiring depth, enough fuel, the gate bound *)
  params_ok P' = true -> fuel_enough fuel' P' = true -> within_gate_bound fuel' dedup P' = true ->
  exists c fd,
    lower_program_with fuel' dedup P' = Ok (LCircuit c) /\
    find_fn P' (p_main P') = Some fd /\
    ssa_validate c = None /\
    input_gates c = fst (main_wiring P') /\
    length (output_gates c) = (161 + szn P' (fn_ret fd))%nat /\
    forall ins inp,
      load_inputs (input_gates c) ins = Some inp ->
      exists o vouts out,
        tsem_program fuel' P' (main_args P' inp) = Ok (o, vouts) /\
        length vouts = szn P' (fn_ret fd) /\
        ssa_eval c ins = Some out /\
        parse_panic out = parse_spec o vouts /\
        (o = None -> skipn 161 out = vouts).
Proof.
  intros H1 H2 H3 H4 H5 H6 H7 Hpar Hfuel Hgb.
  pose proof (check_safe_fragment intern intern_inj fuel P P' H1 H2 H3 H4 H5 H6 H7) as Hsafe.
  unfold fuel_enough in Hfuel. apply andb_prop in Hfuel. destruct Hfuel as [Hn Hcap].
  apply Nat.leb_le in Hn. apply Nat.leb_le in Hcap.
  destruct (within_gate_bound_spec fuel' dedup P' Hgb) as (s & outs & Hmain & Hmax).
  destruct (lower_program_total fuel' dedup P' s outs Hsafe Hpar Hcap Hn Hmain Hmax)
    as (fd & igs & bindings & Efd & Epw & H).
  assert (Hw : main_wiring P' = (igs, bindings)) by (unfold main_wiring; now rewrite Efd).
  destruct (load_inputs_zeros igs) as [inp0 Hl0].
  destruct (H _ _ Hl0) as (o0 & vouts0 & c & out0 & _ & Hlen0 & Hc & Hv & Hig & Hog & _).
  exists c, fd. split; [exact Hc|]. split; [exact Efd|]. split; [exact Hv|]. split; [now rewrite Hw|].
  split; [rewrite Hog, Hlen0; reflexivity|].
  intros ins inp Hload. rewrite Hig in Hload.
  destruct (H ins inp Hload) as (o & vouts & c' & out & Ht & Hlen & Hc' & _ & _ & _ & Hev & Hpp & Hsk).
  rewrite Hc in Hc'. injection Hc' as <-.
  exists o, vouts, out. unfold main_args. rewrite Hw. cbn [snd]. auto.
Qed.
End Compile.
Print Assumptions accepted_programs_compile_to_valid_circuits.

(* ---------------------------------------------------------------- the premises are satisfiable;
   params_ok is NOT implied by the others *)
From GV Require Check.InferExamples.
Module CompileExamples.
Import InferExamples SafeExamples. Import String. Local Open Scope string_scope. Local Open Scope N_scope.

Definition all_premises (fuel' : nat) (P : uprogram) : bool :=
  all_hyps P &&
  match check_program ex_intern 50 P with
  | COk P' => params_ok P' && fuel_enough fuel' P' && within_gate_bound fuel' true P' && within_gate_bound fuel' false P'
  | _ => false
  end.

Example premises_satisfiable : forallb (all_premises 100) [P_loop; P_ops; P_const; P_all] = true.
Proof. vm_compute. reflexivity. Qed.

(* a parameter type nested deeper than Sem.ty_fuel = 40 (never used in the body): accepted, every premise
   of check_safe_fragment holds, safe_program_ok holds, params_ok does not *)
Fixpoint nest (n : nat) (t : utype) : utype := match n with O => t | S n' => UTTuple [nest n' t] end.
Definition P_deep_param := mkUProgram [] [] []
  [main_fn [px "x" u8; px "d" (nest 40 u8)] u8 [XSExpr (id_ "x")]] (nm "main").
Example params_ok_independent :
  all_hyps P_deep_param = true /\
  match check_program ex_intern 50 P_deep_param with
  | COk P' => safe_program_ok P' = true /\ params_ok P' = false
  | _ => False
  end.
Proof. vm_compute. repeat split; reflexivity. Qed.
End CompileExamples.
