From Coq Require Import Lia Bool List Permutation NArith Sorted.
From GV Require Import Base.Util Front.Scan Front.ParseExpr.
Import ListNotations.
Local Open Scope N_scope.

(* ------------------------------------------------------------------ *)
(* 1. name_ltb is a strict total order on list N                       *)
(* ------------------------------------------------------------------ *)

Lemma name_ltb_irrefl (a : list N) : name_ltb a a = false.
Proof.
  induction a as [|x a IH]; cbn [name_ltb]; [reflexivity|].
  rewrite IH, N.ltb_irrefl, andb_false_r. reflexivity.
Qed.

Lemma name_ltb_trans (a b c : list N) :
  name_ltb a b = true -> name_ltb b c = true -> name_ltb a c = true.
Proof.
  revert b c. induction a as [|x a IH]; intros b c Hab Hbc.
  - destruct b as [|y b]; cbn [name_ltb] in Hab; [discriminate|].
    destruct c as [|z c]; cbn [name_ltb] in Hbc; [discriminate|]. reflexivity.
  - destruct b as [|y b]; cbn [name_ltb] in Hab; [discriminate|].
    destruct c as [|z c]; cbn [name_ltb] in Hbc; [discriminate|].
    cbn [name_ltb].
    apply orb_true_iff in Hab. apply orb_true_iff in Hbc. apply orb_true_iff.
    destruct Hab as [Hxy|Hxy]; destruct Hbc as [Hyz|Hyz].
    + left. apply N.ltb_lt in Hxy. apply N.ltb_lt in Hyz. apply N.ltb_lt. lia.
    + apply andb_true_iff in Hyz. destruct Hyz as [Hyz _].
      apply N.eqb_eq in Hyz. subst z. left. exact Hxy.
    + apply andb_true_iff in Hxy. destruct Hxy as [Hxy _].
      apply N.eqb_eq in Hxy. subst y. left. exact Hyz.
    + apply andb_true_iff in Hxy. destruct Hxy as [Hxy Hab].
      apply andb_true_iff in Hyz. destruct Hyz as [Hyz Hbc].
      apply N.eqb_eq in Hxy. apply N.eqb_eq in Hyz. subst y. subst z.
      right. rewrite N.eqb_refl. cbn [andb]. exact (IH b c Hab Hbc).
Qed.

Lemma name_ltb_trich (a b : list N) :
  name_ltb a b = false -> name_ltb b a = false -> a = b.
Proof.
  revert b. induction a as [|x a IH]; intros b Hab Hba.
  - destruct b as [|y b]; [reflexivity|]. cbn [name_ltb] in Hab. discriminate.
  - destruct b as [|y b]; cbn [name_ltb] in Hba; [discriminate|].
    cbn [name_ltb] in Hab.
    apply orb_false_iff in Hab. destruct Hab as [Hxy Hab].
    apply orb_false_iff in Hba. destruct Hba as [Hyx Hba].
    apply N.ltb_ge in Hxy. apply N.ltb_ge in Hyx.
    assert (Heq : x = y) by lia. subst y.
    rewrite N.eqb_refl in Hab, Hba. cbn [andb] in Hab, Hba.
    f_equal. exact (IH b Hab Hba).
Qed.

Lemma name_ltb_asym (a b : list N) :
  name_ltb a b = true -> name_ltb b a = false.
Proof.
  intros Hab. destruct (name_ltb b a) eqn:Hba; [|reflexivity].
  pose proof (name_ltb_trans a b a Hab Hba) as Haa.
  rewrite name_ltb_irrefl in Haa. discriminate.
Qed.

(* ------------------------------------------------------------------ *)
(* 2. strictly sorted lists of fields                                  *)
(* ------------------------------------------------------------------ *)

Definition field_lt {A} (f g : list N * A) : Prop := name_ltb (fst f) (fst g) = true.

Definition fields_sorted {A} (l : list (list N * A)) : Prop :=
  StronglySorted field_lt l.

Lemma insert_field_Permutation {A} (f : list N * A) (l : list (list N * A)) :
  Permutation (insert_field f l) (f :: l).
Proof.
  induction l as [|g r IH]; cbn [insert_field]; [apply Permutation_refl|].
  destruct (name_ltb (fst f) (fst g)); [apply Permutation_refl|].
  eapply Permutation_trans; [apply perm_skip; exact IH|]. apply perm_swap.
Qed.

Lemma insert_field_sorted {A} (f : list N * A) (l : list (list N * A)) :
  fields_sorted l -> ~ In (fst f) (map fst l) -> fields_sorted (insert_field f l).
Proof.
  unfold fields_sorted.
  induction l as [|g r IH]; intros Hs Hnin; cbn [insert_field].
  - constructor; constructor.
  - inversion Hs as [|g0 r0 Hsr Hall]; subst g0 r0.
    destruct (name_ltb (fst f) (fst g)) eqn:Hfg.
    + constructor; [exact Hs|].
      constructor; [exact Hfg|].
      rewrite Forall_forall in Hall. apply Forall_forall. intros h Hh.
      unfold field_lt in *. eapply name_ltb_trans; [exact Hfg|]. exact (Hall h Hh).
    + cbn [map In] in Hnin.
      constructor.
      * apply IH; [exact Hsr|]. intros Hin. apply Hnin. right. exact Hin.
      * eapply Permutation_Forall; [apply Permutation_sym, insert_field_Permutation|].
        constructor; [|exact Hall].
        unfold field_lt. destruct (name_ltb (fst g) (fst f)) eqn:Hgf; [reflexivity|].
        exfalso. apply Hnin. left. symmetry. exact (name_ltb_trich _ _ Hfg Hgf).
Qed.

Lemma fold_insert_Permutation {A} (l acc : list (list N * A)) :
  Permutation (fold_left (fun acc f => insert_field f acc) l acc) (l ++ acc).
Proof.
  revert acc. induction l as [|f l IH]; intros acc; cbn [fold_left app].
  - apply Permutation_refl.
  - eapply Permutation_trans; [apply IH|].
    eapply Permutation_trans; [apply Permutation_app_head, insert_field_Permutation|].
    apply Permutation_sym, Permutation_middle.
Qed.

Lemma sort_fields_Permutation {A} (l : list (list N * A)) :
  Permutation (sort_fields l) l.
Proof.
  unfold sort_fields.
  eapply Permutation_trans; [apply fold_insert_Permutation|].
  rewrite app_nil_r. apply Permutation_refl.
Qed.

Lemma fold_insert_sorted {A} (l acc : list (list N * A)) :
  fields_sorted acc -> NoDup (map fst (l ++ acc)) ->
  fields_sorted (fold_left (fun acc f => insert_field f acc) l acc).
Proof.
  revert acc. induction l as [|f l IH]; intros acc Hs Hnd; cbn [fold_left].
  - exact Hs.
  - cbn [app map] in Hnd. inversion Hnd as [|k ks Hnin Hnd']; subst k ks.
    apply IH.
    + apply insert_field_sorted; [exact Hs|].
      intros Hin. apply Hnin. rewrite map_app. apply in_or_app. right. exact Hin.
    + eapply Permutation_NoDup; [|exact Hnd].
      change (fst f :: map fst (l ++ acc)) with (map fst (f :: l ++ acc)).
      apply Permutation_map.
      eapply Permutation_trans; [apply Permutation_middle|].
      apply Permutation_app_head, Permutation_sym, insert_field_Permutation.
Qed.

Lemma sort_fields_sorted {A} (l : list (list N * A)) :
  NoDup (map fst l) -> fields_sorted (sort_fields l).
Proof.
  intros Hnd. unfold sort_fields. apply fold_insert_sorted.
  - constructor.
  - rewrite app_nil_r. exact Hnd.
Qed.

(* ------------------------------------------------------------------ *)
(* 3. strictly sorted permutations are equal                           *)
(* ------------------------------------------------------------------ *)

Lemma sorted_perm_eq {A} (l1 l2 : list (list N * A)) :
  fields_sorted l1 -> fields_sorted l2 -> Permutation l1 l2 -> l1 = l2.
Proof.
  unfold fields_sorted. revert l2.
  induction l1 as [|a r1 IH]; intros l2 Hs1 Hs2 Hp.
  - apply Permutation_nil in Hp. symmetry. exact Hp.
  - destruct l2 as [|b r2].
    + apply Permutation_sym, Permutation_nil in Hp. discriminate.
    + inversion Hs1 as [|a0 r0 Hsr1 Hall1]; subst a0 r0.
      inversion Hs2 as [|b0 r0 Hsr2 Hall2]; subst b0 r0.
      rewrite Forall_forall in Hall1, Hall2.
      assert (Hab : a = b).
      { assert (Ha : In a (b :: r2)).
        { eapply Permutation_in; [exact Hp|]. left. reflexivity. }
        assert (Hb : In b (a :: r1)).
        { eapply Permutation_in; [apply Permutation_sym; exact Hp|]. left. reflexivity. }
        destruct Ha as [Ha|Ha]; [symmetry; exact Ha|].
        destruct Hb as [Hb|Hb]; [exact Hb|].
        pose proof (Hall2 a Ha) as Hba. pose proof (Hall1 b Hb) as Hab.
        unfold field_lt in Hba, Hab.
        rewrite (name_ltb_asym _ _ Hab) in Hba. discriminate. }
      subst b. f_equal.
      apply IH; [exact Hsr1|exact Hsr2|].
      eapply Permutation_cons_inv. exact Hp.
Qed.

(* ------------------------------------------------------------------ *)
(* 4. main theorem                                                     *)
(* ------------------------------------------------------------------ *)

Theorem sort_fields_perm {A} (l l' : list (list N * A)) :
  Permutation l l' -> NoDup (map fst l) -> sort_fields l = sort_fields l'.
Proof.
  intros Hp Hnd.
  assert (Hnd' : NoDup (map fst l')).
  { eapply Permutation_NoDup; [apply Permutation_map; exact Hp|exact Hnd]. }
  apply sorted_perm_eq.
  - apply sort_fields_sorted. exact Hnd.
  - apply sort_fields_sorted. exact Hnd'.
  - eapply Permutation_trans; [apply sort_fields_Permutation|].
    eapply Permutation_trans; [exact Hp|].
    apply Permutation_sym, sort_fields_Permutation.
Qed.

Print Assumptions sort_fields_perm.
