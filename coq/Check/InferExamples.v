(* Non-vacuity of Check/Infer.v: accepted programs of every stage (with the typed tree) and one
   program per error kind, all by vm_compute. *)
From GV Require Import Base.Util Front.Scan Front.ParseExpr Check.UAst Check.Infer.
From GV Require Lang.Ast Lang.Wt.
From Coq Require Import String.
Local Open Scope N_scope.

(* an injective interning function for the examples: the byte string read as a base-256 number
   with a leading 1 *)
Definition ex_intern (s : list N) : N := fold_left (fun a c => a * 256 + c) s 1.

Definition nm (s : string) : list N := codes s.
Definition u8 := UTUnsigned U8.
Definition n_ (n : N) := XNumUnsigned n UnspecifiedU.
Definition id_ (s : string) := XIdentifier (nm s).
Definition pid (s : string) := PIdentifier (nm s).

Definition main_fn (params : list uparam) (ret : utype) (body : list xstmt) : ufndef :=
  mkUFn true (nm "main") ret params body.
Definition prog1 (params : list uparam) (ret : utype) (body : list xstmt) : uprogram :=
  mkUProgram [] [] [] [main_fn params ret body] (nm "main").
Definition px (s : string) (t : utype) := mkUParam false (nm s) t.

Definition run (P : uprogram) := check_program_t ex_intern 50 P.
Definition code_of {A} (r : cres A) : option N := match r with CErr c => Some c | _ => None end.
Definition main_body (r : cres tprogram) : list tstmt :=
  match r with
  | COk T => match tp_fns T with (_, d) :: _ => tf_body d | [] => [] end
  | _ => []
  end.

Definition wt_of (P : uprogram) : option bool :=
  match check_program ex_intern 50 P with COk P' => Some (Wt.wt_program P') | _ => None end.

(* ================================================================== S1, accepted *)

(* pub fn main(x: u8) -> u8 { let mut s = 0u8; for i in 0u8..10u8 { s = s + i; } s + x } *)
Definition P_loop := prog1 [px "x" u8] u8
  [XSLetMut (nm "s") None (XNumUnsigned 0 U8);
   XSForEach (pid "i") (XRange 0 10 U8) [XSVarAssign (nm "s") [] (XOp BAdd (id_ "s") (id_ "i"))];
   XSExpr (XOp BAdd (id_ "s") (id_ "x"))].
Example loop_typed :
  main_body (run P_loop) =
  [TSLetMut (nm "s") (TE (TNumUnsigned 0 U8) (CUnsigned U8));
   TSForEach (TP (TPIdentifier (nm "i")) (CUnsigned U8))
     (TE (TRange 0 10 U8) (CArray (CUnsigned U8) 10))
     [TSVarAssign (nm "s") []
        (TE (TOp BAdd (TE (TIdentifier (nm "s")) (CUnsigned U8)) (TE (TIdentifier (nm "i")) (CUnsigned U8)))
            (CUnsigned U8))];
   TSExpr (TE (TOp BAdd (TE (TIdentifier (nm "s")) (CUnsigned U8)) (TE (TIdentifier (nm "x")) (CUnsigned U8)))
              (CUnsigned U8))].
Proof. vm_compute. reflexivity. Qed.
Example loop_wt : wt_of P_loop = Some true.
Proof. vm_compute. reflexivity. Qed.

(* literal inference: pub fn main(x: u8) -> u8 { 1 + 2 + x }  (the return check_type reaches the literals) *)
Definition P_lit := prog1 [px "x" u8] u8 [XSExpr (XOp BAdd (XOp BAdd (n_ 1) (n_ 2)) (id_ "x"))].
Example lit_typed :
  main_body (run P_lit) =
  [TSExpr (TE (TOp BAdd
     (TE (TOp BAdd (TE (TNumUnsigned 1 UnspecifiedU) (CUnsigned U8)) (TE (TNumUnsigned 2 UnspecifiedU) (CUnsigned U8)))
         (CUnsigned U8))
     (TE (TIdentifier (nm "x")) (CUnsigned U8))) (CUnsigned U8))].
Proof. vm_compute. reflexivity. Qed.
Example lit_wt : wt_of P_lit = Some true.
Proof. vm_compute. reflexivity. Qed.

(* let mut defaults to i32: pub fn main(x: i32) -> i32 { let mut a = (1, [2, 3]); a.1[0usize] = 7; a.0 + a.1[1usize] + x } *)
Definition P_i32 := prog1 [px "x" (UTSigned I32)] (UTSigned I32)
  [XSLetMut (nm "a") None (XTupleLiteral [n_ 1; XArrayLiteral [n_ 2; n_ 3]]);
   XSVarAssign (nm "a") [XATuple 1; XAArray (XNumUnsigned 0 Usize)] (n_ 7);
   XSExpr (XOp BAdd (XOp BAdd (XTupleAccess (id_ "a") 0)
                              (XArrayAccess (XTupleAccess (id_ "a") 1) (XNumUnsigned 1 Usize)))
                    (id_ "x"))].
Example i32_typed :
  let ta := CTuple [CSigned I32; CArray (CUnsigned UnspecifiedU) 2] in
  main_body (run P_i32) =
  [TSLetMut (nm "a")
     (TE (TTupleLiteral
            [TE (TNumUnsigned 1 UnspecifiedU) (CSigned I32);
             TE (TArrayLiteral [TE (TNumUnsigned 2 UnspecifiedU) (CSigned I32);
                                TE (TNumUnsigned 3 UnspecifiedU) (CSigned I32)]) (CArray (CSigned I32) 2)])
         ta);    (* constrain_to_i32 rewrites only the TOP-LEVEL components of the binding's type *)
   TSVarAssign (nm "a")
     [TATuple ta 1;
      TAArray (CArray (CUnsigned UnspecifiedU) 2) (TE (TNumUnsigned 0 Usize) (CUnsigned Usize))]
     (TE (TNumUnsigned 7 UnspecifiedU) (CUnsigned UnspecifiedU));
   TSExpr
     (TE (TOp BAdd
        (TE (TOp BAdd
           (TE (TTupleAccess (TE (TIdentifier (nm "a")) ta) 0) (CSigned I32))
           (TE (TArrayAccess
                  (TE (TTupleAccess (TE (TIdentifier (nm "a")) ta) 1) (CArray (CUnsigned UnspecifiedU) 2))
                  (TE (TNumUnsigned 1 Usize) (CUnsigned Usize))) (CSigned I32)))
           (CSigned I32))
        (TE (TIdentifier (nm "x")) (CSigned I32))) (CSigned I32))].
Proof. vm_compute. reflexivity. Qed.
Example i32_wt : wt_of P_i32 = Some true.
Proof. vm_compute. reflexivity. Qed.

(* operators, casts, if / else, blocks:
   pub fn main(x: u8, b: bool) -> u16 { let y = if b && (x > 3u8) { x << 1u8 } else { !x }; { (y as u16) ^ 1u16 } } *)
Definition P_ops := prog1 [px "x" u8; px "b" UTBool] (UTUnsigned U16)
  [XSLet (pid "y") None
     (XIf (XOp BShortCircuitAnd (id_ "b") (XOp BGreaterThan (id_ "x") (XNumUnsigned 3 U8)))
          (XBlock [XSExpr (XOp BShiftLeft (id_ "x") (XNumUnsigned 1 U8))])
          (XBlock [XSExpr (XUnaryOp UoNot (id_ "x"))]));
   XSExpr (XBlock [XSExpr (XOp BBitXor (XCast (UTUnsigned U16) (id_ "y")) (XNumUnsigned 1 U16))])].
Example ops_ok : is_ok (run P_ops) = true /\ wt_of P_ops = Some true.
Proof. vm_compute. split; reflexivity. Qed.

(* ================================================================== S1, the recorded defects *)

(* pub fn main(x: u8) -> u8 { let y = 1 + 2; y + x }: ACCEPTED, `y` (32 wires) is re-typed u8 at its use *)
Definition P_retype := prog1 [px "x" u8] u8
  [XSLet (pid "y") None (XOp BAdd (n_ 1) (n_ 2)); XSExpr (XOp BAdd (id_ "y") (id_ "x"))].
Example retype_typed :
  main_body (run P_retype) =
  [TSLet (TP (TPIdentifier (nm "y")) (CUnsigned UnspecifiedU))
     (TE (TOp BAdd (TE (TNumUnsigned 1 UnspecifiedU) (CUnsigned UnspecifiedU))
                   (TE (TNumUnsigned 2 UnspecifiedU) (CUnsigned UnspecifiedU))) (CUnsigned UnspecifiedU));
   TSExpr (TE (TOp BAdd (TE (TIdentifier (nm "y")) (CUnsigned U8)) (TE (TIdentifier (nm "x")) (CUnsigned U8)))
              (CUnsigned U8))].
Proof. vm_compute. reflexivity. Qed.
Example retype_not_wt : wt_of P_retype = Some false.
Proof. vm_compute. reflexivity. Qed.

(* pub fn main(x: u8) -> u8 { let y = 1 + 2 + x; y }: before fix 64720dd unify re-typed only the node `1 + 2`
   (its literals stayed 32 bits wide, the compiled circuit had 32 output wires); now the compound operand is
   constrained deeply and the tree is well typed *)
Definition P_retype2 := prog1 [px "x" u8] u8
  [XSLet (pid "y") None (XOp BAdd (XOp BAdd (n_ 1) (n_ 2)) (id_ "x")); XSExpr (id_ "y")].
Example retype2_now_wt : is_ok (run P_retype2) = true /\ wt_of P_retype2 = Some true.
Proof. vm_compute. split; reflexivity. Qed.

(* pub fn main(x: u8) -> u8 { let z = [1, 2, 3][0] + x; z }: ACCEPTED; the access node is re-typed u8 over an
   array of 32-bit elements (the real compiler returns x, not x + 1) *)
Definition P_retype3 := prog1 [px "x" u8] u8
  [XSLet (pid "z") None
     (XOp BAdd (XArrayAccess (XArrayLiteral [n_ 1; n_ 2; n_ 3]) (XNumUnsigned 0 Usize)) (id_ "x"));
   XSExpr (id_ "z")].
Example retype3_not_wt : is_ok (run P_retype3) = true /\ wt_of P_retype3 = Some false.
Proof. vm_compute. split; reflexivity. Qed.

(* pub fn main(x: u8) -> u8 { let y = 5000000000; x }: ACCEPTED; an immutable `let` never defaults the
   literal to i32, so its range is never checked *)
Definition P_big := prog1 [px "x" u8] u8 [XSLet (pid "y") None (n_ 5000000000); XSExpr (id_ "x")].
Example big_not_wt : is_ok (run P_big) = true /\ wt_of P_big = Some false.
Proof. vm_compute. split; reflexivity. Qed.
(* ... while `let mut y = 5000000000;` is rejected *)
Example big_mut_rejected :
  code_of (run (prog1 [px "x" u8] u8 [XSLetMut (nm "y") None (n_ 5000000000); XSExpr (id_ "x")]))
  = Some E_UnexpectedType.
Proof. vm_compute. reflexivity. Qed.

(* ================================================================== S2 *)

(* fn inc(a: u8) -> u8 { a + 1 }  pub fn main(x: u8) -> u8 { inc(inc(x)) } *)
Definition f_inc := mkUFn false (nm "inc") u8 [px "a" u8] [XSExpr (XOp BAdd (id_ "a") (n_ 1))].
Definition P_call := mkUProgram [] [] []
  [main_fn [px "x" u8] u8 [XSExpr (XFnCall (nm "inc") [XFnCall (nm "inc") [id_ "x"]])]; f_inc] (nm "main").
Example call_typed :
  match run P_call with
  | COk T => map fst (tp_fns T) = [nm "main"; nm "inc"] /\ main_body (COk T) =
      [TSExpr (TE (TFnCall (nm "inc") [TE (TFnCall (nm "inc") [TE (TIdentifier (nm "x")) (CUnsigned U8)]) (CUnsigned U8)])
                  (CUnsigned U8))]
  | _ => False
  end.
Proof. vm_compute. split; reflexivity. Qed.
Example call_wt : wt_of P_call = Some true.
Proof. vm_compute. reflexivity. Qed.

Definition P_with (fns : list ufndef) := mkUProgram [] [] [] fns (nm "main").
Example unknown_fn : code_of (run (prog1 [px "x" u8] u8 [XSExpr (XFnCall (nm "g") [id_ "x"])])) = Some E_UnknownIdentifier.
Proof. vm_compute. reflexivity. Qed.
Example wrong_arity :
  code_of (run (P_with [main_fn [px "x" u8] u8 [XSExpr (XFnCall (nm "inc") [id_ "x"; id_ "x"])]; f_inc])) = Some E_WrongNumberOfArgs.
Proof. vm_compute. reflexivity. Qed.
Example wrong_arg_type :
  code_of (run (P_with [main_fn [px "x" u8] u8 [XSExpr (XFnCall (nm "inc") [XTrue])]; f_inc])) = Some E_UnexpectedType.
Proof. vm_compute. reflexivity. Qed.
Example recursion_rejected :
  code_of (run (P_with [main_fn [px "x" u8] u8 [XSExpr (XFnCall (nm "r") [id_ "x"])];
                        mkUFn false (nm "r") u8 [px "a" u8] [XSExpr (XFnCall (nm "r") [id_ "a"])]])) = Some E_RecursiveFnDef.
Proof. vm_compute. reflexivity. Qed.
Example unused_fn : code_of (run (P_with [main_fn [px "x" u8] u8 [XSExpr (id_ "x")]; f_inc])) = Some E_UnusedFn.
Proof. vm_compute. reflexivity. Qed.
Example pub_without_params : code_of (run (prog1 [] u8 [XSExpr (XNumUnsigned 1 U8)])) = Some E_PubFnWithoutParams.
Proof. vm_compute. reflexivity. Qed.
Example local_shadows_fn :
  code_of (run (P_with [main_fn [px "inc" u8] u8 [XSExpr (XFnCall (nm "inc") [id_ "inc"])]; f_inc])) = Some E_NoTopLevelFn.
Proof. vm_compute. reflexivity. Qed.
Example duplicate_param : code_of (run (prog1 [px "x" u8; px "x" u8] u8 [XSExpr (id_ "x")])) = Some E_DuplicateFnParam.
Proof. vm_compute. reflexivity. Qed.

(* ================================================================== S3 *)

(* struct P { a: u8, b: bool }  enum E { A, B(u8) }
   pub fn main(x: u8) -> u8 { let p = P { a: x, b: true }; let e = E::B(p.a);
                                match e { E::A => 0, E::B(v) => v } } *)
Definition s_P := mkUStruct (nm "P") [(nm "a", u8); (nm "b", UTBool)].
Definition e_E := mkUEnum (nm "E") [UVUnit (nm "A"); UVTuple (nm "B") [u8]].
Definition P_s3 := mkUProgram [] [s_P] [e_E]
  [main_fn [px "x" u8] u8
     [XSLet (pid "p") None (XStructLiteral (nm "P") [(nm "a", id_ "x"); (nm "b", XTrue)]);
      XSLet (pid "e") None (XEnumLiteral (nm "E") (nm "B") (Some [XStructAccess (id_ "p") (nm "a")]));
      XSExpr (XMatch (id_ "e") [(PEnumUnit (nm "E") (nm "A"), n_ 0);
                               (PEnumTuple (nm "E") (nm "B") [pid "v"], id_ "v")])]] (nm "main").
Example s3_typed :
  main_body (run P_s3) =
  [TSLet (TP (TPIdentifier (nm "p")) (CStruct (nm "P")))
     (TE (TStructLiteral (nm "P") [(nm "a", TE (TIdentifier (nm "x")) (CUnsigned U8)); (nm "b", TE TTrue CBool)])
         (CStruct (nm "P")));
   TSLet (TP (TPIdentifier (nm "e")) (CEnum (nm "E")))
     (TE (TEnumLiteral (nm "E") (nm "B")
            (Some [TE (TStructAccess (TE (TIdentifier (nm "p")) (CStruct (nm "P"))) (nm "a")) (CUnsigned U8)]))
         (CEnum (nm "E")));
   TSExpr
     (TE (TMatch (TE (TIdentifier (nm "e")) (CEnum (nm "E")))
            [(TP (TPEnumUnit (nm "E") (nm "A")) (CEnum (nm "E")), TE (TNumUnsigned 0 UnspecifiedU) (CUnsigned U8));
             (TP (TPEnumTuple (nm "E") (nm "B") [TP (TPIdentifier (nm "v")) (CUnsigned U8)]) (CEnum (nm "E")),
              TE (TIdentifier (nm "v")) (CUnsigned U8))])
         (CUnsigned U8))].
Proof. vm_compute. reflexivity. Qed.
Example s3_wt : wt_of P_s3 = Some true.
Proof. vm_compute. reflexivity. Qed.

Definition P_s3_with (body : list xstmt) := mkUProgram [] [s_P] [e_E] [main_fn [px "x" u8] u8 body] (nm "main").
Example non_exhaustive :
  code_of (run (P_s3_with [XSExpr (XMatch (id_ "x") [(PNumUnsigned 0 UnspecifiedU, id_ "x")])])) = Some E_PatternsAreNotExhaustive.
Proof. vm_compute. reflexivity. Qed.
Example missing_field :
  code_of (run (P_s3_with [XSLet (pid "p") None (XStructLiteral (nm "P") [(nm "a", id_ "x")]); XSExpr (id_ "x")])) = Some E_MissingStructField.
Proof. vm_compute. reflexivity. Qed.
Example duplicate_field :
  code_of (run (P_s3_with [XSLet (pid "p") None (XStructLiteral (nm "P") [(nm "a", id_ "x"); (nm "a", id_ "x"); (nm "b", XTrue)]); XSExpr (id_ "x")]))
  = Some E_DuplicateStructField.
Proof. vm_compute. reflexivity. Qed.
Example unknown_field :
  code_of (run (P_s3_with [XSLet (pid "p") None (XStructLiteral (nm "P") [(nm "a", id_ "x"); (nm "b", XTrue)]);
                           XSExpr (XStructAccess (id_ "p") (nm "c"))])) = Some E_UnknownStructField.
Proof. vm_compute. reflexivity. Qed.
Example unknown_struct : code_of (run (P_s3_with [XSExpr (XStructLiteral (nm "Q") [])])) = Some E_UnknownStruct.
Proof. vm_compute. reflexivity. Qed.
Example unknown_enum : code_of (run (P_s3_with [XSExpr (XEnumLiteral (nm "F") (nm "A") None)])) = Some E_UnknownEnum.
Proof. vm_compute. reflexivity. Qed.
Example unknown_variant : code_of (run (P_s3_with [XSExpr (XEnumLiteral (nm "E") (nm "C") None)])) = Some E_UnknownEnumVariant.
Proof. vm_compute. reflexivity. Qed.
Example unit_variant_with_args : code_of (run (P_s3_with [XSExpr (XEnumLiteral (nm "E") (nm "A") (Some [id_ "x"]))])) = Some E_ExpectedUnitVariantFoundTupleVariant.
Proof. vm_compute. reflexivity. Qed.
Example tuple_variant_without_args : code_of (run (P_s3_with [XSExpr (XEnumLiteral (nm "E") (nm "B") None)])) = Some E_ExpectedTupleVariantFoundUnitVariant.
Proof. vm_compute. reflexivity. Qed.
Example variant_arity : code_of (run (P_s3_with [XSExpr (XEnumLiteral (nm "E") (nm "B") (Some [id_ "x"; id_ "x"]))])) = Some E_UnexpectedEnumVariantArity.
Proof. vm_compute. reflexivity. Qed.
Example pattern_out_of_range :
  code_of (run (P_s3_with [XSExpr (XMatch (id_ "x") [(PNumUnsigned 256 UnspecifiedU, id_ "x"); (pid "_", id_ "x")])])) = Some E_PatternDoesNotMatchType.
Proof. vm_compute. reflexivity. Qed.
Example match_on_array :
  code_of (run (P_s3_with [XSExpr (XMatch (XArrayLiteral [id_ "x"]) [(pid "_", id_ "x")])])) = Some E_TypeDoesNotSupportPatternMatching.
Proof. vm_compute. reflexivity. Qed.
Example struct_access_on_int : code_of (run (P_s3_with [XSExpr (XStructAccess (id_ "x") (nm "a"))])) = Some E_ExpectedStructType.
Proof. vm_compute. reflexivity. Qed.
Example unknown_type : code_of (run (prog1 [px "x" (UTNamed (nm "Q"))] u8 [XSExpr (n_ 1)])) = Some E_UnknownStructOrEnum.
Proof. vm_compute. reflexivity. Qed.
Example recursive_type :
  code_of (run (mkUProgram [] [mkUStruct (nm "R") [(nm "r", UTTuple [UTNamed (nm "R")])]] []
                  [main_fn [px "x" u8] u8 [XSExpr (id_ "x")]] (nm "main"))) = Some E_RecursiveTypeDef.
Proof. vm_compute. reflexivity. Qed.
Example duplicate_variant :
  code_of (run (mkUProgram [] [] [mkUEnum (nm "E") [UVUnit (nm "A"); UVUnit (nm "A")]]
                  [main_fn [px "x" u8] u8 [XSExpr (id_ "x")]] (nm "main"))) = Some E_DuplicateEnumVariant.
Proof. vm_compute. reflexivity. Qed.

(* ================================================================== S4 *)

(* const K: u8 = 5u8;  pub fn main(x: u8) -> u8 { x + K } *)
Definition P_const := mkUProgram [mkUConst (nm "K") u8 (CENumUnsigned 5 U8)] [] []
  [main_fn [px "x" u8] u8 [XSExpr (XOp BAdd (id_ "x") (id_ "K"))]] (nm "main").
Example const_ok : is_ok (run P_const) = true /\ wt_of P_const = Some true.
Proof. vm_compute. split; reflexivity. Qed.
Example const_wrong_type :
  code_of (run (mkUProgram [mkUConst (nm "K") u8 CETrue] [] [] [main_fn [px "x" u8] u8 [XSExpr (id_ "x")]] (nm "main")))
  = Some E_UnexpectedType.
Proof. vm_compute. reflexivity. Qed.
Example const_struct_type :
  code_of (run (mkUProgram [mkUConst (nm "K") (UTNamed (nm "P")) CETrue] [s_P] [] [main_fn [px "x" u8] u8 [XSExpr (id_ "x")]] (nm "main")))
  = Some E_ExpectedBoolOrNumberType.
Proof. vm_compute. reflexivity. Qed.

(* ================================================================== S1, one program per error kind *)

Definition bad (body : list xstmt) := code_of (run (prog1 [px "x" u8; px "b" UTBool] u8 body)).
Example e_unknown_identifier : bad [XSExpr (id_ "q")] = Some E_UnknownIdentifier.
Proof. vm_compute. reflexivity. Qed.
Example e_if_cond_not_bool : bad [XSExpr (XIf (id_ "x") (id_ "x") (id_ "x"))] = Some E_UnexpectedType.
Proof. vm_compute. reflexivity. Qed.
Example e_operands_differ : bad [XSExpr (XOp BAdd (id_ "x") (XNumUnsigned 1 U16))] = Some E_TypeMismatch.
Proof. vm_compute. reflexivity. Qed.
Example e_branches_differ : bad [XSExpr (XIf (id_ "b") (id_ "x") (id_ "b"))] = Some E_TypeMismatch.
Proof. vm_compute. reflexivity. Qed.
Example e_assign_immutable : bad [XSVarAssign (nm "x") [] (XNumUnsigned 1 U8); XSExpr (id_ "x")] = Some E_IdentifierNotDeclaredAsMutable.
Proof. vm_compute. reflexivity. Qed.
Example e_assign_unbound : bad [XSVarAssign (nm "q") [] (XNumUnsigned 1 U8); XSExpr (id_ "x")] = Some E_UnknownIdentifier.
Proof. vm_compute. reflexivity. Qed.
Example e_assign_wrong_type : bad [XSLetMut (nm "m") None (id_ "x"); XSVarAssign (nm "m") [] XTrue; XSExpr (id_ "x")] = Some E_UnexpectedType.
Proof. vm_compute. reflexivity. Qed.
Example e_index_not_usize : bad [XSExpr (XArrayAccess (XArrayLiteral [id_ "x"]) (id_ "x"))] = Some E_UnexpectedType.
Proof. vm_compute. reflexivity. Qed.
Example e_index_non_array : bad [XSExpr (XArrayAccess (id_ "x") (XNumUnsigned 0 Usize))] = Some E_ExpectedArrayType.
Proof. vm_compute. reflexivity. Qed.
Example e_tuple_oob : bad [XSExpr (XTupleAccess (XTupleLiteral [id_ "x"; id_ "b"]) 2)] = Some E_TupleAccessOutOfBounds.
Proof. vm_compute. reflexivity. Qed.
Example e_tuple_on_int : bad [XSExpr (XTupleAccess (id_ "x") 0)] = Some E_ExpectedTupleType.
Proof. vm_compute. reflexivity. Qed.
Example e_neg_unsigned : bad [XSExpr (XUnaryOp UoNeg (id_ "x"))] = Some E_ExpectedSignedNumberType.
Proof. vm_compute. reflexivity. Qed.
Example e_not_tuple : bad [XSExpr (XUnaryOp UoNot (XTupleLiteral []))] = Some E_ExpectedBoolOrNumberType.
Proof. vm_compute. reflexivity. Qed.
Example e_add_bool : bad [XSExpr (XOp BAdd (id_ "b") (id_ "b"))] = Some E_ExpectedNumberType.
Proof. vm_compute. reflexivity. Qed.
Example e_and_int : bad [XSExpr (XOp BShortCircuitAnd (id_ "x") (id_ "b"))] = Some E_UnexpectedType.
Proof. vm_compute. reflexivity. Qed.
Example e_invalid_range : bad [XSForEach (pid "i") (XRange 5 5 U8) []; XSExpr (id_ "x")] = Some E_InvalidRange.
Proof. vm_compute. reflexivity. Qed.
Example e_for_non_array : bad [XSForEach (pid "i") (id_ "x") []; XSExpr (id_ "x")] = Some E_ExpectedArrayType.
Proof. vm_compute. reflexivity. Qed.
Example e_wrong_return : bad [XSExpr (id_ "b")] = Some E_UnexpectedType.
Proof. vm_compute. reflexivity. Qed.
Example e_no_return : bad [XSLet (pid "y") None (id_ "x")] = Some E_UnexpectedType.
Proof. vm_compute. reflexivity. Qed.
Example e_let_annotation : bad [XSLet (pid "y") (Some (UTUnsigned U16)) (id_ "x"); XSExpr (id_ "x")] = Some E_UnexpectedType.
Proof. vm_compute. reflexivity. Qed.
Example e_literal_too_big : bad [XSExpr (XOp BAdd (id_ "x") (n_ 256))] = Some E_UnexpectedType.
Proof. vm_compute. reflexivity. Qed.
Example e_tuple_pattern_arity : bad [XSLet (PTuple [pid "p"; pid "q"; pid "r"]) None (XTupleLiteral [id_ "x"; id_ "b"]); XSExpr (id_ "x")]
  = Some E_UnexpectedEnumVariantArity.
Proof. vm_compute. reflexivity. Qed.
Example e_scope_block : bad [XSExpr (XBlock [XSLet (pid "y") None (id_ "x")]); XSExpr (id_ "y")] = Some E_UnknownIdentifier.
Proof. vm_compute. reflexivity. Qed.
Example e_scope_for : bad [XSForEach (pid "i") (XRange 0 3 U8) []; XSExpr (id_ "i")] = Some E_UnknownIdentifier.
Proof. vm_compute. reflexivity. Qed.
Example e_empty_array_panics : bad [XSExpr (XArrayLiteral [])] = Some E_Panic.
Proof. vm_compute. reflexivity. Qed.
(* outside the model *)
Example o_join : run (prog1 [px "x" u8] u8 [XSExpr (XJoin [])]) = COutside.
Proof. vm_compute. reflexivity. Qed.
Example o_array_const : run (prog1 [px "x" (UTArrayConst u8 (nm "N"))] u8 [XSExpr (n_ 1)]) = COutside.
Proof. vm_compute. reflexivity. Qed.
