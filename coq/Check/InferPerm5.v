(* C06 with calls, acceptance for ARBITRARY call depth under a decidable acyclicity hypothesis (a rank
   on the function names that decreases along every syntactic call). *)
From Coq Require Import Lia Bool Permutation.
From GV Require Import Base.Util Front.Scan Front.ParseExpr Check.UAst Check.Infer Check.InferProofs Check.InferSub
  Check.InferTotal Check.InferFuel2 Check.PermSort Check.PermExh Check.InferPerm Check.InferPerm2 Check.InferPermFinal
  Check.InferPerm3 Check.InferPerm4.
Local Open Scope N_scope.

(* ================================================================ the transfer theorem of InferPerm3.v, with
   callees that may themselves call: the second run's typed map is CLOSED *)
Module Deep.
Section Imp.
Variable intern : list N -> N.
Variable D : defs.
Notation check_expr := (check_expr intern).
Notation check_stmt := (check_stmt intern).
Notation check_stmts := (check_stmts intern).
Notation check_block := (check_block intern).
Notation check_fn := (check_fn intern).
Notation canon := (canon intern D).
Notation Cgood := (Cgood intern D).

Variable K : nat.                                  (* the extra fuel of the second run *)
Variable Hc : list N -> bool.                      (* the functions that may be called *)
Variable Pc : list (list N) -> Prop.               (* what is known about the second run's st_checking *)
Variable L0 : list (list N * tfndef).              (* the typed map the first run started from *)

Variable fb : nat.                                 (* the bound on the fuel of the first run *)

(* what a (first-run, fuel <= fb) check of [id] adds to the typed map is in T' *)
Definition UK (id : list N) (T' : list (list N * tfndef)) : Prop :=
  forall F1 st1 r1 fd, (F1 <= fb)%nat -> find (fun d => list_eqb (uf_name d) id) (d_fns D) = Some fd ->
    Cgood (st_typed st1) -> check_fn F1 D st1 fd = COk r1 ->
    forall n, defd n (st_typed (snd r1)) -> defd n (st_typed st1) \/ defd n T'.
(* the second run's typed map contains, with every function, what its checks add *)
Definition Closed (T' : list (list N * tfndef)) : Prop := forall id, defd id T' -> UK id T'.

Lemma UK_mono id T T' : UK id T -> (forall n, defd n T -> defd n T') -> UK id T'.
Proof. intros H Hm F1 st1 r1 fd H1 H2 H3 H4 n Hn. destruct (H F1 st1 r1 fd H1 H2 H3 H4 n Hn); auto. Qed.

Lemma defd_cons {A} n id (v : A) T : defd n ((id, v) :: T) <-> (n = id \/ defd n T).
Proof.
  unfold defd. cbn [assocL]. destruct (list_eqb n id) eqn:E.
  - apply list_eqb_eq in E. split; [now left|discriminate].
  - split; [now right|]. intros [->|H]; [rewrite list_eqb_refl in E; discriminate|exact H].
Qed.

Lemma Closed_cons id v T : Closed T -> UK id T -> Closed ((id, v) :: T).
Proof.
  intros HC HU n Hn. apply defd_cons in Hn. assert (Hm : forall m, defd m T -> defd m ((id, v) :: T)) by (intros m Hm; apply defd_cons; now right).
  destruct Hn as [->|Hn]; [eapply UK_mono; eassumption|eapply UK_mono; [apply HC; exact Hn|exact Hm]].
Qed.

(* a callee can be re-checked wherever the second run needs it; its closure comes with it *)
Hypothesis Hcallee : forall id fd F st', Hc id = true ->
  find (fun d => list_eqb (uf_name d) id) (d_fns D) = Some fd ->
  (K <= F)%nat -> Cgood (st_typed st') -> Closed (st_typed st') -> Pc (st_checking st') ->
  exists r', check_fn F D st' fd = COk r' /\ Closed (st_typed (snd r')) /\ UK id (st_typed (snd r')).

Definition Rt (T T' : list (list N * tfndef)) : Prop :=
  Cgood T /\ Cgood T' /\ Closed T' /\ (forall n, defd n T -> defd n L0 \/ defd n T').
Definition st_rel (s s' : cstate) : Prop :=
  st_env s = st_env s' /\ Rt (st_typed s) (st_typed s') /\ Pc (st_checking s').

(* the first run accepted => the second run accepted, with related results *)
Definition rimp {A} (RA : A -> A -> Prop) (r r' : cres A) : Prop :=
  match r with
  | COk a => match r' with COk a' => RA a a' | _ => False end
  | _ => True
  end.
Definition RP {B} (r r' : B * cstate) : Prop := fst r = fst r' /\ st_rel (snd r) (snd r').

Lemma rimp_bind {A B} (RA : A -> A -> Prop) (RB : B -> B -> Prop) r r' (k k' : A -> cres B) :
  rimp RA r r' -> (forall a a', RA a a' -> rimp RB (k a) (k' a')) -> rimp RB (cbind r k) (cbind r' k').
Proof. destruct r; cbn [rimp cbind]; auto. destruct r'; cbn [cbind]; try contradiction. auto. Qed.

Lemma rimp_eq {A} (r : cres A) : rimp eq r r.
Proof. destruct r; cbn [rimp]; auto. Qed.

Lemma rimp_pure {A B} (RB : B -> B -> Prop) (r : cres A) (k k' : A -> cres B) :
  (forall a, rimp RB (k a) (k' a)) -> rimp RB (cbind r k) (cbind r k').
Proof. intro H. eapply rimp_bind; [apply rimp_eq|]. intros a a' <-. apply H. Qed.

Lemma rimp_le {A} (r r' : cres A) : le_res r r' -> rimp eq r r'.
Proof. intros [-> | ->]; [exact I|apply rimp_eq]. Qed.

Lemma rimp_check_type f e t : rimp eq (check_type f e t) (check_type (f + K) e t).
Proof. apply rimp_le. apply (le_iter (fun n => check_type n e t)). intro n. apply le_check_type. Qed.
Lemma rimp_coc_u f e t : rimp eq (coc_unsigned_deep f e t) (coc_unsigned_deep (f + K) e t).
Proof. apply rimp_le. apply (le_iter (fun n => coc_unsigned_deep n e t)). intro n. apply le_coc_unsigned_deep. Qed.
Lemma rimp_coc_s f e t : rimp eq (coc_signed_deep f e t) (coc_signed_deep (f + K) e t).
Proof. apply rimp_le. apply (le_iter (fun n => coc_signed_deep n e t)). intro n. apply le_coc_signed_deep. Qed.
Lemma rimp_unify f a b : rimp eq (unify f a b) (unify (f + K) a b).
Proof. apply rimp_le. apply (le_iter (fun n => unify n a b)). intro n. apply le_unify. Qed.
Lemma rimp_i32 f e : rimp eq (constrain_to_i32 f e) (constrain_to_i32 (f + K) e).
Proof. apply rimp_le. apply (le_iter (fun n => constrain_to_i32 n e)). intro n. apply le_constrain_to_i32. Qed.

Lemma rimp_mapM {A B} (g g' : A -> cres B) l : (forall x, rimp eq (g x) (g' x)) -> rimp eq (mapM g l) (mapM g' l).
Proof.
  intro H. induction l as [|x l IH]; cbn [mapM]; [reflexivity|].
  eapply rimp_bind; [apply H|]. intros a a' <-. eapply rimp_bind; [exact IH|]. intros b b' <-. reflexivity.
Qed.
Lemma rimp_zipM {A B} (g g' : A -> B -> cres A) : (forall x y, rimp eq (g x y) (g' x y)) ->
  forall xs ys, rimp eq (zipM g xs ys) (zipM g' xs ys).
Proof.
  intro H. induction xs as [|x xs IH]; intros [|y ys]; cbn [zipM]; try reflexivity.
  eapply rimp_bind; [apply H|]. intros a a' <-. eapply rimp_bind; [apply IH|]. intros b b' <-. reflexivity.
Qed.
Lemma rimp_map_last_expr g g' : (forall e, rimp eq (g e) (g' e)) -> forall b, rimp eq (map_last_expr g b) (map_last_expr g' b).
Proof.
  intro H. induction b as [|s b IH]; cbn [map_last_expr]; [reflexivity|].
  destruct b as [|s2 b2].
  - destruct s; try reflexivity. eapply rimp_bind; [apply H|]. intros a a' <-. reflexivity.
  - destruct s; (eapply rimp_bind; [exact IH|]; intros a a' <-; reflexivity).
Qed.

Lemma rimp_clause f ret_ty (pc : tpattern * texpr) :
  rimp eq (if negb (cty_eqb ret_ty (ty_of (snd pc))) then
            match ret_ty with
            | CUnsigned expected => do x <- coc_unsigned_deep f (snd pc) expected; COk (fst pc, x)
            | CSigned expected => do x <- coc_signed_deep f (snd pc) expected; COk (fst pc, x)
            | _ => CErr E_UnexpectedType
            end
          else COk pc)
         (if negb (cty_eqb ret_ty (ty_of (snd pc))) then
            match ret_ty with
            | CUnsigned expected => do x <- coc_unsigned_deep (f + K) (snd pc) expected; COk (fst pc, x)
            | CSigned expected => do x <- coc_signed_deep (f + K) (snd pc) expected; COk (fst pc, x)
            | _ => CErr E_UnexpectedType
            end
          else COk pc).
Proof.
  destruct (negb _); [|apply rimp_eq]. destruct ret_ty; try exact I;
    (eapply rimp_bind; [first [apply rimp_coc_u|apply rimp_coc_s]|]; intros x x' <-; apply rimp_eq).
Qed.

Lemma rimp_mapM_st {A B} (g g' : cstate -> A -> cres (B * cstate)) l :
  (forall st st' x, In x l -> st_rel st st' -> rimp RP (g st x) (g' st' x)) ->
  forall st st', st_rel st st' -> rimp RP (mapM_st g st l) (mapM_st g' st' l).
Proof.
  induction l as [|x l IH]; intros H st st' Hq; cbn [mapM_st]; [split; [reflexivity|exact Hq]|].
  eapply rimp_bind; [apply H; [now left|exact Hq]|]. intros [b1 s1] [b1' s1'] [E1 S1]. cbn [fst snd] in *. subst b1'.
  eapply rimp_bind; [apply IH; [intros; apply H; [now right|assumption]|exact S1]|].
  intros [b2 s2] [b2' s2'] [E2 S2]. cbn [fst snd] in *. subst b2'. split; [reflexivity|exact S2].
Qed.

Lemma st_rel_mk g t t' c c' : Rt t t' -> Pc c' -> st_rel (mkSt g t c) (mkSt g t' c').
Proof. intros H1 H2. split; [reflexivity|split; assumption]. Qed.

Ltac rr_intro :=
  let a := fresh "a" in let a' := fresh "a'" in let HR := fresh "HR" in
  intros a a' HR;
  first
   [ destruct a as [?b [?g ?t ?c]], a' as [?b [?g ?t ?c]]; destruct HR as [?E (?E & ?E & ?E)];
     cbn [fst snd st_env st_checking st_typed] in *; subst
   | subst a' ].

Ltac seq_solve := cbn [with_env st_env st_checking st_typed fst snd]; first [apply st_rel_mk; assumption | assumption].

Ltac oksolve Hs :=
  cbn [okc_x okc_s okc_a] in Hs; repeat rewrite andb_true_iff in Hs;
  first [ tauto
        | match goal with Hin : In ?x ?l |- _ =>
            first [ exact (forallb_In _ _ _ Hs Hin)
                  | exact (forallb_In _ _ _ (proj1 Hs) Hin) | exact (forallb_In _ _ _ (proj2 Hs) Hin) ] end ].

Ltac rr_core IHt :=
  repeat (cbn [st_env st_typed st_checking with_env];
    match goal with
    | |- rimp _ (COk _) (COk _) => cbn [rimp]
    | |- rimp _ (CErr _) _ => exact I
    | |- rimp _ COutside _ => exact I
    | |- rimp _ CNoFuel _ => exact I
    | |- rimp _ (cbind (check_type _ ?e ?t) _) (cbind (check_type _ ?e ?t) _) =>
        eapply rimp_bind; [apply rimp_check_type|intros ? ? <-]
    | |- rimp _ (cbind (unify _ ?a ?b) _) (cbind (unify _ ?a ?b) _) =>
        eapply rimp_bind; [apply rimp_unify|intros ? ? <-]
    | |- rimp _ (cbind (coc_unsigned_deep _ ?e ?t) _) (cbind (coc_unsigned_deep _ ?e ?t) _) =>
        eapply rimp_bind; [apply rimp_coc_u|intros ? ? <-]
    | |- rimp _ (cbind (coc_signed_deep _ ?e ?t) _) (cbind (coc_signed_deep _ ?e ?t) _) =>
        eapply rimp_bind; [apply rimp_coc_s|intros ? ? <-]
    | |- rimp _ (cbind (constrain_to_i32 _ ?e) _) (cbind (constrain_to_i32 _ ?e) _) =>
        eapply rimp_bind; [apply rimp_i32|intros ? ? <-]
    | |- rimp _ (cbind (mapM _ ?l) _) (cbind (mapM _ ?l) _) =>
        eapply rimp_bind; [apply rimp_mapM; intros ?; first [apply rimp_check_type|apply rimp_eq|apply rimp_clause]|intros ? ? <-]
    | |- rimp _ (cbind (zipM _ ?l ?m) _) (cbind (zipM _ ?l ?m) _) =>
        eapply rimp_bind; [apply rimp_zipM; intros ? ?; first [apply rimp_check_type|apply rimp_eq]|intros ? ? <-]
    | |- rimp _ (cbind ?r _) (cbind ?r _) => apply rimp_pure; intros ?
    | |- rimp _ (cbind _ _) (cbind _ _) => eapply rimp_bind; [solve [IHt] | rr_intro]
    | |- rimp _ (if ?c then _ else _) (if ?c then _ else _) => destruct c eqn:?
    | |- rimp _ (match ?x with _ => _ end) (match ?x with _ => _ end) => destruct x eqn:?
    end).

Ltac rp_fin := first [ split; [reflexivity|seq_solve] | exact I | reflexivity ].

Lemma rimp_accs_loop ce ce' fu fu2 : (forall e t, rimp eq (coc_unsigned_deep fu e t) (coc_unsigned_deep fu2 e t)) ->
  forall accs,
  (forall st st' a, In a accs -> st_rel st st' -> match a with XAArray i => rimp RP (ce st i) (ce' st' i) | _ => True end) ->
  forall st st' t, st_rel st st' -> rimp RP (accs_loop ce fu D st t accs) (accs_loop ce' fu2 D st' t accs).
Proof.
  intro Hcu. induction accs as [|a accs IH]; intros H st st' t Hq; cbn [accs_loop]; [split; [reflexivity|exact Hq]|].
  assert (IH' : forall st st' t, st_rel st st' -> rimp RP (accs_loop ce fu D st t accs) (accs_loop ce' fu2 D st' t accs))
    by (intros; apply IH; [intros; apply H; [now right|assumption]|assumption]).
  pose proof (fun st st' => H st st' a (or_introl eq_refl)) as Ha. clear H IH.
  eapply rimp_bind with (RA := fun r r' => fst r = fst r' /\ st_rel (snd r) (snd r')).
  - destruct a.
    + destruct (expect_array_type t); cbn [cbind rimp]; auto.
      eapply rimp_bind; [apply Ha; exact Hq|]. intros [i1 s1] [i1' s1'] [E1 S1]. cbn [fst snd] in *. subst i1'.
      eapply rimp_bind; [apply Hcu|]. intros ix ix' <-. cbn [rimp]. auto.
    + destruct (expect_tuple_type t); cbn [cbind rimp]; auto. destruct (nthN _ _); cbn [rimp]; auto.
    + destruct (expect_struct_type t); cbn [cbind rimp]; auto.
      destruct (assocL _ (d_structs D)); cbn [rimp]; auto. destruct (assocL _ _); cbn [rimp]; auto.
  - intros [[ta t1] s1] [[ta' t1'] s1'] [E1 S1]. cbn [fst snd] in *. injection E1 as <- <-.
    eapply rimp_bind; [apply IH'; exact S1|]. intros [[tas tf] s2] [[tas' tf'] s2'] [E2 S2]. cbn [fst snd] in *.
    injection E2 as <- <-. split; [reflexivity|exact S2].
Qed.

Lemma rimp_struct_lit_loop ce ce' f sd : forall fields,
  (forall st st' fl, In fl fields -> st_rel st st' -> rimp RP (ce st (snd fl)) (ce' st' (snd fl))) ->
  forall seen st st', st_rel st st' ->
  rimp RP (struct_lit_loop ce f sd seen st fields) (struct_lit_loop ce' (f + K) sd seen st' fields).
Proof.
  induction fields as [|[fname fv] fields IH]; intros H seen st st' Hq; cbn [struct_lit_loop]; [split; [reflexivity|exact Hq]|].
  destruct (memL fname seen); [exact I|]. destruct (assocL fname sd); [|exact I].
  eapply rimp_bind; [apply (H st st' (fname, fv)); [now left|exact Hq]|]. intros [e1 s1] [e1' s1'] [E1 S1]. cbn [fst snd] in *. subst e1'.
  eapply rimp_bind; [apply rimp_check_type|]. intros tf tf' <-.
  eapply rimp_bind; [apply IH; [intros; apply H; [now right|assumption]|exact S1]|].
  intros [r2 s2] [r2' s2'] [E2 S2]. cbn [fst snd] in *. subst r2'. split; [reflexivity|exact S2].
Qed.
Definition RF (r r' : tfndef * cstate) : Prop := fst r = fst r' /\ Rt (st_typed (snd r)) (st_typed (snd r')).

Definition GE f := forall st st' e, st_rel st st' -> okc_x Hc e = true ->
  rimp RP (check_expr f D st e) (check_expr (f + K) D st' e).
Definition GSS f := forall st st' b, st_rel st st' -> forallb (okc_s Hc) b = true ->
  rimp RP (check_stmts f D st b) (check_stmts (f + K) D st' b).
Definition GB f := forall st st' b, st_rel st st' -> forallb (okc_s Hc) b = true ->
  rimp RP (check_block f D st b) (check_block (f + K) D st' b).
Definition GS f := forall st st' s, st_rel st st' -> okc_s Hc s = true ->
  rimp RP (check_stmt f D st s) (check_stmt (f + K) D st' s).
Definition GF f := forall st st' fd, Rt (st_typed st) (st_typed st') -> Pc (uf_name fd :: st_checking st') ->
  memL (uf_name fd) (st_checking st') = false -> forallb (okc_s Hc) (uf_body fd) = true ->
  rimp RF (check_fn f D st fd) (check_fn (f + K) D st' fd).

Ltac ih_tac IHe IHss IHb IHs Hs :=
  first [ apply IHe; [seq_solve|oksolve Hs]
        | apply IHss; [seq_solve|oksolve Hs]
        | apply IHb; [seq_solve|oksolve Hs]
        | apply IHs; [seq_solve|oksolve Hs]
        | apply rimp_mapM_st; [intros ? ? ? ? ?; first [apply IHe|apply IHs]; [assumption|oksolve Hs]|seq_solve] ].

Lemma imp_expr f : (S f <= fb)%nat -> GE f -> GB f -> GE (S f).
Proof.
  intros Hle IHe IHb st st' e Hq Hs. change (S f + K)%nat with (S (f + K)).
  destruct st as [g t c], st' as [g' t' c']. destruct Hq as (Eg & Ht & Hp). cbn [st_env st_checking st_typed] in *. subst g'.
  destruct e; cbn [Infer.check_expr]; cbn [st_env st_checking st_typed with_env].
  all: try solve [rr_core ltac:(ih_tac IHe IHe IHb IHe Hs); rp_fin].
  - (* struct literal *)
    destruct (assocL name (d_structs D)); [|exact I].
    eapply rimp_bind; [apply rimp_struct_lit_loop; [intros st0 st0' fl Hin Hq0; apply IHe; [exact Hq0|oksolve Hs]|seq_solve]|rr_intro].
    rr_core ltac:(ih_tac IHe IHe IHb IHe Hs); rp_fin.
  - (* match *)
    eapply rimp_bind; [apply IHe; [seq_solve|oksolve Hs]|rr_intro].
    match goal with |- rimp _ (match ty_of ?x with _ => _ end) _ => destruct (ty_of x) end; try exact I;
    (eapply rimp_bind;
      [apply rimp_mapM_st; [|seq_solve];
       intros st0 st0' pc Hin Hq0; destruct st0 as [gq tq cq], st0' as [gq' tq' cq']; destruct Hq0 as (Eg0 & Ht0 & Hp0);
       cbn [st_env st_checking st_typed] in Eg0, Ht0, Hp0; subst gq';
       rr_core ltac:(ih_tac IHe IHe IHb IHe Hs); rp_fin
      |rr_intro]; rr_core ltac:(ih_tac IHe IHe IHb IHe Hs); rp_fin).
  - (* call *)
    destruct Ht as (HC & HC' & HCl & HK).
    fold (Infer.check_expr intern) (Infer.check_stmts intern) (Infer.check_block intern)
         (Infer.check_fn intern) (Infer.check_stmt intern).
    cbn [okc_x] in Hs. apply andb_true_iff in Hs. destruct Hs as [Hcf Hargs].
    eapply rimp_bind with (RA := fun s1 s1' => st_rel s1 s1' /\ (defd f0 (st_typed s1) -> defd f0 (st_typed s1'))).
    + (* the left run *)
      assert (HL : forall s1, (if negb match assocL f0 t with Some _ => true | None => false end
                   then match find (fun d => list_eqb (uf_name d) f0) (d_fns D) with
                        | Some fn_def => do r <- check_fn f D (mkSt g t c) fn_def;
                            COk (mkSt (st_env (snd r)) ((f0, fst r) :: st_typed (snd r)) (st_checking (snd r)))
                        | None => COk (mkSt g t c) end
                   else COk (mkSt g t c)) = COk s1 ->
                st_env s1 = g /\ Cgood (st_typed s1) /\
                (defd f0 (st_typed s1) -> find (fun d => list_eqb (uf_name d) f0) (d_fns D) <> None) /\
                (st_typed s1 = t \/ exists fd r1, find (fun d => list_eqb (uf_name d) f0) (d_fns D) = Some fd /\
                   check_fn f D (mkSt g t c) fd = COk r1 /\ st_typed s1 = (f0, fst r1) :: st_typed (snd r1))).
      { intros s1 H1. destruct (assocL f0 t) as [d|] eqn:EL; cbn [negb] in H1.
        - injection H1 as <-. cbn [st_env st_typed]. split; [reflexivity|]. split; [exact HC|]. split; [|left; reflexivity].
          intros _ Hn. pose proof (Cgood_get intern D t f0 d HC EL) as Hcn. inversion Hcn as [? ? ? ? ? Hf3 _ _]; subst. congruence.
        - destruct (find _ (d_fns D)) as [fd|] eqn:Ef.
          + destruct (check_fn f D (mkSt g t c) fd) as [r1| | |] eqn:E1; cbn [cbind] in H1; try discriminate H1. injection H1 as <-.
            destruct (ins_right intern D f (mkSt g t c) fd f0 r1 Ef HC E1) as [HC1 He1]. cbn [st_env st_typed] in *.
            split; [exact He1|]. split; [exact HC1|]. split; [intros _; discriminate|].
            right. exists fd, r1. repeat split; auto.
          + injection H1 as <-. cbn [st_env st_typed]. split; [reflexivity|]. split; [exact HC|]. split; [|left; reflexivity].
            intros Hd. exfalso. apply Hd. exact EL. }
      match goal with |- rimp _ ?L _ => destruct L as [s1| | |] eqn:EL1; try exact I end.
      destruct (HL s1 eq_refl) as (E1 & C1 & X1 & Shape). clear HL.
      (* what is needed of the right state *)
      assert (Fin : forall g' RT c'', g' = g -> Cgood RT -> Closed RT -> Pc c'' -> (forall n, defd n t' -> defd n RT) ->
                (defd f0 (st_typed s1) -> defd f0 RT) ->
                st_rel s1 (mkSt g' RT c'') /\ (defd f0 (st_typed s1) -> defd f0 (st_typed (mkSt g' RT c'')))).
      { intros g' RT c'' -> HCR HClR HpR Hmono Hdf. split; [|exact Hdf].
        split; [cbn [st_env]; exact E1|]. split; [|exact HpR]. cbn [st_typed]. split; [exact C1|]. split; [exact HCR|]. split; [exact HClR|].
        intros n Hn. destruct Shape as [Et|(fd & r1 & Ef & Er1 & Et)]; rewrite Et in Hn.
        - destruct (HK n Hn) as [H0|H0]; [left; exact H0|right; apply Hmono; exact H0].
        - assert (Hdf0 : defd f0 RT) by (apply Hdf; rewrite Et; apply defd_cons; now left).
          apply defd_cons in Hn. destruct Hn as [->|Hn]; [right; exact Hdf0|].
          destruct (HClR f0 Hdf0 f (mkSt g t c) r1 fd ltac:(lia) Ef HC Er1 n Hn) as [H0|H0]; [|right; exact H0].
          cbn [st_typed] in H0. destruct (HK n H0) as [H1|H1]; [left; exact H1|right; apply Hmono; exact H1]. }
      (* the right run *)
      destruct (assocL f0 t') as [d'|] eqn:ER; cbn [negb].
      * cbn [rimp]. apply Fin; auto. intros _. unfold defd. rewrite ER. discriminate.
      * destruct (find _ (d_fns D)) as [fd|] eqn:Ef.
        -- destruct (Hcallee f0 fd (f + K)%nat (mkSt g t' c') Hcf Ef ltac:(lia) HC' HCl Hp) as (r' & Er' & HCl' & HU').
           rewrite Er'. cbn [cbind rimp].
           destruct (ins_right intern D (f + K)%nat (mkSt g t' c') fd f0 r' Ef HC' Er') as [HC2 He2].
           destruct (check_fn_frame _ _ _ _ _ _ Er') as [_ Hck]. cbn [st_env st_typed st_checking] in *.
           destruct (proj2 (proj2 (proj2 (proj2 (check_ext intern D (f + K))))) _ _ _ Er') as [(_ & _ & X3 & _) _].
           cbn [tc_of fst snd st_typed] in X3.
           apply Fin; [exact He2|exact HC2|apply Closed_cons; assumption|rewrite Hck; exact Hp| |].
           ++ intros n Hn. apply defd_cons. right. apply X3. exact Hn.
           ++ intros _. apply defd_cons. now left.
        -- cbn [rimp]. apply Fin; auto. intros Hd. exfalso. apply (X1 Hd). reflexivity.
    + intros [g1 t1 c1] [g1' t1' c1'] [(Eg1 & (HG1 & HC1 & HCl1 & HK1) & Hp1) Hdef]. cbn [st_env st_checking st_typed] in *. subst g1'.
      destruct (assocL f0 t1) as [d|] eqn:EL1; [|exact I].
      destruct (assocL f0 t1') as [d'|] eqn:ER1; [|exfalso; apply Hdef; [unfold defd; rewrite EL1; discriminate|exact ER1]].
      assert (Ed : d = d') by (eapply canon_det; [exact (Cgood_get intern D t1 f0 d HG1 EL1)|exact (Cgood_get intern D t1' f0 d' HC1 ER1)]). subst d'.
      destruct (env_get g1 f0); [exact I|].
      assert (Ht1 : Rt t1 t1') by (repeat split; assumption).
      assert (Hs : forallb (okc_x Hc) args = true) by exact Hargs.
      rr_core ltac:(ih_tac IHe IHe IHb IHe Hs); rp_fin.
Qed.

Lemma imp_stmts f : GS f -> GSS (S f) /\ GB (S f).
Proof.
  intro IHs. split; intros st st' b Hq Hs; change (S f + K)%nat with (S (f + K)); cbn [Infer.check_stmts Infer.check_block].
  - apply rimp_mapM_st; [|exact Hq]. intros st0 st0' x Hin Hq0. apply IHs; [exact Hq0|exact (forallb_In _ _ _ Hs Hin)].
  - eapply rimp_bind; [apply rimp_mapM_st; [|exact Hq]; intros st0 st0' x Hin Hq0; apply IHs; [exact Hq0|exact (forallb_In _ _ _ Hs Hin)]|].
    intros [b1 s1] [b1' s1'] [E1 S1]. cbn [fst snd] in *. subst b1'. split; [reflexivity|exact S1].
Qed.

Lemma rimp_annot f (ty : option utype) b :
  rimp eq (match ty with Some ty0 => do ty' <- concrete_of D ty0; check_type f b ty' | None => COk b end)
          (match ty with Some ty0 => do ty' <- concrete_of D ty0; check_type (f + K) b ty' | None => COk b end).
Proof. destruct ty; [|reflexivity]. apply rimp_pure. intro ty'. apply rimp_check_type. Qed.

Lemma imp_stmt f : GE f -> GSS f -> GS (S f).
Proof.
  intros IHe IHss st st' s Hq Hs. change (S f + K)%nat with (S (f + K)).
  destruct st as [g t c], st' as [g' t' c']. destruct Hq as (Eg & Ht & Hp). cbn [st_env st_checking st_typed] in *. subst g'.
  destruct s; cbn [Infer.check_stmt]; cbn [st_env st_checking st_typed with_env].
  all: try solve [rr_core ltac:(ih_tac IHe IHss IHss IHe Hs); rp_fin].
  - eapply rimp_bind; [apply IHe; [seq_solve|oksolve Hs]|rr_intro].
    eapply rimp_bind; [apply rimp_annot|intros ? ? <-]. rr_core ltac:(ih_tac IHe IHss IHss IHe Hs); rp_fin.
  - eapply rimp_bind; [apply IHe; [seq_solve|oksolve Hs]|rr_intro].
    eapply rimp_bind; [apply rimp_annot|intros ? ? <-]. rr_core ltac:(ih_tac IHe IHss IHss IHe Hs); rp_fin.
  - destruct (env_get g x) as [[ety [|]]|]; try exact I.
    cbn [okc_s] in Hs. apply andb_true_iff in Hs. destruct Hs as [Hacc Hval].
    eapply rimp_bind.
    + apply rimp_accs_loop; [intros; apply rimp_coc_u| |apply st_rel_mk; assumption].
      intros st0 st0' a Hin Hq0. destruct a; try exact I. apply IHe; [exact Hq0|exact (forallb_In _ _ _ Hacc Hin)].
    + intros [[tas ty1] [g1 t1 c1]] [[tas' ty1'] [g1' t1' c1']] [E1 (Eg1 & Ht1 & Hp1)].
      cbn [fst snd st_env st_checking st_typed] in *. injection E1 as <- <-. subst g1'.
      assert (Hs : okc_x Hc e = true) by exact Hval.
      rr_core ltac:(ih_tac IHe IHss IHss IHe Hs); rp_fin.
Qed.

Lemma imp_fn f : GB f -> GF (S f).
Proof.
  intros IHb st st' fd Ht Hp Hm Hs. change (S f + K)%nat with (S (f + K)).
  destruct st as [g t c], st' as [g' t' c']. cbn [st_env st_checking st_typed] in *.
  cbn [Infer.check_fn]. cbn [st_env st_checking st_typed]. rewrite Hm.
  destruct (memL (uf_name fd) c); [exact I|]. cbv zeta.
  apply rimp_pure. intros rp.
  eapply rimp_bind; [apply IHb; [apply st_rel_mk; assumption|exact Hs]|].
  intros [[body bty] [g1 t1 c1]] [[body' bty'] [g1' t1' c1']] [E1 (Eg1 & Ht1 & Hp1)].
  cbn [fst snd st_env st_checking st_typed] in *. injection E1 as <- <-. subst g1'.
  apply rimp_pure. intros ret_ty.
  eapply rimp_bind with (RA := eq).
  - destruct (last (map Some body) None) as [[]|]; try apply rimp_eq.
    apply rimp_map_last_expr. intro e0. apply rimp_check_type.
  - intros b1 b1' <-. cbn [rimp]. split; [reflexivity|exact Ht1].
Qed.

(* ACCEPTED IN ONE STATE => ACCEPTED (with K more fuel, same result) IN THE OTHER *)
Theorem check_imp f : (f <= fb)%nat -> GE f /\ GSS f /\ GB f /\ GS f /\ GF f.
Proof.
  induction f as [|f IH]; intro Hle; [|destruct (IH ltac:(lia)) as (IHe & IHss & IHb & IHs & IHf)].
  { repeat split; intros ? ? ? ? ?; try intro; try intro; exact I. }
  pose proof (imp_stmts f IHs) as [H1 H2].
  split; [apply imp_expr; assumption|]. split; [exact H1|]. split; [exact H2|].
  split; [apply imp_stmt; assumption|apply imp_fn; assumption].
Qed.
End Imp.
End Deep.

(* ================================================================ re-checking by induction on the rank *)

Section Rank.
Variable intern : list N -> N.
Variable D : defs.
Variable f : nat.                         (* the fuel of the accepting run *)
Variable rk : list N -> nat.              (* decreases along every syntactic call *)
Notation Cgood := (Cgood intern D).
Notation Closed := (Deep.Closed intern D f).
Notation UK := (Deep.UK intern D f).
Hypothesis ND : NoDup (map uf_name (d_fns D)).
Hypothesis Hrank : forall fd, In fd (d_fns D) ->
  forallb (okc_s (fun id => Nat.ltb (rk id) (rk (uf_name fd)))) (uf_body fd) = true.
Hypothesis Hwit : forall fd, In fd (d_fns D) -> exists t0, canonb intern D f (uf_name fd) t0.

(* everything being checked has rank at least R *)
Definition geq (R : nat) (c : list (list N)) : Prop := forall n, memL n c = true -> (R <= rk n)%nat.

Lemma recheck_rank : forall r c, rk (uf_name c) = r -> In c (d_fns D) ->
  forall F st', (S r * f <= F)%nat -> Cgood (st_typed st') -> Closed (st_typed st') -> geq (S r) (st_checking st') ->
  exists r', check_fn intern F D st' c = COk r' /\ Closed (st_typed (snd r')) /\ UK (uf_name c) (st_typed (snd r')).
Proof.
  induction r as [r IH] using lt_wf_ind. intros c Hr Hin F st' HF HC' HCl' Hg.
  assert (Hfc : find (fun d => list_eqb (uf_name d) (uf_name c)) (d_fns D) = Some c) by (apply find_by_name; assumption).
  assert (Hm : memL (uf_name c) (st_checking st') = false).
  { destruct (memL (uf_name c) (st_checking st')) eqn:E; [|reflexivity]. specialize (Hg _ E). lia. }
  assert (HP : geq r (uf_name c :: st_checking st')).
  { intros n Hn. change (memL n (uf_name c :: st_checking st')) with (list_eqb n (uf_name c) || memL n (st_checking st')) in Hn.
    apply orb_true_iff in Hn. destruct Hn as [Hn|Hn]; [apply list_eqb_eq in Hn; subst n; lia|specialize (Hg _ Hn); lia]. }
  (* one first-run check of c (fuel <= f) transfers to st' with fuel F *)
  assert (Core : forall F1 st1 r1, (F1 <= f)%nat -> Cgood (st_typed st1) -> check_fn intern F1 D st1 c = COk r1 ->
            exists r', check_fn intern F D st' c = COk r' /\ Closed (st_typed (snd r')) /\
              (forall n, defd n (st_typed (snd r1)) -> defd n (st_typed st1) \/ defd n (st_typed (snd r')))).
  { intros F1 st1 r1 HF1 HC1 Hr1.
    assert (Hcallee : forall id fd F' st2, Nat.ltb (rk id) (rk (uf_name c)) = true ->
      find (fun d => list_eqb (uf_name d) id) (d_fns D) = Some fd ->
      (F - F1 <= F')%nat -> Cgood (st_typed st2) -> Closed (st_typed st2) -> geq r (st_checking st2) ->
      exists r2, check_fn intern F' D st2 fd = COk r2 /\ Closed (st_typed (snd r2)) /\ UK id (st_typed (snd r2))).
    { intros id fd F' st2 Hlt Hf HF' HC2 HCl2 Hg2. apply Nat.ltb_lt in Hlt. rewrite Hr in Hlt.
      pose proof Hf as Hf'. apply find_some in Hf'. destruct Hf' as [Hinf En]. apply list_eqb_eq in En. subst id.
      apply (IH (rk (uf_name fd)) Hlt fd eq_refl Hinf F' st2); try assumption.
      - assert (S (rk (uf_name fd)) * f <= r * f)%nat by (apply Nat.mul_le_mono_r; lia). cbn [Nat.mul] in HF. lia.
      - intros n Hn. specialize (Hg2 n Hn). lia. }
    pose proof (Deep.check_imp intern D (F - F1) (fun id => Nat.ltb (rk id) (rk (uf_name c))) (geq r) (st_typed st1) f Hcallee F1 HF1)
      as (_ & _ & _ & _ & HGF).
    specialize (HGF st1 st' c).
    assert (HR : Deep.Rt intern D (st_typed st1) f (st_typed st1) (st_typed st')).
    { split; [exact HC1|]. split; [exact HC'|]. split; [exact HCl'|]. intros n Hn. now left. }
    specialize (HGF HR HP Hm (Hrank c Hin)). rewrite Hr1 in HGF. cbn [Deep.rimp] in HGF.
    replace (F1 + (F - F1))%nat with F in HGF by (cbn [Nat.mul] in HF; lia).
    destruct (check_fn intern F D st' c) as [r'| | |]; try contradiction.
    exists r'. split; [reflexivity|]. destruct HGF as [_ (_ & _ & HClr & HKr)]. split; assumption. }
  destruct (Hwit c Hin) as [t0 Ht0]. inversion Ht0 as [w st0 fd0 id0 r0 Hw Hf0 HC0 Hr0]. subst.
  rewrite Hfc in Hf0. injection Hf0 as <-.
  destruct (Core w st0 r0 Hw (Cgoodb_Cgood intern D f _ HC0) Hr0) as (r' & Er' & HClr & _).
  exists r'. split; [exact Er'|]. split; [exact HClr|].
  intros F1 st1 r1 fd HF1 Hfd HC1 Hr1 n Hn. rewrite Hfc in Hfd. injection Hfd as <-.
  destruct (Core F1 st1 r1 HF1 HC1 Hr1) as (r'' & Er'' & _ & HK''). rewrite Er' in Er''. injection Er'' as <-.
  exact (HK'' n Hn).
Qed.
End Rank.

(* ================================================================ the loop in the other order *)

Section LoopQ.
Variable intern : list N -> N.
Variable D : defs.
Variable f : nat.
Variable rk : list N -> nat.
Variable F : nat.
Notation Cgood := (Cgood intern D).
Notation Closed := (Deep.Closed intern D f).
Hypothesis ND : NoDup (map uf_name (d_fns D)).
Hypothesis Hrank : forall fd, In fd (d_fns D) ->
  forallb (okc_s (fun id => Nat.ltb (rk id) (rk (uf_name fd)))) (uf_body fd) = true.
Hypothesis Hwit : forall fd, In fd (d_fns D) -> exists t0, canonb intern D f (uf_name fd) t0.
Hypothesis HF : forall fd, In fd (d_fns D) -> (S (rk (uf_name fd)) * f <= F)%nat.

Lemma Closed_ext T T' : (forall n, defd n T <-> defd n T') -> Closed T -> Closed T'.
Proof.
  intros He HC id Hid. apply He in Hid. eapply Deep.UK_mono; [apply HC; exact Hid|]. intros n Hn. apply He. exact Hn.
Qed.

Lemma pub_go_Q2 : forall fns st',
  (forall fd, In fd fns -> In fd (d_fns D)) ->
  (forall fd, In fd fns -> uf_pub fd = true -> uf_params fd <> []) ->
  Cgood (st_typed st') -> Closed (st_typed st') -> st_checking st' = [] ->
  exists st'', pub_go intern F D fns st' = COk st'' /\ Cgood (st_typed st'') /\ Closed (st_typed st'') /\ st_checking st'' = [] /\
    (forall n, defd n (st_typed st') -> defd n (st_typed st'')) /\
    (forall fd, In fd fns -> uf_pub fd = true -> defd (uf_name fd) (st_typed st'')).
Proof.
  induction fns as [|fd fns IH]; intros st' Hin Hpar HC HCl Hck; cbn [pub_go].
  - exists st'. split; [reflexivity|]. split; [exact HC|]. split; [exact HCl|]. split; [exact Hck|]. split; [auto|intros ? []].
  - assert (Hin' : forall fd0, In fd0 fns -> In fd0 (d_fns D)) by (intros; apply Hin; now right).
    assert (Hpar' : forall fd0, In fd0 fns -> uf_pub fd0 = true -> uf_params fd0 <> []) by (intros; apply Hpar; [now right|assumption]).
    destruct (uf_pub fd) eqn:Epub.
    + pose proof (Hpar fd (or_introl eq_refl) Epub) as Hp0. destruct (uf_params fd) eqn:Epar; [congruence|].
      assert (Hg : geq rk (S (rk (uf_name fd))) (st_checking st')) by (rewrite Hck; intros n Hn; discriminate Hn).
      destruct (recheck_rank intern D f rk ND Hrank Hwit (rk (uf_name fd)) fd eq_refl (Hin fd (or_introl eq_refl)) F st'
                  (HF fd (Hin fd (or_introl eq_refl))) HC HCl Hg) as (r' & Er' & HClr & HUr).
      rewrite Er'. cbn [cbind].
      destruct (ins_right intern D F st' fd (uf_name fd) r' (find_by_name _ ND fd (Hin fd (or_introl eq_refl))) HC Er') as [HC2 _].
      destruct (check_fn_frame _ _ _ _ _ _ Er') as [_ Hck'].
      destruct (proj2 (proj2 (proj2 (proj2 (check_ext intern D F)))) _ _ _ Er') as [(_ & _ & X3 & _) _].
      cbn [tc_of fst snd] in X3.
      set (T1 := (uf_name fd, fst r') :: filter (fun nd => negb (list_eqb (fst nd) (uf_name fd))) (st_typed (snd r'))) in *.
      assert (HCT : Cgood T1).
      { unfold T1. inversion HC2 as [|? ? Hhd Htl]; subst. constructor; [exact Hhd|]. apply Forall_filter. exact Htl. }
      assert (HClT : Closed T1).
      { apply (Closed_ext ((uf_name fd, fst r') :: st_typed (snd r'))); [|apply Deep.Closed_cons; assumption].
        intro n. unfold T1. rewrite defd_cons_filter. apply Deep.defd_cons. }
      destruct (IH (mkSt (st_env (snd r')) T1 (st_checking (snd r'))) Hin' Hpar' HCT HClT ltac:(cbn [st_checking]; congruence))
        as (st'' & Ego & B1 & B2 & B3 & B4 & B5).
      cbn [st_typed] in *. exists st''. split; [exact Ego|]. split; [exact B1|]. split; [exact B2|]. split; [exact B3|]. split.
      * intros n Hn. apply B4. unfold T1. apply defd_cons_filter. right. apply X3. exact Hn.
      * intros fd0 [<-|Hi] Hp1; [|apply B5; assumption]. apply B4. unfold T1. apply defd_cons_filter. now left.
    + destruct (IH st' Hin' Hpar' HC HCl Hck) as (st'' & Ego & B1 & B2 & B3 & B4 & B5).
      exists st''. split; [exact Ego|]. split; [exact B1|]. split; [exact B2|]. split; [exact B3|]. split; [exact B4|].
      intros fd0 [<-|Hi] Hp1; [congruence|apply B5; assumption].
Qed.
End LoopQ.

(* ================================================================ the program *)

(* [rk] decreases along every syntactic call: the call graph is acyclic *)
Definition ranked (P : uprogram) (rk : list N -> nat) : bool :=
  forallb (fun fd => forallb (okc_s (fun id => Nat.ltb (rk id) (rk (uf_name fd)))) (uf_body fd)) (up_fns P).
Definition rank_bound (P : uprogram) (rk : list N -> nat) : nat := list_max (map (fun fd => rk (uf_name fd)) (up_fns P)).

Lemma in_list_max {A} (g : A -> nat) l x : In x l -> (g x <= list_max (map g l))%nat.
Proof.
  intro H. assert (E : (list_max (map g l) <= list_max (map g l))%nat) by lia.
  apply list_max_le in E. rewrite Forall_map in E. rewrite Forall_forall in E. apply E, H.
Qed.

Theorem check_perm_accept_ranked intern P Q f TP rk :
  (forall a b, intern a = intern b -> a = b) ->
  up_consts Q = up_consts P -> up_main Q = up_main P ->
  Permutation (up_fns P) (up_fns Q) -> Permutation (up_structs P) (up_structs Q) -> Permutation (up_enums P) (up_enums Q) ->
  NoDup (map uf_name (up_fns P)) -> NoDup (map us_name (up_structs P)) -> NoDup (map ue_name (up_enums P)) ->
  ranked P rk = true ->
  check_program_t intern f P = COk TP -> is_ok (check_program_t intern (S (rank_bound P rk) * f) Q) = true.
Proof.
  intros intern_inj Hconsts Hmain Hfns Hstructs Henums ND_fns ND_structs ND_enums Hdepth EP.
  set (Ft := (S (rank_bound P rk) * f)%nat).
  assert (HFt : Ft = (f + (Ft - f))%nat) by (unfold Ft; cbn [Nat.mul]; lia).
  rewrite check_program_t_unfold in EP. rewrite check_program_t_unfold. rewrite Hconsts, Hmain.
  assert (Msn : forall n, memL n (map us_name (up_structs Q)) = memL n (map us_name (up_structs P)))
    by (intro n; symmetry; apply memL_perm, Permutation_map, Hstructs).
  assert (Men : forall n, memL n (map ue_name (up_enums Q)) = memL n (map ue_name (up_enums P)))
    by (intro n; symmetry; apply memL_perm, Permutation_map, Henums).
  destruct (check_consts (up_consts P) []) as [consts| | |]; cbn [cbind] in EP |- *; try discriminate EP.
  (* structs, enums *)
  destruct (mapM (check_struct_def (map us_name (up_structs P)) (map ue_name (up_enums P))) (up_structs P)) as [structs| | |] eqn:Es;
    cbn [cbind] in EP; try discriminate EP.
  rewrite (mapM_ext (check_struct_def (map us_name (up_structs Q)) (map ue_name (up_enums Q)))
                    (check_struct_def (map us_name (up_structs P)) (map ue_name (up_enums P))))
    by (intros; apply check_struct_def_eq; assumption).
  pose proof (mapM_perm (check_struct_def (map us_name (up_structs P)) (map ue_name (up_enums P))) _ _ Hstructs) as Ps.
  rewrite Es in Ps. destruct (mapM _ (up_structs Q)) as [structs'| | |]; try contradiction. cbn [cbind].
  assert (Ns : map fst structs = map us_name (up_structs P)) by (eapply mapM_names; [|exact Es]; intros x r; apply struct_def_name).
  destruct (mapM (check_enum_def (map us_name (up_structs P)) (map ue_name (up_enums P))) (up_enums P)) as [enums| | |] eqn:Ee;
    cbn [cbind] in EP; try discriminate EP.
  rewrite (mapM_ext (check_enum_def (map us_name (up_structs Q)) (map ue_name (up_enums Q)))
                    (check_enum_def (map us_name (up_structs P)) (map ue_name (up_enums P))))
    by (intros; apply check_enum_def_eq; assumption).
  pose proof (mapM_perm (check_enum_def (map us_name (up_structs P)) (map ue_name (up_enums P))) _ _ Henums) as Pe.
  rewrite Ee in Pe. destruct (mapM _ (up_enums Q)) as [enums'| | |]; try contradiction. cbn [cbind].
  assert (Ne : map fst enums = map ue_name (up_enums P)) by (eapply mapM_names; [|exact Ee]; intros x r; apply enum_def_name).
  assert (NDs : NoDup (map fst structs)) by (rewrite Ns; exact ND_structs).
  assert (NDe : NoDup (map fst enums)) by (rewrite Ne; exact ND_enums).
  assert (As : forall n, assocL n structs' = assocL n structs) by (intro n; symmetry; apply assocL_perm; assumption).
  assert (Ae : forall n, assocL n enums' = assocL n enums) by (intro n; symmetry; apply assocL_perm; assumption).
  (* recursive type definitions *)
  destruct (mapM (rec_check f structs enums) (map fst structs ++ map fst enums)) as [ru| | |] eqn:Er; cbn [cbind] in EP; try discriminate EP.
  rewrite (mapM_ext (rec_check Ft structs' enums') (rec_check Ft structs enums)).
  2:{ intros x _. unfold rec_check. rewrite As. cbv zeta. rewrite (contains_type_def_eq structs enums structs' enums' x As Ae). reflexivity. }
  destruct (mapM_unit_ok (rec_check Ft structs enums) (map fst structs' ++ map fst enums')) as [ru' Eru'].
  { intros x Hx. rewrite HFt. apply rec_check_le. eapply mapM_unit_all; [exact Er|].
    eapply Permutation_in; [|exact Hx]. apply Permutation_sym. apply Permutation_app; apply Permutation_map; assumption. }
  rewrite Eru'. cbn [cbind].
  (* the function loops *)
  set (D := defs_of P consts structs enums) in *. set (D' := defs_of Q consts structs' enums').
  assert (Hfind : forall id, find (fun d => list_eqb (uf_name d) id) (d_fns D') = find (fun d => list_eqb (uf_name d) id) (d_fns D))
    by (intro id; symmetry; apply find_fn_perm; assumption).
  assert (Hexh : forall ps ty, check_exhaustiveness intern D' ps ty = check_exhaustiveness intern D ps ty)
    by (intros; symmetry; apply check_exhaustiveness_perm; assumption).
  assert (HDeq : forall st fd, check_fn intern Ft D' st fd = check_fn intern Ft D st fd).
  { intros st fd.
    pose proof (check_rel intern D D' eq_refl As Ae Hfind Msn Men Hexh false eq
                  (fun _ t t' E n => f_equal (assocL n) E) (fun _ t t' e E => f_equal (cons e) E) Ft) as (_ & _ & _ & _ & HF).
    specialize (HF st st fd ltac:(repeat split) ltac:(discriminate)).
    destruct (check_fn intern Ft D st fd) as [[t1 [g1 ty1 c1]]| | |], (check_fn intern Ft D' st fd) as [[t2 [g2 ty2 c2]]| | |];
      cbn [InferPerm.rres] in HF; try contradiction; try reflexivity; try congruence.
    destruct HF as [E1 (E2 & E3 & E4)]. cbn [fst snd st_env st_checking st_typed] in *. congruence. }
  rewrite (pub_go_D_eq intern Ft D D' HDeq).
  change (d_fns D) with (up_fns P) in *.
  assert (FP : forall fd, In fd (up_fns P) -> find (fun d => list_eqb (uf_name d) (uf_name fd)) (d_fns D) = Some fd)
    by (intros fd Hin; apply (find_by_name _ ND_fns fd Hin)).
  destruct (pub_go intern f D (up_fns P) (mkSt env_new [] [])) as [stP| | |] eqn:Eg; cbn [cbind] in EP; try discriminate EP.
  destruct (existsb _ (up_fns P)) eqn:UP; [discriminate EP|]. clear EP.
  destruct (pub_go_P intern D f (up_fns P) (mkSt env_new [] []) stP FP (Forall_nil _) eq_refl Eg) as (CbP & _ & WP & TrP).
  destruct (pub_go_good intern D constrain_type_det constrain_to_i32_det f (up_fns P) (mkSt env_new [] []) stP FP (Forall_nil _) (NoDup_nil _) eq_refl Eg)
    as (_ & _ & _ & PubP).
  assert (AllP : forall fd, In fd (up_fns P) -> defd (uf_name fd) (st_typed stP)).
  { intros fd Hin. destruct (uf_pub fd) eqn:Ep; [apply PubP; assumption|].
    rewrite <- not_true_iff_false in UP. unfold defd. intro Hn. apply UP. apply existsb_exists. exists fd. split; [exact Hin|].
    rewrite Ep, Hn. reflexivity. }
  assert (Hwit : forall fd, In fd (d_fns D) -> exists t0, canonb intern D f (uf_name fd) t0).
  { intros fd Hin. specialize (AllP fd Hin). unfold defd in AllP. destruct (assocL (uf_name fd) (st_typed stP)) as [t0|] eqn:E0; [|congruence].
    exists t0. apply assocL_In in E0. unfold Cgoodb in CbP. rewrite Forall_forall in CbP. exact (CbP _ E0). }
  assert (Hrank : forall fd, In fd (d_fns D) ->
            forallb (okc_s (fun id => Nat.ltb (rk id) (rk (uf_name fd)))) (uf_body fd) = true).
  { intros fd Hin. unfold ranked in Hdepth. exact (forallb_In _ _ _ Hdepth Hin). }
  assert (HFr : forall fd, In fd (d_fns D) -> (S (rk (uf_name fd)) * f <= Ft)%nat).
  { intros fd Hin. unfold Ft. apply Nat.mul_le_mono_r. apply le_n_S. unfold rank_bound.
    apply (in_list_max (fun fd0 => rk (uf_name fd0)) (up_fns P) fd Hin). }
  assert (InQ : forall fd, In fd (up_fns Q) -> In fd (d_fns D))
    by (intros fd Hin; eapply Permutation_in; [apply Permutation_sym; exact Hfns|exact Hin]).
  assert (Cl0 : Deep.Closed intern D f (@nil (list N * tfndef))) by (intros id Hid; exfalso; apply Hid; reflexivity).
  destruct (pub_go_Q2 intern D f rk Ft ND_fns Hrank Hwit HFr (up_fns Q) (mkSt env_new [] []) InQ
              (fun fd Hin Hp => proj1 (WP fd (InQ fd Hin) Hp)) (Forall_nil _) Cl0 eq_refl) as (stQ & EgQ & _ & ClQ & _ & _ & PubQ).
  assert (KeysQ : forall g st1 r1, In g (up_fns Q) -> uf_pub g = true -> Cgood intern D (st_typed st1) ->
            check_fn intern f D st1 g = COk r1 -> forall n, defd n (st_typed (snd r1)) -> defd n (st_typed st1) \/ defd n (st_typed stQ)).
  { intros g st1 r1 HgQ Hpg HCg Hrg n Hn.
    exact (ClQ (uf_name g) (PubQ g HgQ Hpg) f st1 r1 g (le_n f) (FP g (InQ g HgQ)) HCg Hrg n Hn). }
  rewrite EgQ. cbn [cbind].
  (* no unused function in the other order either *)
  assert (UQ : existsb (fun fd => negb (uf_pub fd) && negb match assocL (uf_name fd) (st_typed stQ) with Some _ => true | None => false end)
                 (up_fns Q) = false).
  { apply not_true_iff_false. intro Hex. apply existsb_exists in Hex. destruct Hex as (fd & Hin & Hb).
    apply andb_true_iff in Hb. destruct Hb as [Hnp Hnd]. apply negb_true_iff in Hnp.
    destruct (assocL (uf_name fd) (st_typed stQ)) eqn:EQ; [discriminate Hnd|].
    assert (HdQ : defd (uf_name fd) (st_typed stQ)).
    { destruct (TrP (uf_name fd) (AllP fd (InQ fd Hin))) as [H0|(g & st1 & r1 & Hg & Hpg & HCg & Hrg & Hor & Hnd1)].
      - exfalso. apply H0. reflexivity.
      - assert (HgQ : In g (up_fns Q)) by (eapply Permutation_in; [exact Hfns|exact Hg]).
        destruct Hor as [E|Hd]; [rewrite E; apply PubQ; assumption|].
        destruct (KeysQ g st1 r1 HgQ Hpg HCg Hrg _ Hd) as [H1|H1]; [contradiction|exact H1]. }
    apply HdQ. exact EQ. }
  rewrite UQ. reflexivity.
Qed.


Print Assumptions check_perm_accept_ranked.

(* with check_perm_export_final: accepted in the other order, with the same exported program *)
Corollary check_perm_ranked intern P Q f A rk :
  (forall a b, intern a = intern b -> a = b) ->
  up_consts Q = up_consts P -> up_main Q = up_main P ->
  Permutation (up_fns P) (up_fns Q) -> Permutation (up_structs P) (up_structs Q) -> Permutation (up_enums P) (up_enums Q) ->
  NoDup (map uf_name (up_fns P)) -> NoDup (map us_name (up_structs P)) -> NoDup (map ue_name (up_enums P)) ->
  ranked P rk = true ->
  check_program intern f P = COk A -> check_program intern (S (rank_bound P rk) * f) Q = COk A.
Proof.
  intros Hi H1 H2 H3 H4 H5 H6 H7 H8 Hd EP.
  assert (exists TP, check_program_t intern f P = COk TP) as [TP ETP].
  { unfold check_program in EP. destruct (check_program_t intern f P) as [TP| | |]; try discriminate EP. eauto. }
  pose proof (check_perm_accept_ranked intern P Q f TP rk Hi H1 H2 H3 H4 H5 H6 H7 H8 Hd ETP) as HQ.
  unfold check_program in *. destruct (check_program_t intern (S (rank_bound P rk) * f) Q) as [TQ| | |] eqn:EQ; try discriminate HQ. cbn [cbind].
  f_equal. symmetry.
  apply (check_perm_export_final intern P Q f (S (rank_bound P rk) * f) A (export_program intern TQ) Hi H1 H2 H3 H4 H5 H6 H7 H8 EP).
  unfold check_program. rewrite EQ. reflexivity.
Qed.
Print Assumptions check_perm_ranked.

(* ================================================================ a computable acyclicity test *)

Section Mono.
Variables Hc Hc' : list N -> bool.
Hypothesis Himp : forall id, Hc id = true -> Hc' id = true.

Ltac lstm := match goal with |- forallb _ ?l = true -> forallb _ ?l = true =>
  let y0 := fresh "y" in let ys := fresh "ys" in let IHys := fresh "IHys" in let A := fresh "A" in let B := fresh "B" in
  induction l as [|y0 ys IHys]; cbn [forallb snd]; [auto|]; rewrite !andb_true_iff; intros [A B]; split; [revert A|apply IHys; exact B] end.

Lemma okc_mono_x : forall e, okc_x Hc e = true -> okc_x Hc' e = true
with okc_mono_s : forall s, okc_s Hc s = true -> okc_s Hc' s = true
with okc_mono_a : forall a, okc_a Hc a = true -> okc_a Hc' a = true.
Proof.
  - intros e. destruct e; cbn [okc_x]; try (intros _; reflexivity); try (destruct args);
      rewrite ?andb_true_iff;
      try (intros [[A1 A2] A3]; repeat split; apply okc_mono_x; assumption);
      try (intros [A1 A2]; split; first [apply okc_mono_x; assumption | apply Himp; assumption | revert A2; lstm; apply okc_mono_x]);
      try apply okc_mono_x; try (lstm; first [apply okc_mono_x | apply okc_mono_s]); auto.
  - intros s. destruct s; cbn [okc_s]; rewrite ?andb_true_iff;
      try apply okc_mono_x;
      intros [A1 A2]; split; first [apply okc_mono_x; assumption | revert A1; lstm; apply okc_mono_a | revert A2; lstm; apply okc_mono_s].
  - intros a. destruct a; cbn [okc_a]; [apply okc_mono_x|auto|auto].
Qed.
End Mono.

(* [lvl fns k id]: the calls below the function [id] nest less than k deep *)
Fixpoint lvl (fns : list ufndef) (k : nat) (id : list N) : bool :=
  match k with
  | O => false
  | S k' => match find (fun d => list_eqb (uf_name d) id) fns with
            | Some fd => forallb (okc_s (lvl fns k')) (uf_body fd)
            | None => false
            end
  end.

(* the least k (below n more steps from k) with lvl (S k) id *)
Fixpoint first_lvl (fns : list ufndef) (id : list N) (n k : nat) : nat :=
  match n with
  | O => k
  | S n' => if lvl fns (S k) id then k else first_lvl fns id n' (S k)
  end.
Definition call_rank (fns : list ufndef) (id : list N) : nat := first_lvl fns id (length fns) 0.

(* every function's calls nest less than (number of functions) deep: no cycle *)
Definition call_graph_acyclic (P : uprogram) : bool :=
  forallb (fun fd => lvl (up_fns P) (length (up_fns P)) (uf_name fd)) (up_fns P).

Lemma lvl_S fns : forall k id, lvl fns k id = true -> lvl fns (S k) id = true.
Proof.
  induction k as [|k IH]; intros id H; [discriminate H|]. cbn [lvl] in *.
  destruct (find _ fns) as [fd|]; [|discriminate H]. revert H.
  induction (uf_body fd) as [|s b IHb]; cbn [forallb]; [auto|]. rewrite !andb_true_iff. intros [A B].
  split; [exact (okc_mono_s _ _ IH s A)|apply IHb; exact B].
Qed.

Lemma lvl_le fns k k' id : (k <= k')%nat -> lvl fns k id = true -> lvl fns k' id = true.
Proof. induction 1 as [|k' _ IH]; [auto|]. intro H. apply lvl_S, IH, H. Qed.

Lemma first_lvl_spec fns id : forall n k j, (k < j)%nat -> (j <= k + n)%nat -> lvl fns j id = true ->
  (forall i, (i <= k)%nat -> lvl fns i id = false) ->
  let r := first_lvl fns id n k in (r < j)%nat /\ lvl fns (S r) id = true /\ (forall i, (i <= r)%nat -> lvl fns i id = false).
Proof.
  induction n as [|n IH]; intros k j Hkj Hjn Hj Hlow; [lia|]. cbn [first_lvl]. cbv zeta.
  destruct (lvl fns (S k) id) eqn:E.
  - split; [exact Hkj|]. split; [exact E|exact Hlow].
  - assert (Hk1 : (S k < j)%nat).
    { destruct (Nat.eq_dec j (S k)) as [->|Hne]; [congruence|lia]. }
    apply (IH (S k) j Hk1 ltac:(lia) Hj). intros i Hi. destruct (Nat.eq_dec i (S k)) as [->|Hne]; [exact E|apply Hlow; lia].
Qed.

Lemma body_mono_s Hc Hc' b : (forall id, Hc id = true -> Hc' id = true) ->
  forallb (okc_s Hc) b = true -> forallb (okc_s Hc') b = true.
Proof.
  intro H. induction b as [|s b IH]; cbn [forallb]; [auto|]. rewrite !andb_true_iff. intros [A B].
  split; [exact (okc_mono_s _ _ H s A)|apply IH; exact B].
Qed.

Theorem acyclic_ranked P : NoDup (map uf_name (up_fns P)) -> call_graph_acyclic P = true ->
  ranked P (call_rank (up_fns P)) = true /\ (rank_bound P (call_rank (up_fns P)) <= length (up_fns P))%nat.
Proof.
  intros ND Hac. set (fns := up_fns P) in *. set (Nf := length fns).
  assert (Spec : forall id j, (0 < j)%nat -> (j <= Nf)%nat -> lvl fns j id = true ->
            (call_rank fns id < j)%nat /\ lvl fns (S (call_rank fns id)) id = true /\
            (forall i, (i <= call_rank fns id)%nat -> lvl fns i id = false)).
  { intros id j H0 HN Hj. unfold call_rank. apply (first_lvl_spec fns id Nf 0 j H0 ltac:(lia) Hj).
    intros i Hi. assert (i = 0)%nat by lia. subst i. reflexivity. }
  assert (Hall : forall fd, In fd fns -> lvl fns Nf (uf_name fd) = true) by (intros fd Hin; exact (forallb_In _ _ _ Hac Hin)).
  assert (HNpos : forall fd, In fd fns -> (0 < Nf)%nat) by (intros fd Hin; unfold Nf; destruct fns; [destruct Hin|cbn [length]; lia]).
  split.
  - unfold ranked. apply forallb_forall. intros fd Hin.
    destruct (Spec (uf_name fd) Nf (HNpos fd Hin) (le_n _) (Hall fd Hin)) as (Hlt & Hs & _).
    cbn [lvl] in Hs. fold fns in Hs. rewrite (find_by_name fns ND fd Hin) in Hs.
    eapply body_mono_s; [|exact Hs]. intros id Hid. cbv beta. apply Nat.ltb_lt.
    set (r := call_rank fns (uf_name fd)) in *.
    destruct r as [|r']; [discriminate Hid|].
    exact (proj1 (Spec id (S r') ltac:(lia) ltac:(lia) Hid)).
  - unfold rank_bound. fold fns. fold Nf. apply list_max_le. rewrite Forall_map. apply Forall_forall. intros fd Hin.
    destruct (Spec (uf_name fd) Nf (HNpos fd Hin) (le_n _) (Hall fd Hin)) as (Hlt & _). lia.
Qed.

(* ACCEPTANCE DOES NOT DEPEND ON THE ORDER OF THE MAPS (programs whose syntactic call graph is acyclic):
   accepted with fuel f => every reordering is accepted with fuel (number of functions + 1) * f *)
Theorem check_perm_accept intern P Q f TP :
  (forall a b, intern a = intern b -> a = b) ->
  up_consts Q = up_consts P -> up_main Q = up_main P ->
  Permutation (up_fns P) (up_fns Q) -> Permutation (up_structs P) (up_structs Q) -> Permutation (up_enums P) (up_enums Q) ->
  NoDup (map uf_name (up_fns P)) -> NoDup (map us_name (up_structs P)) -> NoDup (map ue_name (up_enums P)) ->
  call_graph_acyclic P = true ->
  check_program_t intern f P = COk TP -> is_ok (check_program_t intern (S (length (up_fns P)) * f) Q) = true.
Proof.
  intros Hi H1 H2 H3 H4 H5 H6 H7 H8 Hac EP.
  destruct (acyclic_ranked P H6 Hac) as [Hr Hb].
  pose proof (check_perm_accept_ranked intern P Q f TP (call_rank (up_fns P)) Hi H1 H2 H3 H4 H5 H6 H7 H8 Hr EP) as HQ.
  assert (Hle : (S (rank_bound P (call_rank (up_fns P))) * f <= S (length (up_fns P)) * f)%nat) by (apply Nat.mul_le_mono_r; lia).
  destruct (le_check_program_t_le intern Q _ _ Hle) as [E|E]; [rewrite E in HQ; discriminate HQ|]. rewrite E. exact HQ.
Qed.

Corollary check_perm_final intern P Q f A :
  (forall a b, intern a = intern b -> a = b) ->
  up_consts Q = up_consts P -> up_main Q = up_main P ->
  Permutation (up_fns P) (up_fns Q) -> Permutation (up_structs P) (up_structs Q) -> Permutation (up_enums P) (up_enums Q) ->
  NoDup (map uf_name (up_fns P)) -> NoDup (map us_name (up_structs P)) -> NoDup (map ue_name (up_enums P)) ->
  call_graph_acyclic P = true ->
  check_program intern f P = COk A -> check_program intern (S (length (up_fns P)) * f) Q = COk A.
Proof.
  intros Hi H1 H2 H3 H4 H5 H6 H7 H8 Hd EP.
  assert (exists TP, check_program_t intern f P = COk TP) as [TP ETP].
  { unfold check_program in EP. destruct (check_program_t intern f P) as [TP| | |]; try discriminate EP. eauto. }
  pose proof (check_perm_accept intern P Q f TP Hi H1 H2 H3 H4 H5 H6 H7 H8 Hd ETP) as HQ.
  unfold check_program in *. destruct (check_program_t intern (S (length (up_fns P)) * f) Q) as [TQ| | |] eqn:EQ; try discriminate HQ. cbn [cbind].
  f_equal. symmetry.
  apply (check_perm_export_final intern P Q f (S (length (up_fns P)) * f) A (export_program intern TQ) Hi H1 H2 H3 H4 H5 H6 H7 H8 EP).
  unfold check_program. rewrite EQ. reflexivity.
Qed.

Print Assumptions Deep.check_imp.
Print Assumptions acyclic_ranked.
Print Assumptions check_perm_accept.
Print Assumptions check_perm_final.

(* the test on the examples: the call chain of InferPerm.PermExamples is acyclic, a recursion is not *)
From Coq Require Import String.
Module AcyclicExamples.
Local Open Scope string_scope.
Definition acyclic (txt : string) : option bool :=
  match PermExamples.parse_text txt with Some P => Some (call_graph_acyclic P) | None => None end.
Example chain_acyclic : acyclic PermExamples.t_calls = Some true.
Proof. vm_compute. reflexivity. Qed.
Example recursion_cyclic : acyclic "
  fn f(a: u8) -> u8 { g(a) }
  fn g(a: u8) -> u8 { f(a) }
  pub fn main(x: u8) -> u8 { f(x) }" = Some false.
Proof. vm_compute. reflexivity. Qed.
End AcyclicExamples.
