(* C06 with calls: the acyclicity premise of InferPerm5.check_perm_final follows from ACCEPTANCE.
   After a successful check every syntactic call target is defined in TypedFns.typed; the keys of
   typed can be enumerated so that the k-th one has calls nesting less than k deep (lvl). *)
From Coq Require Import Lia Bool Permutation.
From GV Require Import Base.Util Front.Scan Front.ParseExpr Check.UAst Check.Infer Check.InferProofs Check.InferSub
  Check.InferTotal Check.InferFuel2 Check.PermSort Check.PermExh Check.InferPerm Check.InferPerm2 Check.InferPermFinal
  Check.InferPerm3 Check.InferPerm4 Check.InferPerm5.
Local Open Scope N_scope.

Definition dfb {A} (T : list (list N * A)) (c : list N) : bool :=
  match assocL c T with Some _ => true | None => false end.

Lemma dfb_defd {A} (T : list (list N * A)) c : dfb T c = true <-> defd c T.
Proof. unfold dfb, defd. destruct (assocL c T); split; congruence. Qed.

(* the keys, enumerated so that the k-th inserted has call depth < k *)
Definition PosLv (fns : list ufndef) (l : list (list N)) : Prop :=
  forall A id B, l = (A ++ id :: B)%list -> lvl fns (S (length B)) id = true.
Definition Inv {A} (fns : list ufndef) (T : list (list N * A)) : Prop :=
  exists l, Permutation l (map fst T) /\ PosLv fns l.

Lemma PosLv_in fns l id : PosLv fns l -> In id l -> lvl fns (length l) id = true.
Proof.
  intros H Hin. apply in_split in Hin. destruct Hin as (A & B & ->).
  eapply lvl_le; [|exact (H A id B eq_refl)]. rewrite app_length. cbn [length]. lia.
Qed.

Lemma PosLv_cons fns l id : PosLv fns l -> lvl fns (S (length l)) id = true -> PosLv fns (id :: l).
Proof.
  intros H Hid A x B E. destruct A as [|a A]; cbn [app] in E.
  - injection E as <- <-. exact Hid.
  - injection E as _ E. exact (H A x B E).
Qed.

Section Acyc.
Variable intern : list N -> N.
Variable D : defs.
Notation fns := (d_fns D).
Notation check_expr := (check_expr intern).
Notation check_stmt := (check_stmt intern).
Notation check_stmts := (check_stmts intern).
Notation check_block := (check_block intern).
Notation check_fn := (check_fn intern).
Notation Ext := (Ext intern D).

Definition PX (s : cstate) (e : xexpr) : Prop := okc_x (dfb (st_typed s)) e = true.
Definition PS (s : cstate) (x : xstmt) : Prop := okc_s (dfb (st_typed s)) x = true.
Definition PB (s : cstate) (b : list xstmt) : Prop := forallb (okc_s (dfb (st_typed s))) b = true.
Definition R (st st' : cstate) : Prop := Inv fns (st_typed st) -> Inv fns (st_typed st').

Lemma dfb_mono st st' : Ext st st' -> forall c, dfb (st_typed st) c = true -> dfb (st_typed st') c = true.
Proof. intros (_ & _ & E3 & _) c H. apply dfb_defd. apply E3. apply dfb_defd. exact H. Qed.

Lemma PXm st st' e : Ext st st' -> PX st e -> PX st' e.
Proof. intros HE. apply okc_mono_x. apply dfb_mono. exact HE. Qed.
Lemma PSm st st' x : Ext st st' -> PS st x -> PS st' x.
Proof. intros HE. apply okc_mono_s. apply dfb_mono. exact HE. Qed.
Lemma PBm st st' b : Ext st st' -> PB st b -> PB st' b.
Proof. intros HE. apply body_mono_s. apply dfb_mono. exact HE. Qed.
Lemma PLm st st' es : Ext st st' -> forallb (okc_x (dfb (st_typed st))) es = true -> forallb (okc_x (dfb (st_typed st'))) es = true.
Proof.
  intros HE. induction es as [|y ys IH]; cbn [forallb]; [auto|]. rewrite !andb_true_iff. intros [A B].
  split; [exact (PXm _ _ _ HE A)|apply IH; exact B].
Qed.

Lemma R_refl st : R st st. Proof. unfold R; auto. Qed.
Lemma R_trans a b c : R a b -> R b c -> R a c. Proof. unfold R; auto. Qed.

(* a state-threading map: every element's property holds in the final state *)
Lemma mapM_st_post {A B} (g : cstate -> A -> cres (B * cstate)) (Q : cstate -> A -> Prop) :
  (forall st x r, g st x = COk r -> Q (snd r) x /\ R st (snd r)) ->
  (forall st x r, g st x = COk r -> Ext st (snd r)) ->
  (forall st st' x, Ext st st' -> Q st x -> Q st' x) ->
  forall l st r, mapM_st g st l = COk r -> (forall x, In x l -> Q (snd r) x) /\ R st (snd r) /\ Ext st (snd r).
Proof.
  intros Hg HE Hm. induction l as [|x l IH]; intros st r H; cbn [mapM_st] in H; inv_all.
  - split; [intros x []|]. split; [apply R_refl|apply ExtP_refl].
  - cbn [snd]. destruct (Hg _ _ _ Hb) as [Q1 R1]. pose proof (HE _ _ _ Hb) as E1.
    destruct (IH _ _ Hb0) as (Q2 & R2 & E2). split; [|split; [eapply R_trans; eassumption|eapply ExtP_trans; eassumption]].
    intros y [<-|Hy]; [eapply Hm; eassumption|apply Q2; exact Hy].
Qed.

Lemma forallb_of {A} (p : A -> bool) l : (forall x, In x l -> p x = true) -> forallb p l = true.
Proof. intro H. apply forallb_forall. exact H. Qed.
Ltac refold H :=
  fold (Infer.check_expr intern) (Infer.check_stmts intern) (Infer.check_block intern)
       (Infer.check_fn intern) (Infer.check_stmt intern) in H.

Ltac extsolve := unfold InferPerm2.Ext, tc_of in *; cbn [snd fst st_typed st_checking with_env] in *;
  eauto 8 using ExtP_refl, ExtP_trans.

Ltac okfin :=
  unfold PX, PS, PB in *; cbn [okc_x okc_s okc_a forallb snd fst st_typed with_env] in *;
  repeat rewrite andb_true_iff; repeat split;
  first [ reflexivity
        | eapply PXm; [|eassumption]; extsolve
        | eapply PLm; [|eassumption]; extsolve
        | eapply PBm; [|eassumption]; extsolve
        | assumption ].

Ltac rfin := unfold R in *; cbn [snd fst st_typed with_env] in *; eauto 12.

Definition TE f := forall st e r, check_expr f D st e = COk r -> PX (snd r) e /\ R st (snd r).
Definition TSS f := forall st b r, check_stmts f D st b = COk r -> PB (snd r) b /\ R st (snd r).
Definition TB f := forall st b r, check_block f D st b = COk r -> PB (snd r) b /\ R st (snd r).
Definition TS f := forall st s r, check_stmt f D st s = COk r -> PS (snd r) s /\ R st (snd r).
Definition TF f := forall st fd r, check_fn f D st fd = COk r -> PB (snd r) (uf_body fd) /\ R st (snd r).

Lemma list_post f (IHe : TE f) l st r : mapM_st (check_expr f D) st l = COk r ->
  forallb (okc_x (dfb (st_typed (snd r)))) l = true /\ R st (snd r) /\ Ext st (snd r).
Proof.
  intro H. destruct (mapM_st_post (check_expr f D) PX IHe (proj1 (check_ext intern D f)) PXm l st r H) as (Q & Rr & E).
  split; [apply forallb_of; exact Q|split; assumption].
Qed.


Lemma struct_lit_post f (IHe : TE f) sd : forall fields seen st r,
  struct_lit_loop (check_expr f D) f sd seen st fields = COk r ->
  forallb (fun fl => okc_x (dfb (st_typed (snd r))) (snd fl)) fields = true /\ R st (snd r) /\ Ext st (snd r).
Proof.
  induction fields as [|[fname fv] fields IH]; intros seen st r H; cbn [struct_lit_loop] in H; inv_all.
  - split; [reflexivity|]. split; [apply R_refl|apply ExtP_refl].
  - destruct (assocL fname sd); [|discriminate]. inv_all. cbn [snd forallb].
    pose proof (proj1 (check_ext intern D f) _ _ _ Hb) as E1. destruct (IHe _ _ _ Hb) as [Q1 R1].
    destruct (IH _ _ _ Hb1) as (Q2 & R2 & E2). split; [|split; [eapply R_trans; eassumption|eapply ExtP_trans; eassumption]].
    apply andb_true_iff. split; [exact (PXm _ _ _ E2 Q1)|exact Q2].
Qed.

Lemma Inv_insert (T : list (list N * tfndef)) id v fd :
  find (fun d => list_eqb (uf_name d) id) fns = Some fd ->
  forallb (okc_s (dfb T)) (uf_body fd) = true -> Inv fns T -> Inv fns ((id, v) :: T).
Proof.
  intros Hf Hb (l & Hp & Hl). exists (id :: l). split; [cbn [map fst]; constructor; exact Hp|].
  apply PosLv_cons; [exact Hl|]. cbn [lvl]. rewrite Hf. eapply body_mono_s; [|exact Hb].
  intros c Hc. apply PosLv_in; [exact Hl|]. eapply Permutation_in; [apply Permutation_sym; exact Hp|].
  apply defd_keys. apply dfb_defd. exact Hc.
Qed.

Ltac use_all IHe IHb f :=
  repeat match goal with
  | H : Infer.check_expr _ _ _ _ _ = COk _ |- _ =>
      let E := fresh "Ex" in pose proof (proj1 (check_ext intern D f) _ _ _ H) as E; apply IHe in H; destruct H as [? ?]
  | H : Infer.check_block _ _ _ _ _ = COk _ |- _ =>
      let E := fresh "Ex" in pose proof (proj1 (proj2 (proj2 (check_ext intern D f))) _ _ _ H) as E; apply IHb in H; destruct H as [? ?]
  | H : mapM_st (Infer.check_expr _ _ _) _ _ = COk _ |- _ => apply (list_post _ IHe) in H; destruct H as (? & ? & ?)
  end.

Ltac fin IHe IHb f := use_all IHe IHb f; (split; [okfin|rfin]).

Lemma acy_expr f : TE f -> TB f -> TF f -> TE (S f).
Proof.
  intros IHe IHb IHf st e r H. destruct e; cbn [Infer.check_expr] in H; refold H.
  all: try solve [inv_all; use_all IHe IHb f; (split; [okfin|rfin])].
  - destruct (env_get (st_env st) s) as [[? ?]|]; [inv_all; fin IHe IHb f|].
    destruct (assocL s (d_consts D)); inv_all; fin IHe IHb f.
  - inv_all. destruct (fst a) eqn:E; [discriminate|]. inv_all. fin IHe IHb f.
  - inv_all. destruct (nthN _ _); inv_all. fin IHe IHb f.
  - inv_all. destruct (assocL _ (d_structs D)); [|discriminate]. destruct (assocL _ _); inv_all. fin IHe IHb f.
  - destruct (assocL name (d_structs D)); [|discriminate]. inv_all.
    match goal with Hl : struct_lit_loop _ _ _ _ _ _ = COk _ |- _ => apply (struct_lit_post _ IHe) in Hl; destruct Hl as (? & ? & ?) end.
    split; [okfin|rfin].
  - destruct (assocL e (d_enums D)) as [ed|]; [|discriminate]. destruct (assocL v ed) as [[?|]|]; try discriminate;
      destruct args; try discriminate; inv_all; fin IHe IHb f.
  - (* match *)
    inv_all. destruct (ty_of (fst a)) eqn:Ety; try discriminate; inv_all;
    (destruct (fst a0) as [|[? ?] ?] eqn:E0; [discriminate|]; inv_all; cbn [snd];
     match goal with H1 : mapM_st _ _ _ = COk ?a0 |- _ =>
       apply (mapM_st_post _ (fun s (pc : upattern * xexpr) => okc_x (dfb (st_typed s)) (snd pc) = true)) in H1;
       [destruct H1 as (Q1 & R1 & E1)
       |intros st0 pc r0 H0; inv_all; use_all IHe IHb f; cbn [snd fst st_typed with_env]; split; [assumption|rfin]
       |intros st0 pc r0 H0; inv_all;
        match goal with He : Infer.check_expr _ _ _ _ _ = COk _ |- _ => apply (proj1 (check_ext intern D f)) in He end; extsolve
       |intros st0 st0' pc HE0; apply PXm; exact HE0] end;
     use_all IHe IHb f; split; [|rfin];
     unfold PX in *; cbn [okc_x]; apply andb_true_iff; split; [eapply PXm; [|eassumption]; extsolve|apply forallb_of; exact Q1]).
  - inv_all. destruct o; inv_all;
      try (match goal with x : texpr * texpr * cty |- _ => destruct x as [[? ?] ?] end; inv_all);
      try (destruct (ty_of (fst a)); try discriminate; destruct (ty_of (fst a0)); try discriminate; inv_all);
      fin IHe IHb f.
  - apply cbind_ok in H. destruct H as [[[body ty] st'] [H1 H]]. cbv beta iota in H. inv_all. fin IHe IHb f.
  - (* call *)
    apply cbind_ok in H. destruct H as [st1 [H1 H]]. cbv beta in H.
    assert (Hst1 : R st st1).
    { destruct (assocL f0 (st_typed st)) eqn:Eas; cbn [negb] in H1; [inv_all; apply R_refl|].
      destruct (find _ (d_fns D)) as [fd|] eqn:Ef; [|inv_all; apply R_refl].
      apply cbind_ok in H1. destruct H1 as [[tfd st2] [H1 H2]]. cbv beta in H2. inv_all.
      destruct (IHf _ _ _ H1) as [Hbody Hr]. cbn [snd fst] in *. intro HI. cbn [st_typed].
      eapply Inv_insert; [exact Ef|exact Hbody|apply Hr; exact HI]. }
    clear H1.
    destruct (assocL f0 (st_typed st1)) eqn:Edef; [|discriminate].
    destruct (env_get (st_env st1) f0); [discriminate|]. inv_all. use_all IHe IHb f. split; [|rfin].
    unfold PX. cbn [okc_x]. apply andb_true_iff. split; [|assumption].
    match goal with HE : Ext st1 _ |- _ => eapply dfb_mono; [exact HE|] end. unfold dfb. rewrite Edef. reflexivity.
  - inv_all. destruct a3 as [[? ?] ?]. inv_all. fin IHe IHb f.
Qed.
Lemma accs_post f (IHe : TE f) : forall accs st t r,
  accs_loop (check_expr f D) f D st t accs = COk r ->
  forallb (okc_a (dfb (st_typed (snd r)))) accs = true /\ R st (snd r) /\ Ext st (snd r).
Proof.
  induction accs as [|a accs IH]; intros st t r H; cbn [accs_loop] in H.
  - inv_all. split; [reflexivity|]. split; [apply R_refl|apply ExtP_refl].
  - apply cbind_ok in H. destruct H as [[[ta t'] st'] [H1 H2]]. cbv beta iota in H2.
    apply cbind_ok in H2. destruct H2 as [[[tas tf] st''] [H2 H3]]. cbv beta iota in H3. inv_all. cbn [snd forallb].
    destruct (IH _ _ _ H2) as (Q2 & R2 & E2). cbn [snd] in *.
    assert (H0 : okc_a (dfb (st_typed st')) a = true /\ R st st' /\ Ext st st').
    { destruct a; cbn [okc_a].
      - inv_all'. pose proof (proj1 (check_ext intern D f) _ _ _ Hb0) as E1. destruct (IHe _ _ _ Hb0) as [Q1 R1].
        cbn [snd] in *. split; [exact Q1|split; assumption].
      - inv_all'. destruct (nthN _ _); inv_all. split; [reflexivity|split; [apply R_refl|apply ExtP_refl]].
      - inv_all'. destruct (assocL _ (d_structs D)); [|discriminate]. destruct (assocL _ _); inv_all.
        split; [reflexivity|split; [apply R_refl|apply ExtP_refl]]. }
    destruct H0 as (Q1 & R1 & E1). split; [|split; [eapply R_trans; eassumption|eapply ExtP_trans; eassumption]].
    apply andb_true_iff. split; [|exact Q2]. eapply okc_mono_a; [|exact Q1]. apply dfb_mono. exact E2.
Qed.

Lemma stmts_post f (IHs : TS f) l st r : mapM_st (check_stmt f D) st l = COk r ->
  PB (snd r) l /\ R st (snd r) /\ Ext st (snd r).
Proof.
  intro H. destruct (mapM_st_post (check_stmt f D) PS IHs (proj1 (proj2 (proj2 (proj2 (check_ext intern D f))))) PSm l st r H) as (Q & Rr & E).
  split; [apply forallb_of; exact Q|split; assumption].
Qed.

Lemma acy_stmts f : TS f -> TSS (S f) /\ TB (S f).
Proof.
  intro IHs. split; intros st b r H; cbn [Infer.check_stmts Infer.check_block] in H; refold H.
  - destruct (stmts_post f IHs _ _ _ H) as (Q & Rr & _). split; assumption.
  - inv_all. destruct (stmts_post f IHs _ _ _ Hb) as (Q & Rr & _). cbn [snd]. split; assumption.
Qed.

Lemma acy_stmt f : TE f -> TSS f -> TS (S f).
Proof.
  intros IHe IHss st s r H. destruct s; cbn [Infer.check_stmt] in H; refold H.
  - inv_all. use_all IHe IHe f. split; [unfold PS, PX in *; cbn [okc_s snd st_typed with_env] in *; assumption|rfin].
  - inv_all. use_all IHe IHe f. split; [unfold PS, PX in *; cbn [okc_s snd st_typed with_env] in *; assumption|rfin].
  - destruct (env_get (st_env st) x) as [[t [|]]|]; try discriminate.
    apply cbind_ok in H. destruct H as [[[tas t'] st1] [H1 H]]. cbv beta iota in H. inv_all.
    destruct (accs_post f IHe _ _ _ _ H1) as (Q1 & R1 & E1). cbn [snd] in *. use_all IHe IHe f.
    split; [|rfin]. unfold PS, PX in *. cbn [okc_s snd st_typed]. apply andb_true_iff. split; [|assumption].
    match goal with HE : Ext st1 _ |- _ => revert Q1; generalize (dfb_mono _ _ HE); clear; intro Hm end.
    induction accs as [|y ys IHys]; cbn [forallb]; [auto|]. rewrite !andb_true_iff. intros [A B].
    split; [exact (okc_mono_a _ _ Hm y A)|apply IHys; exact B].
  - inv_all.
    match goal with Hss : Infer.check_stmts _ _ _ _ _ = COk _ |- _ =>
      pose proof (proj1 (proj2 (check_ext intern D f)) _ _ _ Hss) as Ess; apply IHss in Hss; destruct Hss as [Qb Rb] end.
    use_all IHe IHe f. split; [|rfin]. unfold PS, PX, PB in *. cbn [okc_s snd st_typed with_env] in *.
    apply andb_true_iff. split; [|assumption]. eapply PXm; [|eassumption]. extsolve.
  - inv_all. use_all IHe IHe f. split; [unfold PS, PX in *; cbn [okc_s snd st_typed] in *; assumption|rfin].
Qed.

Lemma acy_fn f : TB f -> TF (S f).
Proof.
  intros IHb st fd r H. cbn [Infer.check_fn] in H. refold H.
  destruct (memL (uf_name fd) (st_checking st)); [discriminate|]. inv_all.
  destruct a0 as [[body ?] st1]. inv_all.
  match goal with Hb : Infer.check_block _ _ _ _ _ = COk _ |- _ => apply IHb in Hb; destruct Hb as [Qb Rb] end.
  unfold PB, R in *. cbn [snd fst st_typed] in *. split; assumption.
Qed.

(* AFTER A SUCCESSFUL CHECK EVERY SYNTACTIC CALL TARGET IS DEFINED, and the keys of typed stay levelled *)
Theorem check_acy f : TE f /\ TSS f /\ TB f /\ TS f /\ TF f.
Proof.
  induction f as [|f (IHe & IHss & IHb & IHs & IHf)].
  { unfold TE, TSS, TB, TS, TF. split; [|split; [|split; [|split]]]; intros ? ? ? Hz; discriminate Hz. }
  pose proof (acy_stmts f IHs) as [H1 H2].
  split; [apply acy_expr; assumption|]. split; [exact H1|]. split; [exact H2|].
  split; [apply acy_stmt; assumption|apply acy_fn; assumption].
Qed.
End Acyc.

(* ================================================================ the pub-fn loop and the program *)

Lemma keys_filter_perm {A} k (T : list (list N * A)) : NoDup (map fst T) -> In k (map fst T) ->
  Permutation (map fst T) (k :: map fst (filter (fun nd => negb (list_eqb (fst nd) k)) T)).
Proof.
  induction T as [|[k0 v] T IH]; intros ND Hin; [destruct Hin|]. cbn [map fst] in *. inversion ND as [|? ? Hn ND']; subst.
  cbn [filter fst]. destruct (list_eqb k0 k) eqn:E.
  - apply list_eqb_eq in E. subst k0. cbn [negb]. constructor.
    assert (Hid : filter (fun nd => negb (list_eqb (fst nd) k)) T = T).
    { clear - Hn. induction T as [|[k1 v1] T IH]; [reflexivity|]. cbn [filter fst]. cbn [map fst] in Hn.
      destruct (list_eqb k1 k) eqn:E1; [apply list_eqb_eq in E1; subst; exfalso; apply Hn; now left|].
      cbn [negb]. f_equal. apply IH. intro H. apply Hn. now right. }
    rewrite Hid. apply Permutation_refl.
  - cbn [negb map fst]. destruct Hin as [->|Hin]; [rewrite list_eqb_refl in E; discriminate|].
    eapply Permutation_trans; [constructor; apply IH; assumption|apply perm_swap].
Qed.

Lemma filter_notin_id {A} k (T : list (list N * A)) : ~ In k (map fst T) -> filter (fun nd => negb (list_eqb (fst nd) k)) T = T.
Proof.
  induction T as [|[k1 v1] T IH]; intro Hn; [reflexivity|]. cbn [filter fst]. cbn [map fst] in Hn.
  destruct (list_eqb k1 k) eqn:E1; [apply list_eqb_eq in E1; subst; exfalso; apply Hn; now left|].
  cbn [negb]. f_equal. apply IH. intro H. apply Hn. now right.
Qed.

Section AcycLoop.
Variable intern : list N -> N.
Variable D : defs.
Variable f : nat.

Lemma pub_go_inv : forall fns' st st',
  (forall fd, In fd fns' -> find (fun d => list_eqb (uf_name d) (uf_name fd)) (d_fns D) = Some fd) ->
  NoDup (map fst (st_typed st)) -> Inv (d_fns D) (st_typed st) ->
  pub_go intern f D fns' st = COk st' -> NoDup (map fst (st_typed st')) /\ Inv (d_fns D) (st_typed st').
Proof.
  induction fns' as [|fd fns' IH]; intros st st' Hfind HN HI H; cbn [pub_go] in H.
  - injection H as <-. split; assumption.
  - assert (Hfind' : forall fd0, In fd0 fns' -> find (fun d => list_eqb (uf_name d) (uf_name fd0)) (d_fns D) = Some fd0)
      by (intros; apply Hfind; now right).
    destruct (uf_pub fd); [|apply (IH st st' Hfind' HN HI H)].
    destruct (uf_params fd); [discriminate H|].
    destruct (check_fn intern f D st fd) as [r1| | |] eqn:E1; cbn [cbind] in H; try discriminate H.
    destruct (proj2 (proj2 (proj2 (proj2 (check_ext intern D f)))) _ _ _ E1) as [(_ & _ & _ & X4 & _) _]. cbn [tc_of fst snd] in X4.
    destruct (proj2 (proj2 (proj2 (proj2 (check_acy intern D f)))) _ _ _ E1) as [Hbody Hr].
    specialize (Hr HI). specialize (X4 HN). unfold PB in Hbody.
    set (T1 := st_typed (snd r1)) in *.
    eapply (IH _ st' Hfind'); [| |exact H]; cbn [st_typed].
    + cbn [map fst]. constructor; [apply filter_removes|apply filter_keys_NoDup; exact X4].
    + destruct (in_dec (list_eq_dec N.eq_dec) (uf_name fd) (map fst T1)) as [Hin|Hnin].
      * destruct Hr as (lk & Hp & Hl). exists lk. split; [|exact Hl]. cbn [map fst].
        eapply Permutation_trans; [exact Hp|]. apply keys_filter_perm; assumption.
      * rewrite (filter_notin_id _ _ Hnin). eapply Inv_insert; [apply Hfind; now left|exact Hbody|exact Hr].
Qed.
End AcycLoop.

(* ACCEPTED PROGRAMS HAVE AN ACYCLIC CALL GRAPH *)
Theorem accepted_acyclic intern f P TP :
  NoDup (map uf_name (up_fns P)) -> check_program_t intern f P = COk TP -> call_graph_acyclic P = true.
Proof.
  intros ND EP. rewrite check_program_t_unfold in EP.
  destruct (check_consts (up_consts P) []) as [consts| | |]; cbn [cbind] in EP; try discriminate EP.
  destruct (mapM _ (up_structs P)) as [structs| | |]; cbn [cbind] in EP; try discriminate EP.
  destruct (mapM _ (up_enums P)) as [enums| | |]; cbn [cbind] in EP; try discriminate EP.
  destruct (mapM _ (map fst structs ++ map fst enums)) as [ru| | |]; cbn [cbind] in EP; try discriminate EP.
  set (D := defs_of P consts structs enums) in *.
  assert (FP : forall fd, In fd (up_fns P) -> find (fun d => list_eqb (uf_name d) (uf_name fd)) (d_fns D) = Some fd)
    by (intros fd Hin; apply (find_by_name _ ND fd Hin)).
  destruct (pub_go intern f D (up_fns P) (mkSt env_new [] [])) as [stP| | |] eqn:Eg; cbn [cbind] in EP; try discriminate EP.
  destruct (existsb _ (up_fns P)) eqn:UP; [discriminate EP|]. clear EP.
  assert (I0 : Inv (d_fns D) (@nil (list N * tfndef))).
  { exists []. split; [constructor|]. intros A id B E. destruct A; discriminate E. }
  destruct (pub_go_inv intern D f (up_fns P) (mkSt env_new [] []) stP FP (NoDup_nil _) I0 Eg) as [NDk (l & Hp & Hl)].
  destruct (pub_go_good intern D constrain_type_det constrain_to_i32_det f (up_fns P) (mkSt env_new [] []) stP FP (Forall_nil _) (NoDup_nil _) eq_refl Eg)
    as (_ & _ & _ & PubP).
  assert (AllP : forall fd, In fd (up_fns P) -> defd (uf_name fd) (st_typed stP)).
  { intros fd Hin. destruct (uf_pub fd) eqn:Ep; [apply PubP; assumption|].
    rewrite <- not_true_iff_false in UP. unfold defd. intro Hn. apply UP. apply existsb_exists. exists fd. split; [exact Hin|].
    rewrite Ep, Hn. reflexivity. }
  (* the keys are distinct function names: there are at most (number of functions) of them *)
  assert (Hlen : (length l <= length (up_fns P))%nat).
  { rewrite <- (map_length uf_name (up_fns P)). apply NoDup_incl_length.
    - eapply Permutation_NoDup; [apply Permutation_sym; exact Hp|exact NDk].
    - intros id Hid. apply in_split in Hid. destruct Hid as (A & B & ->).
      pose proof (Hl A id B eq_refl) as Hlv. cbn [lvl] in Hlv. change (d_fns D) with (up_fns P) in Hlv.
      destruct (find _ (up_fns P)) as [fd|] eqn:Ef; [|discriminate Hlv].
      apply find_some in Ef. destruct Ef as [Hin En]. apply list_eqb_eq in En. subst id. apply in_map. exact Hin. }
  unfold call_graph_acyclic. apply forallb_forall. intros fd Hin.
  eapply lvl_le; [exact Hlen|]. change (up_fns P) with (d_fns D). apply PosLv_in; [exact Hl|].
  eapply Permutation_in; [apply Permutation_sym; exact Hp|]. apply defd_keys. apply AllP. exact Hin.
Qed.

(* C06 FOR THE TYPE CHECKER, UNCONDITIONALLY: if one order of the three maps is accepted, every other order is
   accepted (with (number of functions + 1) times the fuel) and exports the same program *)
Theorem check_perm_accept_unconditional intern P Q f TP :
  (forall a b, intern a = intern b -> a = b) ->
  up_consts Q = up_consts P -> up_main Q = up_main P ->
  Permutation (up_fns P) (up_fns Q) -> Permutation (up_structs P) (up_structs Q) -> Permutation (up_enums P) (up_enums Q) ->
  NoDup (map uf_name (up_fns P)) -> NoDup (map us_name (up_structs P)) -> NoDup (map ue_name (up_enums P)) ->
  check_program_t intern f P = COk TP -> is_ok (check_program_t intern (S (length (up_fns P)) * f) Q) = true.
Proof.
  intros Hi H1 H2 H3 H4 H5 H6 H7 H8 EP.
  exact (check_perm_accept intern P Q f TP Hi H1 H2 H3 H4 H5 H6 H7 H8 (accepted_acyclic intern f P TP H6 EP) EP).
Qed.

Theorem check_perm_final_unconditional intern P Q f A :
  (forall a b, intern a = intern b -> a = b) ->
  up_consts Q = up_consts P -> up_main Q = up_main P ->
  Permutation (up_fns P) (up_fns Q) -> Permutation (up_structs P) (up_structs Q) -> Permutation (up_enums P) (up_enums Q) ->
  NoDup (map uf_name (up_fns P)) -> NoDup (map us_name (up_structs P)) -> NoDup (map ue_name (up_enums P)) ->
  check_program intern f P = COk A -> check_program intern (S (length (up_fns P)) * f) Q = COk A.
Proof.
  intros Hi H1 H2 H3 H4 H5 H6 H7 H8 EP.
  assert (exists TP, check_program_t intern f P = COk TP) as [TP ETP].
  { unfold check_program in EP. destruct (check_program_t intern f P) as [TP| | |]; try discriminate EP. eauto. }
  exact (check_perm_final intern P Q f A Hi H1 H2 H3 H4 H5 H6 H7 H8 (accepted_acyclic intern f P TP H6 ETP) EP).
Qed.

Print Assumptions check_acy.
Print Assumptions accepted_acyclic.
Print Assumptions check_perm_accept_unconditional.
Print Assumptions check_perm_final_unconditional.
