(* The exhaustiveness check of the checker model (Infer.check_exhaustiveness) does not depend
   on the ORDER in which the struct / enum definitions are listed in [defs]. *)
From GV Require Import Base.Util Check.UAst Check.Infer.
From GV Require Exhaust.Pat Exhaust.Useful.
From Coq Require Import Permutation.
Local Open Scope N_scope.

(* ------------------------------------------------------------------ (1) env_equiv *)

Definition env_equiv (e1 e2 : Pat.tyenv) : Prop :=
  (forall n, Pat.assocN n (Pat.structs e1) = Pat.assocN n (Pat.structs e2)) /\
  (forall n, Pat.assocN n (Pat.enums e1) = Pat.assocN n (Pat.enums e2)).

Lemma split_ctor_equiv e1 e2 :
  env_equiv e1 e2 -> forall t rows qh, Useful.split_ctor e1 t rows qh = Useful.split_ctor e2 t rows qh.
Proof.
  intros [Hs He] t rows qh. destruct t as [|sg w|ts|n|n]; cbn [Useful.split_ctor]; try reflexivity.
  - rewrite Hs. reflexivity.
  - rewrite He. reflexivity.
Qed.

Lemma useful_equiv e1 e2 :
  env_equiv e1 e2 ->
  forall f ts rows q, Useful.useful f e1 ts rows q = Useful.useful f e2 ts rows q.
Proof.
  intros Heq f. induction f as [|f IH]; intros ts rows q; [reflexivity|].
  cbn [Useful.useful].
  destruct rows as [|r0 rows']; [reflexivity|].
  destruct r0 as [|p r0']; [reflexivity|].
  destruct q as [|qh qt]; [reflexivity|].
  destruct ts as [|t trest]; [reflexivity|].
  rewrite (split_ctor_equiv e1 e2 Heq).
  rewrite (IH trest (map (@tl Pat.pattern) ((p :: r0') :: rows')) qt).
  match goal with |- (if ?b then _ else _) = _ => destruct b; [reflexivity|] end.
  match goal with |- (if ?b then _ else _) = _ => destruct b; [reflexivity|] end.
  f_equal. apply map_ext. intros c. cbv zeta. f_equal. apply map_ext. intros q'.
  rewrite IH. reflexivity.
Qed.

Lemma ty_size_equiv e1 e2 :
  env_equiv e1 e2 -> forall d t, Useful.ty_size e1 d t = Useful.ty_size e2 d t.
Proof.
  intros [Hs He] d. induction d as [|d IH]; intros t; [reflexivity|].
  cbn [Useful.ty_size]. destruct t as [|sg w|ts|n|n]; try reflexivity.
  - f_equal. f_equal. apply map_ext. exact IH.
  - rewrite Hs. destruct (Pat.assocN n (Pat.structs e2)) as [fts|]; [|reflexivity].
    f_equal. f_equal. apply map_ext. intros ft. apply IH.
  - rewrite He. destruct (Pat.assocN n (Pat.enums e2)) as [vs|]; [|reflexivity].
    f_equal. f_equal. apply map_ext. intros vd. destruct (snd vd) as [ts|]; [|reflexivity].
    f_equal. apply map_ext. exact IH.
Qed.

Lemma fuel_bound_equiv e1 e2 :
  env_equiv e1 e2 -> forall d ts, Useful.fuel_bound e1 d ts = Useful.fuel_bound e2 d ts.
Proof.
  intros Heq d ts. unfold Useful.fuel_bound. f_equal. f_equal. apply map_ext.
  apply ty_size_equiv. exact Heq.
Qed.

Lemma check_exhaustive_equiv e1 e2 :
  env_equiv e1 e2 ->
  forall f t ps, Useful.check_exhaustive f e1 t ps = Useful.check_exhaustive f e2 t ps.
Proof. intros Heq f t ps. unfold Useful.check_exhaustive. apply useful_equiv. exact Heq. Qed.

(* ------------------------------------------------------------------ (2) omap and Permutation *)

Lemma omap_perm {A B} (f : A -> option B) (l l' : list A) :
  Permutation l l' ->
  match omap f l, omap f l' with
  | Some r, Some r' => Permutation r r'
  | None, None => True
  | _, _ => False
  end.
Proof.
  intros HP. induction HP as [|x l l' HP IH|x y l|l l' l'' HP1 IH1 HP2 IH2].
  - cbn [omap]. constructor.
  - cbn [omap]. destruct (f x) as [a|].
    + destruct (omap f l) as [r|], (omap f l') as [r'|]; try exact IH. constructor. exact IH.
    + exact I.
  - cbn [omap]. destruct (f x) as [a|], (f y) as [b|], (omap f l) as [r|]; try exact I.
    apply perm_swap.
  - destruct (omap f l) as [r|], (omap f l') as [r'|], (omap f l'') as [r''|];
      try exact I; try contradiction.
    eapply perm_trans; eassumption.
Qed.

Lemma omap_fst {A B} (g : A -> option (N * B)) (k : A -> N) :
  (forall x y, g x = Some y -> fst y = k x) ->
  forall l r, omap g l = Some r -> map fst r = map k l.
Proof.
  intros Hg l. induction l as [|x l IH]; intros r Hr; cbn [omap] in Hr.
  - injection Hr as <-. reflexivity.
  - destruct (g x) as [y|] eqn:Ey; [|discriminate].
    destruct (omap g l) as [r0|]; [|discriminate].
    injection Hr as <-. cbn [map]. f_equal; [apply Hg; exact Ey | apply IH; reflexivity].
Qed.

(* ------------------------------------------------------------------ (3) look-ups *)

Lemma assocN_notin {A} n (r : list (N * A)) : ~ In n (map fst r) -> Pat.assocN n r = None.
Proof.
  induction r as [|[k a] r IH]; intros Hn; cbn [Pat.assocN]; [reflexivity|].
  destruct (N.eqb n k) eqn:E.
  - apply N.eqb_eq in E. exfalso. apply Hn. left. cbn [fst]. symmetry. exact E.
  - apply IH. intros Hin. apply Hn. right. exact Hin.
Qed.

Lemma assocN_perm {A} (r r' : list (N * A)) :
  Permutation r r' -> NoDup (map fst r) -> forall n, Pat.assocN n r = Pat.assocN n r'.
Proof.
  intros HP. induction HP as [|[k a] l l' HP IH|[k1 a1] [k2 a2] l|l l' l'' HP1 IH1 HP2 IH2];
    intros HN n.
  - reflexivity.
  - cbn [Pat.assocN]. destruct (N.eqb n k); [reflexivity|]. apply IH.
    cbn [map] in HN. inversion HN as [|k0 l0 Hnotin HN']. exact HN'.
  - cbn [Pat.assocN]. destruct (N.eqb n k1) eqn:E1, (N.eqb n k2) eqn:E2; try reflexivity.
    exfalso. apply N.eqb_eq in E1. apply N.eqb_eq in E2.
    cbn [map fst] in HN. inversion HN as [|k0 l0 Hnotin HN']. apply Hnotin. left. congruence.
  - rewrite IH1 by exact HN. apply IH2.
    eapply Permutation_NoDup; [|exact HN]. apply Permutation_map. exact HP1.
Qed.

Lemma NoDup_map_inj {A B} (f : A -> B) (l : list A) :
  (forall a b, f a = f b -> a = b) -> NoDup l -> NoDup (map f l).
Proof.
  intros Hinj HN. induction HN as [|x l Hx HN IH]; cbn [map]; constructor.
  - intros Hin. apply in_map_iff in Hin. destruct Hin as [y [Hy Hyin]].
    apply Hinj in Hy. subst y. exact (Hx Hyin).
  - exact IH.
Qed.

(* an association list produced by [omap g] with keys [intern (fst x)] *)
Lemma omap_assoc_perm {A B} (intern : list N -> N) (g : list N * A -> option (N * B))
    (l l' : list (list N * A)) :
  (forall a b, intern a = intern b -> a = b) ->
  (forall x y, g x = Some y -> fst y = intern (fst x)) ->
  Permutation l l' -> NoDup (map fst l) ->
  match omap g l, omap g l' with
  | Some r, Some r' => forall n, Pat.assocN n r = Pat.assocN n r'
  | None, None => True
  | _, _ => False
  end.
Proof.
  intros Hinj Hg HP HN. pose proof (omap_perm g l l' HP) as H.
  destruct (omap g l) as [r|] eqn:Er, (omap g l') as [r'|]; try exact H.
  apply assocN_perm; [exact H|].
  rewrite (omap_fst g (fun x => intern (fst x)) Hg l r Er).
  rewrite <- map_map. apply NoDup_map_inj; assumption.
Qed.

(* ------------------------------------------------------------------ (4) pat_tyenv *)

Lemma pat_tyenv_perm intern D D' :
  (forall a b, intern a = intern b -> a = b) ->
  Permutation (d_structs D) (d_structs D') -> Permutation (d_enums D) (d_enums D') ->
  NoDup (map fst (d_structs D)) -> NoDup (map fst (d_enums D)) ->
  match pat_tyenv intern D, pat_tyenv intern D' with
  | Some e1, Some e2 => env_equiv e1 e2
  | None, None => True
  | _, _ => False
  end.
Proof.
  intros Hinj HPs HPe HNs HNe. unfold pat_tyenv.
  match goal with |- context [omap ?g (d_structs D)] => set (gs := g) end.
  match goal with |- context [omap ?g (d_enums D)] => set (ge := g) end.
  assert (Hgs : forall x y, gs x = Some y -> fst y = intern (fst x)).
  { intros x y Hy. unfold gs in Hy.
    match type of Hy with match ?o with _ => _ end = _ => destruct o end;
      [injection Hy as <-; reflexivity | discriminate]. }
  assert (Hge : forall x y, ge x = Some y -> fst y = intern (fst x)).
  { intros x y Hy. unfold ge in Hy.
    match type of Hy with match ?o with _ => _ end = _ => destruct o end;
      [injection Hy as <-; reflexivity | discriminate]. }
  pose proof (omap_assoc_perm intern gs (d_structs D) (d_structs D') Hinj Hgs HPs HNs) as Hs.
  pose proof (omap_assoc_perm intern ge (d_enums D) (d_enums D') Hinj Hge HPe HNe) as He.
  destruct (omap gs (d_structs D)) as [ss|], (omap gs (d_structs D')) as [ss'|];
    try contradiction; [|exact I].
  destruct (omap ge (d_enums D)) as [es|], (omap ge (d_enums D')) as [es'|];
    try contradiction; [|exact I].
  split; cbn [Pat.structs Pat.enums]; assumption.
Qed.

(* ------------------------------------------------------------------ the theorem *)

Theorem check_exhaustiveness_perm intern D D' ps ty :
  (forall a b, intern a = intern b -> a = b) ->
  Permutation (d_structs D) (d_structs D') -> Permutation (d_enums D) (d_enums D') ->
  NoDup (map fst (d_structs D)) -> NoDup (map fst (d_enums D)) ->
  check_exhaustiveness intern D ps ty = check_exhaustiveness intern D' ps ty.
Proof.
  intros Hinj HPs HPe HNs HNe.
  pose proof (pat_tyenv_perm intern D D' Hinj HPs HPe HNs HNe) as H.
  unfold check_exhaustiveness.
  destruct (pat_tyenv intern D) as [e1|], (pat_tyenv intern D') as [e2|];
    try contradiction; [|reflexivity].
  assert (Hgen : forall t qs,
    Useful.check_exhaustive (Useful.fuel_bound e1 64 [t]) e1 t qs =
    Useful.check_exhaustive (Useful.fuel_bound e2 64 [t]) e2 t qs).
  { intros t qs. rewrite (fuel_bound_equiv e1 e2 H). apply check_exhaustive_equiv. exact H. }
  destruct ps as [|p ps']; [|destruct ps' as [|p' ps'']].
  - destruct (pat_ty intern ty) as [t|]; [|reflexivity]. rewrite Hgen. reflexivity.
  - destruct (irrefutable p); [reflexivity|].
    destruct (pat_ty intern ty) as [t|]; [|reflexivity]. rewrite Hgen. reflexivity.
  - destruct (pat_ty intern ty) as [t|]; [|reflexivity]. rewrite Hgen. reflexivity.
Qed.

Print Assumptions check_exhaustiveness_perm.
