(* C05, first clause, for the checker model: the typed program the checker returns passes the
   side conditions of Compile/TSemSafe.v, hence compiling it does not crash.
   TSemSafe.ok_expr = (every node type is [node_ok]) && (structure: index expressions have an index type,
   struct patterns are benign, no join).  The STRUCTURE part is proved for the checker's output
   ([rest_program]); the TYPE part ([tys_e]: the node types are explorable within Sem.ty_fuel = 40 and
   arrays have at most 2^32 elements) is NOT implied by acceptance -- a tuple nested deeper than 40 is
   accepted -- and is a Boolean hypothesis on the output. *)
From Coq Require Import Lia Bool Sorted.
From GV Require Import Base.Util Front.Scan Front.ParseExpr Check.UAst Check.Infer Check.InferProofs Check.InferSound.
From GV Require Import Lang.Ast Lang.Wt Lang.ValTy.
From GV Require Lang.Sem Compile.TSemSafe Check.PermSort.
Local Open Scope N_scope.

(* ================================================================ ok_expr = types && structure *)

Section Split.
Variable P : program.
Notation node_ok := (TSemSafe.node_ok P).
Notation ok_pat := (TSemSafe.ok_pat P).

(* the node types *)
Fixpoint tys_e (e : expr) : bool :=
  match e with
  | Ex ei _ t =>
    node_ok t &&
    match ei with
    | ETrue | EFalse | ENumU _ _ | ENumS _ _ | EId _ | ERange _ _ _ => true
    | EArrLit es | ETupLit es | EEnumLit _ _ es | ECall _ es => forallb tys_e es
    | EArrRep e1 _ | ETupAcc e1 _ | EFld e1 _ | ENeg e1 | ENot e1 | ECast _ e1 => tys_e e1
    | EIdx a i => tys_e a && tys_e i
    | EStructLit _ fields => forallb (fun fe => tys_e (snd fe)) fields
    | EMatch s arms => tys_e s && forallb (fun arm => tys_e (snd arm)) arms
    | EOp _ x y => tys_e x && tys_e y
    | EBlock b => forallb tys_s b
    | EJoin _ _ a b => tys_e a && tys_e b
    | EIf c a b => tys_e c && tys_e a && tys_e b
    end
  end
with tys_s (s : stmt) : bool :=
  match s with
  | St si _ =>
    match si with
    | SLet _ e | SLetMut _ e | SExpr e => tys_e e
    | SAssign _ accs e => forallb tys_a accs && tys_e e
    | SFor _ arr body => tys_e arr && forallb tys_s body
    | SJoinLoop _ _ a b body => tys_e a && tys_e b && forallb tys_s body
    end
  end
with tys_a (a : accessor) : bool :=
  match a with
  | AIdx aty i => node_ok aty && tys_e i
  | ATup tty _ => node_ok tty
  | AFld sty _ => node_ok sty
  end.

(* the structure *)
Fixpoint rest_e (e : expr) : bool :=
  match e with
  | Ex ei _ _ =>
    match ei with
    | ETrue | EFalse | ENumU _ _ | ENumS _ _ | EId _ | ERange _ _ _ => true
    | EArrLit es | ETupLit es | EEnumLit _ _ es | ECall _ es => forallb rest_e es
    | EArrRep e1 _ | ETupAcc e1 _ | EFld e1 _ | ENeg e1 | ENot e1 | ECast _ e1 => rest_e e1
    | EIdx a i => TSemSafe.idx_ok (e_ty i) && rest_e a && rest_e i
    | EStructLit _ fields => forallb (fun fe => rest_e (snd fe)) fields
    | EMatch s arms => rest_e s && forallb (fun arm => ok_pat (fst arm) && rest_e (snd arm)) arms
    | EOp _ x y => rest_e x && rest_e y
    | EBlock b => forallb rest_s b
    | EJoin _ _ _ _ => false
    | EIf c a b => rest_e c && rest_e a && rest_e b
    end
  end
with rest_s (s : stmt) : bool :=
  match s with
  | St si _ =>
    match si with
    | SLet p e => ok_pat p && rest_e e
    | SLetMut _ e => rest_e e
    | SAssign _ accs e => forallb rest_a accs && rest_e e
    | SFor p arr body => ok_pat p && rest_e arr && forallb rest_s body
    | SJoinLoop _ _ _ _ _ => false
    | SExpr e => rest_e e
    end
  end
with rest_a (a : accessor) : bool :=
  match a with
  | AIdx _ i => TSemSafe.idx_ok (e_ty i) && rest_e i
  | ATup _ _ | AFld _ _ => true
  end.

Lemma rest_s_expr e m : rest_s (St (SExpr e) m) = rest_e e.
Proof. reflexivity. Qed.
Lemma rest_s_let p e m : rest_s (St (SLet p e) m) = ok_pat p && rest_e e.
Proof. reflexivity. Qed.
Lemma rest_s_letmut x e m : rest_s (St (SLetMut x e) m) = rest_e e.
Proof. reflexivity. Qed.
Lemma rest_s_assign x accs e m : rest_s (St (SAssign x accs e) m) = forallb rest_a accs && rest_e e.
Proof. reflexivity. Qed.
Lemma rest_s_for p arr body m : rest_s (St (SFor p arr body) m) = ok_pat p && rest_e arr && forallb rest_s body.
Proof. reflexivity. Qed.
Lemma rest_e_block b m t : rest_e (Ex (EBlock b) m t) = forallb rest_s b.
Proof. reflexivity. Qed.
Lemma rest_a_idx t i : rest_a (AIdx t i) = TSemSafe.idx_ok (e_ty i) && rest_e i.
Proof. reflexivity. Qed.

Lemma forallb_split {A} (p q r : A -> bool) (l : list A) :
  (forall x, In x l -> p x = true -> q x = true -> r x = true) ->
  forallb p l = true -> forallb q l = true -> forallb r l = true.
Proof.
  intros H Hp Hq. apply forallb_forall. intros x Hx. rewrite forallb_forall in Hp, Hq. apply H; auto.
Qed.

Fixpoint ok_split_e (e : expr) : tys_e e = true -> rest_e e = true -> TSemSafe.ok_expr P e = true
with ok_split_s (s : stmt) : tys_s s = true -> rest_s s = true -> TSemSafe.ok_stmt P s = true
with ok_split_a (a : accessor) : tys_a a = true -> rest_a a = true -> TSemSafe.ok_acc P a = true.
Proof.
  - destruct e as [ei m t]. cbn [tys_e rest_e TSemSafe.ok_expr]. intros Ht Hr.
    apply andb_true_iff in Ht. destruct Ht as [Hn Ht]. rewrite Hn. cbn [andb].
    destruct ei as [ | | n0 lb | z0 lb | x0 | es | e1 n0 | ei1 ei2 | es | e1 i0 | e1 fld | name fields | en v args | ei arms | e1 | e1 | o ei1 ei2 | b | fn args | jt ha ja jb | ei1 ei2 ei3 | to e1 | lo hi bits ];
      try reflexivity; try discriminate Hr.
    + induction es as [|x xs IH]; [reflexivity|]. cbn [forallb] in *. apply andb_true_iff in Ht, Hr. destruct Ht, Hr.
      rewrite (ok_split_e x) by assumption. apply IH; assumption.
    + apply ok_split_e; assumption.
    + apply andb_true_iff in Ht. destruct Ht as [Ha Hi]. apply andb_true_iff in Hr. destruct Hr as [Hr Hri]. apply andb_true_iff in Hr. destruct Hr as [Hx Hra].
      rewrite Hx, (ok_split_e ei1), (ok_split_e ei2) by assumption. reflexivity.
    + induction es as [|x xs IH]; [reflexivity|]. cbn [forallb] in *. apply andb_true_iff in Ht, Hr. destruct Ht, Hr.
      rewrite (ok_split_e x) by assumption. apply IH; assumption.
    + apply ok_split_e; assumption.
    + apply ok_split_e; assumption.
    + induction fields as [|[n x] xs IH]; [reflexivity|]. cbn [forallb snd] in *. apply andb_true_iff in Ht, Hr. destruct Ht, Hr.
      rewrite (ok_split_e x) by assumption. apply IH; assumption.
    + induction args as [|x xs IH]; [reflexivity|]. cbn [forallb] in *. apply andb_true_iff in Ht, Hr. destruct Ht, Hr.
      rewrite (ok_split_e x) by assumption. apply IH; assumption.
    + apply andb_true_iff in Ht. destruct Ht as [Hs Ha]. apply andb_true_iff in Hr. destruct Hr as [Hrs Hra].
      rewrite (ok_split_e ei) by assumption. cbn [andb].
      induction arms as [|[p x] xs IH]; [reflexivity|]. cbn [forallb fst snd] in *. apply andb_true_iff in Ha, Hra. destruct Ha, Hra as [Hpx Hrest].
      apply andb_true_iff in Hpx. destruct Hpx as [Hp Hx]. rewrite Hp, (ok_split_e x) by assumption. apply IH; assumption.
    + apply ok_split_e; assumption.
    + apply ok_split_e; assumption.
    + apply andb_true_iff in Ht, Hr. destruct Ht, Hr. rewrite (ok_split_e ei1), (ok_split_e ei2) by assumption. reflexivity.
    + induction b as [|x xs IH]; [reflexivity|]. cbn [forallb] in *. apply andb_true_iff in Ht, Hr. destruct Ht, Hr.
      rewrite (ok_split_s x) by assumption. apply IH; assumption.
    + induction args as [|x xs IH]; [reflexivity|]. cbn [forallb] in *. apply andb_true_iff in Ht, Hr. destruct Ht, Hr.
      rewrite (ok_split_e x) by assumption. apply IH; assumption.
    + apply andb_true_iff in Ht. destruct Ht as [Ht H3]. apply andb_true_iff in Ht. destruct Ht as [H1 H2].
      apply andb_true_iff in Hr. destruct Hr as [Hr R3]. apply andb_true_iff in Hr. destruct Hr as [R1 R2].
      rewrite (ok_split_e ei1), (ok_split_e ei2), (ok_split_e ei3) by assumption. reflexivity.
    + apply ok_split_e; assumption.
  - destruct s as [si m]. cbn [tys_s rest_s TSemSafe.ok_stmt]. intros Ht Hr.
    destruct si as [p e | vx e | vx accs e | p arr body | p jt ja jb body | e]; try discriminate Hr.
    + apply andb_true_iff in Hr. destruct Hr as [Hp Hr]. rewrite Hp. apply ok_split_e; assumption.
    + apply ok_split_e; assumption.
    + apply andb_true_iff in Ht, Hr. destruct Ht as [Hta Hte], Hr as [Hra Hre]. rewrite (ok_split_e e) by assumption. rewrite andb_true_r.
      induction accs as [|x xs IH]; [reflexivity|]. cbn [forallb] in *. apply andb_true_iff in Hta, Hra. destruct Hta, Hra.
      rewrite (ok_split_a x) by assumption. apply IH; assumption.
    + apply andb_true_iff in Ht. destruct Ht as [Hta Htb]. apply andb_true_iff in Hr. destruct Hr as [Hr Hrb]. apply andb_true_iff in Hr. destruct Hr as [Hp Hra].
      rewrite Hp, (ok_split_e arr) by assumption. cbn [andb].
      induction body as [|x xs IH]; [reflexivity|]. cbn [forallb] in *. apply andb_true_iff in Htb, Hrb. destruct Htb, Hrb.
      rewrite (ok_split_s x) by assumption. apply IH; assumption.
    + apply ok_split_e; assumption.
  - destruct a; cbn [tys_a rest_a TSemSafe.ok_acc]; intros Ht Hr.
    + apply andb_true_iff in Ht, Hr. destruct Ht as [Hn Hi], Hr as [Hx Hri]. rewrite Hn, Hx, (ok_split_e i) by assumption. reflexivity.
    + exact Ht.
    + exact Ht.
Qed.

End Split.

(* ================================================================ the structure of the checker's output *)

(* struct patterns name their fields in strictly increasing order (the parser sorts them:
   Front/ParseExpr.v sort_fields).  TSemSafe asks of a struct pattern: the fields in definition order,
   or no variable bound twice; the checker guarantees neither at the AST level *)
Fixpoint sortedb (l : list (list N)) : bool :=
  match l with
  | a :: r => match r with b :: _ => name_ltb a b | [] => true end && sortedb r
  | [] => true
  end.

Fixpoint sp_p (p : upattern) : bool :=
  match p with
  | PTuple ps | PEnumTuple _ _ ps => forallb sp_p ps
  | ParseExpr.PStruct _ fs | ParseExpr.PStructIgnoreRemaining _ fs =>
      sortedb (map fst fs) && forallb (fun f => sp_p (snd f)) fs
  | _ => true
  end.

Notation nlt := (fun a b : list N => name_ltb a b = true).

Lemma sortedb_SS l : sortedb l = true -> StronglySorted nlt l.
Proof.
  induction l as [|a r IH]; intro H; [constructor|]. cbn [sortedb] in H. apply andb_true_iff in H. destruct H as [Hab Hr].
  specialize (IH Hr). constructor; [exact IH|]. destruct r as [|b r]; [constructor|].
  inversion IH as [|? ? Hs Hall]; subst. constructor; [exact Hab|].
  eapply Forall_impl; [|exact Hall]. intros c Hbc. exact (PermSort.name_ltb_trans _ _ _ Hab Hbc).
Qed.

(* the parser's [sort_fields] establishes [sortedb] (fields with distinct names) *)
Lemma sort_fields_sortedb {A} (l : list (list N * A)) : NoDup (map fst l) -> sortedb (map fst (sort_fields l)) = true.
Proof.
  intro Hnd. pose proof (PermSort.sort_fields_sorted l Hnd) as Hs. unfold PermSort.fields_sorted in Hs.
  induction Hs as [|a r Hs IH Hall]; [reflexivity|]. cbn [map sortedb]. rewrite IH, andb_true_r.
  destruct r as [|b r]; [reflexivity|]. inversion Hall; subst. assumption.
Qed.

Lemma SS_nodupb (intern : list N -> N) (inj : forall a b, intern a = intern b -> a = b) l :
  StronglySorted nlt l -> TSemSafe.nodupb (map intern l) = true.
Proof.
  induction 1 as [|a r Hs IH Hall]; [reflexivity|]. cbn [map TSemSafe.nodupb]. rewrite IH, andb_true_r.
  apply negb_true_iff. apply not_true_iff_false. intro He. apply existsb_exists in He. destruct He as [y [Hy E]].
  apply N.eqb_eq in E. apply in_map_iff in Hy. destruct Hy as [b [Hb' Hb]]. rewrite <- Hb' in E. apply inj in E. subst b.
  rewrite Forall_forall in Hall. pose proof (Hall _ Hb) as Hlt. cbv beta in Hlt. rewrite PermSort.name_ltb_irrefl in Hlt. discriminate.
Qed.

Lemma SS_subseqb (intern : list N -> N) (inj : forall a b, intern a = intern b -> a = b) :
  forall ds fs, StronglySorted nlt ds -> StronglySorted nlt fs -> incl fs ds ->
  TSemSafe.subseqb (map intern fs) (map intern ds) = true.
Proof.
  induction ds as [|d dr IH]; intros fs Hd Hf Hi.
  - destruct fs as [|f fr]; [reflexivity|]. destruct (Hi f (or_introl eq_refl)).
  - destruct fs as [|f fr]; [reflexivity|]. cbn [map TSemSafe.subseqb].
    inversion Hd as [|? ? Hdr Hdall]; subst. inversion Hf as [|? ? Hfr Hfall]; subst.
    rewrite Forall_forall in Hdall, Hfall.
    destruct (N.eqb_spec (intern f) (intern d)) as [E|E].
    + apply inj in E. subst d. apply IH; [exact Hdr|exact Hfr|].
      intros x Hx. destruct (Hi x (or_intror Hx)) as [Heq|Hin]; [|exact Hin]. subst x.
      pose proof (Hfall _ Hx) as Hlt. cbv beta in Hlt. rewrite PermSort.name_ltb_irrefl in Hlt. discriminate.
    + change (intern f :: map intern fr) with (map intern (f :: fr)). apply IH; [exact Hdr|exact Hf|].
      assert (Hfd : In f dr). { destruct (Hi f (or_introl eq_refl)) as [Heq|Hin]; [subst; congruence|exact Hin]. }
      intros x [Heq|Hx]; [subst x; exact Hfd|].
      destruct (Hi x (or_intror Hx)) as [Heq|Hin]; [|exact Hin]. subst x.
      pose proof (Hdall _ Hfd) as H1. pose proof (Hfall _ Hx) as H2. cbv beta in H1, H2.
      rewrite (PermSort.name_ltb_asym _ _ H1) in H2. discriminate.
Qed.

Fixpoint sp_e (e : xexpr) : bool :=
  match e with
  | XArrayLiteral es | XTupleLiteral es | XFnCall _ es | XEnumLiteral _ _ (Some es) => forallb sp_e es
  | XArrayRepeatLiteral e _ | XTupleAccess e _ | XStructAccess e _ | XUnaryOp _ e | XCast _ e
  | XArrayRepeatLiteralConst e _ => sp_e e
  | XArrayAccess a i => sp_e a && sp_e i
  | XStructLiteral _ fs => forallb (fun f => sp_e (snd f)) fs
  | XMatch e arms => sp_e e && forallb (fun a => sp_p (fst a) && sp_e (snd a)) arms
  | XOp _ l r => sp_e l && sp_e r
  | XBlock b => forallb sp_s b
  | XIf c a b => sp_e c && sp_e a && sp_e b
  | XJoin es => forallb sp_e es
  | _ => true
  end
with sp_s (s : xstmt) : bool :=
  match s with
  | XSLet p _ e => sp_p p && sp_e e
  | XSLetMut _ _ e | XSExpr e => sp_e e
  | XSVarAssign _ accs e => forallb sp_a accs && sp_e e
  | XSForEach p e body => sp_p p && sp_e e && forallb sp_s body
  end
with sp_a (a : xaccessor) : bool :=
  match a with XAArray i => sp_e i | _ => true end.

Section Rest.
Variable intern : list N -> N.
Variable en : list (list N * list (list N * option (list cty))).
Variable P' : program.
Notation xe := (export_expr intern en).
Notation xs := (export_stmt intern en).
Notation xa := (export_accessor intern en).
Notation xp := (export_pattern intern en).
Notation re := (fun e : texpr => rest_e P' (xe e) = true).
Notation rs := (fun s : tstmt => rest_s P' (xs s) = true).

Lemma rest_set_ty e t : rest_e P' (xe (set_ty e t)) = rest_e P' (xe e).
Proof. destruct e as [i ty]. destruct i; reflexivity. Qed.

Lemma e_ty_xe' e : e_ty (xe e) = export_ty intern (ty_of e).
Proof. destruct e; reflexivity. Qed.

Lemma mapM_re (g : texpr -> cres texpr) : forall l l',
  mapM g l = COk l' -> (forall x x', In x l -> g x = COk x' -> re x -> re x') ->
  forallb (rest_e P') (map xe l) = true -> forallb (rest_e P') (map xe l') = true.
Proof.
  induction l as [|x l IH]; intros l' H Hg Hr; cbn [mapM] in H; inv_all; [reflexivity|].
  cbn [map forallb] in *. apply andb_true_iff in Hr. destruct Hr as [H1 H2].
  rewrite (Hg _ _ (or_introl eq_refl) Hb H1). apply IH; [assumption|intros; eapply Hg; [right|..]; eauto|assumption].
Qed.

Lemma zipM_re {B} (g : texpr -> B -> cres texpr) : forall l ys l',
  zipM g l ys = COk l' -> (forall x y x', In x l -> g x y = COk x' -> re x -> re x') ->
  forallb (rest_e P') (map xe l) = true -> forallb (rest_e P') (map xe l') = true.
Proof.
  induction l as [|x l IH]; intros ys l' H Hg Hr; cbn [zipM] in H; [inv_all; reflexivity|].
  destruct ys as [|y ys]; inv_all; [exact Hr|].
  cbn [map forallb] in *. apply andb_true_iff in Hr. destruct Hr as [H1 H2].
  rewrite (Hg _ _ _ (or_introl eq_refl) Hb H1). eapply IH; [eassumption|intros; eapply Hg; [right|..]; eauto|assumption].
Qed.

Lemma xe_blk b t : xe (TE (TBlock b) t) = Ex (EBlock (map xs b)) m0 (export_ty intern t).
Proof. reflexivity. Qed.
Lemma xs_sexpr e : xs (TSExpr e) = St (SExpr (xe e)) m0.
Proof. reflexivity. Qed.

Lemma map_last_rs (g : texpr -> cres texpr) : forall b b',
  map_last_expr g b = COk b' -> (forall x x', g x = COk x' -> re x -> re x') ->
  forallb (rest_s P') (map xs b) = true -> forallb (rest_s P') (map xs b') = true.
Proof.
  induction b as [|s b IH]; intros b' H Hg Hr; [cbn in H; inv_all; reflexivity|].
  cbn [map_last_expr] in H. cbn [map forallb] in Hr. apply andb_true_iff in Hr. destruct Hr as [H1 H2].
  destruct b as [|s2 b].
  - destruct s; inv_all; cbn [map forallb]; try (rewrite H1; reflexivity).
    rewrite xs_sexpr, rest_s_expr in *. pose proof (Hg _ _ Hb H1) as Hx. cbv beta in Hx. rewrite Hx. reflexivity.
  - destruct s; inv_all; cbn [map forallb]; rewrite H1; cbn [andb]; (eapply IH; [eassumption|exact Hg|exact H2]).
Qed.

Lemma mapM_arms_re (g : texpr -> cres texpr) : (forall x x', g x = COk x' -> re x -> re x') ->
  forall (arms l' : list (tpattern * texpr)),
  mapM (fun pc : tpattern * texpr => do b <- g (snd pc); COk (fst pc, b)) arms = COk l' ->
  forallb (fun arm : pattern * expr => TSemSafe.ok_pat P' (fst arm) && rest_e P' (snd arm))
          (map (fun a : tpattern * texpr => (xp (fst a), xe (snd a))) arms) = true ->
  forallb (fun arm : pattern * expr => TSemSafe.ok_pat P' (fst arm) && rest_e P' (snd arm))
          (map (fun a : tpattern * texpr => (xp (fst a), xe (snd a))) l') = true.
Proof.
  intros Hg. induction arms as [|[p x] arms IH]; intros l' H Ha; cbn [mapM] in H.
  - inversion H. reflexivity.
  - apply cbind_ok in H. destruct H as [[p1 x1] [Hx H]]. apply cbind_ok in H. destruct H as [r [Hr H]]. inversion H; subst; clear H.
    apply cbind_ok in Hx. destruct Hx as [b [Hb Hx]]. inversion Hx; subst; clear Hx.
    cbn [map forallb fst snd] in *. apply andb_true_iff in Ha. destruct Ha as [Hpx Hrest]. apply andb_true_iff in Hpx. destruct Hpx as [Hp Hxx].
    rewrite Hp. pose proof (Hg _ _ Hb Hxx) as Hb'. cbv beta in Hb'. rewrite Hb'. cbn [andb]. apply IH; assumption.
Qed.

Lemma coc_u_shape e t e' : check_or_constrain_unsigned e t = COk e' -> exists t', e' = set_ty e t'.
Proof.
  unfold check_or_constrain_unsigned. destruct (_ && _); [discriminate|].
  destruct (unsigned_max t); [destruct (inner_of e); try (intro H; inv_all; eauto)|intro H; inv_all; eauto].
Qed.
Lemma coc_s_shape e t e' : check_or_constrain_signed e t = COk e' -> exists t', e' = set_ty e t'.
Proof. unfold check_or_constrain_signed. destruct (_ && _); [discriminate|]. cbv zeta. intro H. inv_all. eauto. Qed.

Lemma constrain_type_re : forall f e t e', constrain_type f e t = COk e' -> re e -> re e'.
Proof.
  induction f as [|f IH]; intros e t e' H Hr; [discriminate|].
  cbn [constrain_type] in H. apply cbind_ok in H. destruct H as [e1 [H1 H2]]. inversion H2; subst; clear H2.
  rewrite rest_set_ty.
  assert (Hleaf : forall r, match t with
                            | CUnsigned t0 => check_or_constrain_unsigned e t0
                            | CSigned t0 => check_or_constrain_signed e t0
                            | _ => COk e end = COk r -> re r).
  { intros r Hl. destruct t; inv_all; try exact Hr.
    - destruct (coc_u_shape _ _ _ Hl) as [t' ->]. rewrite rest_set_ty. exact Hr.
    - destruct (coc_s_shape _ _ _ Hl) as [t' ->]. rewrite rest_set_ty. exact Hr. }
  destruct e as [i ty]. cbn [inner_of ty_of] in *.
  destruct i as [ | | n0 u0 | z0 s0 | x0 | es | x n0 | a i | es | x i0 | x fld | sn fs | en0 v args | s arms | o x | o a b | b | fn args | c a b | cty0 x | lo hi u0 ];
    try (apply Hleaf; exact H1).
  - destruct t; try (apply Hleaf; exact H1); inv_all; reflexivity.
  - destruct t; try (apply Hleaf; exact H1). inv_all. cbn [export_expr rest_e] in Hr |- *.
    eapply mapM_re; [eassumption| |exact Hr]. intros x1 x1' _ Hg1 Hr1. exact (IH _ _ _ Hg1 Hr1).
  - destruct t; try (apply Hleaf; exact H1). inv_all. cbn [export_expr rest_e] in Hr |- *. eapply IH; eauto.
  - destruct t; try (apply Hleaf; exact H1). inv_all; [|exact Hr]. cbn [export_expr rest_e] in Hr |- *.
    eapply zipM_re; [eassumption| |exact Hr]. intros x1 y1 x1' _ Hg1 Hr1. exact (IH _ _ _ Hg1 Hr1).
  - (* match *) apply cbind_ok in H1. destruct H1 as [arms' [Hm H1]]. inversion H1; subst; clear H1.
    cbn [export_expr rest_e] in Hr |- *. apply andb_true_iff in Hr. destruct Hr as [Hs Ha]. rewrite Hs. cbn [andb].
    eapply (mapM_arms_re (fun x => constrain_type f x t)); [|exact Hm|exact Ha]. intros x1 x1' Hg1 Hr1. exact (IH _ _ _ Hg1 Hr1).
  - inv_all. destruct o; cbn [export_expr rest_e] in Hr |- *; eapply IH; eauto.
  - cbn [export_expr rest_e] in Hr. apply andb_true_iff in Hr. destruct Hr as [Ha Hb0].
    destruct o; inv_all; cbn [export_expr rest_e];
      repeat match goal with H : constrain_type f ?x _ = COk ?y |- _ =>
        first [rewrite (IH _ _ _ H Ha) | rewrite (IH _ _ _ H Hb0)]; clear H end;
      rewrite ?Ha, ?Hb0; reflexivity.
  - inv_all. rewrite xe_blk in Hr |- *. rewrite rest_e_block in Hr |- *. eapply map_last_rs; [eassumption| |exact Hr]. intros x1 x1' Hg1 Hr1. exact (IH _ _ _ Hg1 Hr1).
  - cbn [export_expr rest_e] in Hr. apply andb_true_iff in Hr. destruct Hr as [Hr H3]. apply andb_true_iff in Hr. destruct Hr as [Hc Ha].
    inv_all. cbn [export_expr rest_e]. rewrite Hc, (IH _ _ _ Hb Ha), (IH _ _ _ Hb0 H3). reflexivity.
  - (* range *) destruct u0; try (apply Hleaf; exact H1).
    destruct t; try (apply Hleaf; exact H1). destruct t; try (apply Hleaf; exact H1); try discriminate H1.
    match type of H1 with (if ?c then _ else _) = _ => destruct c; [discriminate|] end. inv_all. reflexivity.
Qed.

Lemma check_type_re f e t e' : check_type f e t = COk e' -> re e -> re e'.
Proof. unfold check_type. intros H Hr. inv_all. eapply constrain_type_re; eauto. Qed.

Lemma coc_u_deep_re f e t e' : coc_unsigned_deep f e t = COk e' -> re e -> re e'.
Proof.
  unfold coc_unsigned_deep. intros H Hr. destruct (_ && _); [discriminate|]. destruct (_ && _).
  - eapply constrain_type_re; eauto.
  - destruct (coc_u_shape _ _ _ H) as [t' ->]. rewrite rest_set_ty. exact Hr.
Qed.
Lemma coc_s_deep_re f e t e' : coc_signed_deep f e t = COk e' -> re e -> re e'.
Proof.
  unfold coc_signed_deep. intros H Hr. destruct (_ && _); [discriminate|]. destruct (_ && _).
  - eapply constrain_type_re; eauto.
  - destruct (coc_s_shape _ _ _ H) as [t' ->]. rewrite rest_set_ty. exact Hr.
Qed.

Lemma unify_re f a b a' b' t : unify f a b = COk (a', b', t) -> re a -> re b -> re a' /\ re b'.
Proof.
  unfold unify. cbv zeta. intros H Ha Hb. destruct (cty_eqb _ _).
  - inv_all. rewrite !rest_set_ty. auto.
  - destruct (ty_of a) as [|[]|[]| | | |]; destruct (ty_of b) as [|[]|[]| | | |]; try discriminate;
      inv_all; rewrite !rest_set_ty;
      first [ split; [eapply coc_u_deep_re; eassumption|assumption] | split; [eapply coc_s_deep_re; eassumption|assumption]
            | split; [assumption|eapply coc_u_deep_re; eassumption] | split; [assumption|eapply coc_s_deep_re; eassumption] ].
Qed.

Lemma constrain_to_i32_re : forall f b b', constrain_to_i32 f b = COk b' -> re b -> re b'.
Proof.
  induction f as [|f IH]; intros b b' H Hr; [discriminate|].
  cbn [constrain_to_i32] in H. apply cbind_ok in H. destruct H as [b1 [H1 H]]. apply cbind_ok in H. destruct H as [b2 [H2 H]].
  inversion H; subst; clear H. rewrite rest_set_ty.
  assert (Hr1 : re b1).
  { destruct (_ || _); [eapply coc_s_deep_re; eauto|inversion H1; subst; exact Hr]. }
  clear H1 Hr. destruct b1 as [i ty]. cbn [inner_of ty_of] in *.
  destruct i; try (inversion H2; subst; exact Hr1).
  - apply cbind_ok in H2. destruct H2 as [es' [Hm H2]]. inversion H2; subst; clear H2.
    cbn [export_expr rest_e] in Hr1 |- *. eapply mapM_re; [exact Hm| |exact Hr1]. intros x1 x1' _ Hg1 Hr2. exact (IH _ _ Hg1 Hr2).
  - apply cbind_ok in H2. destruct H2 as [x' [Hm H2]]. inversion H2; subst; clear H2.
    cbn [export_expr rest_e] in Hr1 |- *. exact (IH _ _ Hm Hr1).
  - apply cbind_ok in H2. destruct H2 as [es' [Hm H2]]. inversion H2; subst; clear H2.
    cbn [export_expr rest_e] in Hr1 |- *. eapply mapM_re; [exact Hm| |exact Hr1]. intros x1 x1' _ Hg1 Hr2. exact (IH _ _ Hg1 Hr2).
Qed.

(* the type a successful check_or_constrain_unsigned (deep) leaves on the node *)
Lemma coc_u_ty e u e' : check_or_constrain_unsigned e u = COk e' -> ty_of e' = CUnsigned u.
Proof.
  unfold check_or_constrain_unsigned. destruct (_ && _); [discriminate|].
  destruct (unsigned_max u); [destruct (inner_of e); try (intro H; inv_all; apply ty_of_set_ty)|intro H; inv_all; apply ty_of_set_ty].
Qed.

Lemma coc_u_deep_ty f e u e' : coc_unsigned_deep f e u = COk e' -> ty_of e' = CUnsigned u.
Proof.
  unfold coc_unsigned_deep. destruct (negb (cty_eqb (ty_of e) (CUnsigned u)) && negb (is_uU (ty_of e))) eqn:E1; [discriminate|].
  destruct (negb (cty_eqb (ty_of e) (CUnsigned u)) && is_compound e) eqn:E2; [|apply coc_u_ty].
  apply andb_true_iff in E2. destruct E2 as [Hne Hc]. rewrite Hne in E1. cbn [andb] in E1. apply negb_false_iff in E1.
  unfold is_uU in E1. apply cty_eqb_eq in E1.
  destruct f as [|f]; [discriminate|]. cbn [constrain_type]. intro H. apply cbind_ok in H. destruct H as [e1 [H1 H2]].
  inversion H2; subst; clear H2. rewrite ty_of_set_ty.
  assert (Ht : ty_of e1 = uU).
  { destruct e as [i ty]. cbn [inner_of ty_of is_compound] in *. subst ty.
    destruct i; try discriminate Hc.
    - apply cbind_ok in H1. destruct H1 as [? [_ H1]]. inversion H1. reflexivity.
    - apply cbind_ok in H1. destruct H1 as [? [_ H1]]. inversion H1. reflexivity.
    - destruct o; inv_all; reflexivity.
    - apply cbind_ok in H1. destruct H1 as [? [_ H1]]. inversion H1. reflexivity.
    - inv_all. reflexivity. }
  rewrite Ht. reflexivity.
Qed.

(* patterns *)
Hypothesis intern_inj : forall a b, intern a = intern b -> a = b.
(* P' lists the struct definitions of D (interned), and their fields are sorted by name *)
Definition structs_link (D : defs) : Prop := forall name def, assocL name (d_structs D) = Some def ->
  Ast.assocN (intern name) (Ast.p_structs P') = Some (map (fun ft => (intern (fst ft), export_ty intern (snd ft))) def) /\
  sortedb (map fst def) = true.

Lemma map_fst_intern {A B} (g : A -> B) (l : list (list N * A)) :
  map fst (map (fun x => (intern (fst x), g (snd x))) l) = map intern (map fst l).
Proof. rewrite !map_map. reflexivity. Qed.

Lemma sfields_loop_okpat D (sdef : list (list N * cty)) fs :
  Forall (fun f : list N * upattern => forall g ty tp g', sp_p (snd f) = true -> check_pattern D g (snd f) ty = COk (tp, g') -> TSemSafe.ok_pat P' (xp tp) = true) fs ->
  forallb (fun f => sp_p (snd f)) fs = true ->
  forall seen g r g',
    (fix go (seen : list (list N)) (fs : list (list N * upattern)) (g : cenv) : cres (list (list N * tpattern) * cenv) :=
       match fs with
       | [] => COk ([], g)
       | (field_name, field_value) :: fr =>
           if memL field_name seen then CErr E_PatternDoesNotMatchType else
           match assocL field_name sdef with
           | Some field_type =>
               do r1 <- check_pattern D g field_value field_type;
               do r2 <- go (field_name :: seen) fr (snd r1);
               COk ((field_name, fst r1) :: fst r2, snd r2)
           | None => CErr E_UnknownStructField
           end
       end) seen fs g = COk (r, g') ->
  map fst r = map fst fs /\ incl (map fst fs) (map fst sdef) /\
  forallb (fun f => TSemSafe.ok_pat P' (snd f)) (map (fun f => (intern (fst f), xp (snd f))) r) = true.
Proof.
  induction 1 as [|[fname q] fs Hq Hfs IH]; intros Hn seen g r g' H.
  - inversion H; subst. split; [reflexivity|]. split; [intros x []|reflexivity].
  - cbn [forallb snd] in Hn. apply andb_true_iff in Hn. destruct Hn as [Hn1 Hn2].
    destruct (memL fname seen); [discriminate|].
    destruct (assocL fname sdef) as [ft|] eqn:Ea; [|discriminate].
    apply cbind_ok in H. destruct H as [[p1 g1] [H1 H]]. apply cbind_ok in H. destruct H as [[r2 g2] [H2 H]].
    cbn [fst snd] in *. inversion H; subst; clear H.
    destruct (IH Hn2 _ _ _ _ H2) as [E1 [E2 E3]].
    split; [cbn [map fst]; rewrite E1; reflexivity|]. split.
    + intros x [Hx|Hx]; [|exact (E2 _ Hx)]. subst x. apply assocL_In in Ea. apply in_map_iff. exists (fname, ft). split; [reflexivity|exact Ea].
    + cbn [map forallb snd]. rewrite (Hq _ _ _ _ Hn1 H1). exact E3.
Qed.

Lemma fields_loop_okpat D fs : Forall (fun p => forall g ty tp g', sp_p p = true -> check_pattern D g p ty = COk (tp, g') -> TSemSafe.ok_pat P' (xp tp) = true) fs ->
  forallb sp_p fs = true ->
  forall ts g r g',
    (fix go (fs : list upattern) (ts : list cty) (g : cenv) : cres (list tpattern * cenv) :=
       match fs, ts with
       | fp :: fr, t :: tr =>
           do r1 <- check_pattern D g fp t; do r2 <- go fr tr (snd r1); COk (fst r1 :: fst r2, snd r2)
       | _, _ => COk ([], g)
       end) fs ts g = COk (r, g') ->
  forallb (TSemSafe.ok_pat P') (map xp r) = true.
Proof.
  induction 1 as [|q fs Hq Hfs IH]; intros Hn ts g r g' H.
  - inversion H; subst. reflexivity.
  - destruct ts as [|t ts]; [inversion H; subst; reflexivity|].
    cbn [forallb] in Hn. apply andb_true_iff in Hn. destruct Hn as [Hn1 Hn2].
    apply cbind_ok in H. destruct H as [[p1 g1] [H1 H]]. apply cbind_ok in H. destruct H as [[r2 g2] [H2 H]].
    cbn [fst snd] in *. inversion H; subst; clear H. cbn [map forallb]. rewrite (Hq _ _ _ _ Hn1 H1). exact (IH Hn2 _ _ _ _ H2).
Qed.

Lemma check_pattern_okpat D (HD : structs_link D) : forall p g ty tp g', sp_p p = true -> check_pattern D g p ty = COk (tp, g') ->
  TSemSafe.ok_pat P' (xp tp) = true.
Proof.
  induction p using upattern_ind'; intros g ty tp g' Hn HH; try discriminate Hn; cbn [check_pattern] in HH.
  - inversion HH; reflexivity.
  - destruct ty; inversion HH; reflexivity.
  - destruct ty; inversion HH; reflexivity.
  - inv_all. reflexivity.
  - inv_all. reflexivity.
  - cbn [sp_p] in Hn. apply cbind_ok in HH. destruct HH as [fts [_ HH]].
    destruct (negb _); [discriminate|]. apply cbind_ok in HH. destruct HH as [[r g2] [Hl HH]]. inversion HH; subst; clear HH.
    cbn [fst export_pattern TSemSafe.ok_pat]. exact (fields_loop_okpat D ps H Hn _ _ _ _ Hl).
  - cbn [sp_p] in Hn. apply andb_true_iff in Hn. destruct Hn as [Hso Hn].
    apply cbind_ok in HH. destruct HH as [sdn [_ HH]].
    destruct (negb _); [discriminate|].
    destruct (assocL n (d_structs D)) as [sdef|] eqn:Ea; [|discriminate].
    apply cbind_ok in HH. destruct HH as [[r g2] [Hl HH]].
    match type of HH with (if ?c then _ else _) = _ => destruct c; [discriminate|] end.
    inversion HH; subst; clear HH.
    destruct (HD _ _ Ea) as [Hlink Hsd].
    destruct (sfields_loop_okpat D sdef _ H Hn _ _ _ _ Hl) as [Hnames [Hincl Hok]].
    apply sortedb_SS in Hso. apply sortedb_SS in Hsd.
    cbn [fst export_pattern]. cbn [TSemSafe.ok_pat]. rewrite Hlink, !map_fst_intern, Hnames.
    rewrite (SS_nodupb intern intern_inj _ Hsd), (SS_nodupb intern intern_inj _ Hso),
          (SS_subseqb intern intern_inj _ _ Hsd Hso Hincl), orb_true_r. cbn [andb]. exact Hok.
  - cbn [sp_p] in Hn. apply andb_true_iff in Hn. destruct Hn as [Hso Hn].
    apply cbind_ok in HH. destruct HH as [sdn [_ HH]].
    destruct (negb _); [discriminate|].
    destruct (assocL n (d_structs D)) as [sdef|] eqn:Ea; [|discriminate].
    apply cbind_ok in HH. destruct HH as [[r g2] [Hl HH]].
    match type of HH with (if ?c then _ else _) = _ => destruct c; [discriminate|] end.
    inversion HH; subst; clear HH.
    destruct (HD _ _ Ea) as [Hlink Hsd].
    destruct (sfields_loop_okpat D sdef _ H Hn _ _ _ _ Hl) as [Hnames [Hincl Hok]].
    apply sortedb_SS in Hso. apply sortedb_SS in Hsd.
    cbn [fst export_pattern]. cbn [TSemSafe.ok_pat]. rewrite Hlink, !map_fst_intern, Hnames.
    rewrite (SS_nodupb intern intern_inj _ Hsd), (SS_nodupb intern intern_inj _ Hso),
          (SS_subseqb intern intern_inj _ _ Hsd Hso Hincl), orb_true_r. cbn [andb]. exact Hok.
  - destruct ty; try discriminate HH. destruct (negb _); [discriminate|]. destruct (assocL e (d_enums D)); [|discriminate].
    destruct (assocL v l) as [[?|]|]; try discriminate HH. inversion HH; reflexivity.
  - cbn [sp_p] in Hn. destruct ty; try discriminate HH. destruct (negb _); [discriminate|]. destruct (assocL e (d_enums D)); [|discriminate].
    destruct (assocL v l) as [[pts|]|]; try discriminate HH. destruct (negb _); [discriminate|].
    apply cbind_ok in HH. destruct HH as [[r g2] [Hl HH]]. inversion HH; subst; clear HH.
    cbn [fst export_pattern TSemSafe.ok_pat]. exact (fields_loop_okpat D ps H Hn _ _ _ _ Hl).
  - inv_all. reflexivity.
  - inv_all. reflexivity.
Qed.

End Rest.

(* ================================================================ the checker's output has the structure *)

Section RestCheck.
Variable intern : list N -> N.
Variable en : list (list N * list (list N * option (list cty))).
Variable P' : program.
Variable D : defs.
Hypothesis intern_inj : forall a b, intern a = intern b -> a = b.
Hypothesis D_link : structs_link intern P' D.
Notation xe := (export_expr intern en).
Notation xs := (export_stmt intern en).
Notation xa := (export_accessor intern en).
Notation xp := (export_pattern intern en).
Notation check_expr := (check_expr intern).
Notation check_stmt := (check_stmt intern).

Ltac refold H :=
  fold (Infer.check_expr intern) (Infer.check_stmts intern) (Infer.check_block intern)
       (Infer.check_fn intern) (Infer.check_stmt intern) in H.

Definition Re (f : nat) : Prop := forall st e e' st',
  sp_e e = true -> check_expr f D st e = COk (e', st') -> rest_e P' (xe e') = true.
Definition Rs (f : nat) : Prop := forall st s s' st',
  sp_s s = true -> check_stmt f D st s = COk (s', st') -> rest_s P' (xs s') = true.

Lemma Re_list f : Re f -> forall es st es' st', forallb sp_e es = true ->
  mapM_st (check_expr f D) st es = COk (es', st') -> forallb (rest_e P') (map xe es') = true.
Proof.
  intros HR. induction es as [|e es IH]; intros st es' st' Hn H; cbn [mapM_st] in H.
  - inversion H. reflexivity.
  - cbn [forallb] in Hn. apply andb_true_iff in Hn. destruct Hn as [Hn1 Hn2].
    apply cbind_ok in H. destruct H as [[e1 st1] [H1 H]]. apply cbind_ok in H. destruct H as [[r st2] [H2 H]].
    cbn [fst snd] in *. inversion H; subst; clear H. cbn [map forallb]. rewrite (HR _ _ _ _ Hn1 H1). exact (IH _ _ _ Hn2 H2).
Qed.

Lemma Rs_list f : Rs f -> forall b st b' st', forallb sp_s b = true ->
  mapM_st (check_stmt f D) st b = COk (b', st') -> forallb (rest_s P') (map xs b') = true.
Proof.
  intros HR. induction b as [|s b IH]; intros st b' st' Hn H; cbn [mapM_st] in H.
  - inversion H. reflexivity.
  - cbn [forallb] in Hn. apply andb_true_iff in Hn. destruct Hn as [Hn1 Hn2].
    apply cbind_ok in H. destruct H as [[s1 st1] [H1 H]]. apply cbind_ok in H. destruct H as [[r st2] [H2 H]].
    cbn [fst snd] in *. inversion H; subst; clear H. cbn [map forallb]. rewrite (HR _ _ _ _ Hn1 H1). exact (IH _ _ _ Hn2 H2).
Qed.

Lemma mapM_ct_re f t : forall l l', mapM (fun x => check_type f x t) l = COk l' ->
  forallb (rest_e P') (map xe l) = true -> forallb (rest_e P') (map xe l') = true.
Proof.
  intros l l' H Hr. eapply (mapM_re intern en P'); [exact H| |exact Hr].
  intros x x' _ Hx Hrx. exact (check_type_re intern en P' _ _ _ _ Hx Hrx).
Qed.

Lemma accs_re f : Re f -> forall accs st t tas t' st', forallb sp_a accs = true ->
  accs_loop (check_expr f D) f D st t accs = COk (tas, t', st') -> forallb (rest_a P') (map xa tas) = true.
Proof.
  intros HR. induction accs as [|a accs IH]; intros st t tas t' st' Hn H; cbn [accs_loop] in H.
  - inversion H. reflexivity.
  - cbn [forallb] in Hn. apply andb_true_iff in Hn. destruct Hn as [Hn1 Hn2].
    apply cbind_ok in H. destruct H as [[[ta t1] st1] [H1 H]]. cbv beta iota in H.
    apply cbind_ok in H. destruct H as [[[tas2 tf] st2] [H2 H]]. cbv beta iota in H. inversion H; subst; clear H.
    cbn [map forallb]. rewrite (IH _ _ _ _ _ Hn2 H2), andb_true_r.
    destruct a; cbn [sp_a] in Hn1.
    + apply cbind_ok in H1. destruct H1 as [el [_ H1]]. apply cbind_ok in H1. destruct H1 as [[i1 sti] [Hi H1]].
      cbn [fst snd] in H1. apply cbind_ok in H1. destruct H1 as [i2 [Hc H1]]. inversion H1; subst; clear H1.
      pose proof (HR _ _ _ _ Hn1 Hi) as Hri.
      change (xa (TAArray t i2)) with (AIdx (export_ty intern t) (xe i2)). rewrite rest_a_idx, (e_ty_xe' intern en), (coc_u_deep_ty _ _ _ _ Hc).
      rewrite (coc_u_deep_re intern en P' _ _ _ _ Hc Hri). reflexivity.
    + apply cbind_ok in H1. destruct H1 as [vts [_ H1]]. destruct (nthN vts index); inversion H1; reflexivity.
    + apply cbind_ok in H1. destruct H1 as [nm [_ H1]]. destruct (assocL nm (d_structs D)); [|discriminate].
      destruct (assocL field l); inversion H1; reflexivity.
Qed.

Lemma struct_lit_re f sd : Re f -> forall fields seen st r st', forallb (fun fx : list N * xexpr => sp_e (snd fx)) fields = true ->
  struct_lit_loop (check_expr f D) f sd seen st fields = COk (r, st') ->
  forallb (fun fe : N * expr => rest_e P' (snd fe)) (map (fun fx : list N * texpr => (intern (fst fx), xe (snd fx))) r) = true.
Proof.
  intros HR. induction fields as [|[fname fv] fields IH]; intros seen st r st' Hn H; cbn [struct_lit_loop] in H.
  - inversion H. reflexivity.
  - cbn [forallb snd] in Hn. apply andb_true_iff in Hn. destruct Hn as [Hn1 Hn2].
    destruct (memL fname seen); [discriminate|]. destruct (assocL fname sd); [|discriminate].
    apply cbind_ok in H. destruct H as [[e1 st1] [H1 H]]. cbn [fst snd] in H.
    apply cbind_ok in H. destruct H as [tf [Hct H]]. apply cbind_ok in H. destruct H as [[r2 st2] [H2 H]].
    cbn [fst snd] in H. inversion H; subst; clear H. cbn [map forallb snd].
    rewrite (check_type_re intern en P' _ _ _ _ Hct (HR _ _ _ _ Hn1 H1)). exact (IH _ _ _ _ Hn2 H2).
Qed.

Ltac bind_e H x st Hx := apply cbind_ok in H; destruct H as [[x st] [Hx H]]; cbv beta zeta in H; cbn [fst snd] in H.
Ltac splitn := repeat match goal with H : _ && _ = true |- _ => apply andb_true_iff in H; destruct H end.

Theorem rest_all_le : forall n f, (f <= n)%nat -> Re f /\ Rs f.
Proof.
  induction n as [|n IH]; intros f0 Hle.
  { assert (f0 = 0%nat) by lia. subst. split; intros ? ? ? ? ? H; discriminate H. }
  destruct f0 as [|f]; [split; intros ? ? ? ? ? H; discriminate H|].
  assert (Hfn : (f <= n)%nat) by lia.
  destruct (IH f Hfn) as [HE HS].
  split.
  - intros st e e' st' Hn H. destruct e; cbn [sp_e] in Hn; cbn [Infer.check_expr] in H; refold H; try discriminate H.
    + inversion H; reflexivity.
    + inversion H; reflexivity.
    + inversion H; reflexivity.
    + inversion H; reflexivity.
    + destruct (env_get (st_env st) s) as [[? ?]|]; [inversion H; reflexivity|]. destruct (assocL s (d_consts D)); inversion H; reflexivity.
    + (* array literal *)
      apply cbind_ok in H. destruct H as [[es1 st1] [Hes H]]. cbn [fst snd] in H. destruct es1 as [|first es1]; [discriminate|].
      apply cbind_ok in H. destruct H as [fl [Hm H]]. inversion H; subst; clear H.
      cbn [export_expr rest_e]. eapply mapM_ct_re; [exact Hm|]. exact (Re_list f HE _ _ _ _ Hn Hes).
    + bind_e H x1 st1 Hx. inversion H; subst. cbn [export_expr rest_e]. exact (HE _ _ _ _ Hn Hx).
    + (* array access *)
      splitn. bind_e H a1 st1 Ha. bind_e H i1 st2 Hi. apply cbind_ok in H. destruct H as [el [_ H]].
      apply cbind_ok in H. destruct H as [i2 [Hc H]]. inversion H; subst; clear H.
      cbn [export_expr rest_e]. rewrite (e_ty_xe' intern en), (coc_u_deep_ty _ _ _ _ Hc), (HE _ _ _ _ H0 Ha).
      rewrite (coc_u_deep_re intern en P' _ _ _ _ Hc (HE _ _ _ _ H1 Hi)). reflexivity.
    + apply cbind_ok in H. destruct H as [[es1 st1] [Hes H]]. inversion H; subst. cbn [export_expr rest_e fst]. exact (Re_list f HE _ _ _ _ Hn Hes).
    + bind_e H x1 st1 Hx. apply cbind_ok in H. destruct H as [vts [_ H]]. destruct (nthN vts i); inversion H; subst.
      cbn [export_expr rest_e]. exact (HE _ _ _ _ Hn Hx).
    + bind_e H x1 st1 Hx. apply cbind_ok in H. destruct H as [nm [_ H]]. destruct (assocL nm (d_structs D)); [|discriminate].
      destruct (assocL f0 l); inversion H; subst. cbn [export_expr rest_e]. exact (HE _ _ _ _ Hn Hx).
    + (* struct literal *)
      destruct (assocL name (d_structs D)) as [sd|]; [|discriminate]. apply cbind_ok in H. destruct H as [[r st1] [Hl H]]. cbn [fst snd] in H.
      destruct (missing_field sd fields); inversion H; subst. cbn [export_expr rest_e]. exact (struct_lit_re f sd HE _ _ _ _ _ Hn Hl).
    + (* enum literal *)
      destruct (assocL e (d_enums D)) as [ed|]; [|discriminate]. destruct (assocL v ed) as [[pts|]|]; try discriminate H; destruct args as [es|]; try discriminate H.
      * destruct (negb _); [discriminate|]. apply cbind_ok in H. destruct H as [[es1 st1] [Hes H]]. cbn [fst snd] in H.
        apply cbind_ok in H. destruct H as [ex [Hz H]]. inversion H; subst. cbn [export_expr rest_e].
        eapply (zipM_re intern en P'); [exact Hz| |exact (Re_list f HE _ _ _ _ Hn Hes)].
        intros x y x' _ Hx Hrx. exact (check_type_re intern en P' _ _ _ _ Hx Hrx).
      * inversion H; reflexivity.
    + (* match *)
      splitn. bind_e H s1 st1 Hs.
      assert (Hmain : forall ty0 r,
        (do rc <- mapM_st (fun (st0 : cstate) (pc : upattern * xexpr) =>
                    do rp <- check_pattern D (env_push (st_env st0)) (fst pc) ty0;
                    do re <- check_expr f D (with_env st0 (snd rp)) (snd pc);
                    COk ((fst rp, fst re), with_env (snd re) (env_pop (st_env (snd re))))) st1 arms;
         match fst rc with
         | [] => CErr E_Panic
         | (_, first) :: _ =>
             do clauses' <- mapM (fun pc : tpattern * texpr =>
                  if negb (cty_eqb (pick_elem_ty (ty_of first) (map (fun pc0 : tpattern * texpr => ty_of (snd pc0)) (fst rc))) (ty_of (snd pc)))
                  then match pick_elem_ty (ty_of first) (map (fun pc0 : tpattern * texpr => ty_of (snd pc0)) (fst rc)) with
                       | CUnsigned expected => do x <- coc_unsigned_deep f (snd pc) expected; COk (fst pc, x)
                       | CSigned expected => do x <- coc_signed_deep f (snd pc) expected; COk (fst pc, x)
                       | _ => CErr E_UnexpectedType
                       end
                  else COk pc) (fst rc);
             do _ <- check_exhaustiveness intern D (map fst clauses') ty0;
             COk (TE (TMatch s1 clauses') (pick_elem_ty (ty_of first) (map (fun pc0 : tpattern * texpr => ty_of (snd pc0)) (fst rc))), snd rc)
         end) = COk r -> rest_e P' (xe (fst r)) = true).
      { intros ty0 r Hr. apply cbind_ok in Hr. destruct Hr as [[rc st2] [Hrc Hr]]. cbn [fst snd] in Hr.
        assert (Harms : forallb (fun arm : pattern * expr => TSemSafe.ok_pat P' (fst arm) && rest_e P' (snd arm))
                          (map (fun a : tpattern * texpr => (xp (fst a), xe (snd a))) rc) = true).
        { clear Hr Hs H. revert st1 rc st2 Hrc H1. induction arms as [|[p x] arms IHa]; intros st1 rc st2 Hrc Hna; cbn [mapM_st] in Hrc.
          - inversion Hrc. reflexivity.
          - cbn [forallb fst snd] in Hna. apply andb_true_iff in Hna. destruct Hna as [Hpx Hna]. apply andb_true_iff in Hpx. destruct Hpx as [Hnp Hnx].
            apply cbind_ok in Hrc. destruct Hrc as [[[tp tx] st3] [Hone Hrc]]. apply cbind_ok in Hrc. destruct Hrc as [[rc2 st4] [Hrest Hrc]].
            cbn [fst snd] in *. inversion Hrc; subst; clear Hrc.
            apply cbind_ok in Hone. destruct Hone as [[tp1 g1] [Hp Hone]]. apply cbind_ok in Hone. destruct Hone as [[tx1 st5] [Hx Hone]].
            cbn [fst snd] in *. inversion Hone; subst; clear Hone.
            cbn [map forallb fst snd]. rewrite (check_pattern_okpat intern en P' intern_inj D D_link _ _ _ _ _ Hnp Hp), (HE _ _ _ _ Hnx Hx). cbn [andb].
            exact (IHa _ _ _ Hrest Hna). }
        destruct rc as [|[p0 first] rc']; [discriminate|].
        apply cbind_ok in Hr. destruct Hr as [cl [Hm Hr]]. apply cbind_ok in Hr. destruct Hr as [u0 [_ Hr]]. inversion Hr; subst; clear Hr.
        cbn [fst export_expr rest_e]. rewrite (HE _ _ _ _ H0 Hs). cbn [andb].
        revert Hm Harms. generalize (pick_elem_ty (ty_of first) (map (fun pc0 : tpattern * texpr => ty_of (snd pc0)) ((p0, first) :: rc'))).
        generalize ((p0, first) :: rc'). clear. intros l. revert cl. induction l as [|[p x] l IHl]; intros cl rt Hm Ha; cbn [mapM] in Hm.
        - inversion Hm. reflexivity.
        - apply cbind_ok in Hm. destruct Hm as [[p1 x1] [Hx Hm]]. apply cbind_ok in Hm. destruct Hm as [r [Hr Hm]]. inversion Hm; subst; clear Hm.
          cbn [map forallb fst snd] in *. apply andb_true_iff in Ha. destruct Ha as [Hpx Ha]. apply andb_true_iff in Hpx. destruct Hpx as [Hp Hxx].
          rewrite (IHl _ _ Hr Ha), andb_true_r.
          destruct (negb _); [|inversion Hx; subst; rewrite Hp, Hxx; reflexivity].
          destruct rt; try discriminate Hx; apply cbind_ok in Hx; destruct Hx as [y [Hy Hx]]; inversion Hx; subst; rewrite Hp.
          + rewrite (coc_u_deep_re intern en P' _ _ _ _ Hy Hxx). reflexivity.
          + rewrite (coc_s_deep_re intern en P' _ _ _ _ Hy Hxx). reflexivity. }
      destruct (ty_of s1); try discriminate H; exact (Hmain _ _ H).
    + (* unary *) destruct o; bind_e H x1 st1 Hx; apply cbind_ok in H; destruct H as [? [_ H]]; inversion H; subst;
        cbn [export_expr rest_e]; exact (HE _ _ _ _ Hn Hx).
    + (* binary *)
      splitn. bind_e H x1 st1 Hx. bind_e H y1 st2 Hy.
      pose proof (HE _ _ _ _ H0 Hx) as Hrx. pose proof (HE _ _ _ _ H1 Hy) as Hry.
      destruct o.
      1-12: (apply cbind_ok in H; destruct H as [[[x2 y2] ty] [Hu H]]; cbv beta iota in H;
             destruct (unify_re intern en P' _ _ _ _ _ _ Hu Hrx Hry) as [Hx2 Hy2]).
      1-10: (apply cbind_ok in H; destruct H as [u0 [_ H]]).
      13-14: (apply cbind_ok in H; destruct H as [u0 [_ H]]; apply cbind_ok in H; destruct H as [y2 [Hc H]];
              pose proof (coc_u_deep_re intern en P' _ _ _ _ Hc Hry) as Hy2).
      15-16: (destruct (ty_of x1); try discriminate H; destruct (ty_of y1); try discriminate H).
      all: inversion H; subst; cbn [export_expr rest_e]; rewrite ?Hrx, ?Hry, ?Hx2, ?Hy2; reflexivity.
    + (* block *)
      apply cbind_ok in H. destruct H as [[[body ty] st1] [Hb H]]. cbv beta iota in H. inversion H; subst; clear H.
      destruct f as [|f0]; [discriminate|]. cbn [Infer.check_block] in Hb. refold Hb. apply cbind_ok in Hb. destruct Hb as [[b1 st2] [Hm Hb]].
      cbn [fst snd] in Hb. inversion Hb; subst; clear Hb.
      rewrite (xe_blk intern en), rest_e_block.
      assert (HS' : Rs f0) by (apply (IH f0); lia).
      exact (Rs_list f0 HS' _ _ _ _ Hn Hm).
    + (* call *)
      apply cbind_ok in H. destruct H as [st1 [_ H]]. cbv beta in H.
      destruct (assocL f0 (st_typed st1)) as [fd|]; [|discriminate]. destruct (env_get (st_env st1) f0); [discriminate|].
      apply cbind_ok in H. destruct H as [[es1 st2] [Hes H]]. cbn [fst snd] in H. destruct (negb _); [discriminate|].
      apply cbind_ok in H. destruct H as [ar [Hz H]]. inversion H; subst. cbn [export_expr rest_e].
      eapply (zipM_re intern en P'); [exact Hz| |exact (Re_list f HE _ _ _ _ Hn Hes)].
      intros x y x' _ Hx Hrx. exact (check_type_re intern en P' _ _ _ _ Hx Hrx).
    + (* if *)
      splitn. bind_e H c1 st1 Hc. bind_e H a1 st2 Ha. bind_e H b1 st3 Hb.
      apply cbind_ok in H. destruct H as [c2 [Hct H]]. apply cbind_ok in H. destruct H as [[[a2 b2] ty] [Hu H]]. cbv beta iota in H.
      inversion H; subst; clear H.
      destruct (unify_re intern en P' _ _ _ _ _ _ Hu (HE _ _ _ _ H2 Ha) (HE _ _ _ _ H1 Hb)) as [Ha2 Hb2].
      cbn [export_expr rest_e]. rewrite (check_type_re intern en P' _ _ _ _ Hct (HE _ _ _ _ H0 Hc)), Ha2, Hb2. reflexivity.
    + (* cast *)
      apply cbind_ok in H. destruct H as [ty' [_ H]]. bind_e H x1 st1 Hx. apply cbind_ok in H. destruct H as [? [_ H]].
      apply cbind_ok in H. destruct H as [? [_ H]]. inversion H; subst. cbn [export_expr rest_e]. exact (HE _ _ _ _ Hn Hx).
    + (* range *) destruct (_ || _); inversion H; reflexivity.
  - intros st s s' st' Hn H. destruct s; cbn [sp_s] in Hn; cbn [Infer.check_stmt] in H; refold H.
    + (* let *)
      splitn. bind_e H e1 st1 He. apply cbind_ok in H. destruct H as [e2 [Hann H]].
      assert (Hr1 : rest_e P' (xe e1) = true) by (eapply HE; [|exact He]; assumption).
      assert (Hr2 : rest_e P' (xe e2) = true).
      { destruct ty; [apply cbind_ok in Hann; destruct Hann as [ty' [_ Hann]]; exact (check_type_re intern en P' _ _ _ _ Hann Hr1)
                     |inversion Hann; subst; exact Hr1]. }
      apply cbind_ok in H. destruct H as [[p1 g1] [Hp H]]. apply cbind_ok in H. destruct H as [u0 [_ H]]. cbn [fst snd] in H. inversion H; subst.
      change (xs (TSLet p1 e2)) with (St (SLet (xp p1) (xe e2)) m0).
      assert (Hop : TSemSafe.ok_pat P' (xp p1) = true) by (eapply (check_pattern_okpat intern en P' intern_inj D D_link); [|exact Hp]; assumption).
      rewrite rest_s_let, Hop, Hr2. reflexivity.
    + (* let mut *)
      bind_e H e1 st1 He. apply cbind_ok in H. destruct H as [e2 [Hann H]].
      pose proof (HE _ _ _ _ Hn He) as Hr1.
      assert (Hr2 : rest_e P' (xe e2) = true).
      { destruct ty; [apply cbind_ok in Hann; destruct Hann as [ty' [_ Hann]]; exact (check_type_re intern en P' _ _ _ _ Hann Hr1)
                     |inversion Hann; subst; exact Hr1]. }
      apply cbind_ok in H. destruct H as [e3 [Hi H]]. inversion H; subst.
      change (xs (TSLetMut x e3)) with (St (SLetMut (intern x) (xe e3)) m0).
      rewrite rest_s_letmut. exact (constrain_to_i32_re intern en P' _ _ _ Hi Hr2).
    + (* assignment *)
      splitn. destruct (env_get (st_env st) x) as [[tx [|]]|]; try discriminate H.
      apply cbind_ok in H. destruct H as [[[tas t'] st1] [Hacc H]]. cbv beta iota in H.
      bind_e H v1 st2 Hv. apply cbind_ok in H. destruct H as [v2 [Hct H]]. inversion H; subst.
      change (xs (TSVarAssign x tas v2)) with (St (SAssign (intern x) (map xa tas) (xe v2)) m0).
      assert (Hra : forallb (rest_a P') (map xa tas) = true) by (eapply (accs_re f HE); [|exact Hacc]; assumption).
      assert (Hrv : rest_e P' (xe v1) = true) by (eapply HE; [|exact Hv]; assumption).
      rewrite rest_s_assign, Hra, (check_type_re intern en P' _ _ _ _ Hct Hrv). reflexivity.
    + (* for *)
      splitn. match type of H with (if ?c then _ else _) = _ => destruct c; [discriminate|] end.
      bind_e H a1 st1 Ha. apply cbind_ok in H. destruct H as [el [_ H]].
      apply cbind_ok in H. destruct H as [[p1 g1] [Hp H]]. apply cbind_ok in H. destruct H as [u0 [_ H]]. cbn [fst snd] in H.
      apply cbind_ok in H. destruct H as [[body1 st2] [Hb H]]. cbn [fst snd] in H. inversion H; subst.
      destruct f as [|f1]; [discriminate|]. cbn [Infer.check_stmts] in Hb. refold Hb.
      assert (HS' : Rs f1) by (apply (IH f1); lia).
      change (xs (TSForEach p1 a1 body1)) with (St (SFor (xp p1) (xe a1) (map xs body1)) m0).
      assert (Hop : TSemSafe.ok_pat P' (xp p1) = true) by (eapply (check_pattern_okpat intern en P' intern_inj D D_link); [|exact Hp]; assumption).
      assert (Hra : rest_e P' (xe a1) = true) by (eapply HE; [|exact Ha]; assumption).
      assert (Hrb : forallb (rest_s P') (map xs body1) = true) by (eapply (Rs_list f1 HS'); [|exact Hb]; assumption).
      rewrite rest_s_for, Hop, Hra, Hrb. reflexivity.
    + (* expression statement *)
      bind_e H e1 st1 He. inversion H; subst.
      change (xs (TSExpr e1)) with (St (SExpr (xe e1)) m0). rewrite rest_s_expr. exact (HE _ _ _ _ Hn He).
Qed.

Corollary rest_all f : Re f /\ Rs f.
Proof. apply (rest_all_le f f). lia. Qed.

End RestCheck.

Print Assumptions ok_split_e.
Print Assumptions constrain_type_re.
Print Assumptions coc_u_deep_ty.
Print Assumptions check_pattern_okpat.
Print Assumptions rest_all.

(* ================================================================ whole programs *)

Definition sp_program (P : uprogram) : bool := forallb (fun fd => forallb sp_s (uf_body fd)) (up_fns P).
(* the Boolean on the OUTPUT: every node type of every function body is [TSemSafe.node_ok] *)
Definition tys_program (P' : program) : bool := forallb (fun d => forallb (tys_s P') (fn_body d)) (p_fns P').
(* the struct definitions list their fields in strictly increasing order (the parser sorts them) *)
Definition structs_sorted (P : uprogram) : bool := forallb (fun sd => sortedb (map fst (us_fields sd))) (up_structs P).
Definition main_declared (P : uprogram) : bool := memL (up_main P) (map uf_name (up_fns P)).

Lemma main_declared_In P : main_declared P = true <-> In (up_main P) (map uf_name (up_fns P)).
Proof.
  unfold main_declared, memL. rewrite existsb_exists. split.
  - intros [x [Hx He]]. apply list_eqb_eq in He. subst x. exact Hx.
  - intro H. exists (up_main P). split; [exact H|apply list_eqb_refl].
Qed.

Lemma struct_def_names sn en sd r : check_struct_def sn en sd = COk r -> map fst (snd r) = map fst (us_fields sd).
Proof.
  unfold check_struct_def. intro H. apply cbind_ok in H. destruct H as [fields [Hf H]]. inversion H; subst; clear H. cbn [snd].
  revert Hf. generalize (@nil (list N)). generalize fields. clear fields.
  induction (us_fields sd) as [|[n ty] fs IH]; intros fields0 seen H0.
  - inversion H0; subst. reflexivity.
  - destruct (memL n seen); [discriminate|]. apply cbind_ok in H0. destruct H0 as [ty' [_ H0]].
    apply cbind_ok in H0. destruct H0 as [r' [Hr H0]]. inversion H0; subst; clear H0.
    cbn [map fst]. rewrite (IH _ _ Hr). reflexivity.
Qed.

Section SafeProgram.
Variable intern : list N -> N.
Hypothesis intern_inj : forall a b, intern a = intern b -> a = b.

Ltac refold H :=
  fold (Infer.check_expr intern) (Infer.check_stmts intern) (Infer.check_block intern)
       (Infer.check_fn intern) (Infer.check_stmt intern) in H.

(* UntypedFnDef::type_check: the typed body has the structure *)
Lemma fn_rest en P' D (HD : structs_link intern P' D) f st fd tfd st' : forallb sp_s (uf_body fd) = true ->
  check_fn intern f D st fd = COk (tfd, st') ->
  forallb (rest_s P') (map (export_stmt intern en) (tf_body tfd)) = true.
Proof.
  intros Hn H. destruct f as [|f]; [discriminate|]. cbn [Infer.check_fn] in H. refold H.
  destruct (memL (uf_name fd) (st_checking st)); [discriminate|].
  apply cbind_ok in H. destruct H as [[tps g1] [_ H]]. cbn [fst snd] in H.
  apply cbind_ok in H. destruct H as [[[body ty] st1] [Hblk H]]. cbv beta iota zeta in H.
  apply cbind_ok in H. destruct H as [ret_ty [_ H]]. apply cbind_ok in H. destruct H as [body' [Hlast H]].
  inversion H; subst; clear H. cbn [tf_body].
  destruct f as [|f0]; [discriminate|]. cbn [Infer.check_block] in Hblk. refold Hblk.
  apply cbind_ok in Hblk. destruct Hblk as [[b1 st2] [Hm Hblk]]. cbn [fst snd] in Hblk. assert (b1 = body /\ st2 = st1) as [-> ->] by (split; congruence). clear Hblk.
  pose proof (Rs_list intern en P' D f0 (proj2 (rest_all intern en P' D intern_inj HD f0)) _ _ _ _ Hn Hm) as Hr.
  destruct (last (map Some body) None) as [[]|].
  all: try (destruct (negb _); [discriminate|]; inversion Hlast; subst; exact Hr).
  eapply (map_last_rs intern en P'); [exact Hlast| |exact Hr].
  intros x x' Hx Hrx. exact (check_type_re intern en P' _ _ _ _ Hx Hrx).
Qed.

Theorem check_safe_fragment fuel P P' :
  in_sound_fragment P = true -> structs_sorted P = true -> sp_program P = true -> main_declared P = true ->
  (fuel <= S Wt.wt_fuel)%nat -> check_program intern fuel P = COk P' -> tys_program P' = true ->
  TSemSafe.safe_program_ok P' = true.
Proof.
  intros Hfrag Hsorted Hnosp Hmain Hfuel H Htys.
  pose proof (check_sound_fragment intern intern_inj fuel P P' Hfrag Hfuel H) as Hwt.
  unfold in_sound_fragment in Hfrag.
  repeat (apply andb_true_iff in Hfrag; let Hx := fresh "Hx" in destruct Hfrag as [Hfrag Hx]).
  rename Hx into Hfragf, Hx0 into Hnd, Hx1 into Hce, Hx2 into Hcs, Hx3 into Hnde, Hx4 into Hnds, Hx5 into Hcc, Hfrag into Hndc.
  apply nodupL_NoDup in Hnd. apply nodupL_NoDup in Hnds.
  unfold check_program in H. apply cbind_ok in H. destruct H as [T [HT H]]. inversion H; subst; clear H.
  unfold check_program_t in HT.
  apply cbind_ok in HT. destruct HT as [consts [Hconsts HT]].
  apply (check_consts_spec _ _ _ Hcc) in Hconsts. cbn [rev app] in Hconsts. subst consts.
  apply cbind_ok in HT. destruct HT as [structs [Hstructs HT]].
  apply cbind_ok in HT. destruct HT as [enums [Henums HT]].
  apply cbind_ok in HT. destruct HT as [u0 [_ HT]].
  cbv zeta in HT.
  match type of HT with context [check_fn intern fuel ?D0] => set (D := D0) in * end.
  apply cbind_ok in HT. destruct HT as [stf [Hloop HT]].
  match type of HT with (if ?c then _ else _) = _ => destruct c eqn:Eun; [discriminate|] end.
  inversion HT; subst; clear HT.
  set (P' := export_program intern (mkTProgram (map const_t (up_consts P)) structs enums (st_typed stf) (up_main P))) in *.
  assert (Hsn : map fst structs = map us_name (up_structs P)).
  { eapply mapM_names; [|exact Hstructs]. intros a r Hr. unfold check_struct_def in Hr.
    apply cbind_ok in Hr. destruct Hr as [? [_ Hr]]. inversion Hr. reflexivity. }
  assert (HD : structs_link intern P' D).
  { intros name def Ha. split.
    - cbn [P' export_program Ast.p_structs tp_structs].
      rewrite (assocN_map_intern intern intern_inj). cbn [D d_structs] in Ha. rewrite (assocL_sort structs name def); [reflexivity| |exact Ha].
      rewrite Hsn. exact Hnds.
    - apply assocL_In in Ha. cbn [D d_structs] in Ha.
      destruct (mapM_In _ _ _ _ Hstructs Ha) as [sd [Hsd Hcd]]. apply struct_def_names in Hcd. cbn [snd] in Hcd. rewrite Hcd.
      unfold structs_sorted in Hsorted. rewrite forallb_forall in Hsorted. exact (Hsorted _ Hsd). }
  assert (Hfind : forall fd, In fd (up_fns P) -> find (fun d => list_eqb (uf_name d) (uf_name fd)) (d_fns D) = Some fd).
  { intros fd Hin. apply (find_by_name' _ Hnd _ Hin). }
  assert (Hnospf : forall fd, In fd (d_fns D) -> forallb sp_s (uf_body fd) = true).
  { intros fd Hin. unfold sp_program in Hnosp. rewrite forallb_forall in Hnosp. apply Hnosp. exact Hin. }
  (* the entries of `typed`: static signature (for the name), and the structure of the body *)
  set (Q := fun nd : list N * tfndef => Qs D nd /\ forallb (rest_s P') (map (export_stmt intern enums) (tf_body (snd nd))) = true).
  assert (HQins : forall f st ufd r id (k : unit), (f < S fuel)%nat -> Forall Q (st_typed st) ->
            find (fun d => list_eqb (uf_name d) id) (d_fns D) = Some ufd ->
            check_fn intern f D st ufd = COk r -> Forall Q (st_typed (snd r)) -> Forall Q ((id, fst r) :: st_typed (snd r))).
  { intros f st ufd [tfd st'] id _ _ _ Hfd Hc HQ'. constructor; [|exact HQ']. split.
    - exact (Qs_ins intern D f st ufd _ id Hfd Hc).
    - cbn [fst snd]. pose proof (find_some _ _ Hfd) as [Hin _]. exact (fn_rest enums P' D HD f st ufd tfd st' (Hnospf _ Hin) Hc). }
  assert (HQ : Forall Q (st_typed stf)).
  { eapply (pub_loop_gen intern D fuel (Forall Q) (up_fns P)); [|intros fd Hin; exact Hin|exact Hloop|constructor].
    intros st fd [tfd st1] Hin Hc HJ. cbn [fst snd]. constructor.
    - split; [exact (Qs_ins intern D fuel st fd _ (uf_name fd) (Hfind _ Hin) Hc)|].
      cbn [snd]. exact (fn_rest enums P' D HD fuel st fd tfd st1 (Hnospf _ Hin) Hc).
    - apply Forall_filter'.
      exact (proj2 (proj2 (proj2 (proj2 (check_typed_rel intern D unit (fun _ l => Forall Q l) (S fuel) HQins fuel ltac:(lia))))) _ _ _ Hc tt HJ). }
  (* every function has an entry *)
  assert (Hkey : forall fd, In fd (up_fns P) -> has_key (uf_name fd) (st_typed stf)).
  { intros fd Hin. destruct (uf_pub fd) eqn:Epub.
    - exact (proj2 (pub_loop_keys intern D fuel _ _ _ Hloop) fd Hin Epub).
    - rewrite <- not_true_iff_false in Eun. rewrite existsb_exists in Eun.
      destruct (assocL (uf_name fd) (st_typed stf)) as [tfd|] eqn:Ea.
      + exists tfd. apply assocL_In. exact Ea.
      + exfalso. apply Eun. exists fd. split; [exact Hin|]. rewrite Epub, Ea. reflexivity. }
  unfold TSemSafe.safe_program_ok. rewrite Hwt. cbn [andb].
  repeat (apply andb_true_iff; split).
  - (* fns_ok *)
    unfold TSemSafe.fns_ok. apply forallb_forall. intros d Hd.
    unfold tys_program in Htys. rewrite forallb_forall in Htys. pose proof (Htys d Hd) as Htd.
    cbn [P' export_program p_fns tp_fns tp_enums] in Hd. apply in_map_iff in Hd. destruct Hd as [nd [<- Hnd']].
    apply (proj1 (In_sort_fields _ _)) in Hnd'. rewrite Forall_forall in HQ. destruct (HQ _ Hnd') as [_ Hrest].
    cbn [export_fn fn_body] in *. apply forallb_forall. intros s Hs.
    rewrite forallb_forall in Htd, Hrest. apply ok_split_s; auto.
  - (* consts_ok *)
    unfold TSemSafe.consts_ok. cbn [P' export_program p_consts tp_consts tp_enums]. apply forallb_forall. intros c' Hc'.
    apply in_map_iff in Hc'. destruct Hc' as [nc [<- Hnc]]. apply in_map_iff in Hnc. destruct Hnc as [c [<- Hin]].
    rewrite forallb_forall in Hcc. pose proof (Hcc _ Hin) as Hc. unfold const_frag in Hc. unfold const_t. cbn [snd fst].
    destruct (uc_ty c) as [|tu|ts| | | | |]; try discriminate Hc;
      destruct (uc_value c) as [| |n tv|z tv| | | | | |]; try discriminate Hc;
      cbn [export_expr export_ty TSemSafe.const_ok]; try reflexivity; apply N.eqb_refl.
  - (* has_main *)
    unfold TSemSafe.has_main. unfold main_declared, memL in Hmain. apply existsb_exists in Hmain.
    destruct Hmain as [nm [Hnm Heq]]. apply list_eqb_eq in Heq. apply in_map_iff in Hnm. destruct Hnm as [fd [Hfdn Hfd]].
    destruct (Hkey _ Hfd) as [tfd Htfd]. rewrite Forall_forall in HQ. destruct (HQ _ Htfd) as [[ufd [_ [_ [_ Hn0]]]] _].
    cbn [fst snd] in Hn0.
    unfold find_fn. cbn [P' export_program p_fns p_main tp_fns tp_main tp_enums].
    destruct (find_exists (fun d => fn_name d =? intern (up_main P))
                (map (fun nd => export_fn intern enums (snd nd)) (sort_fields (st_typed stf)))
                (export_fn intern enums tfd)) as [d Hd].
    { apply in_map_iff. exists (uf_name fd, tfd). split; [reflexivity|]. apply (proj2 (In_sort_fields _ _)). exact Htfd. }
    { cbn [export_fn fn_name]. rewrite Hn0, Hfdn, Heq. apply N.eqb_refl. }
    rewrite Hd. reflexivity.
Qed.

(* C05, first clause, for the fragment: the typed program the checker returns does not crash the
   lowering, for every fuel and all arguments of the parameter sizes, and the result has the size of
   the return type *)
Theorem accepted_programs_do_not_crash_the_compiler fuel P P' :
  in_sound_fragment P = true -> structs_sorted P = true -> sp_program P = true -> main_declared P = true ->
  (fuel <= S Wt.wt_fuel)%nat -> check_program intern fuel P = COk P' -> tys_program P' = true ->
  forall tfuel args, exists fd, find_fn P' (p_main P') = Some fd /\
    (Forall2 (fun p a => length a = Lower.szn P' (snd p)) (fn_params fd) args ->
     match TSem.tsem_program tfuel P' args with
     | Crash => False
     | OutOfFuel => True
     | Ok (_, outs) => length outs = Lower.szn P' (fn_ret fd)
     end).
Proof.
  intros H1 H1' H2 H3 H4 H5 H6 tfuel args.
  pose proof (check_safe_fragment fuel P P' H1 H1' H2 H3 H4 H5 H6) as Hs.
  exact (TSemSafe.tsem_program_safe_ok tfuel P' args Hs).
Qed.

End SafeProgram.

Print Assumptions check_safe_fragment.
Print Assumptions accepted_programs_do_not_crash_the_compiler.

(* ---------------------------------------------------------------- the hypotheses are satisfiable *)

From GV Require Check.InferExamples.
Module SafeExamples.
Import InferExamples. Import String. Local Open Scope string_scope. Local Open Scope N_scope.

Definition all_hyps (P : uprogram) : bool :=
  in_sound_fragment P && structs_sorted P && sp_program P && main_declared P &&
  match check_program ex_intern 50 P with COk P' => tys_program P' | _ => false end.

(* calls, a struct literal + access, an enum literal + match with enum patterns, a const, all suffixed *)
Definition P_all := mkUProgram [mkUConst (nm "K") u8 (CENumUnsigned 5 U8)] [s_P] [e_E]
  [main_fn [px "x" u8] u8
     [XSLet (pid "p") None (XStructLiteral (nm "P") [(nm "a", XFnCall (nm "inc") [id_ "x"]); (nm "b", XTrue)]);
      XSLet (ParseExpr.PStruct (nm "P") [(nm "a", pid "q"); (nm "b", pid "q")]) None (id_ "p");
      XSLet (ParseExpr.PStructIgnoreRemaining (nm "P") [(nm "b", pid "_")]) None (id_ "p");
      XSLet (pid "e") None (XEnumLiteral (nm "E") (nm "B") (Some [XStructAccess (id_ "p") (nm "a")]));
      XSExpr (XMatch (id_ "e") [(ParseExpr.PEnumUnit (nm "E") (nm "A"), id_ "K");
                               (ParseExpr.PEnumTuple (nm "E") (nm "B") [pid "v"], id_ "v")])];
   mkUFn false (nm "inc") u8 [px "a" u8] [XSExpr (XOp BAdd (id_ "a") (XNumUnsigned 1 U8))]] (nm "main").

Example hyps_satisfiable : forallb all_hyps [P_loop; P_ops; P_const; P_all] = true.
Proof. vm_compute. reflexivity. Qed.

(* the order hypothesis is needed: the checker accepts a struct pattern that names the fields out of
   definition order and binds a variable twice (never produced by the parser, which sorts the fields);
   TSemSafe.ok_pat refuses it *)
Definition P_unsorted := mkUProgram [] [s_P] []
  [main_fn [px "x" u8] u8
     [XSLet (pid "p") None (XStructLiteral (nm "P") [(nm "a", id_ "x"); (nm "b", XTrue)]);
      XSLet (ParseExpr.PStruct (nm "P") [(nm "b", pid "q"); (nm "a", pid "q")]) None (id_ "p");
      XSExpr (id_ "q")]] (nm "main").
Example unsorted_struct_pattern :
  in_sound_fragment P_unsorted = true /\ sp_program P_unsorted = false /\
  match check_program ex_intern 50 P_unsorted with
  | COk P' => tys_program P' = true /\ Wt.wt_program P' = true /\ TSemSafe.safe_program_ok P' = false
  | _ => False
  end.
Proof. vm_compute. repeat split; reflexivity. Qed.
End SafeExamples.
