(* C05, first clause, for the checker model: the typed program the checker returns passes the
   side conditions of Compile/TSemSafe.v, hence compiling it does not crash.
   TSemSafe.ok_expr = (every node type is [node_ok]) && (structure: index expressions have an index type,
   struct patterns are benign, no join).  The STRUCTURE part is proved for the checker's output
   ([rest_program]); the TYPE part ([tys_e]: the node types are explorable within Sem.ty_fuel = 40 and
   arrays have at most 2^32 elements) is NOT implied by acceptance -- a tuple nested deeper than 40 is
   accepted -- and is a Boolean hypothesis on the output. *)
From Coq Require Import Lia Bool.
From GV Require Import Base.Util Front.Scan Front.ParseExpr Check.UAst Check.Infer Check.InferProofs Check.InferSound.
From GV Require Import Lang.Ast Lang.Wt Lang.ValTy.
From GV Require Lang.Sem Compile.TSemSafe.
Local Open Scope N_scope.

(* ================================================================ ok_expr = types && structure *)

Section Split.
Variable P : program.
Notation node_ok := (TSemSafe.node_ok P).
Notation ok_pat := (TSemSafe.ok_pat P).

(* the node types *)
Fixpoint tys_e (e : expr) : bool :=
  match e with
  | Ex ei _ t =>
    node_ok t &&
    match ei with
    | ETrue | EFalse | ENumU _ _ | ENumS _ _ | EId _ | ERange _ _ _ => true
    | EArrLit es | ETupLit es | EEnumLit _ _ es | ECall _ es => forallb tys_e es
    | EArrRep e1 _ | ETupAcc e1 _ | EFld e1 _ | ENeg e1 | ENot e1 | ECast _ e1 => tys_e e1
    | EIdx a i => tys_e a && tys_e i
    | EStructLit _ fields => forallb (fun fe => tys_e (snd fe)) fields
    | EMatch s arms => tys_e s && forallb (fun arm => tys_e (snd arm)) arms
    | EOp _ x y => tys_e x && tys_e y
    | EBlock b => forallb tys_s b
    | EJoin _ _ a b => tys_e a && tys_e b
    | EIf c a b => tys_e c && tys_e a && tys_e b
    end
  end
with tys_s (s : stmt) : bool :=
  match s with
  | St si _ =>
    match si with
    | SLet _ e | SLetMut _ e | SExpr e => tys_e e
    | SAssign _ accs e => forallb tys_a accs && tys_e e
    | SFor _ arr body => tys_e arr && forallb tys_s body
    | SJoinLoop _ _ a b body => tys_e a && tys_e b && forallb tys_s body
    end
  end
with tys_a (a : accessor) : bool :=
  match a with
  | AIdx aty i => node_ok aty && tys_e i
  | ATup tty _ => node_ok tty
  | AFld sty _ => node_ok sty
  end.

(* the structure *)
Fixpoint rest_e (e : expr) : bool :=
  match e with
  | Ex ei _ _ =>
    match ei with
    | ETrue | EFalse | ENumU _ _ | ENumS _ _ | EId _ | ERange _ _ _ => true
    | EArrLit es | ETupLit es | EEnumLit _ _ es | ECall _ es => forallb rest_e es
    | EArrRep e1 _ | ETupAcc e1 _ | EFld e1 _ | ENeg e1 | ENot e1 | ECast _ e1 => rest_e e1
    | EIdx a i => TSemSafe.idx_ok (e_ty i) && rest_e a && rest_e i
    | EStructLit _ fields => forallb (fun fe => rest_e (snd fe)) fields
    | EMatch s arms => rest_e s && forallb (fun arm => ok_pat (fst arm) && rest_e (snd arm)) arms
    | EOp _ x y => rest_e x && rest_e y
    | EBlock b => forallb rest_s b
    | EJoin _ _ _ _ => false
    | EIf c a b => rest_e c && rest_e a && rest_e b
    end
  end
with rest_s (s : stmt) : bool :=
  match s with
  | St si _ =>
    match si with
    | SLet p e => ok_pat p && rest_e e
    | SLetMut _ e => rest_e e
    | SAssign _ accs e => forallb rest_a accs && rest_e e
    | SFor p arr body => ok_pat p && rest_e arr && forallb rest_s body
    | SJoinLoop _ _ _ _ _ => false
    | SExpr e => rest_e e
    end
  end
with rest_a (a : accessor) : bool :=
  match a with
  | AIdx _ i => TSemSafe.idx_ok (e_ty i) && rest_e i
  | ATup _ _ | AFld _ _ => true
  end.

Lemma rest_s_expr e m : rest_s (St (SExpr e) m) = rest_e e.
Proof. reflexivity. Qed.
Lemma rest_s_let p e m : rest_s (St (SLet p e) m) = ok_pat p && rest_e e.
Proof. reflexivity. Qed.
Lemma rest_s_letmut x e m : rest_s (St (SLetMut x e) m) = rest_e e.
Proof. reflexivity. Qed.
Lemma rest_s_assign x accs e m : rest_s (St (SAssign x accs e) m) = forallb rest_a accs && rest_e e.
Proof. reflexivity. Qed.
Lemma rest_s_for p arr body m : rest_s (St (SFor p arr body) m) = ok_pat p && rest_e arr && forallb rest_s body.
Proof. reflexivity. Qed.
Lemma rest_e_block b m t : rest_e (Ex (EBlock b) m t) = forallb rest_s b.
Proof. reflexivity. Qed.
Lemma rest_a_idx t i : rest_a (AIdx t i) = TSemSafe.idx_ok (e_ty i) && rest_e i.
Proof. reflexivity. Qed.

Lemma forallb_split {A} (p q r : A -> bool) (l : list A) :
  (forall x, In x l -> p x = true -> q x = true -> r x = true) ->
  forallb p l = true -> forallb q l = true -> forallb r l = true.
Proof.
  intros H Hp Hq. apply forallb_forall. intros x Hx. rewrite forallb_forall in Hp, Hq. apply H; auto.
Qed.

Fixpoint ok_split_e (e : expr) : tys_e e = true -> rest_e e = true -> TSemSafe.ok_expr P e = true
with ok_split_s (s : stmt) : tys_s s = true -> rest_s s = true -> TSemSafe.ok_stmt P s = true
with ok_split_a (a : accessor) : tys_a a = true -> rest_a a = true -> TSemSafe.ok_acc P a = true.
Proof.
  - destruct e as [ei m t]. cbn [tys_e rest_e TSemSafe.ok_expr]. intros Ht Hr.
    apply andb_true_iff in Ht. destruct Ht as [Hn Ht]. rewrite Hn. cbn [andb].
    destruct ei as [ | | n0 lb | z0 lb | x0 | es | e1 n0 | ei1 ei2 | es | e1 i0 | e1 fld | name fields | en v args | ei arms | e1 | e1 | o ei1 ei2 | b | fn args | jt ha ja jb | ei1 ei2 ei3 | to e1 | lo hi bits ];
      try reflexivity; try discriminate Hr.
    + induction es as [|x xs IH]; [reflexivity|]. cbn [forallb] in *. apply andb_true_iff in Ht, Hr. destruct Ht, Hr.
      rewrite (ok_split_e x) by assumption. apply IH; assumption.
    + apply ok_split_e; assumption.
    + apply andb_true_iff in Ht. destruct Ht as [Ha Hi]. apply andb_true_iff in Hr. destruct Hr as [Hr Hri]. apply andb_true_iff in Hr. destruct Hr as [Hx Hra].
      rewrite Hx, (ok_split_e ei1), (ok_split_e ei2) by assumption. reflexivity.
    + induction es as [|x xs IH]; [reflexivity|]. cbn [forallb] in *. apply andb_true_iff in Ht, Hr. destruct Ht, Hr.
      rewrite (ok_split_e x) by assumption. apply IH; assumption.
    + apply ok_split_e; assumption.
    + apply ok_split_e; assumption.
    + induction fields as [|[n x] xs IH]; [reflexivity|]. cbn [forallb snd] in *. apply andb_true_iff in Ht, Hr. destruct Ht, Hr.
      rewrite (ok_split_e x) by assumption. apply IH; assumption.
    + induction args as [|x xs IH]; [reflexivity|]. cbn [forallb] in *. apply andb_true_iff in Ht, Hr. destruct Ht, Hr.
      rewrite (ok_split_e x) by assumption. apply IH; assumption.
    + apply andb_true_iff in Ht. destruct Ht as [Hs Ha]. apply andb_true_iff in Hr. destruct Hr as [Hrs Hra].
      rewrite (ok_split_e ei) by assumption. cbn [andb].
      induction arms as [|[p x] xs IH]; [reflexivity|]. cbn [forallb fst snd] in *. apply andb_true_iff in Ha, Hra. destruct Ha, Hra as [Hpx Hrest].
      apply andb_true_iff in Hpx. destruct Hpx as [Hp Hx]. rewrite Hp, (ok_split_e x) by assumption. apply IH; assumption.
    + apply ok_split_e; assumption.
    + apply ok_split_e; assumption.
    + apply andb_true_iff in Ht, Hr. destruct Ht, Hr. rewrite (ok_split_e ei1), (ok_split_e ei2) by assumption. reflexivity.
    + induction b as [|x xs IH]; [reflexivity|]. cbn [forallb] in *. apply andb_true_iff in Ht, Hr. destruct Ht, Hr.
      rewrite (ok_split_s x) by assumption. apply IH; assumption.
    + induction args as [|x xs IH]; [reflexivity|]. cbn [forallb] in *. apply andb_true_iff in Ht, Hr. destruct Ht, Hr.
      rewrite (ok_split_e x) by assumption. apply IH; assumption.
    + apply andb_true_iff in Ht. destruct Ht as [Ht H3]. apply andb_true_iff in Ht. destruct Ht as [H1 H2].
      apply andb_true_iff in Hr. destruct Hr as [Hr R3]. apply andb_true_iff in Hr. destruct Hr as [R1 R2].
      rewrite (ok_split_e ei1), (ok_split_e ei2), (ok_split_e ei3) by assumption. reflexivity.
    + apply ok_split_e; assumption.
  - destruct s as [si m]. cbn [tys_s rest_s TSemSafe.ok_stmt]. intros Ht Hr.
    destruct si as [p e | vx e | vx accs e | p arr body | p jt ja jb body | e]; try discriminate Hr.
    + apply andb_true_iff in Hr. destruct Hr as [Hp Hr]. rewrite Hp. apply ok_split_e; assumption.
    + apply ok_split_e; assumption.
    + apply andb_true_iff in Ht, Hr. destruct Ht as [Hta Hte], Hr as [Hra Hre]. rewrite (ok_split_e e) by assumption. rewrite andb_true_r.
      induction accs as [|x xs IH]; [reflexivity|]. cbn [forallb] in *. apply andb_true_iff in Hta, Hra. destruct Hta, Hra.
      rewrite (ok_split_a x) by assumption. apply IH; assumption.
    + apply andb_true_iff in Ht. destruct Ht as [Hta Htb]. apply andb_true_iff in Hr. destruct Hr as [Hr Hrb]. apply andb_true_iff in Hr. destruct Hr as [Hp Hra].
      rewrite Hp, (ok_split_e arr) by assumption. cbn [andb].
      induction body as [|x xs IH]; [reflexivity|]. cbn [forallb] in *. apply andb_true_iff in Htb, Hrb. destruct Htb, Hrb.
      rewrite (ok_split_s x) by assumption. apply IH; assumption.
    + apply ok_split_e; assumption.
  - destruct a; cbn [tys_a rest_a TSemSafe.ok_acc]; intros Ht Hr.
    + apply andb_true_iff in Ht, Hr. destruct Ht as [Hn Hi], Hr as [Hx Hri]. rewrite Hn, Hx, (ok_split_e i) by assumption. reflexivity.
    + exact Ht.
    + exact Ht.
Qed.

End Split.

(* ================================================================ the structure of the checker's output *)

(* no struct patterns (TSemSafe asks more of them than the checker guarantees at the AST level: the fields
   in definition order, or no variable bound twice) *)
Fixpoint nosp_p (p : upattern) : bool :=
  match p with
  | PTuple ps | PEnumTuple _ _ ps => forallb nosp_p ps
  | ParseExpr.PStruct _ _ | ParseExpr.PStructIgnoreRemaining _ _ => false
  | _ => true
  end.

Fixpoint nosp_e (e : xexpr) : bool :=
  match e with
  | XArrayLiteral es | XTupleLiteral es | XFnCall _ es | XEnumLiteral _ _ (Some es) => forallb nosp_e es
  | XArrayRepeatLiteral e _ | XTupleAccess e _ | XStructAccess e _ | XUnaryOp _ e | XCast _ e
  | XArrayRepeatLiteralConst e _ => nosp_e e
  | XArrayAccess a i => nosp_e a && nosp_e i
  | XStructLiteral _ fs => forallb (fun f => nosp_e (snd f)) fs
  | XMatch e arms => nosp_e e && forallb (fun a => nosp_p (fst a) && nosp_e (snd a)) arms
  | XOp _ l r => nosp_e l && nosp_e r
  | XBlock b => forallb nosp_s b
  | XIf c a b => nosp_e c && nosp_e a && nosp_e b
  | XJoin es => forallb nosp_e es
  | _ => true
  end
with nosp_s (s : xstmt) : bool :=
  match s with
  | XSLet p _ e => nosp_p p && nosp_e e
  | XSLetMut _ _ e | XSExpr e => nosp_e e
  | XSVarAssign _ accs e => forallb nosp_a accs && nosp_e e
  | XSForEach p e body => nosp_p p && nosp_e e && forallb nosp_s body
  end
with nosp_a (a : xaccessor) : bool :=
  match a with XAArray i => nosp_e i | _ => true end.

Section Rest.
Variable intern : list N -> N.
Variable en : list (list N * list (list N * option (list cty))).
Variable P' : program.
Notation xe := (export_expr intern en).
Notation xs := (export_stmt intern en).
Notation xa := (export_accessor intern en).
Notation xp := (export_pattern intern en).
Notation re := (fun e : texpr => rest_e P' (xe e) = true).
Notation rs := (fun s : tstmt => rest_s P' (xs s) = true).

Lemma rest_set_ty e t : rest_e P' (xe (set_ty e t)) = rest_e P' (xe e).
Proof. destruct e as [i ty]. destruct i; reflexivity. Qed.

Lemma e_ty_xe' e : e_ty (xe e) = export_ty intern (ty_of e).
Proof. destruct e; reflexivity. Qed.

Lemma mapM_re (g : texpr -> cres texpr) : forall l l',
  mapM g l = COk l' -> (forall x x', In x l -> g x = COk x' -> re x -> re x') ->
  forallb (rest_e P') (map xe l) = true -> forallb (rest_e P') (map xe l') = true.
Proof.
  induction l as [|x l IH]; intros l' H Hg Hr; cbn [mapM] in H; inv_all; [reflexivity|].
  cbn [map forallb] in *. apply andb_true_iff in Hr. destruct Hr as [H1 H2].
  rewrite (Hg _ _ (or_introl eq_refl) Hb H1). apply IH; [assumption|intros; eapply Hg; [right|..]; eauto|assumption].
Qed.

Lemma zipM_re {B} (g : texpr -> B -> cres texpr) : forall l ys l',
  zipM g l ys = COk l' -> (forall x y x', In x l -> g x y = COk x' -> re x -> re x') ->
  forallb (rest_e P') (map xe l) = true -> forallb (rest_e P') (map xe l') = true.
Proof.
  induction l as [|x l IH]; intros ys l' H Hg Hr; cbn [zipM] in H; [inv_all; reflexivity|].
  destruct ys as [|y ys]; inv_all; [exact Hr|].
  cbn [map forallb] in *. apply andb_true_iff in Hr. destruct Hr as [H1 H2].
  rewrite (Hg _ _ _ (or_introl eq_refl) Hb H1). eapply IH; [eassumption|intros; eapply Hg; [right|..]; eauto|assumption].
Qed.

Lemma xe_blk b t : xe (TE (TBlock b) t) = Ex (EBlock (map xs b)) m0 (export_ty intern t).
Proof. reflexivity. Qed.
Lemma xs_sexpr e : xs (TSExpr e) = St (SExpr (xe e)) m0.
Proof. reflexivity. Qed.

Lemma map_last_rs (g : texpr -> cres texpr) : forall b b',
  map_last_expr g b = COk b' -> (forall x x', g x = COk x' -> re x -> re x') ->
  forallb (rest_s P') (map xs b) = true -> forallb (rest_s P') (map xs b') = true.
Proof.
  induction b as [|s b IH]; intros b' H Hg Hr; [cbn in H; inv_all; reflexivity|].
  cbn [map_last_expr] in H. cbn [map forallb] in Hr. apply andb_true_iff in Hr. destruct Hr as [H1 H2].
  destruct b as [|s2 b].
  - destruct s; inv_all; cbn [map forallb]; try (rewrite H1; reflexivity).
    rewrite xs_sexpr, rest_s_expr in *. pose proof (Hg _ _ Hb H1) as Hx. cbv beta in Hx. rewrite Hx. reflexivity.
  - destruct s; inv_all; cbn [map forallb]; rewrite H1; cbn [andb]; (eapply IH; [eassumption|exact Hg|exact H2]).
Qed.

Lemma mapM_arms_re (g : texpr -> cres texpr) : (forall x x', g x = COk x' -> re x -> re x') ->
  forall (arms l' : list (tpattern * texpr)),
  mapM (fun pc : tpattern * texpr => do b <- g (snd pc); COk (fst pc, b)) arms = COk l' ->
  forallb (fun arm : pattern * expr => TSemSafe.ok_pat P' (fst arm) && rest_e P' (snd arm))
          (map (fun a : tpattern * texpr => (xp (fst a), xe (snd a))) arms) = true ->
  forallb (fun arm : pattern * expr => TSemSafe.ok_pat P' (fst arm) && rest_e P' (snd arm))
          (map (fun a : tpattern * texpr => (xp (fst a), xe (snd a))) l') = true.
Proof.
  intros Hg. induction arms as [|[p x] arms IH]; intros l' H Ha; cbn [mapM] in H.
  - inversion H. reflexivity.
  - apply cbind_ok in H. destruct H as [[p1 x1] [Hx H]]. apply cbind_ok in H. destruct H as [r [Hr H]]. inversion H; subst; clear H.
    apply cbind_ok in Hx. destruct Hx as [b [Hb Hx]]. inversion Hx; subst; clear Hx.
    cbn [map forallb fst snd] in *. apply andb_true_iff in Ha. destruct Ha as [Hpx Hrest]. apply andb_true_iff in Hpx. destruct Hpx as [Hp Hxx].
    rewrite Hp. pose proof (Hg _ _ Hb Hxx) as Hb'. cbv beta in Hb'. rewrite Hb'. cbn [andb]. apply IH; assumption.
Qed.

Lemma coc_u_shape e t e' : check_or_constrain_unsigned e t = COk e' -> exists t', e' = set_ty e t'.
Proof.
  unfold check_or_constrain_unsigned. destruct (_ && _); [discriminate|].
  destruct (unsigned_max t); [destruct (inner_of e); try (intro H; inv_all; eauto)|intro H; inv_all; eauto].
Qed.
Lemma coc_s_shape e t e' : check_or_constrain_signed e t = COk e' -> exists t', e' = set_ty e t'.
Proof. unfold check_or_constrain_signed. destruct (_ && _); [discriminate|]. cbv zeta. intro H. inv_all. eauto. Qed.

Lemma constrain_type_re : forall f e t e', constrain_type f e t = COk e' -> re e -> re e'.
Proof.
  induction f as [|f IH]; intros e t e' H Hr; [discriminate|].
  cbn [constrain_type] in H. apply cbind_ok in H. destruct H as [e1 [H1 H2]]. inversion H2; subst; clear H2.
  rewrite rest_set_ty.
  assert (Hleaf : forall r, match t with
                            | CUnsigned t0 => check_or_constrain_unsigned e t0
                            | CSigned t0 => check_or_constrain_signed e t0
                            | _ => COk e end = COk r -> re r).
  { intros r Hl. destruct t; inv_all; try exact Hr.
    - destruct (coc_u_shape _ _ _ Hl) as [t' ->]. rewrite rest_set_ty. exact Hr.
    - destruct (coc_s_shape _ _ _ Hl) as [t' ->]. rewrite rest_set_ty. exact Hr. }
  destruct e as [i ty]. cbn [inner_of ty_of] in *.
  destruct i as [ | | n0 u0 | z0 s0 | x0 | es | x n0 | a i | es | x i0 | x fld | sn fs | en0 v args | s arms | o x | o a b | b | fn args | c a b | cty0 x | lo hi u0 ];
    try (apply Hleaf; exact H1).
  - destruct t; try (apply Hleaf; exact H1); inv_all; reflexivity.
  - destruct t; try (apply Hleaf; exact H1). inv_all. cbn [export_expr rest_e] in Hr |- *.
    eapply mapM_re; [eassumption| |exact Hr]. intros x1 x1' _ Hg1 Hr1. exact (IH _ _ _ Hg1 Hr1).
  - destruct t; try (apply Hleaf; exact H1). inv_all. cbn [export_expr rest_e] in Hr |- *. eapply IH; eauto.
  - destruct t; try (apply Hleaf; exact H1). inv_all; [|exact Hr]. cbn [export_expr rest_e] in Hr |- *.
    eapply zipM_re; [eassumption| |exact Hr]. intros x1 y1 x1' _ Hg1 Hr1. exact (IH _ _ _ Hg1 Hr1).
  - (* match *) apply cbind_ok in H1. destruct H1 as [arms' [Hm H1]]. inversion H1; subst; clear H1.
    cbn [export_expr rest_e] in Hr |- *. apply andb_true_iff in Hr. destruct Hr as [Hs Ha]. rewrite Hs. cbn [andb].
    eapply (mapM_arms_re (fun x => constrain_type f x t)); [|exact Hm|exact Ha]. intros x1 x1' Hg1 Hr1. exact (IH _ _ _ Hg1 Hr1).
  - inv_all. destruct o; cbn [export_expr rest_e] in Hr |- *; eapply IH; eauto.
  - cbn [export_expr rest_e] in Hr. apply andb_true_iff in Hr. destruct Hr as [Ha Hb0].
    destruct o; inv_all; cbn [export_expr rest_e];
      repeat match goal with H : constrain_type f ?x _ = COk ?y |- _ =>
        first [rewrite (IH _ _ _ H Ha) | rewrite (IH _ _ _ H Hb0)]; clear H end;
      rewrite ?Ha, ?Hb0; reflexivity.
  - inv_all. rewrite xe_blk in Hr |- *. rewrite rest_e_block in Hr |- *. eapply map_last_rs; [eassumption| |exact Hr]. intros x1 x1' Hg1 Hr1. exact (IH _ _ _ Hg1 Hr1).
  - cbn [export_expr rest_e] in Hr. apply andb_true_iff in Hr. destruct Hr as [Hr H3]. apply andb_true_iff in Hr. destruct Hr as [Hc Ha].
    inv_all. cbn [export_expr rest_e]. rewrite Hc, (IH _ _ _ Hb Ha), (IH _ _ _ Hb0 H3). reflexivity.
  - (* range *) destruct u0; try (apply Hleaf; exact H1).
    destruct t; try (apply Hleaf; exact H1). destruct t; try (apply Hleaf; exact H1); try discriminate H1.
    match type of H1 with (if ?c then _ else _) = _ => destruct c; [discriminate|] end. inv_all. reflexivity.
Qed.

Lemma check_type_re f e t e' : check_type f e t = COk e' -> re e -> re e'.
Proof. unfold check_type. intros H Hr. inv_all. eapply constrain_type_re; eauto. Qed.

Lemma coc_u_deep_re f e t e' : coc_unsigned_deep f e t = COk e' -> re e -> re e'.
Proof.
  unfold coc_unsigned_deep. intros H Hr. destruct (_ && _); [discriminate|]. destruct (_ && _).
  - eapply constrain_type_re; eauto.
  - destruct (coc_u_shape _ _ _ H) as [t' ->]. rewrite rest_set_ty. exact Hr.
Qed.
Lemma coc_s_deep_re f e t e' : coc_signed_deep f e t = COk e' -> re e -> re e'.
Proof.
  unfold coc_signed_deep. intros H Hr. destruct (_ && _); [discriminate|]. destruct (_ && _).
  - eapply constrain_type_re; eauto.
  - destruct (coc_s_shape _ _ _ H) as [t' ->]. rewrite rest_set_ty. exact Hr.
Qed.

Lemma unify_re f a b a' b' t : unify f a b = COk (a', b', t) -> re a -> re b -> re a' /\ re b'.
Proof.
  unfold unify. cbv zeta. intros H Ha Hb. destruct (cty_eqb _ _).
  - inv_all. rewrite !rest_set_ty. auto.
  - destruct (ty_of a) as [|[]|[]| | | |]; destruct (ty_of b) as [|[]|[]| | | |]; try discriminate;
      inv_all; rewrite !rest_set_ty;
      first [ split; [eapply coc_u_deep_re; eassumption|assumption] | split; [eapply coc_s_deep_re; eassumption|assumption]
            | split; [assumption|eapply coc_u_deep_re; eassumption] | split; [assumption|eapply coc_s_deep_re; eassumption] ].
Qed.

Lemma constrain_to_i32_re : forall f b b', constrain_to_i32 f b = COk b' -> re b -> re b'.
Proof.
  induction f as [|f IH]; intros b b' H Hr; [discriminate|].
  cbn [constrain_to_i32] in H. apply cbind_ok in H. destruct H as [b1 [H1 H]]. apply cbind_ok in H. destruct H as [b2 [H2 H]].
  inversion H; subst; clear H. rewrite rest_set_ty.
  assert (Hr1 : re b1).
  { destruct (_ || _); [eapply coc_s_deep_re; eauto|inversion H1; subst; exact Hr]. }
  clear H1 Hr. destruct b1 as [i ty]. cbn [inner_of ty_of] in *.
  destruct i; try (inversion H2; subst; exact Hr1).
  - apply cbind_ok in H2. destruct H2 as [es' [Hm H2]]. inversion H2; subst; clear H2.
    cbn [export_expr rest_e] in Hr1 |- *. eapply mapM_re; [exact Hm| |exact Hr1]. intros x1 x1' _ Hg1 Hr2. exact (IH _ _ Hg1 Hr2).
  - apply cbind_ok in H2. destruct H2 as [x' [Hm H2]]. inversion H2; subst; clear H2.
    cbn [export_expr rest_e] in Hr1 |- *. exact (IH _ _ Hm Hr1).
  - apply cbind_ok in H2. destruct H2 as [es' [Hm H2]]. inversion H2; subst; clear H2.
    cbn [export_expr rest_e] in Hr1 |- *. eapply mapM_re; [exact Hm| |exact Hr1]. intros x1 x1' _ Hg1 Hr2. exact (IH _ _ Hg1 Hr2).
Qed.

(* the type a successful check_or_constrain_unsigned (deep) leaves on the node *)
Lemma coc_u_ty e u e' : check_or_constrain_unsigned e u = COk e' -> ty_of e' = CUnsigned u.
Proof.
  unfold check_or_constrain_unsigned. destruct (_ && _); [discriminate|].
  destruct (unsigned_max u); [destruct (inner_of e); try (intro H; inv_all; apply ty_of_set_ty)|intro H; inv_all; apply ty_of_set_ty].
Qed.

Lemma coc_u_deep_ty f e u e' : coc_unsigned_deep f e u = COk e' -> ty_of e' = CUnsigned u.
Proof.
  unfold coc_unsigned_deep. destruct (negb (cty_eqb (ty_of e) (CUnsigned u)) && negb (is_uU (ty_of e))) eqn:E1; [discriminate|].
  destruct (negb (cty_eqb (ty_of e) (CUnsigned u)) && is_compound e) eqn:E2; [|apply coc_u_ty].
  apply andb_true_iff in E2. destruct E2 as [Hne Hc]. rewrite Hne in E1. cbn [andb] in E1. apply negb_false_iff in E1.
  unfold is_uU in E1. apply cty_eqb_eq in E1.
  destruct f as [|f]; [discriminate|]. cbn [constrain_type]. intro H. apply cbind_ok in H. destruct H as [e1 [H1 H2]].
  inversion H2; subst; clear H2. rewrite ty_of_set_ty.
  assert (Ht : ty_of e1 = uU).
  { destruct e as [i ty]. cbn [inner_of ty_of is_compound] in *. subst ty.
    destruct i; try discriminate Hc.
    - apply cbind_ok in H1. destruct H1 as [? [_ H1]]. inversion H1. reflexivity.
    - apply cbind_ok in H1. destruct H1 as [? [_ H1]]. inversion H1. reflexivity.
    - destruct o; inv_all; reflexivity.
    - apply cbind_ok in H1. destruct H1 as [? [_ H1]]. inversion H1. reflexivity.
    - inv_all. reflexivity. }
  rewrite Ht. reflexivity.
Qed.

(* patterns *)
Lemma fields_loop_okpat D fs : Forall (fun p => forall g ty tp g', nosp_p p = true -> check_pattern D g p ty = COk (tp, g') -> TSemSafe.ok_pat P' (xp tp) = true) fs ->
  forallb nosp_p fs = true ->
  forall ts g r g',
    (fix go (fs : list upattern) (ts : list cty) (g : cenv) : cres (list tpattern * cenv) :=
       match fs, ts with
       | fp :: fr, t :: tr =>
           do r1 <- check_pattern D g fp t; do r2 <- go fr tr (snd r1); COk (fst r1 :: fst r2, snd r2)
       | _, _ => COk ([], g)
       end) fs ts g = COk (r, g') ->
  forallb (TSemSafe.ok_pat P') (map xp r) = true.
Proof.
  induction 1 as [|q fs Hq Hfs IH]; intros Hn ts g r g' H.
  - inversion H; subst. reflexivity.
  - destruct ts as [|t ts]; [inversion H; subst; reflexivity|].
    cbn [forallb] in Hn. apply andb_true_iff in Hn. destruct Hn as [Hn1 Hn2].
    apply cbind_ok in H. destruct H as [[p1 g1] [H1 H]]. apply cbind_ok in H. destruct H as [[r2 g2] [H2 H]].
    cbn [fst snd] in *. inversion H; subst; clear H. cbn [map forallb]. rewrite (Hq _ _ _ _ Hn1 H1). exact (IH Hn2 _ _ _ _ H2).
Qed.

Lemma check_pattern_okpat D : forall p g ty tp g', nosp_p p = true -> check_pattern D g p ty = COk (tp, g') ->
  TSemSafe.ok_pat P' (xp tp) = true.
Proof.
  induction p using upattern_ind'; intros g ty tp g' Hn HH; try discriminate Hn; cbn [check_pattern] in HH.
  - inversion HH; reflexivity.
  - destruct ty; inversion HH; reflexivity.
  - destruct ty; inversion HH; reflexivity.
  - inv_all. reflexivity.
  - inv_all. reflexivity.
  - cbn [nosp_p] in Hn. apply cbind_ok in HH. destruct HH as [fts [_ HH]].
    destruct (negb _); [discriminate|]. apply cbind_ok in HH. destruct HH as [[r g2] [Hl HH]]. inversion HH; subst; clear HH.
    cbn [fst export_pattern TSemSafe.ok_pat]. exact (fields_loop_okpat D ps H Hn _ _ _ _ Hl).
  - destruct ty; try discriminate HH. destruct (negb _); [discriminate|]. destruct (assocL e (d_enums D)); [|discriminate].
    destruct (assocL v l) as [[?|]|]; try discriminate HH. inversion HH; reflexivity.
  - cbn [nosp_p] in Hn. destruct ty; try discriminate HH. destruct (negb _); [discriminate|]. destruct (assocL e (d_enums D)); [|discriminate].
    destruct (assocL v l) as [[pts|]|]; try discriminate HH. destruct (negb _); [discriminate|].
    apply cbind_ok in HH. destruct HH as [[r g2] [Hl HH]]. inversion HH; subst; clear HH.
    cbn [fst export_pattern TSemSafe.ok_pat]. exact (fields_loop_okpat D ps H Hn _ _ _ _ Hl).
  - inv_all. reflexivity.
  - inv_all. reflexivity.
Qed.

End Rest.

(* ================================================================ the checker's output has the structure *)

Section RestCheck.
Variable intern : list N -> N.
Variable en : list (list N * list (list N * option (list cty))).
Variable P' : program.
Variable D : defs.
Notation xe := (export_expr intern en).
Notation xs := (export_stmt intern en).
Notation xa := (export_accessor intern en).
Notation xp := (export_pattern intern en).
Notation check_expr := (check_expr intern).
Notation check_stmt := (check_stmt intern).

Ltac refold H :=
  fold (Infer.check_expr intern) (Infer.check_stmts intern) (Infer.check_block intern)
       (Infer.check_fn intern) (Infer.check_stmt intern) in H.

Definition Re (f : nat) : Prop := forall st e e' st',
  nosp_e e = true -> check_expr f D st e = COk (e', st') -> rest_e P' (xe e') = true.
Definition Rs (f : nat) : Prop := forall st s s' st',
  nosp_s s = true -> check_stmt f D st s = COk (s', st') -> rest_s P' (xs s') = true.

Lemma Re_list f : Re f -> forall es st es' st', forallb nosp_e es = true ->
  mapM_st (check_expr f D) st es = COk (es', st') -> forallb (rest_e P') (map xe es') = true.
Proof.
  intros HR. induction es as [|e es IH]; intros st es' st' Hn H; cbn [mapM_st] in H.
  - inversion H. reflexivity.
  - cbn [forallb] in Hn. apply andb_true_iff in Hn. destruct Hn as [Hn1 Hn2].
    apply cbind_ok in H. destruct H as [[e1 st1] [H1 H]]. apply cbind_ok in H. destruct H as [[r st2] [H2 H]].
    cbn [fst snd] in *. inversion H; subst; clear H. cbn [map forallb]. rewrite (HR _ _ _ _ Hn1 H1). exact (IH _ _ _ Hn2 H2).
Qed.

Lemma Rs_list f : Rs f -> forall b st b' st', forallb nosp_s b = true ->
  mapM_st (check_stmt f D) st b = COk (b', st') -> forallb (rest_s P') (map xs b') = true.
Proof.
  intros HR. induction b as [|s b IH]; intros st b' st' Hn H; cbn [mapM_st] in H.
  - inversion H. reflexivity.
  - cbn [forallb] in Hn. apply andb_true_iff in Hn. destruct Hn as [Hn1 Hn2].
    apply cbind_ok in H. destruct H as [[s1 st1] [H1 H]]. apply cbind_ok in H. destruct H as [[r st2] [H2 H]].
    cbn [fst snd] in *. inversion H; subst; clear H. cbn [map forallb]. rewrite (HR _ _ _ _ Hn1 H1). exact (IH _ _ _ Hn2 H2).
Qed.

Lemma mapM_ct_re f t : forall l l', mapM (fun x => check_type f x t) l = COk l' ->
  forallb (rest_e P') (map xe l) = true -> forallb (rest_e P') (map xe l') = true.
Proof.
  intros l l' H Hr. eapply (mapM_re intern en P'); [exact H| |exact Hr].
  intros x x' _ Hx Hrx. exact (check_type_re intern en P' _ _ _ _ Hx Hrx).
Qed.

Lemma accs_re f : Re f -> forall accs st t tas t' st', forallb nosp_a accs = true ->
  accs_loop (check_expr f D) f D st t accs = COk (tas, t', st') -> forallb (rest_a P') (map xa tas) = true.
Proof.
  intros HR. induction accs as [|a accs IH]; intros st t tas t' st' Hn H; cbn [accs_loop] in H.
  - inversion H. reflexivity.
  - cbn [forallb] in Hn. apply andb_true_iff in Hn. destruct Hn as [Hn1 Hn2].
    apply cbind_ok in H. destruct H as [[[ta t1] st1] [H1 H]]. cbv beta iota in H.
    apply cbind_ok in H. destruct H as [[[tas2 tf] st2] [H2 H]]. cbv beta iota in H. inversion H; subst; clear H.
    cbn [map forallb]. rewrite (IH _ _ _ _ _ Hn2 H2), andb_true_r.
    destruct a; cbn [nosp_a] in Hn1.
    + apply cbind_ok in H1. destruct H1 as [el [_ H1]]. apply cbind_ok in H1. destruct H1 as [[i1 sti] [Hi H1]].
      cbn [fst snd] in H1. apply cbind_ok in H1. destruct H1 as [i2 [Hc H1]]. inversion H1; subst; clear H1.
      pose proof (HR _ _ _ _ Hn1 Hi) as Hri.
      change (xa (TAArray t i2)) with (AIdx (export_ty intern t) (xe i2)). rewrite rest_a_idx, (e_ty_xe' intern en), (coc_u_deep_ty _ _ _ _ Hc).
      rewrite (coc_u_deep_re intern en P' _ _ _ _ Hc Hri). reflexivity.
    + apply cbind_ok in H1. destruct H1 as [vts [_ H1]]. destruct (nthN vts index); inversion H1; reflexivity.
    + apply cbind_ok in H1. destruct H1 as [nm [_ H1]]. destruct (assocL nm (d_structs D)); [|discriminate].
      destruct (assocL field l); inversion H1; reflexivity.
Qed.

Lemma struct_lit_re f sd : Re f -> forall fields seen st r st', forallb (fun fx : list N * xexpr => nosp_e (snd fx)) fields = true ->
  struct_lit_loop (check_expr f D) f sd seen st fields = COk (r, st') ->
  forallb (fun fe : N * expr => rest_e P' (snd fe)) (map (fun fx : list N * texpr => (intern (fst fx), xe (snd fx))) r) = true.
Proof.
  intros HR. induction fields as [|[fname fv] fields IH]; intros seen st r st' Hn H; cbn [struct_lit_loop] in H.
  - inversion H. reflexivity.
  - cbn [forallb snd] in Hn. apply andb_true_iff in Hn. destruct Hn as [Hn1 Hn2].
    destruct (memL fname seen); [discriminate|]. destruct (assocL fname sd); [|discriminate].
    apply cbind_ok in H. destruct H as [[e1 st1] [H1 H]]. cbn [fst snd] in H.
    apply cbind_ok in H. destruct H as [tf [Hct H]]. apply cbind_ok in H. destruct H as [[r2 st2] [H2 H]].
    cbn [fst snd] in H. inversion H; subst; clear H. cbn [map forallb snd].
    rewrite (check_type_re intern en P' _ _ _ _ Hct (HR _ _ _ _ Hn1 H1)). exact (IH _ _ _ _ Hn2 H2).
Qed.

Ltac bind_e H x st Hx := apply cbind_ok in H; destruct H as [[x st] [Hx H]]; cbv beta zeta in H; cbn [fst snd] in H.
Ltac splitn := repeat match goal with H : _ && _ = true |- _ => apply andb_true_iff in H; destruct H end.

Theorem rest_all_le : forall n f, (f <= n)%nat -> Re f /\ Rs f.
Proof.
  induction n as [|n IH]; intros f0 Hle.
  { assert (f0 = 0%nat) by lia. subst. split; intros ? ? ? ? ? H; discriminate H. }
  destruct f0 as [|f]; [split; intros ? ? ? ? ? H; discriminate H|].
  assert (Hfn : (f <= n)%nat) by lia.
  destruct (IH f Hfn) as [HE HS].
  split.
  - intros st e e' st' Hn H. destruct e; cbn [nosp_e] in Hn; cbn [Infer.check_expr] in H; refold H; try discriminate H.
    + inversion H; reflexivity.
    + inversion H; reflexivity.
    + inversion H; reflexivity.
    + inversion H; reflexivity.
    + destruct (env_get (st_env st) s) as [[? ?]|]; [inversion H; reflexivity|]. destruct (assocL s (d_consts D)); inversion H; reflexivity.
    + (* array literal *)
      apply cbind_ok in H. destruct H as [[es1 st1] [Hes H]]. cbn [fst snd] in H. destruct es1 as [|first es1]; [discriminate|].
      apply cbind_ok in H. destruct H as [fl [Hm H]]. inversion H; subst; clear H.
      cbn [export_expr rest_e]. eapply mapM_ct_re; [exact Hm|]. exact (Re_list f HE _ _ _ _ Hn Hes).
    + bind_e H x1 st1 Hx. inversion H; subst. cbn [export_expr rest_e]. exact (HE _ _ _ _ Hn Hx).
    + (* array access *)
      splitn. bind_e H a1 st1 Ha. bind_e H i1 st2 Hi. apply cbind_ok in H. destruct H as [el [_ H]].
      apply cbind_ok in H. destruct H as [i2 [Hc H]]. inversion H; subst; clear H.
      cbn [export_expr rest_e]. rewrite (e_ty_xe' intern en), (coc_u_deep_ty _ _ _ _ Hc), (HE _ _ _ _ H0 Ha).
      rewrite (coc_u_deep_re intern en P' _ _ _ _ Hc (HE _ _ _ _ H1 Hi)). reflexivity.
    + apply cbind_ok in H. destruct H as [[es1 st1] [Hes H]]. inversion H; subst. cbn [export_expr rest_e fst]. exact (Re_list f HE _ _ _ _ Hn Hes).
    + bind_e H x1 st1 Hx. apply cbind_ok in H. destruct H as [vts [_ H]]. destruct (nthN vts i); inversion H; subst.
      cbn [export_expr rest_e]. exact (HE _ _ _ _ Hn Hx).
    + bind_e H x1 st1 Hx. apply cbind_ok in H. destruct H as [nm [_ H]]. destruct (assocL nm (d_structs D)); [|discriminate].
      destruct (assocL f0 l); inversion H; subst. cbn [export_expr rest_e]. exact (HE _ _ _ _ Hn Hx).
    + (* struct literal *)
      destruct (assocL name (d_structs D)) as [sd|]; [|discriminate]. apply cbind_ok in H. destruct H as [[r st1] [Hl H]]. cbn [fst snd] in H.
      destruct (missing_field sd fields); inversion H; subst. cbn [export_expr rest_e]. exact (struct_lit_re f sd HE _ _ _ _ _ Hn Hl).
    + (* enum literal *)
      destruct (assocL e (d_enums D)) as [ed|]; [|discriminate]. destruct (assocL v ed) as [[pts|]|]; try discriminate H; destruct args as [es|]; try discriminate H.
      * destruct (negb _); [discriminate|]. apply cbind_ok in H. destruct H as [[es1 st1] [Hes H]]. cbn [fst snd] in H.
        apply cbind_ok in H. destruct H as [ex [Hz H]]. inversion H; subst. cbn [export_expr rest_e].
        eapply (zipM_re intern en P'); [exact Hz| |exact (Re_list f HE _ _ _ _ Hn Hes)].
        intros x y x' _ Hx Hrx. exact (check_type_re intern en P' _ _ _ _ Hx Hrx).
      * inversion H; reflexivity.
    + (* match *)
      splitn. bind_e H s1 st1 Hs.
      assert (Hmain : forall ty0 r,
        (do rc <- mapM_st (fun (st0 : cstate) (pc : upattern * xexpr) =>
                    do rp <- check_pattern D (env_push (st_env st0)) (fst pc) ty0;
                    do re <- check_expr f D (with_env st0 (snd rp)) (snd pc);
                    COk ((fst rp, fst re), with_env (snd re) (env_pop (st_env (snd re))))) st1 arms;
         match fst rc with
         | [] => CErr E_Panic
         | (_, first) :: _ =>
             do clauses' <- mapM (fun pc : tpattern * texpr =>
                  if negb (cty_eqb (pick_elem_ty (ty_of first) (map (fun pc0 : tpattern * texpr => ty_of (snd pc0)) (fst rc))) (ty_of (snd pc)))
                  then match pick_elem_ty (ty_of first) (map (fun pc0 : tpattern * texpr => ty_of (snd pc0)) (fst rc)) with
                       | CUnsigned expected => do x <- coc_unsigned_deep f (snd pc) expected; COk (fst pc, x)
                       | CSigned expected => do x <- coc_signed_deep f (snd pc) expected; COk (fst pc, x)
                       | _ => CErr E_UnexpectedType
                       end
                  else COk pc) (fst rc);
             do _ <- check_exhaustiveness intern D (map fst clauses') ty0;
             COk (TE (TMatch s1 clauses') (pick_elem_ty (ty_of first) (map (fun pc0 : tpattern * texpr => ty_of (snd pc0)) (fst rc))), snd rc)
         end) = COk r -> rest_e P' (xe (fst r)) = true).
      { intros ty0 r Hr. apply cbind_ok in Hr. destruct Hr as [[rc st2] [Hrc Hr]]. cbn [fst snd] in Hr.
        assert (Harms : forallb (fun arm : pattern * expr => TSemSafe.ok_pat P' (fst arm) && rest_e P' (snd arm))
                          (map (fun a : tpattern * texpr => (xp (fst a), xe (snd a))) rc) = true).
        { clear Hr Hs H. revert st1 rc st2 Hrc H1. induction arms as [|[p x] arms IHa]; intros st1 rc st2 Hrc Hna; cbn [mapM_st] in Hrc.
          - inversion Hrc. reflexivity.
          - cbn [forallb fst snd] in Hna. apply andb_true_iff in Hna. destruct Hna as [Hpx Hna]. apply andb_true_iff in Hpx. destruct Hpx as [Hnp Hnx].
            apply cbind_ok in Hrc. destruct Hrc as [[[tp tx] st3] [Hone Hrc]]. apply cbind_ok in Hrc. destruct Hrc as [[rc2 st4] [Hrest Hrc]].
            cbn [fst snd] in *. inversion Hrc; subst; clear Hrc.
            apply cbind_ok in Hone. destruct Hone as [[tp1 g1] [Hp Hone]]. apply cbind_ok in Hone. destruct Hone as [[tx1 st5] [Hx Hone]].
            cbn [fst snd] in *. inversion Hone; subst; clear Hone.
            cbn [map forallb fst snd]. rewrite (check_pattern_okpat intern en P' D _ _ _ _ _ Hnp Hp), (HE _ _ _ _ Hnx Hx). cbn [andb].
            exact (IHa _ _ _ Hrest Hna). }
        destruct rc as [|[p0 first] rc']; [discriminate|].
        apply cbind_ok in Hr. destruct Hr as [cl [Hm Hr]]. apply cbind_ok in Hr. destruct Hr as [u0 [_ Hr]]. inversion Hr; subst; clear Hr.
        cbn [fst export_expr rest_e]. rewrite (HE _ _ _ _ H0 Hs). cbn [andb].
        revert Hm Harms. generalize (pick_elem_ty (ty_of first) (map (fun pc0 : tpattern * texpr => ty_of (snd pc0)) ((p0, first) :: rc'))).
        generalize ((p0, first) :: rc'). clear. intros l. revert cl. induction l as [|[p x] l IHl]; intros cl rt Hm Ha; cbn [mapM] in Hm.
        - inversion Hm. reflexivity.
        - apply cbind_ok in Hm. destruct Hm as [[p1 x1] [Hx Hm]]. apply cbind_ok in Hm. destruct Hm as [r [Hr Hm]]. inversion Hm; subst; clear Hm.
          cbn [map forallb fst snd] in *. apply andb_true_iff in Ha. destruct Ha as [Hpx Ha]. apply andb_true_iff in Hpx. destruct Hpx as [Hp Hxx].
          rewrite (IHl _ _ Hr Ha), andb_true_r.
          destruct (negb _); [|inversion Hx; subst; rewrite Hp, Hxx; reflexivity].
          destruct rt; try discriminate Hx; apply cbind_ok in Hx; destruct Hx as [y [Hy Hx]]; inversion Hx; subst; rewrite Hp.
          + rewrite (coc_u_deep_re intern en P' _ _ _ _ Hy Hxx). reflexivity.
          + rewrite (coc_s_deep_re intern en P' _ _ _ _ Hy Hxx). reflexivity. }
      destruct (ty_of s1); try discriminate H; exact (Hmain _ _ H).
    + (* unary *) destruct o; bind_e H x1 st1 Hx; apply cbind_ok in H; destruct H as [? [_ H]]; inversion H; subst;
        cbn [export_expr rest_e]; exact (HE _ _ _ _ Hn Hx).
    + (* binary *)
      splitn. bind_e H x1 st1 Hx. bind_e H y1 st2 Hy.
      pose proof (HE _ _ _ _ H0 Hx) as Hrx. pose proof (HE _ _ _ _ H1 Hy) as Hry.
      destruct o.
      1-12: (apply cbind_ok in H; destruct H as [[[x2 y2] ty] [Hu H]]; cbv beta iota in H;
             destruct (unify_re intern en P' _ _ _ _ _ _ Hu Hrx Hry) as [Hx2 Hy2]).
      1-10: (apply cbind_ok in H; destruct H as [u0 [_ H]]).
      13-14: (apply cbind_ok in H; destruct H as [u0 [_ H]]; apply cbind_ok in H; destruct H as [y2 [Hc H]];
              pose proof (coc_u_deep_re intern en P' _ _ _ _ Hc Hry) as Hy2).
      15-16: (destruct (ty_of x1); try discriminate H; destruct (ty_of y1); try discriminate H).
      all: inversion H; subst; cbn [export_expr rest_e]; rewrite ?Hrx, ?Hry, ?Hx2, ?Hy2; reflexivity.
    + (* block *)
      apply cbind_ok in H. destruct H as [[[body ty] st1] [Hb H]]. cbv beta iota in H. inversion H; subst; clear H.
      destruct f as [|f0]; [discriminate|]. cbn [Infer.check_block] in Hb. refold Hb. apply cbind_ok in Hb. destruct Hb as [[b1 st2] [Hm Hb]].
      cbn [fst snd] in Hb. inversion Hb; subst; clear Hb.
      rewrite (xe_blk intern en), rest_e_block.
      assert (HS' : Rs f0) by (apply (IH f0); lia).
      exact (Rs_list f0 HS' _ _ _ _ Hn Hm).
    + (* call *)
      apply cbind_ok in H. destruct H as [st1 [_ H]]. cbv beta in H.
      destruct (assocL f0 (st_typed st1)) as [fd|]; [|discriminate]. destruct (env_get (st_env st1) f0); [discriminate|].
      apply cbind_ok in H. destruct H as [[es1 st2] [Hes H]]. cbn [fst snd] in H. destruct (negb _); [discriminate|].
      apply cbind_ok in H. destruct H as [ar [Hz H]]. inversion H; subst. cbn [export_expr rest_e].
      eapply (zipM_re intern en P'); [exact Hz| |exact (Re_list f HE _ _ _ _ Hn Hes)].
      intros x y x' _ Hx Hrx. exact (check_type_re intern en P' _ _ _ _ Hx Hrx).
    + (* if *)
      splitn. bind_e H c1 st1 Hc. bind_e H a1 st2 Ha. bind_e H b1 st3 Hb.
      apply cbind_ok in H. destruct H as [c2 [Hct H]]. apply cbind_ok in H. destruct H as [[[a2 b2] ty] [Hu H]]. cbv beta iota in H.
      inversion H; subst; clear H.
      destruct (unify_re intern en P' _ _ _ _ _ _ Hu (HE _ _ _ _ H2 Ha) (HE _ _ _ _ H1 Hb)) as [Ha2 Hb2].
      cbn [export_expr rest_e]. rewrite (check_type_re intern en P' _ _ _ _ Hct (HE _ _ _ _ H0 Hc)), Ha2, Hb2. reflexivity.
    + (* cast *)
      apply cbind_ok in H. destruct H as [ty' [_ H]]. bind_e H x1 st1 Hx. apply cbind_ok in H. destruct H as [? [_ H]].
      apply cbind_ok in H. destruct H as [? [_ H]]. inversion H; subst. cbn [export_expr rest_e]. exact (HE _ _ _ _ Hn Hx).
    + (* range *) destruct (_ || _); inversion H; reflexivity.
  - intros st s s' st' Hn H. destruct s; cbn [nosp_s] in Hn; cbn [Infer.check_stmt] in H; refold H.
    + (* let *)
      splitn. bind_e H e1 st1 He. apply cbind_ok in H. destruct H as [e2 [Hann H]].
      assert (Hr1 : rest_e P' (xe e1) = true) by (eapply HE; [|exact He]; assumption).
      assert (Hr2 : rest_e P' (xe e2) = true).
      { destruct ty; [apply cbind_ok in Hann; destruct Hann as [ty' [_ Hann]]; exact (check_type_re intern en P' _ _ _ _ Hann Hr1)
                     |inversion Hann; subst; exact Hr1]. }
      apply cbind_ok in H. destruct H as [[p1 g1] [Hp H]]. apply cbind_ok in H. destruct H as [u0 [_ H]]. cbn [fst snd] in H. inversion H; subst.
      change (xs (TSLet p1 e2)) with (St (SLet (xp p1) (xe e2)) m0).
      assert (Hop : TSemSafe.ok_pat P' (xp p1) = true) by (eapply (check_pattern_okpat intern en P' D); [|exact Hp]; assumption).
      rewrite rest_s_let, Hop, Hr2. reflexivity.
    + (* let mut *)
      bind_e H e1 st1 He. apply cbind_ok in H. destruct H as [e2 [Hann H]].
      pose proof (HE _ _ _ _ Hn He) as Hr1.
      assert (Hr2 : rest_e P' (xe e2) = true).
      { destruct ty; [apply cbind_ok in Hann; destruct Hann as [ty' [_ Hann]]; exact (check_type_re intern en P' _ _ _ _ Hann Hr1)
                     |inversion Hann; subst; exact Hr1]. }
      apply cbind_ok in H. destruct H as [e3 [Hi H]]. inversion H; subst.
      change (xs (TSLetMut x e3)) with (St (SLetMut (intern x) (xe e3)) m0).
      rewrite rest_s_letmut. exact (constrain_to_i32_re intern en P' _ _ _ Hi Hr2).
    + (* assignment *)
      splitn. destruct (env_get (st_env st) x) as [[tx [|]]|]; try discriminate H.
      apply cbind_ok in H. destruct H as [[[tas t'] st1] [Hacc H]]. cbv beta iota in H.
      bind_e H v1 st2 Hv. apply cbind_ok in H. destruct H as [v2 [Hct H]]. inversion H; subst.
      change (xs (TSVarAssign x tas v2)) with (St (SAssign (intern x) (map xa tas) (xe v2)) m0).
      assert (Hra : forallb (rest_a P') (map xa tas) = true) by (eapply (accs_re f HE); [|exact Hacc]; assumption).
      assert (Hrv : rest_e P' (xe v1) = true) by (eapply HE; [|exact Hv]; assumption).
      rewrite rest_s_assign, Hra, (check_type_re intern en P' _ _ _ _ Hct Hrv). reflexivity.
    + (* for *)
      splitn. match type of H with (if ?c then _ else _) = _ => destruct c; [discriminate|] end.
      bind_e H a1 st1 Ha. apply cbind_ok in H. destruct H as [el [_ H]].
      apply cbind_ok in H. destruct H as [[p1 g1] [Hp H]]. apply cbind_ok in H. destruct H as [u0 [_ H]]. cbn [fst snd] in H.
      apply cbind_ok in H. destruct H as [[body1 st2] [Hb H]]. cbn [fst snd] in H. inversion H; subst.
      destruct f as [|f1]; [discriminate|]. cbn [Infer.check_stmts] in Hb. refold Hb.
      assert (HS' : Rs f1) by (apply (IH f1); lia).
      change (xs (TSForEach p1 a1 body1)) with (St (SFor (xp p1) (xe a1) (map xs body1)) m0).
      assert (Hop : TSemSafe.ok_pat P' (xp p1) = true) by (eapply (check_pattern_okpat intern en P' D); [|exact Hp]; assumption).
      assert (Hra : rest_e P' (xe a1) = true) by (eapply HE; [|exact Ha]; assumption).
      assert (Hrb : forallb (rest_s P') (map xs body1) = true) by (eapply (Rs_list f1 HS'); [|exact Hb]; assumption).
      rewrite rest_s_for, Hop, Hra, Hrb. reflexivity.
    + (* expression statement *)
      bind_e H e1 st1 He. inversion H; subst.
      change (xs (TSExpr e1)) with (St (SExpr (xe e1)) m0). rewrite rest_s_expr. exact (HE _ _ _ _ Hn He).
Qed.

Corollary rest_all f : Re f /\ Rs f.
Proof. apply (rest_all_le f f). lia. Qed.

End RestCheck.

Print Assumptions ok_split_e.
Print Assumptions constrain_type_re.
Print Assumptions coc_u_deep_ty.
Print Assumptions check_pattern_okpat.
Print Assumptions rest_all.
