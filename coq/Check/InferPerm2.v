(* C06 for programs WITH calls: memoisation does not matter.  Every entry of TypedFns.typed is THE
   result of checking that function ([canon], deterministic), so two accepted runs of the
   checker over the same functions in different orders end with the same typed map. *)
From Coq Require Import Lia Bool Permutation.
From GV Require Import Base.Util Front.Scan Front.ParseExpr Check.UAst Check.Infer Check.InferProofs Check.InferSub
  Check.InferTotal Check.PermSort Check.PermExh Check.InferPerm.
Local Open Scope N_scope.

(* ================================================================ part 0: what a run does to the typed map *)

Definition defd {A} (n : list N) (T : list (list N * A)) : Prop := assocL n T <> None.

Lemma defd_keys {A} n (T : list (list N * A)) : defd n T <-> In n (map fst T).
Proof.
  unfold defd. induction T as [|[k v] T IH]; cbn [assocL map fst In]; [split; [congruence|tauto]|].
  destruct (list_eqb n k) eqn:E.
  - apply list_eqb_eq in E. subst. split; [now left|discriminate].
  - rewrite IH. split; [now right|]. intros [->|H]; [rewrite list_eqb_refl in E; discriminate|exact H].
Qed.

Section Unary.
Variable intern : list N -> N.
Variable D : defs.
Notation check_expr := (check_expr intern).
Notation check_stmt := (check_stmt intern).
Notation check_stmts := (check_stmts intern).
Notation check_block := (check_block intern).
Notation check_fn := (check_fn intern).

(* the entry is the result of a successful check of the function of that name, in a state whose
   entries are such results *)
Inductive canon : list N -> tfndef -> Prop :=
| canon_intro f st fd id r :
    find (fun d => list_eqb (uf_name d) id) (d_fns D) = Some fd ->
    Forall (fun nd => canon (fst nd) (snd nd)) (st_typed st) ->
    check_fn f D st fd = COk r -> canon id (fst r).

Definition Cgood (T : list (list N * tfndef)) : Prop := Forall (fun nd => canon (fst nd) (snd nd)) T.

(* (typed, checking) before and after a run *)
Definition tc := (list (list N * tfndef) * list (list N))%type.
Definition ExtP (a b : tc) : Prop :=
  snd b = snd a /\
  (Cgood (fst a) -> Cgood (fst b)) /\
  (forall n, defd n (fst a) -> defd n (fst b)) /\
  (NoDup (map fst (fst a)) -> NoDup (map fst (fst b))) /\
  (forall n, defd n (fst b) -> defd n (fst a) \/ memL n (snd a) = false).
Definition tc_of (st : cstate) : tc := (st_typed st, st_checking st).
Definition Ext (st st' : cstate) : Prop := ExtP (tc_of st) (tc_of st').

Lemma ExtP_refl a : ExtP a a.
Proof. unfold ExtP. repeat split; auto. Qed.
Lemma ExtP_trans a b c : ExtP a b -> ExtP b c -> ExtP a c.
Proof.
  intros (A1 & A2 & A3 & A4 & A5) (B1 & B2 & B3 & B4 & B5). unfold ExtP. repeat split; auto; [congruence|].
  intros n Hn. destruct (B5 n Hn) as [H|H]; [auto|]. right. rewrite <- A1. exact H.
Qed.

Lemma mapM_st_Ext {A B} (g : cstate -> A -> cres (B * cstate)) :
  (forall st x r, g st x = COk r -> Ext st (snd r)) ->
  forall l st r, mapM_st g st l = COk r -> Ext st (snd r).
Proof.
  intros Hg. induction l as [|x l IH]; intros st r H; cbn [mapM_st] in H; inv_all; [apply ExtP_refl|].
  cbn [snd]. eapply ExtP_trans; [eapply Hg; eauto|eapply IH; eauto].
Qed.

Lemma accs_loop_Ext ce fu :
  (forall st x r, ce st x = COk r -> Ext st (snd r)) ->
  forall accs st t r, accs_loop ce fu D st t accs = COk r -> Ext st (snd r).
Proof.
  intros Hce. induction accs as [|a accs IH]; intros st t r H; cbn [accs_loop] in H; [inv_all; apply ExtP_refl|].
  apply cbind_ok in H. destruct H as [[[ta t'] st'] [H1 H2]]. cbv beta iota in H2.
  apply cbind_ok in H2. destruct H2 as [[[tas tf] st''] [H2 H3]]. cbv beta iota in H3. inv_all. cbn [snd].
  apply IH in H2. cbn [snd] in H2. eapply ExtP_trans; [|exact H2]. clear H2 IH.
  destruct a.
  - inv_all'. match goal with H : ce _ _ = _ |- _ => apply Hce in H; exact H end.
  - inv_all'. destruct (nthN _ _); inv_all. apply ExtP_refl.
  - inv_all'. destruct (assocL _ (d_structs D)); [|discriminate]. destruct (assocL _ _); inv_all. apply ExtP_refl.
Qed.

Lemma struct_lit_loop_Ext ce f sd :
  (forall st x r, ce st x = COk r -> Ext st (snd r)) ->
  forall fields seen st r, struct_lit_loop ce f sd seen st fields = COk r -> Ext st (snd r).
Proof.
  intros Hce. induction fields as [|[fname fv] fields IH]; intros seen st r H; cbn [struct_lit_loop] in H; inv_all; [apply ExtP_refl|].
  destruct (assocL fname sd); [|discriminate]. inv_all. cbn [snd].
  eapply ExtP_trans; [eapply Hce; eauto|eapply IH; eauto].
Qed.

Ltac refold H :=
  fold (Infer.check_expr intern) (Infer.check_stmts intern) (Infer.check_block intern)
       (Infer.check_fn intern) (Infer.check_stmt intern) in H.

(* what check_fn adds: besides Ext, the new keys are not the function itself nor anything being checked *)
Definition ExtF (st : cstate) (fd : ufndef) (st' : cstate) : Prop :=
  Ext st st' /\ memL (uf_name fd) (st_checking st) = false /\
  (forall n, defd n (st_typed st') -> defd n (st_typed st) \/ memL n (uf_name fd :: st_checking st) = false).

Ltac use_R IHe IHss IHb IHs IHf := repeat match goal with
  | H : Infer.check_expr _ _ _ _ _ = COk _ |- _ => apply IHe in H
  | H : Infer.check_stmts _ _ _ _ _ = COk _ |- _ => apply IHss in H
  | H : Infer.check_block _ _ _ _ _ = COk _ |- _ => apply IHb in H
  | H : mapM_st (Infer.check_expr _ _ _) _ _ = COk _ |- _ => apply (mapM_st_Ext _ IHe) in H
  | H : mapM_st (Infer.check_stmt _ _ _) _ _ = COk _ |- _ => apply (mapM_st_Ext _ IHs) in H
  | H : accs_loop _ _ _ _ _ _ = COk _ |- _ => apply (accs_loop_Ext _ _ IHe) in H
  | H : struct_lit_loop _ _ _ _ _ _ = COk _ |- _ => apply (struct_lit_loop_Ext _ _ _ IHe) in H
  end.

Ltac finR := unfold Ext, tc_of in *; cbn [snd fst st_typed st_checking with_env] in *;
  eauto 8 using ExtP_refl, ExtP_trans.
Theorem check_ext f :
  (forall st e r, check_expr f D st e = COk r -> Ext st (snd r)) /\
  (forall st b r, check_stmts f D st b = COk r -> Ext st (snd r)) /\
  (forall st b r, check_block f D st b = COk r -> Ext st (snd r)) /\
  (forall st s r, check_stmt f D st s = COk r -> Ext st (snd r)) /\
  (forall st fd r, check_fn f D st fd = COk r -> ExtF st fd (snd r)).
Proof.
  induction f as [|f IH].
  { repeat split; intros; discriminate. }
  destruct IH as (IHe & IHss & IHb & IHs & IHf).
  split; [|split; [|split; [|split]]].
  - intros st e r H. destruct e; cbn [Infer.check_expr] in H; refold H.
    + inv_all; apply ExtP_refl.
    + inv_all; apply ExtP_refl.
    + inv_all; apply ExtP_refl.
    + inv_all; apply ExtP_refl.
    + destruct (env_get (st_env st) s) as [[? ?]|]; [inv_all; apply ExtP_refl|].
      destruct (assocL s (d_consts D)); inv_all; apply ExtP_refl.
    + inv_all. destruct (fst a) eqn:E; [discriminate|]. inv_all. use_R IHe IHss IHb IHs IHf. finR.
    + inv_all. use_R IHe IHss IHb IHs IHf. finR.
    + discriminate.
    + inv_all. use_R IHe IHss IHb IHs IHf. finR.
    + inv_all. use_R IHe IHss IHb IHs IHf. finR.
    + inv_all. destruct (nthN _ _); inv_all. use_R IHe IHss IHb IHs IHf. finR.
    + inv_all. destruct (assocL _ (d_structs D)); [|discriminate]. destruct (assocL _ _); inv_all. use_R IHe IHss IHb IHs IHf. finR.
    + destruct (assocL name (d_structs D)); [|discriminate]. inv_all. use_R IHe IHss IHb IHs IHf. finR.
    + destruct (assocL e (d_enums D)) as [ed|]; [|discriminate]. destruct (assocL v ed) as [[?|]|]; try discriminate;
        destruct args; try discriminate; inv_all; use_R IHe IHss IHb IHs IHf; finR.
    + (* match *)
      inv_all. destruct (ty_of (fst a)) eqn:Ety; try discriminate; inv_all;
      (destruct (fst a0) as [|[? ?] ?] eqn:E0; [discriminate|]; inv_all; cbn [snd];
       match goal with H1 : mapM_st _ _ _ = COk ?a0 |- Ext _ (snd ?a0) =>
         apply mapM_st_Ext in H1;
         [use_R IHe IHss IHb IHs IHf; finR
         |intros st0 pc r0 H0; inv_all; use_R IHe IHss IHb IHs IHf; finR] end).
    + destruct o; inv_all; use_R IHe IHss IHb IHs IHf; finR.
    + inv_all. destruct o; inv_all;
        try (match goal with x : texpr * texpr * cty |- _ => destruct x as [[? ?] ?] end; inv_all);
        try (destruct (ty_of (fst a)); try discriminate; destruct (ty_of (fst a0)); try discriminate; inv_all);
        use_R IHe IHss IHb IHs IHf; finR.
    + apply cbind_ok in H. destruct H as [[[body ty] st'] [H1 H]]. cbv beta iota in H. inv_all.
      use_R IHe IHss IHb IHs IHf. finR.
    + (* call *)
      apply cbind_ok in H. destruct H as [st1 [H1 H]]. cbv beta in H.
      assert (Hst1 : Ext st st1).
      { destruct (assocL f0 (st_typed st)) eqn:Eas; cbn [negb] in H1; [inv_all; apply ExtP_refl|].
        destruct (find _ (d_fns D)) as [fd|] eqn:Ef; [|inv_all; apply ExtP_refl].
        apply cbind_ok in H1. destruct H1 as [[tfd st2] [H1 H2]]. cbv beta in H2. inv_all.
        pose proof H1 as Hrun. apply IHf in H1. destruct H1 as ((A1 & A2 & A3 & A4 & A5) & Hm & HK).
        cbn [snd fst] in *. unfold Ext, tc_of, ExtP in *. cbn [snd fst st_typed st_checking] in *.
        assert (Hname : uf_name fd = f0) by (apply find_some in Ef; destruct Ef as [_ Ef]; apply list_eqb_eq in Ef; exact Ef).
        split; [exact A1|]. split; [|split; [|split]].
        * intro HC. constructor; [|apply A2; exact HC]. cbn [fst snd]. change tfd with (fst (tfd, st2)). eapply canon_intro; eassumption.
        * intros n Hn. unfold defd in *. cbn [assocL]. destruct (list_eqb n f0); [discriminate|auto].
        * intro HN. cbn [map fst]. constructor; [|apply A4; exact HN]. intro Hin. apply defd_keys in Hin.
          destruct (HK f0 Hin) as [Hd|Hd]; [apply Hd; exact Eas|].
          rewrite Hname in Hd. cbn [memL existsb] in Hd. rewrite list_eqb_refl in Hd. discriminate.
        * intros n Hn. unfold defd in Hn. cbn [assocL] in Hn. destruct (list_eqb n f0) eqn:En; [|auto].
          apply list_eqb_eq in En. subst n. right. rewrite <- Hname. exact Hm. }
      clear H1.
      destruct (assocL f0 (st_typed st1)); [|discriminate].
      destruct (env_get (st_env st1) f0); [discriminate|]. inv_all. use_R IHe IHss IHb IHs IHf. finR.
    + discriminate.
    + inv_all. destruct a3 as [[? ?] ?]. inv_all. use_R IHe IHss IHb IHs IHf. finR.
    + inv_all. use_R IHe IHss IHb IHs IHf. finR.
    + inv_all. apply ExtP_refl.
  - intros st b r H. cbn [Infer.check_stmts] in H. refold H. use_R IHe IHss IHb IHs IHf. exact H.
  - intros st b r H. cbn [Infer.check_block] in H. refold H. inv_all. use_R IHe IHss IHb IHs IHf. finR.
  - intros st s r H. destruct s; cbn [Infer.check_stmt] in H; refold H.
    + inv_all. use_R IHe IHss IHb IHs IHf. finR.
    + inv_all. use_R IHe IHss IHb IHs IHf. finR.
    + destruct (env_get (st_env st) x) as [[t [|]]|]; try discriminate.
      apply cbind_ok in H. destruct H as [[[tas t'] st1] [H1 H]]. cbv beta iota in H. inv_all.
      use_R IHe IHss IHb IHs IHf. finR.
    + inv_all. use_R IHe IHss IHb IHs IHf. finR.
    + inv_all. use_R IHe IHss IHb IHs IHf. finR.
  - intros st fd r H. cbn [Infer.check_fn] in H. refold H.
    destruct (memL (uf_name fd) (st_checking st)) eqn:Em; [discriminate|]. inv_all.
    destruct a0 as [[body ?] st1]. inv_all.
    match goal with Hb : Infer.check_block _ _ _ _ _ = COk _ |- _ => apply IHb in Hb; destruct Hb as (A1 & A2 & A3 & A4 & A5) end.
    unfold ExtF, Ext, tc_of, ExtP in *. cbn [snd fst st_typed st_checking] in *.
    repeat split; auto.
    intros n Hn. destruct (A5 n Hn) as [Hd|Hd]; [auto|]. right.
    cbn [memL existsb] in Hd. apply orb_false_iff in Hd. apply Hd.
Qed.
End Unary.

(* ================================================================ part 1: two successful runs agree *)

Section Det.
Variable intern : list N -> N.
Variable D : defs.
Notation check_expr := (check_expr intern).
Notation check_stmt := (check_stmt intern).
Notation check_stmts := (check_stmts intern).
Notation check_block := (check_block intern).
Notation check_fn := (check_fn intern).
Notation canon := (canon intern D).
Notation Cgood := (Cgood intern D).

(* fuel only decides between an answer and CNoFuel (consequences of fuel monotonicity of the two
   pure helpers; to be discharged from Check/InferFuel2.v) *)
Hypothesis Hmono_ct : forall f f2 e t a a', constrain_type f e t = COk a -> constrain_type f2 e t = COk a' -> a = a'.
Hypothesis Hmono_i32 : forall f f2 e a a', constrain_to_i32 f e = COk a -> constrain_to_i32 f2 e = COk a' -> a = a'.

(* the left run: every entry is canonical AND every canonical result for that name equals it *)
Definition Good (T : list (list N * tfndef)) : Prop :=
  Forall (fun nd => canon (fst nd) (snd nd) /\ forall u, canon (fst nd) u -> snd nd = u) T.

Lemma Good_Cgood T : Good T -> Cgood T.
Proof. apply Forall_impl. intros nd [H _]. exact H. Qed.

Definition Rt (T T' : list (list N * tfndef)) : Prop := Good T /\ Cgood T'.
Definition st_rel (s s' : cstate) : Prop := st_env s = st_env s' /\ Rt (st_typed s) (st_typed s').

Definition rok {A} (RA : A -> A -> Prop) (r r' : cres A) : Prop :=
  match r, r' with COk a, COk a' => RA a a' | _, _ => True end.
Definition RP {B} (r r' : B * cstate) : Prop := fst r = fst r' /\ st_rel (snd r) (snd r').

Lemma rok_bind {A B} (RA : A -> A -> Prop) (RB : B -> B -> Prop) r r' (k k' : A -> cres B) :
  rok RA r r' -> (forall a a', RA a a' -> rok RB (k a) (k' a')) -> rok RB (cbind r k) (cbind r' k').
Proof. destruct r, r'; cbn [rok cbind]; auto; intros; destruct (k _); exact I. Qed.

Lemma rok_eq {A} (r : cres A) : rok eq r r.
Proof. destruct r; cbn [rok]; auto. Qed.

Lemma rok_pure {A B} (RB : B -> B -> Prop) (r : cres A) (k k' : A -> cres B) :
  (forall a, rok RB (k a) (k' a)) -> rok RB (cbind r k) (cbind r k').
Proof. intro H. eapply rok_bind; [apply rok_eq|]. intros a a' <-. apply H. Qed.

Lemma rok_left {A} (RA : A -> A -> Prop) r r' : (forall a, r <> COk a) -> rok RA r r'.
Proof. destruct r; cbn [rok]; auto. intro H. exfalso. eapply H. reflexivity. Qed.

Lemma rok_check_type f f2 e t : rok eq (check_type f e t) (check_type f2 e t).
Proof.
  unfold check_type. destruct (constrain_type f e t) as [a| | |] eqn:E1; cbn [cbind rok]; auto.
  destruct (constrain_type f2 e t) as [a'| | |] eqn:E2; cbn [cbind]; try (destruct (cty_eqb _ _); exact I).
  rewrite (Hmono_ct _ _ _ _ _ _ E1 E2). destruct (cty_eqb _ _); cbn [rok]; auto.
Qed.

Lemma rok_ct f f2 e t : rok eq (constrain_type f e t) (constrain_type f2 e t).
Proof.
  destruct (constrain_type f e t) as [a| | |] eqn:E1; cbn [rok]; auto.
  destruct (constrain_type f2 e t) as [a'| | |] eqn:E2; auto. eapply Hmono_ct; eassumption.
Qed.

Lemma rok_coc_u f f2 e t : rok eq (coc_unsigned_deep f e t) (coc_unsigned_deep f2 e t).
Proof. unfold coc_unsigned_deep. destruct (_ && _); [exact I|]. destruct (_ && _); [apply rok_ct|apply rok_eq]. Qed.

Lemma rok_coc_s f f2 e t : rok eq (coc_signed_deep f e t) (coc_signed_deep f2 e t).
Proof. unfold coc_signed_deep. destruct (_ && _); [exact I|]. destruct (_ && _); [apply rok_ct|apply rok_eq]. Qed.

Lemma rok_unify f f2 a b : rok eq (unify f a b) (unify f2 a b).
Proof.
  unfold unify. cbv zeta. destruct (cty_eqb _ _); [apply rok_eq|].
  destruct (ty_of a) as [| [] | [] | | | |]; destruct (ty_of b) as [| [] | [] | | | |]; try exact I;
    (eapply rok_bind; [first [apply rok_coc_u|apply rok_coc_s]|]; intros x x' <-; apply rok_eq).
Qed.

Lemma rok_clause f f2 ret_ty (pc : tpattern * texpr) :
  rok eq (if negb (cty_eqb ret_ty (ty_of (snd pc))) then
            match ret_ty with
            | CUnsigned expected => do x <- coc_unsigned_deep f (snd pc) expected; COk (fst pc, x)
            | CSigned expected => do x <- coc_signed_deep f (snd pc) expected; COk (fst pc, x)
            | _ => CErr E_UnexpectedType
            end
          else COk pc)
         (if negb (cty_eqb ret_ty (ty_of (snd pc))) then
            match ret_ty with
            | CUnsigned expected => do x <- coc_unsigned_deep f2 (snd pc) expected; COk (fst pc, x)
            | CSigned expected => do x <- coc_signed_deep f2 (snd pc) expected; COk (fst pc, x)
            | _ => CErr E_UnexpectedType
            end
          else COk pc).
Proof.
  destruct (negb _); [|apply rok_eq]. destruct ret_ty; try exact I;
    (eapply rok_bind; [first [apply rok_coc_u|apply rok_coc_s]|]; intros x x' <-; apply rok_eq).
Qed.

Lemma rok_i32 f f2 e : rok eq (constrain_to_i32 f e) (constrain_to_i32 f2 e).
Proof.
  destruct (constrain_to_i32 f e) as [a| | |] eqn:E1; cbn [rok]; auto.
  destruct (constrain_to_i32 f2 e) as [a'| | |] eqn:E2; auto. eapply Hmono_i32; eassumption.
Qed.

Lemma rok_mapM {A B} (g g' : A -> cres B) l : (forall x, rok eq (g x) (g' x)) -> rok eq (mapM g l) (mapM g' l).
Proof.
  intro H. induction l as [|x l IH]; cbn [mapM]; [reflexivity|].
  eapply rok_bind; [apply H|]. intros a a' <-. eapply rok_bind; [exact IH|]. intros b b' <-. reflexivity.
Qed.

Lemma rok_zipM {A B} (g g' : A -> B -> cres A) : (forall x y, rok eq (g x y) (g' x y)) ->
  forall xs ys, rok eq (zipM g xs ys) (zipM g' xs ys).
Proof.
  intro H. induction xs as [|x xs IH]; intros [|y ys]; cbn [zipM]; try reflexivity.
  eapply rok_bind; [apply H|]. intros a a' <-. eapply rok_bind; [apply IH|]. intros b b' <-. reflexivity.
Qed.

Lemma rok_map_last_expr g g' : (forall e, rok eq (g e) (g' e)) -> forall b, rok eq (map_last_expr g b) (map_last_expr g' b).
Proof.
  intro H. induction b as [|s b IH]; cbn [map_last_expr]; [reflexivity|].
  destruct b as [|s2 b2].
  - destruct s; try reflexivity. eapply rok_bind; [apply H|]. intros a a' <-. reflexivity.
  - destruct s; (eapply rok_bind; [exact IH|]; intros a a' <-; reflexivity).
Qed.

Lemma rok_mapM_st {A B} (g g' : cstate -> A -> cres (B * cstate)) l :
  (forall st st' x, In x l -> st_rel st st' -> rok RP (g st x) (g' st' x)) ->
  forall st st', st_rel st st' -> rok RP (mapM_st g st l) (mapM_st g' st' l).
Proof.
  induction l as [|x l IH]; intros H st st' Hq; cbn [mapM_st]; [split; [reflexivity|exact Hq]|].
  eapply rok_bind; [apply H; [now left|exact Hq]|]. intros [b1 s1] [b1' s1'] [E1 S1]. cbn [fst snd] in *. subst b1'.
  eapply rok_bind; [apply IH; [intros; apply H; [now right|assumption]|exact S1]|].
  intros [b2 s2] [b2' s2'] [E2 S2]. cbn [fst snd] in *. subst b2'. split; [reflexivity|exact S2].
Qed.

Lemma st_rel_mk g t t' c c' : Rt t t' -> st_rel (mkSt g t c) (mkSt g t' c').
Proof. intro H. split; [reflexivity|exact H]. Qed.

Ltac rr_intro :=
  let a := fresh "a" in let a' := fresh "a'" in let HR := fresh "HR" in
  intros a a' HR;
  first
   [ destruct a as [?b [?g ?t ?c]], a' as [?b [?g ?t ?c]]; destruct HR as [?E (?E & ?E)];
     cbn [fst snd st_env st_checking st_typed] in *; subst
   | subst a' ].

Ltac seq_solve := cbn [with_env st_env st_checking st_typed fst snd]; first [apply st_rel_mk; assumption | assumption].

Ltac rr_core IHt :=
  repeat (cbn [st_env st_typed st_checking with_env];
    match goal with
    | |- rok _ (COk _) (COk _) => cbn [rok]
    | |- rok _ (CErr _) _ => exact I
    | |- rok _ COutside _ => exact I
    | |- rok _ CNoFuel _ => exact I
    | |- rok _ (cbind (check_type _ ?e ?t) _) (cbind (check_type _ ?e ?t) _) =>
        eapply rok_bind; [apply rok_check_type|intros ? ? <-]
    | |- rok _ (cbind (unify _ ?a ?b) _) (cbind (unify _ ?a ?b) _) =>
        eapply rok_bind; [apply rok_unify|intros ? ? <-]
    | |- rok _ (cbind (coc_unsigned_deep _ ?e ?t) _) (cbind (coc_unsigned_deep _ ?e ?t) _) =>
        eapply rok_bind; [apply rok_coc_u|intros ? ? <-]
    | |- rok _ (cbind (coc_signed_deep _ ?e ?t) _) (cbind (coc_signed_deep _ ?e ?t) _) =>
        eapply rok_bind; [apply rok_coc_s|intros ? ? <-]
    | |- rok _ (cbind (constrain_to_i32 _ ?e) _) (cbind (constrain_to_i32 _ ?e) _) =>
        eapply rok_bind; [apply rok_i32|intros ? ? <-]
    | |- rok _ (cbind (mapM _ ?l) _) (cbind (mapM _ ?l) _) =>
        eapply rok_bind; [apply rok_mapM; intros ?; first [apply rok_check_type|apply rok_eq|apply rok_clause]|intros ? ? <-]
    | |- rok _ (cbind (zipM _ ?l ?m) _) (cbind (zipM _ ?l ?m) _) =>
        eapply rok_bind; [apply rok_zipM; intros ? ?; first [apply rok_check_type|apply rok_eq]|intros ? ? <-]
    | |- rok _ (cbind ?r _) (cbind ?r _) => apply rok_pure; intros ?
    | |- rok _ (cbind _ _) (cbind _ _) => eapply rok_bind; [solve [IHt] | rr_intro]
    | |- rok _ (if ?c then _ else _) (if ?c then _ else _) => destruct c eqn:?
    | |- rok _ (match ?x with _ => _ end) (match ?x with _ => _ end) => destruct x eqn:?
    end).

Ltac rp_fin := first [ split; [reflexivity|seq_solve] | exact I | reflexivity ].

Lemma rok_accs_loop ce ce' fu fu2 : forall accs,
  (forall st st' a, In a accs -> st_rel st st' -> match a with XAArray i => rok RP (ce st i) (ce' st' i) | _ => True end) ->
  forall st st' t, st_rel st st' -> rok RP (accs_loop ce fu D st t accs) (accs_loop ce' fu2 D st' t accs).
Proof.
  induction accs as [|a accs IH]; intros H st st' t Hq; cbn [accs_loop]; [split; [reflexivity|exact Hq]|].
  assert (IH' : forall st st' t, st_rel st st' -> rok RP (accs_loop ce fu D st t accs) (accs_loop ce' fu2 D st' t accs))
    by (intros; apply IH; [intros; apply H; [now right|assumption]|assumption]).
  pose proof (fun st st' => H st st' a (or_introl eq_refl)) as Ha. clear H IH.
  eapply rok_bind with (RA := fun r r' => fst r = fst r' /\ st_rel (snd r) (snd r')).
  - destruct a.
    + destruct (expect_array_type t); cbn [cbind rok]; auto.
      eapply rok_bind; [apply Ha; exact Hq|]. intros [i1 s1] [i1' s1'] [E1 S1]. cbn [fst snd] in *. subst i1'.
      eapply rok_bind; [apply rok_coc_u|]. intros ix ix' <-. cbn [rok]. auto.
    + destruct (expect_tuple_type t); cbn [cbind rok]; auto. destruct (nthN _ _); cbn [rok]; auto.
    + destruct (expect_struct_type t); cbn [cbind rok]; auto.
      destruct (assocL _ (d_structs D)); cbn [rok]; auto. destruct (assocL _ _); cbn [rok]; auto.
  - intros [[ta t1] s1] [[ta' t1'] s1'] [E1 S1]. cbn [fst snd] in *. injection E1 as <- <-.
    eapply rok_bind; [apply IH'; exact S1|]. intros [[tas tf] s2] [[tas' tf'] s2'] [E2 S2]. cbn [fst snd] in *.
    injection E2 as <- <-. split; [reflexivity|exact S2].
Qed.

Lemma rok_struct_lit_loop ce ce' f f2 sd : forall fields,
  (forall st st' fl, In fl fields -> st_rel st st' -> rok RP (ce st (snd fl)) (ce' st' (snd fl))) ->
  forall seen st st', st_rel st st' ->
  rok RP (struct_lit_loop ce f sd seen st fields) (struct_lit_loop ce' f2 sd seen st' fields).
Proof.
  induction fields as [|[fname fv] fields IH]; intros H seen st st' Hq; cbn [struct_lit_loop]; [split; [reflexivity|exact Hq]|].
  destruct (memL fname seen); [exact I|]. destruct (assocL fname sd); [|exact I].
  eapply rok_bind; [apply (H st st' (fname, fv)); [now left|exact Hq]|]. intros [e1 s1] [e1' s1'] [E1 S1]. cbn [fst snd] in *. subst e1'.
  eapply rok_bind; [apply rok_check_type|]. intros tf tf' <-.
  eapply rok_bind; [apply IH; [intros; apply H; [now right|assumption]|exact S1]|].
  intros [r2 s2] [r2' s2'] [E2 S2]. cbn [fst snd] in *. subst r2'. split; [reflexivity|exact S2].
Qed.
Lemma rok_nofuel_r {A} (RA : A -> A -> Prop) r : rok RA r CNoFuel.
Proof. destruct r; exact I. Qed.

Definition RF (r r' : tfndef * cstate) : Prop := fst r = fst r' /\ Rt (st_typed (snd r)) (st_typed (snd r')).

Definition GE f := forall f2 st st' e, st_rel st st' -> rok RP (check_expr f D st e) (check_expr f2 D st' e).
Definition GSS f := forall f2 st st' b, st_rel st st' -> rok RP (check_stmts f D st b) (check_stmts f2 D st' b).
Definition GB f := forall f2 st st' b, st_rel st st' -> rok RP (check_block f D st b) (check_block f2 D st' b).
Definition GS f := forall f2 st st' s, st_rel st st' -> rok RP (check_stmt f D st s) (check_stmt f2 D st' s).
Definition GF f := forall f2 st st' fd, Rt (st_typed st) (st_typed st') -> rok RF (check_fn f D st fd) (check_fn f2 D st' fd).

Ltac ih_tac IHe IHss IHb IHs :=
  first [ apply IHe; seq_solve
        | apply IHss; seq_solve
        | apply IHb; seq_solve
        | apply IHs; seq_solve
        | apply rok_mapM_st; [intros ? ? ? ? ?; first [apply IHe|apply IHs]; assumption|seq_solve] ].

Lemma rok_err_r {A} (RA : A -> A -> Prop) r c : rok RA r (CErr c).
Proof. destruct r; exact I. Qed.

Lemma ins_right f2 st' fd id r :
  find (fun d => list_eqb (uf_name d) id) (d_fns D) = Some fd -> Cgood (st_typed st') ->
  check_fn f2 D st' fd = COk r -> Cgood ((id, fst r) :: st_typed (snd r)) /\ st_env (snd r) = st_env st'.
Proof.
  intros Hf HC Hr. split; [|exact (proj1 (check_fn_frame _ _ _ _ _ _ Hr))].
  constructor; [cbn [fst snd]; eapply canon_intro; eassumption|].
  destruct (proj2 (proj2 (proj2 (proj2 (check_ext intern D f2)))) _ _ _ Hr) as [(_ & E2 & _) _]. apply E2. exact HC.
Qed.

Lemma ins_left f st fd id r : GF f ->
  find (fun d => list_eqb (uf_name d) id) (d_fns D) = Some fd -> Good (st_typed st) ->
  check_fn f D st fd = COk r -> Good ((id, fst r) :: st_typed (snd r)) /\ st_env (snd r) = st_env st.
Proof.
  intros IHf Hf HG Hr. split; [|exact (proj1 (check_fn_frame _ _ _ _ _ _ Hr))].
  constructor.
  - cbn [fst snd]. split; [eapply canon_intro; [exact Hf|apply Good_Cgood; exact HG|exact Hr]|].
    intros u Hu. inversion Hu as [f3 st3 fd3 id3 r3 Hf3 Hc3 Hr3]. subst. rewrite Hf in Hf3. injection Hf3 as <-.
    pose proof (IHf f3 st st3 fd (conj HG Hc3)) as H. rewrite Hr, Hr3 in H. exact (proj1 H).
  - pose proof (IHf f st st fd (conj HG (Good_Cgood _ HG))) as H. rewrite Hr in H. exact (proj1 (proj2 H)).
Qed.

Lemma Good_get T id d : Good T -> assocL id T = Some d -> forall u, canon id u -> d = u.
Proof. intros HG Ha. apply assocL_In in Ha. unfold Good in HG. rewrite Forall_forall in HG. exact (proj2 (HG _ Ha)). Qed.
Lemma Cgood_get T id d : Cgood T -> assocL id T = Some d -> canon id d.
Proof. intros HG Ha. apply assocL_In in Ha. unfold InferPerm2.Cgood in HG. rewrite Forall_forall in HG. exact (HG _ Ha). Qed.

Lemma rel_expr f : GE f -> GB f -> GF f -> GE (S f).
Proof.
  intros IHe IHb IHf f2 st st' e Hq. destruct f2 as [|f2]; [apply rok_nofuel_r|].
  destruct st as [g t c], st' as [g' t' c']. destruct Hq as (Eg & Ht). cbn [st_env st_checking st_typed] in *. subst g'.
  destruct e; cbn [Infer.check_expr]; cbn [st_env st_checking st_typed with_env].
  all: try solve [rr_core ltac:(ih_tac IHe IHe IHb IHe); rp_fin].
  - (* struct literal *)
    destruct (assocL name (d_structs D)); [|exact I].
    eapply rok_bind; [apply rok_struct_lit_loop; [intros st0 st0' fl Hin Hq0; apply IHe; exact Hq0|seq_solve]|rr_intro].
    rr_core ltac:(ih_tac IHe IHe IHb IHe); rp_fin.
  - (* match *)
    eapply rok_bind; [apply IHe; seq_solve|rr_intro].
    match goal with |- rok _ (match ty_of ?x with _ => _ end) _ => destruct (ty_of x) end; try exact I;
    (eapply rok_bind;
      [apply rok_mapM_st; [|seq_solve];
       intros st0 st0' pc Hin Hq0; destruct st0 as [gq tq cq], st0' as [gq' tq' cq']; destruct Hq0 as (Eg0 & Ht0);
       cbn [st_env st_checking st_typed] in Eg0, Ht0; subst gq';
       rr_core ltac:(ih_tac IHe IHe IHb IHe); rp_fin
      |rr_intro]; rr_core ltac:(ih_tac IHe IHe IHb IHe); rp_fin).
  - (* call *)
    destruct Ht as [HG HC].
    fold (Infer.check_expr intern) (Infer.check_stmts intern) (Infer.check_block intern)
         (Infer.check_fn intern) (Infer.check_stmt intern).
    eapply rok_bind with (RA := st_rel).
    + destruct (assocL f0 t) eqn:EL, (assocL f0 t') eqn:ER; cbn [negb].
      * apply st_rel_mk. split; assumption.
      * destruct (find _ (d_fns D)) as [fd|] eqn:Ef; [|apply st_rel_mk; split; assumption].
        destruct (check_fn f2 D (mkSt g t' c') fd) as [r2| | |] eqn:E2; cbn [cbind rok]; auto.
        destruct (ins_right f2 (mkSt g t' c') fd f0 r2 Ef HC E2) as [HC2 He2]. cbn [st_typed st_env] in *.
        split; [cbn [st_env]; congruence|split; assumption].
      * destruct (find _ (d_fns D)) as [fd|] eqn:Ef; [|apply st_rel_mk; split; assumption].
        destruct (check_fn f D (mkSt g t c) fd) as [r1| | |] eqn:E1; cbn [cbind rok]; auto.
        destruct (ins_left f (mkSt g t c) fd f0 r1 IHf Ef HG E1) as [HG1 He1]. cbn [st_typed st_env] in *.
        split; [cbn [st_env]; congruence|split; assumption].
      * destruct (find _ (d_fns D)) as [fd|] eqn:Ef; [|apply st_rel_mk; split; assumption].
        pose proof (IHf f2 (mkSt g t c) (mkSt g t' c') fd (conj HG HC)) as HF.
        destruct (check_fn f D (mkSt g t c) fd) as [r1| | |] eqn:E1; cbn [cbind rok]; auto.
        destruct (check_fn f2 D (mkSt g t' c') fd) as [r2| | |] eqn:E2; cbn [cbind rok]; auto.
        destruct (ins_left f (mkSt g t c) fd f0 r1 IHf Ef HG E1) as [HG1 He1]. destruct (ins_right f2 (mkSt g t' c') fd f0 r2 Ef HC E2) as [HC2 He2].
        cbn [st_typed st_env] in *. split; [cbn [st_env]; congruence|split; assumption].
    + intros [g1 t1 c1] [g1' t1' c1'] (Eg1 & HG1 & HC1). cbn [st_env st_checking st_typed] in *. subst g1'.
      destruct (assocL f0 t1) as [d|] eqn:EL1; [|exact I]. destruct (assocL f0 t1') as [d'|] eqn:ER1; [|apply rok_err_r].
      assert (Ed : d = d') by (eapply Good_get; [exact HG1|exact EL1|eapply Cgood_get; eassumption]). subst d'.
      destruct (env_get g1 f0); [exact I|].
      assert (Ht1 : Rt t1 t1') by (split; assumption).
      rr_core ltac:(ih_tac IHe IHe IHb IHe); rp_fin.
Qed.
Lemma rel_stmts f : GS f -> GSS (S f) /\ GB (S f).
Proof.
  intro IHs. split; intros f2 st st' b Hq; (destruct f2 as [|f2]; [apply rok_nofuel_r|]); cbn [Infer.check_stmts Infer.check_block].
  - apply rok_mapM_st; [|exact Hq]. intros st0 st0' x Hin Hq0. apply IHs; exact Hq0.
  - eapply rok_bind; [apply rok_mapM_st; [|exact Hq]; intros st0 st0' x Hin Hq0; apply IHs; exact Hq0|].
    intros [b1 s1] [b1' s1'] [E1 S1]. cbn [fst snd] in *. subst b1'. split; [reflexivity|exact S1].
Qed.

Lemma rok_annot f f2 (ty : option utype) b :
  rok eq (match ty with Some ty0 => do ty' <- concrete_of D ty0; check_type f b ty' | None => COk b end)
         (match ty with Some ty0 => do ty' <- concrete_of D ty0; check_type f2 b ty' | None => COk b end).
Proof. destruct ty; [|reflexivity]. apply rok_pure. intro ty'. apply rok_check_type. Qed.

Lemma rel_stmt f : GE f -> GSS f -> GS (S f).
Proof.
  intros IHe IHss f2 st st' s Hq. destruct f2 as [|f2]; [apply rok_nofuel_r|].
  destruct st as [g t c], st' as [g' t' c']. destruct Hq as (Eg & Ht). cbn [st_env st_checking st_typed] in *. subst g'.
  destruct s; cbn [Infer.check_stmt]; cbn [st_env st_checking st_typed with_env].
  all: try solve [rr_core ltac:(ih_tac IHe IHss IHss IHe); rp_fin].
  all: try solve [destruct ty; rr_core ltac:(ih_tac IHe IHss IHss IHe); rp_fin].
  - eapply rok_bind; [apply IHe; seq_solve|rr_intro].
    eapply rok_bind; [apply rok_annot|intros ? ? <-]. rr_core ltac:(ih_tac IHe IHss IHss IHe); rp_fin.
  - eapply rok_bind; [apply IHe; seq_solve|rr_intro].
    eapply rok_bind; [apply rok_annot|intros ? ? <-]. rr_core ltac:(ih_tac IHe IHss IHss IHe); rp_fin.
  - destruct (env_get g x) as [[ety [|]]|]; try exact I.
    eapply rok_bind.
    + apply rok_accs_loop; [|apply st_rel_mk; exact Ht].
      intros st0 st0' a Hin Hq0. destruct a; try exact I. apply IHe; exact Hq0.
    + intros [[tas ty1] [g1 t1 c1]] [[tas' ty1'] [g1' t1' c1']] [E1 (Eg1 & Ht1)].
      cbn [fst snd st_env st_checking st_typed] in *. injection E1 as <- <-. subst g1'.
      rr_core ltac:(ih_tac IHe IHss IHss IHe); rp_fin.
Qed.

Lemma rel_fn f : GB f -> GF (S f).
Proof.
  intros IHb f2 st st' fd Ht. destruct f2 as [|f2]; [apply rok_nofuel_r|].
  destruct st as [g t c], st' as [g' t' c']. cbn [st_env st_checking st_typed] in *.
  cbn [Infer.check_fn]. cbn [st_env st_checking st_typed].
  destruct (memL (uf_name fd) c); [exact I|]. destruct (memL (uf_name fd) c'); [apply rok_err_r|]. cbv zeta.
  apply rok_pure. intros rp.
  eapply rok_bind; [apply IHb; apply st_rel_mk; exact Ht|].
  intros [[body bty] [g1 t1 c1]] [[body' bty'] [g1' t1' c1']] [E1 (Eg1 & Ht1)].
  cbn [fst snd st_env st_checking st_typed] in *. injection E1 as <- <-. subst g1'.
  apply rok_pure. intros ret_ty.
  eapply rok_bind with (RA := eq).
  - destruct (last (map Some body) None) as [[]|]; try apply rok_eq.
    apply rok_map_last_expr. intro e0. apply rok_check_type.
  - intros b1 b1' <-. cbn [rok]. split; [reflexivity|exact Ht1].
Qed.

(* TWO SUCCESSFUL RUNS AGREE, whatever their fuels, whatever is memoised *)
Theorem check_det f : GE f /\ GSS f /\ GB f /\ GS f /\ GF f.
Proof.
  induction f as [|f (IHe & IHss & IHb & IHs & IHf)].
  { repeat split; intros ? ? ? ? ?; exact I. }
  pose proof (rel_stmts f IHs) as [H1 H2].
  split; [apply rel_expr; assumption|]. split; [exact H1|]. split; [exact H2|].
  split; [apply rel_stmt; assumption|apply rel_fn; assumption].
Qed.
End Det.

(* ================================================================ part 2: the pub-fn loop *)

Section Loop.
Variable intern : list N -> N.
Variable D : defs.
Hypothesis Hmono_ct : forall f f2 e t a a', constrain_type f e t = COk a -> constrain_type f2 e t = COk a' -> a = a'.
Hypothesis Hmono_i32 : forall f f2 e a a', constrain_to_i32 f e = COk a -> constrain_to_i32 f2 e = COk a' -> a = a'.
Notation Good := (Good intern D).
Notation canon := (canon intern D).

Lemma defd_cons_filter {A} n name (v : A) T :
  defd n ((name, v) :: filter (fun nd => negb (list_eqb (fst nd) name)) T) <-> (n = name \/ defd n T).
Proof.
  unfold defd. cbn [assocL]. destruct (list_eqb n name) eqn:E.
  - apply list_eqb_eq in E. split; [now left|discriminate].
  - rewrite (assocL_filter_neq _ _ _ E). split; [now right|]. intros [->|H]; [rewrite list_eqb_refl in E; discriminate|exact H].
Qed.

Lemma pub_go_good f : forall fns st st',
  (forall fd, In fd fns -> find (fun d => list_eqb (uf_name d) (uf_name fd)) (d_fns D) = Some fd) ->
  Good (st_typed st) -> NoDup (map fst (st_typed st)) -> st_checking st = [] ->
  pub_go intern f D fns st = COk st' ->
  Good (st_typed st') /\ NoDup (map fst (st_typed st')) /\
  (forall n, defd n (st_typed st) -> defd n (st_typed st')) /\
  (forall fd, In fd fns -> uf_pub fd = true -> defd (uf_name fd) (st_typed st')).
Proof.
  induction fns as [|fd fns IH]; intros st st' Hfind HG HN Hc H; cbn [pub_go] in H.
  - injection H as <-. repeat split; auto. intros fd [].
  - assert (Hfind' : forall fd0, In fd0 fns -> find (fun d => list_eqb (uf_name d) (uf_name fd0)) (d_fns D) = Some fd0)
      by (intros; apply Hfind; now right).
    destruct (uf_pub fd) eqn:Epub.
    + destruct (uf_params fd) eqn:Epar; [discriminate H|].
      destruct (check_fn intern f D st fd) as [r1| | |] eqn:E1; cbn [cbind] in H; try discriminate H.
      pose proof (proj2 (proj2 (proj2 (proj2 (check_det intern D Hmono_ct Hmono_i32 f))))) as HF.
      destruct (ins_left intern D f st fd (uf_name fd) r1 HF (Hfind fd (or_introl eq_refl)) HG E1) as [HG1 He1].
      destruct (proj2 (proj2 (proj2 (proj2 (check_ext intern D f)))) _ _ _ E1) as [(X1 & X2 & X3 & X4 & X5) _].
      cbn [tc_of fst snd] in *.
      set (T1 := (uf_name fd, fst r1) :: filter (fun nd => negb (list_eqb (fst nd) (uf_name fd))) (st_typed (snd r1))) in *.
      assert (HG' : Good T1).
      { unfold T1. inversion HG1 as [|? ? Hhd Htl]; subst. constructor; [exact Hhd|]. apply Forall_filter. exact Htl. }
      assert (HN' : NoDup (map fst T1)).
      { unfold T1. cbn [map fst]. constructor; [apply filter_removes|apply filter_keys_NoDup; apply X4; exact HN]. }
      specialize (IH (mkSt (st_env (snd r1)) T1 (st_checking (snd r1))) st' Hfind' HG' HN' ltac:(cbn [st_checking]; congruence) H).
      cbn [st_typed] in IH. destruct IH as (A1 & A2 & A3 & A4). repeat split; auto.
      * intros n Hn. apply A3. unfold T1. apply defd_cons_filter. right. apply X3. exact Hn.
      * intros fd0 [<-|Hin] Hp; [|apply A4; assumption]. apply A3. unfold T1. apply defd_cons_filter. now left.
    + destruct (IH st st' Hfind' HG HN Hc H) as (A1 & A2 & A3 & A4). repeat split; auto.
      intros fd0 [<-|Hin] Hp; [congruence|apply A4; assumption].
Qed.
End Loop.

(* ================================================================ part 3: whole programs *)

Lemma rok_True {A} (r r' : cres A) : rok (fun _ _ => True) r r'.
Proof. destruct r, r'; exact I. Qed.

Lemma pub_go_D_eq intern f D D' : (forall st fd, check_fn intern f D' st fd = check_fn intern f D st fd) ->
  forall fns st, pub_go intern f D' fns st = pub_go intern f D fns st.
Proof.
  intro H. induction fns as [|fd fns IH]; intro st; cbn [pub_go]; [reflexivity|].
  destruct (uf_pub fd); [|apply IH]. destruct (uf_params fd); [reflexivity|]. rewrite H.
  destruct (check_fn intern f D st fd); cbn [cbind]; try reflexivity. apply IH.
Qed.

Section Prog.
Variable intern : list N -> N.
Hypothesis intern_inj : forall a b, intern a = intern b -> a = b.
Hypothesis Hmono_ct : forall f f2 e t a a', constrain_type f e t = COk a -> constrain_type f2 e t = COk a' -> a = a'.
Hypothesis Hmono_i32 : forall f f2 e a a', constrain_to_i32 f e = COk a -> constrain_to_i32 f2 e = COk a' -> a = a'.
Variables P Q : uprogram.
Variables f f' : nat.
Hypothesis Hconsts : up_consts Q = up_consts P.
Hypothesis Hmain : up_main Q = up_main P.
Hypothesis Hfns : Permutation (up_fns P) (up_fns Q).
Hypothesis Hstructs : Permutation (up_structs P) (up_structs Q).
Hypothesis Henums : Permutation (up_enums P) (up_enums Q).
Hypothesis ND_fns : NoDup (map uf_name (up_fns P)).
Hypothesis ND_structs : NoDup (map us_name (up_structs P)).
Hypothesis ND_enums : NoDup (map ue_name (up_enums P)).

Lemma check_perm_calls : rok tp_rel (check_program_t intern f P) (check_program_t intern f' Q).
Proof.
  rewrite !check_program_t_unfold. rewrite Hconsts, Hmain.
  assert (Msn : forall n, memL n (map us_name (up_structs Q)) = memL n (map us_name (up_structs P)))
    by (intro n; symmetry; apply memL_perm, Permutation_map, Hstructs).
  assert (Men : forall n, memL n (map ue_name (up_enums Q)) = memL n (map ue_name (up_enums P)))
    by (intro n; symmetry; apply memL_perm, Permutation_map, Henums).
  destruct (check_consts (up_consts P) []) as [consts| | |]; cbn [cbind rok]; auto.
  eapply rok_bind with (RA := fun s s' => Permutation s s' /\ map fst s = map us_name (up_structs P)).
  { rewrite (mapM_ext (check_struct_def (map us_name (up_structs Q)) (map ue_name (up_enums Q)))
                      (check_struct_def (map us_name (up_structs P)) (map ue_name (up_enums P))))
      by (intros; apply check_struct_def_eq; assumption).
    pose proof (mapM_perm (check_struct_def (map us_name (up_structs P)) (map ue_name (up_enums P))) _ _ Hstructs) as Hp.
    destruct (mapM _ (up_structs P)) as [s| | |] eqn:E1, (mapM _ (up_structs Q)) as [s'| | |]; cbn [rok]; auto.
    split; [exact Hp|]. eapply mapM_names; [|exact E1]. intros x r. apply struct_def_name. }
  intros structs structs' [Ps Ns].
  eapply rok_bind with (RA := fun s s' => Permutation s s' /\ map fst s = map ue_name (up_enums P)).
  { rewrite (mapM_ext (check_enum_def (map us_name (up_structs Q)) (map ue_name (up_enums Q)))
                      (check_enum_def (map us_name (up_structs P)) (map ue_name (up_enums P))))
      by (intros; apply check_enum_def_eq; assumption).
    pose proof (mapM_perm (check_enum_def (map us_name (up_structs P)) (map ue_name (up_enums P))) _ _ Henums) as Hp.
    destruct (mapM _ (up_enums P)) as [s| | |] eqn:E1, (mapM _ (up_enums Q)) as [s'| | |]; cbn [rok]; auto.
    split; [exact Hp|]. eapply mapM_names; [|exact E1]. intros x r. apply enum_def_name. }
  intros enums enums' [Pe Ne].
  assert (NDs : NoDup (map fst structs)) by (rewrite Ns; exact ND_structs).
  assert (NDe : NoDup (map fst enums)) by (rewrite Ne; exact ND_enums).
  assert (As : forall n, assocL n structs' = assocL n structs) by (intro n; symmetry; apply assocL_perm; assumption).
  assert (Ae : forall n, assocL n enums' = assocL n enums) by (intro n; symmetry; apply assocL_perm; assumption).
  eapply rok_bind; [apply rok_True|]. intros _ _ _.
  set (D := defs_of P consts structs enums). set (D' := defs_of Q consts structs' enums').
  assert (Hfind : forall id, find (fun d => list_eqb (uf_name d) id) (d_fns D') = find (fun d => list_eqb (uf_name d) id) (d_fns D))
    by (intro id; symmetry; apply find_fn_perm; assumption).
  assert (Hexh : forall ps ty, check_exhaustiveness intern D' ps ty = check_exhaustiveness intern D ps ty)
    by (intros; symmetry; apply check_exhaustiveness_perm; assumption).
  (* the run on Q, in the definition environment of P *)
  assert (HDeq : forall st fd, check_fn intern f' D' st fd = check_fn intern f' D st fd).
  { intros st fd.
    pose proof (check_rel intern D D' eq_refl As Ae Hfind Msn Men Hexh false eq
                  (fun _ t t' E n => f_equal (assocL n) E) (fun _ t t' e E => f_equal (cons e) E) f') as (_ & _ & _ & _ & HF).
    specialize (HF st st fd ltac:(repeat split) ltac:(discriminate)).
    destruct (check_fn intern f' D st fd) as [[t1 [g1 ty1 c1]]| | |], (check_fn intern f' D' st fd) as [[t2 [g2 ty2 c2]]| | |];
      cbn [rres] in HF; try contradiction; try reflexivity; try congruence.
    destruct HF as [E1 (E2 & E3 & E4)]. cbn [fst snd st_env st_checking st_typed] in *. congruence. }
  rewrite (pub_go_D_eq intern f' D D' HDeq).
  change (d_fns D) with (up_fns P) in *.
  assert (FP : forall fd, In fd (up_fns P) -> find (fun d => list_eqb (uf_name d) (uf_name fd)) (d_fns D) = Some fd)
    by (intros fd Hin; apply (find_by_name _ ND_fns fd Hin)).
  assert (FQ : forall fd, In fd (up_fns Q) -> find (fun d => list_eqb (uf_name d) (uf_name fd)) (d_fns D) = Some fd)
    by (intros fd Hin; apply FP; eapply Permutation_in; [apply Permutation_sym; exact Hfns|exact Hin]).
  destruct (pub_go intern f D (up_fns P) (mkSt env_new [] [])) as [stP| | |] eqn:EP; cbn [cbind rok]; auto.
  destruct (pub_go intern f' D (up_fns Q) (mkSt env_new [] [])) as [stQ| | |] eqn:EQ; cbn [cbind];
    try (destruct (existsb _ (up_fns P)); exact I).
  destruct (pub_go_good intern D Hmono_ct Hmono_i32 f (up_fns P) (mkSt env_new [] []) stP FP (Forall_nil _) (NoDup_nil _) eq_refl EP) as (GP & NP & _ & PubP).
  destruct (pub_go_good intern D Hmono_ct Hmono_i32 f' (up_fns Q) (mkSt env_new [] []) stQ FQ (Forall_nil _) (NoDup_nil _) eq_refl EQ) as (GQ & NQ & _ & PubQ).
  destruct (existsb _ (up_fns P)) eqn:UP; [exact I|]. destruct (existsb _ (up_fns Q)) eqn:UQ; [exact I|]. cbn [rok].
  (* every function has an entry, in both maps *)
  assert (AllP : forall fd, In fd (up_fns P) -> defd (uf_name fd) (st_typed stP)).
  { intros fd Hin. destruct (uf_pub fd) eqn:Ep; [apply PubP; assumption|].
    rewrite <- not_true_iff_false in UP. unfold defd. intro Hn. apply UP. apply existsb_exists. exists fd. split; [exact Hin|].
    rewrite Ep, Hn. reflexivity. }
  assert (AllQ : forall fd, In fd (up_fns Q) -> defd (uf_name fd) (st_typed stQ)).
  { intros fd Hin. destruct (uf_pub fd) eqn:Ep; [apply PubQ; assumption|].
    rewrite <- not_true_iff_false in UQ. unfold defd. intro Hn. apply UQ. apply existsb_exists. exists fd. split; [exact Hin|].
    rewrite Ep, Hn. reflexivity. }
  (* every entry is for a function *)
  assert (Key : forall n t, canon intern D n t -> exists fd, In fd (up_fns P) /\ uf_name fd = n).
  { intros n t Hc. inversion Hc as [f3 st3 fd3 id3 r3 Hf3 _ _]. subst. apply find_some in Hf3. destruct Hf3 as [Hin E].
    exists fd3. split; [exact Hin|apply list_eqb_eq; exact E]. }
  assert (Hmap : forall n, assocL n (st_typed stP) = assocL n (st_typed stQ)).
  { intro n. destruct (assocL n (st_typed stP)) as [tP|] eqn:E1, (assocL n (st_typed stQ)) as [tQ|] eqn:E2; try reflexivity.
    - f_equal. eapply Good_get; [exact GP|exact E1|]. eapply Cgood_get; [apply Good_Cgood; exact GQ|exact E2].
    - exfalso. destruct (Key n tP (Cgood_get intern D _ _ _ (Good_Cgood intern D _ GP) E1)) as (fd & Hin & <-).
      apply (AllQ fd); [eapply Permutation_in; [exact Hfns|exact Hin]|exact E2].
    - exfalso. destruct (Key n tQ (Cgood_get intern D _ _ _ (Good_Cgood intern D _ GQ) E2)) as (fd & Hin & <-).
      apply (AllP fd Hin). exact E1. }
  unfold tp_rel. cbn [tp_consts tp_structs tp_enums tp_fns tp_main]. repeat split; assumption.
Qed.
End Prog.

(* (2) WITH CALLS: two ACCEPTED runs -- different orders of the three maps, different fuels -- give
   the same typed program as maps ... *)
Theorem check_perm_typed intern P Q f f' TP TQ :
  (forall a b, intern a = intern b -> a = b) ->
  (forall f f2 e t a a', constrain_type f e t = COk a -> constrain_type f2 e t = COk a' -> a = a') ->
  (forall f f2 e a a', constrain_to_i32 f e = COk a -> constrain_to_i32 f2 e = COk a' -> a = a') ->
  up_consts Q = up_consts P -> up_main Q = up_main P ->
  Permutation (up_fns P) (up_fns Q) -> Permutation (up_structs P) (up_structs Q) -> Permutation (up_enums P) (up_enums Q) ->
  NoDup (map uf_name (up_fns P)) -> NoDup (map us_name (up_structs P)) -> NoDup (map ue_name (up_enums P)) ->
  check_program_t intern f P = COk TP -> check_program_t intern f' Q = COk TQ ->
  tp_consts TP = tp_consts TQ /\ Permutation (tp_structs TP) (tp_structs TQ) /\ Permutation (tp_enums TP) (tp_enums TQ) /\
  (forall name, assocL name (tp_fns TP) = assocL name (tp_fns TQ)) /\ Permutation (tp_fns TP) (tp_fns TQ) /\
  tp_main TP = tp_main TQ.
Proof.
  intros Hi M1 M2 H1 H2 H3 H4 H5 H6 H7 H8 EP EQ.
  pose proof (check_perm_calls intern Hi M1 M2 P Q f f' H1 H2 H3 H4 H5 H6 H7 H8) as H. rewrite EP, EQ in H.
  destruct H as (A & B & C & E & N1 & N2 & _ & _ & F). repeat split; try assumption.
  apply assocL_eq_perm; assumption.
Qed.

(* ... and the SAME exported program *)
Theorem check_perm_export intern P Q f f' A B :
  (forall a b, intern a = intern b -> a = b) ->
  (forall f f2 e t a a', constrain_type f e t = COk a -> constrain_type f2 e t = COk a' -> a = a') ->
  (forall f f2 e a a', constrain_to_i32 f e = COk a -> constrain_to_i32 f2 e = COk a' -> a = a') ->
  up_consts Q = up_consts P -> up_main Q = up_main P ->
  Permutation (up_fns P) (up_fns Q) -> Permutation (up_structs P) (up_structs Q) -> Permutation (up_enums P) (up_enums Q) ->
  NoDup (map uf_name (up_fns P)) -> NoDup (map us_name (up_structs P)) -> NoDup (map ue_name (up_enums P)) ->
  check_program intern f P = COk A -> check_program intern f' Q = COk B -> A = B.
Proof.
  intros Hi M1 M2 H1 H2 H3 H4 H5 H6 H7 H8 EP EQ. unfold check_program in EP, EQ.
  pose proof (check_perm_calls intern Hi M1 M2 P Q f f' H1 H2 H3 H4 H5 H6 H7 H8) as H.
  destruct (check_program_t intern f P) as [TP| | |]; cbn [cbind] in EP; try discriminate EP.
  destruct (check_program_t intern f' Q) as [TQ| | |]; cbn [cbind] in EQ; try discriminate EQ.
  injection EP as <-. injection EQ as <-. apply export_program_rel. exact H.
Qed.

Print Assumptions check_ext.
Print Assumptions check_det.
Print Assumptions check_perm_typed.
Print Assumptions check_perm_export.
