(* C07 for the type checker, part 6: "the checker terminates" for programs WITH match, under the
   computable premise [ty_depth_bound P <= 64] (Check/InferFuel5.v).  The adequacy induction of
   InferFuel3.adequacy_all3 re-run with the depth invariant of InferFuel5.depth_all as a
   precondition: at every oracle site the scrutinee type is wf within 64, hence (InferFuel4.ctok_tok,
   InferFuel3.exh_nf) the oracle does not run out of its fuel. *)
From Coq Require Import Lia Bool.
From GV Require Import Base.Util Front.Scan Front.ParseExpr Check.UAst Check.Infer Check.InferProofs
  Check.InferTotal Check.InferFuel Check.InferFuel2 Check.InferFuel3 Check.InferFuel4 Check.InferFuel5.
From GV Require Exhaust.Pat Exhaust.Useful Exhaust.UsefulProofs.
Local Open Scope nat_scope.

Lemma post_strengthen {A} (Q R : A -> Prop) (r : cres A) : post Q r -> (forall a, r = COk a -> R a) -> post (fun a => Q a /\ R a) r.
Proof. destruct r; cbn [post]; auto. Qed.

Section Adequacy6.
Variable intern : list N -> N.
Hypothesis intern_inj : forall a b, intern a = intern b -> a = b.
Variable D : defs.
Variable B0 : nat.
Hypothesis HB0 : 1 <= B0.
Hypothesis Hconsts : forall x t, assocL x (d_consts D) = Some t -> wf D B0 t = true.
Hypothesis Hfns : forall fd, In fd (d_fns D) -> ann_fn D B0 fd = true.
Hypothesis Hbud : forall fd, In fd (d_fns D) -> B0 + sumS (uf_body fd) <= 64.
Hypothesis Hnd : defs_nodup D.
Notation M := (dmax (d_fns D)).
Notation check_expr := (check_expr intern).
Notation check_stmt := (check_stmt intern).
Notation check_stmts := (check_stmts intern).
Notation check_block := (check_block intern).
Notation check_fn := (check_fn intern).
Notation SInv := (SInv D B0).
Notation ann_e := (ann_e D B0).
Notation ann_s := (ann_s D B0).
Notation ann_a := (ann_a D B0).
Notation typed_ok := (typed_ok D B0).

(* the oracle at a type that is wf within 64 *)
Lemma exh_wf ps ty d : wf D d ty = true -> d <= 64 -> Forall (from_check D ty) ps -> nf (check_exhaustiveness intern D ps ty).
Proof.
  intros Hw Hd Hps. apply (exh_nf intern intern_inj D ps ty Hnd); [|exact Hps].
  apply (ctok_tok_ok intern intern_inj). apply wf_ctok. exact (wf_le D _ _ _ Hd Hw).
Qed.

(* the loops, with a state invariant *)
Definition chkI (c0 : list (list N)) (J : cstate -> Prop) {A} (Q : A -> Prop) (r : A * cstate) : Prop :=
  st_checking (snd r) = c0 /\ J (snd r) /\ Q (fst r).

Lemma post_mapM_stI {A B} (g : cstate -> A -> cres (B * cstate)) c0 (J : cstate -> Prop) (Q : B -> Prop) l :
  (forall st x, In x l -> st_checking st = c0 -> J st -> post (chkI c0 J Q) (g st x)) ->
  forall st, st_checking st = c0 -> J st -> post (chkI c0 J (Forall Q)) (mapM_st g st l).
Proof.
  induction l as [|x l IH]; intros H st Hst HI; cbn [mapM_st]; [split; [exact Hst|split; [exact HI|constructor]]|].
  eapply post_bind; [apply H; [now left|exact Hst|exact HI]|]. intros r1 (H1 & I1 & Q1).
  eapply post_bind; [apply IH; [intros; apply H; [now right|assumption|assumption]|exact H1|exact I1]|]. intros r2 (H2 & I2 & Q2).
  split; [exact H2|split; [exact I2|constructor; assumption]].
Qed.

Lemma post_accs_loopI ce fu c0 (J : cstate -> Prop) : forall accs,
  (forall st x, In (XAArray x) accs -> st_checking st = c0 -> J st -> post (chkI c0 J (fun te : texpr => td te <= fu)) (ce st x)) ->
  forall st t, st_checking st = c0 -> J st ->
  post (fun r : list taccessor * cty * cstate => st_checking (snd r) = c0 /\ J (snd r)) (accs_loop ce fu D st t accs).
Proof.
  induction accs as [|a accs IH]; intros Hce st t Hst HI; cbn [accs_loop]; [split; assumption|].
  eapply (post_bind (fun r : taccessor * cty * cstate => st_checking (snd r) = c0 /\ J (snd r))).
  - destruct a.
    + eapply post_bind; [apply post_nf; apply np_expect_array_type|]. intros el _.
      eapply post_bind; [apply Hce; [left; reflexivity|exact Hst|exact HI]|]. intros ri (Hri & Iri & Hti).
      eapply post_bind; [apply (post_coc_u_deep fu fu); [exact Hti|lia]|]. intros i' _. split; assumption.
    + eapply post_bind; [apply post_nf; apply np_expect_tuple_type|]. intros vts _.
      destruct (nthN vts index); [split; assumption|exact I].
    + eapply post_bind; [apply post_nf; apply np_expect_struct_type|]. intros nm _.
      destruct (assocL nm (d_structs D)); [|exact I]. destruct (assocL field l); [split; assumption|exact I].
  - intros [[ta t'] st'] [Hst' HI']. cbn [snd] in *.
    eapply post_bind; [apply IH; [intros; apply Hce; [right; assumption|assumption|assumption]|exact Hst'|exact HI']|].
    intros [[tas tf] st''] [H2 I2]. cbn [post snd] in *. split; assumption.
Qed.

Lemma post_struct_lit_loopI ce f c0 (J : cstate -> Prop) sd : forall fields,
  (forall st (fx : list N * xexpr), In fx fields -> st_checking st = c0 -> J st -> post (chkI c0 J (fun te : texpr => td te <= f)) (ce st (snd fx))) ->
  forall seen st, st_checking st = c0 -> J st ->
  post (fun r : list (list N * texpr) * cstate => st_checking (snd r) = c0 /\ J (snd r)) (struct_lit_loop ce f sd seen st fields).
Proof.
  induction fields as [|[fname fv] fields IH]; intros Hce seen st Hst HI; cbn [struct_lit_loop]; [split; assumption|].
  destruct (memL fname seen); [exact I|]. destruct (assocL fname sd); [|exact I].
  eapply post_bind; [apply (Hce st (fname, fv)); [left; reflexivity|exact Hst|exact HI]|]. intros r1 (H1 & I1 & Ht).
  eapply post_bind; [apply (post_check_type f f); [exact Ht|lia]|]. intros tf _.
  eapply post_bind; [apply IH; [intros; apply Hce; [right; assumption|assumption|assumption]|exact H1|exact I1]|]. intros r2 H2. exact H2.
Qed.

(* ---------------------------------------------------------------- the goals, with the depth invariant *)
Definition HE (f : nat) : Prop := forall c0 k B st e, ann_e e = true -> SInv B st -> B + agg_e e <= 64 ->
  st_checking st = c0 -> cnt (d_fns D) c0 <= k -> xd e + k * M <= f ->
  post (fun r => chk_is c0 (fun te => td te <= f) r /\ (wf D (B + agg_e e) (ty_of (fst r)) = true /\ SInv B (snd r))) (check_expr f D st e).
Definition HSS (f : nat) : Prop := forall c0 k B st b, forallb ann_s b = true -> SInv B st -> B + sumS b <= 64 ->
  st_checking st = c0 -> cnt (d_fns D) c0 <= k -> bdx b + k * M <= f ->
  post (fun r => chk_is c0 (Forall (fun s => tsd s <= f)) r /\ (SInv (B + sumS b) (snd r) /\ Forall (expr_ty_ok D (B + sumS b)) (fst r))) (check_stmts f D st b).
Definition HB (f : nat) : Prop := forall c0 k B st b, forallb ann_s b = true -> SInv B st -> B + sumS b <= 64 ->
  st_checking st = c0 -> cnt (d_fns D) c0 <= k -> bdx b + k * M <= f ->
  post (fun r => (st_checking (snd r) = c0 /\ Forall (fun s => tsd s <= f) (fst (fst r))) /\
                 (SInv (B + sumS b) (snd r) /\ wf D (B + sumS b) (snd (fst r)) = true)) (check_block f D st b).
Definition HS (f : nat) : Prop := forall c0 k B st s, ann_s s = true -> SInv B st -> B + agg_s s <= 64 ->
  st_checking st = c0 -> cnt (d_fns D) c0 <= k -> sdx s + k * M <= f ->
  post (fun r => chk_is c0 (fun ts => tsd ts <= f) r /\ (SInv (B + agg_s s) (snd r) /\ expr_ty_ok D (B + agg_s s) (fst r))) (check_stmt f D st s).
Definition HF (f : nat) : Prop := forall c0 k st fd, typed_ok (st_typed st) -> st_checking st = c0 -> cnt (d_fns D) c0 <= k -> In fd (d_fns D) ->
  1 + k * M <= f ->
  post (fun r => st_checking (snd r) = c0 /\ (typed_ok (st_typed (snd r)) /\ wf D B0 (tf_ty (fst r)) = true /\ st_env (snd r) = st_env st)) (check_fn f D st fd).

Lemma strong_chkI c0 B {A} (Q : A -> Prop) (W : A * cstate -> Prop) (X : cres (A * cstate)) :
  post (fun r => chk_is c0 Q r /\ (W r /\ SInv B (snd r))) X -> post (chkI c0 (SInv B) Q) X.
Proof. intro H. eapply post_weaken; [exact H|]. intros r ((H1 & H2) & _ & H3). split; [exact H1|split; [exact H3|exact H2]]. Qed.

Ltac refold_goal :=
  fold (Infer.check_expr intern) (Infer.check_stmts intern) (Infer.check_block intern)
       (Infer.check_fn intern) (Infer.check_stmt intern).

Ltac destr_and := cbv beta in *; unfold chk_is, chkI in *; cbn [fst snd st_checking with_env] in *;
  repeat match goal with H : _ /\ _ |- _ => destruct H end.

Ltac bound :=
  cbn [xd sdx adx] in *; unfold bdx in *;
  repeat match goal with
  | Hin : In ?x ?l |- _ =>
      match goal with
      | _ : context [list_max (map ?g l)] |- _ =>
          lazymatch goal with
          | _ : g x <= list_max (map g l) |- _ => fail
          | _ => pose proof (in_list_max g l x Hin)
          end
      end
  end;
  cbv beta in *; cbn [xd sdx adx fst snd] in *; lia.

Ltac bud :=
  cbn [agg_e agg_s agg_a] in *;
  repeat match goal with
  | Hin : In ?x ?l |- _ =>
      match goal with
      | _ : context [list_sum (map ?g l)] |- _ =>
          lazymatch goal with
          | _ : g x <= list_sum (map g l) |- _ => fail
          | _ => pose proof (in_list_sum g l x Hin)
          end
      end
  end;
  cbv beta in *; cbn [agg_a fst snd] in *; lia.

Ltac frag :=
  cbn [InferFuel5.ann_e InferFuel5.ann_s InferFuel5.ann_a] in *;
  repeat match goal with H : _ && _ = true |- _ => apply andb_true_iff in H; destruct H end;
  first [ assumption
        | match goal with H : forallb ?g ?l = true, Hin : In ?x ?l |- _ => exact (proj1 (forallb_forall g l) H x Hin) end ].

Ltac chk := first [eassumption | cbn [st_checking with_env]; eassumption | reflexivity].

Ltac nf_tac :=
  apply post_nf;
  first [ apply np_concrete_of | apply np_expect_array_type | apply np_expect_struct_type | apply np_expect_tuple_type
        | apply np_expect_num_type | apply np_expect_signed_num_type | apply np_expect_bool_or_num_type
        | apply np_check_pattern ].

Ltac ihe IHe c0 k := eapply (IHe c0 k); [frag | eassumption | bud | chk | eassumption | bound].

Ltac sub_post IHe c0 k f :=
  lazymatch goal with
  | |- post _ (Infer.check_expr _ _ _ _ _) => ihe IHe c0 k
  | |- post _ (mapM_st (Infer.check_expr _ _ _) ?st _) =>
      match goal with HS : InferFuel5.SInv D B0 ?B st |- _ =>
        eapply (post_mapM_stI _ c0 (InferFuel5.SInv D B0 B) (fun te => td te <= f));
          [intros ? ? ? ? ?; eapply strong_chkI; eapply (IHe c0 k); [frag | eassumption | bud | eassumption | eassumption | bound] | chk | exact HS]
      end
  | |- post _ (check_type _ _ _) => eapply (post_check_type f f); [first [assumption | lia] | lia]
  | |- post _ (constrain_to_i32 _ _) => eapply (post_constrain_to_i32 f f); [first [assumption | lia] | lia]
  | |- post _ (mapM _ _) =>
      eapply (post_mapM _ (fun e => td e <= f) (fun e => td e <= f));
        [intros ? ?; eapply (post_check_type f f); [assumption | lia] | assumption]
  | |- post _ (zipM _ _ _) =>
      eapply (post_zipM _ (fun e => td e <= f));
        [intros ? ? ?; eapply (post_check_type f f); [assumption | lia] | assumption]
  | |- post _ (accs_loop _ _ _ ?st _ _) =>
      match goal with HS : InferFuel5.SInv D B0 ?B st |- _ =>
        eapply (post_accs_loopI _ f c0 (InferFuel5.SInv D B0 B));
          [intros ? ? ? ? ?; eapply strong_chkI; eapply (IHe c0 k); [frag | eassumption | bud | eassumption | eassumption | bound] | chk | exact HS]
      end
  | |- post _ (struct_lit_loop _ _ _ _ ?st _) =>
      match goal with HS : InferFuel5.SInv D B0 ?B st |- _ =>
        eapply (post_struct_lit_loopI _ f c0 (InferFuel5.SInv D B0 B));
          [intros ? ? ? ? ?; eapply strong_chkI; eapply (IHe c0 k); [frag | eassumption | bud | eassumption | eassumption | bound] | chk | exact HS]
      end
  | |- post _ (unify _ _ _) => eapply (post_unify f f); [first [assumption | lia] | first [assumption | lia] | lia]
  | |- post _ (coc_unsigned_deep _ _ _) => eapply (post_coc_u_deep f f); [first [assumption | lia] | lia]
  | |- post _ (coc_signed_deep _ _ _) => eapply (post_coc_s_deep f f); [first [assumption | lia] | lia]
  | |- post _ (check_or_constrain_unsigned _ _) => apply post_coc_u
  | |- post _ (check_or_constrain_signed _ _) => apply post_coc_s
  | |- post _ (check_pattern _ _ _ _) => apply post_self; apply np_check_pattern
  | |- _ => nf_tac
  end.

Ltac pg tac :=
  repeat (cbv beta zeta; lazymatch goal with
  | |- post _ (COk _) => cbn [post fst snd]; unfold chk_is; cbn [fst snd st_checking with_env]
  | |- post _ (CErr _) => exact I
  | |- post _ COutside => exact I
  | |- post _ (cbind _ _) => eapply post_bind; [tac | intros ? ?; destr_and]
  | |- post _ (if ?c then _ else _) => destruct c eqn:?
  | |- post _ (match ?x with _ => _ end) => destruct x eqn:?
  end).

Ltac fin :=
  repeat match goal with H : Forall (fun e => td e <= _) _ |- _ => apply Forall_td_max in H end;
  repeat match goal with H : Forall (fun s => tsd s <= _) _ |- _ => apply (proj2 (list_max_map_le tsd _ _)) in H end;
  try (split; [chk|]); cbn [td tsd fst snd] in *; try lia.

Definition WE (f : nat) : Prop := forall c0 k B st e, ann_e e = true -> SInv B st -> B + agg_e e <= 64 ->
  st_checking st = c0 -> cnt (d_fns D) c0 <= k -> xd e + k * M <= f ->
  post (chk_is c0 (fun te => td te <= f)) (check_expr f D st e).

Lemma weakE f : HE f -> HB f -> HF f -> WE (S f).
Proof.
  intros IHe IHb IHf c0 k B st e Hn HS Hb Hst Hk Hf.
  remember e as e0 eqn:Ee. destruct e; rewrite Ee in *; clear Ee; cbn [Infer.check_expr]; refold_goal.
  all: try solve [pg ltac:(idtac; sub_post IHe c0 k f); fin].
  - (* match *)
    cbn [InferFuel5.ann_e] in Hn. apply andb_true_iff in Hn. destruct Hn as [Hn1 Hn2].
    assert (Hb1 : B + agg_e e <= 64) by (cbn [agg_e] in Hb; lia).
    eapply post_bind; [eapply (IHe c0 k); [exact Hn1|exact HS|exact Hb1|chk|exact Hk|bound]|].
    intros rs ((Hrs1 & Hrs2) & Hws & HSs).
    assert (HSs' : SInv (B + agg_e e) (snd rs)) by (eapply SInv_le; [|exact HSs]; lia).
    assert (Hmain : forall ty0, wf D (B + agg_e e) ty0 = true ->
      post (chk_is c0 (fun te : texpr => td te <= S f))
        (do rc <- mapM_st (fun (st0 : cstate) (pc : upattern * xexpr) =>
                    do rp <- check_pattern D (env_push (st_env st0)) (fst pc) ty0;
                    do re <- check_expr f D (with_env st0 (snd rp)) (snd pc);
                    COk ((fst rp, fst re), with_env (snd re) (env_pop (st_env (snd re))))) (snd rs) arms;
         match fst rc with
         | [] => CErr E_Panic
         | (_, first) :: _ =>
             do clauses' <- mapM (fun pc : tpattern * texpr =>
                  if negb (cty_eqb (pick_elem_ty (ty_of first) (map (fun pc0 : tpattern * texpr => ty_of (snd pc0)) (fst rc))) (ty_of (snd pc)))
                  then match pick_elem_ty (ty_of first) (map (fun pc0 : tpattern * texpr => ty_of (snd pc0)) (fst rc)) with
                       | CUnsigned expected => do x <- coc_unsigned_deep f (snd pc) expected; COk (fst pc, x)
                       | CSigned expected => do x <- coc_signed_deep f (snd pc) expected; COk (fst pc, x)
                       | _ => CErr E_UnexpectedType
                       end
                  else COk pc) (fst rc);
             do _ <- check_exhaustiveness intern D (map fst clauses') ty0;
             COk (TE (TMatch (fst rs) clauses') (pick_elem_ty (ty_of first) (map (fun pc0 : tpattern * texpr => ty_of (snd pc0)) (fst rc))), snd rc)
         end)).
    { intros ty0 Hty0.
      eapply (post_bind (chkI c0 (SInv (B + agg_e e)) (Forall (fun pc : tpattern * texpr => td (snd pc) <= f /\ from_check D ty0 (fst pc))))).
      { eapply post_mapM_stI; [|exact Hrs1|exact HSs']. intros st0 pc Hin Hst0 HS0. cbv beta.
        eapply post_bind; [apply post_self; apply np_check_pattern|]. intros rp Hrp.
        assert (HSa : SInv (B + agg_e e) (with_env st0 (snd rp))).
        { destruct HS0 as (H1 & H2 & H3). split; [exact H1|]. split; [|exact H3]. cbn [with_env st_env].
          exact (check_pattern_wf D (fst pc) _ _ _ _ Hty0 (env_all_push D _ _ H2) Hrp). }
        assert (Hba : B + agg_e e + agg_e (snd pc) <= 64).
        { pose proof (in_list_sum (fun a : upattern * xexpr => agg_e (snd a)) arms pc Hin) as Hs. cbv beta in Hs. cbn [agg_e] in Hb. lia. }
        eapply post_bind; [eapply (IHe c0 k (B + agg_e e)); [exact (proj1 (forallb_forall _ _) Hn2 pc Hin)|exact HSa|exact Hba|chk|exact Hk|bound]|].
        intros re ((Hre1 & Hre2) & _ & (H1 & H2 & H3)).
        cbn [post]. split; [chk|]. split.
        - split; [exact H1|]. split; [|exact H3]. cbn [snd with_env st_env]. change env_pop with (@tl cscope). apply env_all_tl. exact H2.
        - cbn [fst snd]. split; [exact Hre2|]. destruct rp as [tp g1]. cbn [fst]. eexists _, _, _. exact Hrp. }
      intros rc (Hrc1 & _ & Hrc2). destruct (fst rc) as [|[p0 first] rc'] eqn:Erc; [exact I|]. rewrite <- Erc in Hrc2 |- *.
      eapply (post_bind (Forall (fun pc : tpattern * texpr => td (snd pc) <= f /\ from_check D ty0 (fst pc)))).
      { eapply (post_mapM _ (fun pc : tpattern * texpr => td (snd pc) <= f /\ from_check D ty0 (fst pc))); [|exact Hrc2].
        intros pc [Hpc Hfc]. destruct (negb _); [|split; assumption].
        destruct (pick_elem_ty _ _); try exact I.
        - eapply post_bind; [apply (post_coc_u_deep f f); [exact Hpc|lia]|]. intros x Hx. cbn [post fst snd]. cbv beta in *. split; [lia|exact Hfc].
        - eapply post_bind; [apply (post_coc_s_deep f f); [exact Hpc|lia]|]. intros x Hx. cbn [post fst snd]. cbv beta in *. split; [lia|exact Hfc]. }
      intros cl Hcl. eapply post_bind.
      { apply post_nf. apply (exh_wf _ ty0 (B + agg_e e) Hty0 Hb1). apply Forall_forall. intros tp Htp. apply in_map_iff in Htp. destruct Htp as [pc [<- Hpc]].
        rewrite Forall_forall in Hcl. exact (proj2 (Hcl _ Hpc)). }
      intros u _. cbn [post]. split; [chk|]. cbn [fst td].
      assert (Hcl2 : Forall (fun a : tpattern * texpr => td (snd a) <= f) cl) by (eapply Forall_impl; [|exact Hcl]; intros a [Ha _]; exact Ha).
      apply (proj2 (list_max_map_le (fun a : tpattern * texpr => td (snd a)) _ _)) in Hcl2. lia. }
    revert Hws. destruct (ty_of (fst rs)); intro Hws; try exact I; apply Hmain; exact Hws.
  - (* block *)
    rewrite (ann_e_block D B0) in Hn. rewrite agg_e_block in Hb.
    assert (HSp : SInv B (with_env st (env_push (st_env st)))).
    { destruct HS as (H1 & H2 & H3). split; [exact H1|]. split; [apply (env_all_push D); exact H2|exact H3]. }
    eapply post_bind; [eapply (IHb c0 k B); [exact Hn|exact HSp|exact Hb|chk|exact Hk|bound]|].
    intros [[body ty] st1] ((Hb1 & Hb2) & _). cbn [fst snd] in *. cbv beta iota zeta. cbn [post]. unfold chk_is. cbn [fst snd st_checking with_env].
    split; [exact Hb1|]. fin.
  - (* call *)
    eapply (post_bind (fun st1 : cstate => st_checking st1 = c0 /\ SInv B st1)).
    { destruct (negb _); [|split; [exact Hst|exact HS]]. destruct (find _ (d_fns D)) eqn:Ef; [|split; [exact Hst|exact HS]].
      destruct HS as (H1 & H2 & H3).
      eapply post_bind; [eapply (IHf c0 k); [exact H3|exact Hst|exact Hk|eapply find_In; exact Ef|bound]|].
      intros r (Hr & HT & Hw & Hev). cbn [post st_checking]. split; [exact Hr|].
      split; [exact H1|]. cbn [st_env st_typed]. split; [rewrite Hev; exact H2|]. constructor; [exact Hw|exact HT]. }
    intros st1 [Hst1 HS1]. pg ltac:(idtac; sub_post IHe c0 k f); fin.
Qed.

Ltac splitn := repeat match goal with H : _ && _ = true |- _ => apply andb_true_iff in H; destruct H end.

Definition WS (f : nat) : Prop := forall c0 k B st s, ann_s s = true -> SInv B st -> B + agg_s s <= 64 ->
  st_checking st = c0 -> cnt (d_fns D) c0 <= k -> sdx s + k * M <= f ->
  post (chk_is c0 (fun ts => tsd ts <= f)) (check_stmt f D st s).

Lemma weakS f : HE f -> HSS f -> WS (S f).
Proof.
  intros IHe IHss c0 k B st s Hn HS Hb Hst Hk Hf.
  remember s as s0 eqn:Es. destruct s as [p o e|x o e|x accs e|p e body|e]; rewrite Es in *; clear Es; cbn [Infer.check_stmt]; refold_goal.
  all: try solve [pg ltac:(idtac; sub_post IHe c0 k f); fin].
  - (* let *)
    cbn [InferFuel5.ann_s] in Hn. apply andb_true_iff in Hn. destruct Hn as [Hno Hne]. cbn [agg_s] in Hb.
    eapply post_bind; [eapply (IHe c0 k B); [exact Hne|exact HS|exact Hb|chk|exact Hk|bound]|].
    intros r ((Hr1 & Hr2) & Hw & HSr).
    eapply (post_bind (fun b' : texpr => td b' <= f /\ wf D (B + agg_e e) (ty_of b') = true)).
    { destruct o as [u|].
      - eapply post_bind; [apply post_self; apply np_concrete_of|]. intros ty' Hty'.
        eapply post_weaken; [apply post_strengthen; [eapply (post_check_type f f); [exact Hr2|lia]|intros a Ha; exact (check_type_ty _ _ _ _ Ha)]|].
        intros a [Ha1 Ha2]. cbv beta in Ha2. split; [exact Ha1|]. rewrite Ha2.
        cbn [ann_o] in Hno. unfold ann_t in Hno. rewrite Hty' in Hno. destruct HS as (H1 & _ & _). eapply wf_le; [|exact Hno]. lia.
      - cbn [post]. split; [exact Hr2|exact Hw]. }
    intros b' [Hb'1 Hb'2].
    eapply post_bind; [apply post_self; apply np_check_pattern|]. intros rp Hrp.
    eapply post_bind.
    { apply post_nf. apply (exh_wf _ _ (B + agg_e e) Hb'2 Hb). apply Forall_cons; [|apply Forall_nil].
      destruct rp as [tp g1]. cbn [fst]. eexists _, _, _. exact Hrp. }
    intros u0 _. cbn [post]. unfold chk_is. cbn [fst snd st_checking with_env]. split; [exact Hr1|]. cbn [tsd]. lia.
  - (* let mut *)
    cbn [InferFuel5.ann_s] in Hn. apply andb_true_iff in Hn. destruct Hn as [Hno Hne]. cbn [agg_s] in Hb.
    eapply post_bind; [eapply (IHe c0 k B); [exact Hne|exact HS|exact Hb|chk|exact Hk|bound]|].
    intros r ((Hr1 & Hr2) & _ & HSr).
    eapply (post_bind (fun b' : texpr => td b' <= f)).
    { destruct o; [|exact Hr2]. eapply post_bind; [nf_tac|]. intros ty' _. eapply (post_check_type f f); [exact Hr2|lia]. }
    intros b' Hb'. pg ltac:(idtac; sub_post IHe c0 k f); fin.
  - (* for *)
    rewrite (ann_s_for D B0) in Hn. apply andb_true_iff in Hn. destruct Hn as [Hne Hnb]. rewrite agg_s_for in Hb.
    assert (Hbe : B + agg_e e <= 64) by lia.
    cbv zeta. match goal with |- post _ (if ?c then _ else _) => destruct c; [exact I|] end.
    eapply post_bind; [eapply (IHe c0 k B); [exact Hne|exact HS|exact Hbe|chk|exact Hk|bound]|].
    intros r ((Hr1 & Hr2) & Hw & HSr).
    eapply post_bind; [apply post_self; apply np_expect_array_type|]. intros el Hel.
    assert (Hwel : wf D (B + agg_e e) el = true).
    { destruct (ty_of (fst r)); try discriminate Hel. inversion Hel; subst. exact (wf_arr D _ _ _ Hw). }
    eapply post_bind; [apply post_self; apply np_check_pattern|]. intros rp Hrp.
    eapply post_bind.
    { apply post_nf. apply (exh_wf _ _ (B + agg_e e) Hwel Hbe). apply Forall_cons; [|apply Forall_nil].
      destruct rp as [tp g1]. cbn [fst]. eexists _, _, _. exact Hrp. }
    intros u0 _.
    assert (HSb : SInv (B + agg_e e) (with_env (snd r) (snd rp))).
    { destruct HSr as (H1 & H2 & H3). split; [lia|]. split; [|exact H3]. cbn [with_env st_env].
      assert (H2' : env_all D (B + agg_e e) (st_env (snd r))) by (eapply env_all_le; [|exact H2]; lia).
      exact (check_pattern_wf D p _ _ _ _ Hwel (env_all_push D _ _ H2') Hrp). }
    eapply post_bind; [eapply (IHss c0 k (B + agg_e e)); [exact Hnb|exact HSb|lia|chk|exact Hk|bound]|].
    intros rb ((Hrb1 & Hrb2) & _). cbn [post]. unfold chk_is. cbn [fst snd st_checking with_env]. split; [exact Hrb1|]. fin.
Qed.

(* statement lists: the level of the environment grows along the list *)
Lemma stmts_post f : HS f -> forall b c0 k B st, forallb ann_s b = true -> SInv B st -> B + sumS b <= 64 ->
  st_checking st = c0 -> cnt (d_fns D) c0 <= k -> (forall x, In x b -> sdx x + k * M <= f) ->
  post (chk_is c0 (Forall (fun s => tsd s <= f))) (mapM_st (check_stmt f D) st b).
Proof.
  intro IHs. induction b as [|s b IH]; intros c0 k B st Hn HS Hb Hst Hk Hf; cbn [mapM_st].
  - split; [exact Hst|constructor].
  - cbn [forallb] in Hn. apply andb_true_iff in Hn. destruct Hn as [Hn1 Hn2]. rewrite sumS_cons in Hb.
    eapply post_bind; [eapply (IHs c0 k B); [exact Hn1|exact HS|lia|exact Hst|exact Hk|apply Hf; left; reflexivity]|].
    intros r1 ((H1 & Q1) & HS1 & _).
    eapply post_bind; [eapply (IH c0 k (B + agg_s s)); [exact Hn2|exact HS1|lia|exact H1|exact Hk|intros x Hx; apply Hf; right; exact Hx]|].
    intros r2 (H2 & Q2). split; [exact H2|constructor; assumption].
Qed.

Definition WF (f : nat) : Prop := forall c0 k st fd, typed_ok (st_typed st) -> st_checking st = c0 -> cnt (d_fns D) c0 <= k -> In fd (d_fns D) ->
  1 + k * M <= f -> post (fun r => st_checking (snd r) = c0) (check_fn f D st fd).

Lemma weakF f : HB f -> WF (S f).
Proof.
  intros IHb c0 k st fd HT Hst Hk Hin Hf. cbn [Infer.check_fn]. refold_goal.
  destruct (memL (uf_name fd) (st_checking st)) eqn:Em; [exact I|].
  pose proof (Hfns fd Hin) as Hann. unfold ann_fn in Hann. splitn.
  eapply post_bind; [apply post_self; apply np_params_loop|]. intros rp Hrp. cbv beta in Hrp.
  rewrite Hst in Em. pose proof (cnt_enter (d_fns D) c0 fd Hin Em) as Hcnt.
  destruct k as [|k']; [lia|].
  assert (Hfn : S (bdx (uf_body fd)) <= dmax (d_fns D)) by exact (in_list_max fneed (d_fns D) fd Hin).
  assert (HSb : SInv B0 (mkSt (snd rp) (st_typed st) (uf_name fd :: st_checking st))).
  { split; [lia|]. split; [|exact HT]. cbn [st_env]. eapply (params_wf D B0); [exact H| |exact Hrp].
    apply (env_all_push D). constructor; [constructor|constructor]. }
  eapply post_bind.
  { eapply (IHb (uf_name fd :: c0) k' B0); [exact H0|exact HSb|exact (Hbud fd Hin)|cbn [st_checking]; rewrite Hst; reflexivity|lia|].
    rewrite Nat.mul_succ_l in Hf. lia. }
  intros [[body ty] st1] ((Hb1 & Hb2) & _). cbn [fst snd] in *. cbv beta iota zeta.
  eapply post_bind; [nf_tac|]. intros ret_ty _.
  eapply (post_bind (fun _ : list tstmt => True)).
  { destruct (last (map Some body) None) as [[]|];
      try (destruct (negb _); [exact I|exact I]).
    eapply post_weaken; [eapply (post_map_last_expr _ f); [|exact Hb2]|auto].
    intros e1 He1. eapply (post_check_type f f); [exact He1|lia]. }
  intros body' _. cbn [post snd st_checking]. exact Hst.
Qed.

Theorem adequacy_all6 : forall f, HE f /\ HSS f /\ HB f /\ HS f /\ HF f.
Proof.
  induction f as [|f (IHe & IHss & IHb & IHs & IHf)].
  { split; [|split; [|split; [|split]]].
    - intros c0 k B st e _ _ _ _ _ H. pose proof (xd_pos e). lia.
    - intros c0 k B st b _ _ _ _ _ H. unfold bdx in *. lia.
    - intros c0 k B st b _ _ _ _ _ H. unfold bdx in *. lia.
    - intros c0 k B st s _ _ _ _ _ H. pose proof (sdx_pos s). lia.
    - intros c0 k st fd _ _ _ _ H. lia. }
  pose proof (depth_all D B0 intern HB0 Hconsts Hfns (S f)) as (DE & DSS & DB & DS & DF).
  split; [|split; [|split; [|split]]].
  - intros c0 k B st e Hn HS Hb Hst Hk Hf. apply post_strengthen.
    + exact (weakE f IHe IHb IHf c0 k B st e Hn HS Hb Hst Hk Hf).
    + intros a Ha. exact (DE B st e a Hn HS Ha).
  - intros c0 k B st b Hn HS Hb Hst Hk Hf. apply post_strengthen.
    + cbn [Infer.check_stmts]. refold_goal. unfold bdx in Hf.
      eapply post_weaken; [eapply (stmts_post f IHs b c0 k B st Hn HS Hb Hst Hk)|].
      * intros x Hx. pose proof (in_list_max sdx b x Hx). lia.
      * intros r [H1 H2]. split; [exact H1|]. eapply Forall_impl; [|exact H2]. intros a Ha. cbv beta in *. lia.
    + intros a Ha. exact (DSS B st b a Hn HS Ha).
  - intros c0 k B st b Hn HS Hb Hst Hk Hf. apply post_strengthen.
    + cbn [Infer.check_block]. refold_goal. unfold bdx in Hf.
      eapply post_bind; [eapply (stmts_post f IHs b c0 k B st Hn HS Hb Hst Hk)|].
      * intros x Hx. pose proof (in_list_max sdx b x Hx). lia.
      * intros r [H1 H2]. cbn [post fst snd]. split; [exact H1|]. eapply Forall_impl; [|exact H2]. intros a Ha. cbv beta in *. lia.
    + intros a Ha. exact (DB B st b a Hn HS Ha).
  - intros c0 k B st s Hn HS Hb Hst Hk Hf. apply post_strengthen.
    + exact (weakS f IHe IHss c0 k B st s Hn HS Hb Hst Hk Hf).
    + intros a Ha. exact (DS B st s a Hn HS Ha).
  - intros c0 k st fd HT Hst Hk Hin Hf. apply post_strengthen.
    + exact (weakF f IHb c0 k st fd HT Hst Hk Hin Hf).
    + intros a Ha. exact (DF st fd a Hin HT Ha).
Qed.

End Adequacy6.
Print Assumptions adequacy_all6.

(* ================================================================ whole programs *)
Section Terminates6.
Variable intern : list N -> N.
Hypothesis intern_inj : forall a b, intern a = intern b -> a = b.

Lemma post_pub_loop6 D B0 (HB0 : 1 <= B0)
    (Hconsts : forall x t, assocL x (d_consts D) = Some t -> wf D B0 t = true)
    (Hfns : forall fd, In fd (d_fns D) -> ann_fn D B0 fd = true)
    (Hbud : forall fd, In fd (d_fns D) -> B0 + sumS (uf_body fd) <= 64)
    (Hnd : defs_nodup D) fuel : 1 + length (d_fns D) * dmax (d_fns D) <= fuel ->
  forall fns st, (forall fd, In fd fns -> In fd (d_fns D)) -> st_checking st = [] -> typed_ok D B0 (st_typed st) ->
  post (fun _ : cstate => True)
    ((fix go (fns : list ufndef) (st : cstate) : cres cstate :=
        match fns with
        | [] => COk st
        | fd :: r =>
            if uf_pub fd then
              match uf_params fd with
              | [] => CErr E_PubFnWithoutParams
              | _ =>
                  do r1 <- check_fn intern fuel D st fd;
                  go r (mkSt (st_env (snd r1))
                             ((uf_name fd, fst r1) ::
                              filter (fun nd => negb (list_eqb (fst nd) (uf_name fd))) (st_typed (snd r1)))
                             (st_checking (snd r1)))
              end
            else go r st
        end) fns st).
Proof.
  intros Hfuel. induction fns as [|fd fns IH]; intros st Hsub Hst HT; [exact I|].
  destruct (uf_pub fd); [|apply IH; [intros; apply Hsub; right; assumption|exact Hst|exact HT]].
  destruct (uf_params fd); [exact I|].
  eapply post_bind.
  - eapply (proj2 (proj2 (proj2 (proj2 (adequacy_all6 intern intern_inj D B0 HB0 Hconsts Hfns Hbud Hnd fuel)))) [] (length (d_fns D)));
      [exact HT|exact Hst|rewrite cnt_nil; lia|apply Hsub; left; reflexivity|exact Hfuel].
  - intros r1 (Hr1 & HT1 & Hw & _). apply IH; [intros; apply Hsub; right; assumption|exact Hr1|].
    cbn [st_typed]. constructor; [exact Hw|]. apply Forall_forall. intros x Hx. apply filter_In in Hx. destruct Hx as [Hx _].
    unfold typed_ok in HT1. rewrite Forall_forall in HT1. exact (HT1 _ Hx).
Qed.

Theorem check_terminates_match P fuel :
  ty_depth_bound P <= 64 -> check_fuel_needed P <= fuel -> check_program_t intern fuel P <> CNoFuel.
Proof.
  intros Hbound Hfuel. apply (post_nofuel (fun _ => True)). unfold check_program_t.
  assert (Hnc : nf (check_consts (up_consts P) [])) by apply np_check_consts.
  destruct (check_consts (up_consts P) []) as [consts| | |] eqn:Ec; try exact I; [|discriminate Hnc].
  cbn [cbind].
  assert (Hns : nf (mapM (check_struct_def (map us_name (up_structs P)) (map ue_name (up_enums P))) (up_structs P)))
    by (apply np_mapM; intro; apply np_check_struct_def).
  assert (Hne : nf (mapM (check_enum_def (map us_name (up_structs P)) (map ue_name (up_enums P))) (up_enums P)))
    by (apply np_mapM; intro; apply np_check_enum_def).
  destruct (mapM (check_struct_def (map us_name (up_structs P)) (map ue_name (up_enums P))) (up_structs P)) as [structs| | |] eqn:Es;
    try exact I; [|discriminate Hns].
  cbn [cbind].
  destruct (mapM (check_enum_def (map us_name (up_structs P)) (map ue_name (up_enums P))) (up_enums P)) as [enums| | |] eqn:Ee;
    try exact I; [|discriminate Hne].
  cbn [cbind].
  set (field_tys := flat_map (fun sd => map snd (us_fields sd)) (up_structs P) ++
                    flat_map (fun ed => flat_map (fun v => match v with UVTuple _ ts => ts | UVUnit _ => [] end)
                                                 (ue_variants ed)) (up_enums P)).
  set (Dm := list_max (map utd field_tys)).
  assert (Hut : forall ut, In ut field_tys -> utd ut <= Dm) by (intros ut Hin; apply (in_list_max utd field_tys ut Hin)).
  assert (Dm_ok : forall name t, In t (field_types_of structs enums name) -> ctd t <= Dm).
  { intros name t Ht. unfold field_types_of in Ht. destruct (assocL name structs) as [def|] eqn:Ea.
    - apply assocL_In' in Ea. destruct (mapM_In' _ _ _ _ Es Ea) as [sd [Hsd Hc]].
      apply in_map_iff in Ht. destruct Ht as [ft [<- Hft]].
      eapply (struct_def_ctd _ _ _ _ Dm Hc); [|exact Hft].
      intros ut Hin. apply Hut. unfold field_tys. apply in_or_app. left. apply in_flat_map. exists sd. split; assumption.
    - destruct (assocL name enums) as [vs|] eqn:Eb; [|destruct Ht].
      apply assocL_In' in Eb. destruct (mapM_In' _ _ _ _ Ee Eb) as [ed [Hed Hc]].
      apply in_flat_map in Ht. destruct Ht as [[vn [ts|]] [Hv Ht]]; [|destruct Ht]. cbn [snd] in Ht.
      eapply (enum_def_ctd _ _ _ _ Dm Hc); [|exact Hv|exact Ht].
      intros v ut Hvin Hin. apply Hut. unfold field_tys. apply in_or_app. right.
      apply in_flat_map. exists ed. split; [exact Hed|]. apply in_flat_map. exists v. split; assumption. }
  eapply post_bind.
  { apply post_nf. apply np_mapM. intro name. apply np_bind; [|intros r _; destruct (fst r); reflexivity].
    eapply post_to_nf. eapply (ctd_adequate structs enums name Dm Dm_ok).
    unfold un. rewrite cnt_nil. unfold names. rewrite map_length, app_length, !map_length.
    rewrite (mapM_length _ _ _ Es), (mapM_length _ _ _ Ee).
    unfold check_fuel_needed, type_fuel_needed in Hfuel. fold field_tys in Hfuel. fold Dm in Hfuel.
    assert (Hc : ctd (match assocL name structs with Some _ => CStruct name | None => CEnum name end) = 1)
      by (destruct (assocL name structs); reflexivity).
    rewrite Hc. nia. }
  intros u _. cbv zeta.
  eapply post_bind.
  { match goal with |- context [check_fn intern fuel ?D0] => set (D := D0) end.
    assert (Hd : defs_of P = Some D) by (unfold defs_of; rewrite Ec, Es, Ee; reflexivity).
    destruct (ty_depth_bound_spec P D Hd Hbound) as (b & Hb1 & Hc & Hf & Hbud).
    assert (Hnd : defs_nodup D).
    { split; cbn [D d_structs d_enums].
      - intros sd Hin. destruct (mapM_In' _ _ _ _ Es Hin) as [usd [_ Hcd]]. exact (struct_def_nodup3 _ _ _ _ Hcd).
      - intros ed Hin. destruct (mapM_In' _ _ _ _ Ee Hin) as [ued [_ Hcd]]. exact (enum_def_nodup3 _ _ _ _ Hcd). }
    apply (post_pub_loop6 D b Hb1 Hc Hf Hbud Hnd fuel); [cbn [D d_fns]|intros fd H; exact H|reflexivity|constructor].
    unfold check_fuel_needed in Hfuel. lia. }
  intros st _. destruct (existsb _ _); exact I.
Qed.

End Terminates6.
Print Assumptions check_terminates_match.

From GV Require Check.InferExamples.
Module Fuel6Examples.
Import InferExamples.
(* programs with match within the bound: accepted at exactly check_fuel_needed *)
Example match_examples :
  ty_depth_bound P_s3 = 2 /\
  match check_program_t ex_intern (check_fuel_needed P_s3) P_s3 with COk _ => True | _ => False end.
Proof. vm_compute. split; [reflexivity|exact I]. Qed.
End Fuel6Examples.
