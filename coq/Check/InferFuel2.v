(* C07 for the type checker, continued: the fuel of the model is only a recursion device.
   Part 1: fuel MONOTONICITY (any answer other than CNoFuel is kept with more fuel).
   Part 2: fuel ADEQUACY (with [check_fuel_needed P] units the answer is never CNoFuel). *)
From Coq Require Import Lia Bool.
From GV Require Import Base.Util Front.Scan Front.ParseExpr Check.UAst Check.Infer Check.InferProofs
  Check.InferTotal Check.InferFuel.
Local Open Scope nat_scope.

(* ================================================================ Part 1: monotonicity *)

(* r' refines r: r ran out of fuel, or r' is the same answer *)
Definition le_res {A} (r r' : cres A) : Prop := r = CNoFuel \/ r' = r.

Lemma le_refl {A} (r : cres A) : le_res r r.
Proof. right. reflexivity. Qed.

Lemma le_trans {A} (a b c : cres A) : le_res a b -> le_res b c -> le_res a c.
Proof. intros [H1|H1] H; subst; [left; reflexivity|exact H]. Qed.

Lemma le_nofuel {A} (r : cres A) : le_res CNoFuel r.
Proof. left. reflexivity. Qed.

Lemma le_bind {A B} (r r' : cres A) (k k' : A -> cres B) :
  le_res r r' -> (forall a, le_res (k a) (k' a)) -> le_res (cbind r k) (cbind r' k').
Proof.
  intros [H1|H1] Hk; subst; [left; reflexivity|]. destruct r; cbn [cbind]; [apply Hk|right; reflexivity..].
Qed.

Lemma le_mapM {A B} (g g' : A -> cres B) : (forall x, le_res (g x) (g' x)) ->
  forall l, le_res (mapM g l) (mapM g' l).
Proof.
  intros H. induction l as [|x l IH]; cbn [mapM]; [apply le_refl|].
  apply le_bind; [apply H|]. intros ?. apply le_bind; [exact IH|]. intros ?. apply le_refl.
Qed.

Lemma le_zipM {A B} (g g' : A -> B -> cres A) : (forall x y, le_res (g x y) (g' x y)) ->
  forall xs ys, le_res (zipM g xs ys) (zipM g' xs ys).
Proof.
  intros H. induction xs as [|x xs IH]; intros ys; cbn [zipM]; [apply le_refl|]. destruct ys; [apply le_refl|].
  apply le_bind; [apply H|]. intros ?. apply le_bind; [apply IH|]. intros ?. apply le_refl.
Qed.

Lemma le_map_last_expr (g g' : texpr -> cres texpr) : (forall x, le_res (g x) (g' x)) ->
  forall b, le_res (map_last_expr g b) (map_last_expr g' b).
Proof.
  intros H. induction b as [|s b IH]; cbn [map_last_expr]; [apply le_refl|].
  destruct b as [|s2 b].
  - destruct s; try apply le_refl. apply le_bind; [apply H|]. intro. apply le_refl.
  - destruct s; (apply le_bind; [exact IH|]; intro; apply le_refl).
Qed.

Lemma le_mapM_st {S A B} (g g' : S -> A -> cres (B * S)) : (forall st x, le_res (g st x) (g' st x)) ->
  forall l st, le_res (mapM_st g st l) (mapM_st g' st l).
Proof.
  intros H. induction l as [|x l IH]; intro st; cbn [mapM_st]; [apply le_refl|].
  apply le_bind; [apply H|]. intros ?. apply le_bind; [apply IH|]. intros ?. apply le_refl.
Qed.

Ltac mono_core :=
  first
  [ apply le_refl
  | apply le_nofuel
  | apply le_bind; [|intro]
  | apply le_mapM; intro
  | apply le_zipM; intros
  | apply le_map_last_expr; intro
  | apply le_mapM_st; intros
  | match goal with |- le_res (match ?x with _ => _ end) (match ?x with _ => _ end) => destruct x end
  | match goal with |- le_res (if ?c then _ else _) (if ?c then _ else _) => destruct c end
  | progress cbv beta zeta ].

Lemma le_constrain_type : forall f e t, le_res (constrain_type f e t) (constrain_type (S f) e t).
Proof.
  induction f as [|f IH]; intros e t; [apply le_nofuel|].
  cbn [constrain_type]. repeat first [apply IH | mono_core].
Qed.

Lemma le_check_type f e t : le_res (check_type f e t) (check_type (S f) e t).
Proof. unfold check_type. repeat first [apply le_constrain_type | mono_core]. Qed.

Lemma le_coc_unsigned_deep f e t : le_res (coc_unsigned_deep f e t) (coc_unsigned_deep (S f) e t).
Proof. unfold coc_unsigned_deep. repeat first [apply le_constrain_type | mono_core]. Qed.
Lemma le_coc_signed_deep f e t : le_res (coc_signed_deep f e t) (coc_signed_deep (S f) e t).
Proof. unfold coc_signed_deep. repeat first [apply le_constrain_type | mono_core]. Qed.
Lemma le_unify f a b : le_res (unify f a b) (unify (S f) a b).
Proof. unfold unify. repeat first [apply le_coc_unsigned_deep | apply le_coc_signed_deep | mono_core]. Qed.

Lemma le_constrain_to_i32 : forall f b, le_res (constrain_to_i32 f b) (constrain_to_i32 (S f) b).
Proof.
  induction f as [|f IH]; intros b; [apply le_nofuel|].
  cbn [constrain_to_i32]. repeat first [apply IH | apply le_coc_signed_deep | mono_core].
Qed.

Lemma le_accs_loop ce ce' f D : (forall st x, le_res (ce st x) (ce' st x)) ->
  forall accs st t, le_res (accs_loop ce f D st t accs) (accs_loop ce' (S f) D st t accs).
Proof.
  intros H. induction accs as [|a accs IH]; intros st t; cbn [accs_loop]; [apply le_refl|].
  repeat first [apply H | apply IH | apply le_coc_unsigned_deep | mono_core].
Qed.

Lemma le_struct_lit_loop ce ce' f sd : (forall st x, le_res (ce st x) (ce' st x)) ->
  forall fields seen st, le_res (struct_lit_loop ce f sd seen st fields) (struct_lit_loop ce' (S f) sd seen st fields).
Proof.
  intros H. induction fields as [|[fname fv] fields IH]; intros seen st; cbn [struct_lit_loop]; [apply le_refl|].
  repeat first [apply H | apply IH | apply le_check_type | mono_core].
Qed.

Section Mono.
Variable intern : list N -> N.
Notation check_expr := (check_expr intern).
Notation check_stmt := (check_stmt intern).
Notation check_stmts := (check_stmts intern).
Notation check_block := (check_block intern).
Notation check_fn := (check_fn intern).

Ltac refold_goal :=
  fold (Infer.check_expr intern) (Infer.check_stmts intern) (Infer.check_block intern)
       (Infer.check_fn intern) (Infer.check_stmt intern).

Theorem le_check D : forall f,
  (forall st e, le_res (check_expr f D st e) (check_expr (S f) D st e)) /\
  (forall st b, le_res (check_stmts f D st b) (check_stmts (S f) D st b)) /\
  (forall st b, le_res (check_block f D st b) (check_block (S f) D st b)) /\
  (forall st s, le_res (check_stmt f D st s) (check_stmt (S f) D st s)) /\
  (forall st fd, le_res (check_fn f D st fd) (check_fn (S f) D st fd)).
Proof.
  induction f as [|f (IHe & IHss & IHb & IHs & IHf)].
  { repeat split; intros; apply le_nofuel. }
  split; [|split; [|split; [|split]]].
  - intros st e. destruct e; cbn [Infer.check_expr]; refold_goal;
      repeat first [ apply IHe | apply IHb | apply IHf | apply le_check_type | apply le_unify
                   | apply le_coc_unsigned_deep | apply le_coc_signed_deep
                   | apply le_struct_lit_loop; intros | apply le_accs_loop; intros | mono_core ].
  - intros st b. cbn [Infer.check_stmts]. refold_goal. repeat first [apply IHs | mono_core].
  - intros st b. cbn [Infer.check_block]. refold_goal. repeat first [apply IHs | mono_core].
  - intros st s. destruct s; cbn [Infer.check_stmt]; refold_goal;
      repeat first [ apply IHe | apply IHss | apply le_check_type | apply le_constrain_to_i32
                   | apply le_accs_loop; intros | mono_core ].
  - intros st fd. cbn [Infer.check_fn]. refold_goal.
      repeat first [ apply IHb | apply le_check_type | mono_core ].
Qed.
End Mono.

Lemma le_contains_type_def structs enums target : forall f visited ty,
  le_res (contains_type_def f structs enums target visited ty) (contains_type_def (S f) structs enums target visited ty).
Proof.
  induction f as [|f IH]; intros visited ty; [apply le_nofuel|].
  assert (Hany : forall tys visited0,
    le_res ((fix go (tys : list cty) (visited : list (list N)) : cres (bool * list (list N)) :=
               match tys with
               | [] => COk (false, visited)
               | t :: r => do r1 <- contains_type_def f structs enums target visited t;
                           if fst r1 then COk r1 else go r (snd r1)
               end) tys visited0)
           ((fix go (tys : list cty) (visited : list (list N)) : cres (bool * list (list N)) :=
               match tys with
               | [] => COk (false, visited)
               | t :: r => do r1 <- contains_type_def (S f) structs enums target visited t;
                           if fst r1 then COk r1 else go r (snd r1)
               end) tys visited0)).
  { induction tys as [|t tys IHt]; intro v0; [apply le_refl|].
    apply le_bind; [apply IH|]. intros r1. destruct (fst r1); [apply le_refl|apply IHt]. }
  cbn [contains_type_def]. destruct ty; try apply le_refl.
  - apply IH.
  - apply Hany.
  - destruct (memL name visited); [apply le_refl|apply Hany].
  - destruct (memL name visited); [apply le_refl|apply Hany].
Qed.

Section MonoProgram.
Variable intern : list N -> N.

Lemma le_pub_loop D f : forall fns st,
  le_res
    ((fix go (fns : list ufndef) (st : cstate) : cres cstate :=
        match fns with
        | [] => COk st
        | fd :: r =>
            if uf_pub fd then
              match uf_params fd with
              | [] => CErr E_PubFnWithoutParams
              | _ =>
                  do r1 <- check_fn intern f D st fd;
                  go r (mkSt (st_env (snd r1))
                             ((uf_name fd, fst r1) ::
                              filter (fun nd => negb (list_eqb (fst nd) (uf_name fd))) (st_typed (snd r1)))
                             (st_checking (snd r1)))
              end
            else go r st
        end) fns st)
    ((fix go (fns : list ufndef) (st : cstate) : cres cstate :=
        match fns with
        | [] => COk st
        | fd :: r =>
            if uf_pub fd then
              match uf_params fd with
              | [] => CErr E_PubFnWithoutParams
              | _ =>
                  do r1 <- check_fn intern (S f) D st fd;
                  go r (mkSt (st_env (snd r1))
                             ((uf_name fd, fst r1) ::
                              filter (fun nd => negb (list_eqb (fst nd) (uf_name fd))) (st_typed (snd r1)))
                             (st_checking (snd r1)))
              end
            else go r st
        end) fns st).
Proof.
  induction fns as [|fd fns IH]; intro st; [apply le_refl|].
  destruct (uf_pub fd); [|apply IH]. destruct (uf_params fd); [apply le_refl|].
  apply le_bind; [apply (proj2 (proj2 (proj2 (proj2 (le_check intern D f)))))|]. intros r1. apply IH.
Qed.

Lemma le_check_program_t f P : le_res (check_program_t intern f P) (check_program_t intern (S f) P).
Proof.
  unfold check_program_t.
  repeat first [ apply le_contains_type_def | apply le_pub_loop | mono_core ].
Qed.

Lemma le_check_program_t_le P : forall f f', f <= f' -> le_res (check_program_t intern f P) (check_program_t intern f' P).
Proof.
  induction 1 as [|f' Hle IH]; [apply le_refl|]. eapply le_trans; [exact IH|apply le_check_program_t].
Qed.

(* FUEL MONOTONICITY: an answer other than CNoFuel is kept with any larger fuel *)
Theorem check_program_t_mono f f' P r :
  check_program_t intern f P = r -> r <> CNoFuel -> f <= f' -> check_program_t intern f' P = r.
Proof.
  intros H Hr Hle. destruct (le_check_program_t_le P f f' Hle) as [E|E]; [congruence|]. rewrite E. exact H.
Qed.

Corollary check_program_mono f f' P r :
  check_program intern f P = r -> r <> CNoFuel -> f <= f' -> check_program intern f' P = r.
Proof.
  unfold check_program. intros H Hr Hle.
  destruct (check_program_t intern f P) as [T| | |] eqn:E; cbn [cbind] in H;
    try (rewrite (check_program_t_mono f f' P _ E ltac:(discriminate) Hle); exact H).
  congruence.
Qed.

(* the same for the components *)
Lemma le_check_le D : forall f f', f <= f' ->
  (forall st e, le_res (check_expr intern f D st e) (check_expr intern f' D st e)) /\
  (forall st fd, le_res (check_fn intern f D st fd) (check_fn intern f' D st fd)).
Proof.
  induction 1 as [|f' Hle [IH1 IH2]]; [split; intros; apply le_refl|].
  split; intros; (eapply le_trans; [apply IH1 || apply IH2|apply le_check]).
Qed.

End MonoProgram.

Print Assumptions le_check.
Print Assumptions check_program_t_mono.
Print Assumptions check_program_mono.

(* ================================================================ Part 2: adequacy *)

Section Adequacy.
Variable intern : list N -> N.
(* the exhaustiveness oracle does not run out of ITS OWN fuel (it does not depend on the checker's) *)
Hypothesis Hex : forall D ps ty, nf (check_exhaustiveness intern D ps ty).
Variable D : defs.
Notation M := (dmax (d_fns D)).
Notation check_expr := (check_expr intern).
Notation check_stmt := (check_stmt intern).
Notation check_stmts := (check_stmts intern).
Notation check_block := (check_block intern).
Notation check_fn := (check_fn intern).
Notation GE := (GoalE intern D).
Notation GSS := (GoalSS intern D).
Notation GB := (GoalB intern D).
Notation GS := (GoalS intern D).
Notation GF := (GoalF intern D).

Ltac refold_goal :=
  fold (Infer.check_expr intern) (Infer.check_stmts intern) (Infer.check_block intern)
       (Infer.check_fn intern) (Infer.check_stmt intern).

Ltac destr_and := cbv beta in *; unfold chk_is in *; cbn [fst snd st_checking with_env] in *;
  repeat match goal with H : _ /\ _ |- _ => destruct H end.

Lemma in_max_le {A} (g : A -> nat) l x n : In x l -> list_max (map g l) <= n -> g x <= n.
Proof. intros H Hn. pose proof (in_list_max g l x H). lia. Qed.

Lemma Forall_td_max (l : list texpr) n : Forall (fun e => td e <= n) l -> list_max (map td l) <= n.
Proof. intro H. apply list_max_map_le. exact H. Qed.

(* side conditions: fuel bounds *)
Ltac bound :=
  cbn [xd sdx adx] in *; unfold bdx in *;
  repeat match goal with
  | Hin : In ?x ?l |- _ =>
      match goal with
      | _ : context [list_max (map ?g l)] |- _ =>
          lazymatch goal with
          | _ : g x <= list_max (map g l) |- _ => fail
          | _ => pose proof (in_list_max g l x Hin)
          end
      end
  end;
  cbv beta in *; cbn [xd sdx adx fst snd] in *; lia.

Ltac chk := first [eassumption | cbn [st_checking with_env]; eassumption | reflexivity].


Lemma post_accs_loop ce fu c0 : forall accs,
  (forall st x, In (XAArray x) accs -> st_checking st = c0 -> post (chk_is c0 (fun te : texpr => td te <= fu)) (ce st x)) ->
  forall st t, st_checking st = c0 ->
  post (fun r : list taccessor * cty * cstate => st_checking (snd r) = c0) (accs_loop ce fu D st t accs).
Proof.
  induction accs as [|a accs IH]; intros Hce st t Hst; cbn [accs_loop]; [exact Hst|].
  eapply (post_bind (fun r : taccessor * cty * cstate => st_checking (snd r) = c0)).
  - destruct a.
    + eapply post_bind; [apply post_nf; apply np_expect_array_type|]. intros el _.
      eapply post_bind; [apply Hce; [left; reflexivity|exact Hst]|]. intros ri [Hri Hti].
      eapply post_bind; [apply (post_coc_u_deep fu fu); [exact Hti|lia]|]. intros i' _. exact Hri.
    + eapply post_bind; [apply post_nf; apply np_expect_tuple_type|]. intros vts _.
      destruct (nthN vts index); [exact Hst|exact I].
    + eapply post_bind; [apply post_nf; apply np_expect_struct_type|]. intros nm _.
      destruct (assocL nm (d_structs D)); [|exact I]. destruct (assocL field l); [exact Hst|exact I].
  - intros [[ta t'] st'] Hst'. cbn [snd] in Hst'.
    eapply post_bind; [apply IH; [intros; apply Hce; [right; assumption|assumption]|exact Hst']|].
    intros [[tas tf] st''] Hst''. exact Hst''.
Qed.

Lemma post_struct_lit_loop ce f c0 sd : forall fields,
  (forall st (fx : list N * xexpr), In fx fields -> st_checking st = c0 -> post (chk_is c0 (fun te : texpr => td te <= f)) (ce st (snd fx))) ->
  forall seen st, st_checking st = c0 ->
  post (fun r : list (list N * texpr) * cstate => st_checking (snd r) = c0) (struct_lit_loop ce f sd seen st fields).
Proof.
  induction fields as [|[fname fv] fields IH]; intros Hce seen st Hst; cbn [struct_lit_loop]; [exact Hst|].
  destruct (memL fname seen); [exact I|]. destruct (assocL fname sd); [|exact I].
  eapply post_bind; [apply (Hce st (fname, fv)); [left; reflexivity|exact Hst]|]. intros r1 [H1 Ht].
  eapply post_bind; [apply (post_check_type f f); [exact Ht|lia]|]. intros tf _.
  eapply post_bind; [apply IH; [intros; apply Hce; [right; assumption|assumption]|exact H1]|]. intros r2 H2. exact H2.
Qed.

Ltac nf_tac :=
  apply post_nf;
  first [ apply np_concrete_of | apply np_expect_array_type | apply np_expect_struct_type | apply np_expect_tuple_type
        | apply np_expect_num_type | apply np_expect_signed_num_type | apply np_expect_bool_or_num_type
        | apply np_check_pattern | apply Hex ].

Ltac sub_post IHe IHss IHb IHf c0 k f :=
  lazymatch goal with
  | |- post _ (Infer.check_expr _ _ _ _ _) => eapply (IHe c0 k); [chk | eassumption | bound]
  | |- post _ (mapM_st (Infer.check_expr _ _ _) _ _) =>
      eapply (post_mapM_st _ c0 (fun te => td te <= f));
        [intros ? ? ? ?; eapply (IHe c0 k); [eassumption | eassumption | bound] | chk]
  | |- post _ (Infer.check_block _ _ _ _ _) => eapply (IHb c0 k); [chk | eassumption | bound]
  | |- post _ (Infer.check_stmts _ _ _ _ _) => eapply (IHss c0 k); [chk | eassumption | bound]
  | |- post _ (check_type _ _ _) => eapply (post_check_type f f); [first [assumption | lia] | lia]
  | |- post _ (constrain_to_i32 _ _) => eapply (post_constrain_to_i32 f f); [first [assumption | lia] | lia]
  | |- post _ (mapM _ _) =>
      eapply (post_mapM _ (fun e => td e <= f) (fun e => td e <= f));
        [intros ? ?; eapply (post_check_type f f); [assumption | lia] | assumption]
  | |- post _ (zipM _ _ _) =>
      eapply (post_zipM _ (fun e => td e <= f));
        [intros ? ? ?; eapply (post_check_type f f); [assumption | lia] | assumption]
  | |- post _ (accs_loop _ _ _ _ _ _) =>
      eapply (post_accs_loop _ f c0);
        [intros ? ? ? ?; eapply (IHe c0 k); [eassumption | eassumption | bound] | chk]
  | |- post _ (struct_lit_loop _ _ _ _ _ _) =>
      eapply (post_struct_lit_loop _ f c0);
        [intros ? ? ? ?; eapply (IHe c0 k); [eassumption | eassumption | bound] | chk]
  | |- post _ (unify _ _ _) => eapply (post_unify f f); [first [assumption | lia] | first [assumption | lia] | lia]
  | |- post _ (coc_unsigned_deep _ _ _) => eapply (post_coc_u_deep f f); [first [assumption | lia] | lia]
  | |- post _ (coc_signed_deep _ _ _) => eapply (post_coc_s_deep f f); [first [assumption | lia] | lia]
  | |- post _ (check_or_constrain_unsigned _ _) => apply post_coc_u
  | |- post _ (check_or_constrain_signed _ _) => apply post_coc_s
  | |- _ => nf_tac
  end.

Ltac pg tac :=
  repeat (cbv beta zeta; lazymatch goal with
  | |- post _ (COk _) => cbn [post fst snd]; unfold chk_is; cbn [fst snd st_checking with_env]
  | |- post _ (CErr _) => exact I
  | |- post _ COutside => exact I
  | |- post _ (cbind _ _) => eapply post_bind; [tac | intros ? ?; destr_and]
  | |- post _ (if ?c then _ else _) => destruct c eqn:?
  | |- post _ (match ?x with _ => _ end) => destruct x eqn:?
  end).

Ltac fin :=
  repeat match goal with H : Forall (fun e => td e <= _) _ |- _ => apply Forall_td_max in H end;
  repeat match goal with H : Forall (fun s => tsd s <= _) _ |- _ => apply (proj2 (list_max_map_le tsd _ _)) in H end;
  try (split; [chk|]); cbn [td tsd fst snd] in *; try lia.

Lemma xd_pos e : 1 <= xd e.
Proof. destruct e; cbn [xd]; try lia. destruct args; lia. Qed.
Lemma sdx_pos s : 1 <= sdx s.
Proof. destruct s; cbn [sdx]; lia. Qed.

Theorem adequacy_all : forall f, GE f /\ GSS f /\ GB f /\ GS f /\ GF f.
Proof.
  induction f as [|f (IHe & IHss & IHb & IHs & IHf)].
  { split; [|split; [|split; [|split]]]; intros c0 k st x; intros.
    - pose proof (xd_pos x). lia.
    - unfold bdx in *. lia.
    - unfold bdx in *. lia.
    - pose proof (sdx_pos x). lia.
    - lia. }
  destruct (fuel_stmts intern D f IHs) as [HSS HB].
  split; [|split; [exact HSS|split; [exact HB|split]]].
  - (* expressions *)
    intros c0 k st e Hst Hk Hf. remember e as e0 eqn:Ee. destruct e; rewrite Ee in *; clear Ee; cbn [Infer.check_expr]; refold_goal.
    all: try solve [pg ltac:(idtac; sub_post IHe IHss IHb IHf c0 k f); fin].
    + (* match *)
      eapply post_bind; [sub_post IHe IHss IHb IHf c0 k f|]. intros rs [Hrs1 Hrs2].
      assert (Hmain : forall ty0,
        post (chk_is c0 (fun te : texpr => td te <= S f))
          (do rc <- mapM_st (fun (st0 : cstate) (pc : upattern * xexpr) =>
                      do rp <- check_pattern D (env_push (st_env st0)) (fst pc) ty0;
                      do re <- check_expr f D (with_env st0 (snd rp)) (snd pc);
                      COk ((fst rp, fst re), with_env (snd re) (env_pop (st_env (snd re))))) (snd rs) arms;
           match fst rc with
           | [] => CErr E_Panic
           | (_, first) :: _ =>
               do clauses' <- mapM (fun pc : tpattern * texpr =>
                    if negb (cty_eqb (pick_elem_ty (ty_of first) (map (fun pc0 : tpattern * texpr => ty_of (snd pc0)) (fst rc))) (ty_of (snd pc)))
                    then match pick_elem_ty (ty_of first) (map (fun pc0 : tpattern * texpr => ty_of (snd pc0)) (fst rc)) with
                         | CUnsigned expected => do x <- coc_unsigned_deep f (snd pc) expected; COk (fst pc, x)
                         | CSigned expected => do x <- coc_signed_deep f (snd pc) expected; COk (fst pc, x)
                         | _ => CErr E_UnexpectedType
                         end
                    else COk pc) (fst rc);
               do _ <- check_exhaustiveness intern D (map fst clauses') ty0;
               COk (TE (TMatch (fst rs) clauses') (pick_elem_ty (ty_of first) (map (fun pc0 : tpattern * texpr => ty_of (snd pc0)) (fst rc))), snd rc)
           end)).
      { intro ty0.
        eapply (post_bind (chk_is c0 (Forall (fun pc : tpattern * texpr => td (snd pc) <= f)))).
        { eapply post_mapM_st; [|exact Hrs1]. intros st0 pc Hin Hst0. cbv beta.
          eapply post_bind; [nf_tac|]. intros rp _.
          eapply post_bind; [eapply (IHe c0 k); [chk|exact Hk|bound]|]. intros re [Hre1 Hre2].
          cbn [post]. split; [chk|exact Hre2]. }
        intros rc [Hrc1 Hrc2]. destruct (fst rc) as [|[p0 first] rc'] eqn:Erc; [exact I|]. rewrite <- Erc in Hrc2 |- *.
        eapply (post_bind (Forall (fun pc : tpattern * texpr => td (snd pc) <= f))).
        { eapply (post_mapM _ (fun pc : tpattern * texpr => td (snd pc) <= f)); [|exact Hrc2].
          intros pc Hpc. destruct (negb _); [|exact Hpc].
          destruct (pick_elem_ty _ _); try exact I.
          - eapply post_bind; [apply (post_coc_u_deep f f); [exact Hpc|lia]|]. intros x Hx. cbn [post snd]. cbv beta in *. lia.
          - eapply post_bind; [apply (post_coc_s_deep f f); [exact Hpc|lia]|]. intros x Hx. cbn [post snd]. cbv beta in *. lia. }
        intros cl Hcl. eapply post_bind; [nf_tac|]. intros u _. cbn [post]. split; [chk|]. cbn [fst td].
        apply (proj2 (list_max_map_le (fun a : tpattern * texpr => td (snd a)) _ _)) in Hcl. lia. }
      destruct (ty_of (fst rs)); try exact I; apply Hmain.
    + (* call *)
      eapply (post_bind (fun st1 : cstate => st_checking st1 = c0)).
      { destruct (negb _); [|exact Hst]. destruct (find _ (d_fns D)) eqn:Ef; [|exact Hst].
        eapply post_bind; [eapply (IHf c0 k); [exact Hst|exact Hk|eapply find_In; exact Ef|bound]|].
        intros r Hr. cbn [post st_checking]. exact Hr. }
      intros st1 Hst1. pg ltac:(idtac; sub_post IHe IHss IHb IHf c0 k f); fin.
  - (* statements *)
    intros c0 k st s Hst Hk Hf. remember s as s0 eqn:Es. destruct s; rewrite Es in *; clear Es; cbn [Infer.check_stmt]; refold_goal.
    all: try solve [pg ltac:(idtac; sub_post IHe IHss IHb IHf c0 k f); fin].
    + (* let *)
      eapply post_bind; [sub_post IHe IHss IHb IHf c0 k f|]. intros r [Hr1 Hr2].
      eapply (post_bind (fun b' : texpr => td b' <= f)).
      { destruct ty; [|exact Hr2]. eapply post_bind; [nf_tac|]. intros ty' _. eapply (post_check_type f f); [exact Hr2|lia]. }
      intros b' Hb'. pg ltac:(idtac; sub_post IHe IHss IHb IHf c0 k f); fin.
    + (* let mut *)
      eapply post_bind; [sub_post IHe IHss IHb IHf c0 k f|]. intros r [Hr1 Hr2].
      eapply (post_bind (fun b' : texpr => td b' <= f)).
      { destruct ty; [|exact Hr2]. eapply post_bind; [nf_tac|]. intros ty' _. eapply (post_check_type f f); [exact Hr2|lia]. }
      intros b' Hb'. pg ltac:(idtac; sub_post IHe IHss IHb IHf c0 k f); fin.
  - (* functions *)
    intros c0 k st fd Hst Hk Hin Hf. cbn [Infer.check_fn]. refold_goal.
    destruct (memL (uf_name fd) (st_checking st)) eqn:Em; [exact I|].
    eapply post_bind; [apply post_nf; apply np_params_loop|]. intros rp _.
    rewrite Hst in Em. pose proof (cnt_enter (d_fns D) c0 fd Hin Em) as Hcnt.
    destruct k as [|k']; [lia|].
    assert (Hfn : S (bdx (uf_body fd)) <= dmax (d_fns D)) by exact (in_list_max fneed (d_fns D) fd Hin).
    eapply post_bind.
    { eapply (IHb (uf_name fd :: c0) k'); [cbn [st_checking]; rewrite Hst; reflexivity|lia|].
      rewrite Nat.mul_succ_l in Hf. lia. }
    intros [[body ty] st1] [Hb1 Hb2]. cbn [fst snd] in *. cbv beta iota zeta.
    eapply post_bind; [nf_tac|]. intros ret_ty _.
    eapply (post_bind (fun _ : list tstmt => True)).
    { destruct (last (map Some body) None) as [[]|];
        try (destruct (negb _); [exact I|exact I]).
      eapply post_weaken; [eapply (post_map_last_expr _ f); [|exact Hb2]|auto].
      intros e1 He1. eapply (post_check_type f f); [exact He1|lia]. }
    intros body' _. cbn [post snd st_checking]. exact Hst.
Qed.

End Adequacy.

(* ================================================================ whole programs *)

Section AdequacyProgram.
Variable intern : list N -> N.
Hypothesis Hex : forall D ps ty, nf (check_exhaustiveness intern D ps ty).

Lemma cnt_nil fns : cnt fns [] = length fns.
Proof. unfold cnt. induction fns as [|a l IH]; [reflexivity|]. cbn [filter]. unfold memL at 1. cbn [existsb negb length]. f_equal. exact IH. Qed.

Lemma post_pub_loop D fuel : 1 + length (d_fns D) * dmax (d_fns D) <= fuel ->
  forall fns st, (forall fd, In fd fns -> In fd (d_fns D)) -> st_checking st = [] ->
  post (fun _ : cstate => True)
    ((fix go (fns : list ufndef) (st : cstate) : cres cstate :=
        match fns with
        | [] => COk st
        | fd :: r =>
            if uf_pub fd then
              match uf_params fd with
              | [] => CErr E_PubFnWithoutParams
              | _ =>
                  do r1 <- check_fn intern fuel D st fd;
                  go r (mkSt (st_env (snd r1))
                             ((uf_name fd, fst r1) ::
                              filter (fun nd => negb (list_eqb (fst nd) (uf_name fd))) (st_typed (snd r1)))
                             (st_checking (snd r1)))
              end
            else go r st
        end) fns st).
Proof.
  intros Hfuel. induction fns as [|fd fns IH]; intros st Hsub Hst; [exact I|].
  destruct (uf_pub fd); [|apply IH; [intros; apply Hsub; right; assumption|exact Hst]].
  destruct (uf_params fd); [exact I|].
  eapply post_bind.
  - eapply (proj2 (proj2 (proj2 (proj2 (adequacy_all intern Hex D fuel)))) [] (length (d_fns D)));
      [exact Hst|rewrite cnt_nil; lia|apply Hsub; left; reflexivity|exact Hfuel].
  - intros r1 Hr1. apply IH; [intros; apply Hsub; right; assumption|exact Hr1].
Qed.

(* FUEL ADEQUACY, up to the recursion check of the type definitions *)
Theorem adequacy_program_gen P fuel :
  check_fuel_needed P <= fuel ->
  (forall structs enums name ty, nf (contains_type_def fuel structs enums name [] ty)) ->
  check_program_t intern fuel P <> CNoFuel.
Proof.
  intros Hfuel Htd. apply (post_nofuel (fun _ => True)). unfold check_program_t.
  eapply post_bind; [apply post_nf; apply np_check_consts|]. intros consts _.
  eapply post_bind; [apply post_nf; apply np_mapM; intro; apply np_check_struct_def|]. intros structs _.
  eapply post_bind; [apply post_nf; apply np_mapM; intro; apply np_check_enum_def|]. intros enums _.
  eapply post_bind.
  { apply post_nf. apply np_mapM. intro name. apply np_bind; [apply Htd|]. intros r _. destruct (fst r); reflexivity. }
  intros u _. cbv zeta.
  eapply post_bind.
  { apply post_pub_loop; [|intros fd H; exact H|reflexivity]. cbn [d_fns].
    unfold check_fuel_needed in Hfuel. lia. }
  intros st _. destruct (existsb _ _); exact I.
Qed.

(* programs without struct / enum definitions: unconditional (up to the exhaustiveness oracle) *)
Corollary adequacy_program_no_typedefs P fuel :
  up_structs P = [] -> up_enums P = [] -> check_fuel_needed P <= fuel ->
  check_program_t intern fuel P <> CNoFuel.
Proof.
  intros Hs He Hfuel. apply (post_nofuel (fun _ => True)). unfold check_program_t. rewrite Hs, He.
  eapply post_bind; [apply post_nf; apply np_check_consts|]. intros consts _.
  cbn [mapM map app cbind]. cbv zeta.
  eapply post_bind.
  { apply post_pub_loop; [|intros fd H; exact H|reflexivity]. cbn [d_fns].
    unfold check_fuel_needed in Hfuel. lia. }
  intros st _. destruct (existsb _ _); exact I.
Qed.

(* with (1) + (2): every sufficient fuel gives the answer computed with the bound *)
Corollary fuel_irrelevant_no_typedefs P fuel :
  up_structs P = [] -> up_enums P = [] -> check_fuel_needed P <= fuel ->
  check_program_t intern fuel P = check_program_t intern (check_fuel_needed P) P.
Proof.
  intros Hs He Hfuel.
  apply (check_program_t_mono intern (check_fuel_needed P) fuel P _ eq_refl); [|exact Hfuel].
  apply adequacy_program_no_typedefs; auto.
Qed.

Corollary fuel_irrelevant_gen P fuel :
  (forall structs enums name ty, nf (contains_type_def (check_fuel_needed P) structs enums name [] ty)) ->
  check_fuel_needed P <= fuel ->
  check_program_t intern fuel P = check_program_t intern (check_fuel_needed P) P.
Proof.
  intros Htd Hfuel.
  apply (check_program_t_mono intern (check_fuel_needed P) fuel P _ eq_refl); [|exact Hfuel].
  apply adequacy_program_gen; auto.
Qed.

End AdequacyProgram.

Print Assumptions adequacy_all.
Print Assumptions adequacy_program_gen.
Print Assumptions adequacy_program_no_typedefs.
Print Assumptions fuel_irrelevant_no_typedefs.


(* ================================================================ contains_type_def *)

Lemma assocL_In' {A} (k : list N) (l : list (list N * A)) v : assocL k l = Some v -> In (k, v) l.
Proof.
  induction l as [|[k' v'] l IH]; [discriminate|]. cbn [assocL]. destruct (list_eqb k k') eqn:E.
  - intro H. inversion H; subst. apply list_eqb_eq in E. subst. left. reflexivity.
  - intro H. right. auto.
Qed.

Section TypeDefs.
Variable structs : list (list N * list (list N * cty)).
Variable enums : list (list N * list (list N * option (list cty))).
Variable target : list N.

Fixpoint ctd (t : cty) : nat :=
  match t with
  | CArray e _ => S (ctd e)
  | CTuple ts => S (list_max (map ctd ts))
  | _ => 1
  end.

Definition field_types_of (name : list N) : list cty :=
  match assocL name structs with
  | Some def => map snd def
  | None =>
      match assocL name enums with
      | Some vs => flat_map (fun v : list N * option (list cty) => match snd v with Some ts => ts | None => [] end) vs
      | None => []
      end
  end.

(* the named types, as dummy function definitions so that [cnt] / [cnt_enter] of InferFuel.v apply *)
Definition dummy (n : list N) : ufndef := mkUFn false n UTBool [] [].
Definition names : list ufndef := map dummy (map fst structs ++ map fst enums).
Definition un (visited : list (list N)) : nat := cnt names visited.

(* a bound on the depth of every field type *)
Variable Dm : nat.
Hypothesis Dm_ok : forall name t, In t (field_types_of name) -> ctd t <= Dm.

Definition sub_visited (v v' : list (list N)) : Prop := forall x, memL x v = true -> memL x v' = true.

Lemma un_mono v v' : sub_visited v v' -> un v' <= un v.
Proof.
  intro H. unfold un, cnt. apply filter_length_le. intros x Hx. apply negb_true_iff in Hx. apply negb_true_iff.
  destruct (memL (uf_name x) v) eqn:E; [|reflexivity]. rewrite (H _ E) in Hx. discriminate.
Qed.

Lemma defined_in_names name : field_types_of name <> [] -> In (dummy name) names.
Proof.
  unfold field_types_of, names. intro H. apply in_map. apply in_or_app.
  destruct (assocL name structs) eqn:Es.
  - left. apply assocL_In' in Es. change name with (fst (name, l)). apply in_map. exact Es.
  - destruct (assocL name enums) eqn:Ee; [|contradiction]. right.
    apply assocL_In' in Ee. change name with (fst (name, l)). apply in_map. exact Ee.
Qed.

Theorem ctd_adequate : forall f visited ty,
  ctd ty + un visited * S Dm <= f ->
  post (fun r => sub_visited visited (snd r)) (contains_type_def f structs enums target visited ty).
Proof.
  induction f as [|f IH]; intros visited ty Hf.
  { destruct ty; cbn [ctd] in Hf; lia. }
  assert (Hany : forall tys visited0 n, sub_visited visited visited0 -> (forall t, In t tys -> ctd t <= n) ->
            n + un visited0 * S Dm <= f ->
            post (fun r => sub_visited visited (snd r))
              ((fix go (tys : list cty) (visited : list (list N)) : cres (bool * list (list N)) :=
                  match tys with
                  | [] => COk (false, visited)
                  | t :: r => do r1 <- contains_type_def f structs enums target visited t;
                              if fst r1 then COk r1 else go r (snd r1)
                  end) tys visited0)).
  { induction tys as [|t tys IHt]; intros v0 n Hsub Hn Hb; [exact Hsub|].
    eapply post_bind; [apply IH; pose proof (Hn t (or_introl eq_refl)); lia|].
    intros r1 Hr1. cbv beta in Hr1.
    assert (Hs1 : sub_visited visited (snd r1)) by (intros x Hx; apply Hr1; apply Hsub; exact Hx).
    destruct (fst r1); [exact Hs1|].
    eapply IHt; [exact Hs1|intros; apply Hn; right; assumption|].
    pose proof (un_mono _ _ Hr1). nia. }
  cbn [contains_type_def]. destruct ty; try (intros x Hx; exact Hx).
  - (* array *) apply IH. cbn [ctd] in Hf. lia.
  - (* tuple *) eapply (Hany _ _ (list_max (map ctd ts))); [intros x Hx; exact Hx| |cbn [ctd] in Hf; lia].
    intros t Ht. apply (in_list_max ctd ts t Ht).
  - (* struct *)
    destruct (memL name visited) eqn:Em; [intros x Hx; exact Hx|]. cbv zeta.
    match goal with |- post _ (?g ?tys (name :: visited)) => change tys with (field_types_of name) end.
    assert (Hc : field_types_of name = [] \/ field_types_of name <> [])
      by (destruct (field_types_of name); [left; reflexivity|right; discriminate]).
    destruct Hc as [Hc|Hc].
    { rewrite Hc. cbn [post snd]. intros x Hx. rewrite memL_cons, Hx. apply orb_true_r. }
    assert (Hin : In (dummy name) names) by (apply defined_in_names; exact Hc).
    pose proof (cnt_enter names visited (dummy name) Hin Em) as Hlt. cbn [dummy uf_name] in Hlt. fold (un (name :: visited)) in Hlt. fold (un visited) in Hlt.
    eapply (Hany _ (name :: visited) Dm).
    + intros x Hx. rewrite memL_cons, Hx. apply orb_true_r.
    + intros t Ht. apply (Dm_ok name t Ht).
    + cbn [ctd] in Hf. nia.
  - (* enum *)
    destruct (memL name visited) eqn:Em; [intros x Hx; exact Hx|]. cbv zeta.
    match goal with |- post _ (?g ?tys (name :: visited)) => change tys with (field_types_of name) end.
    assert (Hc : field_types_of name = [] \/ field_types_of name <> [])
      by (destruct (field_types_of name); [left; reflexivity|right; discriminate]).
    destruct Hc as [Hc|Hc].
    { rewrite Hc. cbn [post snd]. intros x Hx. rewrite memL_cons, Hx. apply orb_true_r. }
    assert (Hin : In (dummy name) names) by (apply defined_in_names; exact Hc).
    pose proof (cnt_enter names visited (dummy name) Hin Em) as Hlt. cbn [dummy uf_name] in Hlt. fold (un (name :: visited)) in Hlt. fold (un visited) in Hlt.
    eapply (Hany _ (name :: visited) Dm).
    + intros x Hx. rewrite memL_cons, Hx. apply orb_true_r.
    + intros t Ht. apply (Dm_ok name t Ht).
    + cbn [ctd] in Hf. nia.
Qed.

End TypeDefs.
Print Assumptions ctd_adequate.

(* ================================================================ the type part of the bound *)

Lemma as_concrete_ctd sn en : forall t t', as_concrete_type sn en t = COk t' -> ctd t' <= utd t.
Proof.
  induction t using utype_ind'; intros t' HH; cbn [as_concrete_type] in HH; try discriminate HH.
  - inversion HH. cbn. lia.
  - inversion HH. cbn. lia.
  - inversion HH. cbn. lia.
  - destruct (memL s sn); [inversion HH; cbn; lia|]. destruct (memL s en); inversion HH. cbn. lia.
  - apply cbind_ok in HH. destruct HH as [ts' [Hts HH]]. inversion HH; subst; clear HH. cbn [ctd utd].
    apply le_n_S. revert ts' Hts. induction H as [|x xs Hx Hxs IH]; intros ts' Hts.
    + inversion Hts. cbn. lia.
    + apply cbind_ok in Hts. destruct Hts as [x' [Hx' Hts]]. apply cbind_ok in Hts. destruct Hts as [r' [Hr' Hts]].
      inversion Hts; subst; clear Hts. pose proof (Hx _ Hx'). pose proof (IH _ Hr'). unfold list_max in *. cbn [map fold_right] in *. lia.
  - apply cbind_ok in HH. destruct HH as [e' [He HH]]. inversion HH; subst. cbn [ctd utd]. pose proof (IHt _ He). lia.
Qed.

Lemma mapM_In' {A B} (g : A -> cres B) : forall l l' y, mapM g l = COk l' -> In y l' -> exists x, In x l /\ g x = COk y.
Proof.
  induction l as [|a l IH]; intros l' y H Hy; cbn [mapM] in H.
  - inversion H; subst. destruct Hy.
  - apply cbind_ok in H. destruct H as [x [Hx H]]. apply cbind_ok in H. destruct H as [r [Hr H]]. inversion H; subst.
    destruct Hy as [<-|Hy]; [exists a; split; [left; reflexivity|exact Hx]|].
    destruct (IH _ _ Hr Hy) as [x0 [Hin Hg]]. exists x0. split; [right; exact Hin|exact Hg].
Qed.

Lemma mapM_length {A B} (g : A -> cres B) : forall l l', mapM g l = COk l' -> length l' = length l.
Proof.
  induction l as [|a l IH]; intros l' H; cbn [mapM] in H; [inversion H; reflexivity|].
  apply cbind_ok in H. destruct H as [x [Hx H]]. apply cbind_ok in H. destruct H as [r [Hr H]]. inversion H; subst.
  cbn [length]. rewrite (IH _ Hr). reflexivity.
Qed.

Lemma struct_def_ctd sn en sd r n : check_struct_def sn en sd = COk r ->
  (forall ut, In ut (map snd (us_fields sd)) -> utd ut <= n) -> forall ft, In ft (snd r) -> ctd (snd ft) <= n.
Proof.
  unfold check_struct_def. intros H Hn. apply cbind_ok in H. destruct H as [fields [Hf H]]. inversion H; subst; clear H. cbn [snd].
  revert fields Hf Hn. generalize (@nil (list N)). induction (us_fields sd) as [|[nm ty] fs IH]; intros seen fields Hf Hn ft Hft.
  - inversion Hf; subst. destruct Hft.
  - destruct (memL nm seen); [discriminate|]. apply cbind_ok in Hf. destruct Hf as [ty' [Hty Hf]].
    apply cbind_ok in Hf. destruct Hf as [r' [Hr Hf]]. inversion Hf; subst; clear Hf.
    destruct Hft as [<-|Hft].
    + cbn [snd]. pose proof (as_concrete_ctd _ _ _ _ Hty). pose proof (Hn ty (or_introl eq_refl)). lia.
    + eapply IH; [exact Hr|intros; apply Hn; right; assumption|exact Hft].
Qed.

Lemma mapM_ctd sn en n : forall tys tys', mapM (as_concrete_type sn en) tys = COk tys' ->
  (forall ut, In ut tys -> utd ut <= n) -> forall t, In t tys' -> ctd t <= n.
Proof.
  intros tys tys' H Hn t Ht. destruct (mapM_In' _ _ _ _ H Ht) as [ut [Hin Hc]].
  pose proof (as_concrete_ctd _ _ _ _ Hc). pose proof (Hn _ Hin). lia.
Qed.

Lemma enum_def_ctd sn en ed r n : check_enum_def sn en ed = COk r ->
  (forall v ut, In v (ue_variants ed) -> In ut (match v with UVTuple _ ts => ts | UVUnit _ => [] end) -> utd ut <= n) ->
  forall v ts t, In (v, Some ts) (snd r) -> In t ts -> ctd t <= n.
Proof.
  unfold check_enum_def. intros H Hn. apply cbind_ok in H. destruct H as [variants [Hv H]]. inversion H; subst; clear H. cbn [snd].
  revert variants Hv Hn. generalize (@nil (list N)). induction (ue_variants ed) as [|v vs IH]; intros seen variants Hv Hn v0 ts t Hin Ht.
  - inversion Hv; subst. destruct Hin.
  - destruct (memL (variant_name v) seen); [discriminate|]. apply cbind_ok in Hv. destruct Hv as [v' [Hv' Hv]].
    apply cbind_ok in Hv. destruct Hv as [r' [Hr Hv]]. inversion Hv; subst; clear Hv.
    destruct Hin as [Heq|Hin]; [|eapply IH; [exact Hr|intros; eapply Hn; [right; eassumption|eassumption]|exact Hin|exact Ht]].
    rewrite Heq in Hv'. destruct v as [nm|nm tys]; [discriminate Hv'|].
    apply cbind_ok in Hv'. destruct Hv' as [tys' [Htys Hv']]. inversion Hv'; subst.
    eapply mapM_ctd; [exact Htys| |exact Ht]. intros ut Hut. eapply (Hn _ ut); [left; reflexivity|cbn; exact Hut].
Qed.

Lemma post_to_nf {A} (Q : A -> Prop) (r : cres A) : post Q r -> nf r.
Proof. destruct r; cbn [post]; intro H; try reflexivity; [apply andb_false_r|destruct H]. Qed.

Section AdequacyFinal.
Variable intern : list N -> N.
Hypothesis Hex : forall D ps ty, nf (check_exhaustiveness intern D ps ty).

(* FUEL ADEQUACY: with [check_fuel_needed P] units of fuel the checker never answers CNoFuel
   (given that the exhaustiveness oracle does not run out of its own, separate, fuel) *)
Theorem adequacy_program P fuel : check_fuel_needed P <= fuel -> check_program_t intern fuel P <> CNoFuel.
Proof.
  intros Hfuel. apply (post_nofuel (fun _ => True)). unfold check_program_t.
  eapply post_bind; [apply post_nf; apply np_check_consts|]. intros consts _.
  assert (Hns : nf (mapM (check_struct_def (map us_name (up_structs P)) (map ue_name (up_enums P))) (up_structs P)))
    by (apply np_mapM; intro; apply np_check_struct_def).
  assert (Hne : nf (mapM (check_enum_def (map us_name (up_structs P)) (map ue_name (up_enums P))) (up_enums P)))
    by (apply np_mapM; intro; apply np_check_enum_def).
  destruct (mapM (check_struct_def (map us_name (up_structs P)) (map ue_name (up_enums P))) (up_structs P)) as [structs| | |] eqn:Es;
    try exact I; [|discriminate Hns].
  cbn [cbind].
  destruct (mapM (check_enum_def (map us_name (up_structs P)) (map ue_name (up_enums P))) (up_enums P)) as [enums| | |] eqn:Ee;
    try exact I; [|discriminate Hne].
  cbn [cbind].
  set (field_tys := flat_map (fun sd => map snd (us_fields sd)) (up_structs P) ++
                    flat_map (fun ed => flat_map (fun v => match v with UVTuple _ ts => ts | UVUnit _ => [] end)
                                                 (ue_variants ed)) (up_enums P)).
  set (Dm := list_max (map utd field_tys)).
  assert (Hut : forall ut, In ut field_tys -> utd ut <= Dm) by (intros ut Hin; apply (in_list_max utd field_tys ut Hin)).
  assert (Dm_ok : forall name t, In t (field_types_of structs enums name) -> ctd t <= Dm).
  { intros name t Ht. unfold field_types_of in Ht. destruct (assocL name structs) as [def|] eqn:Ea.
    - apply assocL_In' in Ea. destruct (mapM_In' _ _ _ _ Es Ea) as [sd [Hsd Hc]].
      apply in_map_iff in Ht. destruct Ht as [ft [<- Hft]].
      eapply (struct_def_ctd _ _ _ _ Dm Hc); [|exact Hft].
      intros ut Hin. apply Hut. unfold field_tys. apply in_or_app. left. apply in_flat_map. exists sd. split; assumption.
    - destruct (assocL name enums) as [vs|] eqn:Eb; [|destruct Ht].
      apply assocL_In' in Eb. destruct (mapM_In' _ _ _ _ Ee Eb) as [ed [Hed Hc]].
      apply in_flat_map in Ht. destruct Ht as [[vn [ts|]] [Hv Ht]]; [|destruct Ht]. cbn [snd] in Ht.
      eapply (enum_def_ctd _ _ _ _ Dm Hc); [|exact Hv|exact Ht].
      intros v ut Hvin Hin. apply Hut. unfold field_tys. apply in_or_app. right.
      apply in_flat_map. exists ed. split; [exact Hed|]. apply in_flat_map. exists v. split; assumption. }
  eapply post_bind.
  { apply post_nf. apply np_mapM. intro name. apply np_bind; [|intros r _; destruct (fst r); reflexivity].
    eapply post_to_nf. eapply (ctd_adequate structs enums name Dm Dm_ok).
    unfold un. rewrite cnt_nil. unfold names. rewrite map_length, app_length, !map_length.
    rewrite (mapM_length _ _ _ Es), (mapM_length _ _ _ Ee).
    unfold check_fuel_needed, type_fuel_needed in Hfuel. fold field_tys in Hfuel. fold Dm in Hfuel.
    assert (Hc : ctd (match assocL name structs with Some _ => CStruct name | None => CEnum name end) = 1)
      by (destruct (assocL name structs); reflexivity).
    rewrite Hc. nia. }
  intros u _. cbv zeta.
  eapply post_bind.
  { apply post_pub_loop; [exact Hex| |intros fd H; exact H|reflexivity]. cbn [d_fns].
    unfold check_fuel_needed in Hfuel. lia. }
  intros st _. destruct (existsb _ _); exact I.
Qed.

(* (1) + (2): every sufficient fuel gives the answer computed with the bound *)
Corollary fuel_irrelevant P fuel : check_fuel_needed P <= fuel ->
  check_program_t intern fuel P = check_program_t intern (check_fuel_needed P) P.
Proof.
  intro Hfuel. apply (check_program_t_mono intern (check_fuel_needed P) fuel P _ eq_refl); [|exact Hfuel].
  apply adequacy_program. lia.
Qed.

End AdequacyFinal.

Print Assumptions adequacy_program.
Print Assumptions fuel_irrelevant.
