(* THE ROUND TRIP OF Check/LitRoundTrip.v FOR VALUES OF THE TYPE, AND THROUGH THE TEXT.

   (1) [is_of_type_rt_ok]   a literal that `is_of_type` accepts at the (resolved) type of T, in a
                            printable form ([printable_value]: no empty array, the sign condition
                            on arrays of aggregates, ranges non-empty and of at most u32::MAX
                            elements), over definitions whose names are interned injectively
                            ([D_names_ok]) is in the class [rt_ok] of the round-trip theorem;
       [value_roundtrip]    hence: printing a value of the type and parsing the tokens back yields it;
       [from_bits_plain]    what the decoder produces contains no LRange / LRepeat spelling.
   (2) [literal_parse_tokens_unloc]  Literal::parse does not look at the token locations
                            (proved for the literal mode of the parser: parse_literal_text);
       [roundtrip_text]     rt_ok .. l T = true -> the printed tokens are printable ->
                            literal_parse intern D T (print_tokens (map kind (lit_tokens unintern l))) = COk l
                            (print_tokens separates the tokens by single spaces);
       [printable_tokens]   when the printed tokens are printable: automatic for the numbers of a
                            value of the type; names must be identifiers, repeat sizes <= u64::MAX,
                            range bounds within their suffix;
       [display_spacing]    examples: the text with the spacing of the real `Display` ([lit_text])
                            scans to the same token kinds. *)
From Coq Require Import ZArith List String Lia.
Import ListNotations.
From GV Require Import Base.Util Front.Scan Front.ScanPrint Front.ParseExpr Front.ParseTotal Check.UAst Check.Infer
  Check.InferProofs Check.LitParse Check.LitParseProofs Check.LitRoundTrip.
From GV Require Lang.Types Lang.Literal Lang.LiteralProofs.
Local Open Scope N_scope.

(* ------------------------------------------------------------------ (2a) the literal mode of the parser ignores locations *)

(* the same token kinds, the same flag *)
Definition seq (s s' : pstate) : Prop := map kind (toks s) = map kind (toks s') /\ sla s = sla s'.

Definition req {A} (r r' : pres A) : Prop :=
  match r, r' with
  | POk a s, POk a' s' => a = a' /\ seq s s'
  | PErr, PErr => True
  | PNoFuel, PNoFuel => True
  | POutside o, POutside o' => o = o'
  | _, _ => False
  end.

Lemma seq_inv s s' : seq s s' ->
  (toks s = [] /\ toks s' = []) \/
  (exists t m m' r r', toks s = Token t m :: r /\ toks s' = Token t m' :: r' /\
                       seq (PState r (sla s)) (PState r' (sla s'))).
Proof.
  intros [H1 H2]. destruct (toks s) as [|[t m] r] eqn:E1, (toks s') as [|[t' m'] r'] eqn:E2; try discriminate H1.
  - now left.
  - cbn [map kind] in H1. injection H1 as -> H1. right. exists t', m, m', r, r'. repeat split; auto.
Qed.

Lemma req_bind {A B} (m m' : pres A) (k k' : A -> pstate -> pres B) :
  req m m' -> (forall a s s', seq s s' -> req (k a s) (k' a s')) -> req (bindp m k) (bindp m' k').
Proof.
  destruct m, m'; cbn [req bindp]; try contradiction; auto.
  intros [-> Hs] H. now apply H.
Qed.

Lemma peek_seq t s s' : seq s s' -> peek t s = peek t s'.
Proof.
  intro H. unfold peek. destruct (seq_inv _ _ H) as [[-> ->]|(k & m & m' & r & r' & -> & -> & _)]; reflexivity.
Qed.

Lemma next_matches_seq t s s' : seq s s' ->
  match next_matches t s, next_matches t s' with
  | Some a, Some b => seq a b
  | None, None => True
  | _, _ => False
  end.
Proof.
  intro H. unfold next_matches. destruct (seq_inv _ _ H) as [[-> ->]|(k & m & m' & r & r' & -> & -> & Hr)]; [exact I|].
  destruct (teqb k t); [exact Hr|exact I].
Qed.

Lemma expect_seq {A} t s s' (k k' : pstate -> pres A) : seq s s' ->
  (forall a b, seq a b -> req (k a) (k' b)) -> req (expect t s k) (expect t s' k').
Proof.
  intros H Hk. unfold expect. pose proof (next_matches_seq t s s' H) as Hn.
  destruct (next_matches t s), (next_matches t s'); try contradiction; [now apply Hk|exact I].
Qed.

Lemma expect_identifier_seq {A} s s' (k k' : list N -> pstate -> pres A) : seq s s' ->
  (forall id a b, seq a b -> req (k id a) (k' id b)) -> req (expect_identifier s k) (expect_identifier s' k').
Proof.
  intros H Hk. unfold expect_identifier.
  destruct (seq_inv _ _ H) as [[-> ->]|(t & m & m' & r & r' & -> & -> & Hr)]; [exact I|].
  destruct t; try exact I. now apply Hk.
Qed.

Lemma advance_seq s s' : seq s s' ->
  match advance s, advance s' with
  | Some (t, a), Some (t', b) => t = t' /\ seq a b
  | None, None => True
  | _, _ => False
  end.
Proof.
  intro H. unfold advance. destruct (seq_inv _ _ H) as [[-> ->]|(t & m & m' & r & r' & -> & -> & Hr)]; [exact I|].
  split; [reflexivity|exact Hr].
Qed.

Definition pe_seq (pe : pstate -> pres uexpr) : Prop := forall s s', seq s s' -> req (pe s) (pe s').

Lemma seq_refl_ok {A} (a : A) s s' : seq s s' -> req (POk a s) (POk a s').
Proof. intro H. split; [reflexivity|exact H]. Qed.

Lemma comma_loop_seq pe close : pe_seq pe -> forall n acc s s', seq s s' ->
  req (comma_loop pe close n acc s) (comma_loop pe close n acc s').
Proof.
  intro Hpe. induction n as [|n IH]; intros acc s s' H; [exact I|]. cbn [comma_loop].
  pose proof (next_matches_seq TComma s s' H) as Hn.
  destruct (next_matches TComma s) as [a|], (next_matches TComma s') as [b|]; try contradiction.
  - rewrite (peek_seq close a b Hn). destruct (peek close b); [now apply seq_refl_ok|].
    apply req_bind; [now apply Hpe|]. intros e a1 b1 H1. now apply IH.
  - now apply seq_refl_ok.
Qed.

Lemma sep_loop_seq {A} (item : pstate -> pres A) close :
  (forall s s', seq s s' -> req (item s) (item s')) -> forall n acc s s', seq s s' ->
  req (sep_loop item close n acc s) (sep_loop item close n acc s').
Proof.
  intro Hi. induction n as [|n IH]; intros acc s s' H; [exact I|]. cbn [sep_loop].
  pose proof (next_matches_seq TComma s s' H) as Hn.
  destruct (next_matches TComma s) as [a|], (next_matches TComma s') as [b|]; try contradiction.
  - rewrite (peek_seq close a b Hn). destruct (peek close b); [now apply seq_refl_ok|].
    apply req_bind; [now apply Hi|]. intros e a1 b1 H1. now apply IH.
  - now apply seq_refl_ok.
Qed.

Lemma struct_field_seq olc pe : pe_seq pe -> forall s s', seq s s' ->
  req (struct_field olc pe s) (struct_field olc pe s').
Proof.
  intros Hpe s s' H. unfold struct_field. apply expect_identifier_seq; [exact H|].
  intros name a b Hab. rewrite (peek_seq TComma a b Hab), (peek_seq TRightBrace a b Hab).
  destruct (peek TComma b || peek TRightBrace b).
  - destruct olc; [exact I|now apply seq_refl_ok].
  - apply expect_seq; [exact Hab|]. intros a1 b1 H1. apply req_bind; [now apply Hpe|].
    intros v a2 b2 H2. now apply seq_refl_ok.
Qed.

Ltac nm_pair t s s' H a b Hab :=
  pose proof (next_matches_seq t s s' H) as Hab;
  destruct (next_matches t s) as [a|], (next_matches t s') as [b|]; try contradiction.

Lemma parse_literal_gen_seq olc pe : pe_seq pe -> forall n t s s', seq s s' ->
  req (parse_literal_gen olc pe n t s) (parse_literal_gen olc pe n t s').
Proof.
  intros Hpe n t s s' H. destruct t; cbn [parse_literal_gen]; try exact I.
  - (* identifier *)
    destruct (list_eqb s0 s_true); [now apply seq_refl_ok|].
    destruct (list_eqb s0 s_false); [now apply seq_refl_ok|].
    nm_pair TDoubleColon s s' H a b Hab.
    + apply expect_identifier_seq; [exact Hab|]. intros variant a2 b2 H2.
      nm_pair TLeftParen a2 b2 H2 a3 b3 H3.
      * apply req_bind.
        -- rewrite (peek_seq TRightParen a3 b3 H3). destruct (peek TRightParen b3); cbn [negb]; [now apply seq_refl_ok|].
           apply req_bind; [now apply Hpe|]. intros x a4 b4 H4. now apply comma_loop_seq.
        -- intros fields a4 b4 H4. apply expect_seq; [exact H4|]. intros a5 b5 H5. now apply seq_refl_ok.
      * now apply seq_refl_ok.
    + nm_pair TLeftBrace s s' H a1 b1 H1; [|exact I].
      destruct H as [_ Hsla]. rewrite <- Hsla. destruct (sla s); [|exact I].
      apply req_bind.
      * rewrite (peek_seq TRightBrace a1 b1 H1). destruct (peek TRightBrace b1); cbn [negb]; [now apply seq_refl_ok|].
        apply req_bind; [now apply struct_field_seq|]. intros f a2 b2 H2.
        apply sep_loop_seq; [|exact H2]. intros x y Hxy. now apply struct_field_seq.
      * intros fields a2 b2 H2. apply expect_seq; [exact H2|]. intros a3 b3 H3. now apply seq_refl_ok.
  - (* unsigned number / range *)
    nm_pair TDoubleDot s s' H a b Hab; [|now apply seq_refl_ok].
    destruct (seq_inv _ _ Hab) as [[-> ->]|(k & m & m' & r & r' & -> & -> & Hr)]; [exact I|].
    destruct k; try exact I. destruct (range_type t t0); [|exact I]. now apply seq_refl_ok.
  - (* signed number *) now apply seq_refl_ok.
  - (* ( *)
    rewrite (peek_seq TRightParen s s' H). destruct (peek TRightParen s'); cbn [negb].
    + apply expect_seq; [exact H|]. intros a b Hab. now apply seq_refl_ok.
    + apply req_bind; [now apply Hpe|]. intros e a b Hab.
      rewrite (peek_seq TComma a b Hab). destruct (peek TComma b).
      * apply req_bind; [now apply comma_loop_seq|]. intros fields a2 b2 H2.
        apply expect_seq; [exact H2|]. intros a3 b3 H3. now apply seq_refl_ok.
      * apply expect_seq; [exact Hab|]. intros a2 b2 H2. now apply seq_refl_ok.
  - (* [ *)
    apply req_bind; [now apply Hpe|]. intros elem a b Hab.
    rewrite (peek_seq TSemicolon a b Hab). destruct (peek TSemicolon b).
    + apply expect_seq; [exact Hab|]. intros a2 b2 H2.
      destruct (seq_inv _ _ H2) as [[-> ->]|(k & m & m' & r & r' & -> & -> & Hr)]; [exact I|].
      destruct H2 as [_ Hs2].
      destruct k; try exact I.
      * destruct olc; [exact I|]. rewrite <- Hs2 in *. apply expect_seq; [exact Hr|]. intros a3 b3 H3. now apply seq_refl_ok.
      * destruct t; try exact I; (apply expect_seq; [exact Hr|]; intros a3 b3 H3; now apply seq_refl_ok).
    + apply req_bind; [now apply comma_loop_seq|]. intros elems a2 b2 H2.
      apply expect_seq; [exact H2|]. intros a3 b3 H3. now apply seq_refl_ok.
Qed.

Lemma parse_literal_recursively_seq : forall n, pe_seq (parse_literal_recursively n).
Proof.
  induction n as [|n IH]; intros s s' H; [exact I|]. cbn [parse_literal_recursively].
  pose proof (advance_seq s s' H) as Ha.
  destruct (advance s) as [[t a]|], (advance s') as [[t' b]|]; try contradiction; [|exact I].
  destruct Ha as [<- Hab]. now apply parse_literal_gen_seq.
Qed.

Lemma seq_of_kinds ts ts' b : map kind ts = map kind ts' -> seq (PState ts b) (PState ts' b).
Proof. intro H. split; [exact H|reflexivity]. Qed.

Theorem parse_literal_text_unloc fuel ts ts' : map kind ts = map kind ts' ->
  req (parse_literal_text fuel ts) (parse_literal_text fuel ts').
Proof.
  intro H. unfold parse_literal_text.
  pose proof (advance_seq _ _ (seq_of_kinds ts ts' true H)) as Ha.
  destruct (advance (PState ts true)) as [[t a]|], (advance (PState ts' true)) as [[t' b]|]; try contradiction; [|exact I].
  destruct Ha as [<- Hab]. apply req_bind; [apply parse_literal_gen_seq; [apply parse_literal_recursively_seq|exact Hab]|].
  intros e a2 b2 H2. destruct (seq_inv _ _ H2) as [[-> ->]|(k & m & m' & r & r' & -> & -> & _)]; [now apply seq_refl_ok|exact I].
Qed.

(* Literal::parse after the scanner only depends on the KINDS of the tokens *)
Theorem literal_parse_tokens_unloc intern D T ts ts' : map kind ts = map kind ts' ->
  literal_parse_tokens intern D T ts = literal_parse_tokens intern D T ts'.
Proof.
  intro H. unfold literal_parse_tokens.
  assert (Hl : length ts = length ts') by (rewrite <- (map_length kind ts), H; apply map_length).
  unfold fuel_for_tokens, lit_fuel. rewrite Hl.
  pose proof (parse_literal_text_unloc (S (S (length ts'))) ts ts' H) as Hr.
  destruct (parse_literal_text (S (S (length ts'))) ts) as [u s| | |o],
           (parse_literal_text (S (S (length ts'))) ts') as [u' s'| | |o']; try contradiction; try reflexivity.
  destruct Hr as [-> _]. reflexivity.
Qed.
Print Assumptions literal_parse_tokens_unloc.

(* ------------------------------------------------------------------ (2b) through the text *)

Theorem roundtrip_text intern unintern D l T : rt_ok intern unintern D l T = true ->
  Forall tok_printable (map kind (lit_tokens unintern l)) ->
  literal_parse intern D T (print_tokens (map kind (lit_tokens unintern l))) = COk l.
Proof.
  intros Hok Hp. destruct (scan_print _ Hp) as (ts' & Hs & Hk). unfold literal_parse. rewrite Hs.
  rewrite (literal_parse_tokens_unloc intern D T ts' (lit_tokens unintern l) Hk). now apply roundtrip.
Qed.
Print Assumptions roundtrip_text.

(* ---- when the printed tokens are printable *)
Section Printable.
  Variable unintern : N -> list N.
  Notation ltoks := (lit_tokens unintern).
  Notation mtoks := (more_tokens unintern).
  Notation ftoks := (more_fields unintern).

  Definition ident_ok (n : N) : Prop := tok_printable (Scan.TIdentifier (unintern n)).

  (* numbers the scanner can read; names that are identifiers; repeat sizes and range bounds *)
  Fixpoint aux_ok (nums : bool) (l : LL.lit) : Prop :=
    match l with
    | LL.LTrue | LL.LFalse => True
    | LL.LUnsigned n _ => nums = true -> n <= u64_max
    | LL.LSigned z _ => nums = true -> if (z <? 0)%Z then Z.abs_N z <= i64_min_abs else Z.to_N z <= u64_max
    | LL.LRepeat e n => n <= u64_max /\ aux_ok nums e
    | LL.LArray es | LL.LTuple es => aux_oks nums es
    | LL.LStruct n fs => ident_ok n /\ aux_okf nums fs
    | LL.LEnumUnit n v => ident_ok n /\ ident_ok v
    | LL.LEnumTuple n v es => ident_ok n /\ ident_ok v /\ aux_oks nums es
    | LL.LRange mn mx u => mn <= ubound (unum_of u) /\ mx <= ubound (unum_of u)
    end
  with aux_oks (nums : bool) (es : LL.lits) : Prop :=
    match es with LL.LsNil => True | LL.LsCons e r => aux_ok nums e /\ aux_oks nums r end
  with aux_okf (nums : bool) (fs : LL.lfields) : Prop :=
    match fs with LL.LFNil => True | LL.LFCons f v r => ident_ok f /\ aux_ok nums v /\ aux_okf nums r end.

  Definition PK (ts : list token) : Prop := Forall tok_printable (map kind ts).
  Lemma PK_app a b : PK a -> PK b -> PK (a ++ b).
  Proof. unfold PK. intros. rewrite map_app. now apply Forall_app. Qed.
  Lemma PK_cons t r : tok_printable t -> PK r -> PK (tk t :: r).
  Proof. unfold PK. intros. cbn [map kind tk]. now constructor. Qed.
  Lemma PK_nil : PK []. Proof. constructor. Qed.
  Lemma PK_true : tok_printable (Scan.TIdentifier s_true).
  Proof. cbn [tok_printable]. split; [repeat constructor|split; reflexivity]. Qed.
  Lemma PK_false : tok_printable (Scan.TIdentifier s_false).
  Proof. cbn [tok_printable]. split; [repeat constructor|split; reflexivity]. Qed.

  Ltac pk := repeat first [ assumption | apply PK_nil | apply PK_app | apply PK_cons | exact I ].

  Lemma printable_mut :
    (forall l, aux_ok true l -> PK (ltoks l)) /\
    (forall es, aux_oks true es -> PK (mtoks es) /\ match es with LL.LsNil => True | LL.LsCons e r => PK (ltoks e) /\ PK (mtoks r) end) /\
    (forall fs, aux_okf true fs -> PK (ftoks fs) /\
                match fs with LL.LFNil => True | LL.LFCons f v r => ident_ok f /\ PK (ltoks v) /\ PK (ftoks r) end).
  Proof.
    apply LiteralProofs.lit_mutind.
    - intros _. apply PK_cons; [apply PK_true|apply PK_nil].
    - intros _. apply PK_cons; [apply PK_false|apply PK_nil].
    - intros n u H. apply PK_cons; [|apply PK_nil]. cbn [tok_printable ubound]. exact (H eq_refl).
    - intros z s H. specialize (H eq_refl). apply PK_cons; [|apply PK_nil]. unfold signed_token.
      destruct (z <? 0)%Z eqn:Ez; cbn [tok_printable]; [rewrite Ez|]; exact H.
    - intros e IH n [Hn He]. rewrite ltoks_repeat. specialize (IH He). pk.
    - intros es IH H. destruct es as [|e r]; [change (PK [tk TLeftBracket; tk TRightBracket]); pk|].
      destruct (IH H) as (_ & H1 & H2). rewrite ltoks_array. pk.
    - intros es IH H. destruct es as [|e r]; [change (PK [tk TLeftParen; tk TRightParen]); pk|].
      destruct (IH H) as (_ & H1 & H2). destruct r as [|e2 r2]; [rewrite ltoks_tuple1|rewrite ltoks_tuple2]; pk.
    - intros n fs IH [Hn H]. destruct fs as [|f v r].
      + change (PK [tk (Scan.TIdentifier (unintern n)); tk TLeftBrace; tk TRightBrace]). pk.
      + destruct (IH H) as (_ & Hf & H1 & H2). rewrite ltoks_struct. pk.
    - intros n v [Hn Hv].
      change (PK [tk (Scan.TIdentifier (unintern n)); tk TDoubleColon; tk (Scan.TIdentifier (unintern v))]). pk.
    - intros n v es IH (Hn & Hv & H). destruct es as [|e r].
      + change (PK [tk (Scan.TIdentifier (unintern n)); tk TDoubleColon; tk (Scan.TIdentifier (unintern v)); tk TLeftParen; tk TRightParen]). pk.
      + destruct (IH H) as (_ & H1 & H2). rewrite ltoks_enum. pk.
    - intros mn mx u [H1 H2].
      change (PK [tk (TUnsignedNum mn (unum_of u)); tk TDoubleDot; tk (TUnsignedNum mx (unum_of u))]). pk.
    - intros _. split; [apply PK_nil|exact I].
    - intros e IHe r IHr [He Hr]. specialize (IHe He). destruct (IHr Hr) as [Hm _].
      split; [|split; assumption]. rewrite mtoks_cons. pk.
    - intros _. split; [apply PK_nil|exact I].
    - intros f v IHv r IHr (Hf & Hv & Hr). specialize (IHv Hv). destruct (IHr Hr) as [Hm _].
      split; [|split; [exact Hf|split; assumption]]. rewrite ftoks_cons. pk.
  Qed.
End Printable.

Section PrintableValues.
  Variable intern : list N -> N.
  Variable unintern : N -> list N.
  Variable D : defs.
  Notation rtok := (rt_ok intern unintern D).
  Notation rtall := (rt_all intern unintern D).
  Notation rtzip := (rt_zip intern unintern D).
  Notation rtf := (rt_fields intern unintern D).

  (* the numbers of a value of the type are within the scanner's bounds *)
  Lemma nums_auto_mut :
    (forall l T, rtok l T = true -> aux_ok unintern false l -> aux_ok unintern true l) /\
    (forall es, (forall T, rtall es T = true -> aux_oks unintern false es -> aux_oks unintern true es) /\
                (forall Ts, rtzip es Ts = true -> aux_oks unintern false es -> aux_oks unintern true es)) /\
    (forall fs def, rtf fs def = true -> aux_okf unintern false fs -> aux_okf unintern true fs).
  Proof.
    apply LiteralProofs.lit_mutind.
    - intros; exact I.
    - intros; exact I.
    - (* unsigned *) intros n u T Hok _. cbn [aux_ok]. intros _. destruct T; try discriminate Hok. cbn [rt_ok] in Hok.
      apply andb_prop in Hok as [_ Hfit]. unfold u_fits in Hfit.
      destruct (unsigned_max t) as [mx|] eqn:Em; [|discriminate Hfit]. apply N.leb_le in Hfit.
      destruct t; try discriminate Em; injection Em as <-; unfold u64_max, u32_max in *; lia.
    - (* signed *) intros z s T Hok _. cbn [aux_ok]. intros _. destruct T; try discriminate Hok. cbn [rt_ok] in Hok.
      apply andb_prop in Hok as [_ Hfit]. unfold s_fits in Hfit.
      destruct (signed_min t) as [mn|] eqn:En; [|discriminate Hfit].
      destruct (signed_max t) as [mx|] eqn:Em; [|discriminate Hfit].
      apply andb_prop in Hfit as [Hlo Hhi]. apply Z.leb_le in Hlo. apply Z.leb_le in Hhi.
      destruct (z <? 0)%Z eqn:Ez.
      + apply Z.ltb_lt in Ez. destruct t; try discriminate En; injection En as <-; unfold i64_min_abs; lia.
      + apply Z.ltb_ge in Ez. destruct t; try discriminate Em; injection Em as <-; unfold u64_max; lia.
    - (* repeat *) intros e IH n T Hok [Hn He]. destruct T; try discriminate Hok. cbn [rt_ok] in Hok.
      apply andb_prop in Hok as [_ Hok]. split; [exact Hn|exact (IH _ Hok He)].
    - (* array *) intros es [IHa _] T Hok H. destruct T; try discriminate Hok. cbn [rt_ok] in Hok.
      destruct es as [|e r]; [exact I|]. cbn [andb] in Hok.
      apply andb_prop in Hok as [Hok _]. apply andb_prop in Hok as [_ Hok]. exact (IHa _ Hok H).
    - (* tuple *) intros es [_ IHz] T Hok H. destruct T; try discriminate Hok. exact (IHz _ Hok H).
    - (* struct *) intros n fs IHf T Hok [Hn H]. destruct T as [| | | | |name|]; try discriminate Hok. cbn [rt_ok] in Hok.
      apply andb_prop in Hok as [_ Hdef].
      destruct (assocL name (d_structs D)) as [def|]; [|discriminate Hdef]. apply andb_prop in Hdef as [_ Hfs].
      split; [exact Hn|exact (IHf def Hfs H)].
    - intros n v T _ H. exact H.
    - (* enum, tuple *) intros n v es [_ IHz] T Hok (Hn & Hv & H).
      destruct T as [| | | | | |name]; try discriminate Hok. cbn [rt_ok] in Hok.
      apply andb_prop in Hok as [_ Hvs].
      destruct (assocL name (d_enums D)) as [vs|]; [|discriminate Hvs].
      destruct (assocL (unintern v) vs) as [[tys|]|]; try discriminate Hvs. apply andb_prop in Hvs as [_ Hzip].
      split; [exact Hn|]. split; [exact Hv|exact (IHz tys Hzip H)].
    - intros mn mx u T _ H. exact H.
    - split; intros; exact I.
    - intros e IHe r [IHa IHz]. split.
      + intros T Hok [He Hr]. rewrite rt_all_cons in Hok. apply andb_prop in Hok as [H1 H2].
        split; [exact (IHe _ H1 He)|exact (IHa _ H2 Hr)].
      + intros [|T Tr] Hok [He Hr]; [discriminate Hok|]. rewrite rt_zip_cons in Hok. apply andb_prop in Hok as [H1 H2].
        split; [exact (IHe _ H1 He)|exact (IHz _ H2 Hr)].
    - intros; exact I.
    - intros f v IHv r IHr [|[fname ft] dr] Hok (Hf & Hv & Hr); [discriminate Hok|]. rewrite rt_fields_cons in Hok.
      apply andb_prop in Hok as [Hok H2]. apply andb_prop in Hok as [_ H1].
      split; [exact Hf|]. split; [exact (IHv _ H1 Hv)|exact (IHr _ H2 Hr)].
  Qed.

  (* the printed tokens of a value of the type are printable as soon as its names are identifiers,
     its repeat sizes are <= u64::MAX and its range bounds are within their suffix *)
  Theorem printable_tokens l T : rtok l T = true -> aux_ok unintern false l ->
    Forall tok_printable (map kind (lit_tokens unintern l)).
  Proof.
    intros Hok Ha. apply (proj1 (printable_mut unintern) l). exact (proj1 nums_auto_mut l T Hok Ha).
  Qed.

  Corollary roundtrip_text_value l T : rtok l T = true -> aux_ok unintern false l ->
    literal_parse intern D T (print_tokens (map kind (lit_tokens unintern l))) = COk l.
  Proof. intros Hok Ha. apply roundtrip_text; [exact Hok|now apply (printable_tokens l T)]. Qed.
End PrintableValues.
Print Assumptions roundtrip_text_value.

(* ------------------------------------------------------------------ (1) values of the type are in the class of the round trip *)

Section Values.
  Variable intern : list N -> N.
  Variable unintern : N -> list N.
  Variable D : defs.
  Notation rty := (rty_of_cty intern D).

  (* the local loops of rty_of_cty, named *)
  Definition rtys_of (f : nat) : list cty -> option LT.rtys :=
    fix go (ts : list cty) : option LT.rtys :=
      match ts with
      | [] => Some LT.RsNil
      | x :: r => match rty f x, go r with Some x', Some r' => Some (LT.RsCons x' r') | _, _ => None end
      end.
  Definition rfields_of (f : nat) : list (list N * cty) -> option LT.rfields :=
    fix go (fs : list (list N * cty)) : option LT.rfields :=
      match fs with
      | [] => Some LT.RFNil
      | (fname, ft) :: r =>
          match rty f ft, go r with Some ft', Some r' => Some (LT.RFCons (intern fname) ft' r') | _, _ => None end
      end.
  Definition rvariants_of (f : nat) : list (list N * option (list cty)) -> option LT.rvariants :=
    fix go (vs : list (list N * option (list cty))) : option LT.rvariants :=
      match vs with
      | [] => Some LT.RVNil
      | (vname, None) :: r => match go r with Some r' => Some (LT.RVUnit (intern vname) r') | None => None end
      | (vname, Some tys) :: r =>
          match rtys_of f tys, go r with Some tys', Some r' => Some (LT.RVTuple (intern vname) tys' r') | _, _ => None end
      end.

  Lemma rty_array f e n : rty (S f) (CArray e n) = match rty f e with Some e' => Some (LT.RArray e' n) | None => None end.
  Proof. reflexivity. Qed.
  Lemma rty_tuple f ts : rty (S f) (CTuple ts) = match rtys_of f ts with Some ts' => Some (LT.RTuple ts') | None => None end.
  Proof. reflexivity. Qed.
  Lemma rty_struct f name : rty (S f) (CStruct name) =
    match assocL name (d_structs D) with
    | Some def => match rfields_of f def with Some fs' => Some (LT.RStruct (intern name) fs') | None => None end
    | None => None
    end.
  Proof. reflexivity. Qed.
  Lemma rty_enum f name : rty (S f) (CEnum name) =
    match assocL name (d_enums D) with
    | Some vs => match rvariants_of f vs with Some vs' => Some (LT.REnum (intern name) vs') | None => None end
    | None => None
    end.
  Proof. reflexivity. Qed.

  Lemma rty_inv f T r : rty (S f) T = Some r ->
    match T with
    | CBool => r = LT.RBool
    | CUnsigned u => r = LT.RUnsigned (uty_of u)
    | CSigned s => r = LT.RSigned (sty_of s)
    | CArray e n => exists e', rty f e = Some e' /\ r = LT.RArray e' n
    | CTuple ts => exists ts', rtys_of f ts = Some ts' /\ r = LT.RTuple ts'
    | CStruct name => exists def fs', assocL name (d_structs D) = Some def /\ rfields_of f def = Some fs' /\
                                      r = LT.RStruct (intern name) fs'
    | CEnum name => exists vs vs', assocL name (d_enums D) = Some vs /\ rvariants_of f vs = Some vs' /\
                                   r = LT.REnum (intern name) vs'
    end.
  Proof.
    destruct T.
    - intros [= <-]; reflexivity.
    - intros [= <-]; reflexivity.
    - intros [= <-]; reflexivity.
    - rewrite rty_array. destruct (rty f T) as [e'|]; [|discriminate]. intros [= <-]. eexists; split; reflexivity.
    - rewrite rty_tuple. destruct (rtys_of f ts) as [ts'|]; [|discriminate]. intros [= <-]. eexists; split; reflexivity.
    - rewrite rty_struct. destruct (assocL name (d_structs D)) as [def|]; [|discriminate].
      destruct (rfields_of f def) as [fs'|] eqn:Ef; [|discriminate]. intros [= <-].
      exists def, fs'. split; [reflexivity|split; [exact Ef|reflexivity]].
    - rewrite rty_enum. destruct (assocL name (d_enums D)) as [vs|]; [|discriminate].
      destruct (rvariants_of f vs) as [vs'|] eqn:Ev; [|discriminate]. intros [= <-].
      exists vs, vs'. split; [reflexivity|split; [exact Ev|reflexivity]].
  Qed.

  (* ---- the printable forms of a value *)
  Fixpoint printable_value (l : LL.lit) : bool :=
    match l with
    | LL.LRepeat e _ => printable_value e
    | LL.LArray es =>
        match es with LL.LsNil => false | _ => true end && (all_num es || uniform (pts unintern es)) && printable_values es
    | LL.LTuple es | LL.LEnumTuple _ _ es => printable_values es
    | LL.LStruct _ fs => printable_fields fs
    | LL.LRange mn mx _ => (mn <? mx) && (mx - mn <=? u32_max)
    | _ => true
    end
  with printable_values (es : LL.lits) : bool :=
    match es with LL.LsNil => true | LL.LsCons e r => printable_value e && printable_values r end
  with printable_fields (fs : LL.lfields) : bool :=
    match fs with LL.LFNil => true | LL.LFCons _ v r => printable_value v && printable_fields r end.

  (* ---- the names of the definitions: interned injectively (unintern inverts intern on them), struct
     and enum names are not `true` / `false`, struct fields in name order *)
  Definition name_good (x : list N) : Prop := unintern (intern x) = x.
  Definition D_names_ok : Prop :=
    (forall name def, assocL name (d_structs D) = Some def ->
       name_good name /\ not_bool_name name = true /\ names_ok (map fst def) = true /\
       forall f, In f (map fst def) -> name_good f) /\
    (forall name vs, assocL name (d_enums D) = Some vs ->
       name_good name /\ not_bool_name name = true /\ forall v, In v (map fst vs) -> name_good v).

  Lemma uty_eqb_eq a b : LT.uty_eqb a b = true -> a = b.
  Proof. destruct a, b; try discriminate; reflexivity. Qed.
  Lemma sty_eqb_eq a b : LT.sty_eqb a b = true -> a = b.
  Proof. destruct a, b; try discriminate; reflexivity. Qed.
  Lemma uty_eqb_refl a : LT.uty_eqb a a = true. Proof. destruct a; reflexivity. Qed.
  Lemma sty_eqb_refl a : LT.sty_eqb a a = true. Proof. destruct a; reflexivity. Qed.

  (* a variant found by its interned name is the variant of that (byte) name *)
  Lemma find_variant_assoc f : forall vs vs' v i j info, rvariants_of f vs = Some vs' ->
    LT.find_variant vs' v i = Some (j, info) ->
    exists vname, intern vname = v /\ In vname (map fst vs) /\
      match info with
      | LT.VIUnit => assocL vname vs = Some None
      | LT.VITuple ts' => exists tys, assocL vname vs = Some (Some tys) /\ rtys_of f tys = Some ts'
      end.
  Proof.
    induction vs as [|[vname0 payload] r IH]; intros vs' v i j info Hr Hf.
    - injection Hr as <-. discriminate Hf.
    - cbn [rvariants_of] in Hr. fold (rvariants_of f) in Hr. destruct payload as [tys|].
      + destruct (rtys_of f tys) as [tys'|] eqn:Et; [|discriminate Hr].
        destruct (rvariants_of f r) as [r'|] eqn:Er; [|discriminate Hr]. injection Hr as <-.
        cbn [LT.find_variant] in Hf. destruct (N.eqb_spec (intern vname0) v) as [E|E].
        * injection Hf as _ <-. exists vname0. split; [exact E|]. split; [now left|].
          exists tys. cbn [assocL]. rewrite list_eqb_refl. auto.
        * destruct (IH r' v (i + 1) j info eq_refl Hf) as (vname & E1 & Hin & E2).
          exists vname. split; [exact E1|]. split; [now right|].
          assert (Hne : list_eqb vname vname0 = false).
          { destruct (list_eqb vname vname0) eqn:El; [|reflexivity]. apply list_eqb_eq in El. subst. contradiction. }
          destruct info; cbn [assocL]; rewrite Hne; exact E2.
      + destruct (rvariants_of f r) as [r'|] eqn:Er; [|discriminate Hr]. injection Hr as <-.
        cbn [LT.find_variant] in Hf. destruct (N.eqb_spec (intern vname0) v) as [E|E].
        * injection Hf as _ <-. exists vname0. split; [exact E|]. split; [now left|].
          cbn [assocL]. now rewrite list_eqb_refl.
        * destruct (IH r' v (i + 1) j info eq_refl Hf) as (vname & E1 & Hin & E2).
          exists vname. split; [exact E1|]. split; [now right|].
          assert (Hne : list_eqb vname vname0 = false).
          { destruct (list_eqb vname vname0) eqn:El; [|reflexivity]. apply list_eqb_eq in El. subst. contradiction. }
          destruct info; cbn [assocL]; rewrite Hne; exact E2.
  Qed.

  Notation rtok := (rt_ok intern unintern D).
  Notation rtall := (rt_all intern unintern D).
  Notation rtzip := (rt_zip intern unintern D).
  Notation rtf := (rt_fields intern unintern D).

  Hypothesis HD : D_names_ok.

  Definition Vst (l : LL.lit) : Prop := forall T r fuel,
    LL.is_of_type l r = true -> rty fuel T = Some r -> printable_value l = true -> rtok l T = true.
  Definition Vall (es : LL.lits) : Prop := forall ET et fuel,
    LL.all_of_type es et = true -> rty fuel ET = Some et -> printable_values es = true -> rtall es ET = true.
  Definition Vzip (es : LL.lits) : Prop := forall Ts ts' fuel,
    LL.zip_of_type es ts' = true -> rtys_of fuel Ts = Some ts' -> printable_values es = true -> rtzip es Ts = true.
  Definition Vfld (fs : LL.lfields) : Prop := forall def fs' fuel,
    LL.fields_of_type fs fs' = true -> rfields_of fuel def = Some fs' -> (forall f, In f (map fst def) -> name_good f) ->
    printable_fields fs = true -> rtf fs def = true.

  Lemma rtys_of_cons f x r : rtys_of f (x :: r) =
    match rty f x, rtys_of f r with Some x', Some r' => Some (LT.RsCons x' r') | _, _ => None end.
  Proof. reflexivity. Qed.
  Lemma rfields_of_cons f fname ft r : rfields_of f ((fname, ft) :: r) =
    match rty f ft, rfields_of f r with Some ft', Some r' => Some (LT.RFCons (intern fname) ft' r') | _, _ => None end.
  Proof. reflexivity. Qed.

  Lemma name_ok_intro n name : n = intern name -> name_good name -> name_ok intern unintern n name = true.
  Proof. intros -> H. unfold name_ok. rewrite H, list_eqb_refl, N.eqb_refl. reflexivity. Qed.

  Ltac inv_ty Hr T :=
    match type of Hr with rty ?fuel _ = _ => destruct fuel as [|f]; [discriminate Hr|] end;
    apply rty_inv in Hr; destruct T as [|tu|tsg|ET tn|Ts|sname|ename]; cbn beta iota in Hr.

  (* equations (cbn does not refold the mutual fixpoints) *)
  Lemma rtok_repeat e n ET n' : rtok (LL.LRepeat e n) (CArray ET n') = (n =? n') && rtok e ET.
  Proof. reflexivity. Qed.
  Lemma rtok_array es ET n : rtok (LL.LArray es) (CArray ET n) =
    match es with LL.LsNil => false | _ => true end && (LL.lits_len es =? n) && rtall es ET &&
    (all_num es || uniform (pts unintern es)).
  Proof. reflexivity. Qed.
  Lemma rtok_tuple es Ts : rtok (LL.LTuple es) (CTuple Ts) = rtzip es Ts.
  Proof. reflexivity. Qed.
  Lemma rtok_struct n fs name : rtok (LL.LStruct n fs) (CStruct name) =
    name_ok intern unintern n name && not_bool_name name &&
    match assocL name (d_structs D) with Some def => names_ok (map fst def) && rtf fs def | None => false end.
  Proof. reflexivity. Qed.
  Lemma rtok_enum_unit n v name : rtok (LL.LEnumUnit n v) (CEnum name) =
    name_ok intern unintern n name && not_bool_name name &&
    match assocL name (d_enums D) with
    | Some vs => match assocL (unintern v) vs with Some None => intern (unintern v) =? v | _ => false end
    | None => false
    end.
  Proof. reflexivity. Qed.
  Lemma rtok_enum_tuple n v es name : rtok (LL.LEnumTuple n v es) (CEnum name) =
    name_ok intern unintern n name && not_bool_name name &&
    match assocL name (d_enums D) with
    | Some vs => match assocL (unintern v) vs with Some (Some tys) => (intern (unintern v) =? v) && rtzip es tys | _ => false end
    | None => false
    end.
  Proof. reflexivity. Qed.
  Lemma pv_array es : printable_value (LL.LArray es) =
    match es with LL.LsNil => false | _ => true end && (all_num es || uniform (pts unintern es)) && printable_values es.
  Proof. reflexivity. Qed.
  Lemma pvs_cons e r : printable_values (LL.LsCons e r) = printable_value e && printable_values r.
  Proof. reflexivity. Qed.
  Lemma pvf_cons f v r : printable_fields (LL.LFCons f v r) = printable_value v && printable_fields r.
  Proof. reflexivity. Qed.

  Ltac kill Hr :=
    try discriminate Hr;
    try (let x := fresh in destruct Hr as (? & _ & x); discriminate x);
    try (let x := fresh in destruct Hr as (? & ? & _ & _ & x); discriminate x).

  Lemma value_mut : (forall l, Vst l) /\ (forall es, Vall es /\ Vzip es) /\ (forall fs, Vfld fs).
  Proof.
    apply LiteralProofs.lit_mutind.
    - (* true *) intros T r fuel Hty Hr _. destruct r; try discriminate Hty. inv_ty Hr T; kill Hr. reflexivity.
    - intros T r fuel Hty Hr _. destruct r; try discriminate Hty. inv_ty Hr T; kill Hr. reflexivity.
    - (* unsigned *) intros n u T r fuel Hty Hr _. destruct r; try discriminate Hty. inv_ty Hr T; kill Hr.
      injection Hr as ->. cbn [LL.is_of_type] in Hty. apply andb_prop in Hty as [H1 H2]. apply uty_eqb_eq in H1. subst u.
      cbn [rt_ok]. rewrite uty_eqb_refl. cbn [andb]. unfold u_fits. rewrite unsigned_max_umax. exact H2.
    - (* signed *) intros z s T r fuel Hty Hr _. destruct r; try discriminate Hty. inv_ty Hr T; kill Hr.
      injection Hr as ->. cbn [LL.is_of_type] in Hty. apply andb_prop in Hty as [H1 H2]. apply sty_eqb_eq in H1. subst s.
      cbn [rt_ok]. rewrite sty_eqb_refl. cbn [andb]. unfold s_fits. rewrite signed_min_smin, signed_max_smax. exact H2.
    - (* repeat *) intros e IH n T r fuel Hty Hr Hp. destruct r; try discriminate Hty. inv_ty Hr T; kill Hr.
      destruct Hr as (e' & He' & [= -> ->]). cbn [LL.is_of_type] in Hty. apply andb_prop in Hty as [H1 H2].
      rewrite rtok_repeat, H1. cbn [andb]. exact (IH ET e' f H2 He' Hp).
    - (* array *) intros es [IHa _] T r fuel Hty Hr Hp. destruct r; try discriminate Hty. inv_ty Hr T; kill Hr.
      destruct Hr as (e' & He' & [= -> ->]). cbn [LL.is_of_type] in Hty. apply andb_prop in Hty as [H1 H2].
      rewrite pv_array in Hp. apply andb_prop in Hp as [Hp Hpv]. apply andb_prop in Hp as [Hne Hshape].
      rewrite rtok_array, Hne, H1, Hshape, (IHa ET e' f H2 He' Hpv). reflexivity.
    - (* tuple *) intros es [_ IHz] T r fuel Hty Hr Hp. destruct r; try discriminate Hty. inv_ty Hr T; kill Hr.
      destruct Hr as (ts' & Hts & [= ->]). rewrite rtok_tuple. exact (IHz Ts ts' f Hty Hts Hp).
    - (* struct *) intros n fs IHf T r fuel Hty Hr Hp. destruct r; try discriminate Hty. inv_ty Hr T; kill Hr.
      destruct Hr as (def & fs' & Hd & Hfs & [= -> ->]). cbn [LL.is_of_type] in Hty. apply andb_prop in Hty as [H1 H2].
      apply N.eqb_eq in H1. destruct (proj1 HD _ _ Hd) as (Hg & Hnb & Hso & Hfn).
      rewrite rtok_struct, (name_ok_intro n sname H1 Hg), Hnb, Hd, Hso. cbn [andb].
      exact (IHf def fs' f H2 Hfs Hfn Hp).
    - (* enum, unit *) intros n v T r fuel Hty Hr _. destruct r; try discriminate Hty. inv_ty Hr T; kill Hr.
      destruct Hr as (dvs & dvs' & Hd & Hvs & [= -> ->]). cbn [LL.is_of_type] in Hty. apply andb_prop in Hty as [H1 H2].
      apply N.eqb_eq in H1. destruct (proj2 HD _ _ Hd) as (Hg & Hnb & Hvn).
      destruct (LT.find_variant dvs' v 0) as [[j info]|] eqn:Ef; [|discriminate H2]. destruct info; [|discriminate H2].
      destruct (find_variant_assoc f dvs dvs' v 0 j LT.VIUnit Hvs Ef) as (vname & E1 & Hin & E2).
      rewrite rtok_enum_unit, (name_ok_intro n ename H1 Hg), Hnb, Hd. cbn [andb].
      rewrite <- E1, (Hvn vname Hin), E2. apply N.eqb_refl.
    - (* enum, tuple *) intros n v es [_ IHz] T r fuel Hty Hr Hp. destruct r; try discriminate Hty. inv_ty Hr T; kill Hr.
      destruct Hr as (dvs & dvs' & Hd & Hvs & [= -> ->]). cbn [LL.is_of_type] in Hty. apply andb_prop in Hty as [H1 H2].
      apply N.eqb_eq in H1. destruct (proj2 HD _ _ Hd) as (Hg & Hnb & Hvn).
      destruct (LT.find_variant dvs' v 0) as [[j info]|] eqn:Ef; [|discriminate H2]. destruct info as [|ts']; [discriminate H2|].
      destruct (find_variant_assoc f dvs dvs' v 0 j (LT.VITuple ts') Hvs Ef) as (vname & E1 & Hin & tys & E2 & E3).
      rewrite rtok_enum_tuple, (name_ok_intro n ename H1 Hg), Hnb, Hd. cbn [andb].
      rewrite <- E1, (Hvn vname Hin), E2, N.eqb_refl. cbn [andb]. exact (IHz tys ts' f H2 E3 Hp).
    - (* range *) intros mn mx u T r fuel Hty Hr Hp. destruct r; try discriminate Hty. inv_ty Hr T; kill Hr.
      destruct Hr as (e' & He' & [= -> ->]). cbn [LL.is_of_type] in Hty. apply andb_prop in Hty as [H1 H3].
      apply andb_prop in H1 as [H1 H2]. destruct e' as [|u'| | | | |]; try discriminate H1. apply uty_eqb_eq in H1. subst u'.
      destruct f as [|f']; [discriminate He'|]. apply rty_inv in He'.
      destruct ET as [|t| | | | |]; cbn beta iota in He'; kill He'.
      injection He' as ->. cbn [printable_value] in Hp. apply andb_prop in Hp as [Hlt Hmax].
      cbn [rt_ok]. rewrite uty_eqb_refl, Hlt, H3, Hmax. cbn [andb]. rewrite !andb_true_r.
      unfold LL.range_ok in H2. apply andb_prop in H2 as [_ H2]. apply N.ltb_lt in Hlt.
      assert ((mn =? mx) = false) as Hne by (apply N.eqb_neq; lia). rewrite Hne in H2. cbn [orb] in H2.
      destruct t; try reflexivity. discriminate H2.
    - (* no elements *) split.
      + intros ET et fuel _ _ _. reflexivity.
      + intros [|T Tr] ts' fuel Hty Hts _; [reflexivity|].
        rewrite rtys_of_cons in Hts. destruct (rty fuel T); [|discriminate Hts]. destruct (rtys_of fuel Tr); [|discriminate Hts].
        injection Hts as <-. discriminate Hty.
    - (* one more element *) intros e IHe r [IHa IHz]. split.
      + intros ET et fuel Hty Hr Hp. cbn [LL.all_of_type] in Hty. apply andb_prop in Hty as [H1 H2].
        rewrite pvs_cons in Hp. apply andb_prop in Hp as [Hp1 Hp2].
        rewrite rt_all_cons, (IHe ET et fuel H1 Hr Hp1), (IHa ET et fuel H2 Hr Hp2). reflexivity.
      + intros [|T Tr] ts' fuel Hty Hts Hp.
        * injection Hts as <-. discriminate Hty.
        * rewrite rtys_of_cons in Hts. destruct (rty fuel T) as [t'|] eqn:Et; [|discriminate Hts].
          destruct (rtys_of fuel Tr) as [tr'|] eqn:Etr; [|discriminate Hts]. injection Hts as <-.
          cbn [LL.zip_of_type] in Hty. apply andb_prop in Hty as [H1 H2].
          rewrite pvs_cons in Hp. apply andb_prop in Hp as [Hp1 Hp2].
          rewrite rt_zip_cons, (IHe T t' fuel H1 Et Hp1), (IHz Tr tr' fuel H2 Etr Hp2). reflexivity.
    - (* no fields *) intros [|[fname ft] dr] fs' fuel Hty Hfs _ _; [reflexivity|].
      rewrite rfields_of_cons in Hfs. destruct (rty fuel ft); [|discriminate Hfs]. destruct (rfields_of fuel dr); [|discriminate Hfs].
      injection Hfs as <-. discriminate Hty.
    - (* one more field *) intros fn v IHv r IHr [|[fname ft] dr] fs' fuel Hty Hfs Hnames Hp.
      + injection Hfs as <-. discriminate Hty.
      + rewrite rfields_of_cons in Hfs. destruct (rty fuel ft) as [ft'|] eqn:Et; [|discriminate Hfs].
        destruct (rfields_of fuel dr) as [dr'|] eqn:Er; [|discriminate Hfs]. injection Hfs as <-.
        cbn [LL.fields_of_type] in Hty. apply andb_prop in Hty as [H1 H3]. apply andb_prop in H1 as [H1 H2].
        apply N.eqb_eq in H1. rewrite pvf_cons in Hp. apply andb_prop in Hp as [Hp1 Hp2].
        rewrite rt_fields_cons, (name_ok_intro fn fname H1 (Hnames fname (or_introl eq_refl))),
                (IHv ft ft' fuel H2 Et Hp1). cbn [andb].
        apply (IHr dr dr' fuel H3 Er); [|exact Hp2]. intros x Hx. apply Hnames. now right.
  Qed.

  (* (1) a value of the type, in a printable form, is in the class of the round trip *)
  Theorem is_of_type_rt_ok l T r fuel :
    LL.is_of_type l r = true -> rty_of_cty intern D fuel T = Some r -> printable_value l = true ->
    rt_ok intern unintern D l T = true.
  Proof. exact (proj1 value_mut l T r fuel). Qed.

  (* the round trip for values of the type, over tokens *)
  Theorem value_roundtrip l T r fuel :
    LL.is_of_type l r = true -> rty_of_cty intern D fuel T = Some r -> printable_value l = true ->
    literal_parse_tokens intern D T (lit_tokens unintern l) = COk l.
  Proof. intros H1 H2 H3. apply roundtrip. exact (is_of_type_rt_ok l T r fuel H1 H2 H3). Qed.

  (* ... and through the text *)
  Theorem value_roundtrip_text l T r fuel :
    LL.is_of_type l r = true -> rty_of_cty intern D fuel T = Some r -> printable_value l = true ->
    aux_ok unintern false l ->
    literal_parse intern D T (print_tokens (map kind (lit_tokens unintern l))) = COk l.
  Proof. intros H1 H2 H3 H4. apply roundtrip_text_value; [exact (is_of_type_rt_ok l T r fuel H1 H2 H3)|exact H4]. Qed.
End Values.
Print Assumptions is_of_type_rt_ok.
Print Assumptions value_roundtrip_text.

(* ------------------------------------------------------------------ canonical values (what the decoder produces) *)

(* no `[e; n]` and no range spelling *)
Fixpoint plain (l : LL.lit) : bool :=
  match l with
  | LL.LRepeat _ _ | LL.LRange _ _ _ => false
  | LL.LArray es | LL.LTuple es | LL.LEnumTuple _ _ es => plains es
  | LL.LStruct _ fs => plainf fs
  | _ => true
  end
with plains (es : LL.lits) : bool :=
  match es with LL.LsNil => true | LL.LsCons e r => plain e && plains r end
with plainf (fs : LL.lfields) : bool :=
  match fs with LL.LFNil => true | LL.LFCons _ v r => plain v && plainf r end.

(* Lang/Literal.v [has_type]: the canonical values of a type (the forms `from_bits` builds and
   [decode_encode] / [values_accepted] are about) contain no repeat / range spelling *)
Lemma has_type_plain_mut :
  (forall l t, LL.has_type l t = true -> plain l = true) /\
  (forall es, (forall t, LL.all_has_type es t = true -> plains es = true) /\
              (forall ts, LL.zip_has_type es ts = true -> plains es = true)) /\
  (forall fs dfs, LL.fields_has_type fs dfs = true -> plainf fs = true).
Proof.
  apply LiteralProofs.lit_mutind; try (intros; reflexivity).
  - intros e _ n t H. destruct t; discriminate H.
  - intros es [IHa _] t H. destruct t; try discriminate H. cbn [LL.has_type] in H. apply andb_prop in H as [_ H]. exact (IHa _ H).
  - intros es [_ IHz] t H. destruct t; try discriminate H. exact (IHz _ H).
  - intros n fs IH t H. destruct t; try discriminate H. cbn [LL.has_type] in H. apply andb_prop in H as [_ H]. exact (IH _ H).
  - intros n v es [_ IHz] t H. destruct t; try discriminate H. cbn [LL.has_type] in H. apply andb_prop in H as [_ H].
    destruct (LT.find_variant vs v 0) as [[j [|ts]]|]; try discriminate H. exact (IHz _ H).
  - intros mn mx u t H. destruct t; discriminate H.
  - split; intros; reflexivity.
  - intros e IHe r [IHa IHz]. split.
    + intros t H. cbn [LL.all_has_type] in H. apply andb_prop in H as [H1 H2].
      change (plain e && plains r = true). now rewrite (IHe _ H1), (IHa _ H2).
    + intros [|t tr] H; [discriminate H|]. cbn [LL.zip_has_type] in H. apply andb_prop in H as [H1 H2].
      change (plain e && plains r = true). now rewrite (IHe _ H1), (IHz _ H2).
  - intros f v IHv r IHr [|dn t dr] H; [discriminate H|]. cbn [LL.fields_has_type] in H.
    apply andb_prop in H as [H H3]. apply andb_prop in H as [_ H2].
    change (plain v && plainf r = true). now rewrite (IHv _ H2), (IHr _ H3).
Qed.

Theorem has_type_plain l t : LL.has_type l t = true -> plain l = true.
Proof. apply (proj1 has_type_plain_mut). Qed.

(* the round trip for the canonical values of a type *)
Theorem canonical_value_roundtrip intern unintern D (HD : D_names_ok intern unintern D) E v T r fuel :
  LT.wf E r = true -> LL.has_type v r = true -> rty_of_cty intern D fuel T = Some r ->
  printable_value unintern v = true ->
  plain v = true /\ literal_parse_tokens intern D T (lit_tokens unintern v) = COk v.
Proof.
  intros W Ht Hr Hp. split; [exact (has_type_plain v r Ht)|].
  apply (value_roundtrip intern unintern D HD v T r fuel); [|exact Hr|exact Hp].
  exact (proj1 (LiteralProofs.values_accepted_top E v r W Ht)).
Qed.
Print Assumptions canonical_value_roundtrip.

(* ------------------------------------------------------------------ examples *)

Module TextExamples.
  Import LitExamples RoundTripExamples.

  Definition lits_ex : list LL.lit :=
    [ LL.LTrue; U 255; I8_ (-128); LL.LTuple LL.LsNil; LL.LTuple (ls [U 1]); LL.LTuple (ls [U 1; LL.LTrue; I8_ (-1)]);
      LL.LArray (ls [I8_ 1; I8_ (-2); I8_ 3]); LL.LRepeat (I8_ (-1)) 3; LL.LRange 2 5 LT.U8;
      Sv 1 true; LL.LEnumUnit E_ A_; LL.LEnumTuple E_ B_ (ls [U 3; LL.LSigned (-4) LT.I16]);
      LL.LArray (ls [LL.LTuple (ls [Sv 1 false; LL.LEnumUnit E_ A_]);
                     LL.LTuple (ls [Sv 2 true; LL.LEnumTuple E_ B_ (ls [U 3; LL.LSigned 4 LT.I16])])]) ].

  (* the spacing of the real `Display` and the single-space rendering of the tokens *)
  Example display_texts :
    lit_text ex_unintern (Sv 1 true) = codes "S {a: 1, b: true}" /\
    print_tokens (map kind (lit_tokens ex_unintern (Sv 1 true))) = codes "S { a : 1 , b : true }" /\
    lit_text ex_unintern (LL.LEnumTuple E_ B_ (ls [U 3; LL.LSigned (-4) LT.I16])) = codes "E::B(3, -4)" /\
    print_tokens (map kind (lit_tokens ex_unintern (LL.LEnumTuple E_ B_ (ls [U 3; LL.LSigned (-4) LT.I16])))) = codes "E :: B ( 3 , -4 )" /\
    lit_text ex_unintern (LL.LTuple (ls [U 1])) = codes "(1,)" /\
    lit_text ex_unintern (LL.LRepeat (I8_ (-1)) 3) = codes "[-1; 3]" /\
    lit_text ex_unintern (LL.LRange 2 5 LT.U8) = codes "2u8..5u8" /\
    print_tokens (map kind (lit_tokens ex_unintern (LL.LRange 2 5 LT.U8))) = codes "2u8 .. 5u8".
  Proof. repeat split; vm_compute; reflexivity. Qed.

  (* [display_spacing]: both texts scan to the printed token kinds *)
  Definition scans_spaced (l : LL.lit) : bool :=
    match scan_text (print_tokens (map kind (lit_tokens ex_unintern l))) with
    | Ok (STokens ts) =>
        if list_eq_dec token_enum_eq_dec (map kind ts) (map kind (lit_tokens ex_unintern l)) then true else false
    | _ => false
    end.
  Example display_spacing : forallb (fun l => scans_as_printed l && scans_spaced l) lits_ex = true.
  Proof. vm_compute. reflexivity. Qed.

  (* the class of (1) and the text theorem on the examples *)
  Example printable_values_ex : forallb (printable_value ex_unintern) lits_ex = true.
  Proof. vm_compute. reflexivity. Qed.

  Example text_instance :
    let l := LL.LTuple (ls [Sv 2 true; LL.LEnumTuple E_ B_ (ls [U 3; LL.LSigned (-4) LT.I16])]) in
    literal_parse ex_intern DSE (CTuple [CStruct (nm "S"); CEnum (nm "E")])
                  (print_tokens (map kind (lit_tokens ex_unintern l))) = COk l.
  Proof. vm_compute. reflexivity. Qed.

  (* the hypothesis on the names of the definitions is satisfiable *)
  Example DSE_names_ok : D_names_ok ex_intern ex_unintern DSE.
  Proof.
    split.
    - intros name def H. cbn [DSE d_structs assocL] in H. destruct (list_eqb name (nm "S")) eqn:E; [|discriminate H].
      apply list_eqb_eq in E. subst name. injection H as <-.
      split; [vm_compute; reflexivity|]. split; [vm_compute; reflexivity|]. split; [vm_compute; reflexivity|].
      intros f [<-|[<-|[]]]; vm_compute; reflexivity.
    - intros name vs H. cbn [DSE d_enums assocL] in H. destruct (list_eqb name (nm "E")) eqn:E; [|discriminate H].
      apply list_eqb_eq in E. subst name. injection H as <-.
      split; [vm_compute; reflexivity|]. split; [vm_compute; reflexivity|].
      intros v [<-|[<-|[]]]; vm_compute; reflexivity.
  Qed.

  (* an instance of (1) + the round trip for a value of the type *)
  Example value_instance :
    let l := LL.LTuple (ls [Sv 2 true; LL.LEnumTuple E_ B_ (ls [U 3; LL.LSigned (-4) LT.I16])]) in
    exists r, rty_of_cty ex_intern DSE 5 (CTuple [CStruct (nm "S"); CEnum (nm "E")]) = Some r /\
              LL.is_of_type l r = true /\
              literal_parse_tokens ex_intern DSE (CTuple [CStruct (nm "S"); CEnum (nm "E")]) (lit_tokens ex_unintern l) = COk l.
  Proof.
    intro l. set (T := CTuple [CStruct (nm "S"); CEnum (nm "E")]).
    destruct (rty_of_cty ex_intern DSE 5 T) as [r|] eqn:Er; [|vm_compute in Er; discriminate Er].
    pose proof Er as Er'. vm_compute in Er'. injection Er' as Er'.
    exists r. split; [reflexivity|].
    assert (Hty : LL.is_of_type l r = true) by (rewrite <- Er'; vm_compute; reflexivity).
    split; [exact Hty|].
    apply (value_roundtrip ex_intern ex_unintern DSE DSE_names_ok l T r 5 Hty Er). vm_compute. reflexivity.
  Qed.
End TextExamples.
