(* C07 for the type checker, part 3: discharging the hypothesis about the exhaustiveness oracle.
   The patterns the checker hands to check_exhaustiveness come out of check_pattern at the scrutinee
   type: they are well typed in the sense of Exhaust/Pat.v ([pat_link]); the translated definitions
   are well formed ([pat_tyenv_wf]); hence UsefulProofs.useful_fuel applies as soon as the scrutinee
   type unfolds within the depth 64 the model gives the oracle ([exh_nf]). *)
From Coq Require Import Lia Bool.
From GV Require Import Base.Util Front.Scan Front.ParseExpr Check.UAst Check.Infer Check.InferProofs
  Check.InferTotal Check.InferFuel Check.InferFuel2.
From GV Require Exhaust.Pat Exhaust.Useful Exhaust.UsefulProofs.
Local Open Scope N_scope.

Section Link.
Variable intern : list N -> N.
Hypothesis intern_inj : forall a b, intern a = intern b -> a = b.

Lemma intern_eqb' a b : (intern a =? intern b) = list_eqb a b.
Proof.
  destruct (list_eqb a b) eqn:E.
  - apply list_eqb_eq in E. subst. apply N.eqb_refl.
  - apply N.eqb_neq. intro H. apply intern_inj in H. subst. rewrite list_eqb_refl in E. discriminate.
Qed.

(* omap of a function that interns the key: lookups correspond *)
Lemma omap_assocN {A B} (g : list N * A -> option (N * B)) :
  (forall x y, g x = Some y -> fst y = intern (fst x)) ->
  forall l l', omap g l = Some l' -> forall k v, assocL k l = Some v ->
  exists y, g (k, v) = Some y /\ Pat.assocN (intern k) l' = Some (snd y).
Proof.
  intros Hg. induction l as [|[k0 v0] l IH]; intros l' H k v Ha; [discriminate|].
  cbn [omap] in H. destruct (g (k0, v0)) as [y0|] eqn:Eg; [|discriminate].
  destruct (omap g l) as [r|] eqn:Er; [|discriminate]. inversion H; subst; clear H.
  cbn [assocL] in Ha. destruct y0 as [n0 b0]. pose proof (Hg _ _ Eg) as Hn. cbn [fst] in Hn. subst n0.
  cbn [Pat.assocN]. rewrite intern_eqb'. destruct (list_eqb k k0) eqn:E.
  - inversion Ha; subst. apply list_eqb_eq in E. subst. exists (intern k0, b0). auto.
  - apply (IH _ eq_refl _ _ Ha).
Qed.

Lemma omap_keys {A B} (g : list N * A -> option (N * B)) :
  (forall x y, g x = Some y -> fst y = intern (fst x)) ->
  forall l l', omap g l = Some l' -> map fst l' = map intern (map fst l).
Proof.
  intros Hg. induction l as [|x l IH]; intros l' H; cbn [omap] in H; [inversion H; reflexivity|].
  destruct (g x) as [y|] eqn:Eg; [|discriminate]. destruct (omap g l) as [r|] eqn:Er; [|discriminate].
  inversion H; subst. cbn [map]. rewrite (Hg _ _ Eg), (IH _ eq_refl). reflexivity.
Qed.

Lemma nodupN_intern (l : list (list N)) : NoDup l -> Pat.nodupN (map intern l) = true.
Proof.
  induction 1 as [|x l Hn Hnd IH]; [reflexivity|]. cbn [map Pat.nodupN]. rewrite IH, andb_true_r.
  apply negb_true_iff. unfold Pat.memN. destruct (existsb (N.eqb (intern x)) (map intern l)) eqn:E; [|reflexivity].
  apply existsb_exists in E. destruct E as [y [Hy Heq]]. apply N.eqb_eq in Heq. apply in_map_iff in Hy.
  destruct Hy as [z [<- Hz]]. apply intern_inj in Heq. subst. contradiction.
Qed.

(* a number / range bound that check_pattern accepts lies in the integer type of the translation *)
Lemma range_in_int z ty u1 u2 sg w :
  expect_num_type ty = COk u1 -> expect_pattern_num_in_range z ty = COk u2 ->
  pat_ty intern ty = Some (Pat.TInt sg w) -> Pat.in_int sg w z = true.
Proof.
  intros H1 H2 Ht. destruct ty as [|u|s| | | |]; try discriminate H1; cbn [pat_ty] in Ht; inversion Ht; subst; clear Ht;
    cbn [expect_pattern_num_in_range] in H2;
    (match type of H2 with (if ?c then _ else _) = _ => destruct c eqn:Ec; [discriminate|] end);
    apply orb_false_iff in Ec; destruct Ec as [E1 E2]; apply Z.ltb_ge in E1; apply Z.ltb_ge in E2;
    unfold Pat.in_int, Pat.int_lo, Pat.int_hi; apply andb_true_iff.
  - destruct u; cbn [unsigned_max ubits] in *; unfold u32_max in *.
    + change (2 ^ Z.of_N 32)%Z with 4294967296%Z. split; apply Z.leb_le; lia.
    + change (2 ^ Z.of_N 8)%Z with 256%Z. split; apply Z.leb_le; lia.
    + change (2 ^ Z.of_N 16)%Z with 65536%Z. split; apply Z.leb_le; lia.
    + change (2 ^ Z.of_N 32)%Z with 4294967296%Z. split; apply Z.leb_le; lia.
    + change (2 ^ Z.of_N 64)%Z with 18446744073709551616%Z. split; apply Z.leb_le; lia.
    + change (2 ^ Z.of_N 32)%Z with 4294967296%Z. split; apply Z.leb_le; lia.
  - destruct s; cbn [signed_min signed_max sbits] in *.
    + change (2 ^ (Z.of_N 8 - 1))%Z with 128%Z. split; apply Z.leb_le; lia.
    + change (2 ^ (Z.of_N 16 - 1))%Z with 32768%Z. split; apply Z.leb_le; lia.
    + change (2 ^ (Z.of_N 32 - 1))%Z with 2147483648%Z. split; apply Z.leb_le; lia.
    + change (2 ^ (Z.of_N 64 - 1))%Z with 9223372036854775808%Z. split; apply Z.leb_le; lia.
    + change (2 ^ (Z.of_N 32 - 1))%Z with 2147483648%Z. split; apply Z.leb_le; lia.
Qed.

(* ------------------------------------------------------------------ the translated definitions *)

Variable D : defs.
Variable env : Pat.tyenv.
Hypothesis Henv : pat_tyenv intern D = Some env.

Notation gF := (fun ft : list N * cty => match pat_ty intern (snd ft) with Some t => Some (intern (fst ft), t) | None => None end).
Notation gV := (fun v : list N * option (list cty) =>
                  match snd v with
                  | None => Some (intern (fst v), None)
                  | Some ts => match omap (pat_ty intern) ts with Some l => Some (intern (fst v), Some l) | None => None end
                  end).

Lemma env_parts :
  omap (fun sd : list N * list (list N * cty) => match omap gF (snd sd) with Some fs => Some (intern (fst sd), fs) | None => None end)
       (d_structs D) = Some (Pat.structs env) /\
  omap (fun ed : list N * list (list N * option (list cty)) => match omap gV (snd ed) with Some vs => Some (intern (fst ed), vs) | None => None end)
       (d_enums D) = Some (Pat.enums env).
Proof.
  unfold pat_tyenv in Henv.
  destruct (omap _ (d_structs D)) as [ss|]; [|discriminate]. destruct (omap _ (d_enums D)) as [es|]; [|discriminate].
  inversion Henv. split; reflexivity.
Qed.

Lemma struct_lookup n def : assocL n (d_structs D) = Some def ->
  exists fts, Pat.assocN (intern n) (Pat.structs env) = Some fts /\ omap gF def = Some fts.
Proof.
  intro Ha. pose proof (proj1 env_parts) as Hp.
  match type of Hp with omap ?g _ = _ =>
    assert (Hg : forall x y, g x = Some y -> fst y = intern (fst x))
      by (intros x y H; cbn [snd fst] in H; destruct (omap gF (snd x)); inversion H; reflexivity) end.
  destruct (omap_assocN _ Hg _ _ Hp _ _ Ha) as [y [Hy Hl]].
  cbn [snd fst] in Hy. destruct (omap gF def) as [fs|] eqn:Ef; [|discriminate]. inversion Hy; subst. exists fs. auto.
Qed.

Lemma enum_lookup n vs : assocL n (d_enums D) = Some vs ->
  exists variants, Pat.assocN (intern n) (Pat.enums env) = Some variants /\ omap gV vs = Some variants.
Proof.
  intro Ha. pose proof (proj2 env_parts) as Hp.
  match type of Hp with omap ?g _ = _ =>
    assert (Hg : forall x y, g x = Some y -> fst y = intern (fst x))
      by (intros x y H; cbn [snd fst] in H; destruct (omap gV (snd x)); inversion H; reflexivity) end.
  destruct (omap_assocN _ Hg _ _ Hp _ _ Ha) as [y [Hy Hl]].
  cbn [snd fst] in Hy. destruct (omap gV vs) as [l|] eqn:Ef; [|discriminate]. inversion Hy; subst. exists l. auto.
Qed.

Lemma field_lookup def fts f cty : omap gF def = Some fts -> assocL f def = Some cty ->
  exists t, pat_ty intern cty = Some t /\ Pat.assocN (intern f) fts = Some t.
Proof.
  intros Ho Ha.
  assert (Hg : forall x y, gF x = Some y -> fst y = intern (fst x))
    by (intros x y H; cbn [snd fst] in H; destruct (pat_ty intern (snd x)); inversion H; reflexivity).
  destruct (omap_assocN gF Hg _ _ Ho _ _ Ha) as [y [Hy Hl]].
  cbn [snd fst] in Hy. destruct (pat_ty intern cty) as [t|]; [|discriminate]. inversion Hy; subst. exists t. auto.
Qed.

Lemma variant_lookup vs variants v payload : omap gV vs = Some variants -> assocL v vs = Some payload ->
  match payload with
  | None => Pat.assocN (intern v) variants = Some None
  | Some ts => exists l, omap (pat_ty intern) ts = Some l /\ Pat.assocN (intern v) variants = Some (Some l)
  end.
Proof.
  intros Ho Ha.
  assert (Hg : forall x y, gV x = Some y -> fst y = intern (fst x))
    by (intros x y H; cbn [snd fst] in H; destruct (snd x) as [ts0|];
        [destruct (omap (pat_ty intern) ts0); inversion H; reflexivity|inversion H; reflexivity]).
  destruct (omap_assocN gV Hg _ _ Ho _ _ Ha) as [y [Hy Hl]].
  cbn [snd fst] in Hy. destruct payload as [ts|].
  - destruct (omap (pat_ty intern) ts) as [l|]; [|discriminate]. inversion Hy; subst. exists l. auto.
  - inversion Hy; subst. exact Hl.
Qed.

Lemma pat_ty_tuple ts : pat_ty intern (CTuple ts) =
  match omap (pat_ty intern) ts with Some l => Some (Pat.TTuple l) | None => None end.
Proof.
  cbn [pat_ty].
  assert (E : (fix go (l : list cty) : option (list Pat.ty) :=
                 match l with
                 | [] => Some []
                 | x :: r => match pat_ty intern x, go r with Some a, Some b => Some (a :: b) | _, _ => None end
                 end) ts = omap (pat_ty intern) ts).
  { induction ts as [|x r IH]; [reflexivity|]. cbn [omap]. rewrite IH. reflexivity. }
  rewrite E. reflexivity.
Qed.

(* ------------------------------------------------------------------ check_pattern produces well-typed patterns *)

Definition link_ok (p : upattern) : Prop := forall g ty tp g' t,
  check_pattern D g p ty = COk (tp, g') -> pat_ty intern ty = Some t -> Pat.pat_wt env t (pat_of intern tp) = true.

Lemma fields_loop_link fs : Forall link_ok fs ->
  forall ts l g r g', length fs = length ts -> omap (pat_ty intern) ts = Some l ->
    (fix go (fs : list upattern) (ts : list cty) (g : cenv) : cres (list tpattern * cenv) :=
       match fs, ts with
       | fp :: fr, t :: tr =>
           do r1 <- check_pattern D g fp t; do r2 <- go fr tr (snd r1); COk (fst r1 :: fst r2, snd r2)
       | _, _ => COk ([], g)
       end) fs ts g = COk (r, g') ->
  Pat.forall2b (fun p' t' => Pat.pat_wt env t' p') (map (pat_of intern) r) l = true.
Proof.
  induction 1 as [|q fs Hq Hfs IH]; intros ts l g r g' Hlen Ho H.
  - destruct ts; [|discriminate]. inversion H; subst. cbn in Ho. inversion Ho. reflexivity.
  - destruct ts as [|t ts]; [discriminate|]. cbn [omap] in Ho.
    destruct (pat_ty intern t) as [t1|] eqn:Et; [|discriminate]. destruct (omap (pat_ty intern) ts) as [l2|] eqn:El; [|discriminate].
    inversion Ho; subst; clear Ho.
    apply cbind_ok in H. destruct H as [[p1 g1] [H1 H]]. apply cbind_ok in H. destruct H as [[r2 g2] [H2 H]].
    cbn [fst snd] in *. inversion H; subst; clear H.
    cbn [map Pat.forall2b]. rewrite (Hq _ _ _ _ _ H1 Et). cbn [andb].
    apply (IH ts l2 g1 r2 g'); [cbn [length] in Hlen; congruence|exact El|exact H2].
Qed.

Lemma lenN_eq {A B} (a : list A) (b : list B) : negb (lenN a =? lenN b) = false -> length a = length b.
Proof. intro H. apply negb_false_iff in H. apply N.eqb_eq in H. unfold lenN in H. apply Nat2N.inj in H. exact H. Qed.

Lemma struct_loop_link sd fts fs : Forall (fun f : list N * upattern => link_ok (snd f)) fs ->
  omap gF sd = Some fts ->
  forall seen g r g',
    (fix go (seen : list (list N)) (fs : list (list N * upattern)) (g : cenv)
       : cres (list (list N * tpattern) * cenv) :=
       match fs with
       | [] => COk ([], g)
       | (field_name, field_value) :: fr =>
           if memL field_name seen then CErr E_PatternDoesNotMatchType else
           match assocL field_name sd with
           | Some field_type =>
               do r1 <- check_pattern D g field_value field_type;
               do r2 <- go (field_name :: seen) fr (snd r1);
               COk ((field_name, fst r1) :: fst r2, snd r2)
           | None => CErr E_UnknownStructField
           end
       end) seen fs g = COk (r, g') ->
  forallb (fun fp : N * Pat.pattern => let '(f, p') := fp in
             match Pat.assocN f fts with Some t' => Pat.pat_wt env t' p' | None => false end)
          (map (fun f : list N * tpattern => (intern (fst f), pat_of intern (snd f))) r) = true /\
  NoDup (map fst r) /\ (forall x, In x seen -> ~ In x (map fst r)).
Proof.
  intros HF Ho. induction HF as [|[fname fp] fs Hq Hfs IH]; intros seen g r g' H.
  - inversion H; subst. cbn. repeat split; [constructor|auto].
  - destruct (memL fname seen) eqn:Em; [discriminate|]. destruct (assocL fname sd) as [ft|] eqn:Ea; [|discriminate].
    apply cbind_ok in H. destruct H as [[p1 g1] [H1 H]]. apply cbind_ok in H. destruct H as [[r2 g2] [H2 H]].
    cbn [fst snd] in *. inversion H; subst; clear H.
    destruct (field_lookup _ _ _ _ Ho Ea) as [t [Ht Hl]].
    destruct (IH _ _ _ _ H2) as [Hfb [Hnd Hseen]].
    cbn [map forallb fst snd]. rewrite Hl, (Hq _ _ _ _ _ H1 Ht), Hfb. split; [reflexivity|]. split.
    + constructor; [apply Hseen; left; reflexivity|exact Hnd].
    + intros x Hx [Heq|Hin]; [subst x; unfold memL in Em; rewrite <- not_true_iff_false in Em; apply Em;
                               apply existsb_exists; exists fname; split; [exact Hx|apply list_eqb_refl]
                              |exact (Hseen x (or_intror Hx) Hin)].
Qed.

Theorem pat_link : forall p, link_ok p.
Proof.
  induction p using upattern_ind'; intros g ty tp g' pt HH Ht; cbn [check_pattern] in HH.
  - (* identifier *) inversion HH; subst. reflexivity.
  - destruct ty; try discriminate HH. inversion HH; subst. cbn in Ht. inversion Ht. reflexivity.
  - destruct ty; try discriminate HH. inversion HH; subst. cbn in Ht. inversion Ht. reflexivity.
  - (* unsigned number *)
    apply cbind_ok in HH. destruct HH as [u1 [H1 HH]]. apply cbind_ok in HH. destruct HH as [u2 [H2 HH]]. inversion HH; subst.
    cbn [pat_of Pat.pat_wt]. destruct ty; try discriminate H1; cbn in Ht; inversion Ht; subst; cbn [implb];
      (eapply range_in_int; [exact H1|exact H2|reflexivity]).
  - (* signed number *)
    apply cbind_ok in HH. destruct HH as [u1 [H1 HH]]. apply cbind_ok in HH. destruct HH as [u2 [H2 HH]]. inversion HH; subst.
    cbn [pat_of Pat.pat_wt]. destruct ty; try discriminate H1. cbn in Ht. inversion Ht; subst. cbn [implb andb].
    match goal with H2 : expect_pattern_num_in_range _ (CSigned ?ts) = _ |- _ => eapply (range_in_int _ (CSigned ts) tt); [reflexivity|exact H2|reflexivity] end.
  - (* tuple *)
    apply cbind_ok in HH. destruct HH as [fts [Hft HH]]. destruct ty; try discriminate Hft. cbn in Hft. inversion Hft; subst; clear Hft.
    destruct (negb (lenN fts =? lenN ps)) eqn:El; [discriminate|]. apply lenN_eq in El.
    apply cbind_ok in HH. destruct HH as [[r g2] [Hl HH]]. cbn [fst snd] in HH. inversion HH; subst; clear HH.
    rewrite pat_ty_tuple in Ht. destruct (omap (pat_ty intern) fts) as [l|] eqn:Eo; [|discriminate]. inversion Ht; subst.
    cbn [pat_of Pat.pat_wt]. eapply fields_loop_link; [exact H|symmetry; exact El|exact Eo|exact Hl].
  - (* struct *)
    apply cbind_ok in HH. destruct HH as [sname [Hsn HH]]. destruct ty as [| | | | |sn0|]; try discriminate Hsn. cbn in Hsn.
    assert (sn0 = sname) by congruence. subst sn0. clear Hsn.
    destruct (negb (list_eqb sname n)) eqn:Ene; [discriminate|]. apply negb_false_iff in Ene. apply list_eqb_eq in Ene. subst sname.
    destruct (assocL n (d_structs D)) as [sd|] eqn:Esd; [|discriminate].
    apply cbind_ok in HH. destruct HH as [[r g2] [Hl HH]]. cbn [fst snd] in HH.
    match type of HH with (if ?c then _ else _) = _ => destruct c; [discriminate|] end. inversion HH; subst; clear HH.
    cbn in Ht. inversion Ht; subst. destruct (struct_lookup _ _ Esd) as [fts [Hfts Ho]].
    destruct (struct_loop_link sd fts fs H Ho _ _ _ _ Hl) as [Hfb [Hnd _]].
    cbn [pat_of Pat.pat_wt]. rewrite N.eqb_refl, Hfts. cbn [andb]. rewrite Hfb. cbn [andb orb]. rewrite andb_true_r.
    rewrite map_map. cbn [fst]. rewrite <- (map_map fst intern). apply nodupN_intern. exact Hnd.
  - (* struct, `..` *)
    apply cbind_ok in HH. destruct HH as [sname [Hsn HH]]. destruct ty as [| | | | |sn0|]; try discriminate Hsn. cbn in Hsn.
    assert (sn0 = sname) by congruence. subst sn0. clear Hsn.
    destruct (negb (list_eqb sname n)) eqn:Ene; [discriminate|]. apply negb_false_iff in Ene. apply list_eqb_eq in Ene. subst sname.
    destruct (assocL n (d_structs D)) as [sd|] eqn:Esd; [|discriminate].
    apply cbind_ok in HH. destruct HH as [[r g2] [Hl HH]]. cbn [fst snd] in HH.
    match type of HH with (if ?c then _ else _) = _ => destruct c; [discriminate|] end. inversion HH; subst; clear HH.
    cbn in Ht. inversion Ht; subst. destruct (struct_lookup _ _ Esd) as [fts [Hfts Ho]].
    destruct (struct_loop_link sd fts fs H Ho _ _ _ _ Hl) as [Hfb [Hnd _]].
    cbn [pat_of Pat.pat_wt]. rewrite N.eqb_refl, Hfts. cbn [andb]. rewrite Hfb. cbn [andb orb]. rewrite andb_true_r.
    rewrite map_map. cbn [fst]. rewrite <- (map_map fst intern). apply nodupN_intern. exact Hnd.
  - (* enum unit *)
    destruct ty as [| | | | | |en0]; try discriminate HH.
    destruct (negb (list_eqb en0 e)) eqn:Ene; [discriminate|]. apply negb_false_iff in Ene. apply list_eqb_eq in Ene. subst en0.
    destruct (assocL e (d_enums D)) as [ed|] eqn:Eed; [|discriminate].
    destruct (assocL v ed) as [[pts|]|] eqn:Ev; try discriminate HH. inversion HH; subst.
    cbn in Ht. inversion Ht; subst. destruct (enum_lookup _ _ Eed) as [variants [Hvs Ho]].
    pose proof (variant_lookup _ _ _ _ Ho Ev) as Hv. cbn [pat_of Pat.pat_wt]. rewrite N.eqb_refl, Hvs, Hv. reflexivity.
  - (* enum tuple *)
    destruct ty as [| | | | | |en0]; try discriminate HH.
    destruct (negb (list_eqb en0 e)) eqn:Ene; [discriminate|]. apply negb_false_iff in Ene. apply list_eqb_eq in Ene. subst en0.
    destruct (assocL e (d_enums D)) as [ed|] eqn:Eed; [|discriminate].
    destruct (assocL v ed) as [[pts|]|] eqn:Ev; try discriminate HH.
    destruct (negb (lenN pts =? lenN ps)) eqn:El; [discriminate|]. apply lenN_eq in El.
    apply cbind_ok in HH. destruct HH as [[r g2] [Hl HH]]. cbn [fst snd] in HH. inversion HH; subst; clear HH.
    cbn in Ht. inversion Ht; subst. destruct (enum_lookup _ _ Eed) as [variants [Hvs Ho]].
    destruct (variant_lookup _ _ _ _ Ho Ev) as [l [Hol Hv]].
    cbn [pat_of Pat.pat_wt]. rewrite N.eqb_refl, Hvs, Hv. cbn [andb].
    eapply fields_loop_link; [exact H|symmetry; exact El|exact Hol|exact Hl].
  - (* unsigned range *)
    apply cbind_ok in HH. destruct HH as [u1 [H1 HH]]. apply cbind_ok in HH. destruct HH as [u2 [H2 HH]].
    apply cbind_ok in HH. destruct HH as [u3 [H3 HH]]. inversion HH; subst.
    cbn [pat_of Pat.pat_wt]. destruct ty; try discriminate H1; cbn in Ht; inversion Ht; subst; cbn [implb andb];
      (rewrite (range_in_int _ _ _ _ _ _ H1 H2 eq_refl), (range_in_int _ _ _ _ _ _ H1 H3 eq_refl); reflexivity).
  - (* signed range *)
    apply cbind_ok in HH. destruct HH as [u1 [H1 HH]]. apply cbind_ok in HH. destruct HH as [u2 [H2 HH]].
    apply cbind_ok in HH. destruct HH as [u3 [H3 HH]]. inversion HH; subst.
    cbn [pat_of Pat.pat_wt]. destruct ty; try discriminate H1. cbn in Ht. inversion Ht; subst. cbn [implb andb].
    match goal with H2 : expect_pattern_num_in_range _ (CSigned ?ts) = _ |- _ =>
      rewrite (range_in_int _ (CSigned ts) tt _ _ _ eq_refl H2 eq_refl), (range_in_int _ (CSigned ts) tt _ _ _ eq_refl H3 eq_refl) end. reflexivity.
Qed.

End Link.

(* ------------------------------------------------------------------ the oracle has enough fuel *)

Section Oracle.
Variable intern : list N -> N.
Hypothesis intern_inj : forall a b, intern a = intern b -> a = b.

Lemma omap_In {A B} (g : A -> option B) : forall l l' y, omap g l = Some l' -> In y l' -> exists x, In x l /\ g x = Some y.
Proof.
  induction l as [|a l IH]; intros l' y H Hy; cbn [omap] in H; [inversion H; subst; destruct Hy|].
  destruct (g a) as [b|] eqn:Eg; [|discriminate]. destruct (omap g l) as [r|] eqn:Er; [|discriminate]. inversion H; subst.
  destruct Hy as [<-|Hy]; [exists a; split; [left; reflexivity|exact Eg]|].
  destruct (IH _ _ eq_refl Hy) as [x [Hin Hg]]. exists x. split; [right; exact Hin|exact Hg].
Qed.

(* the definitions of D have pairwise distinct field / variant names *)
Definition defs_nodup (D : defs) : Prop :=
  (forall sd, In sd (d_structs D) -> NoDup (map fst (snd sd))) /\
  (forall ed, In ed (d_enums D) -> NoDup (map fst (snd ed))).

Lemma pat_tyenv_wf D env : defs_nodup D -> pat_tyenv intern D = Some env -> UsefulProofs.env_wf env = true.
Proof.
  intros [Hs He] Henv. destruct (env_parts intern D env Henv) as [Hps Hpe].
  unfold UsefulProofs.env_wf, Covers.env_ok. apply andb_true_iff. split; apply forallb_forall.
  - intros [n vs] Hin. destruct (omap_In _ _ _ _ Hpe Hin) as [[n0 vs0] [Hin0 Hg]]. cbn [fst snd] in Hg.
    destruct (omap _ vs0) as [l|] eqn:Eo; [|discriminate]. inversion Hg; subst. cbn [snd].
    match type of Eo with omap ?g _ = _ =>
      assert (Hg0 : forall x y, g x = Some y -> fst y = intern (fst x))
        by (intros x y H; cbn [snd fst] in H; destruct (snd x) as [ts0|];
            [destruct (omap (pat_ty intern) ts0); inversion H; reflexivity|inversion H; reflexivity]) end.
    rewrite (omap_keys intern _ Hg0 _ _ Eo).
    apply (nodupN_intern intern intern_inj). apply (He _ Hin0).
  - intros [n fs] Hin. destruct (omap_In _ _ _ _ Hps Hin) as [[n0 def] [Hin0 Hg]]. cbn [fst snd] in Hg.
    destruct (omap _ def) as [l|] eqn:Eo; [|discriminate]. inversion Hg; subst. cbn [snd].
    match type of Eo with omap ?g _ = _ =>
      assert (Hg0 : forall x y, g x = Some y -> fst y = intern (fst x))
        by (intros x y H; cbn [snd fst] in H; destruct (pat_ty intern (snd x)); inversion H; reflexivity) end.
    rewrite (omap_keys intern _ Hg0 _ _ Eo).
    apply (nodupN_intern intern intern_inj). apply (Hs _ Hin0).
Qed.

(* the scrutinee type unfolds within the depth the model gives the oracle *)
Definition tok_ok (D : defs) (ty : cty) : Prop :=
  forall env t, pat_tyenv intern D = Some env -> pat_ty intern ty = Some t -> UsefulProofs.tok env 64 t = true.

(* every pattern was produced by check_pattern at the type *)
Definition from_check (D : defs) (ty : cty) (tp : tpattern) : Prop :=
  exists g p g', check_pattern D g p ty = COk (tp, g').

Theorem exh_nf D ps ty : defs_nodup D -> tok_ok D ty -> Forall (from_check D ty) ps ->
  nf (check_exhaustiveness intern D ps ty).
Proof.
  intros Hnd Htok Hps.
  assert (Hmain : match pat_tyenv intern D, pat_ty intern ty with
                  | Some env, Some t =>
                      match Useful.check_exhaustive (Useful.fuel_bound env 64 [t]) env t (map (pat_of intern) ps) with
                      | Some [] => COk tt
                      | Some _ => CErr E_PatternsAreNotExhaustive
                      | None => CNoFuel
                      end
                  | _, _ => COutside
                  end <> CNoFuel).
  { destruct (pat_tyenv intern D) as [env|] eqn:Ee; [|discriminate]. destruct (pat_ty intern ty) as [t|] eqn:Et; [|discriminate].
    pose proof (UsefulProofs.useful_fuel env 64 (pat_tyenv_wf D env Hnd Ee) (Useful.fuel_bound env 64 [t]) [t]
                  (map (fun p => [p]) (map (pat_of intern) ps)) [Useful.wild]) as Hu.
    unfold Useful.check_exhaustive.
    destruct (Useful.useful _ env [t] _ [Useful.wild]) as [[|w ws]|] eqn:Eu; try discriminate.
    exfalso.
    assert (H1 : Forall (fun t0 : Pat.ty => UsefulProofs.tok env 64 t0 = true) [t])
      by (apply Forall_cons; [apply (Htok env t Ee Et)|apply Forall_nil]).
    assert (H2 : Forall (fun r : list Pat.pattern => UsefulProofs.swt env [t] r = true)
                   (map (fun p : Pat.pattern => [p]) (map (pat_of intern) ps))).
    { apply Forall_forall. intros r Hr. apply in_map_iff in Hr. destruct Hr as [p [<- Hp]].
      apply in_map_iff in Hp. destruct Hp as [tp [<- Htp]]. rewrite Forall_forall in Hps.
      destruct (Hps _ Htp) as [g [up [g' Hc]]].
      unfold UsefulProofs.swt. cbn. rewrite (pat_link intern intern_inj D env Ee up g ty tp g' t Hc Et). reflexivity. }
    exact (Hu H1 H2 eq_refl (le_n _) eq_refl). }
  unfold check_exhaustiveness.
  assert (Hnf : forall r : cres unit, r <> CNoFuel -> nf r) by (intros [] H; try reflexivity; [apply andb_false_r|contradiction]).
  destruct ps as [|p [|p2 ps']]; try (apply Hnf; exact Hmain).
  destruct (irrefutable p); [reflexivity|apply Hnf; exact Hmain].
Qed.

End Oracle.

Lemma post_self {A} (r : cres A) : nf r -> post (fun a => r = COk a) r.
Proof. destruct r; cbn; auto. discriminate. Qed.

Local Open Scope nat_scope.
Section Adequacy3.
Variable intern : list N -> N.
Variable D : defs.
(* the oracle is only asked about pattern lists that came out of check_pattern at the type *)
Hypothesis Hex2 : forall ps ty, Forall (from_check D ty) ps -> nf (check_exhaustiveness intern D ps ty).
Notation M := (dmax (d_fns D)).
Notation check_expr := (check_expr intern).
Notation check_stmt := (check_stmt intern).
Notation check_stmts := (check_stmts intern).
Notation check_block := (check_block intern).
Notation check_fn := (check_fn intern).
Notation GE := (GoalE intern D).
Notation GSS := (GoalSS intern D).
Notation GB := (GoalB intern D).
Notation GS := (GoalS intern D).
Notation GF := (GoalF intern D).

Ltac refold_goal :=
  fold (Infer.check_expr intern) (Infer.check_stmts intern) (Infer.check_block intern)
       (Infer.check_fn intern) (Infer.check_stmt intern).

Ltac destr_and := cbv beta in *; unfold chk_is in *; cbn [fst snd st_checking with_env] in *;
  repeat match goal with H : _ /\ _ |- _ => destruct H end.



(* side conditions: fuel bounds *)
Ltac bound :=
  cbn [xd sdx adx] in *; unfold bdx in *;
  repeat match goal with
  | Hin : In ?x ?l |- _ =>
      match goal with
      | _ : context [list_max (map ?g l)] |- _ =>
          lazymatch goal with
          | _ : g x <= list_max (map g l) |- _ => fail
          | _ => pose proof (in_list_max g l x Hin)
          end
      end
  end;
  cbv beta in *; cbn [xd sdx adx fst snd] in *; lia.

Ltac chk := first [eassumption | cbn [st_checking with_env]; eassumption | reflexivity].




Ltac nf_tac :=
  apply post_nf;
  first [ apply np_concrete_of | apply np_expect_array_type | apply np_expect_struct_type | apply np_expect_tuple_type
        | apply np_expect_num_type | apply np_expect_signed_num_type | apply np_expect_bool_or_num_type
        | apply np_check_pattern ].

Ltac sub_post IHe IHss IHb IHf c0 k f :=
  lazymatch goal with
  | |- post _ (Infer.check_expr _ _ _ _ _) => eapply (IHe c0 k); [chk | eassumption | bound]
  | |- post _ (mapM_st (Infer.check_expr _ _ _) _ _) =>
      eapply (post_mapM_st _ c0 (fun te => td te <= f));
        [intros ? ? ? ?; eapply (IHe c0 k); [eassumption | eassumption | bound] | chk]
  | |- post _ (Infer.check_block _ _ _ _ _) => eapply (IHb c0 k); [chk | eassumption | bound]
  | |- post _ (Infer.check_stmts _ _ _ _ _) => eapply (IHss c0 k); [chk | eassumption | bound]
  | |- post _ (check_type _ _ _) => eapply (post_check_type f f); [first [assumption | lia] | lia]
  | |- post _ (constrain_to_i32 _ _) => eapply (post_constrain_to_i32 f f); [first [assumption | lia] | lia]
  | |- post _ (mapM _ _) =>
      eapply (post_mapM _ (fun e => td e <= f) (fun e => td e <= f));
        [intros ? ?; eapply (post_check_type f f); [assumption | lia] | assumption]
  | |- post _ (zipM _ _ _) =>
      eapply (post_zipM _ (fun e => td e <= f));
        [intros ? ? ?; eapply (post_check_type f f); [assumption | lia] | assumption]
  | |- post _ (accs_loop _ _ _ _ _ _) =>
      eapply (post_accs_loop D _ f c0);
        [intros ? ? ? ?; eapply (IHe c0 k); [eassumption | eassumption | bound] | chk]
  | |- post _ (struct_lit_loop _ _ _ _ _ _) =>
      eapply (post_struct_lit_loop _ f c0);
        [intros ? ? ? ?; eapply (IHe c0 k); [eassumption | eassumption | bound] | chk]
  | |- post _ (unify _ _ _) => eapply (post_unify f f); [first [assumption | lia] | first [assumption | lia] | lia]
  | |- post _ (coc_unsigned_deep _ _ _) => eapply (post_coc_u_deep f f); [first [assumption | lia] | lia]
  | |- post _ (coc_signed_deep _ _ _) => eapply (post_coc_s_deep f f); [first [assumption | lia] | lia]
  | |- post _ (check_or_constrain_unsigned _ _) => apply post_coc_u
  | |- post _ (check_or_constrain_signed _ _) => apply post_coc_s
  | |- post _ (check_pattern _ _ _ _) => apply post_self; apply np_check_pattern
  | |- post _ (check_exhaustiveness _ _ [fst ?a] _) =>
      apply post_nf; apply Hex2; apply Forall_cons;
        [destruct a; cbn [fst]; eexists _, _, _; eassumption | apply Forall_nil]
  | |- _ => nf_tac
  end.

Ltac pg tac :=
  repeat (cbv beta zeta; lazymatch goal with
  | |- post _ (COk _) => cbn [post fst snd]; unfold chk_is; cbn [fst snd st_checking with_env]
  | |- post _ (CErr _) => exact I
  | |- post _ COutside => exact I
  | |- post _ (cbind _ _) => eapply post_bind; [tac | intros ? ?; destr_and]
  | |- post _ (if ?c then _ else _) => destruct c eqn:?
  | |- post _ (match ?x with _ => _ end) => destruct x eqn:?
  end).

Ltac fin :=
  repeat match goal with H : Forall (fun e => td e <= _) _ |- _ => apply Forall_td_max in H end;
  repeat match goal with H : Forall (fun s => tsd s <= _) _ |- _ => apply (proj2 (list_max_map_le tsd _ _)) in H end;
  try (split; [chk|]); cbn [td tsd fst snd] in *; try lia.


Theorem adequacy_all3 : forall f, GE f /\ GSS f /\ GB f /\ GS f /\ GF f.
Proof.
  induction f as [|f (IHe & IHss & IHb & IHs & IHf)].
  { split; [|split; [|split; [|split]]]; intros c0 k st x; intros.
    - pose proof (xd_pos x). lia.
    - unfold bdx in *. lia.
    - unfold bdx in *. lia.
    - pose proof (sdx_pos x). lia.
    - lia. }
  destruct (fuel_stmts intern D f IHs) as [HSS HB].
  split; [|split; [exact HSS|split; [exact HB|split]]].
  - (* expressions *)
    intros c0 k st e Hst Hk Hf. remember e as e0 eqn:Ee. destruct e; rewrite Ee in *; clear Ee; cbn [Infer.check_expr]; refold_goal.
    all: try solve [pg ltac:(idtac; sub_post IHe IHss IHb IHf c0 k f); fin].
    + (* match *)
      eapply post_bind; [sub_post IHe IHss IHb IHf c0 k f|]. intros rs [Hrs1 Hrs2].
      assert (Hmain : forall ty0,
        post (chk_is c0 (fun te : texpr => td te <= S f))
          (do rc <- mapM_st (fun (st0 : cstate) (pc : upattern * xexpr) =>
                      do rp <- check_pattern D (env_push (st_env st0)) (fst pc) ty0;
                      do re <- check_expr f D (with_env st0 (snd rp)) (snd pc);
                      COk ((fst rp, fst re), with_env (snd re) (env_pop (st_env (snd re))))) (snd rs) arms;
           match fst rc with
           | [] => CErr E_Panic
           | (_, first) :: _ =>
               do clauses' <- mapM (fun pc : tpattern * texpr =>
                    if negb (cty_eqb (pick_elem_ty (ty_of first) (map (fun pc0 : tpattern * texpr => ty_of (snd pc0)) (fst rc))) (ty_of (snd pc)))
                    then match pick_elem_ty (ty_of first) (map (fun pc0 : tpattern * texpr => ty_of (snd pc0)) (fst rc)) with
                         | CUnsigned expected => do x <- coc_unsigned_deep f (snd pc) expected; COk (fst pc, x)
                         | CSigned expected => do x <- coc_signed_deep f (snd pc) expected; COk (fst pc, x)
                         | _ => CErr E_UnexpectedType
                         end
                    else COk pc) (fst rc);
               do _ <- check_exhaustiveness intern D (map fst clauses') ty0;
               COk (TE (TMatch (fst rs) clauses') (pick_elem_ty (ty_of first) (map (fun pc0 : tpattern * texpr => ty_of (snd pc0)) (fst rc))), snd rc)
           end)).
      { intro ty0.
        eapply (post_bind (chk_is c0 (Forall (fun pc : tpattern * texpr => td (snd pc) <= f /\ from_check D ty0 (fst pc))))).
        { eapply post_mapM_st; [|exact Hrs1]. intros st0 pc Hin Hst0. cbv beta.
          eapply post_bind; [apply post_self; apply np_check_pattern|]. intros rp Hrp.
          eapply post_bind; [eapply (IHe c0 k); [chk|exact Hk|bound]|]. intros re [Hre1 Hre2].
          cbn [post]. split; [chk|]. cbn [fst snd]. split; [exact Hre2|]. destruct rp as [tp g1]. cbn [fst]. eexists _, _, _. exact Hrp. }
        intros rc [Hrc1 Hrc2]. destruct (fst rc) as [|[p0 first] rc'] eqn:Erc; [exact I|]. rewrite <- Erc in Hrc2 |- *.
        eapply (post_bind (Forall (fun pc : tpattern * texpr => td (snd pc) <= f /\ from_check D ty0 (fst pc)))).
        { eapply (post_mapM _ (fun pc : tpattern * texpr => td (snd pc) <= f /\ from_check D ty0 (fst pc))); [|exact Hrc2].
          intros pc [Hpc Hfc]. destruct (negb _); [|split; assumption].
          destruct (pick_elem_ty _ _); try exact I.
          - eapply post_bind; [apply (post_coc_u_deep f f); [exact Hpc|lia]|]. intros x Hx. cbn [post fst snd]. cbv beta in *. split; [lia|exact Hfc].
          - eapply post_bind; [apply (post_coc_s_deep f f); [exact Hpc|lia]|]. intros x Hx. cbn [post fst snd]. cbv beta in *. split; [lia|exact Hfc]. }
        intros cl Hcl. eapply post_bind.
        { apply post_nf. apply Hex2. apply Forall_forall. intros tp Htp. apply in_map_iff in Htp. destruct Htp as [pc [<- Hpc]].
          rewrite Forall_forall in Hcl. exact (proj2 (Hcl _ Hpc)). }
        intros u _. cbn [post]. split; [chk|]. cbn [fst td].
        assert (Hcl2 : Forall (fun a : tpattern * texpr => td (snd a) <= f) cl) by (eapply Forall_impl; [|exact Hcl]; intros a [Ha _]; exact Ha).
        apply (proj2 (list_max_map_le (fun a : tpattern * texpr => td (snd a)) _ _)) in Hcl2. lia. }
      destruct (ty_of (fst rs)); try exact I; apply Hmain.
    + (* call *)
      eapply (post_bind (fun st1 : cstate => st_checking st1 = c0)).
      { destruct (negb _); [|exact Hst]. destruct (find _ (d_fns D)) eqn:Ef; [|exact Hst].
        eapply post_bind; [eapply (IHf c0 k); [exact Hst|exact Hk|eapply find_In; exact Ef|bound]|].
        intros r Hr. cbn [post st_checking]. exact Hr. }
      intros st1 Hst1. pg ltac:(idtac; sub_post IHe IHss IHb IHf c0 k f); fin.
  - (* statements *)
    intros c0 k st s Hst Hk Hf. remember s as s0 eqn:Es. destruct s; rewrite Es in *; clear Es; cbn [Infer.check_stmt]; refold_goal.
    all: try solve [pg ltac:(idtac; sub_post IHe IHss IHb IHf c0 k f); fin].
    + (* let *)
      eapply post_bind; [sub_post IHe IHss IHb IHf c0 k f|]. intros r [Hr1 Hr2].
      eapply (post_bind (fun b' : texpr => td b' <= f)).
      { destruct ty; [|exact Hr2]. eapply post_bind; [nf_tac|]. intros ty' _. eapply (post_check_type f f); [exact Hr2|lia]. }
      intros b' Hb'. pg ltac:(idtac; sub_post IHe IHss IHb IHf c0 k f); fin.
    + (* let mut *)
      eapply post_bind; [sub_post IHe IHss IHb IHf c0 k f|]. intros r [Hr1 Hr2].
      eapply (post_bind (fun b' : texpr => td b' <= f)).
      { destruct ty; [|exact Hr2]. eapply post_bind; [nf_tac|]. intros ty' _. eapply (post_check_type f f); [exact Hr2|lia]. }
      intros b' Hb'. pg ltac:(idtac; sub_post IHe IHss IHb IHf c0 k f); fin.
  - (* functions *)
    intros c0 k st fd Hst Hk Hin Hf. cbn [Infer.check_fn]. refold_goal.
    destruct (memL (uf_name fd) (st_checking st)) eqn:Em; [exact I|].
    eapply post_bind; [apply post_nf; apply np_params_loop|]. intros rp _.
    rewrite Hst in Em. pose proof (cnt_enter (d_fns D) c0 fd Hin Em) as Hcnt.
    destruct k as [|k']; [lia|].
    assert (Hfn : S (bdx (uf_body fd)) <= dmax (d_fns D)) by exact (in_list_max fneed (d_fns D) fd Hin).
    eapply post_bind.
    { eapply (IHb (uf_name fd :: c0) k'); [cbn [st_checking]; rewrite Hst; reflexivity|lia|].
      rewrite Nat.mul_succ_l in Hf. lia. }
    intros [[body ty] st1] [Hb1 Hb2]. cbn [fst snd] in *. cbv beta iota zeta.
    eapply post_bind; [nf_tac|]. intros ret_ty _.
    eapply (post_bind (fun _ : list tstmt => True)).
    { destruct (last (map Some body) None) as [[]|];
        try (destruct (negb _); [exact I|exact I]).
      eapply post_weaken; [eapply (post_map_last_expr _ f); [|exact Hb2]|auto].
      intros e1 He1. eapply (post_check_type f f); [exact He1|lia]. }
    intros body' _. cbn [post snd st_checking]. exact Hst.
Qed.

End Adequacy3.

(* ================================================================ whole programs *)

Lemma memL_notin x l : memL x l = false -> ~ In x l.
Proof.
  unfold memL. intros H Hin. rewrite <- not_true_iff_false in H. apply H.
  apply existsb_exists. exists x. split; [exact Hin|apply list_eqb_refl].
Qed.

Lemma struct_def_nodup3 sn en sd r : check_struct_def sn en sd = COk r -> NoDup (map fst (snd r)).
Proof.
  unfold check_struct_def. intro H. apply cbind_ok in H. destruct H as [fields [Hf H]]. inversion H; subst; clear H. cbn [snd].
  assert (Hgen : forall fs seen fields,
    (fix go (seen : list (list N)) (fs : list (list N * utype)) : cres (list (list N * cty)) :=
       match fs with
       | [] => COk []
       | (name, ty) :: r =>
           if memL name seen then CErr E_DuplicateStructField else
           do ty' <- as_concrete_type sn en ty; do r' <- go (name :: seen) r; COk ((name, ty') :: r')
       end) seen fs = COk fields ->
    NoDup (map fst fields) /\ forall x, In x seen -> ~ In x (map fst fields)).
  { induction fs as [|[n ty] fs IH]; intros seen fields0 H0.
    - inversion H0; subst. split; [constructor|auto].
    - destruct (memL n seen) eqn:Em; [discriminate|]. apply cbind_ok in H0. destruct H0 as [ty' [_ H0]].
      apply cbind_ok in H0. destruct H0 as [r' [Hr H0]]. inversion H0; subst; clear H0.
      destruct (IH _ _ Hr) as [Hnd Hs]. cbn [map fst]. split.
      + constructor; [apply Hs; left; reflexivity|exact Hnd].
      + intros x Hx [Heq|Hin]; [subst x; exact (memL_notin _ _ Em Hx)|exact (Hs x (or_intror Hx) Hin)]. }
  exact (proj1 (Hgen _ _ _ Hf)).
Qed.

Lemma enum_def_nodup3 sn en ed r : check_enum_def sn en ed = COk r -> NoDup (map fst (snd r)).
Proof.
  unfold check_enum_def. intro H. apply cbind_ok in H. destruct H as [variants [Hv H]]. inversion H; subst; clear H. cbn [snd].
  assert (Hgen : forall vs seen variants,
    (fix go (seen : list (list N)) (vs : list uvariant) : cres (list (list N * option (list cty))) :=
       match vs with
       | [] => COk []
       | v :: r =>
           if memL (variant_name v) seen then CErr E_DuplicateEnumVariant else
           do v' <- match v with
                    | UVUnit n => COk (n, None)
                    | UVTuple n tys => do tys' <- mapM (as_concrete_type sn en) tys; COk (n, Some tys')
                    end;
           do r' <- go (variant_name v :: seen) r; COk (v' :: r')
       end) seen vs = COk variants ->
    NoDup (map fst variants) /\ forall x, In x seen -> ~ In x (map fst variants)).
  { induction vs as [|v vs IH]; intros seen variants0 H0.
    - inversion H0; subst. split; [constructor|auto].
    - destruct (memL (variant_name v) seen) eqn:Em; [discriminate|]. apply cbind_ok in H0. destruct H0 as [v' [Hv' H0]].
      apply cbind_ok in H0. destruct H0 as [r' [Hr H0]]. inversion H0; subst; clear H0.
      assert (Hn : fst v' = variant_name v).
      { destruct v as [n|n tys]; [inversion Hv'; reflexivity|]. apply cbind_ok in Hv'. destruct Hv' as [tys' [_ Hv']]. inversion Hv'; reflexivity. }
      destruct (IH _ _ Hr) as [Hnd Hs]. cbn [map]. rewrite Hn. split.
      + constructor; [apply Hs; left; reflexivity|exact Hnd].
      + intros x Hx [Heq|Hin]; [subst x; exact (memL_notin _ _ Em Hx)|exact (Hs x (or_intror Hx) Hin)]. }
  exact (proj1 (Hgen _ _ _ Hv)).
Qed.

Section Terminates.
Variable intern : list N -> N.
Hypothesis intern_inj : forall a b, intern a = intern b -> a = b.

Lemma post_pub_loop3 D fuel (Hex2 : forall ps ty, Forall (from_check D ty) ps -> nf (check_exhaustiveness intern D ps ty)) : 1 + length (d_fns D) * dmax (d_fns D) <= fuel ->
  forall fns st, (forall fd, In fd fns -> In fd (d_fns D)) -> st_checking st = [] ->
  post (fun _ : cstate => True)
    ((fix go (fns : list ufndef) (st : cstate) : cres cstate :=
        match fns with
        | [] => COk st
        | fd :: r =>
            if uf_pub fd then
              match uf_params fd with
              | [] => CErr E_PubFnWithoutParams
              | _ =>
                  do r1 <- check_fn intern fuel D st fd;
                  go r (mkSt (st_env (snd r1))
                             ((uf_name fd, fst r1) ::
                              filter (fun nd => negb (list_eqb (fst nd) (uf_name fd))) (st_typed (snd r1)))
                             (st_checking (snd r1)))
              end
            else go r st
        end) fns st).
Proof.
  intros Hfuel. induction fns as [|fd fns IH]; intros st Hsub Hst; [exact I|].
  destruct (uf_pub fd); [|apply IH; [intros; apply Hsub; right; assumption|exact Hst]].
  destruct (uf_params fd); [exact I|].
  eapply post_bind.
  - eapply (proj2 (proj2 (proj2 (proj2 (adequacy_all3 intern D Hex2 fuel)))) [] (length (d_fns D)));
      [exact Hst|rewrite cnt_nil; lia|apply Hsub; left; reflexivity|exact Hfuel].
  - intros r1 Hr1. apply IH; [intros; apply Hsub; right; assumption|exact Hr1].
Qed.

Theorem check_terminates_depth P fuel :
  (forall D ty ps, d_fns D = up_fns P -> Forall (from_check D ty) ps -> tok_ok intern D ty) ->
  check_fuel_needed P <= fuel -> check_program_t intern fuel P <> CNoFuel.
Proof.
  intros Hdepth Hfuel. apply (post_nofuel (fun _ => True)). unfold check_program_t.
  eapply post_bind; [apply post_nf; apply np_check_consts|]. intros consts _.
  assert (Hns : nf (mapM (check_struct_def (map us_name (up_structs P)) (map ue_name (up_enums P))) (up_structs P)))
    by (apply np_mapM; intro; apply np_check_struct_def).
  assert (Hne : nf (mapM (check_enum_def (map us_name (up_structs P)) (map ue_name (up_enums P))) (up_enums P)))
    by (apply np_mapM; intro; apply np_check_enum_def).
  destruct (mapM (check_struct_def (map us_name (up_structs P)) (map ue_name (up_enums P))) (up_structs P)) as [structs| | |] eqn:Es;
    try exact I; [|discriminate Hns].
  cbn [cbind].
  destruct (mapM (check_enum_def (map us_name (up_structs P)) (map ue_name (up_enums P))) (up_enums P)) as [enums| | |] eqn:Ee;
    try exact I; [|discriminate Hne].
  cbn [cbind].
  set (field_tys := flat_map (fun sd => map snd (us_fields sd)) (up_structs P) ++
                    flat_map (fun ed => flat_map (fun v => match v with UVTuple _ ts => ts | UVUnit _ => [] end)
                                                 (ue_variants ed)) (up_enums P)).
  set (Dm := list_max (map utd field_tys)).
  assert (Hut : forall ut, In ut field_tys -> utd ut <= Dm) by (intros ut Hin; apply (in_list_max utd field_tys ut Hin)).
  assert (Dm_ok : forall name t, In t (field_types_of structs enums name) -> ctd t <= Dm).
  { intros name t Ht. unfold field_types_of in Ht. destruct (assocL name structs) as [def|] eqn:Ea.
    - apply assocL_In' in Ea. destruct (mapM_In' _ _ _ _ Es Ea) as [sd [Hsd Hc]].
      apply in_map_iff in Ht. destruct Ht as [ft [<- Hft]].
      eapply (struct_def_ctd _ _ _ _ Dm Hc); [|exact Hft].
      intros ut Hin. apply Hut. unfold field_tys. apply in_or_app. left. apply in_flat_map. exists sd. split; assumption.
    - destruct (assocL name enums) as [vs|] eqn:Eb; [|destruct Ht].
      apply assocL_In' in Eb. destruct (mapM_In' _ _ _ _ Ee Eb) as [ed [Hed Hc]].
      apply in_flat_map in Ht. destruct Ht as [[vn [ts|]] [Hv Ht]]; [|destruct Ht]. cbn [snd] in Ht.
      eapply (enum_def_ctd _ _ _ _ Dm Hc); [|exact Hv|exact Ht].
      intros v ut Hvin Hin. apply Hut. unfold field_tys. apply in_or_app. right.
      apply in_flat_map. exists ed. split; [exact Hed|]. apply in_flat_map. exists v. split; assumption. }
  eapply post_bind.
  { apply post_nf. apply np_mapM. intro name. apply np_bind; [|intros r _; destruct (fst r); reflexivity].
    eapply post_to_nf. eapply (ctd_adequate structs enums name Dm Dm_ok).
    unfold un. rewrite cnt_nil. unfold names. rewrite map_length, app_length, !map_length.
    rewrite (mapM_length _ _ _ Es), (mapM_length _ _ _ Ee).
    unfold check_fuel_needed, type_fuel_needed in Hfuel. fold field_tys in Hfuel. fold Dm in Hfuel.
    assert (Hc : ctd (match assocL name structs with Some _ => CStruct name | None => CEnum name end) = 1)
      by (destruct (assocL name structs); reflexivity).
    rewrite Hc. nia. }
  intros u _. cbv zeta.
  eapply post_bind.
  { match goal with |- context [check_fn intern fuel ?D0] => set (D := D0) end.
    assert (Hnd : defs_nodup D).
    { split; cbn [D d_structs d_enums].
      - intros sd Hin. destruct (mapM_In' _ _ _ _ Es Hin) as [usd [_ Hc]]. exact (struct_def_nodup3 _ _ _ _ Hc).
      - intros ed Hin. destruct (mapM_In' _ _ _ _ Ee Hin) as [ued [_ Hc]]. exact (enum_def_nodup3 _ _ _ _ Hc). }
    apply (post_pub_loop3 D fuel); [|cbn [D d_fns]|intros fd H; exact H|reflexivity].
    { intros ps0 ty0 Hfc. apply (exh_nf intern intern_inj D ps0 ty0 Hnd); [|exact Hfc]. apply (Hdepth D ty0 ps0 eq_refl Hfc). }
    unfold check_fuel_needed in Hfuel. lia. }
  intros st _. destruct (existsb _ _); exact I.
Qed.

End Terminates.

Print Assumptions pat_link.
Print Assumptions exh_nf.
Print Assumptions adequacy_all3.
Print Assumptions check_terminates_depth.
