(* The UNTYPED program the type checker (src/check.rs) receives: a mirror of ast.rs
   `Program<()>`, `FnDef<()>`, `ParamDef`, `StructDef`, `EnumDef`, `Variant`, `ConstDef`,
   `ConstExpr`, `ExprEnum<()>`, `StmtEnum<()>`, `Accessor<()>`.

   Front/ParseExpr.v already has the expression / statement trees the PARSER MODEL produces
   ([uexpr], [ustmt], [uaccessor]); its inductive types are closed and lack the forms
   ArrayLiteral, ArrayRepeatLiteral, ArrayRepeatLiteralConst, Range, StructLiteral, EnumLiteral
   and BuiltInFnCall::Join.  The checker model therefore reads the COMPLETE mirror [xexpr] /
   [xstmt] / [xaccessor] defined here (every constructor of ast.rs ExprEnum, same order of
   arguments), and [xexpr_of_uexpr] embeds the parser model's trees into it.  Patterns, types,
   operators and number suffixes are those of ParseExpr.v / Scan.v ([upattern], [utype],
   [unary_op], [bin_op], [unsigned_num_type], [signed_num_type]); names are byte strings
   ([list N]).  Source locations (MetaInfo) are dropped, as in ParseExpr.v. *)
From GV Require Import Base.Util Front.Scan Front.ParseExpr.

Inductive xexpr :=
| XTrue
| XFalse
| XNumUnsigned (n : N) (t : unsigned_num_type)
| XNumSigned (z : Z) (t : signed_num_type)
| XIdentifier (s : list N)
| XArrayLiteral (es : list xexpr)
| XArrayRepeatLiteral (e : xexpr) (n : N)
| XArrayRepeatLiteralConst (e : xexpr) (c : list N)
| XArrayAccess (a i : xexpr)
| XTupleLiteral (es : list xexpr)
| XTupleAccess (e : xexpr) (i : N)
| XStructAccess (e : xexpr) (f : list N)
| XStructLiteral (name : list N) (fields : list (list N * xexpr))
| XEnumLiteral (e v : list N) (args : option (list xexpr))   (* None = VariantExprEnum::Unit *)
| XMatch (e : xexpr) (arms : list (upattern * xexpr))
| XUnaryOp (o : unary_op) (e : xexpr)
| XOp (o : bin_op) (l r : xexpr)
| XBlock (b : list xstmt)
| XFnCall (f : list N) (args : list xexpr)
| XJoin (args : list xexpr)                                  (* BuiltInFnCall::Join *)
| XIf (c t e : xexpr)
| XCast (ty : utype) (e : xexpr)
| XRange (lo hi : N) (t : unsigned_num_type)
with xstmt :=
| XSLet (p : upattern) (ty : option utype) (e : xexpr)
| XSLetMut (x : list N) (ty : option utype) (e : xexpr)
| XSVarAssign (x : list N) (accs : list xaccessor) (e : xexpr)
| XSForEach (p : upattern) (e : xexpr) (body : list xstmt)
| XSExpr (e : xexpr)
with xaccessor :=
| XAArray (index : xexpr)
| XATuple (index : N)
| XAStruct (field : list N).

(* the embedding of the parser model's trees *)
Fixpoint xexpr_of_uexpr (e : uexpr) : xexpr :=
  match e with
  | UTrue => XTrue
  | UFalse => XFalse
  | UNumUnsigned n t => XNumUnsigned n t
  | UNumSigned z t => XNumSigned z t
  | UIdentifier s => XIdentifier s
  | UArrayAccess a i => XArrayAccess (xexpr_of_uexpr a) (xexpr_of_uexpr i)
  | UTupleLiteral es => XTupleLiteral (map xexpr_of_uexpr es)
  | UTupleAccess e i => XTupleAccess (xexpr_of_uexpr e) i
  | UStructAccess e f => XStructAccess (xexpr_of_uexpr e) f
  | UUnaryOp o e => XUnaryOp o (xexpr_of_uexpr e)
  | UOp o l r => XOp o (xexpr_of_uexpr l) (xexpr_of_uexpr r)
  | UFnCall f args =>
      (* BuiltInFnCall::try_from_ident_args: the parser builds the built-in call for the name `join` *)
      if list_eqb f [106; 111; 105; 110]%N then XJoin (map xexpr_of_uexpr args) else XFnCall f (map xexpr_of_uexpr args)
  | UIf c t e => XIf (xexpr_of_uexpr c) (xexpr_of_uexpr t) (xexpr_of_uexpr e)
  | UCast ty e => XCast ty (xexpr_of_uexpr e)
  | UBlock b => XBlock (map xstmt_of_ustmt b)
  | UMatch e arms => XMatch (xexpr_of_uexpr e) (map (fun pa => (fst pa, xexpr_of_uexpr (snd pa))) arms)
  | UArrayLiteral es => XArrayLiteral (map xexpr_of_uexpr es)
  | UArrayRepeat e n => XArrayRepeatLiteral (xexpr_of_uexpr e) n
  | UArrayRepeatConst e c => XArrayRepeatLiteralConst (xexpr_of_uexpr e) c
  | URange lo hi t => XRange lo hi t
  | UStructLiteral n fs => XStructLiteral n (map (fun f => (fst f, xexpr_of_uexpr (snd f))) fs)
  | UEnumLiteral e v args => XEnumLiteral e v (match args with None => None | Some es => Some (map xexpr_of_uexpr es) end)
  end
with xstmt_of_ustmt (s : ustmt) : xstmt :=
  match s with
  | SLet p ty e => XSLet p ty (xexpr_of_uexpr e)
  | SLetMut x ty e => XSLetMut x ty (xexpr_of_uexpr e)
  | SVarAssign x accs e => XSVarAssign x (map xaccessor_of_uaccessor accs) (xexpr_of_uexpr e)
  | SForEach p e body => XSForEach p (xexpr_of_uexpr e) (map xstmt_of_ustmt body)
  | SExpr e => XSExpr (xexpr_of_uexpr e)
  end
with xaccessor_of_uaccessor (a : uaccessor) : xaccessor :=
  match a with
  | AArray i => XAArray (xexpr_of_uexpr i)
  | ATuple i => XATuple i
  | AStruct f => XAStruct f
  end.

(* ParamDef { mutability, name, ty } *)
Record uparam := mkUParam { upa_mut : bool; upa_name : list N; upa_ty : utype }.

(* FnDef<()> { is_pub, identifier, ty, params, body } *)
Record ufndef := mkUFn {
  uf_pub : bool;
  uf_name : list N;
  uf_ty : utype;
  uf_params : list uparam;
  uf_body : list xstmt
}.

(* StructDef { fields } with its name (the key of Program::struct_defs) *)
Record ustructdef := mkUStruct { us_name : list N; us_fields : list (list N * utype) }.

(* Variant::Unit(name) | Variant::Tuple(name, types) *)
Inductive uvariant :=
| UVUnit (name : list N)
| UVTuple (name : list N) (tys : list utype).

Record uenumdef := mkUEnum { ue_name : list N; ue_variants : list uvariant }.

(* ConstExprEnum *)
Inductive uconstexpr :=
| CETrue
| CEFalse
| CENumUnsigned (n : N) (t : unsigned_num_type)
| CENumSigned (z : Z) (t : signed_num_type)
| CEExternalValue (party ident : list N)
| CEIdent (s : list N)
| CEMax (args : list uconstexpr)
| CEMin (args : list uconstexpr)
| CEAdd (a b : uconstexpr)
| CESub (a b : uconstexpr).

(* ConstDef { ty, value } with its name (the key of Program::const_defs) *)
Record uconstdef := mkUConst { uc_name : list N; uc_ty : utype; uc_value : uconstexpr }.

(* Program<()>: the four HashMaps as association lists (names pairwise distinct in each list, as
   in a HashMap); [up_consts] IN SOURCE ORDER (check.rs sorts the const definitions by their
   MetaInfo before it checks them).  [up_main] is not part of ast.rs: it is the name of the
   entry function the harness compiles, copied to [p_main] of the typed program. *)
Record uprogram := mkUProgram {
  up_consts : list uconstdef;
  up_structs : list ustructdef;
  up_enums : list uenumdef;
  up_fns : list ufndef;
  up_main : list N
}.

(* ------------------------------------------------------------------ the parser model's PROGRAM as the checker's input *)
Fixpoint uconstexpr_of_uconst (c : uconst) : uconstexpr :=
  match c with
  | CTrue => CETrue | CFalse => CEFalse
  | CNumUnsigned n t => CENumUnsigned n t
  | CNumSigned z t => CENumSigned z t
  | CExternalValue p i => CEExternalValue p i
  | CIdent s => CEIdent s
  | CMax args => CEMax (map uconstexpr_of_uconst args)
  | CMin args => CEMin (map uconstexpr_of_uconst args)
  | CAdd l r => CEAdd (uconstexpr_of_uconst l) (uconstexpr_of_uconst r)
  | CSub l r => CESub (uconstexpr_of_uconst l) (uconstexpr_of_uconst r)
  end.

Definition uvariant_of_parsed (v : ParseExpr.uvariant) : uvariant :=
  match v with VUnit n => UVUnit n | VTuple n ts => UVTuple n ts end.

Definition ufndef_of_parsed (f : ParseExpr.ufndef) : ufndef :=
  mkUFn (f_is_pub f) (f_identifier f) (f_ty f)
        (map (fun p => mkUParam (p_mutable p) (p_name p) (p_ty p)) (f_params f))
        (map xstmt_of_ustmt (f_body f)).

(* the association lists of the parser model are in source order with later definitions replacing
   earlier ones (HashMap::insert), so [up_consts] is in source order as check.rs needs it *)
Definition uprogram_of_parsed (P : ParseExpr.uprogram) (main : list N) : uprogram :=
  mkUProgram
    (map (fun c => mkUConst (fst c) (c_ty (snd c)) (uconstexpr_of_uconst (c_value (snd c)))) (up_const_defs P))
    (map (fun s => mkUStruct (fst s) (snd s)) (up_struct_defs P))
    (map (fun e => mkUEnum (fst e) (map uvariant_of_parsed (snd e))) (up_enum_defs P))
    (map (fun f => ufndef_of_parsed (snd f)) (up_fn_defs P))
    main.
